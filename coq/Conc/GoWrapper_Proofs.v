(* Conc/GoWrapper_Proofs.v — proofs about the level-2 model of one Go call
   (Conc/GoWrapper.v).  The pool has exactly four threads at fixed positions, so the
   invariant describes every reachable configuration explicitly: the shape of the
   pool, and a four-way conservation disjunction saying where the worker's outcome
   currently is (not yet sent / in its channel slot / returned by the caller / in
   the GoLostErrors sink). *)
From Coq Require Import ZifyBool.
From CV Require Import Conc.Sched Conc.GoWrapper.

Definition is_panic (o : outcome) : bool := match o with OutPanic _ => true | _ => false end.

(* the outcome sits in its own slot, the other slot is empty *)
Definition inslot (o : outcome) (sh : wshared) : Prop :=
  if is_panic o then w_errch sh = None /\ w_panicch sh = Some o
  else w_errch sh = Some o /\ w_panicch sh = None.
Definition noslot (sh : wshared) : Prop := w_errch sh = None /\ w_panicch sh = None.

Definition Inv (o : outcome) (pref : list branch) (lost : bool) (s : wshared * list wthread) : Prop :=
  let (sh, pool) := s in
  exists ws r ef wf,
    pool = [Worker o ws; Caller pref lost r; Env ef; Waiter wf] /\
    (r = CRCtxErr -> w_ctx_done sh = true /\ w_waiter_spawned sh = lost) /\
    (r <> CRCtxErr -> w_waiter_spawned sh = false) /\
    ( (ws = false /\ noslot sh /\ (r = CRNone \/ r = CRCtxErr) /\ w_sink sh = [] /\ wf = false)
   \/ (ws = true /\ inslot o sh /\ (r = CRNone \/ r = CRCtxErr) /\ w_sink sh = [] /\ wf = false)
   \/ (ws = true /\ noslot sh /\ r = CROutcome o /\ w_sink sh = [] /\ wf = false)
   \/ (ws = true /\ noslot sh /\ r = CRCtxErr /\ w_sink sh = [o] /\ wf = true) ).

Lemma inv_init o pref lost env : Inv o pref lost (winit, wpool o pref lost env).
Proof.
  unfold Inv, wpool. exists false, CRNone, (negb env), false.
  split; [reflexivity|]. split; [discriminate|]. split; [reflexivity|].
  left. unfold noslot. cbn. auto.
Qed.

Ltac inv_close :=
  unfold inslot, noslot, is_panic in *; cbn [w_errch w_panicch w_ctx_done w_waiter_spawned w_sink] in *;
  repeat match goal with
         | H : _ /\ _ |- _ => destruct H
         end;
  subst; try discriminate; try congruence; auto.

Lemma inv_step o pref lost s s' : Inv o pref lost s -> gstep wstep s s' -> Inv o pref lost s'.
Proof.
  intros HI Hs. destruct Hs as [sh pool i lo sh' lo' lb Hn Ht].
  destruct HI as (ws & r & ef & wf & -> & Hc & Hnc & Hcase).
  destruct sh as [e p c w k].
  destruct i as [|[|[|[|i]]]]; cbn in Hn.
  - (* worker *)
    inversion Hn; subst lo; clear Hn.
    destruct ws; [discriminate|].
    destruct Hcase as [H|[H|[H|H]]]; [|destruct H; discriminate..].
    destruct H as (_ & (He & Hp) & Hr & Hk & Hw). cbn in He, Hp, Hk, Hc, Hnc. subst e p k wf.
    assert (Ht' : sh' = {| w_errch := if is_panic o then None else Some o;
                           w_panicch := if is_panic o then Some o else None;
                           w_ctx_done := c; w_waiter_spawned := w; w_sink := [] |} /\ lo' = Worker o true).
    { destruct o; cbn in Ht; inversion Ht; subst; auto. }
    destruct Ht' as (-> & ->). clear Ht. cbn [upd].
    exists true, r, ef, false. split; [reflexivity|]. split; [exact Hc|]. split; [exact Hnc|].
    right; left. unfold inslot. cbn. destruct (is_panic o); auto 10.
  - (* caller *)
    inversion Hn; subst lo; clear Hn.
    destruct r; try discriminate. cbn [wstep] in Ht.
    destruct (find (ready _) pref) as [b|] eqn:F; [|discriminate].
    apply find_some in F. destruct F as [_ F].
    assert (Hw : w = false) by (apply Hnc; discriminate). cbn in Hw. subst w.
    destruct b; cbn in F, Ht.
    + inversion Ht; subst; clear Ht. cbn [upd].
      exists ws, CRCtxErr, ef, wf. split; [reflexivity|]. split; [cbn; auto|]. split; [congruence|].
      destruct Hcase as [H|[H|[H|H]]].
      * left. inv_close.
      * right; left. inv_close.
      * inv_close.
      * inv_close.
    + destruct e as [o'|]; [|discriminate]. inversion Ht; subst; clear Ht. cbn [upd].
      destruct Hcase as [H|[H|[H|H]]]; try solve [inv_close].
      destruct H as (-> & Hs & _ & Hk & ->). cbn in Hk. subst k.
      unfold inslot in Hs. cbn in Hs.
      destruct (is_panic o); destruct Hs as (Hs1 & Hs2); try discriminate.
      inversion Hs1; subst o' p.
      exists true, (CROutcome o), ef, false. split; [reflexivity|]. split; [discriminate|]. split; [reflexivity|].
      right; right; left. unfold noslot; cbn; auto 10.
    + destruct p as [o'|]; [|discriminate]. inversion Ht; subst; clear Ht. cbn [upd].
      destruct Hcase as [H|[H|[H|H]]]; try solve [inv_close].
      destruct H as (-> & Hs & _ & Hk & ->). cbn in Hk. subst k.
      unfold inslot in Hs. cbn in Hs.
      destruct (is_panic o); destruct Hs as (Hs1 & Hs2); try discriminate.
      inversion Hs2; subst o' e.
      exists true, (CROutcome o), ef, false. split; [reflexivity|]. split; [discriminate|]. split; [reflexivity|].
      right; right; left. unfold noslot; cbn; auto 10.
  - (* env *)
    inversion Hn; subst lo; clear Hn.
    destruct ef; [discriminate|]. cbn in Ht. inversion Ht; subst; clear Ht. cbn [upd].
    exists ws, r, true, wf. split; [reflexivity|].
    split; [intros Hr; destruct (Hc Hr); cbn in *; auto|]. split; [exact Hnc|].
    unfold inslot, noslot in *. cbn in *. exact Hcase.
  - (* waiter *)
    inversion Hn; subst lo; clear Hn.
    destruct wf; [discriminate|]. cbn in Ht.
    destruct w; [|discriminate].
    assert (Hr : r = CRCtxErr).
    { destruct r; auto; exfalso; assert (true = false) by (apply Hnc; discriminate); discriminate. }
    subst r. destruct (Hc eq_refl) as (Hc1 & Hc2). cbn in Hc1, Hc2. subst c lost.
    destruct Hcase as [H|[H|[H|H]]].
    + destruct H as (_ & (He & Hp) & _). cbn in He, Hp. subst e p. discriminate.
    + destruct H as (-> & Hs & _ & Hk & _). cbn in Hk. subst k.
      unfold inslot in Hs. cbn in Hs.
      destruct (is_panic o); destruct Hs as (Hs1 & Hs2); subst e p; inversion Ht; subst; clear Ht; cbn [upd];
        exists true, CRCtxErr, ef, true; (split; [reflexivity|]); (split; [cbn; auto|]); (split; [congruence|]);
        right; right; right; unfold noslot; cbn; auto 10.
    + destruct H as (_ & _ & H & _). discriminate.
    + destruct H as (_ & _ & _ & _ & H). discriminate.
  - destruct i; discriminate.
Qed.

Lemma inv_all o pref lost env s : reach wstep (winit, wpool o pref lost env) s -> Inv o pref lost s.
Proof.
  apply inv_reach; [apply inv_init|]. intros; eapply inv_step; eauto.
Qed.

(* ---------- the five statements of Properties/C18.v ---------- *)

Theorem at_most_once (o : outcome) (pref : list branch) (lost env : bool) :
  forall s, reach wstep (winit, wpool o pref lost env) s ->
  (surfaced (fst s) (snd s) + in_channel (fst s) + b2n (negb (worker_sent (snd s))) = 1)%nat /\
  (forall o', caller_result (snd s) = CROutcome o' -> o' = o) /\
  (forall o', In o' (w_sink (fst s)) -> o' = o).
Proof.
  intros [sh pool] Hr. apply inv_all in Hr.
  destruct Hr as (ws & r & ef & wf & -> & Hc & Hnc & Hcase).
  unfold surfaced, in_channel, caller_result, worker_sent. cbn [fst snd nth_error].
  destruct Hcase as [H|[H|[H|H]]].
  - destruct H as (-> & (He & Hp) & Hr & Hk & _). rewrite He, Hp, Hk.
    split; [destruct Hr; subst r; reflexivity|].
    split; [intros o' E; destruct Hr; subst r; discriminate|]. intros o' [].
  - destruct H as (-> & Hs & Hr & Hk & _). rewrite Hk. unfold inslot in Hs.
    split; [destruct (is_panic o); destruct Hs as (-> & ->); destruct Hr; subst r; reflexivity|].
    split; [intros o' E; destruct Hr; subst r; discriminate|]. intros o' [].
  - destruct H as (-> & (He & Hp) & -> & Hk & _). rewrite He, Hp, Hk.
    split; [reflexivity|]. split; [intros o' E; congruence|]. intros o' [].
  - destruct H as (-> & (He & Hp) & -> & Hk & _). rewrite He, Hp, Hk.
    split; [reflexivity|]. split; [intros o' E; discriminate|]. intros o' [E|[]]; auto.
Qed.

Theorem caller_enabled (o : outcome) (pref : list branch) (lost env : bool)
  (Hpref : forall b, In b pref) :
  forall s, reach wstep (winit, wpool o pref lost env) s ->
  caller_result (snd s) = CRNone ->
  (w_ctx_done (fst s) = true \/ (1 <= in_channel (fst s))%nat) ->
  exists x, wstep (fst s) (Caller pref lost CRNone) = Some x.
Proof.
  intros [sh pool] _ _ Hen. cbn [fst snd] in *. cbn [wstep].
  destruct (find (ready sh) pref) as [b|] eqn:F.
  - apply find_some in F. destruct F as [_ F].
    destruct b; cbn in F.
    + eauto.
    + destruct (w_errch sh); [eauto|discriminate].
    + destruct (w_panicch sh); [eauto|discriminate].
  - exfalso. pose proof (find_none _ _ F) as N.
    pose proof (N BCtx (Hpref _)) as N1. pose proof (N BErr (Hpref _)) as N2.
    pose proof (N BPanic (Hpref _)) as N3. cbn in N1, N2, N3.
    destruct Hen as [Hen|Hen]; [congruence|].
    unfold in_channel in Hen.
    destruct (w_errch sh); [discriminate|]. destruct (w_panicch sh); [discriminate|].
    cbn in Hen. lia.
Qed.

Theorem ctx_error (o : outcome) (pref : list branch) (lost env : bool) :
  forall s, reach wstep (winit, wpool o pref lost env) s ->
  caller_result (snd s) = CRCtxErr -> w_ctx_done (fst s) = true.
Proof.
  intros [sh pool] Hr. apply inv_all in Hr.
  destruct Hr as (ws & r & ef & wf & -> & Hc & Hnc & Hcase).
  unfold caller_result. cbn [fst snd nth_error]. intros E. apply Hc, E.
Qed.

Theorem no_orphans (o : outcome) (pref : list branch) (lost env : bool) :
  forall s, reach wstep (winit, wpool o pref lost env) s ->
  (worker_sent (snd s) = false -> exists x, wstep (fst s) (Worker o false) = Some x) /\
  (w_waiter_spawned (fst s) = true -> worker_sent (snd s) = true -> waiter_done (snd s) = false ->
   exists x, wstep (fst s) (Waiter false) = Some x).
Proof.
  intros [sh pool] Hr. apply inv_all in Hr.
  destruct Hr as (ws & r & ef & wf & -> & Hc & Hnc & Hcase).
  unfold worker_sent, waiter_done. cbn [fst snd nth_error]. split.
  - intros ->. destruct Hcase as [H|[H|[H|H]]]; try (destruct H; discriminate).
    destruct H as (_ & (He & Hp) & _). cbn [wstep]. rewrite He, Hp. destruct o; eauto.
  - intros Hsp -> ->. cbn [wstep]. rewrite Hsp.
    destruct Hcase as [H|[H|[H|H]]].
    + destruct H; discriminate.
    + destruct H as (_ & Hs & _). unfold inslot in Hs.
      destruct (is_panic o); destruct Hs as (-> & ->); eauto.
    + destruct H as (_ & _ & -> & _). rewrite Hnc in Hsp; [discriminate|discriminate].
    + destruct H as (_ & _ & _ & _ & H). discriminate.
Qed.

Theorem exactly_once (o : outcome) (pref : list branch) (lost env : bool)
  (Hpref : forall b, In b pref) :
  forall s, reach wstep (winit, wpool o pref lost env) s -> quiescent (fst s) (snd s) ->
  caller_result (snd s) <> CRNone /\ worker_sent (snd s) = true /\
  (lost = true -> surfaced (fst s) (snd s) = 1%nat).
Proof.
  intros s Hr Hq.
  pose proof (no_orphans o pref lost env s Hr) as (Hw & Hwt).
  pose proof (caller_enabled o pref lost env Hpref s Hr) as Hce.
  destruct s as [sh pool]. apply inv_all in Hr.
  destruct Hr as (ws & r & ef & wf & -> & Hc & Hnc & Hcase).
  unfold quiescent in Hq. cbn [fst snd] in *.
  inversion Hq as [|? ? Q0 Hq1]; subst. inversion Hq1 as [|? ? Q1 Hq2]; subst.
  inversion Hq2 as [|? ? Q2 Hq3]; subst. inversion Hq3 as [|? ? Q3 _]; subst.
  unfold surfaced, caller_result, worker_sent, waiter_done, in_channel in *. cbn [nth_error] in *.
  assert (Hws : ws = true).
  { destruct ws; auto. destruct (Hw eq_refl) as [x Hx]. congruence. }
  subst ws.
  assert (Hrn : r <> CRNone).
  { intros ->. destruct Hce as [x Hx]; [reflexivity| |congruence].
    right. destruct Hcase as [H|[H|[H|H]]].
    - destruct H; discriminate.
    - destruct H as (_ & Hs & _). unfold inslot in Hs.
      destruct (is_panic o); destruct Hs as (-> & ->); cbn; lia.
    - destruct H as (_ & _ & H & _). discriminate.
    - destruct H as (_ & _ & H & _). discriminate. }
  split; [exact Hrn|]. split; [reflexivity|].
  intros ->.
  destruct Hcase as [H|[H|[H|H]]].
  - destruct H; discriminate.
  - exfalso. destruct H as (_ & Hs & Hr' & _ & ->).
    destruct Hr' as [->| ->]; [congruence|].
    destruct (Hc eq_refl) as (_ & Hsp).
    destruct (Hwt Hsp eq_refl eq_refl) as [x Hx]. congruence.
  - destruct H as (_ & _ & -> & -> & _). reflexivity.
  - destruct H as (_ & _ & -> & -> & _). reflexivity.
Qed.
