(* Conc/ManagerConc.v — circuit.Manager as an instance of Conc/Serial.v: the
   operations are those of the level-1 model Seq/Manager.v. *)
From CV Require Import Base.Prelude Conc.Sched Conc.Serial Seq.Manager.

Definition mgr_is_write (o : mop) : bool := match o with MCreate _ _ => true | _ => false end.
(* what the harness observes of a result: create -> 1 + circuit id (0: name exists); get -> 1 + id (0: none); all -> count *)
Definition mgr_code (defaults : list ctor) (s : mstate) (o : mop) : Z :=
  match snd (m_step defaults s o) with
  | MCreated id _ _ => 1 + Z.of_nat id
  | MExists => 0
  | MFound (Some id) => 1 + Z.of_nat id
  | MFound None => 0
  | MList l => Z.of_nat (length l)
  | MStatsLive _ => 0
  end.
Definition mgr_apply (defaults : list ctor) (s : mstate) (o : mop) : mstate := fst (m_step defaults s o).
Definition mgr_step (defaults : list ctor) := sstep (mgr_apply defaults) (mgr_code defaults) mgr_is_write.

Definition mgrc_case : Type := nat * list ctor * list mop * list (nat * lab).
Definition mgrc_mismatches (cs : list mgrc_case) : list (nat * (nat * option (nat * lab))) :=
  flat_map (fun c : mgrc_case =>
    let '(id, defaults, ops, tr) := c in
    let '(m, _, ok) := replay (mgr_step defaults) (map fst tr) (sinit m_init) (map sthread0 ops) in
    match trace_diff 0 m tr with
    | None => []
    | Some d => [(id, d)]
    end) cs.
