(* Conc/CounterConc_Proofs.v — invariants of the level-2 rolling-counter model
   (Conc/CounterConc.v) over every interleaving, and the five statements used by
   Properties/C14.v.

   Organisation: every fact about one atomic step is proved thread-locally
   (step_facts, step_static: what one step of one thread does to the shared state
   and to that thread's contribution to each pool-level quantity); the pool-level
   invariant is then re-established by generic lemmas about `upd`. *)
From Coq Require Import ZifyBool.
From CV Require Import Conc.Sched Conc.CounterConc.

(* ---------- lists of integers: getz / setz / zsum ---------- *)
Lemma setnth_length : forall l i x, length (setnth i x l) = length l.
Proof. induction l as [|h t IH]; intros [|j] x; simpl; auto. Qed.
Lemma setz_length l j x : length (setz l j x) = length l.
Proof. apply setnth_length. Qed.

Lemma zsum_setnth : forall l i x, (i < length l)%nat ->
  zsum (setnth i x l) = zsum l - nth i l 0 + x.
Proof.
  induction l as [|h t IH]; intros [|j] x H; simpl in *; try lia.
  rewrite IH by lia. lia.
Qed.
Lemma zsum_setz l j x : 0 <= j < Z.of_nat (length l) ->
  zsum (setz l j x) = zsum l - getz l j + x.
Proof. intros H. unfold setz, getz. apply zsum_setnth. lia. Qed.

Lemma Forall_setnth (P : Z -> Prop) : forall l i x, Forall P l -> P x -> Forall P (setnth i x l).
Proof. induction l; intros [|j] x Hl Hx; simpl; inversion Hl; subst; constructor; auto. Qed.
Lemma Forall_setz (P : Z -> Prop) l j x : Forall P l -> P x -> Forall P (setz l j x).
Proof. apply Forall_setnth. Qed.

Lemma getz_nonneg l j : Forall (fun x => 0 <= x) l -> 0 <= getz l j.
Proof.
  intros H. unfold getz. generalize (Z.to_nat j) as k.
  induction H as [|x l Hx Hl IH]; intros [|k]; simpl; auto; lia.
Qed.
Lemma zsum_nonneg l : Forall (fun x => 0 <= x) l -> 0 <= zsum l.
Proof. induction 1; simpl; lia. Qed.

(* ---------- the pool under `upd` ---------- *)
Lemma map_upd {A B} (f : A -> B) : forall l i old new,
  nth_error l i = Some old -> f new = f old -> map f (upd i new l) = map f l.
Proof.
  induction l as [|h t IH]; intros [|j] old new H E; simpl in *; try discriminate; auto.
  - inversion H; subst. now rewrite E.
  - now rewrite (IH j old new H E).
Qed.
Lemma upd_length {A} : forall (l : list A) i x, length (upd i x l) = length l.
Proof. induction l; intros [|j] x; simpl; auto. Qed.

Lemma pending_sum_upd : forall pool i old new,
  nth_error pool i = Some old ->
  pending_sum (upd i new pool) = pending_sum pool - pending old + pending new.
Proof.
  unfold pending_sum.
  induction pool as [|h t IH]; intros [|j] old new H; simpl in *; try discriminate.
  - inversion H; subst. lia.
  - rewrite (IH j old new H). lia.
Qed.

Lemma max_requested_upd pool i old new :
  nth_error pool i = Some old -> abs_of new = abs_of old ->
  max_requested (upd i new pool) = max_requested pool.
Proof. intros H E. unfold max_requested. now rewrite (map_upd abs_of pool i old new H E). Qed.

Lemma max_requested_ge : forall pool i t, nth_error pool i = Some t -> abs_of t <= max_requested pool.
Proof.
  unfold max_requested.
  induction pool as [|h r IH]; intros [|j] t H; simpl in *; try discriminate.
  - inversion H; subst. lia.
  - specialize (IH j t H). lia.
Qed.
Lemma max_requested_le pool x :
  0 <= x -> Forall (fun t => abs_of t <= x) pool -> max_requested pool <= x.
Proof. intros Hx H. unfold max_requested. induction H; simpl; lia. Qed.

Lemma cnt_ext (p q : cthread -> bool) l :
  Forall (fun t => p t = q t) l -> cnt p l = cnt q l.
Proof.
  induction 1 as [|x l Hx Hl IH]; [reflexivity|]. now rewrite !cnt_cons, Hx, IH.
Qed.

(* ---------- what the theorems count ---------- *)
(* an Inc that will not add to a bucket any more: it has done so, or returned without *)
Definition past_add (t : cthread) : bool :=
  is_inc t && match t_pc t with PIncSum | PFinish _ | PDone _ => true | _ => false end.
(* in the static case: an in-window Inc whose bucket add has happened *)
Definition added (n L : Z) (t : cthread) : bool :=
  inc_in_window n L t && match t_pc t with PIncSum | PFinish _ | PDone _ => true | _ => false end.

Definition abs_le (t : cthread) (x : Z) : Prop :=
  match t_abs t with Some a => a <= x | None => True end.

Section Proofs.
Variables (n : Z) (sh0 : cshared) (pool0 : list cthread).
Hypothesis Hn : 0 < n.
Hypothesis Hwf : wf0 n sh0.
Hypothesis Hpool : all_started pool0.

(* per-thread invariant; `last` is the current newest index *)
Definition tinv (last : Z) (t : cthread) : Prop :=
  match t_abs t with Some a => 0 <= a | None => True end /\
  match t_pc t with
  | PStart => t_op t = CInc
  | PAdv => True
  | PLoop _ lv | PClearSwap _ lv | PClearAdd _ lv _ =>
      match t_abs t with Some a => lv <= a | None => True end
  | PIncSlot j => t_op t = CInc /\ 0 <= j < n /\ abs_le t last
  | PIncSum => t_op t = CInc /\ abs_le t last
  | PSumLoad => t_op t = CSum /\ abs_le t last
  | PBkLast | PBk _ _ => t_op t = CBuckets /\ abs_le t last
  | PRs k | PRsAdd k _ => t_op t = CReset /\ 0 <= k < n /\ abs_le t last
  | PFinish _ | PDone _ => abs_le t last
  end.

Lemma tinv_mono last last' t : last <= last' -> tinv last t -> tinv last' t.
Proof.
  intros Hl [H1 H2]. split; [exact H1|].
  destruct t as [op [a|] pc]; destruct pc; unfold abs_le in *; cbn in *; intuition lia.
Qed.

Ltac break_if :=
  repeat match goal with
  | H : context [if ?b then _ else _] |- _ => destruct b eqn:?
  | |- context [if ?b then _ else _] => destruct b eqn:?
  end.

Ltac fin :=
  repeat match goal with
  | |- context [zsum (setz _ _ _)] => rewrite zsum_setz by lia
  | |- context [length (setz _ _ _)] => rewrite setz_length
  end;
  try lia.

(* ---------- one step of one thread ---------- *)
Lemma step_facts sh t sh' t' l :
  cstep n sh t = Some (sh', t', l) ->
  tinv (c_last sh) t ->
  Z.of_nat (length (c_slots sh)) = n ->
  Forall (fun x => 0 <= x) (c_slots sh) ->
  (t_op t' = t_op t /\ t_abs t' = t_abs t) /\
  tinv (c_last sh') t' /\
  (c_last sh <= c_last sh' <= Z.max (c_last sh) (abs_of t)) /\
  Z.of_nat (length (c_slots sh')) = n /\
  Forall (fun x => 0 <= x) (c_slots sh') /\
  c_tsum sh' = c_tsum sh - b2z (inc_counted t) + b2z (inc_counted t') /\
  c_rsum sh' - pending t + pending t' - zsum (c_slots sh') = c_rsum sh - zsum (c_slots sh) /\
  zsum (c_slots sh') - b2z (past_add t') <= zsum (c_slots sh) - b2z (past_add t).
Proof.
  intros Hs [Ha Hp] Hlen Hnn.
  pose proof (fun j => getz_nonneg (c_slots sh) j Hnn) as Hg.
  destruct t as [op a pc]. unfold cstep in Hs.
  destruct pc; cbn [t_pc t_op t_abs with_pc] in *.

  all: destruct a as [a|]; destruct op;
       cbn [enter_adv after_adv t_pc t_op t_abs with_pc] in Hs; break_if; try discriminate;
       inversion Hs; subst; clear Hs;
       unfold tinv, abs_le, inc_counted, past_add, is_inc, pending, abs_of in *;
       cbn [t_pc t_op t_abs with_pc c_last c_slots c_rsum c_tsum b2z andb] in *;
       repeat match goal with H : _ /\ _ |- _ => destruct H end; try discriminate.
  all: repeat match goal with |- context [?x mod n] =>
         lazymatch goal with H : 0 <= x mod n < n |- _ => fail | _ => pose proof (Z.mod_pos_bound x n Hn) end end.
  all: repeat match goal with |- context [getz ?l ?x] =>
         lazymatch goal with H : 0 <= getz l x |- _ => fail | _ => pose proof (Hg x) end end.
  all: repeat split; try assumption; try (apply Forall_setz; [assumption|]); fin.
Qed.

(* ---------- the invariant of every reachable state ---------- *)
Definition Inv (s : cshared * list cthread) : Prop :=
  cnt is_inc (snd s) = cnt is_inc pool0 /\
  max_requested (snd s) = max_requested pool0 /\
  Z.of_nat (length (c_slots (fst s))) = n /\
  Forall (fun x => 0 <= x) (c_slots (fst s)) /\
  Forall (tinv (c_last (fst s))) (snd s) /\
  c_tsum (fst s) = c_tsum sh0 + cnt inc_counted (snd s) /\
  c_rsum (fst s) + pending_sum (snd s) = zsum (c_slots (fst s)) /\
  zsum (c_slots (fst s)) <= zsum (c_slots sh0) + cnt past_add (snd s) /\
  c_last sh0 <= c_last (fst s) <= Z.max (c_last sh0) (max_requested pool0).

Lemma inv_step s s' : Inv s -> gstep (cstep n) s s' -> Inv s'.
Proof.
  intros HI Hs. destruct Hs as [sh pool i t sh' t' lb Hnth Hst].
  unfold Inv in *; cbn [fst snd] in *.
  destruct HI as (Hinc & Hmax & Hlen & Hnn & Ht & Hts & Hpr & Hpa & Hl).
  pose proof (nth_error_Forall _ _ _ _ _ Ht Hnth) as Hti.
  destruct (step_facts _ _ _ _ _ Hst Hti Hlen Hnn)
    as ((Eop & Eabs) & Hti' & Hl' & Hlen' & Hnn' & Hts' & Hpr' & Hpa').
  assert (Eabs' : abs_of t' = abs_of t) by (unfold abs_of; now rewrite Eabs).
  assert (Einc : is_inc t' = is_inc t) by (unfold is_inc; now rewrite Eop).
  pose proof (max_requested_ge _ _ _ Hnth) as Hge.
  repeat split.
  - rewrite (cnt_upd _ is_inc _ _ _ _ Hnth), Einc. lia.
  - rewrite (max_requested_upd _ _ _ _ Hnth Eabs'). exact Hmax.
  - exact Hlen'.
  - exact Hnn'.
  - apply Forall_upd; [|exact Hti'].
    eapply Forall_impl; [|exact Ht]. intros x. apply tinv_mono. lia.
  - rewrite (cnt_upd _ inc_counted _ _ _ _ Hnth). lia.
  - rewrite (pending_sum_upd _ _ _ _ Hnth). lia.
  - rewrite (cnt_upd _ past_add _ _ _ _ Hnth). lia.
  - lia.
  - lia.
Qed.

(* the threads before their first step *)
Lemma thread0_facts op a L :
  match a with Some x => 0 <= x | None => True end ->
  let t := thread0 op a in
  tinv L t /\ inc_counted t = false /\ pending t = 0 /\ past_add t = false /\
  added n L t = false /\ t_abs t = a /\ t_op t = op /\
  match t_pc t with
  | PLoop _ _ | PClearSwap _ _ | PClearAdd _ _ _ | PIncSlot _ | PIncSum => False
  | _ => True
  end.
Proof.
  intros Ha. destruct op, a as [a|];
    unfold tinv, abs_le, inc_counted, past_add, added, inc_in_window, is_inc, pending;
    cbn; rewrite ?andb_false_r; repeat split; auto; lia.
Qed.

Lemma inv_init : Inv (sh0, pool0).
Proof.
  destruct Hwf as (Hlen & Hnn & Hrs & Hrt & Hl0).
  unfold Inv; cbn [fst snd].
  assert (H0 : Forall (fun t => tinv (c_last sh0) t /\ inc_counted t = false /\
                                pending t = 0 /\ past_add t = false) pool0).
  { eapply Forall_impl; [|exact Hpool]. intros t (op & a & -> & Ha).
    pose proof (thread0_facts op a (c_last sh0) Ha) as H. cbv zeta in H. tauto. }
  assert (Hc : cnt inc_counted pool0 = 0).
  { apply cnt_zero. eapply Forall_impl; [|exact H0]. cbv beta. tauto. }
  assert (Hp : cnt past_add pool0 = 0).
  { apply cnt_zero. eapply Forall_impl; [|exact H0]. cbv beta. tauto. }
  assert (Hpe : pending_sum pool0 = 0).
  { unfold pending_sum. clear -H0. induction H0 as [|x l Hx Hl IH]; [reflexivity|].
    cbn [map zsum fold_right]. unfold zsum in IH. destruct Hx as (_ & _ & -> & _). lia. }
  repeat split; auto; try lia.
  eapply Forall_impl; [|exact H0]. cbv beta. tauto.
Qed.

Lemma inv_reachable s : reach (cstep n) (sh0, pool0) s -> Inv s.
Proof. apply inv_reach; [apply inv_init | apply inv_step]. Qed.

(* ---------- once every operation has returned ---------- *)
Lemma done_counted pool : all_done pool -> cnt inc_counted pool = cnt is_inc pool.
Proof.
  intros H. apply cnt_ext. eapply Forall_impl; [|exact H].
  intros [op a pc]; unfold c_done, inc_counted; cbn. destruct pc; try discriminate.
  intros _. apply andb_true_r.
Qed.
Lemma done_pending pool : all_done pool -> pending_sum pool = 0.
Proof.
  unfold pending_sum. induction 1 as [|x l Hx Hl IH]; [reflexivity|].
  cbn [map zsum fold_right]. unfold zsum in IH. rewrite IH.
  destruct x as [op a pc]; unfold c_done, pending in *; cbn in *. destruct pc; try discriminate. lia.
Qed.
Lemma done_abs pool L : all_done pool -> 0 <= L -> Forall (tinv L) pool -> max_requested pool <= L.
Proof.
  intros Hd HL Ht. apply max_requested_le; [exact HL|].
  unfold all_done in Hd. rewrite Forall_forall in *. intros t Hin. specialize (Hd t Hin). specialize (Ht t Hin).
  destruct t as [op a pc]; unfold c_done, tinv, abs_le, abs_of in *; cbn in *.
  destruct pc; try discriminate. destruct a; lia.
Qed.
Lemma past_add_counted pool : cnt past_add pool <= cnt inc_counted pool.
Proof.
  apply cnt_le_mono. intros [op a pc]; unfold past_add, inc_counted; cbn.
  destruct pc; rewrite ?andb_false_r, ?andb_true_r; auto; discriminate.
Qed.

Lemma total_spec_ : forall s, reach (cstep n) (sh0, pool0) s ->
  c_tsum (fst s) = c_tsum sh0 + cnt inc_counted (snd s) /\
  (all_done (snd s) -> c_tsum (fst s) = c_tsum sh0 + cnt is_inc pool0).
Proof.
  intros s Hr. destruct (inv_reachable s Hr) as (Hinc & _ & _ & _ & _ & Hts & _).
  split; [exact Hts|]. intros Hd. rewrite Hts, (done_counted _ Hd), Hinc. reflexivity.
Qed.

Lemma paired_spec_ : forall s, reach (cstep n) (sh0, pool0) s ->
  c_rsum (fst s) + pending_sum (snd s) = zsum (c_slots (fst s)) /\
  (all_done (snd s) -> c_rsum (fst s) = zsum (c_slots (fst s))).
Proof.
  intros s Hr. destruct (inv_reachable s Hr) as (_ & _ & _ & _ & _ & _ & Hpr & _).
  split; [exact Hpr|]. intros Hd. rewrite (done_pending _ Hd) in Hpr. lia.
Qed.

Lemma range_spec_ : forall s, reach (cstep n) (sh0, pool0) s ->
  Forall (fun x => 0 <= x) (c_slots (fst s)) /\
  (all_done (snd s) -> 0 <= c_rsum (fst s) <= c_tsum (fst s)).
Proof.
  intros s Hr. destruct (inv_reachable s Hr) as (_ & _ & _ & Hnn & _ & Hts & Hpr & Hpa & _).
  split; [exact Hnn|]. intros Hd. rewrite (done_pending _ Hd) in Hpr.
  pose proof (zsum_nonneg _ Hnn). pose proof (past_add_counted (snd s)).
  destruct Hwf as (_ & _ & Hrs & Hrt & _). lia.
Qed.

Lemma newest_index_spec_ : forall s, reach (cstep n) (sh0, pool0) s ->
  c_last sh0 <= c_last (fst s) <= Z.max (c_last sh0) (max_requested pool0) /\
  (all_done (snd s) -> c_last (fst s) = Z.max (c_last sh0) (max_requested pool0)).
Proof.
  intros s Hr. destruct (inv_reachable s Hr) as (_ & Hmax & _ & _ & Ht & _ & _ & _ & Hl).
  split; [exact Hl|]. intros Hd.
  destruct Hwf as (_ & _ & _ & _ & Hl0).
  assert (H : max_requested (snd s) <= c_last (fst s)) by (apply done_abs; auto; lia).
  lia.
Qed.

(* ---------- the static case: nothing rolls the window ---------- *)
Definition static_t (L : Z) (t : cthread) : Prop :=
  is_reset t = false /\ abs_of t <= L /\
  match t_pc t with
  | PLoop _ _ | PClearSwap _ _ | PClearAdd _ _ _ => False
  | PIncSlot _ | PIncSum => inc_in_window n L t = true
  | _ => True
  end.

Lemma step_static sh t sh' t' l :
  cstep n sh t = Some (sh', t', l) ->
  tinv (c_last sh) t ->
  Z.of_nat (length (c_slots sh)) = n ->
  static_t (c_last sh) t ->
  c_last sh' = c_last sh /\ static_t (c_last sh) t' /\
  zsum (c_slots sh') - b2z (added n (c_last sh) t') = zsum (c_slots sh) - b2z (added n (c_last sh) t).
Proof.
  intros Hs [Ha Hp] Hlen (Hr & Hle & Hst).
  destruct t as [op a pc]. unfold cstep in Hs.
  destruct pc; cbn [t_pc t_op t_abs with_pc] in *.
  all: destruct a as [a|]; destruct op;
       cbn [enter_adv after_adv t_pc t_op t_abs with_pc] in Hs; break_if; try discriminate;
       inversion Hs; subst; clear Hs;
       unfold static_t, added, inc_in_window, tinv, abs_le, is_reset, is_inc, abs_of in *;
       cbn [t_pc t_op t_abs with_pc c_last c_slots c_rsum c_tsum b2z andb] in *;
       repeat match goal with H : _ /\ _ |- _ => destruct H end; try discriminate; try contradiction.
  all: repeat split; auto; rewrite ?andb_true_r, ?andb_false_r; unfold b2z; break_if; fin.
Qed.

Section Static.
Hypothesis Hstat : max_requested pool0 <= c_last sh0.
Hypothesis Hnoreset : Forall (fun t => is_reset t = false) pool0.
Let L := c_last sh0.

Definition SInv (s : cshared * list cthread) : Prop :=
  Inv s /\
  c_last (fst s) = L /\
  Forall (static_t L) (snd s) /\
  zsum (c_slots (fst s)) = zsum (c_slots sh0) + cnt (added n L) (snd s) /\
  cnt (inc_in_window n L) (snd s) = cnt (inc_in_window n L) pool0.

Lemma sinv_step s s' : SInv s -> gstep (cstep n) s s' -> SInv s'.
Proof.
  intros (HI & HL & Hst & Hz & Hw) Hs. split; [exact (inv_step _ _ HI Hs)|].
  destruct Hs as [sh pool i t sh' t' lb Hnth Hstep].
  unfold Inv in HI; cbn [fst snd] in *.
  destruct HI as (_ & _ & Hlen & Hnn & Ht & _).
  pose proof (nth_error_Forall _ _ _ _ _ Ht Hnth) as Hti.
  pose proof (nth_error_Forall _ _ _ _ _ Hst Hnth) as Hsi.
  destruct (step_facts _ _ _ _ _ Hstep Hti Hlen Hnn) as ((Eop & Eabs) & _).
  rewrite <- HL in Hsi.
  destruct (step_static _ _ _ _ _ Hstep Hti Hlen Hsi) as (HL' & Hsi' & Hz').
  rewrite HL in *.
  assert (Ew : inc_in_window n L t' = inc_in_window n L t)
    by (unfold inc_in_window, is_inc; now rewrite Eop, Eabs).
  repeat split.
  - lia.
  - apply Forall_upd; assumption.
  - rewrite (cnt_upd _ (added n L) _ _ _ _ Hnth). lia.
  - rewrite (cnt_upd _ (inc_in_window n L) _ _ _ _ Hnth), Ew. lia.
Qed.

Lemma abs_le_max : forall pool x, max_requested pool <= x -> Forall (fun t => abs_of t <= x) pool.
Proof.
  unfold max_requested. induction pool as [|h r IH]; intros x H; constructor; cbn in H.
  - lia.
  - apply IH. lia.
Qed.

Lemma sinv_init : SInv (sh0, pool0).
Proof.
  split; [apply inv_init|]. cbn [fst snd]. repeat split.
  - pose proof (abs_le_max _ _ Hstat) as Hle. fold L in Hle.
    unfold all_started in Hpool. rewrite Forall_forall in *.
    intros t Hin. specialize (Hle t Hin). specialize (Hnoreset t Hin).
    destruct (Hpool t Hin) as (op & a & -> & Ha).
    pose proof (thread0_facts op a L Ha) as H. cbv zeta in H.
    unfold static_t. repeat split; auto.
    destruct H as (_ & _ & _ & _ & _ & _ & _ & H).
    destruct (t_pc (thread0 op a)); auto; contradiction.
  - rewrite (cnt_zero _ (added n L)); [lia|].
    eapply Forall_impl; [|exact Hpool]. intros t (op & a & -> & Ha).
    pose proof (thread0_facts op a L Ha) as H. cbv zeta in H. tauto.
Qed.

Lemma done_added pool : all_done pool -> cnt (added n L) pool = cnt (inc_in_window n L) pool.
Proof.
  intros H. apply cnt_ext. eapply Forall_impl; [|exact H].
  intros [op a pc]; unfold c_done, added; cbn. destruct pc; try discriminate.
  intros _. apply andb_true_r.
Qed.

Lemma exact_when_static_ s : reach (cstep n) (sh0, pool0) s -> all_done (snd s) ->
  c_rsum (fst s) = c_rsum sh0 + cnt (inc_in_window n (c_last sh0)) pool0.
Proof.
  intros Hr Hd.
  assert (HS : SInv s) by (eapply inv_reach; [apply sinv_init | apply sinv_step | exact Hr]).
  destruct HS as (HI & _ & _ & Hz & Hw).
  destruct HI as (_ & _ & _ & _ & _ & _ & Hpr & _).
  rewrite (done_pending _ Hd) in Hpr. rewrite (done_added _ Hd), Hw in Hz.
  destruct Hwf as (_ & _ & Hrs & _). fold L. lia.
Qed.
End Static.
End Proofs.

(* ---------- the statements used by Properties/C14.v ---------- *)
Lemma total_spec (n : Z) (sh0 : cshared) (pool0 : list cthread)
  (Hn : 0 < n) (Hwf : wf0 n sh0) (Hpool : all_started pool0) :
  forall s, reach (cstep n) (sh0, pool0) s ->
  c_tsum (fst s) = c_tsum sh0 + cnt inc_counted (snd s) /\
  (all_done (snd s) -> c_tsum (fst s) = c_tsum sh0 + cnt is_inc pool0).
Proof. exact (total_spec_ n sh0 pool0 Hn Hwf Hpool). Qed.

Lemma paired_spec (n : Z) (sh0 : cshared) (pool0 : list cthread)
  (Hn : 0 < n) (Hwf : wf0 n sh0) (Hpool : all_started pool0) :
  forall s, reach (cstep n) (sh0, pool0) s ->
  c_rsum (fst s) + pending_sum (snd s) = zsum (c_slots (fst s)) /\
  (all_done (snd s) -> c_rsum (fst s) = zsum (c_slots (fst s))).
Proof. exact (paired_spec_ n sh0 pool0 Hn Hwf Hpool). Qed.

Lemma range_spec (n : Z) (sh0 : cshared) (pool0 : list cthread)
  (Hn : 0 < n) (Hwf : wf0 n sh0) (Hpool : all_started pool0) :
  forall s, reach (cstep n) (sh0, pool0) s ->
  Forall (fun x => 0 <= x) (c_slots (fst s)) /\
  (all_done (snd s) -> 0 <= c_rsum (fst s) <= c_tsum (fst s)).
Proof. exact (range_spec_ n sh0 pool0 Hn Hwf Hpool). Qed.

Lemma newest_index_spec (n : Z) (sh0 : cshared) (pool0 : list cthread)
  (Hn : 0 < n) (Hwf : wf0 n sh0) (Hpool : all_started pool0) :
  forall s, reach (cstep n) (sh0, pool0) s ->
  c_last sh0 <= c_last (fst s) <= Z.max (c_last sh0) (max_requested pool0) /\
  (all_done (snd s) -> c_last (fst s) = Z.max (c_last sh0) (max_requested pool0)).
Proof. exact (newest_index_spec_ n sh0 pool0 Hn Hwf Hpool). Qed.

Lemma exact_when_static (n : Z) (sh0 : cshared) (pool0 : list cthread)
  (Hn : 0 < n) (Hwf : wf0 n sh0) (Hpool : all_started pool0) :
  forall s, reach (cstep n) (sh0, pool0) s ->
  max_requested pool0 <= c_last sh0 -> Forall (fun t => is_reset t = false) pool0 ->
  all_done (snd s) ->
  c_rsum (fst s) = c_rsum sh0 + cnt (inc_in_window n (c_last sh0)) pool0.
Proof.
  intros s Hr Hstat Hnr Hd.
  exact (exact_when_static_ n sh0 pool0 Hn Hwf Hpool Hstat Hnr s Hr Hd).
Qed.
