(* Conc/Lockset.v — lock discipline => no data race; ranked acquisition => no deadlock.

   The objects are what harness/cmd/translate (mode "access") reads off the
   working tree: a table of accesses to plain (non-atomic) fields of shared
   objects, each with the locks its function holds at that point, and the
   lock-order graph (lock B acquired while A is held, directly or through
   calls).  This file defines

     - the boolean checks run on the generated table (discipline_ok, edges_ranked),
     - an interleaving semantics of threads that acquire/release mutexes
       (exclusive or shared, as sync.Mutex / sync.RWMutex) and perform accesses,
     - lockset_sound: if the table passes discipline_ok and every thread runs
       thread-safe code whose accesses are in the table and really hold the locks
       the table claims, then in NO reachable state are two threads poised on
       conflicting accesses (same location, one a write),
     - lockorder_sound: if the graph is ranked and every acquisition a thread makes
       while holding a lock is an edge of the graph, then in NO reachable state is
       every unfinished thread blocked on a mutex.

   Any number of threads, any programs, any interleaving.  What is NOT proved
   here is that the Go functions hold the locks the translator says they hold:
   that is the translator's reading of the source (trusted, conservative), and the
   race detector runs of the check search for counterexamples to it. *)
From Coq Require Import String List Bool Arith Lia.
Import ListNotations.
Open Scope string_scope.
Open Scope nat_scope.

Inductive lmode := Shared | Excl.
Definition mode_ge (have need : lmode) : bool :=
  match have, need with Excl, _ => true | Shared, Shared => true | Shared, Excl => false end.

Record access := mk_access {
  a_func : string; a_loc : string; a_pos : string;
  a_write : bool; a_locks : list (string * lmode); a_init : bool }.

(* ---------- the checks run on the generated table ---------- *)
Definition need (a : access) : lmode := if a_write a then Excl else Shared.
Definition has_lock (m : string) (nd : lmode) (ls : list (string * lmode)) : bool :=
  existsb (fun p => String.eqb (fst p) m && mode_ge (snd p) nd) ls.
Definition conflict (a b : access) : bool := String.eqb (a_loc a) (a_loc b) && (a_write a || a_write b).
(* two conflicting accesses must have a lock in common, the writer(s) exclusively *)
Definition pair_ok (a b : access) : bool :=
  negb (conflict a b) || existsb (fun p => has_lock (fst p) (need a) (a_locks a) && has_lock (fst p) (need b) (a_locks b)) (a_locks a).
Definition live (tbl : list access) : list access := filter (fun a => negb (a_init a)) tbl.
Definition discipline_ok (tbl : list access) : bool :=
  forallb (fun a => forallb (pair_ok a) (live tbl)) (live tbl).
(* the offending pairs, for the report *)
Definition discipline_violations (tbl : list access) : list (access * access) :=
  flat_map (fun a => map (fun b => (a, b)) (filter (fun b => negb (pair_ok a b)) (live tbl))) (live tbl).

(* every thread-safe access to one location holds one given lock (writers exclusively) *)
Definition guarded_by (loc lock : string) (tbl : list access) : bool :=
  forallb (fun a => negb (String.eqb (a_loc a) loc) || has_lock lock (need a) (a_locks a)) (live tbl).
Definition written_by_live (loc : string) (tbl : list access) : bool :=
  existsb (fun a => String.eqb (a_loc a) loc && a_write a) (live tbl).

(* ranks by relaxation over the edge list: rank b >= rank a + 1 for every edge (a,b) *)
Fixpoint lookup (m : string) (r : list (string * nat)) : nat :=
  match r with [] => 0 | (k, v) :: t => if String.eqb k m then v else lookup m t end.
Fixpoint set_rank (m : string) (v : nat) (r : list (string * nat)) : list (string * nat) :=
  match r with
  | [] => [(m, v)]
  | (k, v0) :: t => if String.eqb k m then (k, v) :: t else (k, v0) :: set_rank m v t
  end.
Definition relax (r : list (string * nat)) (e : string * string) : list (string * nat) :=
  let (a, b) := e in if Nat.leb (lookup b r) (lookup a r) then set_rank b (S (lookup a r)) r else r.
Fixpoint relax_n (n : nat) (edges : list (string * string)) (r : list (string * nat)) : list (string * nat) :=
  match n with O => r | S k => relax_n k edges (fold_left relax edges r) end.
Definition ranks (edges : list (string * string)) : list (string * nat) := relax_n (S (length edges)) edges [].
Definition ranked_by (r : list (string * nat)) (edges : list (string * string)) : bool :=
  forallb (fun e => Nat.ltb (lookup (fst e) r) (lookup (snd e) r)) edges.
Definition edges_ranked (edges : list (string * string)) : bool := ranked_by (ranks edges) edges.

(* ---------- semantics ---------- *)
Inductive event := EAcq (m : string) (md : lmode) | ERel (m : string) | EAcc (a : access).
Definition thread : Type := list (string * lmode) * list event.   (* locks held, what is left to do *)

Definition holds (m : string) (held : list (string * lmode)) : bool := existsb (fun p => String.eqb (fst p) m) held.
Definition holds_excl (m : string) (held : list (string * lmode)) : bool :=
  existsb (fun p => String.eqb (fst p) m && mode_ge (snd p) Excl) held.
Definition release (m : string) (held : list (string * lmode)) : list (string * lmode) :=
  filter (fun p => negb (String.eqb (fst p) m)) held.

(* sync.Mutex.Lock / RWMutex.Lock: nobody holds it; RWMutex.RLock: nobody holds it exclusively *)
Definition can_acquire (pool : list thread) (m : string) (md : lmode) : Prop :=
  match md with
  | Excl => forall t, In t pool -> holds m (fst t) = false
  | Shared => forall t, In t pool -> holds_excl m (fst t) = false
  end.

Definition free (pool : list thread) (m : string) (md : lmode) : bool :=
  match md with
  | Excl => forallb (fun t => negb (holds m (fst t))) pool
  | Shared => forallb (fun t => negb (holds_excl m (fst t))) pool
  end.
Lemma free_spec pool m md : free pool m md = true <-> can_acquire pool m md.
Proof.
  destruct md; cbn [free can_acquire]; rewrite forallb_forall; split; intros H t Ht; specialize (H t Ht);
    destruct (holds m (fst t)), (holds_excl m (fst t)); cbn in *; congruence.
Qed.

Fixpoint upd {A} (i : nat) (x : A) (l : list A) : list A :=
  match l, i with [], _ => [] | _ :: t, O => x :: t | h :: t, S j => h :: upd j x t end.

Inductive step : list thread -> list thread -> Prop :=
| S_acq pool i held m md rest :
    nth_error pool i = Some (held, EAcq m md :: rest) -> free pool m md = true ->
    step pool (upd i ((m, md) :: held, rest) pool)
| S_rel pool i held m rest :
    nth_error pool i = Some (held, ERel m :: rest) ->
    step pool (upd i (release m held, rest) pool)
| S_acc pool i held a rest :
    nth_error pool i = Some (held, EAcc a :: rest) ->
    step pool (upd i (held, rest) pool).

Inductive reach (p0 : list thread) : list thread -> Prop :=
| R0 : reach p0 p0
| RS p p' : reach p0 p -> step p p' -> reach p0 p'.

(* ---------- what a thread's program must satisfy ---------- *)
Section Table.
Variable tbl : list access.

(* every access is a thread-safe entry of the table and the thread really holds what the entry claims *)
Fixpoint claims_ok (held : list (string * lmode)) (todo : list event) : Prop :=
  match todo with
  | [] => True
  | EAcq m md :: r => claims_ok ((m, md) :: held) r
  | ERel m :: r => claims_ok (release m held) r
  | EAcc a :: r =>
      In a tbl /\ a_init a = false /\
      (forall p, In p (a_locks a) -> has_lock (fst p) (snd p) held = true) /\ claims_ok held r
  end.

Definition race (pool : list thread) : Prop :=
  exists i j hi a ri hj b rj, i <> j /\
    nth_error pool i = Some (hi, EAcc a :: ri) /\ nth_error pool j = Some (hj, EAcc b :: rj) /\
    conflict a b = true.

(* mutual exclusion as an invariant of the semantics *)
Definition mutex_inv (pool : list thread) : Prop :=
  forall i j ti tj m, i <> j -> nth_error pool i = Some ti -> nth_error pool j = Some tj ->
    holds_excl m (fst ti) = true -> holds m (fst tj) = false.

Lemma nth_upd_same {A} (l : list A) : forall i x y, nth_error l i = Some y -> nth_error (upd i x l) i = Some x.
Proof. induction l as [|h t IH]; intros [|i] x y H; simpl in *; try discriminate; eauto. Qed.
Lemma nth_upd_other {A} (l : list A) : forall i j x, i <> j -> nth_error (upd i x l) j = nth_error l j.
Proof. induction l as [|h t IH]; intros [|i] [|j] x H; simpl; auto; try congruence. Qed.

Lemma holds_release m m' held : holds m (release m' held) = true -> holds m held = true.
Proof.
  unfold holds, release. rewrite !existsb_exists. intros (p & Hin & Hp). apply filter_In in Hin. exists p. tauto.
Qed.
Lemma holds_excl_release m m' held : holds_excl m (release m' held) = true -> holds_excl m held = true.
Proof.
  unfold holds_excl, release. rewrite !existsb_exists. intros (p & Hin & Hp). apply filter_In in Hin. exists p. tauto.
Qed.
Lemma holds_excl_holds m held : holds_excl m held = true -> holds m held = true.
Proof.
  unfold holds_excl, holds. rewrite !existsb_exists. intros (p & Hin & Hp). apply andb_true_iff in Hp. exists p. tauto.
Qed.
Lemma not_true_false b : b <> true -> b = false. Proof. destruct b; congruence. Qed.

Lemma mutex_step pool pool' : mutex_inv pool -> step pool pool' -> mutex_inv pool'.
Proof.
  intros Inv Hs. destruct Hs as [pool i held m md rest Hi Hc | pool i held m rest Hi | pool i held a rest Hi].
  - (* acquire *)
    apply free_spec in Hc.
    intros a b ta tb m' Hab Ha Hb He.
    destruct (Nat.eq_dec a i) as [->|Hai]; destruct (Nat.eq_dec b i) as [->|Hbi]; try congruence.
    + rewrite (nth_upd_same _ _ _ _ Hi) in Ha. injection Ha as <-. rewrite nth_upd_other in Hb by congruence.
      cbn [fst] in He. unfold holds_excl in He. cbn [existsb fst snd] in He. apply orb_true_iff in He. destruct He as [He|He].
      * apply andb_true_iff in He. destruct He as [Hm Hmd]. apply String.eqb_eq in Hm. subst m'.
        destruct md; [discriminate|]. apply Hc. eapply nth_error_In; eauto.
      * eapply (Inv i b (held, EAcq m md :: rest) tb m'); eauto.
    + rewrite (nth_upd_same _ _ _ _ Hi) in Hb. injection Hb as <-. rewrite nth_upd_other in Ha by congruence.
      cbn [fst]. unfold holds. cbn [existsb fst]. apply orb_false_iff. split.
      * destruct (String.eqb m m') eqn:E; [|reflexivity]. apply String.eqb_eq in E. subst m'. exfalso.
        destruct md.
        -- specialize (Hc ta (nth_error_In _ _ Ha)). congruence.
        -- specialize (Hc ta (nth_error_In _ _ Ha)). apply holds_excl_holds in He. congruence.
      * eapply (Inv a i ta (held, EAcq m md :: rest) m'); eauto.
    + rewrite nth_upd_other in Ha by congruence. rewrite nth_upd_other in Hb by congruence. exact (Inv a b ta tb m' Hab Ha Hb He).
  - (* release *)
    intros a b ta tb m' Hab Ha Hb He.
    destruct (Nat.eq_dec a i) as [->|Hai]; destruct (Nat.eq_dec b i) as [->|Hbi]; try congruence.
    + rewrite (nth_upd_same _ _ _ _ Hi) in Ha. injection Ha as <-. rewrite nth_upd_other in Hb by congruence.
      cbn [fst] in He. apply holds_excl_release in He. eapply (Inv i b (held, ERel m :: rest) tb m'); eauto.
    + rewrite (nth_upd_same _ _ _ _ Hi) in Hb. injection Hb as <-. rewrite nth_upd_other in Ha by congruence.
      cbn [fst]. apply not_true_false. intros Hh. apply holds_release in Hh.
      pose proof (Inv a i ta (held, ERel m :: rest) m' Hab Ha Hi He) as Hn. cbn [fst] in Hn. congruence.
    + rewrite nth_upd_other in Ha by congruence. rewrite nth_upd_other in Hb by congruence. exact (Inv a b ta tb m' Hab Ha Hb He).
  - (* access *)
    intros x y ta tb m' Hab Ha Hb He.
    destruct (Nat.eq_dec x i) as [->|Hai]; destruct (Nat.eq_dec y i) as [->|Hbi]; try congruence.
    + rewrite (nth_upd_same _ _ _ _ Hi) in Ha. injection Ha as <-. rewrite nth_upd_other in Hb by congruence.
      eapply (Inv i y (held, EAcc a :: rest) tb m'); eauto.
    + rewrite (nth_upd_same _ _ _ _ Hi) in Hb. injection Hb as <-. rewrite nth_upd_other in Ha by congruence.
      eapply (Inv x i ta (held, EAcc a :: rest) m'); eauto.
    + rewrite nth_upd_other in Ha by congruence. rewrite nth_upd_other in Hb by congruence. exact (Inv x y ta tb m' Hab Ha Hb He).
Qed.

Definition claims_inv (pool : list thread) : Prop :=
  forall i t, nth_error pool i = Some t -> claims_ok (fst t) (snd t).

Lemma claims_step pool pool' : claims_inv pool -> step pool pool' -> claims_inv pool'.
Proof.
  intros Inv Hs.
  destruct Hs as [pool i held m md rest Hi Hc | pool i held m rest Hi | pool i held a rest Hi];
    intros k t Hk; (destruct (Nat.eq_dec k i) as [->|Hne];
      [rewrite (nth_upd_same _ _ _ _ Hi) in Hk; injection Hk as <-; specialize (Inv _ _ Hi); cbn [fst snd claims_ok] in *; tauto
      | rewrite nth_upd_other in Hk by congruence; eapply Inv; eauto]).
Qed.

Definition start_ok (pool : list thread) : Prop :=
  forall i t, nth_error pool i = Some t -> fst t = [] /\ claims_ok [] (snd t).

Lemma has_lock_holds m nd held : has_lock m nd held = true -> holds m held = true.
Proof.
  unfold has_lock, holds. rewrite !existsb_exists. intros (p & Hin & Hp). apply andb_true_iff in Hp. exists p. tauto.
Qed.
Lemma has_lock_excl m held : has_lock m Excl held = true -> holds_excl m held = true.
Proof. intros H; exact H. Qed.
Lemma has_lock_trans m nd ls held :
  has_lock m nd ls = true -> (forall p, In p ls -> has_lock (fst p) (snd p) held = true) -> has_lock m nd held = true.
Proof.
  unfold has_lock at 1. rewrite existsb_exists. intros (p & Hin & Hp) H. apply andb_true_iff in Hp. destruct Hp as [Hm Hge].
  apply String.eqb_eq in Hm. subst m. specialize (H p Hin). unfold has_lock in *. rewrite existsb_exists in *.
  destruct H as (q & Hq & Hqp). exists q. split; [exact Hq|]. apply andb_true_iff in Hqp. destruct Hqp as [Hn Hg].
  rewrite Hn. cbn [andb]. destruct (snd q), (snd p), nd; cbn in *; congruence.
Qed.

Lemma discipline_pair a b : discipline_ok tbl = true -> In a tbl -> In b tbl -> a_init a = false -> a_init b = false ->
  pair_ok a b = true.
Proof.
  intros H Ha Hb Ia Ib. unfold discipline_ok in H. rewrite forallb_forall in H.
  assert (La : In a (live tbl)) by (apply filter_In; rewrite Ia; auto).
  assert (Lb : In b (live tbl)) by (apply filter_In; rewrite Ib; auto).
  specialize (H a La). rewrite forallb_forall in H. exact (H b Lb).
Qed.

Theorem lockset_sound : discipline_ok tbl = true ->
  forall pool0 pool, start_ok pool0 -> reach pool0 pool -> ~ race pool.
Proof.
  intros Hd pool0 pool H0 Hr.
  assert (Inv : mutex_inv pool /\ claims_inv pool).
  { induction Hr as [|p p' _ [IM IC] Hs].
    - split.
      + intros i j ti tj m _ Hi _ He. destruct (H0 _ _ Hi) as [Hh _]. rewrite Hh in He. discriminate.
      + intros i t Hi. destruct (H0 _ _ Hi) as [Hh Hc]. rewrite Hh. exact Hc.
    - split; [eapply mutex_step | eapply claims_step]; eauto. }
  destruct Inv as [IM IC].
  intros (i & j & hi & a & ri & hj & b & rj & Hij & Hi & Hj & Hcf).
  pose proof (IC _ _ Hi) as Ca. pose proof (IC _ _ Hj) as Cb. cbn [fst snd claims_ok] in Ca, Cb.
  destruct Ca as (Ta & Ia & La & _). destruct Cb as (Tb & Ib & Lb & _).
  pose proof (discipline_pair a b Hd Ta Tb Ia Ib) as Hp. unfold pair_ok in Hp. rewrite Hcf in Hp. cbn [negb orb] in Hp.
  rewrite existsb_exists in Hp. destruct Hp as (p & _ & Hp). apply andb_true_iff in Hp. destruct Hp as [Hpa Hpb].
  pose proof (has_lock_trans _ _ _ _ Hpa La) as Ha. pose proof (has_lock_trans _ _ _ _ Hpb Lb) as Hb.
  unfold conflict in Hcf. apply andb_true_iff in Hcf. destruct Hcf as [_ Hw]. apply orb_true_iff in Hw.
  destruct Hw as [Hw|Hw].
  - unfold need in Ha. rewrite Hw in Ha. apply has_lock_excl in Ha. apply has_lock_holds in Hb.
    pose proof (IM i j _ _ (fst p) Hij Hi Hj Ha) as Hn. cbn [fst] in Hn. congruence.
  - unfold need in Hb. rewrite Hw in Hb. apply has_lock_excl in Hb. apply has_lock_holds in Ha.
    assert (Hji : j <> i) by congruence.
    pose proof (IM j i _ _ (fst p) Hji Hj Hi Hb) as Hn. cbn [fst] in Hn. congruence.
Qed.
End Table.

(* ---------- lock order ---------- *)
Section Order.
Variable edges : list (string * string).
Variable rank : string -> nat.
Hypothesis rank_ok : forall a b, In (a, b) edges -> rank a < rank b.

(* every lock taken while another is held is an edge of the graph; a finished thread holds nothing *)
Fixpoint ordered (held : list (string * lmode)) (todo : list event) : Prop :=
  match todo with
  | [] => held = []
  | EAcq m md :: r => (forall p, In p held -> In (fst p, m) edges) /\ ordered ((m, md) :: held) r
  | ERel m :: r => ordered (release m held) r
  | EAcc _ :: r => ordered held r
  end.

Definition ordered_inv (pool : list thread) : Prop := forall i t, nth_error pool i = Some t -> ordered (fst t) (snd t).

Lemma ordered_step pool pool' : ordered_inv pool -> step pool pool' -> ordered_inv pool'.
Proof.
  intros Inv Hs.
  destruct Hs as [pool i held m md rest Hi Hc | pool i held m rest Hi | pool i held a rest Hi];
    intros k t Hk; (destruct (Nat.eq_dec k i) as [->|Hne];
      [rewrite (nth_upd_same _ _ _ _ Hi) in Hk; injection Hk as <-; specialize (Inv _ _ Hi); cbn [fst snd ordered] in *; tauto
      | rewrite nth_upd_other in Hk by congruence; eapply Inv; eauto]).
Qed.

(* blocked: the next event is an acquisition that cannot be made *)
Definition wants (t : thread) : option (string * lmode) :=
  match snd t with EAcq m md :: _ => Some (m, md) | _ => None end.
Definition blockedb (pool : list thread) (t : thread) : bool :=
  match wants t with Some (m, md) => negb (free pool m md) | None => false end.
Definition unfinished (t : thread) : bool := match snd t with [] => false | _ => true end.
Definition deadlock (pool : list thread) : Prop :=
  (exists t, In t pool /\ unfinished t = true) /\
  forall t, In t pool -> unfinished t = true -> blockedb pool t = true.

Lemma max_elt {A} (f : A -> nat) : forall l : list A, l <> [] -> exists x, In x l /\ forall y, In y l -> f y <= f x.
Proof.
  induction l as [|a l IH]; intros Hne; [congruence|].
  destruct l as [|b l'].
  - exists a. split; [left; reflexivity|]. intros y [<-|[]]. lia.
  - destruct IH as (x & Hx & Hmax); [discriminate|].
    destruct (le_lt_dec (f a) (f x)) as [Hle|Hlt].
    + exists x. split; [right; exact Hx|]. intros y [<-|Hy]; [exact Hle | apply Hmax; exact Hy].
    + exists a. split; [left; reflexivity|]. intros y [<-|Hy]; [lia | specialize (Hmax y Hy); lia].
Qed.

Lemma not_free_holder pool m md : free pool m md = false -> exists u, In u pool /\ holds m (fst u) = true.
Proof.
  intros H. destruct md; cbn [free] in H.
  - (* Shared *) assert (Hex : existsb (fun t => holds_excl m (fst t)) pool = true).
    { clear -H. induction pool as [|t pool IH]; [discriminate|]. cbn in *. destruct (holds_excl m (fst t)); cbn in *; auto. }
    apply existsb_exists in Hex. destruct Hex as (u & Hu & Hh). exists u. split; [exact Hu|]. apply holds_excl_holds. exact Hh.
  - assert (Hex : existsb (fun t => holds m (fst t)) pool = true).
    { clear -H. induction pool as [|t pool IH]; [discriminate|]. cbn in *. destruct (holds m (fst t)); cbn in *; auto. }
    apply existsb_exists in Hex. destruct Hex as (u & Hu & Hh). exists u. split; assumption.
Qed.

Definition wrank (t : thread) : nat := match wants t with Some (m, _) => rank m | None => 0 end.

Definition start_ordered (pool : list thread) : Prop :=
  forall i t, nth_error pool i = Some t -> fst t = [] /\ ordered [] (snd t).

Theorem lockorder_sound : forall pool0 pool, start_ordered pool0 -> reach pool0 pool -> ~ deadlock pool.
Proof.
  intros pool0 pool H0 Hr.
  assert (Inv : ordered_inv pool).
  { induction Hr as [|p p' _ IH Hs].
    - intros i t Hi. destruct (H0 _ _ Hi) as [Hh Ho]. rewrite Hh. exact Ho.
    - eapply ordered_step; eauto. }
  intros [(t0 & Ht0 & Hu0) Hall].
  set (T := filter unfinished pool).
  assert (HT : T <> []).
  { intros E. assert (Hin : In t0 T) by (apply filter_In; auto). rewrite E in Hin. destruct Hin. }
  destruct (max_elt wrank T HT) as (t & Ht & Hmax).
  apply filter_In in Ht. destruct Ht as [Htp Htu].
  pose proof (Hall t Htp Htu) as Hb. unfold blockedb in Hb.
  destruct (wants t) as [[m md]|] eqn:Ew; [|discriminate].
  apply negb_true_iff in Hb. destruct (not_free_holder _ _ _ Hb) as (u & Hup & Hhold).
  (* the holder u is unfinished (a finished thread holds nothing), hence blocked on some m_u *)
  destruct (In_nth_error _ _ Hup) as (k & Hk). pose proof (Inv _ _ Hk) as Ou.
  assert (Huu : unfinished u = true).
  { unfold unfinished. destruct (snd u) eqn:E; [|reflexivity]. cbn [ordered] in Ou. rewrite Ou in Hhold. discriminate. }
  pose proof (Hall u Hup Huu) as Hbu. unfold blockedb in Hbu.
  destruct (wants u) as [[mu mdu]|] eqn:Ewu; [|discriminate].
  unfold wants in Ewu. destruct (snd u) as [|[m' md'|m'|a'] rest] eqn:Eu; try discriminate. injection Ewu as -> ->.
  cbn [ordered] in Ou. destruct Ou as [Hedge _].
  unfold holds in Hhold. apply existsb_exists in Hhold. destruct Hhold as (p & Hp & Hpm). apply String.eqb_eq in Hpm.
  specialize (Hedge p Hp). rewrite Hpm in Hedge. apply rank_ok in Hedge.
  assert (HuT : In u T) by (apply filter_In; auto).
  specialize (Hmax u HuT). unfold wrank in Hmax. rewrite Ew in Hmax. unfold wants in Hmax. rewrite Eu in Hmax. lia.
Qed.
End Order.

(* the rank computed from the generated edge list satisfies the hypothesis of lockorder_sound *)
Lemma ranked_by_spec r edges : ranked_by r edges = true -> forall a b, In (a, b) edges -> lookup a r < lookup b r.
Proof.
  unfold ranked_by. rewrite forallb_forall. intros H a b Hin. specialize (H (a, b) Hin). cbn [fst snd] in H.
  apply Nat.ltb_lt. exact H.
Qed.

Theorem lockorder_checked : forall edges, edges_ranked edges = true ->
  forall pool0 pool, start_ordered edges pool0 -> reach pool0 pool -> ~ deadlock pool.
Proof.
  intros edges H. apply (lockorder_sound edges (fun m => lookup m (ranks edges))).
  apply ranked_by_spec. exact H.
Qed.

(* non-vacuity / sanity of the checks *)
Example discipline_example_bad :
  discipline_ok [mk_access "f" "T.x" "p1" true [("T.mu", Excl)] false; mk_access "g" "T.x" "p2" false [] false] = false.
Proof. reflexivity. Qed.
Example discipline_example_good :
  discipline_ok [mk_access "f" "T.x" "p1" true [("T.mu", Excl)] false; mk_access "g" "T.x" "p2" false [("T.mu", Shared)] false;
                 mk_access "new" "T.x" "p3" true [] true] = true.
Proof. reflexivity. Qed.
Example edges_example_cycle : edges_ranked [("a", "b"); ("b", "c"); ("c", "a")] = false.
Proof. reflexivity. Qed.
Example edges_example_dag : edges_ranked [("b", "c"); ("a", "b"); ("a", "c")] = true.
Proof. reflexivity. Qed.
