(* Conc/ConfigRead_Proofs.v — property C11, clause "each call observes, for every
   setting, either the old or the new value", on the level-2 gauge model
   (Conc/Gauge.v): callers racing ANY number of reconfigurations, every
   interleaving.  Each live setting the run/fallback decisions consult (run limit,
   execution timeout, fallback-disabled switch, fallback limit) is loaded ONCE per
   decision in the model -- the trace correspondence checks that the code does the
   same, load for load -- so what a caller decided is what the decision rule says
   for one of the configurations that were ever installed. *)
From Coq Require Import ZifyBool.
From CV Require Import Conc.Sched Conc.Gauge Conc.Transition_Proofs.

Definition cfg : Type := Z * Z * Z * bool.     (* timeout, run limit, fallback limit, fallback disabled *)
Definition c_tmo (c : cfg) : Z := let '(t, _, _, _) := c in t.
Definition c_max (c : cfg) : Z := let '(_, m, _, _) := c in m.
Definition c_fbmax (c : cfg) : Z := let '(_, _, f, _) := c in f.
Definition c_fbdis (c : cfg) : bool := let '(_, _, _, d) := c in d.

Definition cfg_of (l : glocal) : option cfg :=
  match l with Setter tm m fm fd _ => Some (tm, m, fm, fd) | _ => None end.
Fixpoint setter_cfgs (pool : list glocal) : list cfg :=
  match pool with [] => [] | l :: t => match cfg_of l with Some c => c :: setter_cfgs t | None => setter_cfgs t end end.

(* the decision rules of the code, as functions of ONE value of the setting *)
Definition over_limit (m v : Z) : bool := (0 <=? m) && (m <? v).

Section ConfigRead.
Variables (tmo max fbmax : Z) (fbdis : bool).
Variable pool0 : list glocal.
(* every configuration that is ever installed: the initial one and each reconfiguration's *)
Definition installed : list cfg := (tmo, max, fbmax, fbdis) :: setter_cfgs pool0.

(* what a caller has decided so far agrees with the rule applied to an installed value *)
Definition old_or_new (l : glocal) : Prop :=
  match l with
  | Caller _ _ pc =>
      match pc with
      | GRejecting v => exists c, In c installed /\ over_limit (c_max c) v = true
      | GEnter v | GInFlight v | GExited v => exists c, In c installed /\ over_limit (c_max c) v = false
      | GTimed v t => (exists c, In c installed /\ over_limit (c_max c) v = false) /\ (exists c, In c installed /\ t = c_tmo c)
      | GFbAdd _ | GFbAdded _ _ => exists c, In c installed /\ c_fbdis c = false
      | GFbRejecting w => exists c, In c installed /\ over_limit (c_fbmax c) w = true
      | GFbEnter w | GFbInFlight w | GFbExited w _ => exists c, In c installed /\ over_limit (c_fbmax c) w = false
      | _ => True
      end
  | _ => True
  end.

Definition InvV (s : gshared * list glocal) : Prop :=
  let (sh, pool) := s in
  (exists c, In c installed /\ g_timeout sh = c_tmo c) /\
  (exists c, In c installed /\ g_max sh = c_max c) /\
  (exists c, In c installed /\ g_fbmax sh = c_fbmax c) /\
  (exists c, In c installed /\ g_fbdis sh = c_fbdis c) /\
  Forall (fun l => forall c, cfg_of l = Some c -> In c installed) pool /\
  Forall old_or_new pool.

Lemma setter_cfgs_in : forall pool l c, In l pool -> cfg_of l = Some c -> In c (setter_cfgs pool).
Proof.
  induction pool as [|x pool IH]; intros l c Hin Hc; [destruct Hin|].
  cbn [setter_cfgs]. destruct Hin as [->|Hin].
  - rewrite Hc. left; reflexivity.
  - destruct (cfg_of x); [right|]; eapply IH; eauto.
Qed.

Lemma invV_init : all_fresh pool0 -> InvV (ginit tmo max fbmax fbdis, pool0).
Proof.
  intros Hf. unfold InvV. cbn [ginit g_timeout g_max g_fbmax g_fbdis].
  assert (H0 : In (tmo, max, fbmax, fbdis) installed) by (left; reflexivity).
  repeat split; try (exists (tmo, max, fbmax, fbdis); split; [exact H0 | reflexivity]).
  - apply Forall_forall. intros l Hl c Hc. right. eapply setter_cfgs_in; eauto.
  - eapply Forall_impl; [|exact Hf]. intros l Hl.
    destruct l as [run fb pc | tm m fm fd n | n]; [destruct pc; cbn in Hl; try discriminate; exact I | exact I | exact I].
Qed.

Lemma invV_step s s' : InvV s -> gstep gstep1 s s' -> InvV s'.
Proof.
  intros HI Hs. destruct Hs as [sh pool i lo sh' lo' lb Hn Ht].
  destruct HI as (Ht0 & Hm0 & Hf0 & Hd0 & Hcfg & Hall).
  pose proof (nth_error_Forall _ _ _ _ _ Hcfg Hn) as Hlc.
  pose proof (nth_error_Forall _ _ _ _ _ Hall Hn) as Hlo.
  destruct lo as [run fb pc | tm m fm fd n | n].
  - (* a caller moves: shared settings unchanged *)
    assert (Hsh : g_timeout sh' = g_timeout sh /\ g_max sh' = g_max sh /\ g_fbmax sh' = g_fbmax sh /\ g_fbdis sh' = g_fbdis sh /\
                  (forall c, cfg_of lo' = Some c -> In c installed) /\ old_or_new lo').
    { destruct Ht0 as (ct & Hct & Et). destruct Hm0 as (cm & Hcm & Em). destruct Hf0 as (cf & Hcf & Ef). destruct Hd0 as (cd & Hcd & Ed).
      destruct pc; destruct run; destruct fb; cbn [gstep1] in Ht; inversion Ht; subst; clear Ht;
        cbn [g_timeout g_max g_fbmax g_fbdis g_cfgheld set_cmds set_fbs cfg_of old_or_new];
        (repeat split; try reflexivity; try (intros ? ?; discriminate); try exact I);
        cbn [old_or_new] in Hlo;
        repeat match goal with |- context [if ?b then _ else _] => destruct b eqn:? end;
        cbn [old_or_new]; try exact I; try exact Hlo; try tauto;
        try (destruct Hlo as (Hlo1 & Hlo2); exact Hlo1);
        try (exists cm; split; [exact Hcm | unfold over_limit; rewrite <- Em; assumption]);
        try (exists cf; split; [exact Hcf | unfold over_limit; rewrite <- Ef; assumption]);
        try (exists cd; split; [exact Hcd | rewrite <- Ed; assumption]);
        try (split; [exact Hlo | exists ct; split; [exact Hct | exact Et]]);
        try (exists ct; split; [exact Hct | exact Et]);
        try (exists cd; split; [exact Hcd | congruence]). }
    destruct Hsh as (E1 & E2 & E3 & E4 & Hc' & Ho').
    unfold InvV. rewrite E1, E2, E3, E4. repeat split; try assumption; apply Forall_upd; assumption.
  - (* a reconfiguration stores one setting: the new value is an installed one *)
    assert (Hin : In (tm, m, fm, fd) installed) by (apply Hlc; reflexivity).
    destruct n as [|[|[|[|[|[|[|n]]]]]]]; cbn [gstep1] in Ht; try (destruct (g_cfgheld sh)); inversion Ht; subst; clear Ht; unfold InvV;
      cbn [g_timeout g_max g_fbmax g_fbdis];
      (repeat split; try assumption;
       try (exists (tm, m, fm, fd); split; [exact Hin | reflexivity]);
       try (apply Forall_upd; [assumption|]; try exact I; intros c Hc; cbn [cfg_of] in Hc; injection Hc as <-; exact Hin)).
  - destruct n as [|[|n]]; cbn [gstep1] in Ht; inversion Ht; subst; clear Ht; unfold InvV;
      (repeat split; try assumption; apply Forall_upd; try assumption; try exact I; intros c Hc; discriminate).
Qed.

Theorem old_or_new_reachable : forall s,
  all_fresh pool0 -> reach gstep1 (ginit tmo max fbmax fbdis, pool0) s -> Forall old_or_new (snd s).
Proof.
  intros s Hf Hr. pose proof (inv_reach _ _ _ InvV _ (invV_init Hf) invV_step s Hr) as H.
  destruct s as [sh pool]. destruct H as (_ & _ & _ & _ & _ & H). exact H.
Qed.

(* ---------- a reconfiguration is atomic for the settings as a whole ---------- *)
(* SetConfigThreadSafe stores the settings and forwards the configuration to the open/close logic between Lock and
   Unlock of one mutex; so whenever nobody is inside that section the four live settings are those of ONE installed
   configuration (never a mixture of two reconfigurations), and while somebody is inside they are that thread's
   new values so far over the configuration it found. *)
Definition settings (sh : gshared) : cfg := (g_timeout sh, g_max sh, g_fbmax sh, g_fbdis sh).
Definition partial (k : nat) (new c : cfg) : cfg :=
  ( if Nat.leb 2 k then c_tmo new else c_tmo c,
    if Nat.leb 3 k then c_max new else c_max c,
    if Nat.leb 5 k then c_fbmax new else c_fbmax c,
    if Nat.leb 4 k then c_fbdis new else c_fbdis c ).
Definition progress_ok (sh : gshared) (c : cfg) (l : glocal) : Prop :=
  match l with
  | Setter tm m fm fd k => in_cfg_section l = true -> settings sh = partial k (tm, m, fm, fd) c
  | _ => True
  end.

Definition InvT (s : gshared * list glocal) : Prop :=
  let (sh, pool) := s in
  cnt in_cfg_section pool = (if g_cfgheld sh then 1 else 0) /\
  Forall (fun l => forall c, cfg_of l = Some c -> In c installed) pool /\
  exists c, In c installed /\ (g_cfgheld sh = false -> settings sh = c) /\ Forall (progress_ok sh c) pool.

Lemma fresh_not_in_section l : fresh l = true -> in_cfg_section l = false.
Proof. destruct l as [run fb pc | tm m fm fd n | n]; [destruct pc| |]; cbn; intros H; try discriminate; try reflexivity.
  destruct n as [|n]; [reflexivity|discriminate]. Qed.

Lemma invT_init : all_fresh pool0 -> InvT (ginit tmo max fbmax fbdis, pool0).
Proof.
  intros Hf. unfold InvT. cbn [ginit g_cfgheld]. repeat split.
  - apply cnt_zero. eapply Forall_impl; [|exact Hf]. intros l Hl. apply fresh_not_in_section; exact Hl.
  - apply Forall_forall. intros l Hl c Hc. right. eapply setter_cfgs_in; eauto.
  - exists (tmo, max, fbmax, fbdis). split; [left; reflexivity|]. split; [intros _; reflexivity|].
    eapply Forall_impl; [|exact Hf]. intros l Hl. pose proof (fresh_not_in_section l Hl) as Hn.
    destruct l; cbn [progress_ok]; try exact I. rewrite Hn. discriminate.
Qed.

Lemma progress_ok_ext sh sh' c l : settings sh' = settings sh -> progress_ok sh c l -> progress_ok sh' c l.
Proof. intros E H. destruct l; cbn [progress_ok] in *; try exact I. rewrite E. exact H. Qed.

(* the thread inside the section takes a step that keeps it inside *)
Lemma section_move sh sh' pool i tm m fm fd k c :
  nth_error pool i = Some (Setter tm m fm fd k) ->
  in_cfg_section (Setter tm m fm fd k) = true -> in_cfg_section (Setter tm m fm fd (S k)) = true ->
  g_cfgheld sh' = true ->
  settings sh' = partial (S k) (tm, m, fm, fd) c ->
  In c installed ->
  InvT (sh, pool) -> InvT (sh', upd i (Setter tm m fm fd (S k)) pool).
Proof.
  intros Hn Hin Hin' Hh' Eset Hc (Hcnt & Hcfg & _).
  assert (Hheld : g_cfgheld sh = true).
  { destruct (g_cfgheld sh); [reflexivity|]. pose proof (cnt_ge in_cfg_section pool i _ Hn) as Hge. rewrite Hin in Hge. cbn [b2z] in Hge. lia. }
  rewrite Hheld in Hcnt.
  unfold InvT. rewrite Hh'. rewrite (cnt_upd _ in_cfg_section _ _ _ _ Hn), Hin, Hin'. cbn [b2z]. repeat split.
  - lia.
  - apply Forall_upd; [exact Hcfg|]. intros c' Hc'. cbn [cfg_of] in Hc'.
    apply (nth_error_Forall _ _ _ _ _ Hcfg Hn). exact Hc'.
  - exists c. split; [exact Hc|]. split; [discriminate|].
    apply (cnt_one_others in_cfg_section (progress_ok sh' c) pool i _ _ Hn Hin); [lia| |].
    + intros x Hx. destruct x; cbn [progress_ok]; try exact I. rewrite Hx. discriminate.
    + cbn [progress_ok]. intros _. exact Eset.
Qed.

Lemma invT_step s s' : InvT s -> gstep gstep1 s s' -> InvT s'.
Proof.
  intros HI Hs. destruct Hs as [sh pool i lo sh' lo' lb Hn Ht].
  pose proof HI as HI0.
  destruct HI as (Hcnt & Hcfg & c & Hc & Hfree & Hprog).
  pose proof (nth_error_Forall _ _ _ _ _ Hcfg Hn) as Hlc.
  pose proof (nth_error_Forall _ _ _ _ _ Hprog Hn) as Hlp.
  assert (Hout : forall sh2 lo2, settings sh2 = settings sh -> g_cfgheld sh2 = g_cfgheld sh ->
                 in_cfg_section lo = false -> in_cfg_section lo2 = false -> cfg_of lo2 = cfg_of lo -> InvT (sh2, upd i lo2 pool)).
  { intros sh2 lo2 E1 E2 E0 E3 E4. unfold InvT. rewrite E2.
    rewrite (cnt_upd _ in_cfg_section _ _ _ _ Hn), E0, E3. cbn [b2z]. repeat split.
    - lia.
    - apply Forall_upd; [exact Hcfg|]. intros c' Hc'. rewrite E4 in Hc'. apply Hlc; exact Hc'.
    - exists c. split; [exact Hc|]. split; [intros H; rewrite E1; auto|].
      apply Forall_upd; [eapply Forall_impl; [|exact Hprog]; intros l; apply progress_ok_ext; exact E1|].
      destruct lo2; cbn [progress_ok]; try exact I. rewrite E3. discriminate. }
  destruct lo as [run fb pc | tm m fm fd n | n].
  - (* a caller: settings and the section are untouched *)
    destruct pc; destruct run; destruct fb; cbn [gstep1] in Ht; inversion Ht; subst; clear Ht;
      repeat match goal with |- context [if ?b then _ else _] => destruct b end; apply Hout; reflexivity.
  - (* a reconfiguration *)
    assert (Hin : In (tm, m, fm, fd) installed) by (apply Hlc; reflexivity).
    assert (Hheld : in_cfg_section (Setter tm m fm fd n) = true -> g_cfgheld sh = true).
    { intros Hsec. destruct (g_cfgheld sh); [reflexivity|]. pose proof (cnt_ge in_cfg_section pool i _ Hn) as Hge. rewrite Hsec in Hge. cbn [b2z] in Hge. lia. }
    destruct n as [|n].
    { (* Lock: nobody was inside *)
      cbn [gstep1] in Ht. destruct (g_cfgheld sh) eqn:Hh; inversion Ht; subst; clear Ht.
      unfold InvT. cbn [g_cfgheld]. rewrite (cnt_upd _ in_cfg_section _ _ _ _ Hn). cbn [in_cfg_section b2z]. repeat split.
      * lia.
      * apply Forall_upd; [exact Hcfg|]. intros c' Hc'. cbn [cfg_of] in Hc'. injection Hc' as <-. exact Hin.
      * exists c. split; [exact Hc|]. split; [discriminate|].
        assert (Hnone : Forall (fun x => in_cfg_section x = false) pool) by (apply cnt_zero_inv; exact Hcnt).
        apply Forall_upd.
        -- eapply Forall_impl; [|exact Hnone]. intros l Hl. destruct l; cbn [progress_ok]; try exact I. rewrite Hl. discriminate.
        -- cbn [progress_ok in_cfg_section]. intros _. rewrite <- (Hfree eq_refl). unfold settings, partial. cbn [g_timeout g_max g_fbmax g_fbdis Nat.leb]. reflexivity. }
    destruct n as [|[|[|[|[|[|n]]]]]]; cbn [gstep1] in Ht; inversion Ht; subst; clear Ht.
    all: specialize (Hheld eq_refl).
    all: cbn [progress_ok] in Hlp; specialize (Hlp eq_refl); unfold settings, partial in Hlp; cbn [Nat.leb] in Hlp; injection Hlp as E1 E2 E3 E4.
    all: try (eapply section_move; [exact Hn | reflexivity | reflexivity | | | exact Hc | exact HI0]; cbn [g_cfgheld]; [first [reflexivity | assumption] | unfold settings, partial; cbn [g_timeout g_max g_fbmax g_fbdis Nat.leb c_tmo c_max c_fbmax c_fbdis]; congruence]).
    + (* Unlock: the settings are now exactly this reconfiguration's *)
      rewrite Hheld in Hcnt.
      unfold InvT. cbn [g_cfgheld]. rewrite (cnt_upd _ in_cfg_section _ _ _ _ Hn). cbn [in_cfg_section b2z]. repeat split.
      * lia.
      * apply Forall_upd; [exact Hcfg|]. intros c' Hc'. cbn [cfg_of] in Hc'. injection Hc' as <-. exact Hin.
      * exists (tm, m, fm, fd). split; [exact Hin|]. split.
        -- intros _. unfold settings. cbn [g_timeout g_max g_fbmax g_fbdis]. cbn [c_tmo c_max c_fbmax c_fbdis] in *. congruence.
        -- apply (cnt_one_others in_cfg_section _ pool i _ _ Hn eq_refl); [lia| |].
           ++ intros x Hx. destruct x; cbn [progress_ok]; try exact I. rewrite Hx. discriminate.
           ++ cbn [progress_ok in_cfg_section]. discriminate.
  - (* a reader *)
    destruct n as [|[|n]]; cbn [gstep1] in Ht; inversion Ht; subst; clear Ht; apply Hout; reflexivity.
Qed.

Theorem settings_not_torn : forall s,
  all_fresh pool0 -> reach gstep1 (ginit tmo max fbmax fbdis, pool0) s ->
  g_cfgheld (fst s) = false -> In (settings (fst s)) installed.
Proof.
  intros s Hf Hr Hh. pose proof (inv_reach _ _ _ InvT _ (invT_init Hf) invT_step s Hr) as H.
  destruct s as [sh pool]. destruct H as (_ & _ & c & Hc & Hfree & _). cbn [fst] in *. rewrite (Hfree Hh). exact Hc.
Qed.
(* ... and at most one reconfiguration is inside the section *)
Theorem cfg_section_exclusive : forall s,
  all_fresh pool0 -> reach gstep1 (ginit tmo max fbmax fbdis, pool0) s ->
  cnt in_cfg_section (snd s) = if g_cfgheld (fst s) then 1 else 0.
Proof.
  intros s Hf Hr. pose proof (inv_reach _ _ _ InvT _ (invT_init Hf) invT_step s Hr) as H.
  destruct s as [sh pool]. destruct H as (H & _). exact H.
Qed.
End ConfigRead.
