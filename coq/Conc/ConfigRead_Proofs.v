(* Conc/ConfigRead_Proofs.v — property C11, clause "each call observes, for every
   setting, either the old or the new value", on the level-2 gauge model
   (Conc/Gauge.v): callers racing ANY number of reconfigurations, every
   interleaving.  Each live setting the run/fallback decisions consult (run limit,
   execution timeout, fallback-disabled switch, fallback limit) is loaded ONCE per
   decision in the model -- the trace correspondence checks that the code does the
   same, load for load -- so what a caller decided is what the decision rule says
   for one of the configurations that were ever installed. *)
From Coq Require Import ZifyBool.
From CV Require Import Conc.Sched Conc.Gauge.

Definition cfg : Type := Z * Z * Z * bool.     (* timeout, run limit, fallback limit, fallback disabled *)
Definition c_tmo (c : cfg) : Z := let '(t, _, _, _) := c in t.
Definition c_max (c : cfg) : Z := let '(_, m, _, _) := c in m.
Definition c_fbmax (c : cfg) : Z := let '(_, _, f, _) := c in f.
Definition c_fbdis (c : cfg) : bool := let '(_, _, _, d) := c in d.

Definition cfg_of (l : glocal) : option cfg :=
  match l with Setter tm m fm fd _ => Some (tm, m, fm, fd) | _ => None end.
Fixpoint setter_cfgs (pool : list glocal) : list cfg :=
  match pool with [] => [] | l :: t => match cfg_of l with Some c => c :: setter_cfgs t | None => setter_cfgs t end end.

(* the decision rules of the code, as functions of ONE value of the setting *)
Definition over_limit (m v : Z) : bool := (0 <=? m) && (m <? v).

Section ConfigRead.
Variables (tmo max fbmax : Z) (fbdis : bool).
Variable pool0 : list glocal.
(* every configuration that is ever installed: the initial one and each reconfiguration's *)
Definition installed : list cfg := (tmo, max, fbmax, fbdis) :: setter_cfgs pool0.

(* what a caller has decided so far agrees with the rule applied to an installed value *)
Definition old_or_new (l : glocal) : Prop :=
  match l with
  | Caller _ _ pc =>
      match pc with
      | GRejecting v => exists c, In c installed /\ over_limit (c_max c) v = true
      | GEnter v | GInFlight v | GExited v => exists c, In c installed /\ over_limit (c_max c) v = false
      | GTimed v t => (exists c, In c installed /\ over_limit (c_max c) v = false) /\ (exists c, In c installed /\ t = c_tmo c)
      | GFbAdd _ | GFbAdded _ _ => exists c, In c installed /\ c_fbdis c = false
      | GFbRejecting w => exists c, In c installed /\ over_limit (c_fbmax c) w = true
      | GFbEnter w | GFbInFlight w | GFbExited w _ => exists c, In c installed /\ over_limit (c_fbmax c) w = false
      | _ => True
      end
  | _ => True
  end.

Definition InvV (s : gshared * list glocal) : Prop :=
  let (sh, pool) := s in
  (exists c, In c installed /\ g_timeout sh = c_tmo c) /\
  (exists c, In c installed /\ g_max sh = c_max c) /\
  (exists c, In c installed /\ g_fbmax sh = c_fbmax c) /\
  (exists c, In c installed /\ g_fbdis sh = c_fbdis c) /\
  Forall (fun l => forall c, cfg_of l = Some c -> In c installed) pool /\
  Forall old_or_new pool.

Lemma setter_cfgs_in : forall pool l c, In l pool -> cfg_of l = Some c -> In c (setter_cfgs pool).
Proof.
  induction pool as [|x pool IH]; intros l c Hin Hc; [destruct Hin|].
  cbn [setter_cfgs]. destruct Hin as [->|Hin].
  - rewrite Hc. left; reflexivity.
  - destruct (cfg_of x); [right|]; eapply IH; eauto.
Qed.

Lemma invV_init : all_fresh pool0 -> InvV (ginit tmo max fbmax fbdis, pool0).
Proof.
  intros Hf. unfold InvV. cbn [ginit g_timeout g_max g_fbmax g_fbdis].
  assert (H0 : In (tmo, max, fbmax, fbdis) installed) by (left; reflexivity).
  repeat split; try (exists (tmo, max, fbmax, fbdis); split; [exact H0 | reflexivity]).
  - apply Forall_forall. intros l Hl c Hc. right. eapply setter_cfgs_in; eauto.
  - eapply Forall_impl; [|exact Hf]. intros l Hl.
    destruct l as [run fb pc | tm m fm fd n | n]; [destruct pc; cbn in Hl; try discriminate; exact I | exact I | exact I].
Qed.

Lemma invV_step s s' : InvV s -> gstep gstep1 s s' -> InvV s'.
Proof.
  intros HI Hs. destruct Hs as [sh pool i lo sh' lo' lb Hn Ht].
  destruct HI as (Ht0 & Hm0 & Hf0 & Hd0 & Hcfg & Hall).
  pose proof (nth_error_Forall _ _ _ _ _ Hcfg Hn) as Hlc.
  pose proof (nth_error_Forall _ _ _ _ _ Hall Hn) as Hlo.
  destruct lo as [run fb pc | tm m fm fd n | n].
  - (* a caller moves: shared settings unchanged *)
    assert (Hsh : g_timeout sh' = g_timeout sh /\ g_max sh' = g_max sh /\ g_fbmax sh' = g_fbmax sh /\ g_fbdis sh' = g_fbdis sh /\
                  (forall c, cfg_of lo' = Some c -> In c installed) /\ old_or_new lo').
    { destruct Ht0 as (ct & Hct & Et). destruct Hm0 as (cm & Hcm & Em). destruct Hf0 as (cf & Hcf & Ef). destruct Hd0 as (cd & Hcd & Ed).
      destruct pc; destruct run; destruct fb; cbn [gstep1] in Ht; inversion Ht; subst; clear Ht;
        cbn [g_timeout g_max g_fbmax g_fbdis set_cmds set_fbs cfg_of old_or_new];
        (repeat split; try reflexivity; try (intros ? ?; discriminate); try exact I);
        cbn [old_or_new] in Hlo;
        repeat match goal with |- context [if ?b then _ else _] => destruct b eqn:? end;
        cbn [old_or_new]; try exact I; try exact Hlo; try tauto;
        try (destruct Hlo as (Hlo1 & Hlo2); exact Hlo1);
        try (exists cm; split; [exact Hcm | unfold over_limit; rewrite <- Em; assumption]);
        try (exists cf; split; [exact Hcf | unfold over_limit; rewrite <- Ef; assumption]);
        try (exists cd; split; [exact Hcd | rewrite <- Ed; assumption]);
        try (split; [exact Hlo | exists ct; split; [exact Hct | exact Et]]);
        try (exists ct; split; [exact Hct | exact Et]);
        try (exists cd; split; [exact Hcd | congruence]). }
    destruct Hsh as (E1 & E2 & E3 & E4 & Hc' & Ho').
    unfold InvV. rewrite E1, E2, E3, E4. repeat split; try assumption; apply Forall_upd; assumption.
  - (* a reconfiguration stores one setting: the new value is an installed one *)
    assert (Hin : In (tm, m, fm, fd) installed) by (apply Hlc; reflexivity).
    destruct n as [|[|[|[|n]]]]; cbn [gstep1] in Ht; inversion Ht; subst; clear Ht; unfold InvV;
      cbn [g_timeout g_max g_fbmax g_fbdis];
      (repeat split; try assumption;
       try (exists (tm, m, fm, fd); split; [exact Hin | reflexivity]);
       try (apply Forall_upd; [assumption|]; try exact I; intros c Hc; cbn [cfg_of] in Hc; injection Hc as <-; exact Hin)).
  - destruct n as [|[|n]]; cbn [gstep1] in Ht; inversion Ht; subst; clear Ht; unfold InvV;
      (repeat split; try assumption; apply Forall_upd; try assumption; try exact I; intros c Hc; discriminate).
Qed.

Theorem old_or_new_reachable : forall s,
  all_fresh pool0 -> reach gstep1 (ginit tmo max fbmax fbdis, pool0) s -> Forall old_or_new (snd s).
Proof.
  intros s Hf Hr. pose proof (inv_reach _ _ _ InvV _ (invV_init Hf) invV_step s Hr) as H.
  destruct s as [sh pool]. destruct H as (_ & _ & _ & _ & _ & H). exact H.
Qed.
End ConfigRead.
