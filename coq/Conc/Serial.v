(* Conc/Serial.v — level-2 model of operations whose whole body is one critical
   section of a single RWMutex (circuit.Manager: CreateCircuit under Lock;
   GetCircuit / AllCircuits under RLock).  Nothing inside a section is visible to
   other threads, so a writer's body takes effect at its Unlock step and a
   reader's result is computed at its RUnlock step.  The ghost log records the
   writers' operations in the order their sections ran: the theorems say every
   reachable state is the SEQUENTIAL execution of that log, so whatever holds for
   all sequential histories (level 1) holds for every interleaving. *)
From CV Require Import Conc.Sched.

Definition Mmu : nat := 0.
Definition Mdone : nat := 0.

Section Serial.
Variables (St Op : Type).
Variable apply : St -> Op -> St.      (* effect of an operation's body *)
Variable code : St -> Op -> Z.        (* what it reports to its caller *)
Variable is_write : Op -> bool.       (* takes the lock exclusively *)

Record sshared := { s_state : St; s_writer : bool; s_readers : Z; s_log : list Op }.
Inductive spc := SpLock | SpUnlock | SpFinish (r : Z) | SpDone (r : Z).
Record sthread := { s_op : Op; s_pc : spc }.

Definition sstep (s : sshared) (t : sthread) : option (sshared * sthread * lab) :=
  let go pc := {| s_op := s_op t; s_pc := pc |} in
  match s_pc t with
  | SpLock =>
      if is_write (s_op t) then
        if s_writer s || negb (s_readers s =? 0) then None
        else Some ({| s_state := s_state s; s_writer := true; s_readers := s_readers s; s_log := s_log s |}, go SpUnlock, LLock Mmu)
      else
        if s_writer s then None
        else Some ({| s_state := s_state s; s_writer := false; s_readers := s_readers s + 1; s_log := s_log s |}, go SpUnlock, LRLock Mmu)
  | SpUnlock =>
      if is_write (s_op t) then
        Some ({| s_state := apply (s_state s) (s_op t); s_writer := false; s_readers := s_readers s; s_log := s_log s ++ [s_op t] |},
              go (SpFinish (code (s_state s) (s_op t))), LUnlock Mmu)
      else
        Some ({| s_state := s_state s; s_writer := s_writer s; s_readers := s_readers s - 1; s_log := s_log s |},
              go (SpFinish (code (s_state s) (s_op t))), LRUnlock Mmu)
  | SpFinish r => Some (s, go (SpDone r), LMark Mdone r)
  | SpDone _ => None
  end.

Definition sinit (st : St) : sshared := {| s_state := st; s_writer := false; s_readers := 0; s_log := [] |}.
Definition sthread0 (o : Op) : sthread := {| s_op := o; s_pc := SpLock |}.

Definition s_applied (t : sthread) : bool :=
  is_write (s_op t) && match s_pc t with SpFinish _ | SpDone _ => true | _ => false end.
Definition s_done (t : sthread) : bool := match s_pc t with SpDone _ => true | _ => false end.
Definition all_fresh_s (pool : list sthread) : Prop := Forall (fun t => exists o, t = sthread0 o) pool.
End Serial.
Arguments sstep {St Op}. Arguments sinit {St Op}. Arguments sthread0 {Op}. Arguments s_state {St Op}. Arguments s_log {St Op}.
Arguments s_writer {St Op}. Arguments s_readers {St Op}. Arguments s_op {Op}. Arguments s_pc {Op}. Arguments s_applied {Op}.
Arguments s_done {Op}. Arguments all_fresh_s {Op}.
