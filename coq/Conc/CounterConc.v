(* Conc/CounterConc.v — level-2 model of faststats.RollingCounter under concurrent
   use (rolling_counter.go, rolling_bucket.go): every atomic operation of Inc,
   RollingSumAt, GetBuckets, Reset and of RollingBuckets.Advance (its CAS loop and
   its tail recursion) is one step.
   Locations: LastAbsIndex, rollingSum, totalSum, buckets[j]. *)
From CV Require Import Conc.Sched.

Definition Llast : nat := 0.  Definition Lrsum : nat := 1.  Definition Ltsum : nat := 2.
Definition Lslot (j : Z) : nat := (3 + Z.to_nat j)%nat.
Definition Mdone : nat := 0.

Record cshared := { c_last : Z; c_slots : list Z; c_rsum : Z; c_tsum : Z }.

Inductive cop := CInc | CSum | CBuckets | CReset.

Inductive cpc :=
| PStart                              (* Inc: about to totalSum.Add(1) *)
| PAdv                                (* Advance: about to load LastAbsIndex *)
| PLoop (i lv : Z)                    (* for-loop head: about to CAS(lv, lv+1), or the final CAS(lv, absIndex) *)
| PClearSwap (i lv : Z)               (* clearBucket(lv mod n): about to Swap(0) *)
| PClearAdd (i lv v : Z)              (* ... about to rollingSum.Add(-v) *)
| PIncSlot (j : Z) | PIncSum          (* Inc: buckets[j].Add(1); rollingSum.Add(1) *)
| PSumLoad                            (* RollingSumAt: rollingSum.Get() *)
| PBkLast | PBk (s : Z) (k : Z)       (* GetBuckets: LastAbsIndex.Get(); buckets[..].Get() x n *)
| PRs (k : Z) | PRsAdd (k v : Z)      (* Reset: clearBucket(k) for k < n *)
| PFinish (r : Z) | PDone (r : Z).

(* a thread: the operation, its absolute bucket index (None: stamp before the start), pc *)
Record cthread := { t_op : cop; t_abs : option Z; t_pc : cpc }.

Section Counter.
Variable n : Z.   (* NumBuckets > 0 *)

Definition getz (l : list Z) (i : Z) : Z := nth (Z.to_nat i) l 0.
Fixpoint setnth (i : nat) (x : Z) (l : list Z) : list Z :=
  match l, i with [], _ => [] | _ :: t, O => x :: t | h :: t, S j => h :: setnth j x t end.
Definition setz (l : list Z) (i x : Z) : list Z := setnth (Z.to_nat i) x l.

Definition with_pc (t : cthread) (pc : cpc) : cthread := {| t_op := t_op t; t_abs := t_abs t; t_pc := pc |}.

(* where an operation continues once Advance has returned idx (None = -1) *)
Definition after_adv (op : cop) (idx : option Z) : cpc :=
  match op with
  | CInc => match idx with Some j => PIncSlot j | None => PFinish 0 end
  | CSum => PSumLoad
  | CBuckets => PBkLast
  | CReset => PRs 0
  end.
(* calling Advance: a stamp before the start returns -1 without touching shared memory *)
Definition enter_adv (t : cthread) : cpc :=
  match t_abs t with Some _ => PAdv | None => after_adv (t_op t) None end.

Definition cstep (s : cshared) (t : cthread) : option (cshared * cthread * lab) :=
  match t_pc t with
  | PStart =>
      Some ({| c_last := c_last s; c_slots := c_slots s; c_rsum := c_rsum s; c_tsum := c_tsum s + 1 |},
            with_pc t (enter_adv t), LAtomic Ltsum OpAdd 1 (c_tsum s + 1))
  | PAdv =>
      match t_abs t with
      | None => None
      | Some a =>
          let l := c_last s in
          let d := a - l in
          Some (s, with_pc t (if d =? 0 then after_adv (t_op t) (Some (a mod n))
                              else if d <? 0 then (if n <=? - d then after_adv (t_op t) None
                                                   else after_adv (t_op t) (Some (a mod n)))
                              else PLoop 0 l),
                LAtomic Llast OpLoad 0 l)
      end
  | PLoop i lv =>
      match t_abs t with
      | None => None
      | Some a =>
          if (i <? n) && (lv <? a) then
            if c_last s =? lv then
              Some ({| c_last := lv + 1; c_slots := c_slots s; c_rsum := c_rsum s; c_tsum := c_tsum s |},
                    with_pc t (PClearSwap i (lv + 1)), LCas Llast lv (lv + 1) true)
            else Some (s, with_pc t PAdv, LCas Llast lv (lv + 1) false)       (* someone else is swapping: restart *)
          else
            if c_last s =? lv then
              Some ({| c_last := a; c_slots := c_slots s; c_rsum := c_rsum s; c_tsum := c_tsum s |},
                    with_pc t PAdv, LCas Llast lv a true)
            else Some (s, with_pc t PAdv, LCas Llast lv a false)
      end
  | PClearSwap i lv =>
      let j := lv mod n in
      let v := getz (c_slots s) j in
      Some ({| c_last := c_last s; c_slots := setz (c_slots s) j 0; c_rsum := c_rsum s; c_tsum := c_tsum s |},
            with_pc t (PClearAdd i lv v), LAtomic (Lslot j) OpSwap 0 v)
  | PClearAdd i lv v =>
      Some ({| c_last := c_last s; c_slots := c_slots s; c_rsum := c_rsum s - v; c_tsum := c_tsum s |},
            with_pc t (PLoop (i + 1) lv), LAtomic Lrsum OpAdd (- v) (c_rsum s - v))
  | PIncSlot j =>
      Some ({| c_last := c_last s; c_slots := setz (c_slots s) j (getz (c_slots s) j + 1); c_rsum := c_rsum s; c_tsum := c_tsum s |},
            with_pc t PIncSum, LAtomic (Lslot j) OpAdd 1 (getz (c_slots s) j + 1))
  | PIncSum =>
      Some ({| c_last := c_last s; c_slots := c_slots s; c_rsum := c_rsum s + 1; c_tsum := c_tsum s |},
            with_pc t (PFinish 0), LAtomic Lrsum OpAdd 1 (c_rsum s + 1))
  | PSumLoad => Some (s, with_pc t (PFinish (c_rsum s)), LAtomic Lrsum OpLoad 0 (c_rsum s))
  | PBkLast => Some (s, with_pc t (PBk (c_last s mod n) 0), LAtomic Llast OpLoad 0 (c_last s))
  | PBk st k =>
      let idx := if st - k <? 0 then st - k + n else st - k in
      Some (s, with_pc t (if k + 1 <? n then PBk st (k + 1) else PFinish 0), LAtomic (Lslot idx) OpLoad 0 (getz (c_slots s) idx))
  | PRs k =>
      let v := getz (c_slots s) k in
      Some ({| c_last := c_last s; c_slots := setz (c_slots s) k 0; c_rsum := c_rsum s; c_tsum := c_tsum s |},
            with_pc t (PRsAdd k v), LAtomic (Lslot k) OpSwap 0 v)
  | PRsAdd k v =>
      Some ({| c_last := c_last s; c_slots := c_slots s; c_rsum := c_rsum s - v; c_tsum := c_tsum s |},
            with_pc t (if k + 1 <? n then PRs (k + 1) else PFinish 0), LAtomic Lrsum OpAdd (- v) (c_rsum s - v))
  | PFinish r => Some (s, with_pc t (PDone r), LMark Mdone r)
  | PDone _ => None
  end.

Definition cinit (last0 : Z) (slots0 : list Z) (rsum0 tsum0 : Z) : cshared :=
  {| c_last := last0; c_slots := slots0; c_rsum := rsum0; c_tsum := tsum0 |}.
Definition fresh_counter : cshared := cinit 0 (repeat 0 (Z.to_nat n)) 0 0.

(* a thread about to start operation op with absolute index a *)
Definition thread0 (op : cop) (a : option Z) : cthread :=
  let t := {| t_op := op; t_abs := a; t_pc := PStart |} in
  match op with CInc => t | _ => with_pc t (enter_adv t) end.
End Counter.

(* ---------- correspondence ---------- *)
Definition counter_case : Type := nat * (Z * cshared) * list cthread * list (nat * lab).
Definition counter_mismatches (cs : list counter_case) : list (nat * (nat * option (nat * lab))) :=
  flat_map (fun c : counter_case =>
    let '(id, (n, sh), pool, tr) := c in
    let '(m, _, ok) := replay (cstep n) (map fst tr) sh pool in
    match trace_diff 0 m tr with
    | None => []
    | Some d => [(id, d)]
    end) cs.

(* ---------- vocabulary of the theorems ---------- *)
Definition zsum (l : list Z) : Z := fold_right Z.add 0 l.
Definition c_done (t : cthread) : bool := match t_pc t with PDone _ => true | _ => false end.
Definition is_inc (t : cthread) : bool := match t_op t with CInc => true | _ => false end.
(* an Inc whose totalSum.Add(1) has happened *)
Definition inc_counted (t : cthread) : bool :=
  is_inc t && match t_pc t with PStart => false | _ => true end.
(* what a thread still owes rollingSum: +1 between the slot add and the sum add of an Inc,
   -v between a Swap that returned v and the matching Add(-v) *)
Definition pending (t : cthread) : Z :=
  match t_pc t with
  | PIncSum => 1
  | PClearAdd _ _ v => - v
  | PRsAdd _ v => - v
  | _ => 0
  end.
Definition pending_sum (pool : list cthread) : Z := zsum (map pending pool).
Definition abs_of (t : cthread) : Z := match t_abs t with Some a => a | None => 0 end.
(* the largest index requested by any thread (0 if none) *)
Definition max_requested (pool : list cthread) : Z := fold_right Z.max 0 (map abs_of pool).
Definition all_started (pool : list cthread) : Prop :=
  Forall (fun t => exists op a, t = thread0 op a /\ match a with Some x => 0 <= x | None => True end) pool.

(* a consistent counter before the threads start *)
Definition wf0 (n : Z) (sh : cshared) : Prop :=
  Z.of_nat (length (c_slots sh)) = n /\ Forall (fun x => 0 <= x) (c_slots sh) /\
  c_rsum sh = zsum (c_slots sh) /\ c_rsum sh <= c_tsum sh /\ 0 <= c_last sh.
Definition all_done (pool : list cthread) : Prop := Forall (fun t => c_done t = true) pool.
Definition is_reset (t : cthread) : bool := match t_op t with CReset => true | _ => false end.
(* an Inc whose stamp is valid and inside the window ending at index l *)
Definition inc_in_window (n l : Z) (t : cthread) : bool :=
  is_inc t && match t_abs t with Some a => l - a <? n | None => false end.
