(* Conc/Gauge_Proofs.v — proofs about the level-2 gauge model (Conc/Gauge.v):
   the gauges count the threads between Add(1) and Add(-1) (any pool, also with
   concurrent reconfigurations); without reconfigurations the in-flight bounds hold
   at every reachable state and a negative limit never refuses anybody. *)
From Coq Require Import ZifyBool.
From CV Require Import Conc.Sched Conc.Gauge.

(* the value a thread observed when it entered a gauge's region *)
Definition obs_run (l : glocal) : Z :=
  match l with
  | Caller _ _ (GAdded v | GRejecting v | GEnter v | GTimed v _ | GInFlight v | GExited v) => v
  | _ => 0
  end.
Definition obs_fb (l : glocal) : Z :=
  match l with
  | Caller _ _ (GFbAdded _ w | GFbRejecting w | GFbEnter w | GFbInFlight w | GFbExited w _) => w
  | _ => 0
  end.
Definition run_le (k : Z) (l : glocal) : bool := holds_run l && (obs_run l <=? k).
Definition fb_le (k : Z) (l : glocal) : bool := holds_fb l && (obs_fb l <=? k).
(* a thread past the limit test observed a value within the limit *)
Definition run_passed (m : Z) (l : glocal) : Prop :=
  match l with Caller _ _ (GEnter v | GTimed v _ | GInFlight v | GExited v) => v <= m | _ => True end.
Definition fb_passed (m : Z) (l : glocal) : Prop :=
  match l with Caller _ _ (GFbEnter w | GFbInFlight w | GFbExited w _) => w <= m | _ => True end.

Ltac gsimpl :=
  cbn [holds_run holds_fb obs_run obs_fb run_le fb_le andb b2z run_passed fb_passed
       rejecting_run rejecting_fb is_setter fst snd
       g_cmds g_max g_fbs g_fbmax g_fbdis g_timeout g_cfgheld set_cmds set_fbs] in *.
Ltac gifs :=
  repeat match goal with |- context [if ?b then _ else _] => destruct b eqn:? end.
Ltac gcases := gifs; gsimpl; unfold b2z; gifs.

Section GaugeProofs.
Variables (tmo max fbmax : Z) (fbdis : bool).

(* ---------- the gauges count their regions: any pool ---------- *)
Definition InvC (s : gshared * list glocal) : Prop :=
  g_cmds (fst s) = cnt holds_run (snd s) /\ g_fbs (fst s) = cnt holds_fb (snd s).

Lemma fresh_no_region l :
  fresh l = true ->
  holds_run l = false /\ holds_fb l = false /\ run_passed max l /\ fb_passed fbmax l /\
  rejecting_run l = false /\ rejecting_fb l = false.
Proof.
  destruct l as [run fb pc | tm m fm fd n | n]; [destruct pc| |]; cbn; intros H;
    try discriminate; repeat split.
Qed.

Lemma fresh_cnt_run pool : all_fresh pool -> cnt holds_run pool = 0.
Proof.
  intros H. apply cnt_zero. eapply Forall_impl; [|exact H].
  intros l Hl. apply fresh_no_region in Hl. tauto.
Qed.
Lemma fresh_cnt_fb pool : all_fresh pool -> cnt holds_fb pool = 0.
Proof.
  intros H. apply cnt_zero. eapply Forall_impl; [|exact H].
  intros l Hl. apply fresh_no_region in Hl. tauto.
Qed.

Lemma invC_init pool : all_fresh pool -> InvC (ginit tmo max fbmax fbdis, pool).
Proof.
  intros H. unfold InvC. cbn [fst snd ginit g_cmds g_fbs].
  rewrite fresh_cnt_run, fresh_cnt_fb by assumption. split; reflexivity.
Qed.

Lemma invC_step s s' : InvC s -> gstep gstep1 s s' -> InvC s'.
Proof.
  intros HI Hs. destruct Hs as [sh pool i lo sh' lo' lb Hn Ht].
  unfold InvC in *. cbn [fst snd] in *. destruct HI as (Hc & Hf).
  rewrite (cnt_upd _ holds_run _ _ _ _ Hn), (cnt_upd _ holds_fb _ _ _ _ Hn).
  destruct lo as [run fb pc | tm m fm fd n | n].
  - destruct pc; destruct run; destruct fb; cbn [gstep1] in Ht;
      inversion Ht; subst; clear Ht; gsimpl; gcases; lia.
  - destruct n as [|[|[|[|[|[|[|n]]]]]]]; cbn [gstep1] in Ht; try (destruct (g_cfgheld sh)); inversion Ht; subst; clear Ht; gsimpl; lia.
  - destruct n as [|[|n]]; cbn [gstep1] in Ht; inversion Ht; subst; clear Ht; gsimpl; lia.
Qed.

Lemma gauges_count : forall pool s,
  all_fresh pool -> reach gstep1 (ginit tmo max fbmax fbdis, pool) s ->
  g_cmds (fst s) = cnt holds_run (snd s) /\ g_fbs (fst s) = cnt holds_fb (snd s).
Proof.
  intros pool s Hf Hr.
  exact (inv_reach _ _ _ InvC _ (invC_init pool Hf) invC_step s Hr).
Qed.

Lemma finished_no_region l : finished l = true -> holds_run l = false /\ holds_fb l = false.
Proof.
  destruct l as [run fb pc | tm m fm fd n | n]; [destruct pc| |]; cbn; intros H;
    try discriminate; split; reflexivity.
Qed.

Lemma quiescent_zero : forall pool s,
  all_fresh pool -> reach gstep1 (ginit tmo max fbmax fbdis, pool) s ->
  Forall (fun l => finished l = true) (snd s) ->
  g_cmds (fst s) = 0 /\ g_fbs (fst s) = 0.
Proof.
  intros pool s Hf Hr Hd. destruct (gauges_count pool s Hf Hr) as (Hc & Hb).
  rewrite Hc, Hb. split; apply cnt_zero; (eapply Forall_impl; [|exact Hd]);
    intros l Hl; apply finished_no_region in Hl; tauto.
Qed.

(* ---------- pools without reconfiguration ---------- *)
Definition Inv (s : gshared * list glocal) : Prop :=
  let (sh, pool) := s in
  no_setters pool /\ g_max sh = max /\ g_fbmax sh = fbmax /\
  g_cmds sh = cnt holds_run pool /\ g_fbs sh = cnt holds_fb pool /\
  (forall k, cnt (run_le k) pool <= Z.max 0 k) /\
  (forall k, cnt (fb_le k) pool <= Z.max 0 k) /\
  (0 <= max -> Forall (run_passed max) pool) /\
  (0 <= fbmax -> Forall (fb_passed fbmax) pool) /\
  (max < 0 -> Forall (fun l => rejecting_run l = false) pool) /\
  (fbmax < 0 -> Forall (fun l => rejecting_fb l = false) pool).

Lemma run_le_holds k pool : cnt (run_le k) pool <= cnt holds_run pool.
Proof. apply cnt_le_mono. unfold run_le. intros x Hx. apply andb_true_iff in Hx. tauto. Qed.
Lemma fb_le_holds k pool : cnt (fb_le k) pool <= cnt holds_fb pool.
Proof. apply cnt_le_mono. unfold fb_le. intros x Hx. apply andb_true_iff in Hx. tauto. Qed.

Lemma inv_init pool : all_fresh pool -> no_setters pool -> Inv (ginit tmo max fbmax fbdis, pool).
Proof.
  intros Hf Hns. unfold Inv. cbn [ginit g_cmds g_max g_fbs g_fbmax].
  pose proof (fresh_cnt_run pool Hf) as H1. pose proof (fresh_cnt_fb pool Hf) as H2.
  repeat apply conj; try reflexivity; try assumption; try (symmetry; assumption).
  - intro k. pose proof (run_le_holds k pool). pose proof (cnt_nonneg _ (run_le k) pool). lia.
  - intro k. pose proof (fb_le_holds k pool). pose proof (cnt_nonneg _ (fb_le k) pool). lia.
  - intros _. eapply Forall_impl; [|exact Hf]. intros l Hl. apply fresh_no_region in Hl. tauto.
  - intros _. eapply Forall_impl; [|exact Hf]. intros l Hl. apply fresh_no_region in Hl. tauto.
  - intros _. eapply Forall_impl; [|exact Hf]. intros l Hl. apply fresh_no_region in Hl. tauto.
  - intros _. eapply Forall_impl; [|exact Hf]. intros l Hl. apply fresh_no_region in Hl. tauto.
Qed.

Lemma inv_step s s' : Inv s -> gstep gstep1 s s' -> Inv s'.
Proof.
  intros HI Hs. destruct Hs as [sh pool i lo sh' lo' lb Hn Ht].
  destruct HI as (Hns & Hmax & Hfmax & Hc & Hf & Hk & Hkf & Hp & Hpf & Hr & Hrf).
  pose proof (cnt_nonneg _ holds_run pool) as Hnn.
  pose proof (cnt_nonneg _ holds_fb pool) as Hnnf.
  pose proof (nth_error_Forall _ _ _ _ _ Hns Hn) as Hlo.
  assert (Hstep :
    forall new : glocal,
      is_setter new = false ->
      g_max sh' = max -> g_fbmax sh' = fbmax ->
      g_cmds sh' = g_cmds sh - b2z (holds_run lo) + b2z (holds_run new) ->
      g_fbs sh' = g_fbs sh - b2z (holds_fb lo) + b2z (holds_fb new) ->
      (forall k, cnt (run_le k) pool <= Z.max 0 k -> cnt (run_le k) pool <= cnt holds_run pool ->
                 cnt (run_le k) pool - b2z (run_le k lo) + b2z (run_le k new) <= Z.max 0 k) ->
      (forall k, cnt (fb_le k) pool <= Z.max 0 k -> cnt (fb_le k) pool <= cnt holds_fb pool ->
                 cnt (fb_le k) pool - b2z (fb_le k lo) + b2z (fb_le k new) <= Z.max 0 k) ->
      (0 <= max -> run_passed max lo -> run_passed max new) ->
      (0 <= fbmax -> fb_passed fbmax lo -> fb_passed fbmax new) ->
      (max < 0 -> rejecting_run new = false) ->
      (fbmax < 0 -> rejecting_fb new = false) ->
      Inv (sh', upd i new pool)).
  { intros new G1 G2 G3 G4 G5 G6 G7 G8 G9 G10 G11. unfold Inv. repeat apply conj.
    - apply Forall_upd; assumption.
    - assumption.
    - assumption.
    - rewrite (cnt_upd _ holds_run _ _ _ _ Hn). lia.
    - rewrite (cnt_upd _ holds_fb _ _ _ _ Hn). lia.
    - intro k. rewrite (cnt_upd _ (run_le k) _ _ _ _ Hn). apply G6; [apply Hk | apply run_le_holds].
    - intro k. rewrite (cnt_upd _ (fb_le k) _ _ _ _ Hn). apply G7; [apply Hkf | apply fb_le_holds].
    - intro H. apply Forall_upd; [auto|]. apply G8; [assumption|].
      exact (nth_error_Forall _ _ _ _ _ (Hp H) Hn).
    - intro H. apply Forall_upd; [auto|]. apply G9; [assumption|].
      exact (nth_error_Forall _ _ _ _ _ (Hpf H) Hn).
    - intro H. apply Forall_upd; auto.
    - intro H. apply Forall_upd; auto. }
  destruct lo as [run fb pc | tm m fm fd n | n]; [ | discriminate Hlo | ].
  - destruct pc; destruct run; destruct fb; cbn [gstep1] in Ht;
      inversion Ht; subst; clear Ht; apply Hstep; clear Hstep;
      gsimpl; intros; gcases; try reflexivity; try assumption; try lia.
  - destruct n as [|[|n]]; cbn [gstep1] in Ht; inversion Ht; subst; clear Ht; apply Hstep; clear Hstep;
      gsimpl; intros; try reflexivity; try assumption; try lia.
Qed.

Lemma inv_reachable pool s :
  all_fresh pool -> no_setters pool -> reach gstep1 (ginit tmo max fbmax fbdis, pool) s -> Inv s.
Proof.
  intros Hf Hns Hr.
  exact (inv_reach _ _ _ Inv _ (inv_init pool Hf Hns) inv_step s Hr).
Qed.

Lemma run_inflight_le pool :
  Forall (run_passed max) pool -> cnt run_inflight pool <= cnt (run_le max) pool.
Proof.
  intros Hf. induction Hf as [|x l Hx Hl IH]; [rewrite !cnt_nil; lia|].
  rewrite !cnt_cons.
  assert (b2z (run_inflight x) <= b2z (run_le max x)); [|lia].
  destruct x as [run fb pc | tm m fm fd n | n]; [destruct pc| |];
    cbn [run_inflight] in *; gsimpl; gcases; lia.
Qed.

Lemma fb_inflight_le pool :
  Forall (fb_passed fbmax) pool -> cnt fb_inflight pool <= cnt (fb_le fbmax) pool.
Proof.
  intros Hf. induction Hf as [|x l Hx Hl IH]; [rewrite !cnt_nil; lia|].
  rewrite !cnt_cons.
  assert (b2z (fb_inflight x) <= b2z (fb_le fbmax x)); [|lia].
  destruct x as [run fb pc | tm m fm fd n | n]; [destruct pc| |];
    cbn [fb_inflight] in *; gsimpl; gcases; lia.
Qed.

Lemma run_bound : forall pool s,
  0 <= max -> all_fresh pool -> no_setters pool ->
  reach gstep1 (ginit tmo max fbmax fbdis, pool) s -> cnt run_inflight (snd s) <= max.
Proof.
  intros pool s Hm Hf Hns Hr. pose proof (inv_reachable pool s Hf Hns Hr) as HI.
  destruct s as [sh p]. destruct HI as (_ & _ & _ & _ & _ & Hk & _ & Hp & _).
  cbn [snd]. specialize (Hk max). pose proof (run_inflight_le p (Hp Hm)). lia.
Qed.

Lemma fb_bound : forall pool s,
  0 <= fbmax -> all_fresh pool -> no_setters pool ->
  reach gstep1 (ginit tmo max fbmax fbdis, pool) s -> cnt fb_inflight (snd s) <= fbmax.
Proof.
  intros pool s Hm Hf Hns Hr. pose proof (inv_reachable pool s Hf Hns Hr) as HI.
  destruct s as [sh p]. destruct HI as (_ & _ & _ & _ & _ & _ & Hk & _ & Hp & _).
  cbn [snd]. specialize (Hk fbmax). pose proof (fb_inflight_le p (Hp Hm)). lia.
Qed.

Lemma unlimited : forall pool s,
  all_fresh pool -> no_setters pool -> reach gstep1 (ginit tmo max fbmax fbdis, pool) s ->
  (max < 0 -> cnt rejecting_run (snd s) = 0) /\ (fbmax < 0 -> cnt rejecting_fb (snd s) = 0).
Proof.
  intros pool s Hf Hns Hr. pose proof (inv_reachable pool s Hf Hns Hr) as HI.
  destruct s as [sh p]. destruct HI as (_ & _ & _ & _ & _ & _ & _ & _ & _ & H1 & H2).
  cbn [snd]. split; intro H; apply cnt_zero; auto.
Qed.

End GaugeProofs.
