(* Conc/Gauge.v — level-2 model of the two in-flight gauges and their limits
   (circuit.go: run() / throttleConcurrentCommands / fallback(), config.go reset()).
   Locations: concurrentCommands, Execution.MaxConcurrentRequests,
   concurrentFallbacks, Fallback.MaxConcurrentRequests, Fallback.Disabled.
   Thread programs: a caller (run path then fallback path), a reconfiguration
   (SetConfigThreadSafe's stores in source order), a gauge reader.  Every other
   shared access of the real code (gate, open/close logic) is outside this
   projection; the harness uses a circuit on which those never interfere. *)
From CV Require Import Conc.Sched.

Definition Lcmds : nat := 0.   Definition Lmax : nat := 1.
Definition Lfbs : nat := 2.    Definition Lfbmax : nat := 3.   Definition Lfbdis : nat := 4.
Definition Ltimeout : nat := 5.
(* the mutex SetConfigThreadSafe holds while it stores the new settings and forwards them to Configurable logic *)
Definition Mcfg : nat := 0.
(* markers *)
Definition Menter : nat := 0.  Definition Mexit : nat := 1.
Definition Mfenter : nat := 2. Definition Mfexit : nat := 3.  Definition Mdone : nat := 4.
Definition Mforward : nat := 5.   (* the new configuration handed to the open/close logic (Configurable), still under the mutex *)

Record gshared := { g_cmds : Z; g_max : Z; g_fbs : Z; g_fbmax : Z; g_fbdis : bool; g_timeout : Z; g_cfgheld : bool }.

(* how the user's functions end *)
Inductive rres := RunOk | RunErr | RunPanic.
Inductive fbres := FbNone (* no fallback supplied *) | FbOk | FbErr | FbPanic.
(* what the call returns: 0 nil, 1 the run error, 2 throttled, 3 fallback error, 4 fallback throttled, 5 panic *)
Definition R_nil := 0. Definition R_err := 1. Definition R_throttled := 2.
Definition R_fberr := 3. Definition R_fbthrottled := 4. Definition R_panic := 5.

Inductive gpc :=
| GStart
| GAdded (v : Z)                 (* concurrentCommands.Add(1) returned v *)
| GRejecting (v : Z)                                (* limit exceeded: about to release *)
| GEnter (v : Z) | GTimed (v tmo : Z) | GInFlight (v : Z) | GExited (v : Z)   (* limit passed: about to read Execution.Timeout / timeout tmo read, runFunc about to be entered / running / returned; v as observed by Add *)
| GFbCheck (err : Z)             (* run step ended with error err: fallback() starts *)
| GFbAdd (err : Z) | GFbAdded (err w : Z) | GFbRejecting (w : Z)
| GFbEnter (w : Z) | GFbInFlight (w : Z) | GFbExited (w r : Z)
| GFinish (r : Z)                (* result known, about to report *)
| GDone (r : Z).

Inductive glocal :=
| Caller (run : rres) (fb : fbres) (pc : gpc)
| Setter (tmo max fbmax : Z) (fbdis : bool) (k : nat)     (* k stores done *)
| Reader (k : nat).

Definition set_cmds s v := {| g_cmds := v; g_max := g_max s; g_fbs := g_fbs s; g_fbmax := g_fbmax s; g_fbdis := g_fbdis s; g_timeout := g_timeout s; g_cfgheld := g_cfgheld s |}.
Definition set_fbs s v := {| g_cmds := g_cmds s; g_max := g_max s; g_fbs := v; g_fbmax := g_fbmax s; g_fbdis := g_fbdis s; g_timeout := g_timeout s; g_cfgheld := g_cfgheld s |}.
Definition bz (b : bool) : Z := if b then 1 else 0.

Definition gstep1 (s : gshared) (l : glocal) : option (gshared * glocal * lab) :=
  match l with
  | Caller run fb pc =>
      let next pc' := Caller run fb pc' in
      match pc with
      | GStart => Some (set_cmds s (g_cmds s + 1), next (GAdded (g_cmds s + 1)), LAtomic Lcmds OpAdd 1 (g_cmds s + 1))
      | GAdded v =>
          let m := g_max s in
          Some (s, next (if (0 <=? m) && (m <? v) then GRejecting v else GEnter v), LAtomic Lmax OpLoad 0 m)
      | GRejecting _ => Some (set_cmds s (g_cmds s - 1), next (GFbCheck R_throttled), LAtomic Lcmds OpAdd (-1) (g_cmds s - 1))
      | GEnter v => Some (s, next (GTimed v (g_timeout s)), LAtomic Ltimeout OpLoad 0 (g_timeout s))
      | GTimed v _ => Some (s, next (GInFlight v), LMark Menter 0)
      | GInFlight v => Some (s, next (GExited v), LMark Mexit (match run with RunOk => 0 | RunErr => 1 | RunPanic => 2 end))
      | GExited _ =>
          Some (set_cmds s (g_cmds s - 1),
                next (match run with RunOk => GFinish R_nil | RunErr => GFbCheck R_err | RunPanic => GFinish R_panic end),
                LAtomic Lcmds OpAdd (-1) (g_cmds s - 1))
      | GFbCheck err =>
          match fb with
          | FbNone => Some (s, next (GDone err), LMark Mdone err)
          | _ => Some (s, next (if g_fbdis s then GFinish err else GFbAdd err), LAtomic Lfbdis OpLoad 0 (bz (g_fbdis s)))
          end
      | GFbAdd err => Some (set_fbs s (g_fbs s + 1), next (GFbAdded err (g_fbs s + 1)), LAtomic Lfbs OpAdd 1 (g_fbs s + 1))
      | GFbAdded err w =>
          let m := g_fbmax s in
          Some (s, next (if (0 <=? m) && (m <? w) then GFbRejecting w else GFbEnter w), LAtomic Lfbmax OpLoad 0 m)
      | GFbRejecting _ => Some (set_fbs s (g_fbs s - 1), next (GFinish R_fbthrottled), LAtomic Lfbs OpAdd (-1) (g_fbs s - 1))
      | GFbEnter w => Some (s, next (GFbInFlight w), LMark Mfenter 0)
      | GFbInFlight w =>
          Some (s, next (GFbExited w (match fb with FbOk => R_nil | FbErr => R_fberr | _ => R_panic end)),
                LMark Mfexit (match fb with FbOk => 0 | FbErr => 1 | _ => 2 end))
      | GFbExited _ r => Some (set_fbs s (g_fbs s - 1), next (GFinish r), LAtomic Lfbs OpAdd (-1) (g_fbs s - 1))
      | GFinish r => Some (s, next (GDone r), LMark Mdone r)
      | GDone _ => None
      end
  | Setter tm m fm fd k =>
      let hold b := {| g_cmds := g_cmds s; g_max := g_max s; g_fbs := g_fbs s; g_fbmax := g_fbmax s; g_fbdis := g_fbdis s; g_timeout := g_timeout s; g_cfgheld := b |} in
      match k with
      | 0%nat => if g_cfgheld s then None      (* blocked on notThreadSafeConfigMu *)
                 else Some (hold true, Setter tm m fm fd 1, LLock Mcfg)
      | 1%nat => Some ({| g_cmds := g_cmds s; g_max := g_max s; g_fbs := g_fbs s; g_fbmax := g_fbmax s; g_fbdis := g_fbdis s; g_timeout := tm; g_cfgheld := g_cfgheld s |},
                       Setter tm m fm fd 2, LAtomic Ltimeout OpStore tm 0)
      | 2%nat => Some ({| g_cmds := g_cmds s; g_max := m; g_fbs := g_fbs s; g_fbmax := g_fbmax s; g_fbdis := g_fbdis s; g_timeout := g_timeout s; g_cfgheld := g_cfgheld s |},
                       Setter tm m fm fd 3, LAtomic Lmax OpStore m 0)
      | 3%nat => Some ({| g_cmds := g_cmds s; g_max := g_max s; g_fbs := g_fbs s; g_fbmax := g_fbmax s; g_fbdis := fd; g_timeout := g_timeout s; g_cfgheld := g_cfgheld s |},
                       Setter tm m fm fd 4, LAtomic Lfbdis OpStore (bz fd) 0)
      | 4%nat => Some ({| g_cmds := g_cmds s; g_max := g_max s; g_fbs := g_fbs s; g_fbmax := fm; g_fbdis := g_fbdis s; g_timeout := g_timeout s; g_cfgheld := g_cfgheld s |},
                       Setter tm m fm fd 5, LAtomic Lfbmax OpStore fm 0)
      | 5%nat => Some (s, Setter tm m fm fd 6, LMark Mforward 0)
      | 6%nat => Some (hold false, Setter tm m fm fd 7, LUnlock Mcfg)
      | _ => None
      end
  | Reader k =>
      match k with
      | 0%nat => Some (s, Reader 1, LAtomic Lcmds OpLoad 0 (g_cmds s))
      | 1%nat => Some (s, Reader 2, LAtomic Lfbs OpLoad 0 (g_fbs s))
      | _ => None
      end
  end.

Definition ginit (tmo max fbmax : Z) (fbdis : bool) : gshared :=
  {| g_cmds := 0; g_max := max; g_fbs := 0; g_fbmax := fbmax; g_fbdis := fbdis; g_timeout := tmo; g_cfgheld := false |}.

(* ---------- correspondence ---------- *)
Definition gauge_case : Type := nat * gshared * list glocal * list (nat * lab).
Definition gauge_mismatches (cs : list gauge_case) : list (nat * (nat * option (nat * lab))) :=
  flat_map (fun c : gauge_case =>
    let '(id, sh, pool, tr) := c in
    let '(m, _, ok) := replay gstep1 (map fst tr) sh pool in
    match trace_diff 0 m tr with
    | None => []
    | Some d => [(id, d)]
    end) cs.

(* ---------- vocabulary of the theorems ---------- *)
Definition run_inflight (l : glocal) : bool :=
  match l with Caller _ _ (GInFlight _) => true | _ => false end.
Definition fb_inflight (l : glocal) : bool :=
  match l with Caller _ _ (GFbInFlight _) => true | _ => false end.
Definition is_caller (l : glocal) : bool := match l with Caller _ _ _ => true | _ => false end.
Definition is_setter (l : glocal) : bool := match l with Setter _ _ _ _ _ => true | _ => false end.
Definition finished (l : glocal) : bool :=
  match l with Caller _ _ (GDone _) => true | Setter _ _ _ _ 7%nat => true | Reader 2%nat => true | _ => false end.
Definition fresh (l : glocal) : bool :=
  match l with Caller _ _ GStart => true | Setter _ _ _ _ 0%nat => true | Reader 0%nat => true | _ => false end.
Definition result_of (l : glocal) : option Z := match l with Caller _ _ (GDone r) => Some r | _ => None end.
(* between the Add(1) and the Add(-1) on a gauge *)
Definition holds_run (l : glocal) : bool :=
  match l with
  | Caller _ _ (GAdded _ | GRejecting _ | GEnter _ | GTimed _ _ | GInFlight _ | GExited _) => true
  | _ => false
  end.
Definition holds_fb (l : glocal) : bool :=
  match l with
  | Caller _ _ (GFbAdded _ _ | GFbRejecting _ | GFbEnter _ | GFbInFlight _ | GFbExited _ _) => true
  | _ => false
  end.
Definition rejecting_run (l : glocal) : bool := match l with Caller _ _ (GRejecting _) => true | _ => false end.
Definition rejecting_fb (l : glocal) : bool := match l with Caller _ _ (GFbRejecting _) => true | _ => false end.
Definition all_fresh (pool : list glocal) : Prop := Forall (fun l => fresh l = true) pool.
Definition no_setters (pool : list glocal) : Prop := Forall (fun l => is_setter l = false) pool.

(* a reconfiguration between its Lock and its Unlock *)
Definition in_cfg_section (l : glocal) : bool :=
  match l with Setter _ _ _ _ (1 | 2 | 3 | 4 | 5 | 6)%nat => true | _ => false end.
