(* Conc/TimedCheckConc.v — level-2 model of faststats.TimedCheck (timedcheck.go)
   under concurrent Check / SleepStart / timer callbacks: the fast-fail load, the
   read-locked test, the write-locked re-test / count / re-arm, and the
   callback's version test and store are separate steps; the RWMutex admits any
   number of readers or one writer.
   Locations: isFastFail, isFailFastVersion, sleepDuration, eventCountToAllow;
   the RWMutex mu; nextOpenTime and currentlyAllowedEventCount are plain fields
   guarded by mu (their accesses sit between the lock steps).
   Ghost state: the re-arms made (stamp, duration read) and, for every Check that
   reached its write-locked test, (now, nextOpenTime at the test, answer). *)
From CV Require Import Conc.Sched.

Definition Lff : nat := 0.  Definition Lver : nat := 1.  Definition Lsleep : nat := 2.  Definition Lbudget : nat := 3.
Definition Mmu : nat := 0.
Definition Mreg : nat := 0.   (* TimeAfterFunc called with this duration *)
Definition Mdone : nat := 1.

Inductive kevent :=
| ERearm (t d : Z)                       (* re-armed at stamp t with sleep duration d *)
| ETest (now next : Z) (answer : bool).  (* a Check's write-locked test: its stamp, nextOpenTime then, its answer *)

Record kshared := {
  k_ff : bool; k_ver : Z; k_sleep : Z; k_budget : Z;
  k_next : Z; k_count : Z;
  k_writer : bool; k_readers : Z;
  k_log : list kevent                 (* ghost: re-arms and write-locked tests in the order they happened *)
}.

Inductive kkind := KCheck (now : Z) | KSleepStart (now : Z) | KCallback (v : Z).

Inductive kpc :=
| C0                      (* Check: about to load isFastFail *)
| C1                      (* about to RLock *)
| C2 (early : bool)       (* read-locked test done; about to RUnlock *)
| C3                      (* about to Lock *)
| C4                      (* write-locked: re-test; count++; load eventCountToAllow *)
| S0                      (* SleepStart: about to Lock *)
| R0 | R1 | R2 | R3 (d : Z)   (* resetOpenTimeWithLock: load sleep; store fast-fail; version.Add; register timer *)
| U (r : bool)            (* about to Unlock, result r *)
| K0 | K1                 (* callback: load version; store fast-fail false *)
| KFinish (r : Z) | KDone (r : Z).

Record kthread := { k_kind : kkind; k_pc : kpc }.

Definition bz (b : bool) : Z := if b then 1 else 0.
Definition now_of (k : kkind) : Z := match k with KCheck n | KSleepStart n => n | KCallback _ => 0 end.

Definition upd_sh (s : kshared) ff ver next count writer readers log : kshared :=
  {| k_ff := ff; k_ver := ver; k_sleep := k_sleep s; k_budget := k_budget s; k_next := next; k_count := count;
     k_writer := writer; k_readers := readers; k_log := log |}.

Definition kstep (s : kshared) (t : kthread) : option (kshared * kthread * lab) :=
  let go pc := {| k_kind := k_kind t; k_pc := pc |} in
  let now := now_of (k_kind t) in
  let same ff ver next count writer readers log := upd_sh s ff ver next count writer readers log in
  match k_pc t with
  | C0 => Some (s, go (if k_ff s then KFinish 0 else C1), LAtomic Lff OpLoad 0 (bz (k_ff s)))
  | C1 =>
      if k_writer s then None
      else Some (same (k_ff s) (k_ver s) (k_next s) (k_count s) false (k_readers s + 1) (k_log s),
                 go (C2 (now <? k_next s)), LRLock Mmu)
  | C2 early =>
      Some (same (k_ff s) (k_ver s) (k_next s) (k_count s) (k_writer s) (k_readers s - 1) (k_log s),
            go (if early then KFinish 0 else C3), LRUnlock Mmu)
  | C3 | S0 =>
      if k_writer s || negb (k_readers s =? 0) then None
      else Some (same (k_ff s) (k_ver s) (k_next s) (k_count s) true (k_readers s) (k_log s),
                 go (match k_pc t with C3 => C4 | _ => R0 end), LLock Mmu)
  | C4 =>
      if now <? k_next s then
        (* nextOpenTime.After(now): return false; the deferred Unlock is the next visible step *)
        Some (same (k_ff s) (k_ver s) (k_next s) (k_count s) false (k_readers s) (k_log s ++ [ETest now (k_next s) false]),
              go (KFinish 0), LUnlock Mmu)
      else
        let c := k_count s + 1 in
        Some (same (k_ff s) (k_ver s) (k_next s) c (k_writer s) (k_readers s) (k_log s ++ [ETest now (k_next s) true]),
              go (if k_budget s <=? c then R0 else U true), LAtomic Lbudget OpLoad 0 (k_budget s))
  | R0 =>
      let d := k_sleep s in
      Some (same (k_ff s) (k_ver s) (now + d) 0 (k_writer s) (k_readers s) (k_log s ++ [ERearm now d]),
            go R1, LAtomic Lsleep OpLoad 0 d)
  | R1 => Some (same true (k_ver s) (k_next s) (k_count s) (k_writer s) (k_readers s) (k_log s), go R2, LAtomic Lff OpStore 1 0)
  | R2 => Some (same (k_ff s) (k_ver s + 1) (k_next s) (k_count s) (k_writer s) (k_readers s) (k_log s),
                go (R3 (k_next s - now)), LAtomic Lver OpAdd 1 (k_ver s + 1))
  | R3 d => Some (s, go (U true), LMark Mreg d)
  | U r =>
      Some (same (k_ff s) (k_ver s) (k_next s) (k_count s) false (k_readers s) (k_log s),
            go (KFinish (match k_kind t with KCheck _ => bz r | _ => 0 end)), LUnlock Mmu)
  | K0 =>
      match k_kind t with
      | KCallback v => Some (s, go (if v =? k_ver s then K1 else KFinish 0), LAtomic Lver OpLoad 0 (k_ver s))
      | _ => None
      end
  | K1 => Some (same false (k_ver s) (k_next s) (k_count s) (k_writer s) (k_readers s) (k_log s), go (KFinish 0), LAtomic Lff OpStore 0 0)
  | KFinish r => Some (s, go (KDone r), LMark Mdone r)
  | KDone _ => None
  end.

Definition kthread0 (k : kkind) : kthread :=
  {| k_kind := k; k_pc := match k with KCheck _ => C0 | KSleepStart _ => S0 | KCallback _ => K0 end |}.

Definition kinit (ff : bool) (ver sleep budget next count : Z) : kshared :=
  {| k_ff := ff; k_ver := ver; k_sleep := sleep; k_budget := budget; k_next := next; k_count := count;
     k_writer := false; k_readers := 0; k_log := [] |}.

(* ---------- correspondence ---------- *)
Definition tcc_case : Type := nat * kshared * list kthread * list (nat * lab).
Definition tcc_mismatches (cs : list tcc_case) : list (nat * (nat * option (nat * lab))) :=
  flat_map (fun c : tcc_case =>
    let '(id, sh, pool, tr) := c in
    let '(m, _, ok) := replay kstep (map fst tr) sh pool in
    match trace_diff 0 m tr with
    | None => []
    | Some d => [(id, d)]
    end) cs.

(* ---------- vocabulary of the theorems ---------- *)
Definition holds_write (t : kthread) : bool :=
  match k_pc t with C4 | R0 | R1 | R2 | R3 _ | U _ => true | _ => false end.
Definition holds_read (t : kthread) : bool := match k_pc t with C2 _ => true | _ => false end.
Definition k_done (t : kthread) : bool := match k_pc t with KDone _ => true | _ => false end.
Definition all_fresh_k (pool : list kthread) : Prop := Forall (fun t => exists k, t = kthread0 k) pool.
(* the deadline of the latest re-arm made during the run (None: none yet) *)
Definition last_rearm_deadline (l : list kevent) : option Z :=
  fold_left (fun acc e => match e with ERearm t d => Some (t + d) | ETest _ _ _ => acc end) l None.
(* write-locked tests answered true since the latest re-arm *)
Definition successes_since_rearm (l : list kevent) : Z :=
  fold_left (fun acc e => match e with ERearm _ _ => 0 | ETest _ _ true => acc + 1 | ETest _ _ false => acc end) l 0.
Definition rearmed (l : list kevent) : bool := existsb (fun e => match e with ERearm _ _ => true | _ => false end) l.
