(* Conc/Sched.v — level-2 semantics shared by all interleaving models: a shared
   state, a pool of threads of ARBITRARY length each with its own local state
   (program counter + locals), one atomic step of one thread at a time.  Every
   label is one shared-memory operation of the real code (an atomic
   Load/Store/Add/Swap/CompareAndSwap on a named location, a mutex operation, or a
   harness-visible marker such as entering a callback), which is what the trace
   correspondence compares with the instrumented implementation step by step. *)
From Coq Require Export List ZArith Lia Bool.
Export ListNotations.
Open Scope Z_scope.

Inductive aop := OpLoad | OpStore | OpAdd | OpSwap.
Inductive lab :=
| LAtomic (loc : nat) (op : aop) (arg res : Z)
| LCas (loc : nat) (old new : Z) (ok : bool)
| LLock (m : nat) | LUnlock (m : nat) | LRLock (m : nat) | LRUnlock (m : nat)
| LMark (name : nat) (arg : Z).

Definition lab_eq_dec : forall a b : lab, {a = b} + {a <> b}.
Proof. repeat decide equality. Defined.
Definition lab_eqb (a b : lab) : bool := if lab_eq_dec a b then true else false.

Section Sched.
  Variables Sh Lo : Type.
  (* None: the thread is finished or blocked *)
  Variable tstep : Sh -> Lo -> option (Sh * Lo * lab).

  Fixpoint upd (i : nat) (x : Lo) (l : list Lo) : list Lo :=
    match l, i with
    | [], _ => []
    | _ :: t, O => x :: t
    | h :: t, S j => h :: upd j x t
    end.

  Inductive gstep : Sh * list Lo -> Sh * list Lo -> Prop :=
  | GS sh pool i lo sh' lo' l :
      nth_error pool i = Some lo ->
      tstep sh lo = Some (sh', lo', l) ->
      gstep (sh, pool) (sh', upd i lo' pool).

  Inductive reach (init : Sh * list Lo) : Sh * list Lo -> Prop :=
  | R0 : reach init init
  | RS s s' : reach init s -> gstep s s' -> reach init s'.

  Lemma inv_reach (Inv : Sh * list Lo -> Prop) init :
    Inv init -> (forall s s', Inv s -> gstep s s' -> Inv s') ->
    forall s, reach init s -> Inv s.
  Proof. intros H0 HS s Hr. induction Hr; eauto. Qed.

  Lemma reach_trans init s s' : reach init s -> reach s s' -> reach init s'.
  Proof. intros H1 H2. induction H2; [exact H1|]. eapply RS; eauto. Qed.

  (* ---------- executable replay of a schedule (for the trace correspondence) ---------- *)
  (* a schedule is the list of thread indices that take the successive steps; the replay
     stops at the first index that cannot step (finished, blocked or out of range) *)
  Fixpoint replay (sch : list nat) (sh : Sh) (pool : list Lo) : list (nat * lab) * (Sh * list Lo) * bool :=
    match sch with
    | [] => ([], (sh, pool), true)
    | i :: rest =>
        match nth_error pool i with
        | Some lo =>
            match tstep sh lo with
            | Some (sh', lo', l) =>
                let '(tr, fin, ok) := replay rest sh' (upd i lo' pool) in ((i, l) :: tr, fin, ok)
            | None => ([], (sh, pool), false)
            end
        | None => ([], (sh, pool), false)
        end
    end.

  Lemma replay_reach : forall sch sh pool, reach (sh, pool) (snd (fst (replay sch sh pool))).
  Proof.
    induction sch as [|i rest IH]; intros sh pool; cbn [replay]; [constructor|].
    destruct (nth_error pool i) as [lo|] eqn:E; [|constructor].
    destruct (tstep sh lo) as [[[sh' lo'] l]|] eqn:E2; [|constructor].
    specialize (IH sh' (upd i lo' pool)).
    destruct (replay rest sh' (upd i lo' pool)) as [[tr fin] ok]. cbn [fst snd] in *.
    eapply reach_trans; [|exact IH]. eapply RS; [constructor|]. econstructor; eauto.
  Qed.

  (* ---------- counting over the pool ---------- *)
  Definition cnt (p : Lo -> bool) (l : list Lo) : Z := Z.of_nat (length (filter p l)).
  Definition b2z (b : bool) : Z := if b then 1 else 0.

  Lemma cnt_nil p : cnt p [] = 0. Proof. reflexivity. Qed.
  Lemma cnt_cons p x l : cnt p (x :: l) = b2z (p x) + cnt p l.
  Proof. unfold cnt, b2z. simpl. destruct (p x); simpl length; lia. Qed.
  Lemma cnt_nonneg p l : 0 <= cnt p l. Proof. unfold cnt; lia. Qed.
  Lemma cnt_upd p : forall l i old new,
      nth_error l i = Some old ->
      cnt p (upd i new l) = cnt p l - b2z (p old) + b2z (p new).
  Proof.
    induction l as [|h t IH]; intros [|j] old new H; simpl in *; try discriminate.
    - inversion H; subst. rewrite !cnt_cons. lia.
    - rewrite !cnt_cons. rewrite (IH j old new H). lia.
  Qed.
  Lemma cnt_le_mono (p q : Lo -> bool) l :
    (forall x, p x = true -> q x = true) -> cnt p l <= cnt q l.
  Proof.
    intros H. induction l as [|h t IH]; [rewrite !cnt_nil; lia|].
    rewrite !cnt_cons. specialize (H h). unfold b2z.
    destruct (p h), (q h); try lia; specialize (H eq_refl); discriminate.
  Qed.
  Lemma cnt_zero (p : Lo -> bool) l : Forall (fun x => p x = false) l -> cnt p l = 0.
  Proof. induction 1 as [|x l Hx Hl IH]; [reflexivity|]. rewrite cnt_cons, Hx, IH. reflexivity. Qed.
  Lemma Forall_upd (P : Lo -> Prop) : forall l i x, Forall P l -> P x -> Forall P (upd i x l).
  Proof. induction l; intros [|j] x Hl Hx; simpl; inversion Hl; subst; constructor; auto. Qed.
  Lemma nth_error_Forall (P : Lo -> Prop) l i x : Forall P l -> nth_error l i = Some x -> P x.
  Proof. intros H E. apply nth_error_In in E. rewrite Forall_forall in H. auto. Qed.
End Sched.
Arguments upd {Lo}. Arguments cnt {Lo}. Arguments gstep {Sh Lo}. Arguments reach {Sh Lo}. Arguments replay {Sh Lo}.

(* comparison of a replayed trace with the one observed on the implementation *)
Fixpoint trace_diff (i : nat) (m im : list (nat * lab)) : option (nat * option (nat * lab)) :=
  match m, im with
  | [], [] => None
  | (t1, l1) :: m', (t2, l2) :: im' =>
      if Nat.eqb t1 t2 && lab_eqb l1 l2 then trace_diff (S i) m' im' else Some (i, Some (t1, l1))
  | x :: _, [] => Some (i, Some x)
  | [], _ :: _ => Some (i, None)
  end.
