(* Conc/Transition_Proofs.v — proofs about the level-2 transition model
   (Conc/Transition.v): under every interleaving of any pool of threads the
   notifications alternate starting with Opened, at most one thread is inside the
   transition section, the underlying flag mirrors the last notification whenever
   the section is free, and a single SetConfigThreadSafe that has returned has
   taken effect. *)
From Coq Require Import ZifyBool.
From CV Require Import Conc.Sched Conc.Transition.

(* ---------- lists: upd / nth_error / cnt ---------- *)
Lemma nth_error_upd_same {A} : forall (l : list A) i old new,
  nth_error l i = Some old -> nth_error (upd i new l) i = Some new.
Proof. induction l as [|h t IH]; intros [|j] old new H; simpl in *; try discriminate; eauto. Qed.

Lemma nth_error_upd_other {A} : forall (l : list A) i j new,
  j <> i -> nth_error (upd i new l) j = nth_error l j.
Proof.
  induction l as [|h t IH]; intros [|i] [|j] new H; simpl; try reflexivity.
  - congruence.
  - apply IH. congruence.
Qed.

Lemma cnt_ge {A} (p : A -> bool) : forall l i x, nth_error l i = Some x -> b2z (p x) <= cnt p l.
Proof.
  induction l as [|h t IH]; intros [|j] x H; simpl in *; try discriminate; rewrite cnt_cons.
  - inversion H; subst. pose proof (cnt_nonneg _ p t). lia.
  - specialize (IH j x H). unfold b2z in *. destruct (p h); lia.
Qed.

Lemma cnt_zero_inv {A} (p : A -> bool) : forall l, cnt p l = 0 -> Forall (fun x => p x = false) l.
Proof.
  induction l as [|h t IH]; intros H; constructor; rewrite cnt_cons in H;
    pose proof (cnt_nonneg _ p t); unfold b2z in H; destruct (p h); try reflexivity; try lia.
  apply IH. lia.
Qed.

(* when the step is taken by the only element satisfying p, every other element is outside p *)
Lemma cnt_one_others {A} (p : A -> bool) (Q : A -> Prop) : forall l i old new,
  nth_error l i = Some old -> p old = true -> cnt p l <= 1 ->
  (forall x, p x = false -> Q x) -> Q new -> Forall Q (upd i new l).
Proof.
  induction l as [|h t IH]; intros [|j] old new Hn Hp Hc HQ Hnew; simpl in *; try discriminate;
    rewrite cnt_cons in Hc.
  - inversion Hn; subst. rewrite Hp in Hc. unfold b2z in Hc. constructor; [exact Hnew|].
    pose proof (cnt_nonneg _ p t).
    eapply Forall_impl; [|apply (cnt_zero_inv p t); lia]. exact HQ.
  - pose proof (cnt_ge p t j old Hn) as Hge. rewrite Hp in Hge. unfold b2z in *.
    constructor.
    + apply HQ. destruct (p h); [lia|reflexivity].
    + eapply IH; eauto. destruct (p h); lia.
Qed.

(* ---------- the log ---------- *)
Definition opp (d : dir) : dir := match d with DOpen => DClose | DClose => DOpen end.
Definition cur (l : list dir) : bool := match last_dir l with Some DOpen => true | _ => false end.

Lemma last_dir_app l d : last_dir (l ++ [d]) = Some d.
Proof. unfold last_dir. rewrite map_app. cbn [map]. apply last_last. Qed.

Lemma last_dir_cons : forall t y, last_dir (y :: t) <> None.
Proof.
  induction t as [|z t IH]; intros y; [discriminate|].
  change (last_dir (y :: z :: t)) with (last_dir (z :: t)). apply IH.
Qed.

Lemma alternates_snoc : forall l next d,
  alternates_from next l ->
  d = match last_dir l with None => next | Some x => opp x end ->
  alternates_from next (l ++ [d]).
Proof.
  induction l as [|x t IH]; intros next d Ha Hd.
  - cbn in *. auto.
  - destruct Ha as [Hx Ht]. cbn [app alternates_from]. split; [exact Hx|].
    apply IH; [exact Ht|]. subst d. destruct t as [|y t'].
    + cbn. subst x. reflexivity.
    + change (last_dir (x :: y :: t')) with (last_dir (y :: t')).
      pose proof (last_dir_cons t' y). destruct (last_dir (y :: t')); [reflexivity|contradiction].
Qed.

Lemma cur_snoc l d : cur (l ++ [d]) = want d.
Proof. unfold cur. rewrite last_dir_app. destruct d; reflexivity. Qed.

(* the direction that flips the mirrored state is the one the alternation expects *)
Lemma alternates_flip l d :
  alternates_from DOpen l -> cur l = negb (want d) -> alternates_from DOpen (l ++ [d]).
Proof.
  intros Ha Hc. apply alternates_snoc; [exact Ha|]. unfold cur in Hc.
  destruct (last_dir l) as [[|]|]; destruct d; cbn in *; try reflexivity; discriminate.
Qed.

(* ---------- steps ---------- *)
Lemma tstep_kind sh t sh' t' lb : tstep sh t = Some (sh', t', lb) -> th_kind t' = th_kind t.
Proof.
  unfold tstep. destruct (th_pc t) as [k|d p|r|r].
  - destruct (nth_error (prog (th_kind t)) k) as [[loc a b|loc v nx]|]; intros H; inversion H; reflexivity.
  - destruct p; [destruct (t_held sh)| | | |]; intros H; inversion H; reflexivity.
  - intros H; inversion H; reflexivity.
  - discriminate.
Qed.

(* a fast-path step touches neither the flag, nor the mutex, nor the log, and does not land
   inside the section *)
Lemma pre_step sh t k sh' t' lb :
  th_pc t = TPre k -> tstep sh t = Some (sh', t', lb) ->
  t_open sh' = t_open sh /\ t_held sh' = t_held sh /\ t_log sh' = t_log sh /\ in_section t' = false.
Proof.
  unfold tstep. intros E. rewrite E.
  destruct (nth_error (prog (th_kind t)) k) as [[loc a b|loc v nx]|]; intros H; try discriminate H; injection H as <- <- _.
  - destruct (get_flag sh loc); [destruct a|destruct b]; cbn; auto.
  - unfold set_override. destruct (Nat.eqb loc Lfo); [|destruct (Nat.eqb loc Lfc)];
      destruct nx; cbn; auto.
Qed.

(* ---------- the invariant ---------- *)
Definition sec_ok (sh : tshared) (t : tthread) : Prop :=
  match th_pc t with
  | TSec _ SLoad | TSec _ SUnlock => t_open sh = cur (t_log sh)
  | TSec d SNotify => t_open sh = cur (t_log sh) /\ t_open sh = negb (want d)
  | TSec d SStore => cur (t_log sh) = want d /\ t_open sh = negb (want d)
  | _ => True
  end.

Definition Inv (s : tshared * list tthread) : Prop :=
  cnt in_section (snd s) = (if t_held (fst s) then 1 else 0) /\
  alternates_from DOpen (t_log (fst s)) /\
  (t_held (fst s) = false -> t_open (fst s) = cur (t_log (fst s))) /\
  Forall (sec_ok (fst s)) (snd s).

Lemma sec_ok_out sh t : in_section t = false -> sec_ok sh t.
Proof.
  unfold in_section, sec_ok. destruct (th_pc t) as [k|d p|r|r]; try (intros; exact I).
  destruct p; intros H; try discriminate; exact I.
Qed.

Lemma sec_ok_ext sh sh' t :
  t_open sh' = t_open sh -> t_log sh' = t_log sh -> sec_ok sh t -> sec_ok sh' t.
Proof. unfold sec_ok. intros -> ->. exact (fun H => H). Qed.

Lemma fresh_out t : (exists k, t = tthread0 k) -> in_section t = false.
Proof. intros [k ->]. reflexivity. Qed.

Lemma inv_init fo fc pool : all_fresh_t pool -> Inv (tinit fo fc, pool).
Proof.
  intros H. unfold Inv. cbn [fst snd tinit t_held t_log t_open]. repeat apply conj.
  - apply cnt_zero. eapply Forall_impl; [|exact H]. intros t Ht. apply fresh_out; exact Ht.
  - exact I.
  - reflexivity.
  - eapply Forall_impl; [|exact H]. intros t Ht. apply sec_ok_out, fresh_out; exact Ht.
Qed.

(* a step outside the section that leaves flag, mutex and log alone *)
Lemma inv_outside sh pool i lo sh' lo' :
  Inv (sh, pool) -> nth_error pool i = Some lo ->
  in_section lo = false -> in_section lo' = false ->
  t_open sh' = t_open sh -> t_held sh' = t_held sh -> t_log sh' = t_log sh ->
  Inv (sh', upd i lo' pool).
Proof.
  intros (Hc & Ha & Ho & Hf) Hn Hlo Hlo' E1 E2 E3. unfold Inv in *. cbn [fst snd] in *.
  rewrite E1, E2, E3. repeat apply conj; try assumption.
  - rewrite (cnt_upd _ in_section _ _ _ _ Hn), Hlo, Hlo'. unfold b2z. lia.
  - apply Forall_upd.
    + eapply Forall_impl; [|exact Hf]. intros t. apply sec_ok_ext; assumption.
    + apply sec_ok_out; exact Hlo'.
Qed.

(* a step of the thread inside the section that stays inside *)
Lemma inv_inside sh pool i lo sh' lo' :
  Inv (sh, pool) -> nth_error pool i = Some lo ->
  in_section lo = true -> in_section lo' = true ->
  t_held sh' = t_held sh ->
  (t_held sh = true -> alternates_from DOpen (t_log sh')) ->
  (t_held sh = true -> sec_ok sh' lo') ->
  Inv (sh', upd i lo' pool).
Proof.
  intros (Hc & Ha & Ho & Hf) Hn Hlo Hlo' E2 Ha' Hok. unfold Inv in *. cbn [fst snd] in *.
  pose proof (cnt_ge in_section pool i lo Hn) as Hge. rewrite Hlo in Hge. unfold b2z in Hge.
  assert (Hh : t_held sh = true) by (destruct (t_held sh); [reflexivity|lia]).
  rewrite Hh in Hc. rewrite E2, Hh. repeat apply conj.
  - rewrite (cnt_upd _ in_section _ _ _ _ Hn), Hlo, Hlo'. unfold b2z. lia.
  - auto.
  - discriminate.
  - eapply (cnt_one_others in_section); eauto; [lia|]. intros x. apply sec_ok_out.
Qed.

Lemma inv_step s s' : Inv s -> gstep tstep s s' -> Inv s'.
Proof.
  intros HI Hs. destruct Hs as [sh pool i lo sh' lo' lb Hn Ht].
  pose proof (nth_error_Forall _ _ _ _ _ (proj2 (proj2 (proj2 HI))) Hn) as Hok. cbn [fst] in Hok.
  destruct lo as [kind pc]. destruct pc as [k|d p|r|r]; [ |destruct p| | ].
  - (* fast path *)
    destruct (pre_step sh {| th_kind := kind; th_pc := TPre k |} k _ _ _ eq_refl Ht) as (E1 & E2 & E3 & E4).
    eapply inv_outside; eauto.
  - (* Lock *)
    unfold tstep in Ht. cbn [th_pc th_kind] in Ht. destruct (t_held sh) eqn:Hh; [discriminate|].
    injection Ht as <- <- _.
    destruct HI as (Hc & Ha & Ho & Hf). unfold Inv in *. cbn [fst snd t_held t_log t_open] in *.
    rewrite Hh in Hc. repeat apply conj.
    + rewrite (cnt_upd _ in_section _ _ _ _ Hn). cbn. lia.
    + exact Ha.
    + discriminate.
    + apply Forall_upd.
      * eapply Forall_impl; [|exact Hf]. intros t. apply sec_ok_ext; reflexivity.
      * unfold sec_ok. cbn. auto.
  - (* Load under the lock *)
    unfold tstep in Ht. cbn [th_pc th_kind] in Ht. injection Ht as <- <- _.
    eapply inv_inside; eauto.
    + destruct (eqb (t_open sh) (want d)); reflexivity.
    + intros _. apply HI.
    + intros _. unfold sec_ok in *. cbn [th_pc] in *.
      destruct (eqb (t_open sh) (want d)) eqn:E; [exact Hok|]. split; [exact Hok|].
      destruct (t_open sh), (want d); cbn in *; congruence.
  - (* Notify *)
    unfold tstep in Ht. cbn [th_pc th_kind] in Ht. injection Ht as <- <- _.
    unfold sec_ok in Hok. cbn [th_pc] in Hok. destruct Hok as (Hok1 & Hok2).
    eapply inv_inside; eauto; cbn [t_log t_open]; intros _.
    + apply alternates_flip; [apply HI|congruence].
    + unfold sec_ok. cbn [th_pc t_log t_open]. split; [apply cur_snoc|exact Hok2].
  - (* Store *)
    unfold tstep in Ht. cbn [th_pc th_kind] in Ht. injection Ht as <- <- _.
    unfold sec_ok in Hok. cbn [th_pc] in Hok. destruct Hok as (Hok1 & Hok2).
    eapply inv_inside; eauto; cbn [t_log t_open]; intros _.
    + apply HI.
    + unfold sec_ok. cbn [th_pc t_log t_open]. congruence.
  - (* Unlock *)
    unfold tstep in Ht. cbn [th_pc th_kind] in Ht. injection Ht as <- <- _.
    unfold sec_ok in Hok. cbn [th_pc] in Hok.
    destruct HI as (Hc & Ha & Ho & Hf). unfold Inv in *. cbn [fst snd t_held t_log t_open] in *.
    pose proof (cnt_ge in_section pool i _ Hn) as Hge. cbn in Hge.
    repeat apply conj.
    + rewrite (cnt_upd _ in_section _ _ _ _ Hn). cbn. destruct (t_held sh); lia.
    + exact Ha.
    + intros _. exact Hok.
    + apply Forall_upd.
      * eapply Forall_impl; [|exact Hf]. intros t. apply sec_ok_ext; reflexivity.
      * unfold sec_ok. cbn. auto.
  - (* Finish *)
    unfold tstep in Ht. cbn [th_pc th_kind] in Ht. injection Ht as <- <- _.
    eapply inv_outside; eauto.
  - discriminate Ht.
Qed.

Lemma inv_reachable fo fc pool0 s :
  all_fresh_t pool0 -> reach tstep (tinit fo fc, pool0) s -> Inv s.
Proof.
  intros Hp Hr. exact (inv_reach _ _ _ Inv _ (inv_init fo fc pool0 Hp) inv_step s Hr).
Qed.

(* ---------- the theorems ---------- *)
Section L2.
Variables (fo fc : bool) (pool0 : list tthread).
Hypothesis Hpool : all_fresh_t pool0.

Theorem l2_alternate : forall s,
  reach tstep (tinit fo fc, pool0) s -> alternates_from DOpen (t_log (fst s)).
Proof. intros s Hr. apply (inv_reachable fo fc pool0 s Hpool Hr). Qed.

Theorem l2_mutex : forall s,
  reach tstep (tinit fo fc, pool0) s -> cnt in_section (snd s) = if t_held (fst s) then 1 else 0.
Proof. intros s Hr. apply (inv_reachable fo fc pool0 s Hpool Hr). Qed.

Theorem l2_mirror : forall s,
  reach tstep (tinit fo fc, pool0) s -> t_held (fst s) = false ->
  t_open (fst s) = match last_dir (t_log (fst s)) with Some DOpen => true | _ => false end.
Proof.
  intros s Hr Hh. destruct (inv_reachable fo fc pool0 s Hpool Hr) as (_ & _ & Ho & _).
  exact (Ho Hh).
Qed.

Theorem l2_quiescent : forall s,
  reach tstep (tinit fo fc, pool0) s -> Forall (fun t => th_done t = true) (snd s) ->
  t_held (fst s) = false /\
  (t_fo (fst s) = false -> t_fc (fst s) = false ->
   is_open_view (fst s) = match last_dir (t_log (fst s)) with Some DOpen => true | _ => false end).
Proof.
  intros s Hr Hd. pose proof (l2_mutex s Hr) as Hm.
  assert (Hz : cnt in_section (snd s) = 0).
  { apply cnt_zero. eapply Forall_impl; [|exact Hd]. intros t. unfold th_done, in_section.
    destruct (th_pc t); intros; try discriminate; reflexivity. }
  assert (Hh : t_held (fst s) = false) by (destruct (t_held (fst s)); [lia|reflexivity]).
  split; [exact Hh|]. intros H1 H2. unfold is_open_view. rewrite H1, H2.
  apply l2_mirror; assumption.
Qed.
End L2.

(* ---------- the flag becomes visible only after the notification ---------- *)
Lemma cnt_pos_exists {A} (p : A -> bool) : forall l, 0 < cnt p l -> Exists (fun x => p x = true) l.
Proof.
  induction l as [|x l IH]; intros H; [rewrite cnt_nil in H; lia|].
  rewrite cnt_cons in H. destruct (p x) eqn:E; [left; exact E|]. right. apply IH. unfold b2z in H. lia.
Qed.

(* whenever the underlying flag reads open, every collector -- the closer first -- has been told
   Opened for this opening (the last notification is Opened), or a CLOSING thread has already
   announced Closed and is about to clear the flag *)
Theorem l2_flag_after_notify : forall fo fc pool0 s,
  all_fresh_t pool0 -> reach tstep (tinit fo fc, pool0) s ->
  t_open (fst s) = true ->
  last_dir (t_log (fst s)) = Some DOpen \/ Exists (fun t => th_pc t = TSec DClose SStore) (snd s).
Proof.
  intros fo fc pool0 s Hp Hr Ho. destruct (inv_reachable fo fc pool0 s Hp Hr) as (Hc & _ & Hfree & Hsec).
  assert (Hcur : cur (t_log (fst s)) = true -> last_dir (t_log (fst s)) = Some DOpen).
  { unfold cur. destruct (last_dir (t_log (fst s))) as [[|]|]; intros; try discriminate; reflexivity. }
  destruct (t_held (fst s)) eqn:Hh.
  - assert (Hex : Exists (fun t => in_section t = true) (snd s)) by (apply cnt_pos_exists; lia).
    apply Exists_exists in Hex. destruct Hex as (t & Hin & Hs).
    rewrite Forall_forall in Hsec. specialize (Hsec t Hin). unfold sec_ok in Hsec. unfold in_section in Hs.
    destruct (th_pc t) as [k|d p|r|r] eqn:Epc; try discriminate.
    destruct p; try discriminate.
    + left. apply Hcur. congruence.
    + left. apply Hcur. destruct Hsec; congruence.
    + destruct d.
      * destruct Hsec as [_ H2]. cbn in H2. congruence.
      * right. apply Exists_exists. exists t. split; [exact Hin | exact Epc].
    + left. apply Hcur. congruence.
  - left. apply Hcur. rewrite <- (Hfree eq_refl). exact Ho.
Qed.

(* ---------- a single reconfiguration takes effect ---------- *)
Lemma prog_no_store kind k loc v nx :
  (match kind with KSet _ _ => false | _ => true end) = true ->
  nth_error (prog kind) k <> Some (PStoreB loc v nx).
Proof.
  intros Hk E. apply nth_error_In in E. destruct kind; try discriminate Hk; cbn in E;
    intuition discriminate.
Qed.

Lemma other_step_flags sh t sh' t' lb :
  is_set t = false -> tstep sh t = Some (sh', t', lb) -> t_fo sh' = t_fo sh /\ t_fc sh' = t_fc sh.
Proof.
  unfold is_set, tstep. intros Hs. destruct (th_pc t) as [k|d p|r|r].
  - destruct (nth_error (prog (th_kind t)) k) as [[loc a b|loc v nx]|] eqn:E; intros H;
      try discriminate H; injection H as <- <- _; [auto|].
    exfalso. eapply prog_no_store; [|exact E]. destruct (th_kind t); try reflexivity; discriminate.
  - destruct p; [destruct (t_held sh)| | | |]; intros H; try discriminate H; injection H as <- <- _; cbn; auto.
  - intros H; injection H as <- <- _; auto.
  - discriminate.
Qed.

Definition set_ok (fc' fo' : bool) (sh : tshared) (t : tthread) : Prop :=
  th_kind t = KSet fc' fo' /\
  match th_pc t with
  | TPre O => True
  | TPre (S O) => t_fc sh = fc'
  | TFinish _ | TDone _ => t_fc sh = fc' /\ t_fo sh = fo'
  | _ => False
  end.

Definition InvS (i : nat) (fc' fo' : bool) (s : tshared * list tthread) : Prop :=
  (forall j u, nth_error (snd s) j = Some u -> j <> i -> is_set u = false) /\
  exists t, nth_error (snd s) i = Some t /\ set_ok fc' fo' (fst s) t.

Lemma invS_step i fc' fo' s s' : InvS i fc' fo' s -> gstep tstep s s' -> InvS i fc' fo' s'.
Proof.
  intros (Hoth & t & Hi & Hk & Hpc) Hs. destruct Hs as [sh pool j lo sh' lo' lb Hn Ht].
  unfold InvS. cbn [fst snd] in *. pose proof (tstep_kind _ _ _ _ _ Ht) as Hkind.
  split.
  - intros j' u Hu Hne. destruct (Nat.eq_dec j' j) as [->|Hjj].
    + rewrite (nth_error_upd_same _ _ _ _ Hn) in Hu. inversion Hu; subst.
      unfold is_set. rewrite Hkind. exact (Hoth j lo Hn Hne).
    + rewrite nth_error_upd_other in Hu by exact Hjj. eauto.
  - destruct (Nat.eq_dec j i) as [->|Hji].
    + rewrite Hi in Hn. inversion Hn; subst lo. clear Hn.
      exists lo'. split; [eapply nth_error_upd_same; exact Hi|].
      split; [congruence|].
      unfold tstep in Ht. rewrite Hk in Ht. destruct (th_pc t) as [[|[|k]]|d p|r|r]; try contradiction.
      * cbn in Ht. injection Ht as <- <- _. cbn. reflexivity.
      * cbn in Ht. injection Ht as <- <- _. cbn. auto.
      * injection Ht as <- <- _. cbn. exact Hpc.
      * discriminate.
    + exists t. split; [rewrite nth_error_upd_other by congruence; exact Hi|].
      split; [exact Hk|].
      destruct (other_step_flags _ _ _ _ _ (Hoth j lo Hn Hji) Ht) as (-> & ->). exact Hpc.
Qed.

Theorem l2_takes_effect : forall fo fc pool0 i fc' fo' s t,
  all_fresh_t pool0 -> nth_error pool0 i = Some (tthread0 (KSet fc' fo')) ->
  (forall j u, nth_error pool0 j = Some u -> j <> i -> is_set u = false) ->
  reach tstep (tinit fo fc, pool0) s -> nth_error (snd s) i = Some t -> th_done t = true ->
  t_fo (fst s) = fo' /\ t_fc (fst s) = fc'.
Proof.
  intros fo fc pool0 i fc' fo' s t _ Hi Hoth Hr Ht Hd.
  assert (HI : InvS i fc' fo' s).
  { refine (inv_reach _ _ _ (InvS i fc' fo') _ _ (invS_step i fc' fo') s Hr).
    split; [exact Hoth|]. exists (tthread0 (KSet fc' fo')). split; [exact Hi|].
    split; [reflexivity|exact I]. }
  destruct HI as (_ & t' & Ht' & _ & Hpc). rewrite Ht in Ht'. inversion Ht'; subst t'.
  unfold th_done in Hd. destruct (th_pc t) as [k|d p|r|r]; try discriminate. tauto.
Qed.
