(* Conc/GoWrapper.v — level-2 model of goroutineWrapper.run / waitForErrors
   (gowrapper.go), i.e. of one Go call: the worker goroutine running the wrapped
   function, the two one-slot channels, the caller's select, the context ending
   at an arbitrary moment (caller cancellation or execution timeout: an
   environment step), and the waiter that hands a lost outcome to GoLostErrors.
   Go's select picks among READY branches only, in an unspecified way: the
   caller carries a preference order, and quantifying over all preference orders
   covers every choice select can make. *)
From CV Require Import Conc.Sched.

Inductive outcome := OutNil | OutErr (k : nat) | OutPanic (v : nat).      (* how the wrapped function ends *)
Inductive cresult := CRNone | CROutcome (o : outcome) | CRCtxErr.         (* what Go's run step yields *)
Inductive branch := BCtx | BErr | BPanic.

Record wshared := {
  w_errch : option outcome;       (* runFuncErr, capacity 1 *)
  w_panicch : option outcome;     (* panicResult, capacity 1 *)
  w_ctx_done : bool;
  w_waiter_spawned : bool;
  w_sink : list outcome           (* calls of GoLostErrors *)
}.

Inductive wthread :=
| Worker (o : outcome) (finished : bool)            (* finished: it has sent its outcome and exited *)
| Caller (pref : list branch) (lost_errors : bool) (r : cresult)   (* r <> CRNone: Go's run step has returned *)
| Env (fired : bool)                                (* the context ends *)
| Waiter (finished : bool).

Definition Mworker_send : nat := 0. Definition Mcaller : nat := 1. Definition Menv : nat := 2. Definition Mwaiter : nat := 3.

Definition ready (s : wshared) (b : branch) : bool :=
  match b with
  | BCtx => w_ctx_done s
  | BErr => match w_errch s with Some _ => true | None => false end
  | BPanic => match w_panicch s with Some _ => true | None => false end
  end.

Definition wstep (s : wshared) (t : wthread) : option (wshared * wthread * lab) :=
  match t with
  | Worker o false =>
      (* runFuncErr <- runFunc(ctx), or the deferred recover sends on panicResult: never blocks while the slot is free *)
      match o with
      | OutPanic _ =>
          match w_panicch s with
          | None => Some ({| w_errch := w_errch s; w_panicch := Some o; w_ctx_done := w_ctx_done s; w_waiter_spawned := w_waiter_spawned s; w_sink := w_sink s |},
                          Worker o true, LMark Mworker_send 1)
          | Some _ => None
          end
      | _ =>
          match w_errch s with
          | None => Some ({| w_errch := Some o; w_panicch := w_panicch s; w_ctx_done := w_ctx_done s; w_waiter_spawned := w_waiter_spawned s; w_sink := w_sink s |},
                          Worker o true, LMark Mworker_send 0)
          | Some _ => None
          end
      end
  | Worker _ true => None
  | Caller pref lost CRNone =>
      match find (ready s) pref with
      | None => None                                   (* select blocks: nothing is ready *)
      | Some BCtx =>
          (* runFuncErr is a lost error: spawn the waiter if GoLostErrors is configured; return ctx.Err() *)
          Some ({| w_errch := w_errch s; w_panicch := w_panicch s; w_ctx_done := w_ctx_done s;
                   w_waiter_spawned := lost; w_sink := w_sink s |},
                Caller pref lost CRCtxErr, LMark Mcaller 0)
      | Some BErr =>
          match w_errch s with
          | Some o => Some ({| w_errch := None; w_panicch := w_panicch s; w_ctx_done := w_ctx_done s; w_waiter_spawned := w_waiter_spawned s; w_sink := w_sink s |},
                            Caller pref lost (CROutcome o), LMark Mcaller 1)
          | None => None
          end
      | Some BPanic =>
          match w_panicch s with
          | Some o => Some ({| w_errch := w_errch s; w_panicch := None; w_ctx_done := w_ctx_done s; w_waiter_spawned := w_waiter_spawned s; w_sink := w_sink s |},
                            Caller pref lost (CROutcome o), LMark Mcaller 2)
          | None => None
          end
      end
  | Caller _ _ _ => None
  | Env false =>
      Some ({| w_errch := w_errch s; w_panicch := w_panicch s; w_ctx_done := true; w_waiter_spawned := w_waiter_spawned s; w_sink := w_sink s |},
            Env true, LMark Menv 0)
  | Env true => None
  | Waiter false =>
      if w_waiter_spawned s then
        match w_errch s, w_panicch s with
        | Some o, _ => Some ({| w_errch := None; w_panicch := w_panicch s; w_ctx_done := w_ctx_done s; w_waiter_spawned := true; w_sink := w_sink s ++ [o] |},
                             Waiter true, LMark Mwaiter 0)
        | None, Some o => Some ({| w_errch := None; w_panicch := None; w_ctx_done := w_ctx_done s; w_waiter_spawned := true; w_sink := w_sink s ++ [o] |},
                                Waiter true, LMark Mwaiter 1)
        | None, None => None
        end
      else None
  | Waiter true => None
  end.

Definition winit : wshared := {| w_errch := None; w_panicch := None; w_ctx_done := false; w_waiter_spawned := false; w_sink := [] |}.
(* one Go call: worker, caller, the context's end, the (possibly never spawned) waiter *)
Definition wpool (o : outcome) (pref : list branch) (lost env_can_fire : bool) : list wthread :=
  [Worker o false; Caller pref lost CRNone; Env (negb env_can_fire); Waiter false].

Definition all_prefs : list (list branch) :=
  [[BCtx; BErr; BPanic]; [BCtx; BPanic; BErr]; [BErr; BCtx; BPanic]; [BErr; BPanic; BCtx]; [BPanic; BCtx; BErr]; [BPanic; BErr; BCtx]].

(* ---------- vocabulary ---------- *)
Definition caller_result (pool : list wthread) : cresult :=
  match nth_error pool 1 with Some (Caller _ _ r) => r | _ => CRNone end.
Definition worker_sent (pool : list wthread) : bool :=
  match nth_error pool 0 with Some (Worker _ f) => f | _ => false end.
Definition waiter_done (pool : list wthread) : bool :=
  match nth_error pool 3 with Some (Waiter f) => f | _ => false end.
Definition b2n (b : bool) : nat := if b then 1%nat else 0%nat.
(* how many times the worker's outcome has been surfaced: as Go's own result/panic, or through GoLostErrors *)
Definition surfaced (s : wshared) (pool : list wthread) : nat :=
  (match caller_result pool with CROutcome _ => 1 | _ => 0 end + length (w_sink s))%nat.
Definition in_channel (s : wshared) : nat :=
  (b2n (match w_errch s with Some _ => true | None => false end) + b2n (match w_panicch s with Some _ => true | None => false end))%nat.
Definition quiescent (s : wshared) (pool : list wthread) : Prop := Forall (fun t => wstep s t = None) pool.

(* ---------- correspondence by forced orderings ---------- *)
(* the three orders the harness can force, as schedules over [worker; caller; env; waiter] *)
Inductive order := FinishFirst | CtxFirst | BothReady.
Definition order_schedule (o : order) : list nat :=
  match o with
  | FinishFirst => [0; 1]%nat              (* the function finishes, then the select runs *)
  | CtxFirst => [2; 1; 0; 3]%nat           (* the context ends, Go returns, later the function finishes, the waiter delivers *)
  | BothReady => [2; 0; 1; 3]%nat          (* context ended AND function finished before the select runs *)
  end.
(* (Go's result, what GoLostErrors received) for every choice select may make *)
Definition allowed (ord : order) (o : outcome) (lost : bool) : list (cresult * list outcome) :=
  map (fun pref =>
         let '(_, fin, _) := replay wstep (order_schedule ord) winit (wpool o pref lost true) in
         (caller_result (snd fin), w_sink (fst fin))) all_prefs.

Definition outcome_eq_dec : forall a b : outcome, {a = b} + {a <> b}.
Proof. repeat decide equality. Defined.
Definition obs_eq_dec : forall a b : cresult * list outcome, {a = b} + {a <> b}.
Proof. repeat decide equality. Defined.
Definition gow_case : Type := nat * order * outcome * bool * (cresult * list outcome).
Definition gow_mismatches (cs : list gow_case) : list (nat * list (cresult * list outcome)) :=
  flat_map (fun c : gow_case =>
    let '(id, ord, o, lost, observed) := c in
    let al := allowed ord o lost in
    if existsb (fun x => if obs_eq_dec x observed then true else false) al then [] else [(id, al)]) cs.
