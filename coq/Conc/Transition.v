(* Conc/Transition.v — level-2 model of the open/closed state, the two operator
   overrides and the transition section (circuit.go: IsOpen, allowNewRun,
   openCircuit, close, attemptToOpen, checkErrFailure, checkSuccess; config.go
   reset()).  Locations: ForceOpen, ForcedClosed, isOpen; the mutex
   transitionMu; markers for the Opened / Closed notifications as a circuit-level
   collector receives them.
   Every thread kind is a fast path of boolean loads (a table read off the
   source, validated by the trace correspondence) that either finishes or enters
   the transition section:  Lock; load isOpen; [notify; store] ; Unlock. *)
From CV Require Import Conc.Sched.

Definition Lfo : nat := 0.  Definition Lfc : nat := 1.  Definition Lopen : nat := 2.
Definition Mtm : nat := 0.
Definition Mopened : nat := 0.  Definition Mclosed : nat := 1.  Definition Mdone : nat := 2.

Inductive dir := DOpen | DClose.

Record tshared := { t_fo : bool; t_fc : bool; t_open : bool; t_held : bool; t_log : list dir }.

Inductive ptarget := Goto (k : nat) | Enter (d : dir) | Fin (r : Z).
Inductive pre_instr :=
| PLoad (loc : nat) (if_true if_false : ptarget)
| PStoreB (loc : nat) (v : bool) (next : ptarget).     (* only ForceOpen / ForcedClosed are stored on a fast path *)

Inductive tkind :=
| KGate                     (* IsOpen() *)
| KOpen | KClose            (* OpenCircuit / CloseCircuit *)
| KSet (fc fo : bool)       (* SetConfigThreadSafe: stores ForcedClosed then ForceOpen *)
| KFail                     (* a call whose run function fails; the open logic says ShouldOpen *)
| KSucceed.                 (* a call that succeeds; the close logic admits it and says ShouldClose *)

(* the gate of a call: allowNewRun with a closer that admits (after the ForceOpen test) *)
Definition gate_prefix (run : nat) : list pre_instr :=
  [ PLoad Lfo (Goto 3) (Goto 1);             (* IsOpen: ForceOpen *)
    PLoad Lfc (Goto run) (Goto 2);           (*         ForcedClosed -> not open -> admitted *)
    PLoad Lopen (Goto 3) (Goto run);
    PLoad Lfo (Fin 2) (Goto run) ].          (* open: forced open rejects; otherwise Allow admits *)

Definition prog (k : tkind) : list pre_instr :=
  match k with
  | KGate => [ PLoad Lfo (Fin 1) (Goto 1); PLoad Lfc (Fin 0) (Goto 2); PLoad Lopen (Fin 1) (Fin 0) ]
  | KOpen =>
      [ PLoad Lfc (Fin 0) (Goto 1);              (* forced closed: nothing to do *)
        PLoad Lfo (Fin 0) (Goto 2);              (* IsOpen: forced open counts as open *)
        PLoad Lfc (Enter DOpen) (Goto 3);        (* IsOpen: forced closed counts as not open *)
        PLoad Lopen (Fin 0) (Enter DOpen) ]
  | KClose =>
      [ PLoad Lfo (Goto 3) (Goto 1);             (* IsOpen *)
        PLoad Lfc (Fin 0) (Goto 2);
        PLoad Lopen (Goto 3) (Fin 0);
        PLoad Lfo (Fin 0) (Enter DClose) ]       (* forced open: stay *)
  | KSet fc fo => [ PStoreB Lfc fc (Goto 1); PStoreB Lfo fo (Fin 0) ]
  | KFail =>
      gate_prefix 4 ++
      [ PLoad Lfo (Fin 1) (Goto 5);              (* 4  checkErrFailure: !IsOpen() *)
        PLoad Lfc (Goto 7) (Goto 6);             (* 5 *)
        PLoad Lopen (Fin 1) (Goto 7);            (* 6 *)
        PLoad Lfc (Fin 1) (Goto 8);              (* 7  attemptToOpen: forced closed *)
        PLoad Lfo (Fin 1) (Goto 9);              (* 8  IsOpen *)
        PLoad Lfc (Goto 11) (Goto 10);           (* 9 *)
        PLoad Lopen (Fin 1) (Goto 11);           (* 10 *)
        PLoad Lfc (Fin 1) (Goto 12);             (* 11 openCircuit: forced closed *)
        PLoad Lfo (Fin 1) (Goto 13);             (* 12 IsOpen *)
        PLoad Lfc (Enter DOpen) (Goto 14);       (* 13 *)
        PLoad Lopen (Fin 1) (Enter DOpen) ]      (* 14 *)
  | KSucceed =>
      gate_prefix 4 ++
      [ PLoad Lfo (Goto 7) (Goto 5);             (* 4  checkSuccess: IsOpen() *)
        PLoad Lfc (Fin 0) (Goto 6);              (* 5 *)
        PLoad Lopen (Goto 7) (Fin 0);            (* 6 *)
        PLoad Lfo (Goto 10) (Goto 8);            (* 7  close: !IsOpen() *)
        PLoad Lfc (Fin 0) (Goto 9);              (* 8 *)
        PLoad Lopen (Goto 10) (Fin 0);           (* 9 *)
        PLoad Lfo (Fin 0) (Enter DClose) ]       (* 10 forced open: stay; else ShouldClose says yes *)
  end.

(* what the operation returns after the transition section *)
Definition after_section (k : tkind) : Z := match k with KFail => 1 | _ => 0 end.

Inductive tsec := SLock | SLoad | SNotify | SStore | SUnlock.
Inductive tpc :=
| TPre (k : nat)
| TSec (d : dir) (p : tsec)
| TFinish (r : Z) | TDone (r : Z).

Record tthread := { th_kind : tkind; th_pc : tpc }.

Definition get_flag (s : tshared) (loc : nat) : bool :=
  if Nat.eqb loc Lfo then t_fo s else if Nat.eqb loc Lfc then t_fc s else t_open s.
(* a fast-path store touches only the overrides *)
Definition set_override (s : tshared) (loc : nat) (v : bool) : tshared :=
  if Nat.eqb loc Lfo then {| t_fo := v; t_fc := t_fc s; t_open := t_open s; t_held := t_held s; t_log := t_log s |}
  else if Nat.eqb loc Lfc then {| t_fo := t_fo s; t_fc := v; t_open := t_open s; t_held := t_held s; t_log := t_log s |}
  else s.
Definition target_pc (t : ptarget) : tpc :=
  match t with Goto k => TPre k | Enter d => TSec d SLock | Fin r => TFinish r end.
Definition bz (b : bool) : Z := if b then 1 else 0.
Definition want (d : dir) : bool := match d with DOpen => true | DClose => false end.

Definition tstep (s : tshared) (t : tthread) : option (tshared * tthread * lab) :=
  let go pc := {| th_kind := th_kind t; th_pc := pc |} in
  match th_pc t with
  | TPre k =>
      match nth_error (prog (th_kind t)) k with
      | Some (PLoad loc tgt_t tgt_f) =>
          let b := get_flag s loc in
          Some (s, go (target_pc (if b then tgt_t else tgt_f)), LAtomic loc OpLoad 0 (bz b))
      | Some (PStoreB loc v nx) => Some (set_override s loc v, go (target_pc nx), LAtomic loc OpStore (bz v) 0)
      | None => None
      end
  | TSec d SLock =>
      if t_held s then None      (* blocked *)
      else Some ({| t_fo := t_fo s; t_fc := t_fc s; t_open := t_open s; t_held := true; t_log := t_log s |},
                 go (TSec d SLoad), LLock Mtm)
  | TSec d SLoad =>
      (* re-test the underlying flag under the lock: someone else may have made this transition *)
      Some (s, go (TSec d (if Bool.eqb (t_open s) (want d) then SUnlock else SNotify)), LAtomic Lopen OpLoad 0 (bz (t_open s)))
  | TSec d SNotify =>
      Some ({| t_fo := t_fo s; t_fc := t_fc s; t_open := t_open s; t_held := t_held s; t_log := t_log s ++ [d] |},
            go (TSec d SStore), LMark (match d with DOpen => Mopened | DClose => Mclosed end) 0)
  | TSec d SStore =>
      Some ({| t_fo := t_fo s; t_fc := t_fc s; t_open := want d; t_held := t_held s; t_log := t_log s |},
            go (TSec d SUnlock), LAtomic Lopen OpStore (bz (want d)) 0)
  | TSec d SUnlock =>
      Some ({| t_fo := t_fo s; t_fc := t_fc s; t_open := t_open s; t_held := false; t_log := t_log s |},
            go (TFinish (after_section (th_kind t))), LUnlock Mtm)
  | TFinish r => Some (s, go (TDone r), LMark Mdone r)
  | TDone _ => None
  end.

Definition tinit (fo fc : bool) : tshared := {| t_fo := fo; t_fc := fc; t_open := false; t_held := false; t_log := [] |}.
Definition tthread0 (k : tkind) : tthread := {| th_kind := k; th_pc := TPre 0 |}.

(* ---------- correspondence ---------- *)
Definition trans_case : Type := nat * tshared * list tthread * list (nat * lab).
Definition trans_mismatches (cs : list trans_case) : list (nat * (nat * option (nat * lab))) :=
  flat_map (fun c : trans_case =>
    let '(id, sh, pool, tr) := c in
    let '(m, _, ok) := replay tstep (map fst tr) sh pool in
    match trace_diff 0 m tr with
    | None => []
    | Some d => [(id, d)]
    end) cs.

(* ---------- vocabulary of the theorems ---------- *)
Fixpoint alternates_from (next : dir) (l : list dir) : Prop :=
  match l with
  | [] => True
  | d :: t => d = next /\ alternates_from (match next with DOpen => DClose | DClose => DOpen end) t
  end.
Definition last_dir (l : list dir) : option dir := List.last (map Some l) None.
Definition th_done (t : tthread) : bool := match th_pc t with TDone _ => true | _ => false end.
Definition in_section (t : tthread) : bool :=
  match th_pc t with TSec _ (SLoad | SNotify | SStore | SUnlock) => true | _ => false end.
Definition all_fresh_t (pool : list tthread) : Prop := Forall (fun t => exists k, t = tthread0 k) pool.
(* IsOpen() as the three loads compute it when nothing moves in between *)
Definition is_open_view (s : tshared) : bool := if t_fo s then true else if t_fc s then false else t_open s.
Definition is_set (t : tthread) : bool := match th_kind t with KSet _ _ => true | _ => false end.
