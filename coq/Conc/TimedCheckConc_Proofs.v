(* Conc/TimedCheckConc_Proofs.v — proofs about the level-2 TimedCheck model
   (Conc/TimedCheckConc.v): under every interleaving of any pool of Check /
   SleepStart / callback threads the RWMutex is used correctly, nextOpenTime is
   the deadline of the latest re-arm, a Check answers true only from a
   write-locked test made at or after nextOpenTime, and between two re-arms at
   most max(1, budget) checks succeed. *)
From Coq Require Import ZifyBool.
From CV Require Import Conc.Sched Conc.TimedCheckConc.

(* ---------- lists: upd / nth_error / cnt ---------- *)
Lemma cnt_ge {A} (p : A -> bool) : forall l i x, nth_error l i = Some x -> b2z (p x) <= cnt p l.
Proof.
  induction l as [|h t IH]; intros [|j] x H; simpl in *; try discriminate; rewrite cnt_cons.
  - inversion H; subst. pose proof (cnt_nonneg _ p t). lia.
  - specialize (IH j x H). unfold b2z in *. destruct (p h); lia.
Qed.

Lemma cnt_zero_inv {A} (p : A -> bool) : forall l, cnt p l = 0 -> Forall (fun x => p x = false) l.
Proof.
  induction l as [|h t IH]; intros H; constructor; rewrite cnt_cons in H;
    pose proof (cnt_nonneg _ p t); unfold b2z in H; destruct (p h); try reflexivity; try lia.
  apply IH. lia.
Qed.

(* when the step is taken by the only element satisfying p, every other element is outside p *)
Lemma cnt_one_others {A} (p : A -> bool) (Q : A -> Prop) : forall l i old new,
  nth_error l i = Some old -> p old = true -> cnt p l <= 1 ->
  (forall x, p x = false -> Q x) -> Q new -> Forall Q (upd i new l).
Proof.
  induction l as [|h t IH]; intros [|j] old new Hn Hp Hc HQ Hnew; simpl in *; try discriminate;
    rewrite cnt_cons in Hc.
  - inversion Hn; subst. rewrite Hp in Hc. unfold b2z in Hc. constructor; [exact Hnew|].
    pose proof (cnt_nonneg _ p t).
    eapply Forall_impl; [|apply (cnt_zero_inv p t); lia]. exact HQ.
  - pose proof (cnt_ge p t j old Hn) as Hge. rewrite Hp in Hge. unfold b2z in *.
    constructor.
    + apply HQ. destruct (p h); [lia|reflexivity].
    + eapply IH; eauto. destruct (p h); lia.
Qed.

(* ---------- the ghost log ---------- *)
Lemma lrd_snoc l e :
  last_rearm_deadline (l ++ [e]) =
  match e with ERearm t d => Some (t + d) | ETest _ _ _ => last_rearm_deadline l end.
Proof. unfold last_rearm_deadline. rewrite fold_left_app. destruct e; reflexivity. Qed.

Lemma ssr_snoc l e :
  successes_since_rearm (l ++ [e]) =
  match e with
  | ERearm _ _ => 0
  | ETest _ _ true => successes_since_rearm l + 1
  | ETest _ _ false => successes_since_rearm l
  end.
Proof. unfold successes_since_rearm. rewrite fold_left_app. destruct e as [t d|n x [|]]; reflexivity. Qed.

Lemma rearmed_snoc l e :
  rearmed (l ++ [e]) = rearmed l || match e with ERearm _ _ => true | _ => false end.
Proof. unfold rearmed. rewrite existsb_app. cbn [existsb]. rewrite orb_false_r. reflexivity. Qed.

Ltac ksimpl :=
  cbn [upd_sh k_ff k_ver k_sleep k_budget k_next k_count k_writer k_readers k_log
       k_pc k_kind holds_write holds_read b2z fst snd] in *.

(* ---------- the invariant ---------- *)
Section Inv.
Variable sh0 : kshared.

Definition bmax : Z := Z.max 1 (k_budget sh0).
Definition dl (l : list kevent) : Z :=
  match last_rearm_deadline l with Some D => D | None => k_next sh0 end.
Definition base (l : list kevent) : Z := if rearmed l then 0 else k_count sh0.
Definition test_ok (e : kevent) : Prop :=
  match e with ETest now next true => next <= now | _ => True end.

(* the writer, except when it owes a re-arm (R0), has left room in the budget *)
Definition w_ok (c : Z) (t : kthread) : Prop :=
  match k_pc t with C4 | R1 | R2 | R3 _ | U _ => c < bmax | _ => True end.

Definition has_test (log : list kevent) (now : Z) : Prop := exists next, In (ETest now next true) log.

(* a Check on its way to answering true has its successful write-locked test in the log *)
Definition m_ok (log : list kevent) (t : kthread) : Prop :=
  match k_kind t with
  | KCheck now =>
      match k_pc t with
      | S0 => False
      | R0 | R1 | R2 | R3 _ => has_test log now
      | U r => r = true -> has_test log now
      | KFinish r | KDone r => r = 1 -> has_test log now
      | _ => True
      end
  | _ => True
  end.

Definition Inv (s : kshared * list kthread) : Prop :=
  cnt holds_write (snd s) = (if k_writer (fst s) then 1 else 0) /\
  cnt holds_read (snd s) = k_readers (fst s) /\
  (k_writer (fst s) = true -> k_readers (fst s) = 0) /\
  k_budget (fst s) = k_budget sh0 /\
  k_next (fst s) = dl (k_log (fst s)) /\
  Forall test_ok (k_log (fst s)) /\
  k_count (fst s) = base (k_log (fst s)) + successes_since_rearm (k_log (fst s)) /\
  0 <= k_count (fst s) <= bmax /\
  (k_writer (fst s) = false -> k_count (fst s) < bmax) /\
  Forall (w_ok (k_count (fst s))) (snd s) /\
  Forall (m_ok (k_log (fst s))) (snd s).

Lemma w_ok_out c t : holds_write t = false -> w_ok c t.
Proof. unfold holds_write, w_ok. destruct (k_pc t); intros H; try discriminate; exact I. Qed.

Lemma m_ok_mono l l' t : incl l l' -> m_ok l t -> m_ok l' t.
Proof.
  intros Hi. unfold m_ok, has_test. destruct (k_kind t); auto.
  destruct (k_pc t); auto; try (intros [nx H]; exists nx; auto);
    intros H E; destruct (H E) as [nx H']; exists nx; auto.
Qed.

Lemma fresh_facts t :
  (exists k, t = kthread0 k) ->
  holds_write t = false /\ holds_read t = false /\ (forall c, w_ok c t) /\ (forall l, m_ok l t).
Proof. intros [[n|n|v] ->]; cbn; repeat split. Qed.

Lemma inv_init pool0 :
  all_fresh_k pool0 ->
  k_writer sh0 = false /\ k_readers sh0 = 0 /\ k_log sh0 = [] ->
  0 <= k_count sh0 < Z.max 1 (k_budget sh0) ->
  Inv (sh0, pool0).
Proof.
  intros Hp (Hw & Hr & Hl) Hc. unfold Inv. cbn [fst snd]. rewrite Hw, Hr, Hl.
  repeat apply conj.
  - apply cnt_zero. eapply Forall_impl; [|exact Hp]. intros t Ht. apply fresh_facts in Ht. tauto.
  - apply cnt_zero. eapply Forall_impl; [|exact Hp]. intros t Ht. apply fresh_facts in Ht. tauto.
  - reflexivity.
  - reflexivity.
  - reflexivity.
  - constructor.
  - unfold base. cbn. lia.
  - lia.
  - unfold bmax. lia.
  - unfold bmax. lia.
  - eapply Forall_impl; [|exact Hp]. intros t Ht. apply fresh_facts in Ht. apply Ht.
  - eapply Forall_impl; [|exact Hp]. intros t Ht. apply fresh_facts in Ht. apply Ht.
Qed.

(* a step of a thread outside the write lock that leaves the guarded fields and the log alone *)
Lemma inv_frame sh pool i lo sh' lo' :
  Inv (sh, pool) -> nth_error pool i = Some lo ->
  holds_write lo = false -> holds_write lo' = false ->
  k_writer sh' = k_writer sh ->
  k_readers sh' = k_readers sh - b2z (holds_read lo) + b2z (holds_read lo') ->
  (k_writer sh = true -> holds_read lo' = false) ->
  k_budget sh' = k_budget sh -> k_next sh' = k_next sh -> k_count sh' = k_count sh ->
  k_log sh' = k_log sh ->
  m_ok (k_log sh) lo' ->
  Inv (sh', upd i lo' pool).
Proof.
  intros (Hw & Hr & Hwr & Hb & Hnx & Hto & Hce & Hcr & Hcf & Hwo & Hmo) Hn Hlo Hlo' E1 E2 E2' E3 E4 E5 E6 Hm.
  unfold Inv in *. cbn [fst snd] in *. rewrite E1, E3, E4, E5, E6.
  pose proof (cnt_ge holds_read pool i lo Hn) as Hge.
  repeat apply conj; try assumption; try apply Hcr.
  - rewrite (cnt_upd _ holds_write _ _ _ _ Hn), Hlo, Hlo'. unfold b2z. lia.
  - rewrite (cnt_upd _ holds_read _ _ _ _ Hn), E2. lia.
  - intros Ht. rewrite E2, (Hwr Ht), (E2' Ht). rewrite Hr, (Hwr Ht) in Hge.
    pose proof (cnt_nonneg _ holds_read pool). unfold b2z in *. destruct (holds_read lo); lia.
  - apply Forall_upd; [exact Hwo|]. apply w_ok_out; exact Hlo'.
  - apply Forall_upd; [exact Hmo|exact Hm].
Qed.

Lemma writer_true sh pool i lo :
  Inv (sh, pool) -> nth_error pool i = Some lo -> holds_write lo = true ->
  k_writer sh = true /\ k_readers sh = 0.
Proof.
  intros (Hw & Hr & Hwr & _) Hn Hlo. cbn [fst snd] in *.
  pose proof (cnt_ge holds_write pool i lo Hn) as Hge. rewrite Hlo in Hge. unfold b2z in Hge.
  assert (k_writer sh = true) by (destruct (k_writer sh); [reflexivity|lia]). auto.
Qed.

(* a step of the thread that holds the write lock *)
Lemma inv_writer sh pool i lo sh' lo' :
  Inv (sh, pool) -> nth_error pool i = Some lo ->
  holds_write lo = true -> holds_read lo' = false ->
  k_writer sh' = holds_write lo' -> k_readers sh' = k_readers sh -> k_budget sh' = k_budget sh ->
  k_next sh' = dl (k_log sh') -> Forall test_ok (k_log sh') ->
  k_count sh' = base (k_log sh') + successes_since_rearm (k_log sh') ->
  0 <= k_count sh' <= bmax ->
  (holds_write lo' = false -> k_count sh' < bmax) ->
  w_ok (k_count sh') lo' ->
  incl (k_log sh) (k_log sh') ->
  m_ok (k_log sh') lo' ->
  Inv (sh', upd i lo' pool).
Proof.
  intros HI Hn Hlo Hrd' E1 E2 E3 Hnx' Hto' Hce' Hcr' Hcf' Hwo' Hincl Hm'.
  destruct (writer_true _ _ _ _ HI Hn Hlo) as (Hwt & Hr0).
  destruct HI as (Hw & Hr & Hwr & Hb & Hnx & Hto & Hce & Hcr & Hcf & Hwo & Hmo).
  unfold Inv in *. cbn [fst snd] in *. rewrite Hwt in Hw.
  pose proof (cnt_ge holds_read pool i lo Hn) as Hge. rewrite Hr, Hr0 in Hge.
  repeat apply conj; try assumption; try apply Hcr'.
  - rewrite (cnt_upd _ holds_write _ _ _ _ Hn), Hlo, E1, Hw. unfold b2z.
    destruct (holds_write lo'); lia.
  - rewrite (cnt_upd _ holds_read _ _ _ _ Hn), Hrd', E2, Hr, Hr0. unfold b2z in *.
    destruct (holds_read lo); lia.
  - intros _. rewrite E2. exact Hr0.
  - rewrite E3. exact Hb.
  - rewrite E1. exact Hcf'.
  - eapply (cnt_one_others holds_write); eauto; [lia|]. intros x. apply w_ok_out.
  - apply Forall_upd; [|exact Hm']. eapply Forall_impl; [|exact Hmo].
    intros t. apply m_ok_mono. exact Hincl.
Qed.

Lemma w_ok_lt c t : c < bmax -> w_ok c t.
Proof. unfold w_ok. destruct (k_pc t); auto. Qed.

(* taking the write lock *)
Lemma inv_lock sh pool i lo sh' lo' :
  Inv (sh, pool) -> nth_error pool i = Some lo ->
  holds_write lo = false -> holds_read lo = false ->
  holds_write lo' = true -> holds_read lo' = false ->
  k_writer sh = false -> k_readers sh = 0 -> k_writer sh' = true -> k_readers sh' = 0 ->
  k_budget sh' = k_budget sh -> k_next sh' = k_next sh -> k_count sh' = k_count sh ->
  k_log sh' = k_log sh ->
  m_ok (k_log sh) lo' ->
  Inv (sh', upd i lo' pool).
Proof.
  intros (Hw & Hr & Hwr & Hb & Hnx & Hto & Hce & Hcr & Hcf & Hwo & Hmo) Hn Hlo Hrd Hlo' Hrd'
         W0 R0' W1 R1' E3 E4 E5 E6 Hm.
  unfold Inv in *. cbn [fst snd] in *. rewrite W1, R1', E3, E4, E5, E6. rewrite W0 in Hw. rewrite R0' in Hr.
  repeat apply conj; try assumption; try apply Hcr.
  - rewrite (cnt_upd _ holds_write _ _ _ _ Hn), Hlo, Hlo', Hw. reflexivity.
  - rewrite (cnt_upd _ holds_read _ _ _ _ Hn), Hrd, Hrd', Hr. reflexivity.
  - reflexivity.
  - discriminate.
  - apply Forall_upd; [exact Hwo|]. apply w_ok_lt. exact (Hcf W0).
  - apply Forall_upd; [exact Hmo|exact Hm].
Qed.

Ltac kifs :=
  repeat match goal with |- context [if ?b then _ else _] => destruct b eqn:? end.

Lemma inv_step s s' : Inv s -> gstep kstep s s' -> Inv s'.
Proof.
  intros HI Hs. destruct Hs as [sh pool i lo sh' lo' lb Hn Ht].
  pose proof HI as (Hw & Hr & Hwr & Hb & Hnx & Hto & Hce & Hcr & Hcf & Hwo & Hmo).
  cbn [fst snd] in *.
  pose proof (nth_error_Forall _ _ _ _ _ Hwo Hn) as Hwl.
  pose proof (nth_error_Forall _ _ _ _ _ Hmo Hn) as Hml.
  destruct lo as [kind pc]. unfold kstep in Ht. cbn [k_pc k_kind] in Ht.
  destruct pc as [ | |early| | | | | | |d|r| | |r|r].
  - (* C0: load the fast-fail flag *)
    injection Ht as <- <- _.
    eapply (inv_frame _ _ _ _ _ _ HI Hn); ksimpl; try reflexivity.
    + destruct (k_ff sh); reflexivity.
    + destruct (k_ff sh); ksimpl; lia.
    + destruct (k_ff sh); reflexivity.
    + unfold m_ok. ksimpl. destruct kind; auto. destruct (k_ff sh); [discriminate|exact I].
  - (* C1: RLock *)
    destruct (k_writer sh) eqn:Hkw; [discriminate|]. injection Ht as <- <- _.
    eapply (inv_frame _ _ _ _ _ _ HI Hn); ksimpl; try reflexivity.
    + congruence.
    + lia.
    + congruence.
    + unfold m_ok. ksimpl. destruct kind; exact I.
  - (* C2: RUnlock *)
    injection Ht as <- <- _.
    eapply (inv_frame _ _ _ _ _ _ HI Hn); ksimpl; try reflexivity.
    + destruct early; reflexivity.
    + destruct early; ksimpl; lia.
    + destruct early; reflexivity.
    + unfold m_ok. ksimpl. destruct kind; auto. destruct early; [discriminate|exact I].
  - (* C3: Lock *)
    destruct (k_writer sh) eqn:Hkw; [discriminate|].
    destruct (k_readers sh =? 0) eqn:Hkr; [|discriminate]. cbn [orb negb] in Ht.
    injection Ht as <- <- _.
    eapply (inv_lock _ _ _ _ _ _ HI Hn); ksimpl; try reflexivity; try assumption; try lia.
  - (* C4: the write-locked test *)
    destruct (writer_true _ _ _ _ HI Hn eq_refl) as (Hwt & Hr0).
    destruct (now_of kind <? k_next sh) eqn:E; injection Ht as <- <- _.
    + eapply (inv_writer _ _ _ _ _ _ HI Hn); ksimpl; try reflexivity.
      * unfold dl. rewrite lrd_snoc. exact Hnx.
      * apply Forall_app. split; [exact Hto|]. constructor; [exact I|constructor].
      * unfold base. rewrite rearmed_snoc, ssr_snoc, orb_false_r. exact Hce.
      * exact Hcr.
      * intros _. exact Hwl.
      * apply incl_appl, incl_refl.
      * unfold m_ok. ksimpl. destruct kind; auto. discriminate.
    + assert (Hlt : k_count sh < bmax) by exact Hwl.
      eapply (inv_writer _ _ _ _ _ _ HI Hn); ksimpl; try reflexivity.
      * kifs; reflexivity.
      * kifs; ksimpl; exact Hwt.
      * unfold dl. rewrite lrd_snoc. exact Hnx.
      * apply Forall_app. split; [exact Hto|]. constructor; [cbn; lia|constructor].
      * unfold base in *. rewrite rearmed_snoc, ssr_snoc, orb_false_r. rewrite Hce. ring.
      * lia.
      * kifs; ksimpl; discriminate.
      * unfold w_ok. destruct (k_budget sh <=? k_count sh + 1) eqn:Eb; ksimpl; [exact I|].
        unfold bmax. lia.
      * apply incl_appl, incl_refl.
      * unfold m_ok, has_test. ksimpl. destruct kind as [n|n|v]; try exact I.
        assert (In (ETest n (k_next sh) true) (k_log sh ++ [ETest n (k_next sh) true]))
          by (apply in_or_app; right; left; reflexivity).
        kifs; ksimpl; eauto.
  - (* S0: Lock *)
    destruct (k_writer sh) eqn:Hkw; [discriminate|].
    destruct (k_readers sh =? 0) eqn:Hkr; [|discriminate]. cbn [orb negb] in Ht.
    injection Ht as <- <- _.
    eapply (inv_lock _ _ _ _ _ _ HI Hn); ksimpl; try reflexivity; try assumption; try lia.
    unfold m_ok in *. ksimpl. destruct kind; [contradiction|exact I|exact I].
  - (* R0: re-arm *)
    injection Ht as <- <- _.
    eapply (inv_writer _ _ _ _ _ _ HI Hn); ksimpl; try reflexivity.
    + apply (writer_true _ _ _ _ HI Hn eq_refl).
    + unfold dl. rewrite lrd_snoc. reflexivity.
    + apply Forall_app. split; [exact Hto|]. constructor; [exact I|constructor].
    + unfold base. rewrite rearmed_snoc, ssr_snoc, orb_true_r. reflexivity.
    + unfold bmax. lia.
    + discriminate.
    + unfold w_ok, bmax. ksimpl. lia.
    + apply incl_appl, incl_refl.
    + revert Hml. unfold m_ok, has_test. ksimpl. destruct kind; auto.
      intros [nx H]. exists nx. apply in_or_app. auto.
  - (* R1: store fast-fail *)
    injection Ht as <- <- _.
    eapply (inv_writer _ _ _ _ _ _ HI Hn); ksimpl; try reflexivity; try assumption.
    + apply (writer_true _ _ _ _ HI Hn eq_refl).
    + discriminate.
    + apply incl_refl.
  - (* R2: version.Add *)
    injection Ht as <- <- _.
    eapply (inv_writer _ _ _ _ _ _ HI Hn); ksimpl; try reflexivity; try assumption.
    + apply (writer_true _ _ _ _ HI Hn eq_refl).
    + discriminate.
    + apply incl_refl.
  - (* R3: register the timer *)
    injection Ht as <- <- _.
    eapply (inv_writer _ _ _ _ _ _ HI Hn); ksimpl; try reflexivity; try assumption.
    + apply (writer_true _ _ _ _ HI Hn eq_refl).
    + discriminate.
    + apply incl_refl.
    + revert Hml. unfold m_ok. ksimpl. destruct kind; auto.
  - (* U: Unlock *)
    injection Ht as <- <- _.
    eapply (inv_writer _ _ _ _ _ _ HI Hn); ksimpl; try reflexivity; try assumption.
    + intros _. exact Hwl.
    + apply incl_refl.
    + revert Hml. unfold m_ok. ksimpl. destruct kind; auto.
      destruct r; cbn [bz]; [auto|discriminate].
  - (* K0: callback loads the version *)
    destruct kind as [n|n|v]; try discriminate. injection Ht as <- <- _.
    eapply (inv_frame _ _ _ _ _ _ HI Hn); ksimpl; try reflexivity.
    + kifs; reflexivity.
    + kifs; ksimpl; lia.
    + kifs; reflexivity.
  - (* K1: callback clears the fast-fail flag *)
    injection Ht as <- <- _.
    eapply (inv_frame _ _ _ _ _ _ HI Hn); ksimpl; try reflexivity.
    + lia.
    + unfold m_ok. ksimpl. destruct kind; auto. discriminate.
  - (* KFinish *)
    injection Ht as <- <- _.
    eapply (inv_frame _ _ _ _ _ _ HI Hn); ksimpl; try reflexivity.
    + lia.
    + exact Hml.
  - discriminate.
Qed.

Lemma inv_reachable pool0 s :
  all_fresh_k pool0 ->
  k_writer sh0 = false /\ k_readers sh0 = 0 /\ k_log sh0 = [] ->
  0 <= k_count sh0 < Z.max 1 (k_budget sh0) ->
  reach kstep (sh0, pool0) s -> Inv s.
Proof.
  intros Hp Hf Hc Hr. exact (inv_reach _ _ _ Inv _ (inv_init pool0 Hp Hf Hc) inv_step s Hr).
Qed.

End Inv.

(* ---------- the theorems ---------- *)
Theorem l2_exclusion (sh0 : kshared) (pool0 : list kthread)
  (Hpool : all_fresh_k pool0)
  (Hfree : k_writer sh0 = false /\ k_readers sh0 = 0 /\ k_log sh0 = [])
  (Hcount : 0 <= k_count sh0 < Z.max 1 (k_budget sh0)) :
  forall s, reach kstep (sh0, pool0) s ->
  cnt holds_write (snd s) = (if k_writer (fst s) then 1 else 0) /\
  cnt holds_read (snd s) = k_readers (fst s) /\
  (k_writer (fst s) = true -> k_readers (fst s) = 0).
Proof.
  intros s Hr.
  destruct (inv_reachable sh0 pool0 s Hpool Hfree Hcount Hr) as (H1 & H2 & H3 & _). auto.
Qed.

Theorem l2_deadline (sh0 : kshared) (pool0 : list kthread)
  (Hpool : all_fresh_k pool0)
  (Hfree : k_writer sh0 = false /\ k_readers sh0 = 0 /\ k_log sh0 = [])
  (Hcount : 0 <= k_count sh0 < Z.max 1 (k_budget sh0)) :
  forall s, reach kstep (sh0, pool0) s ->
  k_next (fst s) = match last_rearm_deadline (k_log (fst s)) with Some D => D | None => k_next sh0 end.
Proof.
  intros s Hr.
  destruct (inv_reachable sh0 pool0 s Hpool Hfree Hcount Hr) as (_ & _ & _ & _ & H & _). exact H.
Qed.

Theorem l2_closed_until (sh0 : kshared) (pool0 : list kthread)
  (Hpool : all_fresh_k pool0)
  (Hfree : k_writer sh0 = false /\ k_readers sh0 = 0 /\ k_log sh0 = [])
  (Hcount : 0 <= k_count sh0 < Z.max 1 (k_budget sh0)) :
  forall s, reach kstep (sh0, pool0) s ->
  Forall (fun e => match e with ETest now next true => next <= now | _ => True end) (k_log (fst s)) /\
  Forall (fun t => match k_kind t, k_pc t with
                   | KCheck _, (KFinish 1 | KDone 1) => exists now next, In (ETest now next true) (k_log (fst s)) /\ now_of (k_kind t) = now
                   | _, _ => True end) (snd s).
Proof.
  intros s Hr.
  destruct (inv_reachable sh0 pool0 s Hpool Hfree Hcount Hr)
    as (_ & _ & _ & _ & _ & Hto & _ & _ & _ & _ & Hmo).
  split; [exact Hto|]. eapply Forall_impl; [|exact Hmo].
  intros t. unfold m_ok, has_test. destruct (k_kind t) as [n|n|v] eqn:Ek; try (intros; exact I).
  destruct (k_pc t) as [ | |early| | | | | | |d|r| | |r|r]; try (intros; exact I);
    destruct r as [|[p|p|]|p]; try (intros; exact I);
    intros H; destruct (H eq_refl) as [nx Hin]; exists n, nx; (split; [exact Hin|reflexivity]).
Qed.

Theorem l2_budget (sh0 : kshared) (pool0 : list kthread)
  (Hpool : all_fresh_k pool0)
  (Hfree : k_writer sh0 = false /\ k_readers sh0 = 0 /\ k_log sh0 = [])
  (Hcount : 0 <= k_count sh0 < Z.max 1 (k_budget sh0)) :
  forall s, reach kstep (sh0, pool0) s ->
  k_count (fst s) = (if rearmed (k_log (fst s)) then 0 else k_count sh0) + successes_since_rearm (k_log (fst s)) /\
  0 <= k_count (fst s) <= Z.max 1 (k_budget sh0) /\
  (k_writer (fst s) = false -> k_count (fst s) < Z.max 1 (k_budget sh0)).
Proof.
  intros s Hr.
  destruct (inv_reachable sh0 pool0 s Hpool Hfree Hcount Hr)
    as (_ & _ & _ & _ & _ & _ & H1 & H2 & H3 & _).
  auto.
Qed.
