(* Properties/C11_Gen.v — the access table and lock-order graph that
   harness/cmd/translate (mode "access") regenerates from /repo's working tree on
   every run (Gen/AccessTable.v, never committed) satisfy the hypotheses of
   c11_lockset_sound and c11_lockorder_sound.  Compiled by bin/check after the
   regeneration; not part of the static build. *)
From Coq Require Import String List.
From CV Require Import Conc.Lockset Gen.AccessTable.

Theorem c11_table_discipline : discipline_ok accesses = true.
Proof. vm_compute. reflexivity. Qed.
Theorem c11_no_race : forall pool0 pool, start_ok accesses pool0 -> reach pool0 pool -> ~ race pool.
Proof. exact (lockset_sound accesses c11_table_discipline). Qed.
Theorem c11_graph_ranked : edges_ranked lock_edges = true.
Proof. vm_compute. reflexivity. Qed.
Theorem c11_no_deadlock : forall pool0 pool, start_ordered lock_edges pool0 -> reach pool0 pool -> ~ deadlock pool.
Proof. exact (lockorder_checked lock_edges c11_graph_ranked). Qed.

Print Assumptions c11_table_discipline.
Print Assumptions c11_no_race.
Print Assumptions c11_graph_ranked.
Print Assumptions c11_no_deadlock.
