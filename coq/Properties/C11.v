(* Properties/C11.v — live reconfiguration and diagnostics are safe under traffic.
   Four clauses, each at the strength this technique reaches (DESIGN.md section 4, C11):

   (a) "each call observes, for every setting, either the old or the new value":
       level-2 gauge model, callers racing ANY number of reconfigurations, every
       interleaving (c11_old_or_new); the same for the overrides is c08_l2_* (Properties/C08_L2.v).
   (b) no data race: lock discipline on the access table => no two threads are ever
       poised on conflicting accesses (c11_lockset_sound, generic in the table); the table
       regenerated from the working tree is checked against it in Properties/C11_Gen.v.
   (c) no deadlock: ranked lock-order graph => never are all unfinished threads blocked
       on a mutex (c11_lockorder_sound); the regenerated graph is checked in C11_Gen.v.
   (d) no panic with partially filled configurations: every diagnostic and every decision
       that reads an optional field of the stored configuration yields a value
       (c11_optional_fields_total), tied by the "cfg" correspondence family.
   Statements only. *)
From Coq Require Import String.
From CV Require Import Conc.Sched Conc.Gauge Conc.ConfigRead_Proofs Conc.Lockset Seq.Diag.

(* (a) *)
Theorem c11_old_or_new : forall tmo max fbmax fbdis pool0 s,
  all_fresh pool0 -> Sched.reach gstep1 (ginit tmo max fbmax fbdis, pool0) s ->
  Forall (old_or_new tmo max fbmax fbdis pool0) (snd s).
Proof. exact old_or_new_reachable. Qed.

(* one reconfiguration: the installed configurations are exactly the old and the new one *)
Example c11_old_or_new_example :
  installed 100%Z 5%Z 5%Z false [Caller RunOk FbNone GStart; Setter 0%Z (-1)%Z (-1)%Z true 0%nat] = [(100, 5, 5, false); (0, -1, -1, true)]%Z.
Proof. reflexivity. Qed.

(* (b) *)
Theorem c11_lockset_sound : forall tbl, discipline_ok tbl = true ->
  forall pool0 pool, start_ok tbl pool0 -> Lockset.reach pool0 pool -> ~ race pool.
Proof. exact lockset_sound. Qed.

(* (c) *)
Theorem c11_lockorder_sound : forall edges, edges_ranked edges = true ->
  forall pool0 pool, start_ordered edges pool0 -> Lockset.reach pool0 pool -> ~ deadlock pool.
Proof. exact lockorder_checked. Qed.

(* (d) *)
Theorem c11_optional_fields_total : forall c q, diag c q <> DPanic.
Proof. exact diag_total. Qed.

Print Assumptions c11_old_or_new.
Print Assumptions c11_old_or_new_example.
Print Assumptions c11_lockset_sound.
Print Assumptions c11_lockorder_sound.
Print Assumptions c11_optional_fields_total.
