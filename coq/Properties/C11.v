(* Properties/C11.v — live reconfiguration and diagnostics are safe under traffic.
   Four clauses, each at the strength this technique reaches (DESIGN.md section 4, C11):

   (a) "each call observes, for every setting, either the old or the new value":
       level-2 gauge model, callers racing ANY number of reconfigurations, every
       interleaving (c11_old_or_new); the same for the overrides is c08_l2_* (Properties/C08_L2.v).
   (b) no data race: lock discipline on the access table => no two threads are ever
       poised on conflicting accesses (c11_lockset_sound, generic in the table); the table
       regenerated from the working tree is checked against it in Properties/C11_Gen.v.
   (c) no deadlock: ranked lock-order graph => never are all unfinished threads blocked
       on a mutex (c11_lockorder_sound); the regenerated graph is checked in C11_Gen.v.
   (d) no panic with partially filled configurations: every diagnostic and every decision
       that reads an optional field of the stored configuration yields a value
       (c11_optional_fields_total), tied by the "cfg" correspondence family.
   Statements only. *)
From Coq Require Import String.
From CV Require Import Base.Prelude Seq.RollingCounter Seq.TimedCheck Seq.Logic Seq.LogicCase Conc.Sched Conc.Gauge Conc.ConfigRead_Proofs Conc.Lockset Seq.Diag.

(* (a) *)
Theorem c11_old_or_new : forall tmo max fbmax fbdis pool0 s,
  all_fresh pool0 -> Sched.reach gstep1 (ginit tmo max fbmax fbdis, pool0) s ->
  Forall (old_or_new tmo max fbmax fbdis pool0) (snd s).
Proof. exact old_or_new_reachable. Qed.

(* a reconfiguration is atomic for the settings AS A WHOLE: whenever no SetConfigThreadSafe is between its Lock
   and its Unlock, the four live settings are those of one installed configuration, never a mixture of two
   concurrent reconfigurations; and at most one reconfiguration is inside (the forwarding of the new
   configuration to Configurable open/close logic happens inside too -- a step of the model that the trace tie
   compares with the code) *)
Theorem c11_settings_not_torn : forall tmo max fbmax fbdis pool0 s,
  all_fresh pool0 -> Sched.reach gstep1 (ginit tmo max fbmax fbdis, pool0) s ->
  g_cfgheld (fst s) = false -> In (settings (fst s)) (installed tmo max fbmax fbdis pool0).
Proof. exact settings_not_torn. Qed.
Theorem c11_reconfigurations_exclusive : forall tmo max fbmax fbdis pool0 s,
  all_fresh pool0 -> Sched.reach gstep1 (ginit tmo max fbmax fbdis, pool0) s ->
  cnt in_cfg_section (snd s) = if g_cfgheld (fst s) then 1%Z else 0%Z.
Proof. exact cfg_section_exclusive. Qed.

(* one reconfiguration: the installed configurations are exactly the old and the new one *)
Example c11_old_or_new_example :
  installed 100%Z 5%Z 5%Z false [Caller RunOk FbNone GStart; Setter 0%Z (-1)%Z (-1)%Z true 0%nat] = [(100, 5, 5, false); (0, -1, -1, true)]%Z.
Proof. reflexivity. Qed.

(* (a), the built-in logic's own live settings (hystrix opener thresholds, consecutive-errors threshold,
   closer sleep window / probe budget / required successes): after SetConfigThreadSafe the NEW values decide
   the next question and nothing else moved -- no counter, window, streak or armed gate state *)
Theorem c11_opener_live_setting_decides : forall pct vol h now,
  ho_should_open now (ho_set pct vol h) =
  let (att1, a) := rolling_sum_at (ho_n h) (ho_w h) (ho_start h) now (ho_att h) in
  if (a =? 0)%Z || (a <? vol)%Z then (ho_set pct vol (ho_with h (ho_err h) att1), false)
  else let (err1, e) := rolling_sum_at (ho_n h) (ho_w h) (ho_start h) now (ho_err h) in
       (ho_set pct vol (ho_with h err1 att1), (pct * a <=? 100 * e)%Z).
Proof. exact opener_set_decides. Qed.
Theorem c11_opener_live_setting_moves_no_counter : forall pct vol h,
  ho_err (ho_set pct vol h) = ho_err h /\ ho_att (ho_set pct vol h) = ho_att h /\
  ho_n (ho_set pct vol h) = ho_n h /\ ho_w (ho_set pct vol h) = ho_w h /\ ho_start (ho_set pct vol h) = ho_start h.
Proof. exact opener_set_moves_no_counter. Qed.
Theorem c11_consec_live_setting_decides : forall thr c t now ans,
  opener_should_open now ans (opener_set_consec thr (OpConsec c t)) = (OpConsec c thr, (thr <=? c)%Z).
Proof. exact consec_set_decides. Qed.
Theorem c11_closer_live_setting_decides : forall sleep half req t s n ans,
  closer_should_close ans (closer_set sleep half req (ClHystrix t s n)) = (req <=? s)%Z /\
  (forall now, let '(c1, b, a) := closer_allow now ans (closer_set sleep half req (ClHystrix t s n)) in
               let '(t1, b', a') := tc_check now (tc_set_budget half (tc_set_sleep sleep t)) in
               b = b' /\ a = match a' with Some d => [d] | None => [] end).
Proof. exact closer_set_decides. Qed.

(* (b) *)
Theorem c11_lockset_sound : forall tbl, discipline_ok tbl = true ->
  forall pool0 pool, start_ok tbl pool0 -> Lockset.reach pool0 pool -> ~ race pool.
Proof. exact lockset_sound. Qed.

(* (c) *)
Theorem c11_lockorder_sound : forall edges, edges_ranked edges = true ->
  forall pool0 pool, start_ordered edges pool0 -> Lockset.reach pool0 pool -> ~ deadlock pool.
Proof. exact lockorder_checked. Qed.

(* (d) *)
Theorem c11_optional_fields_total : forall c q, diag c q <> DPanic.
Proof. exact diag_total. Qed.

Print Assumptions c11_old_or_new.
Print Assumptions c11_settings_not_torn.
Print Assumptions c11_reconfigurations_exclusive.
Print Assumptions c11_old_or_new_example.
Print Assumptions c11_opener_live_setting_decides.
Print Assumptions c11_opener_live_setting_moves_no_counter.
Print Assumptions c11_consec_live_setting_decides.
Print Assumptions c11_closer_live_setting_decides.
Print Assumptions c11_lockset_sound.
Print Assumptions c11_lockorder_sound.
Print Assumptions c11_optional_fields_total.
