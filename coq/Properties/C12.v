(* Properties/C12.v — one clock: every timestamp and duration comes from the
   configured TimeKeeper.  The model's clock is the harness's substitute
   TimeKeeper: frozen within a segment, moved only by Tick; the harness's clock
   starts in the year 2200, so a wall-clock reading leaking into any observation
   is > 170 years away from every value these theorems predict.  Statements only. *)
From CV Require Import Base.Prelude Seq.RollingCounter Seq.TimedCheck Seq.Logic Seq.Circuit Seq.CircuitSpec Seq.C12_Proofs.

Definition is_endfb (ev : event) : bool := match ev with EndFb _ _ => true | _ => false end.

Section C12.
Variable st : static.

(* every time argument handed to the opener, the closer (including Allow, Prevent,
   ShouldOpen, ShouldClose) and the collectors during a segment is the clock's value
   of that segment -- on every entry point including OpenCircuit and CloseCircuit ... *)
Theorem c12_times_are_readings : forall s ev,
  is_endfb ev = false ->
  Forall (fun t => t = clock s) (obs_times (snd (step st s ev))).
Proof. exact (times_are_readings st). Qed.

(* ... except the fallback's completion events, which carry the reading taken when
   the fallback was entered, and the difference to the reading at its end *)
Theorem c12_fallback_times : forall s id f cs fbstart ran derived,
  find_call id s = Some cs -> cs_phase cs = PFb fbstart ran derived ->
  Forall (fun t => t = fbstart) (obs_times (snd (step st s (EndFb id f)))) /\
  Forall (fun d => d = clock s - fbstart) (obs_durations (snd (step st s (EndFb id f)))).
Proof. exact (fallback_times st). Qed.

(* every reported run duration is the difference of the readings at completion and at start *)
Theorem c12_run_durations : forall s id e cs start expected derived,
  find_call id s = Some cs -> cs_phase cs = PRun start expected derived ->
  Forall (fun d => d = clock s - start) (obs_durations (snd (step st s (EndRun id e)))).
Proof. exact (run_durations st). Qed.

(* the remembered readings are readings: whatever time a segment stores for a call
   is the clock's value of that segment *)
Theorem c12_stored_readings : forall s ev id cs,
  find_call id s = None ->
  find_call id (fst (step st s ev)) = Some cs ->
  match cs_phase cs with
  | PRun start _ _ => start = clock s
  | PFb fbstart _ _ => fbstart = clock s
  | PPass => True
  end.
Proof. exact (stored_readings st). Qed.
Theorem c12_stored_fallback_reading : forall s id e cs cs' start expected derived fbstart ran d,
  find_call id s = Some cs -> cs_phase cs = PRun start expected derived ->
  find_call id (fst (step st s (EndRun id e))) = Some cs' -> cs_phase cs' = PFb fbstart ran d ->
  fbstart = clock s.
Proof. exact (stored_fallback_reading st). Qed.

(* the clock moves only by Tick: a circuit driven by a substitute clock is a function of the
   history alone (`step` is a Gallina function of state and event; there is no other input) *)
Theorem c12_clock_moves_only_by_tick : forall s ev,
  clock (fst (step st s ev)) = match ev with Tick d => clock s + d | _ => clock s end.
Proof. exact (clock_moves_only_by_tick st). Qed.
End C12.

Print Assumptions c12_times_are_readings.
Print Assumptions c12_fallback_times.
Print Assumptions c12_run_durations.
Print Assumptions c12_stored_readings.
Print Assumptions c12_stored_fallback_reading.
Print Assumptions c12_clock_moves_only_by_tick.
