(* Properties/C15.v — RollingPercentile: windowed latency sample with sound
   summaries.  The ring/window theorems are over all sequential histories of
   AddDuration / SnapshotAt / Reset with arbitrary timestamps and durations,
   every n > 0, w > 0 and capacity >= 0.  Percentile is the binary64 model
   (Flocq), which the correspondence check compares with Go's results bit for
   bit; its order theorems carry the stated magnitude guard (samples in
   [0, 2^53] ns, about 104 days, so that float64(second-first) is exact).
   Statements only. *)
From Coq Require Import Sorting.Sorted Sorting.Permutation.
From Flocq Require Import IEEE754.BinarySingleNaN.
From CV Require Import Base.Prelude Seq.RollingCounter Seq.RollingPercentile Seq.PercentileFloat
  Seq.C15_Proofs Seq.C15_Float_Proofs.

Section Ring.
Variables (n w start cap : Z).
Hypothesis Hn : 0 < n.
Hypothesis Hw : 0 < w.
Hypothesis Hcap : 0 <= cap.

(* SnapshotAt returns, in ascending order, exactly the durations added to the buckets of the
   current window, keeping per bucket the most recent `cap` values *)
Theorem c15_snapshot : forall h t l,
  snd (rp_step n w start cap (rp_state_after n w start cap h) (PSnap t)) = PList l ->
  Sorted Z.le l /\ Permutation l (window_sample n w start cap (h ++ [PSnap t])).
Proof. exact (snapshot_spec n w start cap Hn Hw Hcap). Qed.

(* samples stamped before the start or older than the window are ignored *)
Theorem c15_ignored : forall h d t,
  in_window n w start (rp_latest w start h) t = false ->
  rp_buckets (rp_state_after n w start cap (h ++ [PAdd d t])) = rp_buckets (rp_state_after n w start cap h) /\
  rp_last (rp_state_after n w start cap (h ++ [PAdd d t])) = rp_last (rp_state_after n w start cap h).
Proof. exact (stale_add_ignored n w start cap Hn Hw Hcap). Qed.

(* no timestamp makes any operation index outside a slice *)
Theorem c15_total_functions : forall h, rp_fault (rp_state_after n w start cap h) = false.
Proof. exact (rp_no_fault n w start cap Hn Hw Hcap). Qed.
End Ring.

(* Mean lies between Min and Max (Go's truncating division; sum within int64) *)
Theorem c15_mean_between : forall s,
  Sorted Z.le s -> s <> [] -> sd_min s <= sd_mean s <= sd_max s.
Proof. exact mean_between. Qed.

(* Percentile equals Min at 0 (and below) and Max at 100 (and above) *)
Theorem c15_p0_min : forall s pm pe,
  s <> [] -> Bleb (f_of_me pm pe) (f_of_Z 0) = true -> percentile s pm pe = sd_min s.
Proof. exact p0_min. Qed.
Theorem c15_p100_max : forall s pm pe,
  s <> [] -> Bleb (f_of_me pm pe) (f_of_Z 0) = false -> Bleb (f_of_Z 100) (f_of_me pm pe) = true ->
  percentile s pm pe = sd_max s.
Proof. exact p100_max. Qed.
Example c15_p0_p100 : percentile [3; 5; 9] 0 0 = 3 /\ percentile [3; 5; 9] 100 0 = 9 /\ percentile [3; 5; 9] 50 0 = 5.
Proof. vm_compute. repeat split. Qed.

Definition sample_guard (s : list Z) : Prop :=
  Sorted Z.le s /\ s <> [] /\ Forall (fun x => 0 <= x <= 2 ^ 53) s /\ Z.of_nat (length s) <= 2 ^ 53.

(* it stays between them for every p (every finite or infinite binary64 p = pm * 2^pe) *)
Theorem c15_percentile_between : forall s pm pe,
  sample_guard s -> sd_min s <= percentile s pm pe <= sd_max s.
Proof. exact percentile_between. Qed.

(* and is non-decreasing in p *)
Theorem c15_percentile_monotone : forall s pm1 pe1 pm2 pe2,
  sample_guard s -> Bleb (f_of_me pm1 pe1) (f_of_me pm2 pe2) = true ->
  percentile s pm1 pe1 <= percentile s pm2 pe2.
Proof. exact percentile_monotone. Qed.

(* the published summary labels pNN with Percentile(NN) *)
Theorem c15_var_labels : forall s,
  var_summary s = [ (0%nat, sd_min s); (25%nat, percentile s 25 0); (50%nat, percentile s 50 0);
                    (90%nat, percentile s 90 0); (99%nat, percentile s 99 0); (100%nat, sd_max s);
                    (1000%nat, sd_mean s) ].
Proof. reflexivity. Qed.

Print Assumptions c15_snapshot.
Print Assumptions c15_ignored.
Print Assumptions c15_total_functions.
Print Assumptions c15_mean_between.
Print Assumptions c15_p0_min.
Print Assumptions c15_p100_max.
Print Assumptions c15_p0_p100.
Print Assumptions c15_percentile_between.
Print Assumptions c15_percentile_monotone.
Print Assumptions c15_var_labels.
