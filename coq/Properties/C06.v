(* Properties/C06.v — return-value contract: errors pass through unchanged,
   fallbacks decide.  Error values are symbolic names compared by identity
   (the harness allocates one Go error value per name and compares with ==).
   Statements only. *)
From CV Require Import Base.Prelude Seq.RollingCounter Seq.TimedCheck Seq.Logic Seq.Circuit Seq.CircuitSpec Seq.C06_Proofs.

Section C06.
Variable st : static.

(* the run function and the fallback are each invoked at most once per call *)
Theorem c06_at_most_once : forall s id c h2,
  find_call id s = None -> ~ In id (begin_ids h2) ->
  let o := all_obs (trace_from st s (Begin id c :: h2)) in
  (length (run_invocations id o) <= 1)%nat /\ (length (fb_invocations id o) <= 1)%nat /\
  (length (returns id o) <= 1)%nat.
Proof. exact (at_most_once st). Qed.

(* a nil run function: Execute returns nil at once; nothing else is observable *)
Theorem c06_nil_run : forall s id c,
  enabled st s -> c_has_run c = false ->
  step st s (Begin id c) = (s, [OReturned id VNil false; reading st s]).
Proof. exact (nil_run st). Qed.

(* the run step ends with value r (not a panic): what Execute does next *)
Theorem c06_after_run : forall s id e cs start expected derived,
  find_call id s = Some cs -> cs_phase cs = PRun start expected derived ->
  res_panics (e_res e) = false ->
  let o := snd (step st s (EndRun id e)) in
  let r := e_res e in
  if res_is_nil r then
    (* nil from the run function is nil from Execute, even when the call is counted as timed out *)
    (exists a, returns id o = [(VNil, a)]) /\ fb_invocations id o = []
  else if res_is_bad r then
    (* bad requests never reach the fallback: the very error value comes back *)
    (exists a, returns id o = [(res_val r, a)]) /\ fb_invocations id o = []
  else if fb_available s (cs_call cs) then
    if fb_limit_hit s
    then (exists a, returns id o = [(VFbThrottled, a)]) /\ fb_invocations id o = []
    else fb_invocations id o = [(res_val r, true)] /\ returns id o = []   (* that very error, the caller's context *)
  else (exists a, returns id o = [(res_val r, a)]) /\ fb_invocations id o = [].  (* unchanged *)
Proof. exact (after_run st). Qed.

(* Execute returns exactly the fallback's result *)
Theorem c06_after_fallback : forall s id f cs fbstart ran derived,
  find_call id s = Some cs -> cs_phase cs = PFb fbstart ran derived ->
  exists a, returns id (snd (step st s (EndFb id f))) =
            [(match f with FNil => VNil | FErr k => VFb k | FPanic v => VPanic v end, a)].
Proof. exact (after_fallback st). Qed.

(* library rejections follow the same fallback rules (stated in C01 for the open
   state): here for the concurrency limit *)
Theorem c06_throttled : forall s id c,
  enabled st s -> c_has_run c = true -> gate s c = GReject ->
  let o := snd (step st s (Begin id c)) in
  run_invocations id o = [] /\ refusal_outcome s id c VThrottled o.
Proof. exact (throttled st). Qed.

(* Run(ctx, f) behaves as Execute(ctx, f, nil): same observations over every continuation *)
Definition as_execute_nil (c : call) : call :=
  {| c_has_run := c_has_run c; c_has_fb := false; c_entry := EExecute; c_deadline := c_deadline c;
     c_done := c_done c; c_allow := c_allow c; c_prevent := c_prevent c |}.
Theorem c06_run_is_execute_nil : forall s id c h2,
  c_entry c = ERun ->
  map snd (trace_from st s (Begin id c :: h2)) = map snd (trace_from st s (Begin id (as_execute_nil c) :: h2)).
Proof. exact (run_is_execute_nil st). Qed.
End C06.

Print Assumptions c06_at_most_once.
Print Assumptions c06_nil_run.
Print Assumptions c06_after_run.
Print Assumptions c06_after_fallback.
Print Assumptions c06_throttled.
Print Assumptions c06_run_is_execute_nil.
