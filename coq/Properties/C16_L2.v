(* Properties/C16_L2.v — TimedCheck never lets more than its budget through per
   sleep period, under EVERY interleaving.  Level-2 model
   (Conc/TimedCheckConc.v): any number of concurrent Check / SleepStart calls and
   timer callbacks (current or stale), every interleaving of the fast-fail load,
   the read-locked test, the write-locked re-test / count / re-arm and the
   callback's version test and store; every timestamp order; every budget
   including 0 and negatives.  The ghost log records re-arms and write-locked
   tests in the order they happened.  Statements only. *)
From CV Require Import Conc.Sched Conc.TimedCheckConc Conc.TimedCheckConc_Proofs.

Section C16L2.
Variables (sh0 : kshared) (pool0 : list kthread).
Hypothesis Hpool : all_fresh_k pool0.
Hypothesis Hfree : k_writer sh0 = false /\ k_readers sh0 = 0 /\ k_log sh0 = [].
Hypothesis Hcount : 0 <= k_count sh0 < Z.max 1 (k_budget sh0).

(* the RWMutex is used correctly: one writer or any number of readers, and the plain fields
   nextOpenTime / currentlyAllowedEventCount only change while the write lock is held *)
Theorem c16_l2_exclusion : forall s, reach kstep (sh0, pool0) s ->
  cnt holds_write (snd s) = (if k_writer (fst s) then 1 else 0) /\
  cnt holds_read (snd s) = k_readers (fst s) /\
  (k_writer (fst s) = true -> k_readers (fst s) = 0).
Proof. exact (l2_exclusion sh0 pool0 Hpool Hfree Hcount). Qed.

(* nextOpenTime is always the deadline t + d of the latest re-arm (d the sleep duration it read) *)
Theorem c16_l2_deadline : forall s, reach kstep (sh0, pool0) s ->
  k_next (fst s) = match last_rearm_deadline (k_log (fst s)) with Some D => D | None => k_next sh0 end.
Proof. exact (l2_deadline sh0 pool0 Hpool Hfree Hcount). Qed.

(* a Check answers true only from its write-locked test, and only when its stamp is not earlier
   than nextOpenTime at that moment -- whatever the fast-fail flag says, i.e. wherever callback
   steps (also of stale versions) are placed: clearing the flag never admits anybody early *)
Theorem c16_l2_closed_until : forall s, reach kstep (sh0, pool0) s ->
  Forall (fun e => match e with ETest now next true => next <= now | _ => True end) (k_log (fst s)) /\
  Forall (fun t => match k_kind t, k_pc t with
                   | KCheck _, (KFinish 1 | KDone 1) => exists now next, In (ETest now next true) (k_log (fst s)) /\ now_of (k_kind t) = now
                   | _, _ => True end) (snd s).
Proof. exact (l2_closed_until sh0 pool0 Hpool Hfree Hcount). Qed.

(* between two re-armings at most max(1, EventCountToAllow) checks succeed *)
Theorem c16_l2_budget : forall s, reach kstep (sh0, pool0) s ->
  k_count (fst s) = (if rearmed (k_log (fst s)) then 0 else k_count sh0) + successes_since_rearm (k_log (fst s)) /\
  0 <= k_count (fst s) <= Z.max 1 (k_budget sh0) /\
  (k_writer (fst s) = false -> k_count (fst s) < Z.max 1 (k_budget sh0)).
Proof. exact (l2_budget sh0 pool0 Hpool Hfree Hcount). Qed.
End C16L2.

(* non-vacuity: a stale callback passes its version test, a newer SleepStart re-arms, the stale
   callback then clears the fast-fail flag -- and the Check stamped inside the new sleep is still refused *)
Example c16_l2_example :
  let pool := [kthread0 (KCallback 1); kthread0 (KSleepStart 5); kthread0 (KCheck 12)] in
  let '(tr, fin, ok) := replay kstep [0;1;1;1;1;1;1;0;2;2;2;2]%nat (kinit true 1 10 1 10 0) pool in
  ok = true /\ k_ff (fst fin) = false /\ k_next (fst fin) = 15 /\ k_log (fst fin) = [ERearm 5 10] /\
  nth_error (snd fin) 2 = Some {| k_kind := KCheck 12; k_pc := KDone 0 |}.
Proof. vm_compute. repeat split. Qed.

Print Assumptions c16_l2_exclusion.
Print Assumptions c16_l2_deadline.
Print Assumptions c16_l2_closed_until.
Print Assumptions c16_l2_budget.
Print Assumptions c16_l2_example.
