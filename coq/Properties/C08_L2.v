(* Properties/C08_L2.v — "every override takes effect for all calls that start after
   SetConfigThreadSafe returns", at the granularity of the individual atomic stores
   and loads (level-2 model Conc/Transition.v, any number of concurrent callers,
   manual open/close calls and readers).  Statements only. *)
From CV Require Import Conc.Sched Conc.Transition Conc.Transition_Proofs.

(* once the (only) SetConfigThreadSafe has returned, every later read of the
   overrides -- hence every call that starts afterwards -- sees the new values *)
Theorem c08_l2_takes_effect : forall fo fc pool0 i fc' fo' s t,
  all_fresh_t pool0 -> nth_error pool0 i = Some (tthread0 (KSet fc' fo')) ->
  (forall j u, nth_error pool0 j = Some u -> j <> i -> is_set u = false) ->
  reach tstep (tinit fo fc, pool0) s -> nth_error (snd s) i = Some t -> th_done t = true ->
  t_fo (fst s) = fo' /\ t_fc (fst s) = fc'.
Proof. exact l2_takes_effect. Qed.


Print Assumptions c08_l2_takes_effect.
