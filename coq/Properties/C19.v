(* Properties/C19.v — config merging only fills gaps, for every field of every
   config type.  The property quantifies over PROGRAMS ("every exported field of
   every config type, including fields added later"), so the records, the Merge
   functions and the per-field statements are regenerated from /repo's working
   tree on every run (Gen/MergeGen.v, by harness/cmd/translate); the statement a
   field must satisfy is chosen by the field's TYPE (Base/MergeBase.v):
     numbers              fills_gap_num   kept if <> 0, else other's value
     funcs/interfaces     fills_gap_tok   kept if non-nil, else other's value
     boolean switches     switch_or       set if either side set them
     collector lists      list_appends    receiver then other
     custom-config maps   map_unites      union, receiver's entries win
     nested config        nested_merges   merged by the nested type's Merge
   A field Merge forgets or overwrites makes its generated lemma unprovable.
   This file is compiled by `bin/check C19` after regeneration (it is not part
   of the static build).  Statements only. *)
From CV Require Import Base.MergeBase Gen.MergeGen.

Theorem c19_all_fields : all_fields_statement.
Proof. exact all_fields_proof. Qed.

(* the map idiom computes the receiver-wins union (keys of a Go map are distinct) *)
Theorem c19_map_union : forall o r k, NoDup (map fst o) ->
  lookup k (map_union r o) = match lookup k r with Some v => Some v | None => lookup k o end.
Proof. exact lookup_union. Qed.

Print Assumptions c19_all_fields.
Print Assumptions c19_map_union.
