(* Properties/C08.v — operator overrides and pass-through modes do exactly what
   they say.  Level-1 statements; "takes effect for all calls that start after
   SetConfigThreadSafe returns" under interleavings is in Conc.  Statements only. *)
From CV Require Import Base.Prelude Seq.RollingCounter Seq.TimedCheck Seq.Logic Seq.Circuit Seq.CircuitSpec Seq.C08_Proofs.

Definition is_setconfig (ev : event) : bool := match ev with SetConfig _ => true | _ => false end.

Section C08.
Variable st : static.

(* ForceOpen: IsOpen is true and every call is shed, whatever the close logic
   (any closer state, any custom answer); it wins over ForcedClosed *)
Theorem c08_force_open : forall s c,
  l_force_open (cfg s) = true -> is_open s = true /\ shed_by_open s c = true /\ gate s c = GShed.
Proof. exact force_open_sheds. Qed.

(* ForcedClosed (without ForceOpen): IsOpen is false and the open state refuses no call *)
Theorem c08_forced_closed : forall s c,
  l_forced_closed (cfg s) = true -> l_force_open (cfg s) = false ->
  is_open s = false /\ shed_by_open s c = false /\
  (opener_prevent (c_prevent c) (opn s) = false -> gate s c = if run_limit_hit s then GReject else GRun).
Proof. exact forced_closed_admits. Qed.

(* under either override no event other than a reconfiguration changes the
   underlying state or notifies anybody: failures and OpenCircuit cannot open a
   forced-closed circuit, successes and CloseCircuit cannot close a forced-open one *)
Theorem c08_underlying_frozen : forall s ev,
  (l_forced_closed (cfg s) = true \/ l_force_open (cfg s) = true) -> is_setconfig ev = false ->
  flag (fst (step st s ev)) = flag s /\ any_circ_ev (snd (step st s ev)) = [].
Proof. exact (underlying_frozen st). Qed.

(* changing the overrides never touches the underlying state, so clearing them resumes it *)
Theorem c08_clear_resumes : forall s l,
  let s' := fst (step st s (SetConfig l)) in
  flag s' = flag s /\ cfg s' = l /\
  (l_force_open l = false -> l_forced_closed l = false -> is_open s' = flag s) /\
  any_circ_ev (snd (step st s (SetConfig l))) = [].
Proof. exact (clear_resumes st). Qed.

(* Disabled / nil / zero-value circuit: the function runs with the caller's
   context and its result (or panic) is the call's result; no event, no gauge, no
   limit, no fallback, and nothing of the circuit's state moves *)
Theorem c08_passthrough_begin : forall s id c,
  passthrough st s -> c_has_run c = true ->
  let s' := fst (step st s (Begin id c)) in
  snd (step st s (Begin id c)) = [ORunInvoked id false (c_deadline c); reading st s'] /\
  cmds s' = cmds s /\ fbs s' = fbs s /\ flag s' = flag s /\ opn s' = opn s /\ cls s' = cls s /\ cfg s' = cfg s /\
  exists cs, find_call id s' = Some cs /\ cs_phase cs = PPass.
Proof. exact (passthrough_begin st). Qed.
Theorem c08_passthrough_end : forall s id e cs,
  find_call id s = Some cs -> cs_phase cs = PPass ->
  let s' := fst (step st s (EndRun id e)) in
  snd (step st s (EndRun id e)) = [ORunEnd id (cs_done cs); OReturned id (res_val (e_res e)) (cs_done cs); reading st s'] /\
  cmds s' = cmds s /\ fbs s' = fbs s /\ flag s' = flag s /\ opn s' = opn s /\ cls s' = cls s /\ cfg s' = cfg s.
Proof. exact (passthrough_end st). Qed.
End C08.

Print Assumptions c08_force_open.
Print Assumptions c08_forced_closed.
Print Assumptions c08_underlying_frozen.
Print Assumptions c08_clear_resumes.
Print Assumptions c08_passthrough_begin.
Print Assumptions c08_passthrough_end.
