(* Properties/C09_L2.v — Opened/Closed notifications mirror real transitions
   one-to-one, under EVERY interleaving.  Level-2 model (Conc/Transition.v): any
   number of concurrent OpenCircuit / CloseCircuit calls, failing calls whose open
   logic says ShouldOpen, succeeding probes whose close logic says ShouldClose,
   override changes and IsOpen readers, at the granularity of the individual
   loads, stores, mutex operations and notifications.  (On the pinned tree the
   transition was test / notify / set without mutual exclusion and these
   statements were false -- D10, repaired.)  Statements only. *)
From CV Require Import Conc.Sched Conc.Transition Conc.Transition_Proofs.

Section C09L2.
Variables (fo fc : bool) (pool0 : list tthread).
Hypothesis Hpool : all_fresh_t pool0.

(* the log of notifications strictly alternates, starting with Opened *)
Theorem c09_l2_alternate : forall s,
  reach tstep (tinit fo fc, pool0) s -> alternates_from DOpen (t_log (fst s)).
Proof. exact (l2_alternate fo fc pool0 Hpool). Qed.

(* transitions are made one at a time: at most one thread is inside the section *)
Theorem c09_l2_mutex : forall s,
  reach tstep (tinit fo fc, pool0) s -> cnt in_section (snd s) = if t_held (fst s) then 1 else 0.
Proof. exact (l2_mutex fo fc pool0 Hpool). Qed.

(* whenever nobody is inside the section the underlying state is open exactly when the last
   notification was Opened ... *)
Theorem c09_l2_mirror : forall s,
  reach tstep (tinit fo fc, pool0) s -> t_held (fst s) = false ->
  t_open (fst s) = match last_dir (t_log (fst s)) with Some DOpen => true | _ => false end.
Proof. exact (l2_mirror fo fc pool0 Hpool). Qed.

(* ... in particular when the circuit is quiescent; not overridden, IsOpen is that state *)
Theorem c09_l2_quiescent : forall s,
  reach tstep (tinit fo fc, pool0) s -> Forall (fun t => th_done t = true) (snd s) ->
  t_held (fst s) = false /\
  (t_fo (fst s) = false -> t_fc (fst s) = false ->
   is_open_view (fst s) = match last_dir (t_log (fst s)) with Some DOpen => true | _ => false end).
Proof. exact (l2_quiescent fo fc pool0 Hpool). Qed.
End C09L2.

(* non-vacuity: two racing OpenCircuit calls, the loser finds the transition already made *)
Example c09_l2_example :
  let '(tr, fin, ok) := replay tstep [0;1;0;1;0;1;0;1;0;0;0;0;0;1;1;1;1;0]%nat (tinit false false) [tthread0 KOpen; tthread0 KOpen] in
  ok = true /\ t_log (fst fin) = [DOpen] /\ t_open (fst fin) = true /\ Forall (fun t => th_done t = true) (snd fin).
Proof. vm_compute. repeat split; repeat constructor. Qed.

Print Assumptions c09_l2_alternate.
Print Assumptions c09_l2_mutex.
Print Assumptions c09_l2_mirror.
Print Assumptions c09_l2_quiescent.
Print Assumptions c09_l2_example.
