(* Properties/C03.v — recovery: sleep window, bounded half-open probes, close on
   successes (hystrix closer).  Level 1: every history of probe outcomes, clock
   advances and timer-callback firings, every SleepWindow / HalfOpenAttempts /
   RequiredConcurrentSuccessful.  At level 1 stamps reach the gate in clock
   order, so the budget clause holds in full; with a caller stalled between
   its clock reading and the gate it is FALSE (D3, known finding):
   c03_budget_out_of_order_refuted (budget 2, stamps out of order) and
   c03_budget_stalled_caller_refuted (budget 1, stall longer than SleepWindow);
   family `probe` replays both on the real circuit.  Statements only. *)
From CV Require Import Base.Prelude Seq.RollingCounter Seq.TimedCheck Seq.Logic Seq.Circuit Seq.CircuitSpec Seq.LogicSpec Seq.C03_Proofs Seq.C03_Stall_Proofs.

Section C03.
Variable st : static.

(* no call that starts after the opening and within SleepWindow of it is admitted,
   wherever the timer callbacks fire *)
Theorem c03_sleep_window : forall l op sleep half req t0 h T c,
  let s0 := init_state l op (closer_init_hystrix sleep half req) t0 in
  let s := state_after st s0 h in
  ticks_forward h ->
  flag s = true -> last_opened (all_obs (trace_from st s0 h)) = Some T ->
  clock s < T + sleep -> is_open s = true ->
  shed_by_open s c = true.
Proof. exact (sleep_window st). Qed.

(* the calls admitted while open in any time span shorter than SleepWindow number at
   most max(1, HalfOpenAttempts): any max(1,k)+1 consecutive admissions span >= SleepWindow *)
Theorem c03_budget_per_span : forall l op sleep half req t0 h i,
  let s0 := init_state l op (closer_init_hystrix sleep half req) t0 in
  let A := probe_stamps (trace_from st s0 h) in
  ticks_forward h ->
  (i + Z.to_nat (Z.max 1 half) < length A)%nat ->
  sleep <= nth (i + Z.to_nat (Z.max 1 half)) A 0 - nth i A 0.
Proof. exact (budget_per_span st). Qed.

(* a failed probe (failure or timeout) leaves it open *)
Theorem c03_failed_probe_keeps_open : forall s id e cs start expected derived,
  find_call id s = Some cs -> cs_phase cs = PRun start expected derived -> res_panics (e_res e) = false ->
  flag s = true -> is_error (end_kind s cs e) = true ->
  flag (fst (step st s (EndRun id e))) = true /\ any_circ_ev (snd (step st s (EndRun id e))) = [].
Proof. exact (failed_probe_keeps_open st). Qed.

(* it closes at a success completion, unless forced open, exactly when the closer has then
   seen max(1, Required) consecutive successes ... *)
Theorem c03_closes_iff : forall s id e cs start expected derived t succ need,
  find_call id s = Some cs -> cs_phase cs = PRun start expected derived -> res_panics (e_res e) = false ->
  flag s = true -> not_overridden s -> end_kind s cs e = KSuccess ->
  cls s = ClHystrix t succ need -> 0 <= succ ->
  let s' := fst (step st s (EndRun id e)) in
  flag s' = negb (Z.max 1 need <=? succ + 1) /\
  forall w, In w (circ_collectors st) ->
    circ_evs w (snd (step st s (EndRun id e))) = if flag s' then [] else [(Closed, clock s)].
Proof. exact (closes_iff st). Qed.
(* ... where "seen" means: successes delivered since the opening with no failure or timeout
   in between -- on the history of what the closer was told *)
Theorem c03_closer_counts : forall sleep half req evs t succ need,
  closer_after (closer_init_hystrix sleep half req) evs = ClHystrix t succ need ->
  need = req /\ succ = trailing_successes evs /\ 0 <= succ.
Proof. exact closer_counts. Qed.
Theorem c03_closer_fed_by_observations : forall s h,
  cls (state_after st s h) = closer_after (cls s) (closer_view (trace_from st s h)).
Proof. exact (closer_fed_by_observations st). Qed.
(* forced open: successes do not close it *)
Theorem c03_forced_open_stays : forall s id e,
  l_force_open (cfg s) = true ->
  flag (fst (step st s (EndRun id e))) = flag s /\ any_circ_ev (snd (step st s (EndRun id e))) = [].
Proof. exact (forced_open_stays st). Qed.
(* CloseCircuit closes an open circuit that is not forced open *)
Theorem c03_close_circuit : forall s w,
  is_open s = true -> l_force_open (cfg s) = false -> In w (circ_collectors st) ->
  flag (fst (step st s CloseCircuit)) = false /\ circ_evs w (snd (step st s CloseCircuit)) = [(Closed, clock s)].
Proof. exact (close_circuit_closes st). Qed.
(* ... and a closed, not overridden circuit admits all calls again *)
Theorem c03_then_admits_all : forall s c, flag s = false -> not_overridden s -> shed_by_open s c = false.
Proof. exact then_admits_all. Qed.
End C03.

(* D3: with HalfOpenAttempts = 2 and SleepWindow = 10, stamps reaching the check out of
   order (109 admitted first, then the delayed 100 exhausts the budget and re-arms from
   ITS stamp) let 109, 110 and 111 through: three admissions inside a span of 2 *)
Theorem c03_budget_out_of_order_refuted :
  tc_run 10 2 [TSleepStart 90; TFire 0; TCheck 109; TCheck 100; TFire 1; TCheck 109; TCheck 110; TCheck 111]
  = [TOArmed 10; TONone; TOBool true None; TOBool true (Some 10); TONone;
     TOBool false None; TOBool true None; TOBool true (Some 10)].
Proof. vm_compute. reflexivity. Qed.

(* ... and how much of the budget clause survives a stalled caller: at the gate itself (the closer's Allow is this
   Check, c03_closer_fed_by_observations), for every history of arrivals (clock at the gate, operation) in which
   nobody was stalled for longer than delta between its clock reading and the gate, any max(1, budget) + 1
   consecutive admissions lie at least sleep - delta apart in gate-arrival time.  delta = 0: stamps in clock order. *)
Theorem c03_budget_bounded_stall : forall sleep budget delta arrivals start,
  Forall (op_ok delta) arrivals -> mono start arrivals ->
  spaced sleep budget delta (admitted_at' sleep budget arrivals).
Proof. exact budget_bounded_stall. Qed.
(* the two D3 witnesses are stalls of 9 and 11 against a sleep of 10: outside the bound, as they must be *)
Example c03_bounded_stall_example :
  Forall (op_ok 1) [(10, TSleepStart 10); (20, TFire 0); (21, TCheck 20); (21, TFire 1); (31, TCheck 30)] /\
  admitted_at' 10 1 [(10, TSleepStart 10); (20, TFire 0); (21, TCheck 20); (21, TFire 1); (31, TCheck 30)] = [21; 31].
Proof. split; [repeat constructor; cbn; lia | vm_compute; reflexivity]. Qed.

(* D3 needs no budget above 1: a caller that read the clock at 20 is stalled until the clock shows 31;
   admitted on its stale stamp it re-arms the window to 30, so a caller reading 31 is admitted at once.
   Pairs are (clock when the call reaches the gate, the call): two admissions at the same instant. *)
Definition admitted_at (sleep budget : Z) (arrivals : list (Z * tcop)) : list Z :=
  map fst (filter (fun p => succeeded (snd p)) (combine (map fst arrivals) (tc_run sleep budget (map snd arrivals)))).
Theorem c03_budget_stalled_caller_refuted :
  admitted_at 10 1 [(10, TSleepStart 10); (20, TFire 0); (31, TCheck 20); (31, TFire 1); (31, TCheck 31)] = [31; 31].
Proof. vm_compute. reflexivity. Qed.

Print Assumptions c03_sleep_window.
Print Assumptions c03_budget_per_span.
Print Assumptions c03_failed_probe_keeps_open.
Print Assumptions c03_closes_iff.
Print Assumptions c03_closer_counts.
Print Assumptions c03_closer_fed_by_observations.
Print Assumptions c03_forced_open_stays.
Print Assumptions c03_close_circuit.
Print Assumptions c03_then_admits_all.
Print Assumptions c03_budget_bounded_stall.
Print Assumptions c03_bounded_stall_example.
Print Assumptions c03_budget_out_of_order_refuted.
Print Assumptions c03_budget_stalled_caller_refuted.
