(* Properties/C09.v — Opened/Closed notifications mirror real transitions
   one-to-one.  Level 1 (every history of outcomes, manual open/close and
   override changes); the racing transitions are the level-2 model
   (Properties/C09_L2.v).  Statements only. *)
From CV Require Import Base.Prelude Seq.RollingCounter Seq.TimedCheck Seq.Logic Seq.Circuit Seq.CircuitSpec Seq.LogicSpec Seq.C09_Proofs.

Section C09.
Variable st : static.

(* each event notifies every circuit-level collector, the opener and the closer of at
   most one transition, and exactly when the underlying state really changes *)
Theorem c09_step_shape : forall s ev w,
  In w (circ_collectors st) ->
  let s' := fst (step st s ev) in let o := snd (step st s ev) in
  (circ_evs w o = [] /\ flag s' = flag s) \/
  (circ_evs w o = [(Opened, clock s)] /\ flag s = false /\ flag s' = true) \/
  (circ_evs w o = [(Closed, clock s)] /\ flag s = true /\ flag s' = false).
Proof. exact (step_shape st). Qed.

(* so over every history the notifications strictly alternate starting with Opened, and
   the underlying state is open exactly when the last notification was Opened *)
Theorem c09_alternate : forall s0 h w,
  flag s0 = false -> In w (circ_collectors st) ->
  let l := map fst (circ_evs w (all_obs (trace_from st s0 h))) in
  alternates Opened l /\
  flag (state_after st s0 h) = match last_kind l with Some Opened => true | _ => false end.
Proof. exact (alternate st). Qed.

(* not overridden: IsOpen is that underlying state *)
Theorem c09_quiescent : forall s, not_overridden s -> is_open s = flag s.
Proof. exact quiescent. Qed.

(* all of them are told the same *)
Theorem c09_identical : forall s h w1 w2,
  In w1 (circ_collectors st) -> In w2 (circ_collectors st) ->
  circ_evs w1 (all_obs (trace_from st s h)) = circ_evs w2 (all_obs (trace_from st s h)).
Proof. exact (identical_circ st). Qed.

(* calls that change nothing notify nobody and change nothing *)
Theorem c09_open_noop : forall s,
  (is_open s = true \/ l_forced_closed (cfg s) = true) ->
  step st s OpenCircuit = (s, [reading st s]).
Proof. exact (open_noop st). Qed.
Theorem c09_close_noop : forall s,
  (is_open s = false \/ l_force_open (cfg s) = true) ->
  step st s CloseCircuit = (s, [reading st s]).
Proof. exact (close_noop st). Qed.
End C09.

Print Assumptions c09_step_shape.
Print Assumptions c09_alternate.
Print Assumptions c09_quiescent.
Print Assumptions c09_identical.
Print Assumptions c09_open_noop.
Print Assumptions c09_close_noop.
