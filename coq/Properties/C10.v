(* Properties/C10.v — panics pass through to the caller and leave the circuit
   usable.  Level-1 statements (the caller's-goroutine clause for Go is in the
   GoWrapper model, Properties/C18.v; "concurrently with other calls" at atomic
   granularity is c04_quiescent_zero).  Statements only. *)
From CV Require Import Base.Prelude Seq.RollingCounter Seq.TimedCheck Seq.Logic Seq.Circuit Seq.CircuitSpec Seq.C10_Proofs.

Definition panic_end (v : nat) : endinfo := {| e_res := RPanic v; e_should_open := false; e_should_close := false |}.

Section C10.
Variable st : static.

(* the same panic value reaches the caller, from the run function and from the fallback,
   on an enabled circuit and in pass-through mode *)
Theorem c10_value_run : forall s id e cs v,
  find_call id s = Some cs -> (exists a b c, cs_phase cs = PRun a b c) \/ cs_phase cs = PPass ->
  e_res e = RPanic v ->
  exists a, returns id (snd (step st s (EndRun id e))) = [(VPanic v, a)].
Proof. exact (value_run st). Qed.
Theorem c10_value_fallback : forall s id cs v a b c,
  find_call id s = Some cs -> cs_phase cs = PFb a b c ->
  exists x, returns id (snd (step st s (EndFb id (FPanic v)))) = [(VPanic v, x)].
Proof. exact (value_fallback st). Qed.

(* a panicking run function: the gauge is released, no run / fallback / circuit event is
   recorded, the fallback is not invoked, and nothing else of the state moves *)
Theorem c10_run_panic_effect : forall s id e cs start expected derived v,
  find_call id s = Some cs -> cs_phase cs = PRun start expected derived -> e_res e = RPanic v ->
  let s' := fst (step st s (EndRun id e)) in
  let o := snd (step st s (EndRun id e)) in
  cmds s' = cmds s - 1 /\ fbs s' = fbs s /\ flag s' = flag s /\ cfg s' = cfg s /\
  opn s' = opn s /\ cls s' = cls s /\ clock s' = clock s /\
  any_run_ev o = [] /\ any_fb_ev o = [] /\ any_circ_ev o = [] /\ fb_invocations id o = [] /\
  find_call id s' = None.
Proof. exact (run_panic_effect st). Qed.

Theorem c10_fallback_panic_effect : forall s id cs a b c v,
  find_call id s = Some cs -> cs_phase cs = PFb a b c ->
  let s' := fst (step st s (EndFb id (FPanic v))) in
  let o := snd (step st s (EndFb id (FPanic v))) in
  fbs s' = fbs s - 1 /\ cmds s' = cmds s /\ flag s' = flag s /\ cfg s' = cfg s /\
  opn s' = opn s /\ cls s' = cls s /\ clock s' = clock s /\
  any_run_ev o = [] /\ any_fb_ev o = [] /\ any_circ_ev o = [] /\ find_call id s' = None.
Proof. exact (fallback_panic_effect st). Qed.

(* "later calls behave as if the panicking call had not happened": the state after
   Begin; EndRun(panic) equals the state before, except for what the close logic's
   Allow recorded when it admitted the call as a half-open probe (full statement:
   s2 = s; it holds outright whenever the circuit was not open, and up to the
   closer otherwise -- see c10_as_if_absent_refuted) *)
Definition same_but_closer (a b : state) : Prop :=
  cfg a = cfg b /\ flag a = flag b /\ cmds a = cmds b /\ fbs a = fbs b /\ opn a = opn b /\
  calls a = calls b /\ clock a = clock b.

Theorem c10_as_if_absent_partial : forall s id c v,
  enabled st s -> find_call id s = None -> c_has_run c = true -> gate s c = GRun ->
  let s1 := fst (step st s (Begin id c)) in
  let s2 := fst (step st s1 (EndRun id (panic_end v))) in
  same_but_closer s2 s /\
  cls s2 = fst (fst (if is_open s then closer_allow (clock s) (c_allow c) (cls s) else (cls s, true, []))) /\
  (is_open s = false -> s2 = s).
Proof. exact (as_if_absent_partial st). Qed.

End C10.

(* D11 (known finding): with the hystrix closer a half-open probe that panics has
   spent the probe slot: the next call is shed where, had the panicking call not
   happened, it would have been the probe *)
Theorem c10_as_if_absent_refuted :
  exists (st : static) (s : state) (id : nat) (c : call) (v : nat),
    enabled st s /\ find_call id s = None /\ c_has_run c = true /\
    let s2 := fst (step st (fst (step st s (Begin id c))) (EndRun id (panic_end v))) in
    gate s c = GRun /\ gate s2 c = GShed.
Proof. exact as_if_absent_refuted. Qed.

Print Assumptions c10_value_run.
Print Assumptions c10_value_fallback.
Print Assumptions c10_run_panic_effect.
Print Assumptions c10_fallback_panic_effect.
Print Assumptions c10_as_if_absent_partial.
Print Assumptions c10_as_if_absent_refuted.
