(* Properties/C20.v — metric consumers agree with what happened.  The consumers
   are ordinary collectors, so their input is the event sequence that C05
   characterises (exactly one run event per call, of the right kind, with the
   segment's clock and the elapsed time; one fallback event per fallback attempt).
   For EVERY such sequence, every stats window (n > 0 buckets of width w > 0) and
   every SLO setting.  The rolling clauses assume time flows forward from the
   stats' creation (c13 covers arbitrary stamps on each counter separately).
   ErrorPercentage is IEEE binary64 (Flocq).  Statements only. *)
From Coq Require Import ZArith List.
From Flocq Require Import IEEE754.BinarySingleNaN.
From CV Require Import Base.Prelude Seq.RollingCounter Seq.RollingPercentile Seq.PercentileFloat Seq.Logic Seq.Circuit Seq.Stats Seq.C20_Proofs.

Section C20.
Variables (n w start pn pw pcap healthy : Z).
Hypothesis Hn : 0 < n.
Hypothesis Hw : 0 < w.
Notation after evs := (stats_after n w start pn pw pcap healthy evs).

(* per outcome kind, the total equals the number of calls of that kind -- run and fallback *)
Theorem c20_totals : forall evs i k, nth_error kinds i = Some k ->
  nthz (totals (st_run (after evs))) i = count_run k evs.
Proof. exact (totals_spec n w start pn pw pcap healthy Hn Hw). Qed.
Theorem c20_fb_totals : forall evs i k, nth_error fkinds i = Some k ->
  nthz (totals (st_fb (after evs))) i = count_fb k evs.
Proof. exact (fb_totals_spec n w start pn pw pcap healthy Hn Hw). Qed.

(* and the rolling sum equals those inside the window ending at the reader's time *)
Theorem c20_rolling : forall evs now i k, forward_from start evs now -> nth_error kinds i = Some k ->
  nthz (rollings n w start now (st_run (after evs))) i = count_run_in n w start now k evs.
Proof. exact (rolling_spec n w start pn pw pcap healthy Hn Hw). Qed.
Theorem c20_fb_rolling : forall evs now i k, forward_from start evs now -> nth_error fkinds i = Some k ->
  nthz (rollings n w start now (st_fb (after evs))) i = count_fb_in n w start now k evs.
Proof. exact (fb_rolling_spec n w start pn pw pcap healthy Hn Hw). Qed.

(* ErrorPercentage = (failures+timeouts) / (successes+failures+timeouts) in the window, as the
   binary64 quotient of the two counts; zero when empty *)
Theorem c20_error_percentage : forall evs now, forward_from start evs now ->
  let s := count_run_in n w start now KSuccess evs in
  let f := count_run_in n w start now KFailure evs in
  let t := count_run_in n w start now KTimeout evs in
  error_percentage n w start now (after evs) =
  if s + f + t =? 0 then f_of_Z 0 else Bdiv mode_NE (f_of_Z (f + t)) (f_of_Z (s + f + t)).
Proof. exact (error_percentage_spec n w start pn pw pcap healthy Hn Hw). Qed.

(* the SLO tracker: a pass for each success within MaximumHealthyTime; a fail for each slower
   success, failure, timeout, rejection, short-circuit and interrupt longer than that time;
   and nothing else (bad requests and fast interrupts move neither count) *)
Theorem c20_slo : forall evs,
  st_pass (after evs) = slo_passes healthy evs /\ st_fail (after evs) = slo_fails healthy evs.
Proof. exact (slo_spec n w start pn pw pcap healthy). Qed.
Theorem c20_slo_table : forall d,
  slo_pass healthy KSuccess d = (d <=? healthy) /\ slo_fail healthy KSuccess d = negb (d <=? healthy) /\
  (forall k, In k [KFailure; KTimeout; KReject; KShort] -> slo_pass healthy k d = false /\ slo_fail healthy k d = true) /\
  slo_pass healthy KInterrupt d = false /\ slo_fail healthy KInterrupt d = (healthy <? d) /\
  slo_pass healthy KBadRequest d = false /\ slo_fail healthy KBadRequest d = false.
Proof. exact (slo_table healthy). Qed.

(* the event-stream record is computed from those same numbers, with the IsOpen value it is given *)
Theorem c20_stream_record : forall evs now is_open, forward_from start evs now ->
  let cin k := count_run_in n w start now k evs in
  let ctot k := count_run k evs in
  let r := stream_record n w start now is_open (after evs) in
  sm_request_count r = cin KSuccess + cin KFailure + cin KTimeout + cin KInterrupt /\
  sm_error_count r = cin KFailure + cin KTimeout /\
  sm_rolling r = [cin KSuccess; cin KFailure; cin KTimeout; cin KBadRequest + cin KInterrupt; cin KReject; cin KShort] /\
  sm_total r = [ctot KSuccess; ctot KFailure; ctot KTimeout; ctot KBadRequest + ctot KInterrupt; ctot KReject; ctot KShort] /\
  sm_fb_rolling r = map (fun k => count_fb_in n w start now k evs) fkinds /\
  sm_fb_total r = map (fun k => count_fb k evs) fkinds /\
  sm_error_pct r = f_to_Z (Bmult mode_NE (f_of_Z 100) (error_percentage n w start now (after evs))) /\
  sm_open r = is_open.
Proof. exact (stream_record_spec n w start pn pw pcap healthy Hn Hw). Qed.
End C20.

Print Assumptions c20_totals.
Print Assumptions c20_fb_totals.
Print Assumptions c20_rolling.
Print Assumptions c20_fb_rolling.
Print Assumptions c20_error_percentage.
Print Assumptions c20_slo.
Print Assumptions c20_slo_table.
Print Assumptions c20_stream_record.
