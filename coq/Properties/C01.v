(* Properties/C01.v — an open circuit sheds load: the protected function is not
   called.  Level-1 statements (every history, every opener/closer pairing:
   never / hystrix / consecutive / custom logic whose answers are carried by the
   events); the interleaving clause is in Conc (c01_* in Properties/C01_L2.v).
   Statements only; every proof is `exact <lemma>`. *)
From CV Require Import Base.Prelude Seq.RollingCounter Seq.TimedCheck Seq.Logic Seq.Circuit Seq.CircuitSpec Seq.C01_Proofs.

Section C01.
Variable st : static.

(* the run function of call id is entered only inside that call's own Begin segment *)
Theorem c01_invocation_only_at_begin : forall s ev id d dl,
  In (ORunInvoked id d dl) (snd (step st s ev)) -> exists c, ev = Begin id c.
Proof. exact (invocation_only_at_begin st). Qed.

(* open and not admitted by the close logic (or forced open): not invoked, exactly one
   short-circuit event on every collector and no other run event, CircuitOpen error *)
Theorem c01_shed_step : forall s id c,
  enabled st s -> c_has_run c = true -> shed_by_open s c = true ->
  let o := snd (step st s (Begin id c)) in
  run_invocations id o = [] /\
  (forall w, In w (run_collectors st) -> run_evs w o = [(KShort, clock s, None)]) /\
  length (any_run_ev o) = length (run_collectors st) /\
  refusal_outcome s id c VCircuitOpen o.
Proof. exact (shed_step st). Qed.

(* vetoed by the open logic: not invoked, no run event at all, same outcome *)
Theorem c01_veto_step : forall s id c,
  enabled st s -> c_has_run c = true -> vetoed s c = true ->
  let o := snd (step st s (Begin id c)) in
  run_invocations id o = [] /\ any_run_ev o = [] /\ refusal_outcome s id c VCircuitOpen o.
Proof. exact (veto_step st). Qed.

(* over the whole rest of the history: never invoked, and the call's run events
   are exactly the one short-circuit *)
Theorem c01_never_invoked : forall s id c h2,
  enabled st s -> c_has_run c = true -> (shed_by_open s c || vetoed s c) = true ->
  ~ In id (begin_ids h2) ->
  run_invocations id (all_obs (trace_from st s (Begin id c :: h2))) = [].
Proof. exact (never_invoked st). Qed.

Theorem c01_one_short_circuit : forall s id c h2 w,
  enabled st s -> find_call id s = None -> c_has_run c = true -> shed_by_open s c = true ->
  ~ In id (begin_ids h2) -> In w (run_collectors st) ->
  run_evs w (call_obs id (trace_from st s (Begin id c :: h2))) = [(KShort, clock s, None)].
Proof. exact (one_short_circuit st). Qed.
End C01.

Print Assumptions c01_invocation_only_at_begin.
Print Assumptions c01_shed_step.
Print Assumptions c01_veto_step.
Print Assumptions c01_never_invoked.
Print Assumptions c01_one_short_circuit.
