(* Properties/C18.v — Go returns promptly and surfaces every outcome exactly once.
   Level-2 model of one Go call (Conc/GoWrapper.v): the worker goroutine, the two
   one-slot channels, the caller's select (quantified over every choice among
   ready branches), the context ending at an arbitrary moment (caller
   cancellation or execution timeout), the waiter and the GoLostErrors sink;
   EVERY interleaving (every reachable state), every outcome (nil, error, panic
   value), with and without GoLostErrors.  "As soon as" is enabledness of the
   caller's step; goroutine lifetime is the model's terminal states (the harness
   additionally counts real goroutines).  The same wrapper serves run functions
   and fallbacks, and nil circuits (no GoLostErrors).  Statements only. *)
From CV Require Import Conc.Sched Conc.GoWrapper Conc.GoWrapper_Proofs.

Section C18.
Variables (o : outcome) (pref : list branch) (lost env : bool).
Hypothesis Hpref : forall b, In b pref.     (* the select has all three branches *)
Notation init := (winit, wpool o pref lost env).

(* conservation: at every instant the outcome is in exactly one place -- not yet produced,
   in a channel, or surfaced (as Go's own result/panic, or through GoLostErrors); hence
   surfaced at most once, and never altered *)
Theorem c18_at_most_once : forall s, reach wstep init s ->
  (surfaced (fst s) (snd s) + in_channel (fst s) + b2n (negb (worker_sent (snd s))) = 1)%nat /\
  (forall o', caller_result (snd s) = CROutcome o' -> o' = o) /\
  (forall o', In o' (w_sink (fst s)) -> o' = o).
Proof. exact (at_most_once o pref lost env). Qed.

(* the caller is never stuck once the context has ended or the function has finished:
   Go returns as soon as either happens, even if the other never does *)
Theorem c18_caller_enabled : forall s, reach wstep init s ->
  caller_result (snd s) = CRNone ->
  (w_ctx_done (fst s) = true \/ (1 <= in_channel (fst s))%nat) ->
  exists x, wstep (fst s) (Caller pref lost CRNone) = Some x.
Proof. exact (caller_enabled o pref lost env Hpref). Qed.

(* through the context branch the run step ends with that context's error, and only then *)
Theorem c18_ctx_error : forall s, reach wstep init s ->
  caller_result (snd s) = CRCtxErr -> w_ctx_done (fst s) = true.
Proof. exact (ctx_error o pref lost env). Qed.

(* when nothing can move any more, Go has returned, and with GoLostErrors configured the
   outcome has been surfaced exactly once *)
Theorem c18_exactly_once : forall s, reach wstep init s -> quiescent (fst s) (snd s) ->
  caller_result (snd s) <> CRNone /\ worker_sent (snd s) = true /\
  (lost = true -> surfaced (fst s) (snd s) = 1%nat).
Proof. exact (exactly_once o pref lost env Hpref). Qed.

(* no helper is left behind: the worker's send never blocks, and a spawned waiter
   finishes as soon as the worker has sent *)
Theorem c18_no_orphans : forall s, reach wstep init s ->
  (worker_sent (snd s) = false -> exists x, wstep (fst s) (Worker o false) = Some x) /\
  (w_waiter_spawned (fst s) = true -> worker_sent (snd s) = true -> waiter_done (snd s) = false ->
   exists x, wstep (fst s) (Waiter false) = Some x).
Proof. exact (no_orphans o pref lost env). Qed.
End C18.

(* non-vacuity: context ends first, Go returns its error, the late panic reaches GoLostErrors *)
Example c18_example :
  allowed CtxFirst (OutPanic 7) true = repeat (CRCtxErr, [OutPanic 7]) 6 /\
  In (CROutcome OutNil, []) (allowed BothReady OutNil true) /\ In (CRCtxErr, [OutNil]) (allowed BothReady OutNil true).
Proof. vm_compute. repeat split; tauto. Qed.

Print Assumptions c18_at_most_once.
Print Assumptions c18_caller_enabled.
Print Assumptions c18_ctx_error.
Print Assumptions c18_exactly_once.
Print Assumptions c18_no_orphans.
Print Assumptions c18_example.
