(* Properties/C05.v — every attempt is reported exactly once, as the right kind,
   to all collectors.  Statements only. *)
From CV Require Import Base.Prelude Seq.RollingCounter Seq.TimedCheck Seq.Logic Seq.Circuit Seq.CircuitSpec Seq.C05_Proofs.

Section C05.
Variable st : static.

(* rejected before running: one short-circuit / one rejection event, stamped with
   the call's start time, identical on every collector; a veto reports nothing *)
Theorem c05_begin_events : forall s id c w,
  enabled st s -> c_has_run c = true -> In w (run_collectors st) ->
  run_evs w (snd (step st s (Begin id c))) =
  match gate s c with
  | GShed => [(KShort, clock s, None)]
  | GReject => [(KReject, clock s, None)]
  | GVeto | GRun => []
  end.
Proof. exact (begin_events st). Qed.

(* an executed call that returns: exactly one event, of the kind given by `classify`,
   stamped with the completion time and the elapsed time, identical on every collector *)
Theorem c05_end_events : forall s id e cs start expected derived w,
  find_call id s = Some cs -> cs_phase cs = PRun start expected derived ->
  res_panics (e_res e) = false -> In w (run_collectors st) ->
  run_evs w (snd (step st s (EndRun id e))) =
  [(classify (res_is_bad (e_res e))
             (match expected with Some x => x <? clock s | None => false end)
             (negb (res_is_nil (e_res e))) (cs_done cs) (l_ignore_int (cfg s)) (ie_says (l_ie (cfg s))),
    clock s, Some (clock s - start))].
Proof. exact (end_events st). Qed.

(* the deadline a call is measured against is its start plus the Timeout in force when it started *)
Theorem c05_expected : forall s id c,
  enabled st s -> c_has_run c = true -> gate s c = GRun ->
  exists cs, find_call id (fst (step st s (Begin id c))) = Some cs /\
    cs_phase cs = PRun (clock s) (if 0 <? l_timeout (cfg s) then Some (clock s + l_timeout (cfg s)) else None)
                       (0 <? l_timeout (cfg s)) /\
    cs_done cs = c_done c.
Proof. exact (begin_expected st). Qed.

(* delivered identically: over any history all collectors of one category see the same log *)
Theorem c05_identical_run : forall s h w1 w2,
  In w1 (run_collectors st) -> In w2 (run_collectors st) ->
  run_evs w1 (all_obs (trace_from st s h)) = run_evs w2 (all_obs (trace_from st s h)).
Proof. exact (identical_run st). Qed.
Theorem c05_identical_fb : forall s h i j,
  In i (fb_collectors st) -> In j (fb_collectors st) ->
  fb_evs i (all_obs (trace_from st s h)) = fb_evs j (all_obs (trace_from st s h)).
Proof. exact (identical_fb st). Qed.

(* exactly once over the whole history, for every call that is not vetoed and does not panic *)
Theorem c05_exactly_one : forall s id c h2 w,
  enabled st s -> find_call id s = None -> c_has_run c = true ->
  ~ In id (begin_ids h2) -> In w (run_collectors st) ->
  length (run_evs w (call_obs id (trace_from st s (Begin id c :: h2)))) =
  match gate s c with
  | GVeto => 0%nat
  | GShed | GReject => 1%nat
  | GRun => match first_end id h2 with
            | Some e => if res_panics (e_res e) then 0%nat else 1%nat
            | None => 0%nat                      (* still running when the history ends *)
            end
  end.
Proof. exact (exactly_one st). Qed.

(* each fallback attempt reports exactly one of success, failure, rejection *)
Theorem c05_fallback_reject : forall s cs err ran derived i,
  fb_available s (cs_call cs) = true -> fb_limit_hit s = true -> In i (fb_collectors st) ->
  fb_evs i (snd (fallback_stage st cs err ran derived s)) = [(FKReject, clock s, None)].
Proof. exact (fallback_reject st). Qed.
Theorem c05_fallback_end : forall s id f cs fbstart ran derived i,
  find_call id s = Some cs -> cs_phase cs = PFb fbstart ran derived -> In i (fb_collectors st) ->
  fb_evs i (snd (step st s (EndFb id f))) =
  match f with
  | FNil => [(FKSuccess, fbstart, Some (clock s - fbstart))]
  | FErr _ => [(FKFailure, fbstart, Some (clock s - fbstart))]
  | FPanic _ => []
  end.
Proof. exact (fallback_end st). Qed.
End C05.

Print Assumptions c05_begin_events.
Print Assumptions c05_end_events.
Print Assumptions c05_expected.
Print Assumptions c05_identical_run.
Print Assumptions c05_identical_fb.
Print Assumptions c05_exactly_one.
Print Assumptions c05_fallback_reject.
Print Assumptions c05_fallback_end.
