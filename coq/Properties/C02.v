(* Properties/C02.v — built-in openers trip exactly on their documented
   threshold.  The rule is stated on the history of what the opener was told
   (outcomes, notifications) -- independent of the counters' representation; the
   circuit-level theorems say the circuit opens exactly when the opener says so
   and that the opener is fed exactly what the observation log shows.
   Statements only. *)
From CV Require Import Base.Prelude Seq.RollingCounter Seq.TimedCheck Seq.Logic Seq.Circuit Seq.CircuitSpec Seq.LogicSpec Seq.C02_Proofs.

(* hystrix: with time flowing forward, ShouldOpen(now) answers exactly
   attempts <> 0 /\ attempts >= RequestVolumeThreshold /\ 100*errors >= ErrorThresholdPercentage*attempts
   where attempts/errors count the successes+failures+timeouts / failures+timeouts delivered since
   the last transition whose bucket is among the newest n buckets ending at now -- for every
   threshold, volume (also <= 0, > 100), window length and bucket count, in exact integers *)
Theorem c02_hystrix_iff : forall n dur start pct vol evs now ans,
  0 < n -> 0 < godiv dur n -> forward start evs now ->
  snd (opener_should_open now ans (opener_after (OpHystrix (ho_init n dur start pct vol)) evs))
  = hystrix_rule vol pct (attempts n (godiv dur n) start evs now) (errors n (godiv dur n) start evs now).
Proof. exact hystrix_iff. Qed.

(* consecutive errors: opens iff the counting outcomes since the last transition end
   with at least ErrorThreshold failures/timeouts *)
Theorem c02_consecutive_iff : forall thr evs now ans,
  snd (opener_should_open now ans (opener_after (OpConsec 0 thr) evs)) = true
  <-> ends_with_errors thr (counting_kinds evs).
Proof. exact consecutive_iff. Qed.

(* bad requests, interrupts, short-circuits and concurrency rejections move no opener *)
Theorem c02_neutral_kinds : forall k t o, legit k = false -> opener_run k t o = o.
Proof. exact neutral_kinds. Qed.

Section Circuit.
Variable st : static.

(* a closed, not overridden circuit opens at the completion of a failed or timed-out
   call exactly when its opener, having been told of that outcome, says so ... *)
Theorem c02_opens_iff_opener_says : forall s id e cs start expected derived,
  find_call id s = Some cs -> cs_phase cs = PRun start expected derived -> res_panics (e_res e) = false ->
  not_overridden s -> flag s = false -> is_error (end_kind s cs e) = true ->
  let s' := fst (step st s (EndRun id e)) in
  let o := snd (step st s (EndRun id e)) in
  flag s' = snd (opener_should_open (clock s) (e_should_open e) (opener_run (end_kind s cs e) (clock s) (opn s))) /\
  forall w, In w (circ_collectors st) -> circ_evs w o = if flag s' then [(Opened, clock s)] else [].
Proof. exact (opens_iff_opener_says st). Qed.

(* ... and at no other completion and at no rejection *)
Theorem c02_other_completions_do_not_open : forall s id e cs start expected derived,
  find_call id s = Some cs -> cs_phase cs = PRun start expected derived ->
  flag s = false -> (res_panics (e_res e) = true \/ is_error (end_kind s cs e) = false) ->
  flag (fst (step st s (EndRun id e))) = false /\ any_circ_ev (snd (step st s (EndRun id e))) = [].
Proof. exact (other_completions_do_not_open st). Qed.
Theorem c02_rejections_do_not_move : forall s id c,
  enabled st s -> c_has_run c = true -> gate s c <> GRun ->
  opn (fst (step st s (Begin id c))) = opn s /\ flag (fst (step st s (Begin id c))) = flag s.
Proof. exact (rejections_do_not_move st). Qed.

(* the opener's state is a function of exactly what the log shows it received *)
Theorem c02_opener_fed_by_observations : forall s h,
  opn (state_after st s h) = opener_after (opn s) (opener_view (all_obs (trace_from st s h))).
Proof. exact (opener_fed_by_observations st). Qed.

(* composition, on the circuit: histories with forward ticks, hystrix opener created at t0 *)
Theorem c02_hystrix_circuit : forall l n dur pct vol cl t0 h id e cs start expected derived,
  let s0 := init_state l (OpHystrix (ho_init n dur t0 pct vol)) cl t0 in
  let s := state_after st s0 h in
  0 < n -> 0 < godiv dur n -> ticks_forward h -> clock s - t0 <= max_i64 ->
  find_call id s = Some cs -> cs_phase cs = PRun start expected derived -> res_panics (e_res e) = false ->
  not_overridden s -> flag s = false -> is_error (end_kind s cs e) = true ->
  let evs := opener_view (all_obs (trace_from st s0 h)) ++ [LRun (end_kind s cs e) (clock s)] in
  flag (fst (step st s (EndRun id e)))
  = hystrix_rule vol pct (attempts n (godiv dur n) t0 evs (clock s)) (errors n (godiv dur n) t0 evs (clock s)).
Proof. exact (hystrix_circuit st). Qed.
End Circuit.

(* the float rule this replaced is wrong exactly where the ratio is not representable
   (D2, repaired): evaluated on IEEE binary64 in Properties/C02_Float.v *)

Print Assumptions c02_hystrix_iff.
Print Assumptions c02_consecutive_iff.
Print Assumptions c02_neutral_kinds.
Print Assumptions c02_opens_iff_opener_says.
Print Assumptions c02_other_completions_do_not_open.
Print Assumptions c02_rejections_do_not_move.
Print Assumptions c02_opener_fed_by_observations.
Print Assumptions c02_hystrix_circuit.
