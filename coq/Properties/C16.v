(* Properties/C16.v — TimedCheck never lets more than its budget through per
   sleep period.  Level 1: every sequential history of Check / SleepStart /
   timer-callback firings (early, late, stale, never) / SetSleepDuration /
   SetEventCountToAllow with arbitrary, non-monotonic timestamps and every
   budget including 0 and negatives.  The interleaving of the individual atomic
   steps (including a stale callback that passes its version test and stores
   after a newer re-arm) is the level-2 model, Properties/C16_L2.v.
   Statements only. *)
From CV Require Import Base.Prelude Seq.TimedCheck Seq.TimedCheck_Proofs Seq.TimedCheckLive.

(* after the latest re-arm -- SleepStart(t), or the budget-exhausting successful
   Check at t -- with timer duration d, Check(now) is false for every now < t + d,
   whenever and whichever timer callbacks happened to fire *)
Theorem c16_closed_until : forall sleep budget h D now,
  last_deadline (tc_trace sleep budget h) = Some D -> now < D ->
  snd (tc_step (tc_state_after sleep budget h) (TCheck now)) = TOBool false None.
Proof. exact tc_closed_until. Qed.

(* between two re-armings at most max(1, EventCountToAllow) checks succeed: the
   successes since the latest re-arm stay below that bound, and the check that
   reaches it is the one that re-arms *)
Theorem c16_at_most_budget : forall sleep budget h,
  no_set_budget h ->
  0 <= successes_since_rearm (tc_trace sleep budget h) < Z.max 1 budget.
Proof. exact tc_at_most_budget. Qed.

(* ... and exactly that many once the timer callback has fired and enough eligible
   checks arrive: they all succeed, only the last one re-arms *)
Theorem c16_exactly_budget : forall sleep budget h nows,
  no_set_budget h ->
  let c := tc_state_after sleep budget h in
  tc_fastfail c = false ->
  Forall (fun now => tc_next c <= now) nows ->
  Z.of_nat (length nows) = Z.max 1 budget - successes_since_rearm (tc_trace sleep budget h) ->
  tc_run_from c (map TCheck nows) =
    repeat (TOBool true None) (length nows - 1) ++ [TOBool true (Some (tc_sleep c))].
Proof. exact tc_exactly_budget. Qed.

(* the fast-fail flag is cleared by the callback of the latest re-arm and by no stale one *)
Theorem c16_fire_current : forall c k v,
  nth_error (tc_timers c) k = Some v ->
  tc_fastfail (tc_fire k c) = (if v =? tc_version c then false else tc_fastfail c).
Proof. exact tc_fire_current. Qed.

(* "whenever the timer callback happens to fire" covers real timers too: with timer objects
   that a re-arm stops (lastSetTimer.Stop()), that never fire once stopped and fire at most once,
   every history has exactly the observations it has when any registered callback may run at any
   time and any number of times -- so the three statements above hold of the library on real
   timers, and the harness may hand out live timers and honour Stop() against this model *)
Theorem c16_live_timers_invisible : forall sleep budget h,
  lrun sleep budget h = tc_run sleep budget h.
Proof. exact live_timers_invisible. Qed.

Example c16_live_timers_example :
  lrun 10 1 [TSleepStart 0; TSleepStart 5; TFire 0; TCheck 20; TFire 1; TFire 1; TCheck 20; TCheck 21]
  = [TOArmed 10; TOArmed 10; TONone; TOBool false None; TONone; TONone; TOBool true (Some 10); TOBool false None].
Proof. exact live_timers_example. Qed.

(* non-vacuity: budget 2, a stale and a current callback, out-of-order stamps *)
Example c16_example :
  tc_run 10 2 [TSleepStart 90; TFire 0; TCheck 99; TCheck 109; TCheck 100; TFire 0; TCheck 115; TFire 1; TCheck 109; TCheck 110]
  = [TOArmed 10; TONone; TOBool false None; TOBool true None; TOBool true (Some 10); TONone; TOBool false None; TONone;
     TOBool false None; TOBool true None].
Proof. vm_compute. reflexivity. Qed.

Print Assumptions c16_closed_until.
Print Assumptions c16_at_most_budget.
Print Assumptions c16_exactly_budget.
Print Assumptions c16_fire_current.
Print Assumptions c16_live_timers_invisible.
Print Assumptions c16_live_timers_example.
Print Assumptions c16_example.
