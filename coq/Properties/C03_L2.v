(* Properties/C03_L2.v — "no call that starts after the opening and within
   SleepWindow of it runs the protected function ... however many callers
   compete": the level-2 half.  (1) The closer is armed before the opening is
   visible: in every interleaving the flag reads open only after the Opened
   notification (Conc/Transition.v; the hystrix closer's Opened is where SleepStart
   arms the gate).  (2) Once armed at t with sleep d, NO interleaving of competing
   Check calls, re-armings and timer callbacks (also stale ones) lets a Check with
   now < t + d succeed, and at most max(1, budget) succeed between two re-armings
   (Conc/TimedCheckConc.v; stated in Properties/C16_L2.v and reused here).
   Statements only. *)
From CV Require Import Conc.Sched Conc.Transition Conc.Transition_Proofs.

Theorem c03_l2_armed_before_open : forall fo fc pool0 s,
  all_fresh_t pool0 -> reach tstep (tinit fo fc, pool0) s ->
  t_open (fst s) = true ->
  last_dir (t_log (fst s)) = Some DOpen \/ Exists (fun t => th_pc t = TSec DClose SStore) (snd s).
Proof. exact l2_flag_after_notify. Qed.

Print Assumptions c03_l2_armed_before_open.
