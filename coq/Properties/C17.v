(* Properties/C17.v — Manager: unique names, stable handles, harmless failed
   creates, precedence.  Level 1 (Seq/Manager.v): every history of
   CreateCircuit / GetCircuit / AllCircuits / StatFactory queries including
   duplicates, every list of DefaultCircuitProperties constructors (fixed layers
   and a StatFactory, which registers stats as a side effect), every assignment of
   each tracked setting to any subset of the layers.  Level 2 (Conc/Serial.v):
   every operation is one critical section of the manager's RWMutex, and every
   interleaving of such operations is the sequential execution of the writers in
   the order their sections ran -- so the level-1 theorems hold under every
   interleaving.  Statements only. *)
From Coq Require Import Sorting.Permutation.
From CV Require Import Base.Prelude Seq.Manager Conc.Sched Conc.Serial Conc.ManagerConc Seq.C17_Proofs.

Definition is_stats (c : ctor) : bool := match c with CtorStats => true | _ => false end.

Section C17.
Variable defaults : list ctor.

(* a create succeeds exactly when the name is free; successful creates have distinct names *)
Theorem c17_create_iff : forall s name ex,
  (exists id cfg b, snd (m_step defaults s (MCreate name ex)) = MCreated id cfg b) <-> find_circuit name s = None.
Proof. exact (create_iff defaults). Qed.
Theorem c17_unique : forall h, NoDup (created_names (m_state_after defaults h)).
Proof. exact (unique_names defaults). Qed.

(* GetCircuit returns the circuit of the successful create, for ever; AllCircuits holds exactly
   the successfully created circuits (identity tokens 0, 1, ... in creation order) *)
Theorem c17_get_stable : forall h h2 name ex id cfg b,
  snd (m_step defaults (m_state_after defaults h) (MCreate name ex)) = MCreated id cfg b ->
  snd (m_step defaults (m_state_after defaults (h ++ [MCreate name ex] ++ h2)) (MGet name)) = MFound (Some id).
Proof. exact (get_stable defaults). Qed.
Theorem c17_all : forall h,
  snd (m_step defaults (m_state_after defaults h) MAll)
  = MList (seq 0 (length (m_circuits (m_state_after defaults h)))) /\
  length (m_circuits (m_state_after defaults h)) = length (created_names (m_state_after defaults h)).
Proof. exact (all_circuits defaults). Qed.

(* a create that fails because the name exists changes NOTHING: not the registered circuits,
   not the StatFactory's registry, not the token supply *)
Theorem c17_failed_create_inert : forall s name ex,
  find_circuit name s <> None -> m_step defaults s (MCreate name ex) = (s, MExists).
Proof. exact (failed_create_inert defaults). Qed.

(* ... so the stats a StatFactory hands out for a name always belong to the live circuit *)
Theorem c17_stats_belong : forall h name b,
  (length (filter is_stats defaults) <= 1)%nat ->
  stats_live name (m_state_after defaults h) = Some b -> b = true.
Proof. exact (stats_belong defaults). Qed.

(* precedence: every numeric setting is the first set value along explicit configs in argument
   order, then the constructors from last to first, then the library defaults; switches are set
   if any layer sets them *)
Theorem c17_precedence : forall s name ex id cfg b,
  snd (m_step defaults s (MCreate name ex)) = MCreated id cfg b ->
  mc_timeout cfg = first_set (map mc_timeout (layers defaults ex)) /\
  mc_max cfg = first_set (map mc_max (layers defaults ex)) /\
  mc_fbmax cfg = first_set (map mc_fbmax (layers defaults ex)) /\
  mc_force_open cfg = existsb mc_force_open (layers defaults ex) /\
  mc_forced_closed cfg = existsb mc_forced_closed (layers defaults ex) /\
  mc_disabled cfg = existsb mc_disabled (layers defaults ex).
Proof. exact (precedence defaults). Qed.
End C17.

(* ---------- every interleaving is a sequential history ---------- *)
Section Serial.
Variables (St Op : Type) (apply : St -> Op -> St) (code : St -> Op -> Z) (is_write : Op -> bool).
Variables (st0 : St) (pool0 : list (sthread Op)).
Hypothesis Hpool : all_fresh_s pool0.

(* mutual exclusion, and the state is the sequential execution of the log of completed writers *)
Theorem c17_l2_serial : forall s, reach (sstep apply code is_write) (sinit st0, pool0) s ->
  s_state (fst s) = fold_left apply (s_log (fst s)) st0 /\
  Permutation (s_log (fst s)) (map s_op (filter (s_applied is_write) (snd s))) /\
  (s_writer (fst s) = true -> s_readers (fst s) = 0).
Proof. exact (l2_serial St Op apply code is_write st0 pool0 Hpool). Qed.

(* every operation reports what it reports in that sequential history: a writer at its own
   position in the log, a reader at some point between two writers *)
Theorem c17_l2_results : forall s, reach (sstep apply code is_write) (sinit st0, pool0) s ->
  Forall (fun t => forall r, (s_pc t = SpFinish r \/ s_pc t = SpDone r) ->
            exists l1 l2, s_log (fst s) = l1 ++ (if is_write (s_op t) then [s_op t] else []) ++ l2 /\
                          r = code (fold_left apply l1 st0) (s_op t)) (snd s).
Proof. exact (l2_results St Op apply code is_write st0 pool0 Hpool). Qed.
End Serial.

(* instance: the Manager; at every instant of every interleaving the registered names are distinct *)
Theorem c17_l2_unique : forall defaults pool0 s,
  all_fresh_s pool0 -> reach (mgr_step defaults) (sinit m_init, pool0) s ->
  NoDup (created_names (s_state (fst s))).
Proof. exact l2_unique. Qed.

Print Assumptions c17_create_iff.
Print Assumptions c17_unique.
Print Assumptions c17_get_stable.
Print Assumptions c17_all.
Print Assumptions c17_failed_create_inert.
Print Assumptions c17_stats_belong.
Print Assumptions c17_precedence.
Print Assumptions c17_l2_serial.
Print Assumptions c17_l2_results.
Print Assumptions c17_l2_unique.
