(* Properties/C13.v — RollingCounter is an exact sliding-window counter for any
   timestamp order.  Statements only; every proof is `exact <lemma>`.

   n = NumBuckets, w = BucketWidth (ns), start = StartTime (ns); a history h is
   any list of Inc / RollingSumAt / GetBuckets / Reset / TotalSum / JSON
   round-trip operations with arbitrary (non-monotonic, pre-start, saturating)
   timestamps.  `latest h` is the largest bucket index ever presented, `live h`
   the Inc stamps since the last Reset whose bucket is among the newest n
   buckets ending at `latest h` — both defined on the history, not on the
   counter's state. *)
From CV Require Import Base.Prelude Seq.RollingCounter Seq.RollingCounter_Proofs.

Section C13.
Variables (n w start : Z).
Hypothesis Hn : 0 < n.
Hypothesis Hw : 0 < w.

(* RollingSumAt = number of Inc calls whose bucket is among the newest n buckets
   ending at the latest time ever presented (including this call's time) *)
Theorem c13_rolling_sum : forall h t,
  snd (step n w start (state_after n w start h) (SumAt t))
  = OZ (Z.of_nat (length (live n w start (h ++ [SumAt t])))).
Proof. exact (rolling_sum_spec n w start Hn Hw). Qed.

(* GetBuckets = those per-bucket counts, newest first *)
Theorem c13_buckets : forall h t,
  snd (step n w start (state_after n w start h) (Buckets t))
  = OList (map (fun i => count_in_bucket n w start (h ++ [Buckets t])
                           (latest w start (h ++ [Buckets t]) - Z.of_nat i))
               (seq 0 (Z.to_nat n))).
Proof. exact (buckets_spec n w start Hn Hw). Qed.

(* TotalSum = number of Inc calls *)
Theorem c13_total : forall h,
  snd (step n w start (state_after n w start h) Total) = OZ (count_incs h).
Proof. exact (total_spec n w start Hn Hw). Qed.

(* an Inc stamped before the start or older than the window moves TotalSum only *)
Theorem c13_stale_ignored : forall h t,
  in_window n w start (latest w start h) t = false ->
  let s := state_after n w start h in let s' := state_after n w start (h ++ [Inc t]) in
  slots s' = slots s /\ rsum s' = rsum s /\ last s' = last s /\ tsum s' = tsum s + 1 /\
  live n w start (h ++ [Inc t]) = live n w start h.
Proof. exact (stale_inc_ignored n w start Hn Hw). Qed.

(* presenting an older time never moves the window back: the ring's newest index
   is the maximum ever presented *)
Theorem c13_never_back : forall h o,
  last (state_after n w start h) = latest w start h /\
  last (state_after n w start h) <= last (state_after n w start (h ++ [o])).
Proof. intros h o; split; [exact (last_is_latest n w start Hn Hw h) | exact (never_back n w start Hn Hw h o)]. Qed.

(* Reset empties the window without touching TotalSum *)
Theorem c13_reset : forall h t,
  live n w start (h ++ [Reset t]) = [] /\
  tsum (state_after n w start (h ++ [Reset t])) = tsum (state_after n w start h).
Proof. exact (reset_empties n w start Hn Hw). Qed.

(* no operation faults: every slot access of every operation of every history
   is inside the slice (the model range-checks each access and records a fault
   instead of reading a default) *)
Theorem c13_total_functions : forall h, fault (state_after n w start h) = false.
Proof. exact (no_fault n w start Hn Hw). Qed.

(* the JSON round trip is the identity on the counter's state (the harness
   performs the real marshal/unmarshal; the model states what it must equal) *)
Theorem c13_json : forall s, step n w start s Json = (s, ONone).
Proof. reflexivity. Qed.
End C13.

(* non-vacuity: a concrete history with a stale stamp, a roll-over and a reset *)
Example c13_example :
  run 4 1000 50 [Inc 20050; Inc 3050; SumAt 20050; Buckets 20999; Inc 19050; Buckets 21050; Reset 0; Total; SumAt 21050]
  = [ONone; ONone; OZ 1; OList [1; 0; 0; 0]; ONone; OList [0; 1; 1; 0]; ONone; OZ 3; OZ 0].
Proof. vm_compute. reflexivity. Qed.

Print Assumptions c13_rolling_sum.
Print Assumptions c13_buckets.
Print Assumptions c13_total.
Print Assumptions c13_stale_ignored.
Print Assumptions c13_never_back.
Print Assumptions c13_reset.
Print Assumptions c13_total_functions.
Print Assumptions c13_json.
Print Assumptions c13_example.
