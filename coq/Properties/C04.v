(* Properties/C04.v — bulkhead: concurrency caps hold at every instant and never
   leak.  Level-2 model (Conc/Gauge.v): ANY number of threads (the pool is a list
   of arbitrary length: callers with every outcome of run function and fallback --
   return, error, panic -- gauge readers, and for the leak clause also concurrent
   reconfigurations), EVERY interleaving of their atomic steps (every reachable
   state of the step relation), every limit including 0, 1 and negatives.
   The result/event clauses of a refused call are level-1 theorems (c06_throttled,
   c05_begin_events).  Statements only. *)
From CV Require Import Conc.Sched Conc.Gauge Conc.Gauge_Proofs.

Section C04.
Variables (tmo max fbmax : Z) (fbdis : bool).

(* at no instant are more than MaxConcurrentRequests run functions in flight ... *)
Theorem c04_run_bound : forall pool s,
  0 <= max -> all_fresh pool -> no_setters pool ->
  reach gstep1 (ginit tmo max fbmax fbdis, pool) s -> cnt run_inflight (snd s) <= max.
Proof. exact (run_bound tmo max fbmax fbdis). Qed.

(* ... or more than Fallback.MaxConcurrentRequests fallbacks *)
Theorem c04_fb_bound : forall pool s,
  0 <= fbmax -> all_fresh pool -> no_setters pool ->
  reach gstep1 (ginit tmo max fbmax fbdis, pool) s -> cnt fb_inflight (snd s) <= fbmax.
Proof. exact (fb_bound tmo max fbmax fbdis). Qed.

(* a negative limit means unlimited: nobody is ever refused *)
Theorem c04_unlimited : forall pool s,
  all_fresh pool -> no_setters pool -> reach gstep1 (ginit tmo max fbmax fbdis, pool) s ->
  (max < 0 -> cnt rejecting_run (snd s) = 0) /\ (fbmax < 0 -> cnt rejecting_fb (snd s) = 0).
Proof. exact (unlimited tmo max fbmax fbdis). Qed.

(* the gauges always equal the number of threads between their Add(1) and Add(-1),
   also while the limits are being reconfigured ... *)
Theorem c04_gauges_count : forall pool s,
  all_fresh pool -> reach gstep1 (ginit tmo max fbmax fbdis, pool) s ->
  g_cmds (fst s) = cnt holds_run (snd s) /\ g_fbs (fst s) = cnt holds_fb (snd s).
Proof. exact (gauges_count tmo max fbmax fbdis). Qed.

(* ... so once all calls have returned -- by normal return, error, rejection or panic of
   the run function or of the fallback -- both read zero *)
Theorem c04_quiescent_zero : forall pool s,
  all_fresh pool -> reach gstep1 (ginit tmo max fbmax fbdis, pool) s ->
  Forall (fun l => finished l = true) (snd s) ->
  g_cmds (fst s) = 0 /\ g_fbs (fst s) = 0.
Proof. exact (quiescent_zero tmo max fbmax fbdis). Qed.
End C04.

(* non-vacuity: three callers on limit 1, a schedule in which the second and third are refused *)
Example c04_example :
  let pool := [Caller RunOk FbNone GStart; Caller RunErr FbOk GStart; Caller RunPanic FbNone GStart] in
  let '(tr, fin, ok) := replay gstep1 [0;0;0;0;1;2;1;2;1;0]%nat (ginit 0 1 1 false) pool in
  ok = true /\ cnt run_inflight (snd fin) = 0 /\ cnt holds_run (snd fin) = 2 /\ g_cmds (fst fin) = 2.
Proof. vm_compute. repeat split. Qed.

Print Assumptions c04_run_bound.
Print Assumptions c04_fb_bound.
Print Assumptions c04_unlimited.
Print Assumptions c04_gauges_count.
Print Assumptions c04_quiescent_zero.
Print Assumptions c04_example.
