(* Properties/C14.v — lock-free counters conserve counts under every
   interleaving.  Level-2 model (Conc/CounterConc.v): ANY number of concurrent
   Inc / RollingSumAt / GetBuckets / Reset operations with arbitrary stamps (same
   bucket, adjacent buckets, a window apart, stale, before the start) on a counter
   in any consistent initial state, EVERY interleaving of their individual atomic
   steps including failed CompareAndSwaps and the restart of Advance.
   Termination of the CAS retry under an unfair schedule is not claimed (the
   property speaks of "once all operations have returned").  Statements only. *)
From CV Require Import Conc.Sched Conc.CounterConc Conc.CounterConc_Proofs.

Section C14.
Variables (n : Z) (sh0 : cshared) (pool0 : list cthread).
Hypothesis Hn : 0 < n.
Hypothesis Hwf : wf0 n sh0.
Hypothesis Hpool : all_started pool0.

(* TotalSum = number of Inc calls (at every instant: those whose first step has happened) *)
Theorem c14_total : forall s, reach (cstep n) (sh0, pool0) s ->
  c_tsum (fst s) = c_tsum sh0 + cnt inc_counted (snd s) /\
  (all_done (snd s) -> c_tsum (fst s) = c_tsum sh0 + cnt is_inc pool0).
Proof. exact (total_spec n sh0 pool0 Hn Hwf Hpool). Qed.

(* the rolling sum and the buckets are updated in pairs: at every instant
   rollingSum + (what the threads in the middle of a pair still owe) = sum of the buckets,
   hence equality once all operations have returned *)
Theorem c14_paired : forall s, reach (cstep n) (sh0, pool0) s ->
  c_rsum (fst s) + pending_sum (snd s) = zsum (c_slots (fst s)) /\
  (all_done (snd s) -> c_rsum (fst s) = zsum (c_slots (fst s))).
Proof. exact (paired_spec n sh0 pool0 Hn Hwf Hpool). Qed.

(* buckets never go negative, and at rest 0 <= rollingSum <= TotalSum (the number of Inc calls) *)
Theorem c14_range : forall s, reach (cstep n) (sh0, pool0) s ->
  Forall (fun x => 0 <= x) (c_slots (fst s)) /\
  (all_done (snd s) -> 0 <= c_rsum (fst s) <= c_tsum (fst s)).
Proof. exact (range_spec n sh0 pool0 Hn Hwf Hpool). Qed.

(* the ring's newest index never moves back, never exceeds the largest index requested, and
   once all operations have returned equals it *)
Theorem c14_newest_index : forall s, reach (cstep n) (sh0, pool0) s ->
  c_last sh0 <= c_last (fst s) <= Z.max (c_last sh0) (max_requested pool0) /\
  (all_done (snd s) -> c_last (fst s) = Z.max (c_last sh0) (max_requested pool0)).
Proof. exact (newest_index_spec n sh0 pool0 Hn Hwf Hpool). Qed.

(* when no operation has to roll the window (no stamp beyond the newest index, no Reset),
   the rolling sum ends up exactly at the number of in-window Inc calls *)
Theorem c14_exact_when_static : forall s, reach (cstep n) (sh0, pool0) s ->
  max_requested pool0 <= c_last sh0 -> Forall (fun t => is_reset t = false) pool0 ->
  all_done (snd s) ->
  c_rsum (fst s) = c_rsum sh0 + cnt (inc_in_window n (c_last sh0)) pool0.
Proof. exact (exact_when_static n sh0 pool0 Hn Hwf Hpool). Qed.
End C14.

(* non-vacuity: two Incs racing a roll-over on a 2-bucket ring; the second one's CAS fails, it
   restarts, adds to the new bucket, and the first one's clearBucket then wipes that count: the
   four invariants hold, exactness is (rightly) not claimed when the window rolls *)
Example c14_example :
  let pool := [thread0 CInc (Some 1); thread0 CInc (Some 1)] in
  let '(tr, fin, ok) := replay (cstep 2) [0;1;0;1;0;1;1;1;1;0;0;0;0;0;0;0;1]%nat (cinit 0 [3; 0] 3 3) pool in
  ok = true /\ all_done (snd fin) /\ c_rsum (fst fin) = 4 /\ c_slots (fst fin) = [3; 1] /\ c_last (fst fin) = 1 /\ c_tsum (fst fin) = 5.
Proof. vm_compute. repeat split; repeat constructor. Qed.

Print Assumptions c14_total.
Print Assumptions c14_paired.
Print Assumptions c14_range.
Print Assumptions c14_newest_index.
Print Assumptions c14_exact_when_static.
Print Assumptions c14_example.
