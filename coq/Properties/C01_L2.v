(* Properties/C01_L2.v — the level-2 clause C01 and C03 share: "while a circuit is
   open" is read at the caller's own load of the flag, and in EVERY interleaving of
   any number of OpenCircuit / CloseCircuit calls, opening failures, closing
   probes, override changes and readers (Conc/Transition.v), the flag reads open
   only AFTER the Opened notification of that opening was delivered -- to the
   closer first, which arms its sleep window there -- or while a closing thread
   that has already announced Closed is about to clear it.  So a caller that sees
   the circuit open never meets a closer that has not been told (which is what
   lets a stale, un-armed TimedCheck admit it).  The trace correspondence compares
   the order notify / store with the code step by step.  Statement only. *)
From CV Require Import Conc.Sched Conc.Transition Conc.Transition_Proofs.

Theorem c01_l2_flag_after_notify : forall fo fc pool0 s,
  all_fresh_t pool0 -> reach tstep (tinit fo fc, pool0) s ->
  t_open (fst s) = true ->
  last_dir (t_log (fst s)) = Some DOpen \/ Exists (fun t => th_pc t = TSec DClose SStore) (snd s).
Proof. exact l2_flag_after_notify. Qed.

(* non-vacuity: an OpenCircuit racing a caller; after the opener's notification and store the flag is open *)
Example c01_l2_example :
  let '(tr, fin, ok) := replay tstep [0;0;0;0;0;0;0;0]%nat (tinit false false) [tthread0 KOpen; tthread0 KSucceed] in
  ok = true /\ t_open (fst fin) = true /\ t_log (fst fin) = [DOpen].
Proof. vm_compute. repeat split. Qed.

Print Assumptions c01_l2_flag_after_notify.
Print Assumptions c01_l2_example.
