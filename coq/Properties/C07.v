(* Properties/C07.v — deadline and context propagation into the protected
   function.  A context is observed as: is it the caller's own value or one
   derived from it, its deadline, its state when the function is told to finish
   and after the call returned.  Assumed (Go's context package, exercised by the
   harness): a context derived with WithDeadline carries the caller's values, is
   cancelled with the caller's, and reports min(parent deadline, requested).
   Statements only. *)
From CV Require Import Base.Prelude Seq.RollingCounter Seq.TimedCheck Seq.Logic Seq.Circuit Seq.CircuitSpec Seq.C07_Proofs.

Section C07.
Variable st : static.

(* Timeout > 0: a derived context whose deadline is the earlier of the caller's
   deadline and call start + Timeout.  Timeout <= 0: the caller's context itself. *)
Theorem c07_run_context : forall s id c,
  enabled st s -> c_has_run c = true -> gate s c = GRun ->
  run_invocations id (snd (step st s (Begin id c))) =
  [ if 0 <? l_timeout (cfg s)
    then (true, Some (match c_deadline c with
                      | Some d => Z.min d (clock s + l_timeout (cfg s))
                      | None => clock s + l_timeout (cfg s) end))
    else (false, c_deadline c) ].
Proof. exact (run_context st). Qed.

(* pass-through modes hand over the caller's context *)
Theorem c07_passthrough_context : forall s id c,
  passthrough st s -> c_has_run c = true ->
  run_invocations id (snd (step st s (Begin id c))) = [(false, c_deadline c)].
Proof. exact (passthrough_context st). Qed.

(* the function's context is done exactly when the caller's is (cancelled with it) *)
Theorem c07_cancelled_with_caller : forall s id e cs b,
  find_call id s = Some cs ->
  In (ORunEnd id b) (snd (step st s (EndRun id e))) -> b = cs_done cs.
Proof. exact (cancelled_with_caller st). Qed.

(* the derived context is released on every exit of the run step: return of any
   value, and panic.  Either the call returns in this segment with its run
   context done, or it enters the fallback remembering that the derived context
   is already released, and then returns with it done. *)
Theorem c07_released : forall s id e cs start expected,
  find_call id s = Some cs -> cs_phase cs = PRun start expected true ->
  let s' := fst (step st s (EndRun id e)) in
  let o := snd (step st s (EndRun id e)) in
  (exists v, returns id o = [(v, true)]) \/
  (returns id o = [] /\ exists cs' t, find_call id s' = Some cs' /\ cs_phase cs' = PFb t true true).
Proof. exact (released st). Qed.
Theorem c07_released_after_fallback : forall s id f cs t,
  find_call id s = Some cs -> cs_phase cs = PFb t true true ->
  exists v, returns id (snd (step st s (EndFb id f))) = [(v, true)].
Proof. exact (released_after_fallback st). Qed.

(* the fallback always receives the caller's original context *)
Theorem c07_fallback_context : forall s ev id err b,
  In (OFbInvoked id err b) (snd (step st s ev)) -> b = true.
Proof. exact (fallback_context st). Qed.
End C07.

Print Assumptions c07_run_context.
Print Assumptions c07_passthrough_context.
Print Assumptions c07_cancelled_with_caller.
Print Assumptions c07_released.
Print Assumptions c07_released_after_fallback.
Print Assumptions c07_fallback_context.
