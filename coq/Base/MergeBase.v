(* Base/MergeBase.v — the fixed part of the C19 development: value kinds of a
   configuration field, the statement each kind of field must satisfy under
   Merge, and the tactic that closes the generated obligations.  The records,
   the Merge functions and one lemma per field are generated from the Go sources
   on every run (Gen/MergeGen.v, by harness/cmd/translate). *)
From Coq Require Export List ZArith Bool Lia.
Export ListNotations.
Open Scope Z_scope.

(* functions, interfaces and pointers are compared by identity only: a token *)
Definition tok := option nat.
(* a Go map as an association list (keys and values are tokens) *)
Definition amap := list (nat * nat).
Fixpoint lookup (k : nat) (m : amap) : option nat :=
  match m with
  | [] => None
  | (k', v) :: t => if Nat.eqb k k' then Some v else lookup k t
  end.
(* the receiver-wins union the map idiom computes:
   for k, v := range other { if _, ok := c[k]; !ok { c[k] = v } } *)
Fixpoint map_union (r o : amap) : amap :=
  match o with
  | [] => r
  | (k, v) :: t => map_union (match lookup k r with Some _ => r | None => r ++ [(k, v)] end) t
  end.

Lemma lookup_app k a b : lookup k (a ++ b) = match lookup k a with Some v => Some v | None => lookup k b end.
Proof. induction a as [|[k' v] a IH]; simpl; [reflexivity|]. destruct (Nat.eqb k k'); auto. Qed.

(* requires the other side's keys to be distinct, as the keys of a Go map are *)
Lemma lookup_union : forall o r k, NoDup (map fst o) ->
  lookup k (map_union r o) = match lookup k r with Some v => Some v | None => lookup k o end.
Proof.
  induction o as [|[k' v] o IH]; intros r k Hnd; simpl.
  - destruct (lookup k r); reflexivity.
  - inversion Hnd as [|x l Hni Hnd']; subst. rewrite IH by exact Hnd'.
    destruct (lookup k' r) eqn:E.
    + destruct (lookup k r) eqn:E2; [reflexivity|].
      destruct (Nat.eqb k k') eqn:E3; [|reflexivity].
      apply Nat.eqb_eq in E3. subst. congruence.
    + rewrite lookup_app. destruct (lookup k r) eqn:E2; [reflexivity|]. simpl.
      destruct (Nat.eqb k k') eqn:E3; [|reflexivity].
      apply Nat.eqb_eq in E3. subst.
      assert (Hno : lookup k' o = None).
      { clear - Hni. induction o as [|[a b] o IH]; simpl in *; [reflexivity|].
        destruct (Nat.eqb k' a) eqn:E; [apply Nat.eqb_eq in E; subst; tauto|]. apply IH. tauto. }
      reflexivity.
Qed.

(* ---------- what "merging only fills gaps" means, per kind of field ---------- *)
Section Specs.
Context {T : Type} (merge : T -> T -> T).
(* numbers (int, int64, time.Duration): unset is 0 *)
Definition fills_gap_num (get : T -> Z) : Prop :=
  forall c o, get (merge c o) = if get c =? 0 then get o else get c.
(* functions / interfaces / pointers: unset is nil *)
Definition fills_gap_tok (get : T -> tok) : Prop :=
  forall c o, get (merge c o) = match get c with Some v => Some v | None => get o end.
(* boolean switches: set if either side set them *)
Definition switch_or (get : T -> bool) : Prop :=
  forall c o, get (merge c o) = get c || get o.
(* collector lists: receiver then other *)
Definition list_appends (get : T -> list nat) : Prop :=
  forall c o, get (merge c o) = get c ++ get o.
(* custom-config maps: united, the receiver's entries winning *)
Definition map_unites (get : T -> amap) : Prop :=
  forall c o k, NoDup (map fst (get o)) ->
    lookup k (get (merge c o)) = match lookup k (get c) with Some v => Some v | None => lookup k (get o) end.
(* nested configuration structs are merged by their own Merge *)
Definition nested_merges {U : Type} (sub : U -> U -> U) (get : T -> U) : Prop :=
  forall c o, get (merge c o) = sub (get c) (get o).
End Specs.

(* the one tactic that closes every generated obligation, if it holds *)
Ltac merge_field :=
  unfold fills_gap_num, fills_gap_tok, switch_or, list_appends, map_unites, nested_merges;
  intros c o; intros; destruct c; destruct o; cbn in *;
  try reflexivity;
  try (apply lookup_union; assumption);
  try (repeat match goal with
              | |- context [negb ?x] => is_var x; destruct x
              | |- context [orb ?x _] => is_var x; destruct x
              end; cbn; reflexivity).

(* ---------- comparison used by the reflection cross-check of the translator ---------- *)
Definition tok_eqb (a b : tok) : bool :=
  match a, b with Some x, Some y => Nat.eqb x y | None, None => true | _, _ => false end.
Fixpoint natlist_eqb (a b : list nat) : bool :=
  match a, b with
  | [], [] => true
  | x :: a', y :: b' => Nat.eqb x y && natlist_eqb a' b'
  | _, _ => false
  end.
(* Go maps are unordered: equal when they agree on every key either mentions *)
Definition amap_equiv (a b : amap) : bool :=
  forallb (fun k => tok_eqb (lookup k a) (lookup k b)) (map fst a ++ map fst b).
