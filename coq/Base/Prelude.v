(* Base/Prelude.v — shared definitions: Go integer arithmetic on Z, list cells.

   Conventions used by every model in this development:
   - times are Z nanoseconds on the harness's substitute clock;
   - Go's int/int64 values are Z; where a Go operation saturates or truncates,
     the saturation/truncation is written into the model explicitly;
   - Go's `/` and `%` truncate toward zero: they are Z.quot and Z.rem. *)
From Coq Require Export List ZArith Lia Bool.
Export ListNotations.
Open Scope Z_scope.

Definition max_i64 : Z := 9223372036854775807.
Definition min_i64 : Z := -9223372036854775808.

(* time.Time.Sub saturates to the int64 range of time.Duration *)
Definition clamp64 (d : Z) : Z := Z.max min_i64 (Z.min max_i64 d).

(* time.Time.Add(d) with d a Duration: plain addition (the harness keeps clock
   values far from the representable limits of time.Time) *)

Definition godiv (a b : Z) : Z := Z.quot a b.
Definition gomod (a b : Z) : Z := Z.rem a b.

Lemma godiv_nonneg a b : 0 <= a -> 0 < b -> godiv a b = a / b.
Proof. intros; unfold godiv; apply Z.quot_div_nonneg; lia. Qed.
Lemma gomod_nonneg a b : 0 <= a -> 0 < b -> gomod a b = a mod b.
Proof. intros; unfold gomod; apply Z.rem_mod_nonneg; lia. Qed.

Lemma clamp64_id d : min_i64 <= d <= max_i64 -> clamp64 d = d.
Proof. unfold clamp64; lia. Qed.
Lemma clamp64_range d : min_i64 <= clamp64 d <= max_i64.
Proof. unfold clamp64, min_i64, max_i64; lia. Qed.
Lemma clamp64_mono a b : a <= b -> clamp64 a <= clamp64 b.
Proof. unfold clamp64; lia. Qed.
Lemma clamp64_neg d : clamp64 d < 0 <-> d < 0.
Proof. unfold clamp64, min_i64, max_i64; lia. Qed.

(* list cells addressed by a Z index; out-of-range reads are reported, not
   defaulted, wherever a theorem is about the absence of faults *)
Fixpoint setnth {A} (i : nat) (x : A) (l : list A) : list A :=
  match l, i with
  | [], _ => []
  | _ :: t, O => x :: t
  | h :: t, S j => h :: setnth j x t
  end.

Definition getz (l : list Z) (i : Z) : Z := nth (Z.to_nat i) l 0.
Definition setz (l : list Z) (i : Z) (x : Z) : list Z := setnth (Z.to_nat i) x l.
Definition inrange {A} (l : list A) (i : Z) : bool := (0 <=? i) && (i <? Z.of_nat (length l)).

Lemma setnth_length {A} (l : list A) : forall i x, length (setnth i x l) = length l.
Proof. induction l as [|h t IH]; intros [|i] x; simpl; auto. Qed.

Lemma nth_setnth_same {A} (d : A) (l : list A) : forall i x,
  (i < length l)%nat -> nth i (setnth i x l) d = x.
Proof. induction l as [|h t IH]; intros [|i] x H; simpl in *; try lia; auto. apply IH; lia. Qed.

Lemma nth_setnth_other {A} (d : A) (l : list A) : forall i j x,
  i <> j -> nth j (setnth i x l) d = nth j l d.
Proof.
  induction l as [|h t IH]; intros [|i] [|j] x H; simpl; auto; try congruence.
Qed.

Lemma setz_length l i x : length (setz l i x) = length l.
Proof. apply setnth_length. Qed.
Lemma getz_setz_same l i x : 0 <= i < Z.of_nat (length l) -> getz (setz l i x) i = x.
Proof. intros; unfold getz, setz; apply nth_setnth_same; lia. Qed.
Lemma getz_setz_other l i j x : 0 <= i -> 0 <= j -> i <> j -> getz (setz l i x) j = getz l j.
Proof. intros; unfold getz, setz; apply nth_setnth_other; lia. Qed.

Definition zsum (l : list Z) : Z := fold_right Z.add 0 l.
Lemma zsum_app a b : zsum (a ++ b) = zsum a + zsum b.
Proof. induction a; simpl; lia. Qed.

Lemma zsum_setnth (l : list Z) : forall i x, (i < length l)%nat ->
  zsum (setnth i x l) = zsum l - nth i l 0 + x.
Proof.
  induction l as [|h t IH]; intros [|i] x H; simpl in *; try lia.
  rewrite IH by lia. lia.
Qed.
Lemma zsum_setz l i x : 0 <= i < Z.of_nat (length l) ->
  zsum (setz l i x) = zsum l - getz l i + x.
Proof. intros; unfold setz, getz; apply zsum_setnth; lia. Qed.

Lemma zsum_repeat0 n : zsum (repeat 0 n) = 0.
Proof. induction n; simpl; lia. Qed.

Definition b2z (b : bool) : Z := if b then 1 else 0.

(* count of elements satisfying p, as Z *)
Definition cntp {A} (p : A -> bool) (l : list A) : Z := Z.of_nat (length (filter p l)).
Lemma cntp_nil {A} (p : A -> bool) : cntp p [] = 0. Proof. reflexivity. Qed.
Lemma cntp_cons {A} (p : A -> bool) x l : cntp p (x :: l) = b2z (p x) + cntp p l.
Proof. unfold cntp, b2z; simpl; destruct (p x); simpl length; lia. Qed.
Lemma cntp_app {A} (p : A -> bool) a b : cntp p (a ++ b) = cntp p a + cntp p b.
Proof. induction a as [|x a IH]; [rewrite cntp_nil; simpl; lia|]. simpl; rewrite !cntp_cons, IH; lia. Qed.
Lemma cntp_nonneg {A} (p : A -> bool) l : 0 <= cntp p l. Proof. unfold cntp; lia. Qed.
Lemma cntp_le_length {A} (p : A -> bool) l : cntp p l <= Z.of_nat (length l).
Proof. induction l as [|x l IH]; [reflexivity|]. rewrite cntp_cons. unfold b2z. simpl length. destruct (p x); lia. Qed.
Lemma cntp_ext {A} (p q : A -> bool) l : (forall x, In x l -> p x = q x) -> cntp p l = cntp q l.
Proof.
  induction l as [|x l IH]; intros H; [reflexivity|]. rewrite !cntp_cons, IH.
  - rewrite (H x); [reflexivity | left; reflexivity].
  - intros y Hy; apply H; right; exact Hy.
Qed.
Lemma cntp_filter {A} (p q : A -> bool) l : cntp p (filter q l) = cntp (fun x => q x && p x) l.
Proof.
  induction l as [|x l IH]; [reflexivity|]. simpl. destruct (q x) eqn:E.
  - rewrite !cntp_cons, IH, E. reflexivity.
  - rewrite cntp_cons, IH, E. simpl. lia.
Qed.
Lemma cntp_true {A} (l : list A) : cntp (fun _ => true) l = Z.of_nat (length l).
Proof. induction l as [|x l IH]; [reflexivity|]. rewrite cntp_cons, IH. simpl length. unfold b2z. lia. Qed.
Lemma cntp_zero {A} (p : A -> bool) l : (forall x, In x l -> p x = false) -> cntp p l = 0.
Proof.
  induction l as [|x l IH]; intros H; [reflexivity|]. rewrite cntp_cons, IH, (H x); simpl; auto.
  intros y Hy; apply H; simpl; auto.
Qed.
