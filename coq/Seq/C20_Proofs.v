(* Seq/C20_Proofs.v — proofs for property C20 (metric consumers agree with what
   happened).  Every rolling.RunStats / FallbackStats counter is a C13 counter fed
   with the Inc history "stamps of the events of its kind"; the C13 refinement
   theorems then give totals and rolling sums as counts over the event history. *)
From Coq Require Import ZArith List Lia.
From Flocq Require Import IEEE754.BinarySingleNaN.
From CV Require Import Base.Prelude Seq.RollingCounter Seq.RollingCounter_Proofs Seq.RollingPercentile
  Seq.PercentileFloat Seq.Logic Seq.Circuit Seq.Stats.

Section Proofs.
Variables (n w start pn pw pcap healthy : Z).
Hypothesis Hn : 0 < n.
Hypothesis Hw : 0 < w.
Notation after evs := (stats_after n w start pn pw pcap healthy evs).
Notation sa h := (RollingCounter.state_after n w start h).

(* the operation history of the counter selected by sel *)
Definition hist (sel : sev -> bool) (evs : list sev) : list op := map (fun e => Inc (sev_time e)) (filter sel evs).

Lemma hist_snoc sel evs e : hist sel (evs ++ [e]) = hist sel evs ++ (if sel e then [Inc (sev_time e)] else []).
Proof. unfold hist. rewrite filter_app, map_app. cbn [filter]. destruct (sel e); reflexivity. Qed.

Lemma after_snoc evs e : after (evs ++ [e]) = feed n w start pn pw pcap healthy (after evs) e.
Proof. unfold stats_after. rewrite fold_left_app. reflexivity. Qed.

Lemma sa_snoc h o : sa (h ++ [o]) = fst (RollingCounter.step n w start (sa h) o).
Proof. unfold RollingCounter.state_after. rewrite fold_left_app. reflexivity. Qed.

Lemma inc_at_map {A} (eqb : A -> A -> bool) (F : A -> rc) k t : forall ks,
  inc_at n w start eqb ks k t (map F ks) = map (fun k' => if eqb k k' then inc n w start t (F k') else F k') ks.
Proof. induction ks as [|k' ks IH]; [reflexivity|]. cbn [map inc_at]. rewrite IH. reflexivity. Qed.

Lemma runkind_eqb_sym a b : runkind_eqb a b = runkind_eqb b a.
Proof. destruct a, b; reflexivity. Qed.
Lemma fbkind_eqb_sym a b : fbkind_eqb a b = fbkind_eqb b a.
Proof. destruct a, b; reflexivity. Qed.

(* every run counter is the C13 counter of its kind's events *)
Lemma run_counters evs :
  st_run (after evs) = map (fun k => sa (hist (is_run_kind k) evs)) kinds.
Proof.
  induction evs as [|e evs IH] using rev_ind; [reflexivity|].
  rewrite after_snoc. destruct e as [k t d | k t]; cbn [feed st_run].
  - rewrite IH, inc_at_map. apply map_ext. intros k'.
    rewrite hist_snoc. cbn [is_run_kind sev_time]. rewrite (runkind_eqb_sym k' k).
    destruct (runkind_eqb k k'); [|rewrite app_nil_r; reflexivity].
    rewrite sa_snoc. reflexivity.
  - rewrite IH. apply map_ext. intros k'. rewrite hist_snoc. cbn [is_run_kind]. rewrite app_nil_r. reflexivity.
Qed.
Lemma fb_counters evs :
  st_fb (after evs) = map (fun k => sa (hist (is_fb_kind k) evs)) fkinds.
Proof.
  induction evs as [|e evs IH] using rev_ind; [reflexivity|].
  rewrite after_snoc. destruct e as [k t d | k t]; cbn [feed st_fb].
  - rewrite IH. apply map_ext. intros k'. rewrite hist_snoc. cbn [is_fb_kind]. rewrite app_nil_r. reflexivity.
  - rewrite IH, inc_at_map. apply map_ext. intros k'.
    rewrite hist_snoc. cbn [is_fb_kind sev_time]. rewrite (fbkind_eqb_sym k' k).
    destruct (fbkind_eqb k k'); [|rewrite app_nil_r; reflexivity].
    rewrite sa_snoc. reflexivity.
Qed.

Lemma nthz_map {A} (F : A -> Z) (l : list A) i x : nth_error l i = Some x -> nthz (map F l) i = F x.
Proof.
  unfold nthz. revert i; induction l as [|y l IH]; intros [|i] H; cbn in *; try discriminate.
  - congruence.
  - apply IH; exact H.
Qed.

(* ---------- totals ---------- *)
Lemma count_incs_hist sel evs : count_incs (hist sel evs) = cntp sel evs.
Proof.
  unfold count_incs, hist. unfold cntp at 2. induction (filter sel evs) as [|e l IH]; [reflexivity|].
  cbn [map]. rewrite cntp_cons, IH. cbn [b2z length]. lia.
Qed.

Lemma tsum_sa h : tsum (sa h) = count_incs h.
Proof. pose proof (total_spec n w start Hn Hw h) as H. cbn [RollingCounter.step snd] in H. congruence. Qed.

Theorem totals_spec : forall evs i k, nth_error kinds i = Some k ->
  nthz (totals (st_run (after evs))) i = count_run k evs.
Proof.
  intros evs i k H. unfold totals. rewrite run_counters, map_map.
  rewrite (nthz_map _ _ _ _ H), tsum_sa, count_incs_hist. reflexivity.
Qed.
Theorem fb_totals_spec : forall evs i k, nth_error fkinds i = Some k ->
  nthz (totals (st_fb (after evs))) i = count_fb k evs.
Proof.
  intros evs i k H. unfold totals. rewrite fb_counters, map_map.
  rewrite (nthz_map _ _ _ _ H), tsum_sa, count_incs_hist. reflexivity.
Qed.

(* ---------- rolling sums ---------- *)
Lemma nondecr_bounds : forall l a b x, nondecr (a :: l ++ [b]) -> In x l -> a <= x <= b.
Proof.
  induction l as [|y l IH]; intros a b x H Hin; [destruct Hin|].
  cbn [app] in H. destruct H as [Hay H]. destruct Hin as [->|Hin].
  - split; [exact Hay|]. clear IH Hay. revert x H. induction l as [|z l IH]; intros x H.
    + cbn in H. lia.
    + cbn [app] in H. destruct H as [Hxz H]. specialize (IH z H). lia.
  - specialize (IH y b x H Hin). lia.
Qed.
Lemma nondecr_ends : forall l a b, nondecr (a :: l ++ [b]) -> a <= b.
Proof.
  induction l as [|y l IH]; intros a b H.
  - cbn in H. lia.
  - cbn [app] in H. destruct H as [Hay H]. specialize (IH y b H). lia.
Qed.

Lemma valid_ge t : start <= t -> valid start t = true.
Proof. intros H. unfold valid, off. pose proof (clamp64_neg (t - start)). apply Z.leb_le. lia. Qed.
Lemma idx_mono a b : a <= b -> idx w start a <= idx w start b.
Proof. intros H. unfold idx, off. apply Z.div_le_mono; [lia|]. apply clamp64_mono. lia. Qed.
Lemma idx_nonneg' t : start <= t -> 0 <= idx w start t.
Proof. intros H. unfold idx, off. apply Z.div_pos; [|lia]. pose proof (clamp64_neg (t - start)). lia. Qed.

Lemma latest_le (L : Z) : forall h acc, acc <= L ->
  (forall o t, In o h -> op_time o = Some t -> idx w start t <= L) ->
  fold_left (present w start) h acc <= L.
Proof.
  induction h as [|o h IH]; intros acc Ha H; [exact Ha|]. cbn [fold_left]. apply IH.
  - unfold present. destruct (op_time o) as [t|] eqn:E; [|exact Ha].
    destruct (valid start t); [|exact Ha]. specialize (H o t (or_introl eq_refl) E). lia.
  - intros o' t Hin. apply H. right; exact Hin.
Qed.

Lemma incs_hist sel evs : forall acc,
  fold_left incs_step (hist sel evs) acc = acc ++ map sev_time (filter sel evs).
Proof.
  unfold hist. induction (filter sel evs) as [|e l IH]; intros acc; [symmetry; apply app_nil_r|].
  cbn [map fold_left incs_step]. rewrite IH, <- app_assoc. reflexivity.
Qed.

Lemma cnt_window sel L : forall evs, (forall e, In e evs -> start <= sev_time e) ->
  cntp (in_window n w start L) (map sev_time (filter sel evs)) =
  cntp (fun e => sel e && (L - n <? idx w start (sev_time e))) evs.
Proof.
  induction evs as [|e evs IH]; intros H; [reflexivity|].
  rewrite cntp_cons, <- IH by (intros e' He'; apply H; right; exact He').
  cbn [filter]. destruct (sel e); cbn [andb map b2z]; [|lia].
  rewrite cntp_cons. unfold in_window at 1. rewrite (valid_ge (sev_time e)) by (apply H; left; reflexivity).
  reflexivity.
Qed.

Lemma rolling_counter sel evs now : forward_from start evs now ->
  snd (rolling_sum_at n w start now (sa (hist sel evs))) = cntp (fun e => sel e && in_stats_window n w start now e) evs.
Proof.
  intros [Hnd _].
  pose proof (rolling_sum_spec n w start Hn Hw (hist sel evs) now) as H. cbn [RollingCounter.step] in H.
  destruct (rolling_sum_at n w start now (sa (hist sel evs))) as [s1 v]. cbn [snd] in *.
  injection H as ->. rewrite live_length.
  assert (Hb : forall e, In e evs -> start <= sev_time e <= now).
  { intros e He. apply (nondecr_bounds (map sev_time evs) start now); [exact Hnd|]. apply in_map; exact He. }
  assert (Hsn : start <= now) by (apply (nondecr_ends _ _ _ Hnd)).
  assert (HL : latest w start (hist sel evs ++ [SumAt now]) = idx w start now).
  { unfold latest. rewrite fold_left_app. cbn [fold_left present op_time]. rewrite (valid_ge now Hsn).
    apply Z.max_r. apply latest_le; [apply idx_nonneg'; exact Hsn|].
    intros o t Hin Ho. unfold hist in Hin. apply in_map_iff in Hin. destruct Hin as (e & <- & He).
    cbn in Ho. injection Ho as <-. apply filter_In in He. apply idx_mono. apply Hb; tauto. }
  rewrite HL. unfold incs_since_reset. rewrite fold_left_app. cbn [fold_left incs_step].
  rewrite incs_hist. cbn [app]. apply cnt_window. intros e He. apply Hb; exact He.
Qed.

Lemma rollings_map (F : nat -> rc) now l : rollings n w start now l = map (fun c => snd (rolling_sum_at n w start now c)) l.
Proof. reflexivity. Qed.

Theorem rolling_spec : forall evs now i k, forward_from start evs now -> nth_error kinds i = Some k ->
  nthz (rollings n w start now (st_run (after evs))) i = count_run_in n w start now k evs.
Proof.
  intros evs now i k Hf H. unfold rollings. rewrite run_counters, map_map.
  rewrite (nthz_map _ _ _ _ H). apply rolling_counter. exact Hf.
Qed.
Theorem fb_rolling_spec : forall evs now i k, forward_from start evs now -> nth_error fkinds i = Some k ->
  nthz (rollings n w start now (st_fb (after evs))) i = count_fb_in n w start now k evs.
Proof.
  intros evs now i k Hf H. unfold rollings. rewrite fb_counters, map_map.
  rewrite (nthz_map _ _ _ _ H). apply rolling_counter. exact Hf.
Qed.

Lemma error_counts_spec evs now : forward_from start evs now ->
  error_counts n w start now (after evs) =
  (count_run_in n w start now KFailure evs + count_run_in n w start now KTimeout evs,
   count_run_in n w start now KSuccess evs + count_run_in n w start now KFailure evs + count_run_in n w start now KTimeout evs).
Proof.
  intros Hf. unfold error_counts.
  rewrite (rolling_spec evs now 0 KSuccess Hf eq_refl), (rolling_spec evs now 1 KFailure Hf eq_refl),
    (rolling_spec evs now 2 KTimeout Hf eq_refl). reflexivity.
Qed.

Theorem error_percentage_spec : forall evs now, forward_from start evs now ->
  let s := count_run_in n w start now KSuccess evs in
  let f := count_run_in n w start now KFailure evs in
  let t := count_run_in n w start now KTimeout evs in
  error_percentage n w start now (after evs) =
  if s + f + t =? 0 then f_of_Z 0 else Bdiv mode_NE (f_of_Z (f + t)) (f_of_Z (s + f + t)).
Proof. intros evs now Hf. cbn zeta. unfold error_percentage. rewrite (error_counts_spec evs now Hf). reflexivity. Qed.

Theorem slo_spec : forall evs,
  st_pass (after evs) = slo_passes healthy evs /\ st_fail (after evs) = slo_fails healthy evs.
Proof.
  induction evs as [|e evs [IHp IHf]] using rev_ind; [split; reflexivity|].
  rewrite after_snoc. unfold slo_passes, slo_fails. rewrite !cntp_app, !cntp_cons, !cntp_nil.
  fold (slo_passes healthy evs). fold (slo_fails healthy evs).
  destruct e as [k t d | k t]; cbn [feed st_pass st_fail]; rewrite IHp, IHf; cbn [b2z]; split; lia.
Qed.

Theorem slo_table : forall d,
  slo_pass healthy KSuccess d = (d <=? healthy) /\ slo_fail healthy KSuccess d = negb (d <=? healthy) /\
  (forall k, In k [KFailure; KTimeout; KReject; KShort] -> slo_pass healthy k d = false /\ slo_fail healthy k d = true) /\
  slo_pass healthy KInterrupt d = false /\ slo_fail healthy KInterrupt d = (healthy <? d) /\
  slo_pass healthy KBadRequest d = false /\ slo_fail healthy KBadRequest d = false.
Proof.
  intros d. repeat split; try reflexivity;
    destruct H as [<-|[<-|[<-|[<-|[]]]]]; reflexivity.
Qed.

Theorem stream_record_spec : forall evs now is_open, forward_from start evs now ->
  let cin k := count_run_in n w start now k evs in
  let ctot k := count_run k evs in
  let r := stream_record n w start now is_open (after evs) in
  sm_request_count r = cin KSuccess + cin KFailure + cin KTimeout + cin KInterrupt /\
  sm_error_count r = cin KFailure + cin KTimeout /\
  sm_rolling r = [cin KSuccess; cin KFailure; cin KTimeout; cin KBadRequest + cin KInterrupt; cin KReject; cin KShort] /\
  sm_total r = [ctot KSuccess; ctot KFailure; ctot KTimeout; ctot KBadRequest + ctot KInterrupt; ctot KReject; ctot KShort] /\
  sm_fb_rolling r = map (fun k => count_fb_in n w start now k evs) fkinds /\
  sm_fb_total r = map (fun k => count_fb k evs) fkinds /\
  sm_error_pct r = f_to_Z (Bmult mode_NE (f_of_Z 100) (error_percentage n w start now (after evs))) /\
  sm_open r = is_open.
Proof.
  intros evs now is_open Hf. cbn zeta. unfold stream_record. rewrite (error_counts_spec evs now Hf).
  cbn [sm_request_count sm_error_count sm_rolling sm_total sm_fb_rolling sm_fb_total sm_error_pct sm_open].
  rewrite (rolling_spec evs now 0 KSuccess Hf eq_refl), (rolling_spec evs now 1 KFailure Hf eq_refl),
    (rolling_spec evs now 2 KTimeout Hf eq_refl), (rolling_spec evs now 3 KBadRequest Hf eq_refl),
    (rolling_spec evs now 4 KInterrupt Hf eq_refl), (rolling_spec evs now 5 KReject Hf eq_refl),
    (rolling_spec evs now 6 KShort Hf eq_refl).
  rewrite (totals_spec evs 0 KSuccess eq_refl), (totals_spec evs 1 KFailure eq_refl),
    (totals_spec evs 2 KTimeout eq_refl), (totals_spec evs 3 KBadRequest eq_refl),
    (totals_spec evs 4 KInterrupt eq_refl), (totals_spec evs 5 KReject eq_refl),
    (totals_spec evs 6 KShort eq_refl).
  repeat split; try reflexivity.
  - unfold rollings. rewrite fb_counters, map_map. apply map_ext. intros k. apply rolling_counter. exact Hf.
  - unfold totals. rewrite fb_counters, map_map. apply map_ext. intros k. rewrite tsum_sa, count_incs_hist. reflexivity.
Qed.
End Proofs.
