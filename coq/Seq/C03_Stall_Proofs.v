(* Seq/C03_Stall_Proofs.v — how far D3 can go.  A caller that is stalled between reading the clock and reaching
   the hystrix closer's gate arrives with a stale stamp; faststats.TimedCheck then re-arms from that stamp.  If no
   caller (and no Opened/Closed notification) is ever stalled for longer than delta, the budget clause of C03 holds
   with SleepWindow - delta in place of SleepWindow: any max(1, HalfOpenAttempts) + 1 consecutive admissions, in the
   order in which the calls reach the gate, lie at least SleepWindow - delta apart.  delta = 0 is the case "stamps
   reach the gate in clock order".  Arbitrary histories of Check / SleepStart / timer firings (early, late, stale,
   never), any budget including 0 and negatives; sleep duration and budget not reconfigured in between. *)
From CV Require Import Base.Prelude Seq.TimedCheck.
From Coq Require Import Lia.

(* an arrival at the gate: the clock when the call reaches the gate, and what it does there *)
Definition arrival : Type := Z * tcop.

Section Bound.
Variables (s budget delta : Z).
Let K : Z := Z.max 1 budget.

Definition op_ok (a : arrival) : Prop :=
  match snd a with
  | TCheck t | TSleepStart t => t <= fst a /\ fst a - t <= delta
  | TFire _ => True
  | TSetSleep _ | TSetBudget _ => False
  end.

Fixpoint mono (prev : Z) (l : list arrival) : Prop :=
  match l with [] => True | a :: r => prev <= fst a /\ mono (fst a) r end.

(* ghost state: the model state, the admission times so far (oldest first), the latest re-arm (arrival time, stamp) *)
Record g := { g_c : tc; g_adm : list Z; g_re : option (Z * Z) }.

Definition gstep (x : g) (a : arrival) : g :=
  match snd a with
  | TCheck t =>
      let '(c1, b, armed) := tc_check t (g_c x) in
      {| g_c := c1; g_adm := if b then g_adm x ++ [fst a] else g_adm x;
         g_re := match armed with Some _ => Some (fst a, t) | None => g_re x end |}
  | TSleepStart t => {| g_c := fst (tc_sleep_start t (g_c x)); g_adm := g_adm x; g_re := Some (fst a, t) |}
  | o => {| g_c := fst (tc_step (g_c x) o); g_adm := g_adm x; g_re := g_re x |}
  end.

Definition spaced (A : list Z) : Prop :=
  forall i, (i + Z.to_nat K < length A)%nat -> s - delta <= nth (i + Z.to_nat K) A 0 - nth i A 0.

Definition Inv (last : Z) (x : g) : Prop :=
  tc_sleep (g_c x) = s /\ tc_budget (g_c x) = budget /\
  0 <= tc_count (g_c x) < K /\
  Forall (fun v => v <= last) (g_adm x) /\
  spaced (g_adm x) /\
  match g_re x with
  | Some (ar, sr) => tc_next (g_c x) = sr + s /\ ar - sr <= delta /\ ar <= last /\
                     Forall (fun v => v <= ar) (firstn (length (g_adm x) - Z.to_nat (tc_count (g_c x))) (g_adm x))
  | None => Z.of_nat (length (g_adm x)) = tc_count (g_c x)
  end.

Lemma Forall_le_trans (l : list Z) a b : a <= b -> Forall (fun v => v <= a) l -> Forall (fun v => v <= b) l.
Proof. intros H F. eapply Forall_impl; [|exact F]. intros v Hv; cbn in Hv; lia. Qed.

Lemma firstn_all_le (l : list Z) n b : Forall (fun v => v <= b) l -> Forall (fun v => v <= b) (firstn n l).
Proof.
  intros F. apply Forall_forall. intros v Hv. rewrite Forall_forall in F. apply F.
  rewrite <- (firstn_skipn n l). apply in_or_app. left; exact Hv.
Qed.

Lemma nth_firstn_le (l : list Z) : forall n i b,
  Forall (fun v => v <= b) (firstn n l) -> (i < n)%nat -> (i < length l)%nat -> nth i l 0 <= b.
Proof.
  induction l as [|h t IH]; intros n i b F Hi Hl; [cbn in Hl; lia|].
  destruct n as [|n]; [lia|]. cbn [firstn] in F. inversion F as [|? ? Hh Ht]; subst.
  destruct i as [|i]; [exact Hh|]. cbn [nth]. apply (IH n i b Ht); cbn in Hl; lia.
Qed.

Lemma spaced_snoc A a ar sr m :
  spaced A -> Forall (fun v => v <= ar) (firstn (length A - m) A) -> (m < Z.to_nat K)%nat ->
  sr + s <= a -> ar - sr <= delta -> spaced (A ++ [a]).
Proof.
  intros Hs Hf Hm Ha Hd i Hi. rewrite app_length in Hi. cbn [length] in Hi.
  destruct (Nat.eq_dec (i + Z.to_nat K) (length A)) as [E|E].
  - rewrite app_nth2 by lia. replace (i + Z.to_nat K - length A)%nat with 0%nat by lia. cbn [nth].
    rewrite app_nth1 by lia.
    assert (nth i A 0 <= ar) by (eapply nth_firstn_le; [exact Hf | lia | lia]). lia.
  - rewrite !app_nth1 by lia. apply Hs. lia.
Qed.

Ltac isplit := unfold Inv; cbn [g_c g_adm g_re tc_sleep tc_budget tc_count tc_next]; refine (conj _ (conj _ (conj _ (conj _ (conj _ _))))).

Lemma inv_same last last' x c' :
  Inv last x -> last <= last' ->
  tc_sleep c' = tc_sleep (g_c x) -> tc_budget c' = tc_budget (g_c x) -> tc_count c' = tc_count (g_c x) -> tc_next c' = tc_next (g_c x) ->
  Inv last' {| g_c := c'; g_adm := g_adm x; g_re := g_re x |}.
Proof.
  intros (Hs & Hb & Hc & Hle & Hsp & Hre) Hl E1 E2 E3 E4. isplit; rewrite ?E1, ?E2, ?E3, ?E4; try assumption.
  - eapply Forall_le_trans; [|exact Hle]. lia.
  - destruct (g_re x) as [[ar sr]|]; [|exact Hre]. destruct Hre as (H1 & H2 & H3 & H4).
    refine (conj _ (conj _ (conj _ _))); try assumption; lia.
Qed.

Lemma step_inv last x a : Inv last x -> op_ok a -> last <= fst a -> Inv (fst a) (gstep x a).
Proof.
  intros HI Hok Hlast. pose proof HI as (Hs & Hb & Hc & Hle & Hsp & Hre). destruct a as [at_ o]. cbn [fst snd] in *.
  unfold op_ok in Hok. cbn [snd fst] in Hok. unfold gstep. cbn [snd fst].
  assert (HKpos : 1 <= K) by (unfold K; lia).
  destruct o as [t|t|k|d|b]; try contradiction.
  - (* Check *)
    destruct Hok as [Ht Hd]. unfold tc_check.
    destruct (tc_fastfail (g_c x)) eqn:Eff; [apply (inv_same last); auto|].
    destruct (t <? tc_next (g_c x)) eqn:Elt; [apply (inv_same last); auto|].
    cbn [tc_budget tc_count].
    assert (Hspaced' : spaced (g_adm x ++ [at_])).
    { destruct (g_re x) as [[ar sr]|] eqn:Er.
      - destruct Hre as (H1 & H2 & H3 & H4).
        eapply (spaced_snoc _ _ ar sr (Z.to_nat (tc_count (g_c x)))); eauto; lia.
      - intros i Hi. rewrite app_length in Hi. cbn [length] in Hi. lia. }
    assert (Hle' : Forall (fun v => v <= at_) (g_adm x ++ [at_])).
    { apply Forall_app. split; [eapply Forall_le_trans; [|exact Hle]; lia | constructor; [lia|constructor]]. }
    destruct (tc_budget (g_c x) <=? tc_count (g_c x) + 1) eqn:Eb.
    + (* exhausting: re-arm from this stamp *)
      cbn [tc_rearm]. isplit; try assumption; try lia.
      refine (conj _ (conj _ (conj _ _))); try lia.
      rewrite Nat.sub_0_r, firstn_all. exact Hle'.
    + isplit; try assumption; try (unfold K; lia).
      destruct (g_re x) as [[ar sr]|] eqn:Er.
      * destruct Hre as (H1 & H2 & H3 & H4). refine (conj _ (conj _ (conj _ _))); try assumption; try lia.
        rewrite app_length. cbn [length].
        replace (length (g_adm x) + 1 - Z.to_nat (tc_count (g_c x) + 1))%nat with (length (g_adm x) - Z.to_nat (tc_count (g_c x)))%nat by lia.
        rewrite firstn_app. replace (length (g_adm x) - Z.to_nat (tc_count (g_c x)) - length (g_adm x))%nat with 0%nat by lia.
        cbn [firstn]. rewrite app_nil_r. exact H4.
      * rewrite app_length. cbn [length]. lia.
  - (* SleepStart *)
    destruct Hok as [Ht Hd]. cbn [tc_sleep_start tc_rearm fst]. isplit; try assumption; try lia.
    + eapply Forall_le_trans; [|exact Hle]. lia.
    + refine (conj _ (conj _ (conj _ _))); try lia.
      rewrite Nat.sub_0_r, firstn_all. eapply Forall_le_trans; [|exact Hle]. lia.
  - (* Fire *)
    cbn [tc_step fst]. unfold tc_fire.
    destruct (nth_error (tc_timers (g_c x)) k) as [v|]; [destruct (v =? tc_version (g_c x))|]; apply (inv_same last); auto.
Qed.

(* ---------- the theorem over whole histories ---------- *)
Fixpoint grun (x : g) (l : list arrival) : g := match l with [] => x | a :: r => grun (gstep x a) r end.
Definition g0 : g := {| g_c := tc_init s budget; g_adm := []; g_re := None |}.

Lemma grun_inv : forall l last x, Inv last x -> Forall op_ok l -> mono last l -> exists last', Inv last' (grun x l).
Proof.
  induction l as [|a l IH]; intros last x HI Hok Hm; [exists last; exact HI|].
  inversion Hok as [|? ? Ha Hl]; subst. destruct Hm as [Hm1 Hm2]. cbn [grun]. eapply IH; [eapply step_inv; eauto | assumption | exact Hm2].
Qed.

Theorem bounded_stall_spacing : forall l start,
  Forall op_ok l -> mono start l -> spaced (g_adm (grun g0 l)).
Proof.
  intros l start Hok Hm.
  assert (H0 : Inv start g0).
  { unfold g0. isplit; try reflexivity; try constructor; cbn; try (unfold K; lia).
    intros i Hi. cbn in Hi. lia. }
  destruct (grun_inv l start g0 H0 Hok Hm) as (last' & HI). apply HI.
Qed.

(* the ghost run is the model's run: admissions are exactly the successful checks, at their arrival times *)
Lemma grun_adm : forall l x,
  g_adm (grun x l) = g_adm x ++ map fst (filter (fun p => succeeded (snd p)) (combine (map fst l) (tc_run_from (g_c x) (map snd l)))) /\
  True.
Proof.
  induction l as [|a l IH]; intros x; [cbn; rewrite app_nil_r; auto|].
  destruct a as [at_ o]. cbn [grun map fst snd tc_run_from]. specialize (IH (gstep x (at_, o))). destruct IH as [IH _]. rewrite IH. split; [|exact I].
  unfold gstep. cbn [snd fst]. destruct o as [t|t|k|d|b]; cbn [tc_step].
  - destruct (tc_check t (g_c x)) as [[c1 b] armed]. cbn [g_c g_adm combine filter snd succeeded map fst].
    destruct b; cbn [filter snd succeeded map fst]; [rewrite <- app_assoc; reflexivity | reflexivity].
  - destruct (tc_sleep_start t (g_c x)) as [c1 d]. cbn [fst g_c g_adm combine filter snd succeeded map]. reflexivity.
  - cbn [fst g_c g_adm combine filter snd succeeded map]. reflexivity.
  - cbn [fst g_c g_adm combine filter snd succeeded map]. reflexivity.
  - cbn [fst g_c g_adm combine filter snd succeeded map]. reflexivity.
Qed.

(* in the vocabulary of Properties/C03.v: the admission times of a history of arrivals *)
Definition admitted_at' (arrivals : list arrival) : list Z :=
  map fst (filter (fun p => succeeded (snd p)) (combine (map fst arrivals) (tc_run s budget (map snd arrivals)))).

Theorem budget_bounded_stall : forall arrivals start,
  Forall op_ok arrivals -> mono start arrivals -> spaced (admitted_at' arrivals).
Proof.
  intros l start Hok Hm. pose proof (bounded_stall_spacing l start Hok Hm) as H.
  destruct (grun_adm l g0) as [E _]. rewrite E in H. cbn [g0 g_adm g_c app] in H. exact H.
Qed.
End Bound.
