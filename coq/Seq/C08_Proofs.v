(* Seq/C08_Proofs.v — proofs behind Properties/C08.v: operator overrides
   (ForceOpen / ForcedClosed) and the pass-through modes. *)
From Coq Require Import ZifyBool.
From CV Require Import Base.Prelude Seq.RollingCounter Seq.TimedCheck Seq.Logic Seq.Circuit Seq.CircuitSpec.

(* same body as Properties/C08.is_setconfig, so the statements are convertible *)
Definition is_setconfig_b (ev : event) : bool := match ev with SetConfig _ => true | _ => false end.

(* ---------- the overrides and the gate ---------- *)
Lemma force_open_sheds : forall s c,
  l_force_open (cfg s) = true -> is_open s = true /\ shed_by_open s c = true /\ gate s c = GShed.
Proof.
  intros s c H. unfold gate, shed_by_open, is_open. rewrite H. cbn. auto.
Qed.

Lemma forced_closed_admits : forall s c,
  l_forced_closed (cfg s) = true -> l_force_open (cfg s) = false ->
  is_open s = false /\ shed_by_open s c = false /\
  (opener_prevent (c_prevent c) (opn s) = false -> gate s c = if run_limit_hit s then GReject else GRun).
Proof.
  intros s c Hc Ho. unfold gate, shed_by_open, is_open. rewrite Ho, Hc. cbn.
  split; [reflexivity|]. split; [reflexivity|]. intros Hp. rewrite Hp. reflexivity.
Qed.

(* ---------- "quiet" segments: configuration and underlying flag untouched, nobody notified ---------- *)
Definition ov (s : state) : Prop := l_forced_closed (cfg s) = true \/ l_force_open (cfg s) = true.
Definition quiet (s : state) (r : state * list obs) : Prop :=
  cfg (fst r) = cfg s /\ flag (fst r) = flag s /\ any_circ_ev (snd r) = [].

Lemma nocirc_app a b : any_circ_ev (a ++ b) = any_circ_ev a ++ any_circ_ev b.
Proof. apply filter_app. Qed.
Lemma nocirc_runmap k t d l : any_circ_ev (map (fun w => ORunEv w k t d) l) = [].
Proof. induction l as [|x l IH]; cbn; auto. Qed.
Lemma nocirc_fb st k t d : any_circ_ev (emit_fb st k t d) = [].
Proof. unfold emit_fb. induction (seq 0 (s_nfb st)) as [|x l IH]; cbn; auto. Qed.
Lemma nocirc_timers l : any_circ_ev (map OTimer l) = [].
Proof. induction l as [|x l IH]; cbn; auto. Qed.

Lemma quiet_refl s o : any_circ_ev o = [] -> quiet s (s, o).
Proof. intros H. unfold quiet. cbn. auto. Qed.

(* sequencing: a quiet segment followed by a quiet segment, with any quiet prefix *)
Lemma quiet_seq s r1 r2 pre :
  any_circ_ev pre = [] -> quiet s r1 -> quiet (fst r1) r2 ->
  quiet s (fst r2, pre ++ snd r1 ++ snd r2).
Proof.
  unfold quiet. intros Hp (A1 & A2 & A3) (B1 & B2 & B3). cbn [fst snd].
  rewrite !nocirc_app, Hp, A3, B3. repeat split; congruence.
Qed.

Lemma emit_run_quiet st k t d s : quiet s (emit_run st k t d s).
Proof. unfold quiet, emit_run. cbn. rewrite nocirc_runmap. auto. Qed.

Lemma ov_cfg s s' : cfg s' = cfg s -> ov s -> ov s'.
Proof. unfold ov. intros E H. rewrite E. exact H. Qed.

Lemma open_circuit_ov st now s : ov s -> open_circuit st now s = (s, []).
Proof.
  intros H. unfold open_circuit, is_open.
  destruct (l_forced_closed (cfg s)) eqn:Ec; [reflexivity|].
  destruct (l_force_open (cfg s)) eqn:Eo; [reflexivity|].
  destruct H; congruence.
Qed.

Lemma close_circuit_ov st now force ans s : ov s -> close_circuit st now force ans s = (s, []).
Proof.
  intros H. unfold close_circuit, is_open.
  destruct (l_force_open (cfg s)) eqn:Eo; [reflexivity|].
  destruct (l_forced_closed (cfg s)) eqn:Ec; [reflexivity|].
  destruct H; congruence.
Qed.

Lemma attempt_to_open_ov st now ans s : ov s -> attempt_to_open st now ans s = (s, []).
Proof.
  intros H. unfold attempt_to_open, is_open.
  destruct (l_forced_closed (cfg s)) eqn:Ec; [reflexivity|].
  destruct (l_force_open (cfg s)) eqn:Eo; [reflexivity|].
  destruct H; congruence.
Qed.

Lemma fallback_stage_quiet st cs err ran derived s : quiet s (fallback_stage st cs err ran derived s).
Proof.
  unfold quiet, fallback_stage.
  destruct (negb (has_fb_eff (cs_call cs)) || l_fb_disabled (cfg s)); [cbn; auto|].
  destruct ((0 <=? l_fb_max (cfg s)) && (l_fb_max (cfg s) <? fbs s + 1)); cbn [fst snd].
  - rewrite nocirc_app, nocirc_fb. cbn. auto.
  - cbn. auto.
Qed.

(* `let (a, b) := r in (a, pre ++ b)` is a pair of projections *)
Lemma let_pair {A B C} (r : A * B) (f : A -> B -> C) : (let (a, b) := r in f a b) = f (fst r) (snd r).
Proof. destruct r; reflexivity. Qed.

(* Begin never touches the underlying flag and never notifies about the circuit, override or not *)
Lemma begin_call_quiet st id c s : quiet s (begin_call st id c s).
Proof.
  unfold begin_call.
  destruct (s_mode st); try (apply quiet_refl; reflexivity).
  - destruct (l_disabled (cfg s)); [unfold quiet; cbn; auto|].
    destruct (negb (c_has_run c)); [apply quiet_refl; reflexivity|].
    set (cs0 := {| cs_id := id; cs_call := c; cs_phase := PPass; cs_done := c_done c |}).
    (* allowNewRun: abstract its three results, keeping what we need of them *)
    match goal with |- quiet s (match ?A with _ => _ end) =>
      assert (Q1 : quiet s (fst (fst A), snd A)); [ | revert Q1; generalize A; intros [[s1 admitted] o1] Q1 ]
    end.
    { destruct (negb (is_open s)); [apply quiet_refl; reflexivity|].
      destruct (l_force_open (cfg s)); [apply quiet_refl; reflexivity|].
      destruct (closer_allow (clock s) (c_allow c) (cls s)) as [[cl1 b] timers].
      unfold quiet. cbn. rewrite nocirc_timers. auto. }
    destruct Q1 as (C1 & F1 & N1). cbn [fst snd] in C1, F1, N1.
    destruct (negb admitted).
    + rewrite !let_pair.
      pose proof (emit_run_quiet st KShort (clock s) None s1) as (C2 & F2 & N2).
      pose proof (fallback_stage_quiet st cs0 VCircuitOpen false false (fst (emit_run st KShort (clock s) None s1))) as (C3 & F3 & N3).
      unfold quiet. cbn [fst snd]. rewrite !nocirc_app, N1, N2, N3. repeat split; congruence.
    + destruct (opener_prevent (c_prevent c) (opn s1)).
      * rewrite !let_pair.
        pose proof (fallback_stage_quiet st cs0 VCircuitOpen false false s1) as (C3 & F3 & N3).
        unfold quiet. cbn [fst snd]. rewrite !nocirc_app, N1. cbn. rewrite N3. repeat split; congruence.
      * cbv zeta. destruct ((0 <=? l_max (cfg s1)) && (l_max (cfg s1) <? cmds s1 + 1)).
        -- rewrite !let_pair.
           pose proof (emit_run_quiet st KReject (clock s) None s1) as (C2 & F2 & N2).
           pose proof (fallback_stage_quiet st cs0 VThrottled false false (fst (emit_run st KReject (clock s) None s1))) as (C3 & F3 & N3).
           unfold quiet. cbn [fst snd]. rewrite !nocirc_app, N1. cbn. rewrite nocirc_app, N2, N3. repeat split; congruence.
        -- unfold quiet. cbn [fst snd]. rewrite !nocirc_app, N1. cbn. auto.
Qed.
