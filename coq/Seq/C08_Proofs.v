(* Seq/C08_Proofs.v — proofs behind Properties/C08.v: operator overrides
   (ForceOpen / ForcedClosed) and the pass-through modes. *)
From Coq Require Import ZifyBool.
From CV Require Import Base.Prelude Seq.RollingCounter Seq.TimedCheck Seq.Logic Seq.Circuit Seq.CircuitSpec.

(* same body as Properties/C08.is_setconfig, so the statements are convertible *)
Definition is_setconfig_b (ev : event) : bool := match ev with SetConfig _ => true | _ => false end.

(* ---------- the overrides and the gate ---------- *)
Lemma force_open_sheds : forall s c,
  l_force_open (cfg s) = true -> is_open s = true /\ shed_by_open s c = true /\ gate s c = GShed.
Proof.
  intros s c H. unfold gate, shed_by_open, is_open. rewrite H. cbn. auto.
Qed.

Lemma forced_closed_admits : forall s c,
  l_forced_closed (cfg s) = true -> l_force_open (cfg s) = false ->
  is_open s = false /\ shed_by_open s c = false /\
  (opener_prevent (c_prevent c) (opn s) = false -> gate s c = if run_limit_hit s then GReject else GRun).
Proof.
  intros s c Hc Ho. unfold gate, shed_by_open, is_open. rewrite Ho, Hc. cbn.
  split; [reflexivity|]. split; [reflexivity|]. intros Hp. rewrite Hp. reflexivity.
Qed.

(* ---------- "quiet" segments: configuration and underlying flag untouched, nobody notified ---------- *)
Definition ov (s : state) : Prop := l_forced_closed (cfg s) = true \/ l_force_open (cfg s) = true.
Definition NC (o : list obs) : Prop := any_circ_ev o = [].
Definition quiet (s : state) (r : state * list obs) : Prop :=
  cfg (fst r) = cfg s /\ flag (fst r) = flag s /\ NC (snd r).

Definition circ_free (o : obs) : bool := match o with OCircEv _ _ _ => false | _ => true end.
Lemma NC_nil : NC []. Proof. reflexivity. Qed.
Lemma NC_app a b : NC a -> NC b -> NC (a ++ b).
Proof. unfold NC, any_circ_ev. intros A B. rewrite filter_app, A, B. reflexivity. Qed.
Lemma NC_cons x l : circ_free x = true -> NC l -> NC (x :: l).
Proof. unfold NC. intros A B. destruct x; cbn in *; try exact B; discriminate. Qed.
Lemma NC_runmap k t d l : NC (map (fun w => ORunEv w k t d) l).
Proof. induction l as [|x l IH]; [apply NC_nil | apply NC_cons; [reflexivity | exact IH]]. Qed.
Lemma NC_fb st k t d : NC (emit_fb st k t d).
Proof. unfold emit_fb. induction (seq 0 (s_nfb st)) as [|x l IH]; [apply NC_nil | apply NC_cons; [reflexivity | exact IH]]. Qed.
Lemma NC_timers l : NC (map OTimer l).
Proof. induction l as [|x l IH]; [apply NC_nil | apply NC_cons; [reflexivity | exact IH]]. Qed.

Ltac nc := repeat first [ assumption | apply NC_nil | apply NC_runmap | apply NC_fb | apply NC_timers
                        | apply NC_cons; [reflexivity|] | apply NC_app ].

Lemma quiet_refl s o : NC o -> quiet s (s, o).
Proof. intros H. unfold quiet. cbn [fst snd]. auto. Qed.

Lemma emit_run_quiet st k t d s : quiet s (emit_run st k t d s).
Proof. unfold quiet, emit_run. cbn [fst snd]. repeat split. nc. Qed.

Lemma open_circuit_ov st now s : ov s -> open_circuit st now s = (s, []).
Proof.
  intros H. unfold open_circuit, is_open.
  destruct (l_forced_closed (cfg s)) eqn:Ec; [reflexivity|].
  destruct (l_force_open (cfg s)) eqn:Eo; [reflexivity|].
  destruct H; congruence.
Qed.

Lemma close_circuit_ov st now force ans s : ov s -> close_circuit st now force ans s = (s, []).
Proof.
  intros H. unfold close_circuit, is_open.
  destruct (l_force_open (cfg s)) eqn:Eo; [reflexivity|].
  destruct (l_forced_closed (cfg s)) eqn:Ec; [reflexivity|].
  destruct H; congruence.
Qed.

Lemma attempt_to_open_ov st now ans s : ov s -> attempt_to_open st now ans s = (s, []).
Proof.
  intros H. unfold attempt_to_open, is_open.
  destruct (l_forced_closed (cfg s)) eqn:Ec; [reflexivity|].
  destruct (l_force_open (cfg s)) eqn:Eo; [reflexivity|].
  destruct H; congruence.
Qed.

Lemma fallback_stage_quiet st cs err ran derived s : quiet s (fallback_stage st cs err ran derived s).
Proof.
  unfold quiet, fallback_stage.
  destruct (negb (has_fb_eff (cs_call cs)) || l_fb_disabled (cfg s)); [cbn [fst snd]; repeat split; nc|].
  destruct ((0 <=? l_fb_max (cfg s)) && (l_fb_max (cfg s) <? fbs s + 1)); cbn [fst snd]; repeat split; nc.
Qed.

(* `let (a, b) := r in f a b` is f on the projections *)
Lemma let_pair {A B C} (r : A * B) (f : A -> B -> C) : (let (a, b) := r in f a b) = f (fst r) (snd r).
Proof. destruct r; reflexivity. Qed.

(* Begin never touches the underlying flag and never notifies about the circuit, override or not *)
Lemma begin_call_quiet st id c s : quiet s (begin_call st id c s).
Proof.
  unfold begin_call.
  destruct (s_mode st); try (unfold quiet; cbn [fst snd]; repeat split; nc; fail).
  destruct (l_disabled (cfg s)); [unfold quiet; cbn [fst snd]; repeat split; nc|].
  destruct (negb (c_has_run c)); [apply quiet_refl; nc|].
  set (cs0 := {| cs_id := id; cs_call := c; cs_phase := PPass; cs_done := c_done c |}).
  (* allowNewRun: abstract its three results, keeping what we need of them *)
  match goal with |- quiet s (match ?A with _ => _ end) =>
    assert (Q1 : quiet s (fst (fst A), snd A)); [ | revert Q1; generalize A; intros [[s1 admitted] o1] Q1 ]
  end.
  { destruct (negb (is_open s)); [apply quiet_refl; nc|].
    destruct (l_force_open (cfg s)); [apply quiet_refl; nc|].
    destruct (closer_allow (clock s) (c_allow c) (cls s)) as [[cl1 b] timers].
    unfold quiet. cbn [fst snd]. repeat split. nc. }
  destruct Q1 as (C1 & F1 & N1). cbn [fst snd] in C1, F1, N1.
  destruct (negb admitted).
  - rewrite !let_pair.
    pose proof (emit_run_quiet st KShort (clock s) None s1) as (C2 & F2 & N2).
    pose proof (fallback_stage_quiet st cs0 VCircuitOpen false false (fst (emit_run st KShort (clock s) None s1))) as (C3 & F3 & N3).
    unfold quiet. cbn [fst snd]. repeat split; [congruence | congruence | nc].
  - destruct (opener_prevent (c_prevent c) (opn s1)).
    + rewrite !let_pair.
      pose proof (fallback_stage_quiet st cs0 VCircuitOpen false false s1) as (C3 & F3 & N3).
      unfold quiet. cbn [fst snd]. repeat split; [congruence | congruence | nc].
    + cbv zeta. destruct ((0 <=? l_max (cfg s1)) && (l_max (cfg s1) <? cmds s1 + 1)).
      * rewrite !let_pair.
        pose proof (emit_run_quiet st KReject (clock s) None s1) as (C2 & F2 & N2).
        pose proof (fallback_stage_quiet st cs0 VThrottled false false (fst (emit_run st KReject (clock s) None s1))) as (C3 & F3 & N3).
        unfold quiet. cbn [fst snd]. repeat split; [congruence | congruence | nc].
      * unfold quiet. cbn [fst snd]. repeat split; [exact C1 | exact F1 | nc].
Qed.

Ltac qtriv := unfold quiet; cbn [fst snd]; repeat split; nc.

(* under an override the transitions are no-ops, so EndRun is quiet too *)
Lemma end_run_quiet st id e s : ov s -> quiet s (end_run st id e s).
Proof.
  intros Hov. unfold end_run.
  destruct (find_call id s) as [cs|]; [|qtriv].
  destruct (cs_phase cs) as [start expected derived| |a b c]; [|qtriv|qtriv].
  destruct (e_res e) as [|k|k|k|v]; [..|qtriv].
  all: cbn [res_is_bad res_is_nil negb andb].
  all: match goal with |- quiet ?s0 (match ?A with _ => _ end) =>
         assert (Q1 : quiet s0 A); [ | revert Q1; generalize A; intros [s1 o1] (C1 & F1 & N1); cbn [fst snd] in C1, F1, N1 ]
       end.
  all: try (unfold emit_run; cbv beta iota;
            repeat match goal with |- quiet _ (if ?b then _ else _) => destruct b end;
            try rewrite attempt_to_open_ov by exact Hov;
            try rewrite close_circuit_ov by exact Hov;
            cbv beta iota; qtriv; fail).
  all: cbv zeta; try (qtriv; congruence).
  all: rewrite let_pair;
       match goal with |- context [fallback_stage ?a ?b ?c ?d ?e ?f] =>
         pose proof (fallback_stage_quiet a b c d e f) as (C3 & F3 & N3) end;
       cbn [cfg flag set_cmds] in C3, F3;
       unfold quiet; cbn [fst snd]; repeat split; [congruence | congruence | nc].
Qed.

Lemma end_fb_quiet st id f s : quiet s (end_fb st id f s).
Proof.
  unfold end_fb.
  destruct (find_call id s) as [cs|]; [|qtriv].
  destruct (cs_phase cs) as [start expected derived| |a b c]; [qtriv|qtriv|].
  destruct f; qtriv.
Qed.

Lemma reading_circ_free st s : circ_free (reading st s) = true.
Proof. unfold reading. destruct (s_mode st); reflexivity. Qed.

Lemma step_core_quiet st s ev : ov s -> is_setconfig_b ev = false -> quiet s (step_core st s ev).
Proof.
  intros Hov Hev. destruct ev as [id c|id e|id f|id| | |l|d|k]; cbn [step_core].
  - apply begin_call_quiet.
  - apply end_run_quiet; exact Hov.
  - apply end_fb_quiet.
  - unfold cancel_call. destruct (find_call id s); qtriv.
  - rewrite open_circuit_ov by exact Hov. qtriv.
  - rewrite close_circuit_ov by exact Hov. qtriv.
  - discriminate Hev.
  - qtriv.
  - qtriv.
Qed.

Lemma underlying_frozen (st : static) : forall s ev,
  (l_forced_closed (cfg s) = true \/ l_force_open (cfg s) = true) -> is_setconfig_b ev = false ->
  flag (fst (step st s ev)) = flag s /\ any_circ_ev (snd (step st s ev)) = [].
Proof.
  intros s ev Hov Hev.
  destruct (step_core_quiet st s ev Hov Hev) as (C & F & N).
  unfold step. destruct (step_core st s ev) as [s1 o]. cbn [fst snd] in *.
  split; [exact F|].
  change (NC (o ++ [reading st s1])). apply NC_app; [exact N|].
  apply NC_cons; [apply reading_circ_free | apply NC_nil].
Qed.

Lemma clear_resumes (st : static) : forall s l,
  let s' := fst (step st s (SetConfig l)) in
  flag s' = flag s /\ cfg s' = l /\
  (l_force_open l = false -> l_forced_closed l = false -> is_open s' = flag s) /\
  any_circ_ev (snd (step st s (SetConfig l))) = [].
Proof.
  intros s l. cbn. split; [reflexivity|]. split; [reflexivity|]. split.
  - intros H1 H2. unfold is_open. cbn. rewrite H1, H2. reflexivity.
  - unfold reading. destruct (s_mode st); reflexivity.
Qed.

(* ---------- pass-through ---------- *)
Lemma find_call_put_same c s : find_call (cs_id c) (put_call c s) = Some c.
Proof. unfold find_call, put_call. cbn. rewrite Nat.eqb_refl. reflexivity. Qed.

Lemma passthrough_begin (st : static) : forall s id c,
  passthrough st s -> c_has_run c = true ->
  let s' := fst (step st s (Begin id c)) in
  snd (step st s (Begin id c)) = [ORunInvoked id false (c_deadline c); reading st s'] /\
  cmds s' = cmds s /\ fbs s' = fbs s /\ flag s' = flag s /\ opn s' = opn s /\ cls s' = cls s /\ cfg s' = cfg s /\
  exists cs, find_call id s' = Some cs /\ cs_phase cs = PPass.
Proof.
  intros s id c Hp Hr.
  set (cs0 := {| cs_id := id; cs_call := c; cs_phase := PPass; cs_done := c_done c |}).
  assert (E : begin_call st id c s = (put_call cs0 s, [ORunInvoked id false (c_deadline c)])).
  { unfold begin_call. destruct Hp as [Hm | Hd].
    - destruct (s_mode st); [congruence | reflexivity | reflexivity].
    - rewrite Hd. destruct (s_mode st); reflexivity. }
  unfold step. cbn [step_core]. rewrite E. cbn [fst snd app].
  repeat (split; [reflexivity|]).
  exists cs0. split; [|reflexivity]. exact (find_call_put_same cs0 s).
Qed.

Lemma passthrough_end (st : static) : forall s id e cs,
  find_call id s = Some cs -> cs_phase cs = PPass ->
  let s' := fst (step st s (EndRun id e)) in
  snd (step st s (EndRun id e)) = [ORunEnd id (cs_done cs); OReturned id (res_val (e_res e)) (cs_done cs); reading st s'] /\
  cmds s' = cmds s /\ fbs s' = fbs s /\ flag s' = flag s /\ opn s' = opn s /\ cls s' = cls s /\ cfg s' = cfg s.
Proof.
  intros s id e cs Hf Hp.
  unfold step. cbn [step_core]. unfold end_run. rewrite Hf, Hp. cbn [fst snd app].
  repeat split.
Qed.
