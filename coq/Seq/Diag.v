(* Seq/Diag.v — what the diagnostics and the decisions that read OPTIONAL fields of
   the stored configuration do after SetConfigThreadSafe stored a partially
   filled Config verbatim (circuit.go SetConfigThreadSafe / Config / checkErrInterrupt,
   metriceventstream.go collectCommandMetrics, gowrapper.go).  Optional fields are
   the function-valued ones a caller may leave nil: TimeKeeper.Now,
   TimeKeeper.AfterFunc, GoLostErrors, Execution.IsErrInterrupt.  A nil function
   that the code would call is the outcome DPanic; the theorem diag_total says no
   query has that outcome for any configuration.  (Numeric fields have no "unset"
   state at this level: zero is a value, stored as it is -- Seq/Circuit.v.) *)
From CV Require Import Base.Prelude Seq.Logic Seq.Circuit.

Record optcfg := {
  oc_now : bool;          (* General.TimeKeeper.Now set *)
  oc_after : bool;        (* General.TimeKeeper.AfterFunc set *)
  oc_lost : bool;         (* General.GoLostErrors set *)
  oc_ie : ie_mode;        (* Execution.IsErrInterrupt: unset / says yes / says no *)
  oc_timeout : Z; oc_max : Z
}.

Inductive dquery :=
| DQConfig            (* Circuit.Config(): the stored copy *)
| DQStreamClock       (* which clock stamps an event-stream record *)
| DQInterruptKind     (* run-event kind of a failing call whose caller context is done (IgnoreInterrupts off, within the timeout) *)
| DQRead (k : nat).   (* IsOpen, gauges, Var/expvar of circuit and manager, stats snapshots, SLO tracker Var: k names which *)

Inductive dres :=
| DPanic
| DEcho (timeout max : Z) (now after lost : bool) (ie : Z)
| DClockIs (substitute : bool)      (* true: the configured TimeKeeper; false: time.Now *)
| DKind (k : runkind)
| DOk.

Definition ie_code (m : ie_mode) : Z := match m with IENil => 0 | IETrue => 1 | IEFalse => 2 end.

(* calling an optional function: a nil one would be a panic unless the code tests for it first *)
Definition guarded {A} (present : bool) (use : A) (fallback : A) : A := if present then use else fallback.

Definition diag (c : optcfg) (q : dquery) : dres :=
  match q with
  | DQConfig => DEcho (oc_timeout c) (oc_max c) (oc_now c) (oc_after c) (oc_lost c) (ie_code (oc_ie c))
  | DQStreamClock => guarded (oc_now c) (DClockIs true) (DClockIs false)      (* falls back to time.Now when unset *)
  | DQInterruptKind =>                  (* a limit of 0 is a value, stored as it is: it admits nobody *)
      DKind (if oc_max c =? 0 then KReject else if ie_says (oc_ie c) then KInterrupt else KFailure)   (* nil predicate: every such error is an interrupt *)
  | DQRead _ => DOk
  end.

Theorem diag_total : forall c q, diag c q <> DPanic.
Proof. intros c q. destruct q; cbn [diag]; unfold guarded; try destruct (oc_now c); discriminate. Qed.

(* ---------- evaluation side of the correspondence ---------- *)
Definition dres_eqb (a b : dres) : bool :=
  match a, b with
  | DPanic, DPanic | DOk, DOk => true
  | DEcho t m n a' l i, DEcho t2 m2 n2 a2 l2 i2 => (t =? t2) && (m =? m2) && Bool.eqb n n2 && Bool.eqb a' a2 && Bool.eqb l l2 && (i =? i2)
  | DClockIs x, DClockIs y => Bool.eqb x y
  | DKind k, DKind k2 => match k, k2 with KInterrupt, KInterrupt | KFailure, KFailure | KSuccess, KSuccess | KTimeout, KTimeout
                                        | KBadRequest, KBadRequest | KReject, KReject | KShort, KShort => true | _, _ => false end
  | _, _ => false
  end.
(* a case: the configuration stored last, and the queries with what the implementation answered *)
Definition diag_case : Type := nat * list (optcfg * dquery * dres).
Definition diag_mismatches (cs : list diag_case) : list (nat * nat) :=
  flat_map (fun c : diag_case =>
    let (id, qs) := c in
    flat_map (fun iq : nat * (optcfg * dquery * dres) =>
      let '(i, (cfg, q, r)) := iq in if dres_eqb (diag cfg q) r then [] else [(id, i)]) (combine (seq 0 (length qs)) qs)) cs.
