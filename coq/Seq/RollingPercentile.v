(* Seq/RollingPercentile.v — sequential model of faststats.RollingPercentile and
   durationsBucket (rolling_percentile.go) over RollingBuckets.Advance, the
   integer summaries of SortedDurations (Min, Max, Mean), and the history-level
   specification for C15.  Percentile (binary64) is in Seq/PercentileFloat.v.
   No proofs here. *)
From CV Require Import Base.Prelude Seq.RollingCounter.

(* durationsBucket: a fixed-size overwrite ring and the number of values ever added since the last clear *)
Record dbucket := { db_vals : list Z; db_cur : Z }.

Record rp := { rp_last : Z; rp_buckets : list dbucket; rp_fault : bool }.

Fixpoint insert_sorted (x : Z) (l : list Z) : list Z :=
  match l with
  | [] => [x]
  | y :: t => if x <=? y then x :: l else y :: insert_sorted x t
  end.
Definition isort (l : list Z) : list Z := fold_right insert_sorted [] l.

Section Percentile.
Variables (n w start cap : Z).   (* NumBuckets, BucketWidth, StartTime, bucket capacity *)

Definition db_empty : dbucket := {| db_vals := repeat 0 (Z.to_nat cap); db_cur := 0 |}.
Definition rp_init : rp :=
  {| rp_last := 0; rp_buckets := repeat db_empty (Z.to_nat n); rp_fault := false |}.

(* addDuration: nextIndex := currentIndex.Add(1) - 1; vals[nextIndex % len] = d *)
Definition db_add (d : Z) (b : dbucket) : dbucket :=
  if Z.of_nat (length (db_vals b)) =? 0 then b
  else {| db_vals := setz (db_vals b) (gomod (db_cur b) (Z.of_nat (length (db_vals b)))) d; db_cur := db_cur b + 1 |}.
(* Durations(): the first min(currentIndex, len) cells *)
Definition db_durations (b : dbucket) : list Z :=
  firstn (Z.to_nat (Z.min (db_cur b) (Z.of_nat (length (db_vals b))))) (db_vals b).
Definition db_clear (b : dbucket) : dbucket := {| db_vals := db_vals b; db_cur := 0 |}.

Definition bucket_at (s : rp) (j : Z) : dbucket := nth (Z.to_nat j) (rp_buckets s) db_empty.
Definition upd_bucket (s : rp) (j : Z) (f : dbucket -> dbucket) : rp :=
  {| rp_last := rp_last s;
     rp_buckets := setnth (Z.to_nat j) (f (bucket_at s j)) (rp_buckets s);
     rp_fault := rp_fault s || negb (inrange (rp_buckets s) j) |}.

Definition rp_clear1 (s : rp) (j : Z) : rp := upd_bucket s j db_clear.

Definition rp_advance (now : Z) (s : rp) : rp * option Z :=
  let '(l', cl, r) := advance_plan n w start (rp_last s) now in
  let s1 := fold_left rp_clear1 cl s in
  ({| rp_last := l'; rp_buckets := rp_buckets s1; rp_fault := rp_fault s1 |}, r).

(* AddDuration(d, now) *)
Definition rp_add (d now : Z) (s : rp) : rp :=
  if Z.of_nat (length (rp_buckets s)) =? 0 then s else
  match rp_advance now s with
  | (s1, None) => s1                               (* before the start / older than the window: ignored *)
  | (s1, Some j) => upd_bucket s1 j (db_add d)
  end.

(* SortedDurations(now) *)
Definition rp_snapshot (now : Z) (s : rp) : rp * list Z :=
  if Z.of_nat (length (rp_buckets s)) =? 0 then (s, []) else
  let (s1, _) := rp_advance now s in
  (s1, isort (flat_map db_durations (rp_buckets s1))).

Definition rp_reset (now : Z) (s : rp) : rp :=
  let (s1, _) := rp_advance now s in
  fold_left rp_clear1 (map Z.of_nat (seq 0 (Z.to_nat n))) s1.

Inductive rpop := PAdd (d t : Z) | PSnap (t : Z) | PReset (t : Z).
Inductive rpout := PNone | PList (l : list Z) | PPanic.

Definition rp_step (s : rp) (o : rpop) : rp * rpout :=
  match o with
  | PAdd d t => (rp_add d t s, PNone)
  | PSnap t => let (s1, l) := rp_snapshot t s in (s1, PList l)
  | PReset t => (rp_reset t s, PNone)
  end.
Definition rp_state_after (h : list rpop) : rp := fold_left (fun s o => fst (rp_step s o)) h rp_init.
Fixpoint rp_run_from (s : rp) (h : list rpop) : list rpout :=
  match h with [] => [] | o :: t => let (s1, x) := rp_step s o in x :: rp_run_from s1 t end.
Definition rp_run (h : list rpop) : list rpout := rp_run_from rp_init h.

(* ---------- specification over the history ---------- *)
Definition rp_op_time (o : rpop) : Z := match o with PAdd _ t | PSnap t | PReset t => t end.
Definition rp_present (acc : Z) (o : rpop) : Z :=
  if valid start (rp_op_time o) then Z.max acc (idx w start (rp_op_time o)) else acc.
Definition rp_latest (h : list rpop) : Z := fold_left rp_present h 0.

(* (stamp, duration) of the AddDuration calls since the last Reset that were accepted when made
   (not before the start, not older than the window as it stood then), oldest first *)
Definition rp_adds_step (acc : Z * list (Z * Z)) (o : rpop) : Z * list (Z * Z) :=
  let l := rp_present (fst acc) o in
  match o with
  | PAdd d t => (l, if in_window n w start l t then snd acc ++ [(t, d)] else snd acc)
  | PReset _ => (l, [])
  | PSnap _ => (l, snd acc)
  end.
Definition rp_adds (h : list rpop) : list (Z * Z) := snd (fold_left rp_adds_step h (0, [])).

(* the last k elements *)
Definition lastn {A} (k : nat) (l : list A) : list A := skipn (length l - k) l.
(* durations added to the bucket with absolute index i, oldest first *)
Definition bucket_durations (h : list rpop) (i : Z) : list Z :=
  map snd (filter (fun td => idx w start (fst td) =? i) (rp_adds h)).
(* what the window must hold: per bucket among the newest n, the most recent `cap` values *)
Definition window_sample (h : list rpop) : list Z :=
  flat_map (fun k => lastn (Z.to_nat cap) (bucket_durations h (rp_latest h - Z.of_nat k))) (seq 0 (Z.to_nat n)).
End Percentile.

(* ---------- integer summaries of a (sorted) sample ---------- *)
Definition sd_min (s : list Z) : Z := match s with [] => -1 | x :: _ => x end.
Definition sd_max (s : list Z) : Z := match s with [] => -1 | _ => List.last s 0 end.
(* Mean: int64 sum / int64 len, truncating (no overflow modelled: guard in the theorems) *)
Definition sd_mean (s : list Z) : Z := match s with [] => -1 | _ => godiv (zsum s) (Z.of_nat (length s)) end.
