(* Seq/C17_Proofs.v — proofs about the Manager model (Seq/Manager.v) and about
   operations that are one critical section of an RW-mutex (Conc/Serial.v, with
   the Manager as the instance Conc/ManagerConc.v).

   Level 1: a create succeeds exactly on a free name, created names are distinct,
   handles are stable, identity tokens are 0,1,... in creation order, a failed
   create changes nothing, a StatFactory's stats for a name belong to the live
   circuit, configuration precedence.
   Level 2: every reachable state of every interleaving is the sequential
   execution of the ghost log of completed writers, and every result reported is
   the result of the operation at a position of that sequential history. *)
From Coq Require Import ZifyBool Sorting.Permutation.
From CV Require Import Base.Prelude Seq.Manager Conc.Sched Conc.Serial Conc.ManagerConc.

(* same body as Properties/C17.v's is_stats *)
Definition is_stats_c (c : ctor) : bool := match c with CtorStats => true | _ => false end.

(* ---------- lists ---------- *)
Lemma find_app_none {A} (p : A -> bool) : forall l1 l2, find p l1 = None -> find p (l1 ++ l2) = find p l2.
Proof.
  induction l1 as [|x l1 IH]; intros l2 H; [reflexivity|]. cbn [find app] in *.
  destruct (p x); [discriminate|]. apply IH; exact H.
Qed.

Lemma find_app_some {A} (p : A -> bool) : forall l1 l2 x, find p l1 = Some x -> find p (l1 ++ l2) = Some x.
Proof.
  induction l1 as [|y l1 IH]; intros l2 x H; [discriminate|]. cbn [find app] in *.
  destruct (p y); [exact H|]. apply IH; exact H.
Qed.

Lemma find_name_none name : forall l,
  find (fun c => Nat.eqb (ci_name c) name) l = None <-> ~ In name (map ci_name l).
Proof.
  induction l as [|c l IH]; cbn [find map In].
  - tauto.
  - destruct (Nat.eqb (ci_name c) name) eqn:E.
    + apply Nat.eqb_eq in E. split; [discriminate|]. intros H; exfalso; apply H; left; exact E.
    + apply Nat.eqb_neq in E. rewrite IH. tauto.
Qed.

Lemma NoDup_snoc {A} (l : list A) x : NoDup l -> ~ In x l -> NoDup (l ++ [x]).
Proof.
  intros Hl Hx. eapply Permutation_NoDup; [apply Permutation_cons_append|].
  constructor; assumption.
Qed.

Lemma filter_rev_length {A} (p : A -> bool) : forall l, length (filter p (rev l)) = length (filter p l).
Proof.
  induction l as [|x l IH]; [reflexivity|]. cbn [rev filter].
  rewrite filter_app, app_length, IH. cbn [filter]. destruct (p x); cbn [length]; lia.
Qed.

(* ---------- gap / merge ---------- *)
Lemma gap_assoc a b c : gap a (gap b c) = gap (gap a b) c.
Proof. unfold gap. destruct (a =? 0) eqn:E; [reflexivity|]. rewrite E. reflexivity. Qed.

Lemma gap_0_l x : gap 0 x = x.
Proof. reflexivity. Qed.

Lemma fold_merge_num (f : mcfg -> Z) :
  (forall c o, f (mc_merge c o) = gap (f c) (f o)) ->
  forall l acc, f (fold_left mc_merge l acc) = gap (f acc) (first_set (map f l)).
Proof.
  intros Hf. induction l as [|x l IH]; intros acc; cbn [fold_left map first_set fold_right].
  - unfold gap. destruct (f acc =? 0) eqn:E; lia.
  - rewrite IH, Hf. fold (first_set (map f l)). symmetry. apply gap_assoc.
Qed.

Lemma fold_merge_bool (f : mcfg -> bool) :
  (forall c o, f (mc_merge c o) = f c || f o) ->
  forall l acc, f (fold_left mc_merge l acc) = f acc || existsb f l.
Proof.
  intros Hf. induction l as [|x l IH]; intros acc; cbn [fold_left existsb].
  - rewrite orb_false_r. reflexivity.
  - rewrite IH, Hf. rewrite orb_assoc. reflexivity.
Qed.

(* ---------- run_ctors ---------- *)
Lemma run_ctors_cfg name : forall cs acc reg next stats,
  fst (fst (fst (run_ctors name cs acc reg next stats))) = fold_left mc_merge (static_layers cs) acc.
Proof.
  induction cs as [|[c|] cs IH]; intros acc reg next stats; cbn [run_ctors static_layers flat_map app fold_left].
  - reflexivity.
  - apply IH.
  - apply IH.
Qed.

Lemma run_ctors_nostats name : forall cs acc reg next stats cfg reg' next' stats',
  run_ctors name cs acc reg next stats = (cfg, reg', next', stats') ->
  length (filter is_stats_c cs) = 0%nat ->
  reg' = reg /\ stats' = stats.
Proof.
  induction cs as [|[c|] cs IH]; intros acc reg next stats cfg reg' next' stats' H Hc;
    cbn [run_ctors filter is_stats_c length] in *.
  - inversion H; auto.
  - eapply IH; eauto.
  - discriminate.
Qed.

Lemma run_ctors_one name : forall cs acc reg next stats cfg reg' next' stats',
  run_ctors name cs acc reg next stats = (cfg, reg', next', stats') ->
  (length (filter is_stats_c cs) <= 1)%nat ->
  (reg' = reg /\ stats' = stats) \/
  (reg' = (name, next) :: reg /\ stats' = match stats with Some x => Some x | None => Some next end).
Proof.
  induction cs as [|[c|] cs IH]; intros acc reg next stats cfg reg' next' stats' H Hc;
    cbn [run_ctors filter is_stats_c length] in *.
  - inversion H; auto.
  - eapply IH; eauto.
  - right. eapply run_ctors_nostats in H; [exact H|lia].
Qed.

Section L1.
Variable defaults : list ctor.

Notation step := (m_step defaults).
Notation after := (m_state_after defaults).

(* ---------- the create step ---------- *)
Lemma failed_create_inert : forall s name ex,
  find_circuit name s <> None -> m_step defaults s (MCreate name ex) = (s, MExists).
Proof.
  intros s name ex H. cbn [m_step]. destruct (find_circuit name s); [reflexivity|congruence].
Qed.

Lemma create_new s name ex : find_circuit name s = None ->
  exists cfg1 reg next stats,
    run_ctors name (rev defaults) (fold_left mc_merge ex mc_zero) (m_registry s) (m_next s) None
      = (cfg1, reg, next, stats) /\
    m_step defaults s (MCreate name ex) =
      (let c := {| ci_id := length (m_circuits s); ci_name := name;
                   ci_cfg := mc_merge cfg1 mc_library; ci_stats := stats |} in
       let s' := {| m_circuits := m_circuits s ++ [c]; m_registry := reg; m_next := next |} in
       (s', MCreated (length (m_circuits s)) (mc_merge cfg1 mc_library) (stats_live name s'))).
Proof.
  intros H. cbn [m_step]. rewrite H.
  destruct (run_ctors name (rev defaults) (fold_left mc_merge ex mc_zero) (m_registry s) (m_next s) None)
    as [[[cfg1 reg] next] stats].
  exists cfg1, reg, next, stats. split; reflexivity.
Qed.

Lemma create_iff : forall s name ex,
  (exists id cfg b, snd (m_step defaults s (MCreate name ex)) = MCreated id cfg b) <-> find_circuit name s = None.
Proof.
  intros s name ex. split.
  - intros (id & cfg & b & H). destruct (find_circuit name s) eqn:E; [|reflexivity].
    rewrite failed_create_inert in H by congruence. discriminate.
  - intros E. destruct (create_new s name ex E) as (cfg1 & reg & next & stats & _ & ->).
    cbn [snd]. eauto.
Qed.

(* what a step does to the list of circuits *)
Lemma step_circuits s o :
  m_circuits (fst (step s o)) = m_circuits s \/
  exists name ex cfg st, o = MCreate name ex /\ find_circuit name s = None /\
    m_circuits (fst (step s o)) =
      m_circuits s ++ [{| ci_id := length (m_circuits s); ci_name := name; ci_cfg := cfg; ci_stats := st |}].
Proof.
  destruct o as [name ex|name| |name]; try (left; reflexivity).
  destruct (find_circuit name s) eqn:E.
  - left. rewrite failed_create_inert by congruence. reflexivity.
  - right. destruct (create_new s name ex E) as (cfg1 & reg & next & stats & _ & ->).
    cbn [fst m_circuits]. exists name, ex, (mc_merge cfg1 mc_library), stats. auto.
Qed.

Lemma find_circuit_none name s : find_circuit name s = None <-> ~ In name (created_names s).
Proof. apply find_name_none. Qed.

(* ---------- well-formed states ---------- *)
Definition wf (s : mstate) : Prop :=
  NoDup (created_names s) /\ map ci_id (m_circuits s) = seq 0 (length (m_circuits s)).

Lemma wf_step s o : wf s -> wf (fst (step s o)).
Proof.
  intros (Hn & Hi). unfold wf, created_names in *.
  destruct (step_circuits s o) as [->|(name & ex & cfg & st & _ & E & ->)]; [auto|].
  rewrite !map_app, app_length. cbn [map ci_name ci_id length]. split.
  - apply NoDup_snoc; [exact Hn|]. apply find_circuit_none; exact E.
  - rewrite Nat.add_1_r, seq_S, Hi. reflexivity.
Qed.

Lemma after_snoc h o : after (h ++ [o]) = fst (step (after h) o).
Proof. unfold m_state_after. rewrite fold_left_app. reflexivity. Qed.

Lemma after_app h h2 : after (h ++ h2) = fold_left (fun s o => fst (step s o)) h2 (after h).
Proof. unfold m_state_after. apply fold_left_app. Qed.

Lemma wf_after h : wf (after h).
Proof.
  induction h as [|o h IH] using rev_ind.
  - split; [constructor|reflexivity].
  - rewrite after_snoc. apply wf_step; exact IH.
Qed.

Lemma unique_names : forall h, NoDup (created_names (m_state_after defaults h)).
Proof. intros h. apply (wf_after h). Qed.

Lemma all_circuits : forall h,
  snd (m_step defaults (m_state_after defaults h) MAll)
  = MList (seq 0 (length (m_circuits (m_state_after defaults h)))) /\
  length (m_circuits (m_state_after defaults h)) = length (created_names (m_state_after defaults h)).
Proof.
  intros h. split.
  - cbn [m_step snd]. rewrite (proj2 (wf_after h)). reflexivity.
  - unfold created_names. rewrite map_length. reflexivity.
Qed.

(* ---------- stable handles ---------- *)
Lemma find_step_stable name s c o :
  find_circuit name s = Some c -> find_circuit name (fst (step s o)) = Some c.
Proof.
  intros H. unfold find_circuit in *.
  destruct (step_circuits s o) as [->|(n & ex & cfg & st & _ & _ & ->)]; [exact H|].
  apply find_app_some; exact H.
Qed.

Lemma find_fold_stable name c : forall h s,
  find_circuit name s = Some c ->
  find_circuit name (fold_left (fun s o => fst (step s o)) h s) = Some c.
Proof.
  induction h as [|o h IH]; intros s H; [exact H|]. cbn [fold_left]. apply IH.
  apply find_step_stable; exact H.
Qed.

Lemma get_stable : forall h h2 name ex id cfg b,
  snd (m_step defaults (m_state_after defaults h) (MCreate name ex)) = MCreated id cfg b ->
  snd (m_step defaults (m_state_after defaults (h ++ [MCreate name ex] ++ h2)) (MGet name)) = MFound (Some id).
Proof.
  intros h h2 name ex id cfg b H.
  assert (E : find_circuit name (after h) = None) by (apply (create_iff _ _ ex); eauto).
  rewrite app_assoc, after_app, after_snoc.
  destruct (create_new (after h) name ex E) as (cfg1 & reg & next & stats & _ & Hs).
  rewrite Hs in H |- *. cbn [snd fst] in *. inversion H; subst id cfg b. clear H.
  cbn [m_step snd].
  erewrite find_fold_stable.
  2:{ unfold find_circuit. cbn [m_circuits].
      rewrite find_app_none by exact E. cbn [find ci_name]. rewrite Nat.eqb_refl. reflexivity. }
  reflexivity.
Qed.

(* ---------- precedence ---------- *)
Lemma precedence : forall s name ex id cfg b,
  snd (m_step defaults s (MCreate name ex)) = MCreated id cfg b ->
  mc_timeout cfg = first_set (map mc_timeout (layers defaults ex)) /\
  mc_max cfg = first_set (map mc_max (layers defaults ex)) /\
  mc_fbmax cfg = first_set (map mc_fbmax (layers defaults ex)) /\
  mc_force_open cfg = existsb mc_force_open (layers defaults ex) /\
  mc_forced_closed cfg = existsb mc_forced_closed (layers defaults ex) /\
  mc_disabled cfg = existsb mc_disabled (layers defaults ex).
Proof.
  intros s name ex id cfg b H.
  assert (E : find_circuit name s = None) by (apply (create_iff _ _ ex); eauto).
  destruct (create_new s name ex E) as (cfg1 & reg & next & stats & Hr & Hs).
  rewrite Hs in H. cbn [snd] in H. inversion H; subst id cfg b. clear H Hs.
  assert (Hc : mc_merge cfg1 mc_library = fold_left mc_merge (layers defaults ex) mc_zero).
  { unfold layers. rewrite !fold_left_app. cbn [fold_left]. f_equal.
    rewrite <- run_ctors_cfg with (name := name) (reg := m_registry s) (next := m_next s) (stats := None).
    rewrite Hr. reflexivity. }
  rewrite Hc.
  repeat apply conj.
  - rewrite (fold_merge_num mc_timeout) by reflexivity. reflexivity.
  - rewrite (fold_merge_num mc_max) by reflexivity. reflexivity.
  - rewrite (fold_merge_num mc_fbmax) by reflexivity. reflexivity.
  - rewrite (fold_merge_bool mc_force_open) by reflexivity. reflexivity.
  - rewrite (fold_merge_bool mc_forced_closed) by reflexivity. reflexivity.
  - rewrite (fold_merge_bool mc_disabled) by reflexivity. reflexivity.
Qed.

(* ---------- the StatFactory's registry ---------- *)
Definition reg_ok (s : mstate) : Prop :=
  forall name tok, reg_lookup name (m_registry s) = Some tok ->
    exists c, find_circuit name s = Some c /\ ci_stats c = Some tok.

Lemma reg_lookup_cons_same name tok r : reg_lookup name ((name, tok) :: r) = Some tok.
Proof. unfold reg_lookup. cbn [find fst]. rewrite Nat.eqb_refl. reflexivity. Qed.

Lemma reg_lookup_cons_other name name' tok r :
  name' <> name -> reg_lookup name' ((name, tok) :: r) = reg_lookup name' r.
Proof.
  intros H. unfold reg_lookup. cbn [find fst].
  destruct (Nat.eqb name name') eqn:E; [apply Nat.eqb_eq in E; congruence|reflexivity].
Qed.

Lemma reg_ok_step s o :
  (length (filter is_stats_c defaults) <= 1)%nat -> reg_ok s -> reg_ok (fst (step s o)).
Proof.
  intros Hd Hs. destruct o as [name ex|name| |name]; try exact Hs.
  destruct (find_circuit name s) eqn:E.
  - rewrite failed_create_inert by congruence. exact Hs.
  - destruct (create_new s name ex E) as (cfg1 & reg & next & stats & Hr & ->).
    cbn [fst]. apply run_ctors_one in Hr; [|rewrite filter_rev_length; exact Hd].
    intros name' tok Hl. unfold find_circuit in *. cbn [m_registry m_circuits] in *.
    destruct (Nat.eq_dec name' name) as [->|Hne].
    + destruct Hr as [(-> & ->)|(-> & ->)].
      * destruct (Hs _ _ Hl) as (c & Hc & _). unfold find_circuit in Hc. congruence.
      * rewrite reg_lookup_cons_same in Hl. inversion Hl; subst tok.
        eexists. split.
        -- rewrite find_app_none by exact E. cbn [find ci_name]. rewrite Nat.eqb_refl. reflexivity.
        -- reflexivity.
    + assert (Hl' : reg_lookup name' (m_registry s) = Some tok).
      { destruct Hr as [(-> & ->)|(-> & ->)]; [exact Hl|].
        rewrite reg_lookup_cons_other in Hl by exact Hne. exact Hl. }
      destruct (Hs _ _ Hl') as (c & Hc & Hst). exists c. split; [|exact Hst].
      apply find_app_some. exact Hc.
Qed.

Lemma reg_ok_after h : (length (filter is_stats_c defaults) <= 1)%nat -> reg_ok (after h).
Proof.
  intros Hd. induction h as [|o h IH] using rev_ind.
  - intros name tok H. discriminate H.
  - rewrite after_snoc. apply reg_ok_step; assumption.
Qed.

Lemma stats_belong : forall h name b,
  (length (filter is_stats_c defaults) <= 1)%nat ->
  stats_live name (m_state_after defaults h) = Some b -> b = true.
Proof.
  intros h name b Hd H. unfold stats_live in H.
  destruct (reg_lookup name (m_registry (after h))) as [tok|] eqn:E; [|discriminate].
  destruct (reg_ok_after h Hd name tok E) as (c & Hc & Hst).
  rewrite Hc, Hst, Nat.eqb_refl in H. congruence.
Qed.
End L1.

(* ====================================================================== *)
(* Level 2: operations that are one critical section of an RW-mutex       *)
(* ====================================================================== *)

(* ---------- lists: upd / nth_error / cnt / filter ---------- *)
Lemma cnt_ge_s {A} (p : A -> bool) : forall l i x, nth_error l i = Some x -> Sched.b2z (p x) <= cnt p l.
Proof.
  induction l as [|h t IH]; intros [|j] x H; simpl in *; try discriminate; rewrite cnt_cons.
  - inversion H; subst. pose proof (cnt_nonneg _ p t). lia.
  - specialize (IH j x H). unfold Sched.b2z in *. destruct (p h); lia.
Qed.

Lemma filter_upd_same {A B} (p : A -> bool) (f : A -> B) : forall l i old new,
  nth_error l i = Some old -> p new = p old -> f new = f old ->
  map f (filter p (upd i new l)) = map f (filter p l).
Proof.
  induction l as [|h t IH]; intros [|j] old new H Hp Hf; simpl in *; try discriminate.
  - inversion H; subst. rewrite Hp. destruct (p old); cbn [map]; congruence.
  - destruct (p h); cbn [map]; rewrite (IH j old new H Hp Hf); reflexivity.
Qed.

Lemma filter_upd_add {A B} (p : A -> bool) (f : A -> B) : forall l i old new,
  nth_error l i = Some old -> p old = false -> p new = true ->
  Permutation (f new :: map f (filter p l)) (map f (filter p (upd i new l))).
Proof.
  induction l as [|h t IH]; intros [|j] old new H Ho Hn; simpl in *; try discriminate.
  - inversion H; subst. rewrite Ho, Hn. cbn [map]. apply Permutation_refl.
  - destruct (p h); cbn [map].
    + eapply Permutation_trans; [apply perm_swap|]. apply perm_skip. eapply IH; eauto.
    + eapply IH; eauto.
Qed.

Section L2.
Variables (St Op : Type) (apply : St -> Op -> St) (code : St -> Op -> Z) (is_write : Op -> bool).
Variables (st0 : St) (pool0 : list (sthread Op)).
Hypothesis Hpool : all_fresh_s pool0.

Notation sstep' := (sstep apply code is_write).

Definition in_unlock (t : sthread Op) : bool := match s_pc t with SpUnlock => true | _ => false end.
Definition wsec (t : sthread Op) : bool := is_write (s_op t) && in_unlock t.
Definition rsec (t : sthread Op) : bool := negb (is_write (s_op t)) && in_unlock t.

(* the result a finished operation reports is its result at a position of the log *)
Definition res_ok (sh : sshared St Op) (t : sthread Op) : Prop :=
  forall r, (s_pc t = SpFinish r \/ s_pc t = SpDone r) ->
    exists l1 l2, s_log sh = l1 ++ (if is_write (s_op t) then [s_op t] else []) ++ l2 /\
                  r = code (fold_left apply l1 st0) (s_op t).

Definition SInv (s : sshared St Op * list (sthread Op)) : Prop :=
  cnt wsec (snd s) = (if s_writer (fst s) then 1 else 0) /\
  cnt rsec (snd s) = s_readers (fst s) /\
  (s_writer (fst s) = true -> s_readers (fst s) = 0) /\
  s_state (fst s) = fold_left apply (s_log (fst s)) st0 /\
  Permutation (s_log (fst s)) (map s_op (filter (s_applied is_write) (snd s))) /\
  Forall (res_ok (fst s)) (snd s).

Lemma res_ok_same sh sh' t : s_log sh' = s_log sh -> res_ok sh t -> res_ok sh' t.
Proof. unfold res_ok. intros ->. exact (fun H => H). Qed.

Lemma res_ok_grow sh sh' x t : s_log sh' = s_log sh ++ [x] -> res_ok sh t -> res_ok sh' t.
Proof.
  intros E H r Hr. destruct (H r Hr) as (l1 & l2 & E1 & E2).
  exists l1, (l2 ++ [x]). split; [|exact E2]. rewrite E, E1. rewrite <- !app_assoc. reflexivity.
Qed.

Lemma res_ok_insection sh op : res_ok sh {| s_op := op; s_pc := SpUnlock |}.
Proof. intros r [H|H]; discriminate H. Qed.

Lemma fresh_not_applied : forall pool : list (sthread Op),
  all_fresh_s pool -> filter (s_applied is_write) pool = [].
Proof.
  induction pool as [|t l IH]; intros H; [reflexivity|].
  inversion H as [|t' l' [o Ho] Hl]; subst.
  cbn [filter]. unfold s_applied at 1. cbn [sthread0 s_pc s_op]. rewrite andb_false_r. apply IH; exact Hl.
Qed.

Lemma sinv_init : SInv (sinit st0, pool0).
Proof.
  unfold SInv. cbn [fst snd sinit s_writer s_readers s_state s_log fold_left].
  assert (Hw : Forall (fun t => wsec t = false) pool0).
  { eapply Forall_impl; [|exact Hpool]. intros t [o ->]. unfold wsec, in_unlock. cbn. apply andb_false_r. }
  assert (Hr : Forall (fun t => rsec t = false) pool0).
  { eapply Forall_impl; [|exact Hpool]. intros t [o ->]. unfold rsec, in_unlock. cbn. apply andb_false_r. }
  assert (Ha : filter (s_applied is_write) pool0 = []).
  { apply fresh_not_applied; exact Hpool. }
  repeat apply conj.
  - apply cnt_zero; exact Hw.
  - apply cnt_zero; exact Hr.
  - reflexivity.
  - reflexivity.
  - rewrite Ha. constructor.
  - eapply Forall_impl; [|exact Hpool]. intros t [o ->] r [H|H]; discriminate H.
Qed.

Lemma wsec_mk op pc :
  wsec {| s_op := op; s_pc := pc |} = is_write op && match pc with SpUnlock => true | _ => false end.
Proof. reflexivity. Qed.
Lemma rsec_mk op pc :
  rsec {| s_op := op; s_pc := pc |} = negb (is_write op) && match pc with SpUnlock => true | _ => false end.
Proof. reflexivity. Qed.

Lemma sinv_step s s' : SInv s -> gstep sstep' s s' -> SInv s'.
Proof.
  intros HI Hs. destruct Hs as [sh pool i lo sh' lo' lb Hn Ht].
  destruct HI as (Hw & Hr & Hwr & Hst & Hp & Hf). unfold SInv. cbn [fst snd] in *.
  pose proof (nth_error_Forall _ _ _ _ _ Hf Hn) as Hok.
  pose proof (cnt_ge_s wsec pool i lo Hn) as Hgw.
  pose proof (cnt_ge_s rsec pool i lo Hn) as Hgr.
  pose proof (cnt_nonneg _ rsec pool) as Hr0. rewrite Hr in Hr0.
  destruct lo as [op pc]. unfold sstep in Ht. cbn [s_pc s_op] in Ht.
  destruct pc as [| |r|r].
  - (* Lock / RLock *)
    destruct (is_write op) eqn:W.
    + destruct (s_writer sh || negb (s_readers sh =? 0)) eqn:G; [discriminate|].
      injection Ht as <- <- _. cbn [s_writer s_readers s_state s_log].
      repeat apply conj.
      * rewrite (cnt_upd _ wsec _ _ _ _ Hn), Hw, !wsec_mk, W. cbn.
        destruct (s_writer sh); [discriminate|]. lia.
      * rewrite (cnt_upd _ rsec _ _ _ _ Hn), Hr, !rsec_mk, W. cbn. lia.
      * intros _. lia.
      * exact Hst.
      * rewrite (filter_upd_same (s_applied is_write) s_op pool i _ _ Hn); [exact Hp| |reflexivity].
        unfold s_applied. cbn [s_op s_pc]. reflexivity.
      * apply Forall_upd; [|apply res_ok_insection].
        eapply Forall_impl; [|exact Hf]. intros t. apply res_ok_same. reflexivity.
    + destruct (s_writer sh) eqn:G; [discriminate|].
      injection Ht as <- <- _. cbn [s_writer s_readers s_state s_log].
      repeat apply conj.
      * rewrite (cnt_upd _ wsec _ _ _ _ Hn), Hw, !wsec_mk, W. cbn. lia.
      * rewrite (cnt_upd _ rsec _ _ _ _ Hn), Hr, !rsec_mk, W. cbn. lia.
      * discriminate.
      * exact Hst.
      * rewrite (filter_upd_same (s_applied is_write) s_op pool i _ _ Hn); [exact Hp| |reflexivity].
        unfold s_applied. cbn [s_op s_pc]. reflexivity.
      * apply Forall_upd; [|apply res_ok_insection].
        eapply Forall_impl; [|exact Hf]. intros t. apply res_ok_same. reflexivity.
  - (* Unlock / RUnlock *)
    destruct (is_write op) eqn:W.
    + injection Ht as <- <- _. cbn [s_writer s_readers s_state s_log].
      rewrite Hw, wsec_mk, W in Hgw. cbn in Hgw.
      repeat apply conj.
      * rewrite (cnt_upd _ wsec _ _ _ _ Hn), Hw, !wsec_mk, W. cbn.
        destruct (s_writer sh); lia.
      * rewrite (cnt_upd _ rsec _ _ _ _ Hn), Hr, !rsec_mk, W. cbn. lia.
      * discriminate.
      * rewrite fold_left_app. cbn [fold_left]. rewrite Hst. reflexivity.
      * eapply Permutation_trans; [apply Permutation_sym, Permutation_cons_append|].
        eapply Permutation_trans; [apply perm_skip; exact Hp|].
        apply (filter_upd_add (s_applied is_write) s_op pool i _
                 {| s_op := op; s_pc := SpFinish (code (s_state sh) op) |} Hn);
          unfold s_applied; cbn [s_op s_pc]; rewrite W; reflexivity.
      * apply Forall_upd.
        -- eapply Forall_impl; [|exact Hf]. intros t. apply (res_ok_grow _ _ op). reflexivity.
        -- intros r Hr'. cbn [s_pc s_op s_log] in *. rewrite W.
           exists (s_log sh), []. split; [reflexivity|].
           destruct Hr' as [Hr'|Hr']; inversion Hr'. rewrite Hst. reflexivity.
    + injection Ht as <- <- _. cbn [s_writer s_readers s_state s_log].
      rewrite Hr, rsec_mk, W in Hgr. cbn in Hgr.
      repeat apply conj.
      * rewrite (cnt_upd _ wsec _ _ _ _ Hn), Hw, !wsec_mk, W. cbn. lia.
      * rewrite (cnt_upd _ rsec _ _ _ _ Hn), Hr, !rsec_mk, W. cbn. lia.
      * intros Hwt. specialize (Hwr Hwt). lia.
      * exact Hst.
      * rewrite (filter_upd_same (s_applied is_write) s_op pool i _ _ Hn); [exact Hp| |reflexivity].
        unfold s_applied. cbn [s_op s_pc]. rewrite W. reflexivity.
      * apply Forall_upd.
        -- eapply Forall_impl; [|exact Hf]. intros t. apply res_ok_same. reflexivity.
        -- intros r Hr'. cbn [s_pc s_op s_log] in *. rewrite W.
           exists (s_log sh), []. split; [cbn [app]; rewrite app_nil_r; reflexivity|].
           destruct Hr' as [Hr'|Hr']; inversion Hr'. rewrite Hst. reflexivity.
  - (* Finish *)
    injection Ht as <- <- _.
    repeat apply conj.
    + rewrite (cnt_upd _ wsec _ _ _ _ Hn), Hw, !wsec_mk, !andb_false_r. cbn. lia.
    + rewrite (cnt_upd _ rsec _ _ _ _ Hn), Hr, !rsec_mk, !andb_false_r. cbn. lia.
    + exact Hwr.
    + exact Hst.
    + rewrite (filter_upd_same (s_applied is_write) s_op pool i _ _ Hn); [exact Hp| |reflexivity].
      unfold s_applied. cbn [s_op s_pc]. reflexivity.
    + apply Forall_upd; [exact Hf|].
      intros r' Hr'. cbn [s_pc s_op] in *.
      assert (r' = r) as -> by (destruct Hr' as [Hr'|Hr']; inversion Hr'; reflexivity).
      apply (Hok r). left. reflexivity.
  - discriminate Ht.
Qed.

Lemma sinv_reachable s : reach sstep' (sinit st0, pool0) s -> SInv s.
Proof. intros Hr. exact (inv_reach _ _ _ SInv _ sinv_init sinv_step s Hr). Qed.

Lemma l2_serial : forall s, reach (sstep apply code is_write) (sinit st0, pool0) s ->
  s_state (fst s) = fold_left apply (s_log (fst s)) st0 /\
  Permutation (s_log (fst s)) (map s_op (filter (s_applied is_write) (snd s))) /\
  (s_writer (fst s) = true -> s_readers (fst s) = 0).
Proof.
  intros s Hr. destruct (sinv_reachable s Hr) as (_ & _ & Hwr & Hst & Hp & _). auto.
Qed.

Lemma l2_results : forall s, reach (sstep apply code is_write) (sinit st0, pool0) s ->
  Forall (fun t => forall r, (s_pc t = SpFinish r \/ s_pc t = SpDone r) ->
            exists l1 l2, s_log (fst s) = l1 ++ (if is_write (s_op t) then [s_op t] else []) ++ l2 /\
                          r = code (fold_left apply l1 st0) (s_op t)) (snd s).
Proof.
  intros s Hr. destruct (sinv_reachable s Hr) as (_ & _ & _ & _ & _ & Hf). exact Hf.
Qed.

(* mutual exclusion, as counts of threads inside their sections *)
Lemma l2_mutex : forall s, reach (sstep apply code is_write) (sinit st0, pool0) s ->
  cnt wsec (snd s) = (if s_writer (fst s) then 1 else 0) /\
  cnt rsec (snd s) = s_readers (fst s) /\
  (s_writer (fst s) = true -> cnt rsec (snd s) = 0).
Proof.
  intros s Hr. destruct (sinv_reachable s Hr) as (Hw & Hrd & Hwr & _). rewrite Hrd. auto.
Qed.
End L2.

(* ---------- instance: the Manager ---------- *)
Lemma l2_unique : forall defaults pool0 s,
  all_fresh_s pool0 -> reach (mgr_step defaults) (sinit m_init, pool0) s ->
  NoDup (created_names (s_state (fst s))).
Proof.
  intros defaults pool0 s Hp Hr.
  destruct (l2_serial _ _ (mgr_apply defaults) (mgr_code defaults) mgr_is_write m_init pool0 Hp s Hr) as (E & _).
  rewrite E.
  change (fold_left (mgr_apply defaults) (s_log (fst s)) m_init)
    with (m_state_after defaults (s_log (fst s))).
  apply unique_names.
Qed.
