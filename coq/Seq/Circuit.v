(* Seq/Circuit.v — level-1 ("segment-atomic") model of circuit.Circuit
   (circuit.go, config.go, metrics.go, errors.go).

   Events are the maximal non-blocking segments of the real code (DESIGN.md
   section 2.1): any number of calls may be between Begin and EndRun / EndFb and
   events of different calls interleave arbitrarily.  The clock is frozen within
   a segment and moves only by Tick.  No proofs in this file. *)
From CV Require Import Base.Prelude Seq.RollingCounter Seq.TimedCheck Seq.Logic.

(* ---------- configuration that can change while live ---------- *)
Inductive ie_mode := IENil | IETrue | IEFalse.   (* Execution.IsErrInterrupt: unset / says yes / says no *)

Record live := {
  l_disabled : bool; l_force_open : bool; l_forced_closed : bool;
  l_timeout : Z; l_max : Z; l_ignore_int : bool; l_ie : ie_mode;
  l_fb_disabled : bool; l_fb_max : Z
}.

(* how the circuit value was obtained: a constructed circuit, a nil *Circuit, or
   a zero-value Circuit{} (the latter two are pure pass-through) *)
Inductive cmode := MNormal | MNil | MZero.

(* ---------- calls ---------- *)
Inductive entry := EExecute | ERun | EGo.
Record call := {
  c_has_run : bool; c_has_fb : bool; c_entry : entry;
  c_deadline : option Z;     (* the caller context's own deadline, if any *)
  c_done : bool;             (* the caller's context is already done when the call starts *)
  c_allow : bool; c_prevent : bool   (* answers custom Allow / Prevent would give to this call *)
}.

(* what the run function / fallback does when told to finish *)
Inductive res := RNil | RErr (k : nat) | RBad (k : nat) | RWrapBad (k : nat) | RPanic (v : nat).
Inductive fres := FNil | FErr (k : nat) | FPanic (v : nat).
Record endinfo := { e_res : res; e_should_open : bool; e_should_close : bool }.

Inductive event :=
| Begin (id : nat) (c : call)
| EndRun (id : nat) (e : endinfo)
| EndFb (id : nat) (f : fres)
| Cancel (id : nat)              (* the caller's context of call id is cancelled *)
| OpenCircuit | CloseCircuit
| SetConfig (l : live)
| Tick (d : Z)
| TimerFire (k : nat).

(* ---------- observations ---------- *)
(* error values by identity *)
Inductive retval :=
| VNil | VRun (k : nat) | VBad (k : nat) | VWrapBad (k : nat) | VFb (k : nat)
| VCircuitOpen | VThrottled | VFbThrottled | VPanic (v : nat).

Inductive fbkind := FKSuccess | FKFailure | FKReject.
Inductive who := WCloser | WOpener | WUser (i : nat).
Inductive question := QAllow | QPrevent | QShouldOpen | QShouldClose.

Inductive obs :=
| ORunInvoked (id : nat) (derived : bool) (deadline : option Z)   (* run function entered; the context it was given *)
| ORunEnd (id : nat) (ctx_done : bool)                            (* its context's state when it was told to finish *)
| OFbInvoked (id : nat) (err : retval) (same_ctx : bool)          (* fallback entered with this error and the caller's own context *)
| OReturned (id : nat) (v : retval) (ctx_done_after : bool)       (* the call returned / panicked; state of the run context afterwards *)
| ORunEv (w : who) (k : runkind) (t : Z) (d : option Z)
| OFbEv (i : nat) (k : fbkind) (t : Z) (d : option Z)
| OCircEv (w : who) (k : ckind) (t : Z)
| OAsked (q : question) (t : Z)                                   (* open/close logic consulted with this time argument *)
| OTimer (d : Z)                                                  (* AfterFunc registered with this duration *)
| OReading (is_open : bool) (cmds fbs : Z).                       (* IsOpen, ConcurrentCommands, ConcurrentFallbacks after the event *)

(* ---------- state ---------- *)
Inductive phase :=
| PRun (start : Z) (expected : option Z) (derived : bool)
| PPass                                  (* pass-through: disabled / nil / zero-value circuit *)
| PFb (fbstart : Z) (ran : bool) (derived : bool).   (* in the fallback; did the run function run, with a derived context? *)

Record callst := { cs_id : nat; cs_call : call; cs_phase : phase; cs_done : bool }.

Record state := {
  cfg : live; flag : bool; cmds : Z; fbs : Z;
  opn : opener; cls : closer; calls : list callst; clock : Z
}.

Record static := { s_mode : cmode; s_nrun : nat; s_nfb : nat; s_ncirc : nat }.

Definition set_calls (s : state) (c : list callst) : state :=
  {| cfg := cfg s; flag := flag s; cmds := cmds s; fbs := fbs s; opn := opn s; cls := cls s; calls := c; clock := clock s |}.
Definition set_cmds (s : state) (v : Z) : state :=
  {| cfg := cfg s; flag := flag s; cmds := v; fbs := fbs s; opn := opn s; cls := cls s; calls := calls s; clock := clock s |}.
Definition set_fbs (s : state) (v : Z) : state :=
  {| cfg := cfg s; flag := flag s; cmds := cmds s; fbs := v; opn := opn s; cls := cls s; calls := calls s; clock := clock s |}.
Definition set_logic (s : state) (o : opener) (c : closer) : state :=
  {| cfg := cfg s; flag := flag s; cmds := cmds s; fbs := fbs s; opn := o; cls := c; calls := calls s; clock := clock s |}.
Definition set_flag (s : state) (b : bool) : state :=
  {| cfg := cfg s; flag := b; cmds := cmds s; fbs := fbs s; opn := opn s; cls := cls s; calls := calls s; clock := clock s |}.
Definition set_cfg (s : state) (l : live) : state :=
  {| cfg := l; flag := flag s; cmds := cmds s; fbs := fbs s; opn := opn s; cls := cls s; calls := calls s; clock := clock s |}.
Definition set_clock (s : state) (t : Z) : state :=
  {| cfg := cfg s; flag := flag s; cmds := cmds s; fbs := fbs s; opn := opn s; cls := cls s; calls := calls s; clock := t |}.

Definition find_call (id : nat) (s : state) : option callst :=
  find (fun c => Nat.eqb (cs_id c) id) (calls s).
Definition drop_call (id : nat) (s : state) : state :=
  set_calls s (filter (fun c => negb (Nat.eqb (cs_id c) id)) (calls s)).
Definition put_call (c : callst) (s : state) : state :=
  set_calls s (c :: filter (fun x => negb (Nat.eqb (cs_id x) (cs_id c))) (calls s)).

(* IsOpen() *)
Definition is_open (s : state) : bool :=
  if l_force_open (cfg s) then true else if l_forced_closed (cfg s) then false else flag s.

(* ---------- fan-out ---------- *)
Definition users (n : nat) : list who := map WUser (seq 0 n).
Definition run_collectors (st : static) : list who := WCloser :: WOpener :: users (s_nrun st).
Definition circ_collectors (st : static) : list who := WCloser :: WOpener :: users (s_ncirc st).

(* a run event is delivered to closer, opener and every user collector, in that order *)
Definition emit_run (st : static) (k : runkind) (t : Z) (d : option Z) (s : state) : state * list obs :=
  (set_logic s (opener_run k t (opn s)) (closer_run k (cls s)),
   map (fun w => ORunEv w k t d) (run_collectors st)).

Definition emit_fb (st : static) (k : fbkind) (t : Z) (d : option Z) : list obs :=
  map (fun i => OFbEv i k t d) (seq 0 (s_nfb st)).

(* Opened / Closed notification: closer first (it restarts its sleep timer), then opener, then users *)
Definition emit_circ (st : static) (k : ckind) (t : Z) (s : state) : state * list obs :=
  let (c1, timers) := closer_circ t (cls s) in
  (set_logic s (opener_circ k t (opn s)) c1,
   OCircEv WCloser k t :: map OTimer timers ++ OCircEv WOpener k t :: map (fun w => OCircEv w k t) (users (s_ncirc st))).

(* openCircuit(now) *)
Definition open_circuit (st : static) (now : Z) (s : state) : state * list obs :=
  if l_forced_closed (cfg s) then (s, [])
  else if is_open s then (s, [])
  else let (s1, o) := emit_circ st Opened now s in (set_flag s1 true, o).

(* close(now, forceClosed); `ans` answers a custom ShouldClose *)
Definition close_circuit (st : static) (now : Z) (force ans : bool) (s : state) : state * list obs :=
  if negb (is_open s) then (s, [])
  else if l_force_open (cfg s) then (s, [])
  else if force then let (s1, o) := emit_circ st Closed now s in (set_flag s1 false, o)
  else if closer_should_close ans (cls s)
       then let (s1, o) := emit_circ st Closed now s in (set_flag s1 false, OAsked QShouldClose now :: o)
       else (s, [OAsked QShouldClose now]).

(* attemptToOpen(now) *)
Definition attempt_to_open (st : static) (now : Z) (ans : bool) (s : state) : state * list obs :=
  if l_forced_closed (cfg s) then (s, [])
  else if is_open s then (s, [])
  else
    let (o1, b) := opener_should_open now ans (opn s) in
    let s1 := set_logic s o1 (cls s) in
    if b then let (s2, o) := open_circuit st now s1 in (s2, OAsked QShouldOpen now :: o)
    else (s1, [OAsked QShouldOpen now]).

(* ---------- the fallback stage of Execute ---------- *)
Definition has_fb_eff (c : call) : bool :=
  match c_entry c with ERun => false | _ => c_has_fb c end.

(* entered with the run step's error `err`; `ran`/`derived` describe the run context for OReturned *)
Definition fallback_stage (st : static) (cs : callst) (err : retval) (ran derived : bool) (s : state) : state * list obs :=
  let id := cs_id cs in
  let after := if ran then (if derived then true else cs_done cs) else false in
  if negb (has_fb_eff (cs_call cs)) || l_fb_disabled (cfg s) then
    (drop_call id s, [OReturned id err after])
  else
    let n := fbs s + 1 in
    if (0 <=? l_fb_max (cfg s)) && (l_fb_max (cfg s) <? n) then
      (drop_call id s, emit_fb st FKReject (clock s) None ++ [OReturned id VFbThrottled after])
    else
      (put_call {| cs_id := id; cs_call := cs_call cs; cs_phase := PFb (clock s) ran derived; cs_done := cs_done cs |}
                (set_fbs s n),
       [OFbInvoked id err true]).

(* ---------- Begin: Execute entry up to runFunc entry / rejection ---------- *)
Definition min_deadline (a : option Z) (b : Z) : Z :=
  match a with Some x => Z.min x b | None => b end.

Definition begin_call (st : static) (id : nat) (c : call) (s : state) : state * list obs :=
  let cs0 := {| cs_id := id; cs_call := c; cs_phase := PPass; cs_done := c_done c |} in
  match s_mode st with
  | MNil | MZero =>
      (put_call cs0 s, [ORunInvoked id false (c_deadline c)])
  | MNormal =>
    if l_disabled (cfg s) then (put_call cs0 s, [ORunInvoked id false (c_deadline c)])
    else if negb (c_has_run c) then (s, [OReturned id VNil false])
    else
      let now := clock s in
      (* allowNewRun *)
      let '(s1, admitted, o1) :=
        if negb (is_open s) then (s, true, [])
        else if l_force_open (cfg s) then (s, false, [])
        else let '(cl1, b, timers) := closer_allow now (c_allow c) (cls s) in
             (set_logic s (opn s) cl1, b, OAsked QAllow now :: map OTimer timers) in
      if negb admitted then
        let (s2, o2) := emit_run st KShort now None s1 in
        let (s3, o3) := fallback_stage st cs0 VCircuitOpen false false s2 in
        (s3, o1 ++ o2 ++ o3)
      else if opener_prevent (c_prevent c) (opn s1) then
        let (s3, o3) := fallback_stage st cs0 VCircuitOpen false false s1 in
        (s3, o1 ++ OAsked QPrevent now :: o3)
      else
        let n := cmds s1 + 1 in
        if (0 <=? l_max (cfg s1)) && (l_max (cfg s1) <? n) then
          (* the gauge is raised, the rejection event is sent, the gauge is released, then the fallback stage *)
          let (s2, o2) := emit_run st KReject now None s1 in
          let (s3, o3) := fallback_stage st cs0 VThrottled false false s2 in
          (s3, o1 ++ OAsked QPrevent now :: o2 ++ o3)
        else
          let derived := 0 <? l_timeout (cfg s1) in
          let expected := if derived then Some (now + l_timeout (cfg s1)) else None in
          let dl := if derived then Some (min_deadline (c_deadline c) (now + l_timeout (cfg s1))) else c_deadline c in
          (put_call {| cs_id := id; cs_call := c; cs_phase := PRun now expected derived; cs_done := c_done c |}
                    (set_cmds s1 n),
           o1 ++ [OAsked QPrevent now; ORunInvoked id derived dl])
  end.

(* ---------- EndRun: runFunc returns, classification, fan-out, transitions ---------- *)
Definition res_val (r : res) : retval :=
  match r with RNil => VNil | RErr k => VRun k | RBad k => VBad k | RWrapBad k => VWrapBad k | RPanic v => VPanic v end.
Definition res_is_bad (r : res) : bool := match r with RBad _ | RWrapBad _ => true | _ => false end.
Definition res_is_nil (r : res) : bool := match r with RNil => true | _ => false end.
Definition ie_says (m : ie_mode) : bool := match m with IEFalse => false | _ => true end.

Definition end_run (st : static) (id : nat) (e : endinfo) (s : state) : state * list obs :=
  match find_call id s with
  | Some cs =>
    match cs_phase cs with
    | PPass =>
        (* pass-through: the function's result (or panic) is the call's result; nothing else happens *)
        (drop_call id s, [ORunEnd id (cs_done cs); OReturned id (res_val (e_res e)) (cs_done cs)])
    | PRun start expected derived =>
        let now := clock s in
        let dur := now - start in
        let after := if derived then true else cs_done cs in
        let seen := ORunEnd id (cs_done cs) in
        match e_res e with
        | RPanic v =>
            (* deferred: timeoutCancel, concurrentCommands.Add(-1); no event, no fallback *)
            (drop_call id (set_cmds s (cmds s - 1)), [seen; OReturned id (VPanic v) after])
        | r =>
            let timed_out := match expected with Some x => x <? now | None => false end in
            let interrupted := negb (res_is_nil r) && cs_done cs && negb (l_ignore_int (cfg s)) && ie_says (l_ie (cfg s)) in
            let '(s1, o1) :=
              if res_is_bad r then emit_run st KBadRequest now (Some dur) s
              else if timed_out then
                let (sa, oa) := emit_run st KTimeout now (Some dur) s in
                if negb (is_open sa) then let (sb, ob) := attempt_to_open st now (e_should_open e) sa in (sb, oa ++ ob)
                else (sa, oa)
              else if interrupted then emit_run st KInterrupt now (Some dur) s
              else if negb (res_is_nil r) then
                let (sa, oa) := emit_run st KFailure now (Some dur) s in
                if negb (is_open sa) then let (sb, ob) := attempt_to_open st now (e_should_open e) sa in (sb, oa ++ ob)
                else (sa, oa)
              else
                let (sa, oa) := emit_run st KSuccess now (Some dur) s in
                if is_open sa then let (sb, ob) := close_circuit st now false (e_should_close e) sa in (sb, oa ++ ob)
                else (sa, oa) in
            let s2 := set_cmds s1 (cmds s1 - 1) in
            if res_is_nil r then (drop_call id s2, seen :: o1 ++ [OReturned id VNil after])
            else if res_is_bad r then (drop_call id s2, seen :: o1 ++ [OReturned id (res_val r) after])
            else let (s3, o3) := fallback_stage st cs (res_val r) true derived s2 in (s3, seen :: o1 ++ o3)
        end
    | PFb _ _ _ => (s, [])
    end
  | None => (s, [])
  end.

(* ---------- EndFb ---------- *)
Definition end_fb (st : static) (id : nat) (f : fres) (s : state) : state * list obs :=
  match find_call id s with
  | Some cs =>
    match cs_phase cs with
    | PFb fbstart ran derived =>
        let after := if ran then (if derived then true else cs_done cs) else false in
        let dur := clock s - fbstart in
        let s1 := drop_call id (set_fbs s (fbs s - 1)) in
        match f with
        | FPanic v => (s1, [OReturned id (VPanic v) after])
        | FErr k => (s1, emit_fb st FKFailure fbstart (Some dur) ++ [OReturned id (VFb k) after])
        | FNil => (s1, emit_fb st FKSuccess fbstart (Some dur) ++ [OReturned id VNil after])
        end
    | _ => (s, [])
    end
  | None => (s, [])
  end.

Definition cancel_call (id : nat) (s : state) : state :=
  match find_call id s with
  | Some cs => put_call {| cs_id := id; cs_call := cs_call cs; cs_phase := cs_phase cs; cs_done := true |} s
  | None => s
  end.

(* ---------- one event ---------- *)
Definition reading (st : static) (s : state) : obs :=
  match s_mode st with
  | MNil => OReading false 0 0          (* IsOpen() on a nil circuit; the gauges of a nil circuit are not read *)
  | _ => OReading (is_open s) (cmds s) (fbs s)
  end.

Definition step_core (st : static) (s : state) (ev : event) : state * list obs :=
  match ev with
  | Begin id c => begin_call st id c s
  | EndRun id e => end_run st id e s
  | EndFb id f => end_fb st id f s
  | Cancel id => (cancel_call id s, [])
  | OpenCircuit => open_circuit st (clock s) s
  | CloseCircuit => close_circuit st (clock s) true false s
  | SetConfig l => (set_cfg s l, [])
  | Tick d => (set_clock s (clock s + d), [])
  | TimerFire k => (set_logic s (opn s) (closer_fire k (cls s)), [])
  end.

Definition step (st : static) (s : state) (ev : event) : state * list obs :=
  let (s1, o) := step_core st s ev in (s1, o ++ [reading st s1]).

Definition init_state (l : live) (o : opener) (c : closer) (t0 : Z) : state :=
  {| cfg := l; flag := false; cmds := 0; fbs := 0; opn := o; cls := c; calls := []; clock := t0 |}.

Definition state_after (st : static) (s0 : state) (h : list event) : state :=
  fold_left (fun s ev => fst (step st s ev)) h s0.

Fixpoint run_from (st : static) (s : state) (h : list event) : list (list obs) :=
  match h with [] => [] | ev :: t => let (s1, o) := step st s ev in o :: run_from st s1 t end.
