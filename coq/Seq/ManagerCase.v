(* Seq/ManagerCase.v — evaluation side of the Manager correspondence. *)
From CV Require Import Base.Prelude Seq.Manager Seq.CaseCheck.

Definition mout_eq_dec : forall a b : mout, {a = b} + {a <> b}.
Proof. repeat decide equality. Defined.
Definition mout_eqb (a b : mout) : bool := if mout_eq_dec a b then true else false.
(* AllCircuits iterates a Go map: compare as sets of distinct ids (the harness sorts) *)
Definition mgr_case : Type := nat * list ctor * list mop * list mout.
Definition mgr_mismatches (cs : list mgr_case) : list (nat * list mout) :=
  flat_map (fun c : mgr_case =>
    let '(id, defaults, ops, outs) := c in
    let m := m_run defaults ops in
    if list_eqb mout_eqb m outs then [] else [(id, m)]) cs.
