(* Seq/LogicCase.v — the built-in open/close logic driven directly (family "logic"):
   the callbacks a circuit makes on hystrix.Opener / simplelogic.ConsecutiveErrOpener /
   hystrix.Closer, in any order and with any (also non-monotonic) times, interleaved with
   their live reconfiguration (SetConfigThreadSafe).  Built from the functions of
   Seq/Logic.v that the circuit model uses; the three setters are the only additions. *)
From CV Require Import Base.Prelude Seq.RollingCounter Seq.TimedCheck Seq.Logic Seq.CaseCheck.

(* Opener.SetConfigThreadSafe: only the two atomics change; counters and window stay *)
Definition ho_set (pct vol : Z) (h : hopener) : hopener :=
  {| ho_n := ho_n h; ho_w := ho_w h; ho_start := ho_start h; ho_pct := pct; ho_vol := vol; ho_err := ho_err h; ho_att := ho_att h |}.
Definition opener_set_hystrix (pct vol : Z) (o : opener) : opener :=
  match o with OpHystrix h => OpHystrix (ho_set pct vol h) | _ => o end.
(* ConsecutiveErrOpener.SetConfigThreadSafe: the threshold; the streak stays *)
Definition opener_set_consec (thr : Z) (o : opener) : opener :=
  match o with OpConsec c _ => OpConsec c thr | _ => o end.
(* Closer.SetConfigThreadSafe: sleep duration and budget of the gate (used at the next re-arm / check),
   required successes; the success count and the gate's armed state stay *)
Definition closer_set (sleep half req : Z) (c : closer) : closer :=
  match c with ClHystrix t s _ => ClHystrix (tc_set_budget half (tc_set_sleep sleep t)) s req | _ => c end.

Inductive lop :=
| LRun (k : runkind) (t : Z)
| LCirc (k : ckind) (t : Z)
| LShouldOpen (t : Z) | LPrevent (t : Z) | LAllow (t : Z) | LShouldClose (t : Z)
| LFire (k : nat)
| LSetOpener (pct vol : Z) | LSetThr (thr : Z) | LSetCloser (sleep half req : Z).

Inductive lout := LONone | LOBool (b : bool) | LOAllow (b : bool) (armed : list Z) | LOArmed (armed : list Z).

Definition lstate : Type := opener * closer.

Definition lstep (s : lstate) (o : lop) : lstate * lout :=
  let (op, cl) := s in
  match o with
  | LRun k t => ((opener_run k t op, closer_run k cl), LONone)
  | LCirc k t => let (cl1, a) := closer_circ t cl in ((opener_circ k t op, cl1), LOArmed a)
  | LShouldOpen t => let (op1, b) := opener_should_open t false op in ((op1, cl), LOBool b)
  | LPrevent _ => (s, LOBool (opener_prevent false op))
  | LAllow t => let '(cl1, b, a) := closer_allow t false cl in ((op, cl1), LOAllow b a)
  | LShouldClose _ => (s, LOBool (closer_should_close false cl))
  | LFire k => ((op, closer_fire k cl), LONone)
  | LSetOpener pct vol => ((opener_set_hystrix pct vol op, cl), LONone)
  | LSetThr thr => ((opener_set_consec thr op, cl), LONone)
  | LSetCloser sl h r => ((op, closer_set sl h r cl), LONone)
  end.

Fixpoint lrun_from (s : lstate) (h : list lop) : list lout :=
  match h with [] => [] | o :: t => let (s1, x) := lstep s o in x :: lrun_from s1 t end.

Definition zlist_eqb := list_eqb Z.eqb.
Definition lout_eqb (a b : lout) : bool :=
  match a, b with
  | LONone, LONone => true
  | LOBool x, LOBool y => Bool.eqb x y
  | LOAllow x l, LOAllow y m => Bool.eqb x y && zlist_eqb l m
  | LOArmed l, LOArmed m => zlist_eqb l m
  | _, _ => false
  end.

(* a case: initial opener and closer, operations, what the implementation answered *)
Definition logic_case : Type := nat * opener * closer * list lop * list lout.
Definition logic_mismatches (cs : list logic_case) : list (nat * list lout) :=
  flat_map (fun c : logic_case =>
    let '(id, op, cl, ops, outs) := c in
    let m := lrun_from (op, cl) ops in
    if list_eqb lout_eqb m outs then [] else [(id, m)]) cs.

(* ---------- live reconfiguration: the new values decide, nothing else moves ---------- *)
Theorem opener_set_decides : forall pct vol h now,
  ho_should_open now (ho_set pct vol h) =
  let (att1, a) := rolling_sum_at (ho_n h) (ho_w h) (ho_start h) now (ho_att h) in
  if (a =? 0) || (a <? vol) then (ho_set pct vol (ho_with h (ho_err h) att1), false)
  else let (err1, e) := rolling_sum_at (ho_n h) (ho_w h) (ho_start h) now (ho_err h) in
       (ho_set pct vol (ho_with h err1 att1), pct * a <=? 100 * e).
Proof.
  intros pct vol h now. unfold ho_should_open, ho_set, ho_with. cbn [ho_n ho_w ho_start ho_att ho_err ho_pct ho_vol].
  destruct (rolling_sum_at (ho_n h) (ho_w h) (ho_start h) now (ho_att h)) as [att1 a].
  destruct ((a =? 0) || (a <? vol)); [reflexivity|].
  destruct (rolling_sum_at (ho_n h) (ho_w h) (ho_start h) now (ho_err h)) as [err1 e]. reflexivity.
Qed.
Theorem opener_set_moves_no_counter : forall pct vol h,
  ho_err (ho_set pct vol h) = ho_err h /\ ho_att (ho_set pct vol h) = ho_att h /\
  ho_n (ho_set pct vol h) = ho_n h /\ ho_w (ho_set pct vol h) = ho_w h /\ ho_start (ho_set pct vol h) = ho_start h.
Proof. intros; repeat split. Qed.
Theorem consec_set_decides : forall thr c t now ans,
  opener_should_open now ans (opener_set_consec thr (OpConsec c t)) = (OpConsec c thr, thr <=? c).
Proof. reflexivity. Qed.
Theorem closer_set_decides : forall sleep half req t s n ans,
  closer_should_close ans (closer_set sleep half req (ClHystrix t s n)) = (req <=? s) /\
  (forall now, let '(c1, b, a) := closer_allow now ans (closer_set sleep half req (ClHystrix t s n)) in
               let '(t1, b', a') := tc_check now (tc_set_budget half (tc_set_sleep sleep t)) in
               b = b' /\ a = match a' with Some d => [d] | None => [] end).
Proof.
  intros. split; [reflexivity|]. intros now. cbn [closer_set closer_allow].
  destruct (tc_check now (tc_set_budget half (tc_set_sleep sleep t))) as [[t1 b'] a']. split; reflexivity.
Qed.
