(* Seq/LogicSpec.v — what the open/close logic is told and asked, as a history,
   and the documented rules stated on that history (properties C02, C03, C09).
   Definitions only. *)
From CV Require Import Base.Prelude Seq.RollingCounter Seq.TimedCheck Seq.Logic Seq.Circuit Seq.CircuitSpec.

(* ---------- the opener's view ---------- *)
Inductive lev :=
| LRun (k : runkind) (t : Z)      (* a run event delivered to it *)
| LCirc (k : ckind) (t : Z)       (* Opened / Closed notification *)
| LAsk (t : Z).                   (* ShouldOpen(t) was called *)

Definition opener_feed (o : opener) (e : lev) : opener :=
  match e with
  | LRun k t => opener_run k t o
  | LCirc k t => opener_circ k t o
  | LAsk t => fst (opener_should_open t false o)
  end.
Definition opener_after (o0 : opener) (evs : list lev) : opener := fold_left opener_feed evs o0.

(* what the observation log shows the opener received *)
Definition obs_lev (o : obs) : list lev :=
  match o with
  | ORunEv WOpener k t _ => [LRun k t]
  | OCircEv WOpener k t => [LCirc k t]
  | OAsked QShouldOpen t => [LAsk t]
  | _ => []
  end.
Definition opener_view (l : list obs) : list lev := flat_map obs_lev l.

Definition lev_time (e : lev) : Z := match e with LRun _ t | LCirc _ t | LAsk t => t end.

(* successes, failures and timeouts are the only outcomes that count *)
Definition legit (k : runkind) : bool := match k with KSuccess | KFailure | KTimeout => true | _ => false end.
Definition is_error (k : runkind) : bool := match k with KFailure | KTimeout => true | _ => false end.

(* outcomes delivered since the last transition, oldest first *)
Definition since_transition (evs : list lev) : list (runkind * Z) :=
  fold_left (fun acc e => match e with LRun k t => acc ++ [(k, t)] | LCirc _ _ => [] | LAsk _ => acc end) evs [].

(* the hystrix rolling window: n buckets of width w starting at `start`; an outcome stamped t
   is inside the window ending at `now` when its bucket is among the newest n *)
Definition bucket (w start t : Z) : Z := (t - start) / w.
Definition in_win (n w start now t : Z) : bool := bucket w start now - n <? bucket w start t.
Definition attempts (n w start : Z) (evs : list lev) (now : Z) : Z :=
  cntp (fun kt => legit (fst kt) && in_win n w start now (snd kt)) (since_transition evs).
Definition errors (n w start : Z) (evs : list lev) (now : Z) : Z :=
  cntp (fun kt => is_error (fst kt) && in_win n w start now (snd kt)) (since_transition evs).

(* the documented hystrix rule *)
Definition hystrix_rule (vol pct a e : Z) : bool := negb (a =? 0) && (vol <=? a) && (pct * a <=? 100 * e).

(* time flows forward: start <= every stamp, stamps non-decreasing, all <= now, and the
   whole span fits time.Duration (no saturation) *)
Fixpoint nondecreasing (l : list Z) : Prop :=
  match l with
  | [] => True
  | x :: t => (match t with [] => True | y :: _ => x <= y end) /\ nondecreasing t
  end.
Definition forward (start : Z) (evs : list lev) (now : Z) : Prop :=
  nondecreasing (start :: map lev_time evs ++ [now]) /\ now - start <= max_i64.

(* the consecutive-errors rule: the counting outcomes since the last transition end
   with at least thr failures/timeouts *)
Definition counting_kinds (evs : list lev) : list runkind :=
  filter legit (map fst (since_transition evs)).
Definition ends_with_errors (thr : Z) (l : list runkind) : Prop :=
  exists pre suf, l = pre ++ suf /\ thr <= Z.of_nat (length suf) /\ forallb is_error suf = true.

(* ---------- the closer's view ---------- *)
Inductive cev :=
| CRun (k : runkind)              (* a run event delivered to it *)
| CCirc (k : ckind) (t : Z)       (* Opened / Closed notification *)
| CAllow (t : Z)                  (* Allow(t) was called *)
| CFire (k : nat).                (* the k-th registered timer callback ran *)

Definition closer_feed (c : closer) (e : cev) : closer :=
  match e with
  | CRun k => closer_run k c
  | CCirc _ t => fst (closer_circ t c)
  | CAllow t => fst (fst (closer_allow t false c))
  | CFire k => closer_fire k c
  end.
Definition closer_after (c0 : closer) (evs : list cev) : closer := fold_left closer_feed evs c0.

(* consecutive successes delivered since the last notification / failure / timeout *)
Definition trailing_successes (evs : list cev) : Z :=
  fold_left (fun acc e => match e with
                          | CRun KSuccess => acc + 1
                          | CRun KFailure | CRun KTimeout => 0
                          | CCirc _ _ => 0
                          | _ => acc end) evs 0.

(* ---------- circuit notifications ---------- *)
(* a log of notifications that strictly alternates, given what must come next *)
Fixpoint alternates (next : ckind) (l : list ckind) : Prop :=
  match l with
  | [] => True
  | k :: t => k = next /\ alternates (match next with Opened => Closed | Closed => Opened end) t
  end.
Definition last_kind (l : list ckind) : option ckind := List.last (map Some l) None.

Definition ticks_forward (h : list event) : Prop :=
  Forall (fun ev => match ev with Tick d => 0 <= d | _ => True end) h.
Definition no_setconfig (h : list event) : Prop :=
  Forall (fun ev => match ev with SetConfig _ => False | _ => True end) h.

(* stamps at which the closer admitted a call while the circuit was open: the Begin
   events whose segment shows an Allow question followed by the run function being entered *)
Definition admitted_probe (p : event * list obs) : list Z :=
  match fst p with
  | Begin id _ =>
      match snd p with
      | OAsked QAllow t :: rest =>
          if existsb (fun o => match o with ORunInvoked i _ _ => Nat.eqb i id | _ => false end) rest then [t] else []
      | _ => []
      end
  | _ => []
  end.
Definition probe_stamps (tr : list (event * list obs)) : list Z := flat_map admitted_probe tr.
(* time of the latest Opened notification *)
Definition last_opened (l : list obs) : option Z :=
  fold_left (fun acc o => match o with OCircEv WCloser Opened t => Some t | _ => acc end) l None.

(* what the trace shows the closer received: timer callbacks are events, the rest observations *)
Definition obs_cev (o : obs) : list cev :=
  match o with
  | ORunEv WCloser k _ _ => [CRun k]
  | OCircEv WCloser k t => [CCirc k t]
  | OAsked QAllow t => [CAllow t]
  | _ => []
  end.
Definition closer_view (tr : list (event * list obs)) : list cev :=
  flat_map (fun p => match fst p with TimerFire k => [CFire k] | _ => flat_map obs_cev (snd p) end) tr.

(* the kind an executed, non-panicking call is reported as, from the state it ends in *)
Definition end_kind (s : state) (cs : callst) (e : endinfo) : runkind :=
  match cs_phase cs with
  | PRun _ expected _ =>
      classify (res_is_bad (e_res e))
               (match expected with Some x => x <? clock s | None => false end)
               (negb (res_is_nil (e_res e))) (cs_done cs) (l_ignore_int (cfg s)) (ie_says (l_ie (cfg s)))
  | _ => KSuccess
  end.
Definition not_overridden (s : state) : Prop := l_force_open (cfg s) = false /\ l_forced_closed (cfg s) = false.
