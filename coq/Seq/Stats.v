(* Seq/Stats.v — models of the metric consumers: rolling.RunStats and
   FallbackStats (metrics/rolling/rolling.go), the response-time SLO tracker
   (metrics/responsetimeslo/responsetime.go) and the hystrix event-stream record
   (metriceventstream.go: collectCommandMetrics).  They are ordinary collectors:
   their input is the sequence of run / fallback events that property C05
   characterises, each with the time and duration it was reported with.
   No proofs here. *)
From Coq Require Import ZArith List.
From Flocq Require Import IEEE754.BinarySingleNaN.
From CV Require Import Base.Prelude Seq.RollingCounter Seq.RollingPercentile Seq.PercentileFloat Seq.Logic Seq.Circuit.

(* what the consumers are fed *)
Inductive sev :=
| SRun (k : runkind) (t : Z) (d : Z)      (* a run event: kind, time, duration (ignored by kinds that have none) *)
| SFb (k : fbkind) (t : Z).               (* a fallback event *)

Definition kinds : list runkind := [KSuccess; KFailure; KTimeout; KBadRequest; KInterrupt; KReject; KShort].
Definition fkinds : list fbkind := [FKSuccess; FKFailure; FKReject].
Definition runkind_eqb (a b : runkind) : bool :=
  match a, b with
  | KSuccess, KSuccess | KFailure, KFailure | KTimeout, KTimeout | KBadRequest, KBadRequest
  | KInterrupt, KInterrupt | KReject, KReject | KShort, KShort => true
  | _, _ => false
  end.
Definition fbkind_eqb (a b : fbkind) : bool :=
  match a, b with FKSuccess, FKSuccess | FKFailure, FKFailure | FKReject, FKReject => true | _, _ => false end.
Definition has_duration (k : runkind) : bool := match k with KReject | KShort => false | _ => true end.

Section Stats.
(* RunStatsConfig / FallbackStatsConfig as effective after the defaults were merged; `start` is the
   factory's clock reading when the stats were created *)
Variables (n w start : Z).          (* RollingStatsNumBuckets, bucket width, start *)
Variables (pn pw pcap : Z).         (* RollingPercentileNumBuckets, bucket width, RollingPercentileBucketSize *)
Variable healthy : Z.               (* SLO MaximumHealthyTime (ns) *)

Record stats := {
  st_run : list rc;        (* one RollingCounter per kind, in the order of `kinds` *)
  st_fb : list rc;         (* FallbackStats: Successes, ErrFailures, ErrConcurrencyLimitRejects in the order of `fkinds` *)
  st_lat : rp;             (* Latencies *)
  st_pass : Z; st_fail : Z (* SLO tracker: MeetsSLOCount, FailsSLOCount *)
}.
Definition stats_init : stats :=
  {| st_run := map (fun _ => RollingCounter.init n) kinds; st_fb := map (fun _ => RollingCounter.init n) fkinds;
     st_lat := rp_init pn pcap; st_pass := 0; st_fail := 0 |}.

Fixpoint inc_at {A} (eqb : A -> A -> bool) (ks : list A) (k : A) (t : Z) (cs : list rc) : list rc :=
  match ks, cs with
  | k' :: ks', c :: cs' => (if eqb k k' then inc n w start t c else c) :: inc_at eqb ks' k t cs'
  | _, _ => cs
  end.

(* the SLO tracker's table *)
Definition slo_pass (k : runkind) (d : Z) : bool := match k with KSuccess => d <=? healthy | _ => false end.
Definition slo_fail (k : runkind) (d : Z) : bool :=
  match k with
  | KSuccess => negb (d <=? healthy)
  | KFailure | KTimeout | KReject | KShort => true
  | KInterrupt => healthy <? d
  | KBadRequest => false
  end.

Definition feed (s : stats) (e : sev) : stats :=
  match e with
  | SRun k t d =>
      {| st_run := inc_at runkind_eqb kinds k t (st_run s); st_fb := st_fb s;
         st_lat := if has_duration k then rp_add pn pw start pcap d t (st_lat s) else st_lat s;
         st_pass := st_pass s + b2z (slo_pass k d); st_fail := st_fail s + b2z (slo_fail k d) |}
  | SFb k t =>
      {| st_run := st_run s; st_fb := inc_at fbkind_eqb fkinds k t (st_fb s); st_lat := st_lat s;
         st_pass := st_pass s; st_fail := st_fail s |}
  end.
Definition stats_after (evs : list sev) : stats := fold_left feed evs stats_init.

(* ---------- what a reader at time `now` sees ---------- *)
Definition totals (cs : list rc) : list Z := map tsum cs.
(* RollingSumAt(now) of every counter (each call advances that counter's window; the numbers are what matters) *)
Definition rollings (now : Z) (cs : list rc) : list Z := map (fun c => snd (rolling_sum_at n w start now c)) cs.
Definition nthz (l : list Z) (i : nat) : Z := nth i l 0.

(* ErrorPercentageAt(now) = float64(failures+timeouts) / float64(successes+failures+timeouts), 0 when empty *)
Definition error_counts (now : Z) (s : stats) : Z * Z :=
  let r := rollings now (st_run s) in
  (nthz r 1 + nthz r 2, nthz r 0 + nthz r 1 + nthz r 2).
Definition error_percentage (now : Z) (s : stats) : b64 :=
  let (e, a) := error_counts now s in
  if a =? 0 then f_of_Z 0 else Bdiv mode_NE (f_of_Z e) (f_of_Z a).

(* the event-stream record: the fields the property names *)
Record stream := {
  sm_request_count : Z; sm_error_count : Z; sm_error_pct : Z;
  sm_rolling : list Z;     (* success, failure, timeout, badRequests(+interrupts), semaphoreRejected, shortCircuited *)
  sm_total : list Z;       (* the same six as totals *)
  sm_fb_rolling : list Z;  (* fallback success, failure, rejection *)
  sm_fb_total : list Z;
  sm_open : bool
}.
Definition stream_record (now : Z) (is_open : bool) (s : stats) : stream :=
  let r := rollings now (st_run s) in
  let t := totals (st_run s) in
  let (e, a) := error_counts now s in
  {| sm_request_count := a + nthz r 4;
     sm_error_count := e;
     sm_error_pct := f_to_Z (Bmult mode_NE (f_of_Z 100) (error_percentage now s));
     sm_rolling := [nthz r 0; nthz r 1; nthz r 2; nthz r 3 + nthz r 4; nthz r 5; nthz r 6];
     sm_total := [nthz t 0; nthz t 1; nthz t 2; nthz t 3 + nthz t 4; nthz t 5; nthz t 6];
     sm_fb_rolling := rollings now (st_fb s);
     sm_fb_total := totals (st_fb s);
     sm_open := is_open |}.

(* ---------- specification vocabulary: counting events of the history ---------- *)
Definition is_run_kind (k : runkind) (e : sev) : bool := match e with SRun k' _ _ => runkind_eqb k k' | _ => false end.
Definition is_fb_kind (k : fbkind) (e : sev) : bool := match e with SFb k' _ => fbkind_eqb k k' | _ => false end.
Definition sev_time (e : sev) : Z := match e with SRun _ t _ | SFb _ t => t end.
(* inside the stats window ending at now: the event's bucket is among the newest n *)
Definition in_stats_window (now : Z) (e : sev) : bool := idx w start now - n <? idx w start (sev_time e).
Definition count_run (k : runkind) (evs : list sev) : Z := cntp (is_run_kind k) evs.
Definition count_run_in (now : Z) (k : runkind) (evs : list sev) : Z :=
  cntp (fun e => is_run_kind k e && in_stats_window now e) evs.
Definition count_fb (k : fbkind) (evs : list sev) : Z := cntp (is_fb_kind k) evs.
Definition count_fb_in (now : Z) (k : fbkind) (evs : list sev) : Z :=
  cntp (fun e => is_fb_kind k e && in_stats_window now e) evs.
Definition slo_passes (evs : list sev) : Z := cntp (fun e => match e with SRun k _ d => slo_pass k d | _ => false end) evs.
Definition slo_fails (evs : list sev) : Z := cntp (fun e => match e with SRun k _ d => slo_fail k d | _ => false end) evs.
(* time flows forward from the stats' start and fits time.Duration *)
Fixpoint nondecr (l : list Z) : Prop :=
  match l with [] => True | x :: t => (match t with [] => True | y :: _ => x <= y end) /\ nondecr t end.
Definition forward_from (evs : list sev) (now : Z) : Prop :=
  nondecr (start :: map sev_time evs ++ [now]) /\ now - start <= max_i64.
End Stats.
