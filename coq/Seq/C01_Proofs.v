(* Seq/C01_Proofs.v — proofs behind Properties/C01.v, and the shared core used by
   other Cxx_Proofs files: projections of observation lists, the characterisation
   of begin_call / fallback_stage / end_run, and how events that do not concern a
   call leave that call's phase alone. *)
From CV Require Import Base.Prelude Seq.RollingCounter Seq.TimedCheck Seq.Logic Seq.Circuit Seq.CircuitSpec.
From Coq Require Import ZifyBool.

(* ====================================================================== *)
(* generic list facts                                                      *)
(* ====================================================================== *)
Lemma fm_nil {A B} (f : A -> list B) (l : list A) :
  (forall x, In x l -> f x = []) -> flat_map f l = [].
Proof.
  induction l as [|a l IH]; intros H; [reflexivity|].
  cbn [flat_map]. rewrite (H a) by (left; reflexivity).
  cbn [app]. apply IH. intros x Hx. apply H. right; exact Hx.
Qed.

Lemma fm_map {A B C} (f : B -> list C) (g : A -> B) (l : list A) :
  flat_map f (map g l) = flat_map (fun x => f (g x)) l.
Proof. induction l as [|a l IH]; [reflexivity|]. cbn [map flat_map]. rewrite IH. reflexivity. Qed.

Lemma fm_map_nil {A B C} (f : B -> list C) (g : A -> B) (l : list A) :
  (forall x, f (g x) = []) -> flat_map f (map g l) = [].
Proof. intros H. rewrite fm_map. apply fm_nil. intros x _. apply H. Qed.

Lemma fm_seq_one {C} (x : C) (i : nat) : forall n a,
  flat_map (fun j => if Nat.eqb i j then [x] else []) (seq a n) =
  if ((a <=? i) && (i <? a + n))%nat then [x] else [].
Proof.
  induction n as [|n IH]; intros a.
  - cbn [seq flat_map]. destruct ((a <=? i) && (i <? a + 0))%nat eqn:E; [lia|reflexivity].
  - cbn [seq flat_map]. rewrite IH.
    destruct (Nat.eqb i a) eqn:E1;
      destruct ((S a <=? i) && (i <? S a + n))%nat eqn:E2;
      destruct ((a <=? i) && (i <? a + S n))%nat eqn:E3; try lia; reflexivity.
Qed.

Lemma in_seq0 i n : In i (seq 0 n) -> ((0 <=? i) && (i <? 0 + n))%nat = true.
Proof. intros H. apply in_seq in H. lia. Qed.

Lemma find_filter_keep {A} (p q : A -> bool) (l : list A) :
  (forall x, p x = true -> q x = true) -> find p (filter q l) = find p l.
Proof.
  intros H. induction l as [|a l IH]; [reflexivity|].
  cbn [filter find]. destruct (q a) eqn:Eq.
  - cbn [find]. destruct (p a); [reflexivity|exact IH].
  - destruct (p a) eqn:Ep; [rewrite (H a Ep) in Eq; discriminate|exact IH].
Qed.

Lemma find_filter_none {A} (p q : A -> bool) (l : list A) :
  (forall x, p x = true -> q x = false) -> find p (filter q l) = None.
Proof.
  intros H. induction l as [|a l IH]; [reflexivity|].
  cbn [filter]. destruct (q a) eqn:Eq; [|exact IH].
  cbn [find]. destruct (p a) eqn:Ep; [rewrite (H a Ep) in Eq; discriminate|exact IH].
Qed.

(* ====================================================================== *)
(* projections of observation lists                                        *)
(* ====================================================================== *)
(* ids of all run-function invocations in a list *)
Definition all_inv (l : list obs) : list nat :=
  flat_map (fun o => match o with ORunInvoked i _ _ => [i] | _ => [] end) l.

Lemma run_evs_app w a b : run_evs w (a ++ b) = run_evs w a ++ run_evs w b.
Proof. apply flat_map_app. Qed.
Lemma fb_evs_app i a b : fb_evs i (a ++ b) = fb_evs i a ++ fb_evs i b.
Proof. apply flat_map_app. Qed.
Lemma circ_evs_app w a b : circ_evs w (a ++ b) = circ_evs w a ++ circ_evs w b.
Proof. apply flat_map_app. Qed.
Lemma run_inv_app id a b : run_invocations id (a ++ b) = run_invocations id a ++ run_invocations id b.
Proof. apply flat_map_app. Qed.
Lemma fb_inv_app id a b : fb_invocations id (a ++ b) = fb_invocations id a ++ fb_invocations id b.
Proof. apply flat_map_app. Qed.
Lemma returns_app id a b : returns id (a ++ b) = returns id a ++ returns id b.
Proof. apply flat_map_app. Qed.
Lemma all_inv_app a b : all_inv (a ++ b) = all_inv a ++ all_inv b.
Proof. apply flat_map_app. Qed.
Lemma any_run_ev_app a b : any_run_ev (a ++ b) = any_run_ev a ++ any_run_ev b.
Proof. apply filter_app. Qed.
Lemma any_fb_ev_app a b : any_fb_ev (a ++ b) = any_fb_ev a ++ any_fb_ev b.
Proof. apply filter_app. Qed.

Lemma run_evs_cons w x l : run_evs w (x :: l) = run_evs w [x] ++ run_evs w l.
Proof. apply (run_evs_app w [x] l). Qed.
Lemma fb_evs_cons i x l : fb_evs i (x :: l) = fb_evs i [x] ++ fb_evs i l.
Proof. apply (fb_evs_app i [x] l). Qed.
Lemma run_inv_cons id x l : run_invocations id (x :: l) = run_invocations id [x] ++ run_invocations id l.
Proof. apply (run_inv_app id [x] l). Qed.
Lemma fb_inv_cons id x l : fb_invocations id (x :: l) = fb_invocations id [x] ++ fb_invocations id l.
Proof. apply (fb_inv_app id [x] l). Qed.
Lemma returns_cons id x l : returns id (x :: l) = returns id [x] ++ returns id l.
Proof. apply (returns_app id [x] l). Qed.
Lemma all_inv_cons x l : all_inv (x :: l) = all_inv [x] ++ all_inv l.
Proof. apply (all_inv_app [x] l). Qed.
Lemma any_run_ev_cons x l : any_run_ev (x :: l) = any_run_ev [x] ++ any_run_ev l.
Proof. apply (any_run_ev_app [x] l). Qed.

(* run invocations of one id, from the ids of all invocations *)
Lemma run_inv_of_all_inv id l : ~ In id (all_inv l) -> run_invocations id l = [].
Proof.
  induction l as [|o l IH]; intros H; [reflexivity|].
  rewrite all_inv_cons in H. rewrite run_inv_cons.
  rewrite IH by (intros X; apply H; apply in_or_app; right; exact X).
  rewrite app_nil_r. destruct o; try reflexivity.
  cbn. destruct (Nat.eqb id0 id) eqn:E; [|reflexivity].
  exfalso. apply H. apply in_or_app. left. cbn. left. lia.
Qed.

Lemma in_all_inv id d dl l : In (ORunInvoked id d dl) l -> In id (all_inv l).
Proof.
  induction l as [|o l IH]; intros H; [destruct H|].
  rewrite all_inv_cons. apply in_or_app. destruct H as [H|H].
  - subst o. left. cbn. left. reflexivity.
  - right. apply IH. exact H.
Qed.

(* ---------- quiet observations: nothing a call or a collector sees ---------- *)
Definition quiet (o : obs) : bool :=
  match o with OAsked _ _ | OTimer _ | OReading _ _ _ | OCircEv _ _ _ => true | _ => false end.
Definition Quiet (l : list obs) : Prop := Forall (fun o => quiet o = true) l.

Lemma Quiet_nil : Quiet [].
Proof. constructor. Qed.
Lemma Quiet_cons o l : quiet o = true -> Quiet l -> Quiet (o :: l).
Proof. intros; constructor; assumption. Qed.
Lemma Quiet_app a b : Quiet a -> Quiet b -> Quiet (a ++ b).
Proof. intros; apply Forall_app; split; assumption. Qed.
Lemma Quiet_map {A} (g : A -> obs) l : (forall x, quiet (g x) = true) -> Quiet (map g l).
Proof. intros H. induction l; constructor; auto. Qed.
Lemma Quiet_reading st s : Quiet [reading st s].
Proof. unfold reading. destruct (s_mode st); repeat constructor. Qed.

Ltac quiet_proj :=
  let l := fresh "l" in let H := fresh "H" in let o := fresh "o" in let IH := fresh "IH" in
  intros l H; induction H as [|o l Ho _ IH]; [reflexivity|];
  destruct o; try discriminate Ho; cbn [flat_map filter app]; exact IH.

Lemma quiet_run_evs w : forall l, Quiet l -> run_evs w l = [].
Proof. unfold run_evs. quiet_proj. Qed.
Lemma quiet_fb_evs i : forall l, Quiet l -> fb_evs i l = [].
Proof. unfold fb_evs. quiet_proj. Qed.
Lemma quiet_run_inv id : forall l, Quiet l -> run_invocations id l = [].
Proof. unfold run_invocations. quiet_proj. Qed.
Lemma quiet_fb_inv id : forall l, Quiet l -> fb_invocations id l = [].
Proof. unfold fb_invocations. quiet_proj. Qed.
Lemma quiet_returns id : forall l, Quiet l -> returns id l = [].
Proof. unfold returns. quiet_proj. Qed.
Lemma quiet_all_inv : forall l, Quiet l -> all_inv l = [].
Proof. unfold all_inv. quiet_proj. Qed.
Lemma quiet_any_run_ev : forall l, Quiet l -> any_run_ev l = [].
Proof. unfold any_run_ev. quiet_proj. Qed.
Lemma quiet_any_fb_ev : forall l, Quiet l -> any_fb_ev l = [].
Proof. unfold any_fb_ev. quiet_proj. Qed.

(* ---------- the run fan-out ---------- *)
Definition run_fan (st : static) (k : runkind) (t : Z) (d : option Z) : list obs :=
  map (fun w => ORunEv w k t d) (run_collectors st).

Lemma emit_run_snd st k t d s : snd (emit_run st k t d s) = run_fan st k t d.
Proof. reflexivity. Qed.

Lemma run_fan_run_evs st k t d w :
  In w (run_collectors st) -> run_evs w (run_fan st k t d) = [(k, t, d)].
Proof.
  unfold run_fan, run_collectors, run_evs, users. intros H.
  cbn [map flat_map]. rewrite map_map, fm_map.
  destruct H as [H|[H|H]]; try subst w.
  - cbn [who_eqb app]. rewrite fm_nil by reflexivity. reflexivity.
  - cbn [who_eqb app]. rewrite fm_nil by reflexivity. reflexivity.
  - apply in_map_iff in H. destruct H as (i & <- & Hi).
    cbn [who_eqb app]. rewrite (fm_seq_one (k, t, d) i), (in_seq0 _ _ Hi). reflexivity.
Qed.
Lemma run_fan_any_run_ev st k t d : any_run_ev (run_fan st k t d) = run_fan st k t d.
Proof.
  unfold run_fan, any_run_ev. induction (run_collectors st) as [|a l IH]; [reflexivity|].
  cbn [map filter]. rewrite IH. reflexivity.
Qed.
Lemma run_fan_length st k t d : length (run_fan st k t d) = length (run_collectors st).
Proof. apply map_length. Qed.
Lemma run_fan_fb_evs st k t d i : fb_evs i (run_fan st k t d) = [].
Proof. apply fm_map_nil; reflexivity. Qed.
Lemma run_fan_run_inv st k t d id : run_invocations id (run_fan st k t d) = [].
Proof. apply fm_map_nil; reflexivity. Qed.
Lemma run_fan_fb_inv st k t d id : fb_invocations id (run_fan st k t d) = [].
Proof. apply fm_map_nil; reflexivity. Qed.
Lemma run_fan_returns st k t d id : returns id (run_fan st k t d) = [].
Proof. apply fm_map_nil; reflexivity. Qed.
Lemma run_fan_all_inv st k t d : all_inv (run_fan st k t d) = [].
Proof. apply fm_map_nil; reflexivity. Qed.
Lemma run_fan_any_fb_ev st k t d : any_fb_ev (run_fan st k t d) = [].
Proof.
  unfold run_fan, any_fb_ev. induction (run_collectors st) as [|a l IH]; [reflexivity|exact IH].
Qed.

(* ---------- the fallback fan-out ---------- *)
Lemma emit_fb_fb_evs st k t d i :
  In i (fb_collectors st) -> fb_evs i (emit_fb st k t d) = [(k, t, d)].
Proof.
  unfold emit_fb, fb_collectors, fb_evs. intros H. rewrite fm_map.
  rewrite (fm_seq_one (k, t, d) i), (in_seq0 _ _ H). reflexivity.
Qed.
Lemma emit_fb_run_evs st k t d w : run_evs w (emit_fb st k t d) = [].
Proof. apply fm_map_nil; reflexivity. Qed.
Lemma emit_fb_run_inv st k t d id : run_invocations id (emit_fb st k t d) = [].
Proof. apply fm_map_nil; reflexivity. Qed.
Lemma emit_fb_fb_inv st k t d id : fb_invocations id (emit_fb st k t d) = [].
Proof. apply fm_map_nil; reflexivity. Qed.
Lemma emit_fb_returns st k t d id : returns id (emit_fb st k t d) = [].
Proof. apply fm_map_nil; reflexivity. Qed.
Lemma emit_fb_all_inv st k t d : all_inv (emit_fb st k t d) = [].
Proof. apply fm_map_nil; reflexivity. Qed.
Lemma emit_fb_any_run_ev st k t d : any_run_ev (emit_fb st k t d) = [].
Proof.
  unfold emit_fb, any_run_ev. induction (seq 0 (s_nfb st)) as [|a l IH]; [reflexivity|exact IH].
Qed.

(* normalise a projection of a concatenation of known pieces *)
Ltac proj_norm :=
  repeat (rewrite ?run_evs_app, ?fb_evs_app, ?run_inv_app, ?fb_inv_app, ?returns_app, ?all_inv_app,
                  ?any_run_ev_app, ?any_fb_ev_app);
  rewrite ?run_fan_fb_evs, ?run_fan_run_inv, ?run_fan_fb_inv, ?run_fan_returns, ?run_fan_all_inv,
          ?run_fan_any_run_ev, ?run_fan_any_fb_ev,
          ?emit_fb_run_evs, ?emit_fb_run_inv, ?emit_fb_fb_inv, ?emit_fb_returns, ?emit_fb_all_inv,
          ?emit_fb_any_run_ev;
  rewrite ?(quiet_run_evs _ _ (Quiet_reading _ _)), ?(quiet_fb_evs _ _ (Quiet_reading _ _)),
          ?(quiet_run_inv _ _ (Quiet_reading _ _)), ?(quiet_fb_inv _ _ (Quiet_reading _ _)),
          ?(quiet_returns _ _ (Quiet_reading _ _)), ?(quiet_all_inv _ (Quiet_reading _ _)),
          ?(quiet_any_run_ev _ (Quiet_reading _ _)), ?(quiet_any_fb_ev _ (Quiet_reading _ _)).

(* ====================================================================== *)
(* the table of calls                                                      *)
(* ====================================================================== *)
Lemma find_call_calls id s s' : calls s' = calls s -> find_call id s' = find_call id s.
Proof. unfold find_call. intros ->. reflexivity. Qed.

Lemma find_call_id id s cs : find_call id s = Some cs -> cs_id cs = id.
Proof. unfold find_call. intros H. apply find_some in H. destruct H as [_ H]. lia. Qed.

Lemma find_call_drop id id' s :
  find_call id (drop_call id' s) = if Nat.eqb id' id then None else find_call id s.
Proof.
  unfold find_call, drop_call. cbn [calls set_calls].
  destruct (Nat.eqb id' id) eqn:E.
  - apply find_filter_none. intros x Hx. lia.
  - apply find_filter_keep. intros x Hx. lia.
Qed.

Lemma find_call_put id c s :
  find_call id (put_call c s) = if Nat.eqb (cs_id c) id then Some c else find_call id s.
Proof.
  unfold find_call, put_call. cbn [calls set_calls find].
  destruct (Nat.eqb (cs_id c) id) eqn:E; [reflexivity|].
  apply find_filter_keep. intros x Hx. lia.
Qed.

(* the phase call id is in, if it is in flight *)
Definition ph (id : nat) (s : state) : option phase := option_map cs_phase (find_call id s).

Lemma ph_calls id s s' : calls s' = calls s -> ph id s' = ph id s.
Proof. unfold ph. intros H. rewrite (find_call_calls id s s' H). reflexivity. Qed.
Lemma ph_drop id id' s : ph id (drop_call id' s) = if Nat.eqb id' id then None else ph id s.
Proof. unfold ph. rewrite find_call_drop. destruct (Nat.eqb id' id); reflexivity. Qed.
Lemma ph_put id c s : ph id (put_call c s) = if Nat.eqb (cs_id c) id then Some (cs_phase c) else ph id s.
Proof. unfold ph. rewrite find_call_put. destruct (Nat.eqb (cs_id c) id); reflexivity. Qed.

(* ====================================================================== *)
(* transitions: quiet output, calls untouched                              *)
(* ====================================================================== *)
Lemma emit_circ_spec st k t s :
  Quiet (snd (emit_circ st k t s)) /\ calls (fst (emit_circ st k t s)) = calls s.
Proof.
  unfold emit_circ. destruct (closer_circ t (cls s)) as [c1 timers]. cbn [fst snd]. split; [|reflexivity].
  apply Quiet_cons; [reflexivity|]. apply Quiet_app; [apply Quiet_map; reflexivity|].
  apply Quiet_cons; [reflexivity|]. apply Quiet_map; reflexivity.
Qed.

Lemma open_circuit_spec st t s :
  Quiet (snd (open_circuit st t s)) /\ calls (fst (open_circuit st t s)) = calls s.
Proof.
  unfold open_circuit.
  destruct (l_forced_closed (cfg s)); [split; [constructor|reflexivity]|].
  destruct (is_open s); [split; [constructor|reflexivity]|].
  pose proof (emit_circ_spec st Opened t s) as [Q C].
  destruct (emit_circ st Opened t s) as [s1 o]. cbn [fst snd] in *. split; assumption.
Qed.

Lemma close_circuit_spec st t force ans s :
  Quiet (snd (close_circuit st t force ans s)) /\ calls (fst (close_circuit st t force ans s)) = calls s.
Proof.
  unfold close_circuit.
  destruct (negb (is_open s)); [split; [constructor|reflexivity]|].
  destruct (l_force_open (cfg s)); [split; [constructor|reflexivity]|].
  pose proof (emit_circ_spec st Closed t s) as [Q C].
  destruct force.
  - destruct (emit_circ st Closed t s) as [s1 o]. cbn [fst snd] in *. split; assumption.
  - destruct (closer_should_close ans (cls s)).
    + destruct (emit_circ st Closed t s) as [s1 o]. cbn [fst snd] in *.
      split; [apply Quiet_cons; [reflexivity|assumption]|assumption].
    + split; [repeat constructor|reflexivity].
Qed.

Lemma attempt_to_open_spec st t ans s :
  Quiet (snd (attempt_to_open st t ans s)) /\ calls (fst (attempt_to_open st t ans s)) = calls s.
Proof.
  unfold attempt_to_open.
  destruct (l_forced_closed (cfg s)); [split; [constructor|reflexivity]|].
  destruct (is_open s); [split; [constructor|reflexivity]|].
  destruct (opener_should_open t ans (opn s)) as [o1 b].
  destruct b.
  - pose proof (open_circuit_spec st t (set_logic s o1 (cls s))) as [Q C].
    destruct (open_circuit st t (set_logic s o1 (cls s))) as [s2 o]. cbn [fst snd] in *.
    split; [apply Quiet_cons; [reflexivity|assumption]|exact C].
  - split; [repeat constructor|reflexivity].
Qed.

(* ====================================================================== *)
(* the fallback stage                                                      *)
(* ====================================================================== *)
Definition fb_after (ran derived done : bool) : bool :=
  if ran then (if derived then true else done) else false.

Lemma fallback_stage_char st cs err ran derived s :
  fallback_stage st cs err ran derived s =
  if fb_available s (cs_call cs) then
    if fb_limit_hit s
    then (drop_call (cs_id cs) s,
          emit_fb st FKReject (clock s) None ++ [OReturned (cs_id cs) VFbThrottled (fb_after ran derived (cs_done cs))])
    else (put_call {| cs_id := cs_id cs; cs_call := cs_call cs; cs_phase := PFb (clock s) ran derived; cs_done := cs_done cs |}
                   (set_fbs s (fbs s + 1)),
          [OFbInvoked (cs_id cs) err true])
  else (drop_call (cs_id cs) s, [OReturned (cs_id cs) err (fb_after ran derived (cs_done cs))]).
Proof.
  unfold fallback_stage, fb_available, fb_limit_hit, fb_after.
  destruct (has_fb_eff (cs_call cs)); cbn [negb orb andb]; [|reflexivity].
  destruct (l_fb_disabled (cfg s)); cbn [negb]; [reflexivity|].
  destruct ((0 <=? l_fb_max (cfg s)) && (l_fb_max (cfg s) <? fbs s + 1)); reflexivity.
Qed.

(* "settled": the call is gone or in its fallback; its run function will not be heard of again *)
Definition settled (id : nat) (s : state) : Prop :=
  ph id s = None \/ exists t r d, ph id s = Some (PFb t r d).

Lemma fallback_stage_ph_other st cs err ran derived s id :
  cs_id cs <> id -> ph id (fst (fallback_stage st cs err ran derived s)) = ph id s.
Proof.
  intros H. rewrite fallback_stage_char.
  destruct (fb_available s (cs_call cs)); [destruct (fb_limit_hit s)|]; cbn [fst].
  - rewrite ph_drop. destruct (Nat.eqb (cs_id cs) id) eqn:E; [lia|reflexivity].
  - rewrite ph_put. cbn [cs_id]. destruct (Nat.eqb (cs_id cs) id) eqn:E; [lia|reflexivity].
  - rewrite ph_drop. destruct (Nat.eqb (cs_id cs) id) eqn:E; [lia|reflexivity].
Qed.

Lemma fallback_stage_settled st cs err ran derived s :
  settled (cs_id cs) (fst (fallback_stage st cs err ran derived s)).
Proof.
  rewrite fallback_stage_char. unfold settled.
  destruct (fb_available s (cs_call cs)); [destruct (fb_limit_hit s)|]; cbn [fst].
  - left. rewrite ph_drop, Nat.eqb_refl. reflexivity.
  - right. rewrite ph_put. cbn [cs_id cs_phase]. rewrite Nat.eqb_refl. eauto.
  - left. rewrite ph_drop, Nat.eqb_refl. reflexivity.
Qed.

(* what the fallback stage shows, piece by piece *)
Lemma fallback_stage_run_evs st cs err ran derived s w :
  run_evs w (snd (fallback_stage st cs err ran derived s)) = [].
Proof.
  rewrite fallback_stage_char.
  destruct (fb_available s (cs_call cs)); [destruct (fb_limit_hit s)|]; cbn [snd]; proj_norm; reflexivity.
Qed.
Lemma fallback_stage_any_run_ev st cs err ran derived s :
  any_run_ev (snd (fallback_stage st cs err ran derived s)) = [].
Proof.
  rewrite fallback_stage_char.
  destruct (fb_available s (cs_call cs)); [destruct (fb_limit_hit s)|]; cbn [snd]; proj_norm; reflexivity.
Qed.
Lemma fallback_stage_all_inv st cs err ran derived s :
  all_inv (snd (fallback_stage st cs err ran derived s)) = [].
Proof.
  rewrite fallback_stage_char.
  destruct (fb_available s (cs_call cs)); [destruct (fb_limit_hit s)|]; cbn [snd]; proj_norm; reflexivity.
Qed.

(* the refusal outcome is decided by the fallback stage alone *)
Lemma fallback_stage_refusal st id c err s s' o :
  cfg s' = cfg s -> fbs s' = fbs s ->
  returns id o = returns id (snd (fallback_stage st {| cs_id := id; cs_call := c; cs_phase := PPass; cs_done := c_done c |} err false false s')) ->
  fb_invocations id o = fb_invocations id (snd (fallback_stage st {| cs_id := id; cs_call := c; cs_phase := PPass; cs_done := c_done c |} err false false s')) ->
  refusal_outcome s id c err o.
Proof.
  intros Hc Hf Hr Hi. rewrite fallback_stage_char in Hr, Hi. cbn [cs_id cs_call cs_done fb_after] in Hr, Hi.
  unfold refusal_outcome.
  assert (Ea : fb_available s' c = fb_available s c) by (unfold fb_available; rewrite Hc; reflexivity).
  assert (El : fb_limit_hit s' = fb_limit_hit s) by (unfold fb_limit_hit; rewrite Hc, Hf; reflexivity).
  rewrite Ea, El in Hr, Hi.
  destruct (fb_available s c); [destruct (fb_limit_hit s)|]; cbn [snd] in Hr, Hi;
    revert Hr Hi; proj_norm; cbn; rewrite Nat.eqb_refl; cbn; intros -> ->; split; reflexivity.
Qed.

(* ====================================================================== *)
(* Begin                                                                   *)
(* ====================================================================== *)
Definition cs_pass (id : nat) (c : call) : callst :=
  {| cs_id := id; cs_call := c; cs_phase := PPass; cs_done := c_done c |}.

(* allowNewRun, as begin_call inlines it *)
Definition allow_res (s : state) (c : call) : state * bool * list obs :=
  if negb (is_open s) then (s, true, [])
  else if l_force_open (cfg s) then (s, false, [])
  else let '(cl1, b, timers) := closer_allow (clock s) (c_allow c) (cls s) in
       (set_logic s (opn s) cl1, b, OAsked QAllow (clock s) :: map OTimer timers).

Lemma set_logic_same s : set_logic s (opn s) (cls s) = s.
Proof. destruct s; reflexivity. Qed.

Lemma allow_res_spec s c :
  exists cl1 o1, allow_res s c = (set_logic s (opn s) cl1, negb (shed_by_open s c), o1) /\ Quiet o1.
Proof.
  unfold allow_res, shed_by_open, closer_admits.
  destruct (is_open s); cbn [negb andb].
  - destruct (l_force_open (cfg s)); cbn [orb negb].
    + exists (cls s), []. rewrite set_logic_same. split; [reflexivity|constructor].
    + destruct (closer_allow (clock s) (c_allow c) (cls s)) as [[cl1 b] timers]. cbn [fst snd].
      exists cl1, (OAsked QAllow (clock s) :: map OTimer timers). rewrite negb_involutive.
      split; [reflexivity|]. apply Quiet_cons; [reflexivity|]. apply Quiet_map; reflexivity.
  - exists (cls s), []. rewrite set_logic_same. split; [reflexivity|constructor].
Qed.

(* begin_call on an enabled circuit, for a call that has a run function, by the gate's verdict.
   s1 is s with the closer as Allow left it; o1 is what Allow showed (a question and timers). *)
Lemma begin_call_char st id c s :
  enabled st s -> c_has_run c = true ->
  exists cl1 o1, Quiet o1 /\
    let s1 := set_logic s (opn s) cl1 in
    begin_call st id c s =
    match gate s c with
    | GShed =>
        let r := fallback_stage st (cs_pass id c) VCircuitOpen false false (fst (emit_run st KShort (clock s) None s1)) in
        (fst r, o1 ++ run_fan st KShort (clock s) None ++ snd r)
    | GVeto =>
        let r := fallback_stage st (cs_pass id c) VCircuitOpen false false s1 in
        (fst r, o1 ++ OAsked QPrevent (clock s) :: snd r)
    | GReject =>
        let r := fallback_stage st (cs_pass id c) VThrottled false false (fst (emit_run st KReject (clock s) None s1)) in
        (fst r, o1 ++ OAsked QPrevent (clock s) :: run_fan st KReject (clock s) None ++ snd r)
    | GRun =>
        let derived := 0 <? l_timeout (cfg s) in
        (put_call {| cs_id := id; cs_call := c;
                     cs_phase := PRun (clock s) (if derived then Some (clock s + l_timeout (cfg s)) else None) derived;
                     cs_done := c_done c |}
                  (set_cmds s1 (cmds s + 1)),
         o1 ++ [OAsked QPrevent (clock s);
                ORunInvoked id derived (if derived then Some (min_deadline (c_deadline c) (clock s + l_timeout (cfg s))) else c_deadline c)])
    end.
Proof.
  intros [Hm Hd] Hr.
  destruct (allow_res_spec s c) as (cl1 & o1 & E & Q). exists cl1, o1. split; [exact Q|].
  cbv zeta. unfold begin_call. rewrite Hm, Hd, Hr. cbv zeta. cbn [negb].
  unfold allow_res in E. rewrite E. unfold gate, run_limit_hit.
  destruct (shed_by_open s c); cbn [negb].
  - unfold emit_run, run_fan, cs_pass. cbn [fst snd].
    destruct (fallback_stage st _ VCircuitOpen false false _) as [s3 o3]. reflexivity.
  - cbn [opn set_logic cfg cmds].
    destruct (opener_prevent (c_prevent c) (opn s)).
    + unfold cs_pass. destruct (fallback_stage st _ VCircuitOpen false false _) as [s3 o3]. reflexivity.
    + destruct ((0 <=? l_max (cfg s)) && (l_max (cfg s) <? cmds s + 1)).
      * unfold emit_run, run_fan, cs_pass. cbn [fst snd].
        destruct (fallback_stage st _ VThrottled false false _) as [s3 o3]. reflexivity.
      * reflexivity.
Qed.

Lemma step_begin st s id c :
  step st s (Begin id c) =
  (fst (begin_call st id c s), snd (begin_call st id c s) ++ [reading st (fst (begin_call st id c s))]).
Proof. unfold step, step_core. destruct (begin_call st id c s); reflexivity. Qed.

Lemma shed_step st : forall s id c,
  enabled st s -> c_has_run c = true -> shed_by_open s c = true ->
  let o := snd (step st s (Begin id c)) in
  run_invocations id o = [] /\
  (forall w, In w (run_collectors st) -> run_evs w o = [(KShort, clock s, None)]) /\
  length (any_run_ev o) = length (run_collectors st) /\
  refusal_outcome s id c VCircuitOpen o.
Proof.
  intros s id c He Hr Hs o. subst o. rewrite step_begin. cbn [snd].
  destruct (begin_call_char st id c s He Hr) as (cl1 & o1 & Q & E). cbv zeta in E. rewrite E. clear E.
  unfold gate. rewrite Hs. cbn [fst snd].
  set (s2 := fst (emit_run st KShort (clock s) None (set_logic s (opn s) cl1))).
  set (r := fallback_stage st (cs_pass id c) VCircuitOpen false false s2).
  repeat split.
  - apply run_inv_of_all_inv. proj_norm. unfold r. rewrite fallback_stage_all_inv, (quiet_all_inv _ Q).
    intros [].
  - intros w Hw. proj_norm. unfold r. rewrite fallback_stage_run_evs, (quiet_run_evs _ _ Q), (run_fan_run_evs _ _ _ _ _ Hw).
    reflexivity.
  - proj_norm. unfold r. rewrite fallback_stage_any_run_ev, (quiet_any_run_ev _ Q).
    cbn [app]. rewrite !app_nil_r. apply run_fan_length.
  - apply (fallback_stage_refusal st id c VCircuitOpen s s2); try reflexivity; fold (cs_pass id c); fold r;
      proj_norm; rewrite ?(quiet_returns _ _ Q), ?(quiet_fb_inv _ _ Q); cbn [app]; rewrite app_nil_r; reflexivity.
Qed.

Lemma veto_step st : forall s id c,
  enabled st s -> c_has_run c = true -> vetoed s c = true ->
  let o := snd (step st s (Begin id c)) in
  run_invocations id o = [] /\ any_run_ev o = [] /\ refusal_outcome s id c VCircuitOpen o.
Proof.
  intros s id c He Hr Hv o. subst o. rewrite step_begin. cbn [snd].
  destruct (begin_call_char st id c s He Hr) as (cl1 & o1 & Q & E). cbv zeta in E. rewrite E. clear E.
  unfold vetoed in Hv. apply andb_prop in Hv. destruct Hv as [Hs Hp].
  unfold gate. destruct (shed_by_open s c); [discriminate Hs|]. rewrite Hp. cbn [fst snd].
  set (s1 := set_logic s (opn s) cl1).
  set (r := fallback_stage st (cs_pass id c) VCircuitOpen false false s1).
  repeat split.
  - apply run_inv_of_all_inv. proj_norm. rewrite all_inv_cons. unfold r.
    rewrite fallback_stage_all_inv, (quiet_all_inv _ Q). intros [].
  - proj_norm. rewrite any_run_ev_cons. unfold r. rewrite fallback_stage_any_run_ev, (quiet_any_run_ev _ Q).
    reflexivity.
  - apply (fallback_stage_refusal st id c VCircuitOpen s s1); try reflexivity; fold (cs_pass id c); fold r;
      proj_norm; [rewrite returns_cons|rewrite fb_inv_cons]; rewrite ?(quiet_returns _ _ Q), ?(quiet_fb_inv _ _ Q);
      cbn [app returns fb_invocations flat_map]; rewrite app_nil_r; reflexivity.
Qed.

(* ====================================================================== *)
(* EndRun                                                                  *)
(* ====================================================================== *)
(* classification, fan-out and transition of a run function that returned, as end_run inlines it *)
Definition run_outcome (st : static) (r : res) (e : endinfo) (done : bool) (start : Z) (expected : option Z)
                       (s : state) : state * list obs :=
  let now := clock s in
  let dur := now - start in
  let timed_out := match expected with Some x => x <? now | None => false end in
  let interrupted := negb (res_is_nil r) && done && negb (l_ignore_int (cfg s)) && ie_says (l_ie (cfg s)) in
  if res_is_bad r then emit_run st KBadRequest now (Some dur) s
  else if timed_out then
    let (sa, oa) := emit_run st KTimeout now (Some dur) s in
    if negb (is_open sa) then let (sb, ob) := attempt_to_open st now (e_should_open e) sa in (sb, oa ++ ob)
    else (sa, oa)
  else if interrupted then emit_run st KInterrupt now (Some dur) s
  else if negb (res_is_nil r) then
    let (sa, oa) := emit_run st KFailure now (Some dur) s in
    if negb (is_open sa) then let (sb, ob) := attempt_to_open st now (e_should_open e) sa in (sb, oa ++ ob)
    else (sa, oa)
  else
    let (sa, oa) := emit_run st KSuccess now (Some dur) s in
    if is_open sa then let (sb, ob) := close_circuit st now false (e_should_close e) sa in (sb, oa ++ ob)
    else (sa, oa).

Lemma end_run_PRun st id e s cs start expected derived :
  find_call id s = Some cs -> cs_phase cs = PRun start expected derived ->
  end_run st id e s =
  let after := if derived then true else cs_done cs in
  let seen := ORunEnd id (cs_done cs) in
  match e_res e with
  | RPanic v => (drop_call id (set_cmds s (cmds s - 1)), [seen; OReturned id (VPanic v) after])
  | _ =>
    let r := run_outcome st (e_res e) e (cs_done cs) start expected s in
    let s2 := set_cmds (fst r) (cmds (fst r) - 1) in
    if res_is_nil (e_res e) then (drop_call id s2, seen :: snd r ++ [OReturned id VNil after])
    else if res_is_bad (e_res e) then (drop_call id s2, seen :: snd r ++ [OReturned id (res_val (e_res e)) after])
    else let f := fallback_stage st cs (res_val (e_res e)) true derived s2 in (fst f, seen :: snd r ++ snd f)
  end.
Proof.
  intros Hf Hp. unfold end_run. rewrite Hf, Hp. cbv zeta.
  destruct (e_res e) as [|k|k|k|v]; [| | | |reflexivity]; unfold run_outcome; cbv zeta;
    match goal with |- (let '(s1, o1) := ?x in _) = _ => destruct x as [s1 o1] end;
    cbn [fst snd res_is_nil res_is_bad]; try reflexivity;
    destruct (fallback_stage st cs _ true derived _); reflexivity.
Qed.

Lemma run_outcome_spec st r e done start expected s :
  exists oq,
    snd (run_outcome st r e done start expected s) =
    run_fan st (classify (res_is_bad r) (match expected with Some x => x <? clock s | None => false end)
                         (negb (res_is_nil r)) done (l_ignore_int (cfg s)) (ie_says (l_ie (cfg s))))
            (clock s) (Some (clock s - start)) ++ oq /\
    Quiet oq /\
    calls (fst (run_outcome st r e done start expected s)) = calls s.
Proof.
  unfold run_outcome, classify. cbv zeta.
  set (now := clock s). set (dur := Some (now - start)).
  assert (OPEN : forall k,
    exists oq,
      snd (let (sa, oa) := emit_run st k now dur s in
           if negb (is_open sa)
           then let (sb, ob) := attempt_to_open st now (e_should_open e) sa in (sb, oa ++ ob)
           else (sa, oa)) = run_fan st k now dur ++ oq /\ Quiet oq /\
      calls (fst (let (sa, oa) := emit_run st k now dur s in
           if negb (is_open sa)
           then let (sb, ob) := attempt_to_open st now (e_should_open e) sa in (sb, oa ++ ob)
           else (sa, oa))) = calls s).
  { intros k. unfold emit_run. fold (run_fan st k now dur).
    set (sa := set_logic s (opener_run k now (opn s)) (closer_run k (cls s))).
    destruct (negb (is_open sa)).
    - pose proof (attempt_to_open_spec st now (e_should_open e) sa) as [Q C].
      destruct (attempt_to_open st now (e_should_open e) sa) as [sb ob]. cbn [fst snd] in *.
      exists ob. repeat split; assumption.
    - exists []. cbn [fst snd]. rewrite app_nil_r. repeat split. constructor. }
  assert (PLAIN : forall k,
    exists oq, snd (emit_run st k now dur s) = run_fan st k now dur ++ oq /\ Quiet oq /\
               calls (fst (emit_run st k now dur s)) = calls s).
  { intros k. exists []. rewrite app_nil_r. repeat split. constructor. }
  destruct (res_is_bad r); [apply PLAIN|].
  destruct (match expected with Some x => x <? now | None => false end); [apply OPEN|].
  destruct (negb (res_is_nil r) && done && negb (l_ignore_int (cfg s)) && ie_says (l_ie (cfg s))); [apply PLAIN|].
  destruct (negb (res_is_nil r)); [apply OPEN|].
  unfold emit_run. fold (run_fan st KSuccess now dur).
  set (sa := set_logic s (opener_run KSuccess now (opn s)) (closer_run KSuccess (cls s))).
  destruct (is_open sa).
  - pose proof (close_circuit_spec st now false (e_should_close e) sa) as [Q C].
    destruct (close_circuit st now false (e_should_close e) sa) as [sb ob]. cbn [fst snd] in *.
    exists ob. repeat split; assumption.
  - exists []. cbn [fst snd]. rewrite app_nil_r. repeat split. constructor.
Qed.

Lemma settled_dec_phase id s :
  settled id s -> forall cs, find_call id s = Some cs -> exists t r d, cs_phase cs = PFb t r d.
Proof.
  unfold settled, ph. intros [H|(t & r & d & H)] cs Hf; rewrite Hf in H; cbn in H; [discriminate|].
  exists t, r, d. congruence.
Qed.

Lemma end_run_settled st id e s : settled id s -> end_run st id e s = (s, []).
Proof.
  intros H. unfold end_run. destruct (find_call id s) as [cs|] eqn:Hf; [|reflexivity].
  destruct (settled_dec_phase id s H cs Hf) as (t & r & d & Hp). rewrite Hp. reflexivity.
Qed.

(* a run function that was running returns: what is shown *)
Lemma end_run_PRun_obs st id e s cs start expected derived :
  find_call id s = Some cs -> cs_phase cs = PRun start expected derived ->
  res_panics (e_res e) = false ->
  exists oq tail,
    snd (end_run st id e s) =
    ORunEnd id (cs_done cs) ::
    (run_fan st (classify (res_is_bad (e_res e)) (match expected with Some x => x <? clock s | None => false end)
                          (negb (res_is_nil (e_res e))) (cs_done cs) (l_ignore_int (cfg s)) (ie_says (l_ie (cfg s))))
             (clock s) (Some (clock s - start)) ++ oq) ++ tail /\
    Quiet oq /\
    ((exists v a, tail = [OReturned id v a]) \/
     (exists err s2, tail = snd (fallback_stage st cs err true derived s2))).
Proof.
  intros Hf Hp Hn. rewrite (end_run_PRun st id e s cs start expected derived Hf Hp). cbv zeta.
  destruct (run_outcome_spec st (e_res e) e (cs_done cs) start expected s) as (oq & E & Q & _).
  exists oq.
  destruct (e_res e) as [|k|k|k|v] eqn:Er; try discriminate Hn; cbn [res_is_nil res_is_bad snd]; rewrite E;
    eexists; (split; [reflexivity|]); (split; [exact Q|]); eauto.
Qed.

(* ... and what becomes of the table of calls *)
Lemma end_run_PRun_state st id e s cs start expected derived :
  find_call id s = Some cs -> cs_phase cs = PRun start expected derived ->
  settled id (fst (end_run st id e s)) /\
  forall id', id' <> id -> ph id' (fst (end_run st id e s)) = ph id' s.
Proof.
  intros Hf Hp. rewrite (end_run_PRun st id e s cs start expected derived Hf Hp). cbv zeta.
  pose proof (find_call_id id s cs Hf) as Hid.
  destruct (run_outcome_spec st (e_res e) e (cs_done cs) start expected s) as (oq & _ & _ & C).
  set (r := run_outcome st (e_res e) e (cs_done cs) start expected s) in *.
  assert (DROP : forall s', calls s' = calls s ->
            settled id (drop_call id s') /\ forall id', id' <> id -> ph id' (drop_call id s') = ph id' s).
  { intros s' Hc. split.
    - left. rewrite ph_drop, Nat.eqb_refl. reflexivity.
    - intros id' Hne. rewrite ph_drop. destruct (Nat.eqb id id') eqn:E; [lia|]. apply ph_calls. exact Hc. }
  assert (FB : forall err s', calls s' = calls s ->
            settled id (fst (fallback_stage st cs err true derived s')) /\
            forall id', id' <> id -> ph id' (fst (fallback_stage st cs err true derived s')) = ph id' s).
  { intros err s' Hc. split.
    - rewrite <- Hid at 1. apply fallback_stage_settled.
    - intros id' Hne. rewrite fallback_stage_ph_other by lia. apply ph_calls. exact Hc. }
  destruct (e_res e) as [|k|k|k|v]; cbn [res_is_nil res_is_bad fst];
    first [apply DROP | apply FB]; try exact C; reflexivity.
Qed.

Lemma end_run_other st id e s :
  all_inv (snd (end_run st id e s)) = [] /\
  forall id', id' <> id -> ph id' (fst (end_run st id e s)) = ph id' s.
Proof.
  destruct (find_call id s) as [cs|] eqn:Hf.
  - destruct (cs_phase cs) as [start expected derived| |t r d] eqn:Hp.
    + split; [|apply (end_run_PRun_state st id e s cs start expected derived Hf Hp)].
      destruct (res_panics (e_res e)) eqn:Hn.
      * rewrite (end_run_PRun st id e s cs start expected derived Hf Hp). cbv zeta.
        destruct (e_res e); try discriminate Hn. reflexivity.
      * destruct (end_run_PRun_obs st id e s cs start expected derived Hf Hp Hn) as (oq & tail & E & Q & T).
        rewrite E. rewrite all_inv_cons. proj_norm. rewrite (quiet_all_inv _ Q).
        destruct T as [(v & a & ->)|(err & s2 & ->)]; [reflexivity|].
        rewrite fallback_stage_all_inv. reflexivity.
    + unfold end_run. rewrite Hf, Hp. cbn [fst snd]. split; [reflexivity|].
      intros id' Hne. rewrite ph_drop. destruct (Nat.eqb id id') eqn:E; [lia|reflexivity].
    + unfold end_run. rewrite Hf, Hp. split; reflexivity.
  - unfold end_run. rewrite Hf. split; reflexivity.
Qed.

(* ====================================================================== *)
(* EndFb                                                                   *)
(* ====================================================================== *)
Lemma end_fb_not_fb st id f s :
  (forall t r d, ph id s <> Some (PFb t r d)) -> end_fb st id f s = (s, []).
Proof.
  intros H. unfold end_fb. unfold ph in H. destruct (find_call id s) as [cs|]; [|reflexivity].
  cbn in H. destruct (cs_phase cs) as [| |t r d]; try reflexivity. exfalso. apply (H t r d). reflexivity.
Qed.

Lemma end_fb_PFb st id f s cs fbstart ran derived :
  find_call id s = Some cs -> cs_phase cs = PFb fbstart ran derived ->
  end_fb st id f s =
  (drop_call id (set_fbs s (fbs s - 1)),
   match f with
   | FPanic v => []
   | FErr _ => emit_fb st FKFailure fbstart (Some (clock s - fbstart))
   | FNil => emit_fb st FKSuccess fbstart (Some (clock s - fbstart))
   end ++
   [OReturned id match f with FPanic v => VPanic v | FErr k => VFb k | FNil => VNil end
              (fb_after ran derived (cs_done cs))]).
Proof.
  intros Hf Hp. unfold end_fb. rewrite Hf, Hp. destruct f; reflexivity.
Qed.

Lemma end_fb_other st id f s :
  all_inv (snd (end_fb st id f s)) = [] /\ (forall w, run_evs w (snd (end_fb st id f s)) = []) /\
  ph id (fst (end_fb st id f s)) = match ph id s with Some (PFb _ _ _) => None | x => x end /\
  forall id', id' <> id -> ph id' (fst (end_fb st id f s)) = ph id' s.
Proof.
  destruct (find_call id s) as [cs|] eqn:Hf.
  - assert (Hph : ph id s = Some (cs_phase cs)) by (unfold ph; rewrite Hf; reflexivity).
    destruct (cs_phase cs) as [start expected derived| |t r d] eqn:Hp.
    + rewrite end_fb_not_fb by (rewrite Hph; discriminate).
      cbn [fst snd]. rewrite Hph. repeat split; reflexivity.
    + rewrite end_fb_not_fb by (rewrite Hph; discriminate).
      cbn [fst snd]. rewrite Hph. repeat split; reflexivity.
    + rewrite (end_fb_PFb st id f s cs t r d Hf Hp). cbn [fst snd]. rewrite Hph.
      split; [|split; [|split]].
      * proj_norm. destruct f; proj_norm; reflexivity.
      * intros w. proj_norm. destruct f; proj_norm; reflexivity.
      * rewrite ph_drop, Nat.eqb_refl. reflexivity.
      * intros id' Hne. rewrite ph_drop. destruct (Nat.eqb id id') eqn:E; [lia|reflexivity].
  - assert (Hph : ph id s = None) by (unfold ph; rewrite Hf; reflexivity).
    rewrite end_fb_not_fb by (rewrite Hph; discriminate).
    cbn [fst snd]. rewrite Hph. repeat split; reflexivity.
Qed.

(* ====================================================================== *)
(* one step, seen from a call it does not concern                          *)
(* ====================================================================== *)
Lemma begin_call_other st id c s :
  (forall i, In i (all_inv (snd (begin_call st id c s))) -> i = id) /\
  forall id', id' <> id -> ph id' (fst (begin_call st id c s)) = ph id' s.
Proof.
  assert (PASS : forall d dl,
    (forall i, In i (all_inv (snd (put_call (cs_pass id c) s, [ORunInvoked id d dl]))) -> i = id) /\
    forall id', id' <> id -> ph id' (fst (put_call (cs_pass id c) s, [ORunInvoked id d dl])) = ph id' s).
  { intros d dl. cbn [fst snd]. split.
    - cbn. intros i [H|[]]. congruence.
    - intros id' Hne. rewrite ph_put. cbn [cs_pass cs_id]. destruct (Nat.eqb id id') eqn:E; [lia|reflexivity]. }
  destruct (s_mode st) eqn:Hm; [|unfold begin_call; rewrite Hm; apply PASS..].
  destruct (l_disabled (cfg s)) eqn:Hd; [unfold begin_call; rewrite Hm, Hd; apply PASS|].
  destruct (c_has_run c) eqn:Hr.
  2:{ unfold begin_call. rewrite Hm, Hd, Hr. cbn [negb fst snd]. split; [intros i []|reflexivity]. }
  destruct (begin_call_char st id c s (conj Hm Hd) Hr) as (cl1 & o1 & Q & E). cbv zeta in E. rewrite E. clear E.
  destruct (gate s c); cbn [fst snd]; proj_norm; rewrite ?(quiet_all_inv _ Q).
  - rewrite fallback_stage_all_inv. split; [intros i []|].
    intros id' Hne. rewrite fallback_stage_ph_other by (cbn [cs_pass cs_id]; lia). reflexivity.
  - rewrite all_inv_cons, fallback_stage_all_inv. split; [intros i []|].
    intros id' Hne. rewrite fallback_stage_ph_other by (cbn [cs_pass cs_id]; lia). reflexivity.
  - rewrite all_inv_cons. proj_norm. rewrite fallback_stage_all_inv. split; [intros i []|].
    intros id' Hne. rewrite fallback_stage_ph_other by (cbn [cs_pass cs_id]; lia). reflexivity.
  - split; [cbn; intros i [H|[]]; congruence|].
    intros id' Hne. rewrite ph_put. cbn [cs_id]. destruct (Nat.eqb id id') eqn:E; [lia|reflexivity].
Qed.

Lemma cancel_call_ph id id' s : ph id' (cancel_call id s) = ph id' s.
Proof.
  unfold cancel_call. destruct (find_call id s) as [cs|] eqn:Hf; [|reflexivity].
  rewrite ph_put. cbn [cs_id cs_phase]. destruct (Nat.eqb id id') eqn:E; [|reflexivity].
  assert (id = id') by lia. subst id'. unfold ph. rewrite Hf. reflexivity.
Qed.

Lemma step_fst st s ev : fst (step st s ev) = fst (step_core st s ev).
Proof. unfold step. destruct (step_core st s ev); reflexivity. Qed.
Lemma step_snd st s ev :
  snd (step st s ev) = snd (step_core st s ev) ++ [reading st (fst (step_core st s ev))].
Proof. unfold step. destruct (step_core st s ev); reflexivity. Qed.

(* ids of the run functions entered in a step; the phase of a call the event does not concern *)
Lemma step_core_other st s ev :
  (forall i, In i (all_inv (snd (step_core st s ev))) -> exists c, ev = Begin i c) /\
  forall id, concerns id ev = false -> ph id (fst (step_core st s ev)) = ph id s.
Proof.
  destruct ev as [id c|id e|id f|id| | |l|d|k]; unfold concerns, event_id, step_core.
  - destruct (begin_call_other st id c s) as [A B]. split.
    + intros i Hi. rewrite (A i Hi). eauto.
    + intros id' Hne. apply B. lia.
  - destruct (end_run_other st id e s) as [A B]. split.
    + rewrite A. intros i [].
    + intros id' Hne. apply B. lia.
  - destruct (end_fb_other st id f s) as (A & _ & _ & B). split.
    + rewrite A. intros i [].
    + intros id' Hne. apply B. lia.
  - cbn [fst snd]. split; [intros i []|]. intros id' _. apply cancel_call_ph.
  - destruct (open_circuit_spec st (clock s) s) as [Q C]. split.
    + rewrite (quiet_all_inv _ Q). intros i [].
    + intros id' _. apply ph_calls. exact C.
  - destruct (close_circuit_spec st (clock s) true false s) as [Q C]. split.
    + rewrite (quiet_all_inv _ Q). intros i [].
    + intros id' _. apply ph_calls. exact C.
  - cbn [fst snd]. split; [intros i []|reflexivity].
  - cbn [fst snd]. split; [intros i []|reflexivity].
  - cbn [fst snd]. split; [intros i []|reflexivity].
Qed.

Lemma step_ph_other st s ev id :
  concerns id ev = false -> ph id (fst (step st s ev)) = ph id s.
Proof. rewrite step_fst. apply step_core_other. Qed.

Lemma invocation_only_at_begin st : forall s ev id d dl,
  In (ORunInvoked id d dl) (snd (step st s ev)) -> exists c, ev = Begin id c.
Proof.
  intros s ev id d dl H. apply in_all_inv in H. rewrite step_snd in H. revert H. proj_norm.
  rewrite app_nil_r. apply step_core_other.
Qed.

(* ====================================================================== *)
(* histories                                                               *)
(* ====================================================================== *)
Lemma all_obs_cons st s ev h :
  all_obs (trace_from st s (ev :: h)) = snd (step st s ev) ++ all_obs (trace_from st (fst (step st s ev)) h).
Proof. cbn [trace_from]. destruct (step st s ev) as [s1 o]. reflexivity. Qed.

Lemma call_obs_cons st id s ev h :
  call_obs id (trace_from st s (ev :: h)) =
  (if concerns id ev then snd (step st s ev) else []) ++ call_obs id (trace_from st (fst (step st s ev)) h).
Proof. cbn [trace_from]. destruct (step st s ev) as [s1 o]. reflexivity. Qed.

Lemma begin_ids_cons ev h :
  begin_ids (ev :: h) = match ev with Begin i _ => [i] | _ => [] end ++ begin_ids h.
Proof. reflexivity. Qed.

Lemma not_in_begin_ids_cons id ev h :
  ~ In id (begin_ids (ev :: h)) -> (forall c, ev <> Begin id c) /\ ~ In id (begin_ids h).
Proof.
  rewrite begin_ids_cons. intros H. split.
  - intros c ->. apply H. left. reflexivity.
  - intros X. apply H. apply in_or_app. right. exact X.
Qed.

Lemma step_all_inv st s ev i : In i (all_inv (snd (step st s ev))) -> exists c, ev = Begin i c.
Proof. rewrite step_snd. proj_norm. rewrite app_nil_r. apply step_core_other. Qed.

Lemma no_inv_rest st id : forall h s,
  ~ In id (begin_ids h) -> run_invocations id (all_obs (trace_from st s h)) = [].
Proof.
  induction h as [|ev h IH]; intros s Hn; [reflexivity|].
  apply not_in_begin_ids_cons in Hn. destruct Hn as [Hev Hn].
  rewrite all_obs_cons, run_inv_app, (IH _ Hn), app_nil_r.
  apply run_inv_of_all_inv. intros Hi. apply step_all_inv in Hi. destruct Hi as [c Hc]. exact (Hev c Hc).
Qed.

Lemma never_invoked st : forall s id c h2,
  enabled st s -> c_has_run c = true -> (shed_by_open s c || vetoed s c) = true ->
  ~ In id (begin_ids h2) ->
  run_invocations id (all_obs (trace_from st s (Begin id c :: h2))) = [].
Proof.
  intros s id c h2 He Hr Hg Hn. rewrite all_obs_cons, run_inv_app, (no_inv_rest st id h2 _ Hn), app_nil_r.
  apply orb_prop in Hg. destruct Hg as [Hs|Hv].
  - apply (shed_step st s id c He Hr Hs).
  - apply (veto_step st s id c He Hr Hv).
Qed.

(* once a call is settled, its segments show no run event *)
Lemma settled_step st id s ev w :
  settled id s -> (forall c, ev <> Begin id c) ->
  settled id (fst (step st s ev)) /\ (concerns id ev = true -> run_evs w (snd (step st s ev)) = []).
Proof.
  intros Hs Hev. destruct (concerns id ev) eqn:Hc.
  2:{ split; [|discriminate]. unfold settled. rewrite (step_ph_other st s ev id Hc). exact Hs. }
  rewrite step_fst, step_snd.
  destruct ev as [i c|i e|i f|i| | |l|d|k]; unfold concerns, event_id in Hc; try discriminate Hc;
    assert (i = id) by lia; subst i; unfold step_core.
  - exfalso. exact (Hev c eq_refl).
  - rewrite (end_run_settled st id e s Hs). cbn [fst snd]. split; [exact Hs|]. intros _.
    proj_norm. reflexivity.
  - destruct (end_fb_other st id f s) as (_ & R & P & _). split.
    + unfold settled in *. rewrite P. destruct Hs as [Hs|(t & r & d & Hs)]; rewrite Hs; left; reflexivity.
    + intros _. proj_norm. rewrite R. reflexivity.
Qed.

Lemma settled_rest st id w : forall h s,
  settled id s -> ~ In id (begin_ids h) -> run_evs w (call_obs id (trace_from st s h)) = [].
Proof.
  induction h as [|ev h IH]; intros s Hs Hn; [reflexivity|].
  apply not_in_begin_ids_cons in Hn. destruct Hn as [Hev Hn].
  destruct (settled_step st id s ev w Hs Hev) as [Hs' Ho].
  rewrite call_obs_cons, run_evs_app, (IH _ Hs' Hn), app_nil_r.
  destruct (concerns id ev); [apply Ho; reflexivity|reflexivity].
Qed.

(* where a refused call stands after its Begin *)
Lemma begin_refused_settled st id c s :
  enabled st s -> c_has_run c = true -> gate s c <> GRun -> settled id (fst (step st s (Begin id c))).
Proof.
  intros He Hr Hg. rewrite step_begin. cbn [fst].
  destruct (begin_call_char st id c s He Hr) as (cl1 & o1 & Q & E). cbv zeta in E. rewrite E. clear E.
  destruct (gate s c); cbn [fst]; try (exfalso; apply Hg; reflexivity);
    apply (fallback_stage_settled st (cs_pass id c)).
Qed.

Lemma gate_shed s c : shed_by_open s c = true -> gate s c = GShed.
Proof. unfold gate. intros ->. reflexivity. Qed.

Lemma one_short_circuit st : forall s id c h2 w,
  enabled st s -> find_call id s = None -> c_has_run c = true -> shed_by_open s c = true ->
  ~ In id (begin_ids h2) -> In w (run_collectors st) ->
  run_evs w (call_obs id (trace_from st s (Begin id c :: h2))) = [(KShort, clock s, None)].
Proof.
  intros s id c h2 w He _ Hr Hs Hn Hw.
  rewrite call_obs_cons. unfold concerns, event_id. rewrite Nat.eqb_refl, run_evs_app.
  rewrite (settled_rest st id w h2 _).
  - rewrite app_nil_r. apply (shed_step st s id c He Hr Hs). exact Hw.
  - apply (begin_refused_settled st id c s He Hr). rewrite (gate_shed s c Hs). discriminate.
  - exact Hn.
Qed.
