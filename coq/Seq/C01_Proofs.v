(* Seq/C01_Proofs.v — proofs behind Properties/C01.v, and the shared core used by
   other Cxx_Proofs files: projections of observation lists, the characterisation
   of begin_call / fallback_stage / end_run, and how events that do not concern a
   call leave that call's phase alone. *)
From CV Require Import Base.Prelude Seq.RollingCounter Seq.TimedCheck Seq.Logic Seq.Circuit Seq.CircuitSpec.
From Coq Require Import ZifyBool.

(* ====================================================================== *)
(* generic list facts                                                      *)
(* ====================================================================== *)
Lemma fm_nil {A B} (f : A -> list B) (l : list A) :
  (forall x, In x l -> f x = []) -> flat_map f l = [].
Proof.
  induction l as [|a l IH]; intros H; [reflexivity|].
  cbn [flat_map]. rewrite (H a) by (left; reflexivity).
  cbn [app]. apply IH. intros x Hx. apply H. right; exact Hx.
Qed.

Lemma fm_map {A B C} (f : B -> list C) (g : A -> B) (l : list A) :
  flat_map f (map g l) = flat_map (fun x => f (g x)) l.
Proof. induction l as [|a l IH]; [reflexivity|]. cbn [map flat_map]. rewrite IH. reflexivity. Qed.

Lemma fm_map_nil {A B C} (f : B -> list C) (g : A -> B) (l : list A) :
  (forall x, f (g x) = []) -> flat_map f (map g l) = [].
Proof. intros H. rewrite fm_map. apply fm_nil. intros x _. apply H. Qed.

Lemma fm_seq_one {C} (x : C) (i : nat) : forall n a,
  flat_map (fun j => if Nat.eqb i j then [x] else []) (seq a n) =
  if ((a <=? i) && (i <? a + n))%nat then [x] else [].
Proof.
  induction n as [|n IH]; intros a.
  - cbn [seq flat_map]. destruct ((a <=? i) && (i <? a + 0))%nat eqn:E; [lia|reflexivity].
  - cbn [seq flat_map]. rewrite IH.
    destruct (Nat.eqb i a) eqn:E1;
      destruct ((S a <=? i) && (i <? S a + n))%nat eqn:E2;
      destruct ((a <=? i) && (i <? a + S n))%nat eqn:E3; try lia; reflexivity.
Qed.

Lemma in_seq0 i n : In i (seq 0 n) -> ((0 <=? i) && (i <? 0 + n))%nat = true.
Proof. intros H. apply in_seq in H. lia. Qed.

Lemma find_filter_keep {A} (p q : A -> bool) (l : list A) :
  (forall x, p x = true -> q x = true) -> find p (filter q l) = find p l.
Proof.
  intros H. induction l as [|a l IH]; [reflexivity|].
  cbn [filter find]. destruct (q a) eqn:Eq.
  - cbn [find]. destruct (p a); [reflexivity|exact IH].
  - destruct (p a) eqn:Ep; [rewrite (H a Ep) in Eq; discriminate|exact IH].
Qed.

Lemma find_filter_none {A} (p q : A -> bool) (l : list A) :
  (forall x, p x = true -> q x = false) -> find p (filter q l) = None.
Proof.
  intros H. induction l as [|a l IH]; [reflexivity|].
  cbn [filter]. destruct (q a) eqn:Eq; [|exact IH].
  cbn [find]. destruct (p a) eqn:Ep; [rewrite (H a Ep) in Eq; discriminate|exact IH].
Qed.

(* ====================================================================== *)
(* projections of observation lists                                        *)
(* ====================================================================== *)
(* ids of all run-function invocations in a list *)
Definition all_inv (l : list obs) : list nat :=
  flat_map (fun o => match o with ORunInvoked i _ _ => [i] | _ => [] end) l.

Lemma run_evs_app w a b : run_evs w (a ++ b) = run_evs w a ++ run_evs w b.
Proof. apply flat_map_app. Qed.
Lemma fb_evs_app i a b : fb_evs i (a ++ b) = fb_evs i a ++ fb_evs i b.
Proof. apply flat_map_app. Qed.
Lemma circ_evs_app w a b : circ_evs w (a ++ b) = circ_evs w a ++ circ_evs w b.
Proof. apply flat_map_app. Qed.
Lemma run_inv_app id a b : run_invocations id (a ++ b) = run_invocations id a ++ run_invocations id b.
Proof. apply flat_map_app. Qed.
Lemma fb_inv_app id a b : fb_invocations id (a ++ b) = fb_invocations id a ++ fb_invocations id b.
Proof. apply flat_map_app. Qed.
Lemma returns_app id a b : returns id (a ++ b) = returns id a ++ returns id b.
Proof. apply flat_map_app. Qed.
Lemma all_inv_app a b : all_inv (a ++ b) = all_inv a ++ all_inv b.
Proof. apply flat_map_app. Qed.
Lemma any_run_ev_app a b : any_run_ev (a ++ b) = any_run_ev a ++ any_run_ev b.
Proof. apply filter_app. Qed.
Lemma any_fb_ev_app a b : any_fb_ev (a ++ b) = any_fb_ev a ++ any_fb_ev b.
Proof. apply filter_app. Qed.

Lemma run_evs_cons w x l : run_evs w (x :: l) = run_evs w [x] ++ run_evs w l.
Proof. apply (run_evs_app w [x] l). Qed.
Lemma fb_evs_cons i x l : fb_evs i (x :: l) = fb_evs i [x] ++ fb_evs i l.
Proof. apply (fb_evs_app i [x] l). Qed.
Lemma run_inv_cons id x l : run_invocations id (x :: l) = run_invocations id [x] ++ run_invocations id l.
Proof. apply (run_inv_app id [x] l). Qed.
Lemma fb_inv_cons id x l : fb_invocations id (x :: l) = fb_invocations id [x] ++ fb_invocations id l.
Proof. apply (fb_inv_app id [x] l). Qed.
Lemma returns_cons id x l : returns id (x :: l) = returns id [x] ++ returns id l.
Proof. apply (returns_app id [x] l). Qed.
Lemma all_inv_cons x l : all_inv (x :: l) = all_inv [x] ++ all_inv l.
Proof. apply (all_inv_app [x] l). Qed.
Lemma any_run_ev_cons x l : any_run_ev (x :: l) = any_run_ev [x] ++ any_run_ev l.
Proof. apply (any_run_ev_app [x] l). Qed.

(* run invocations of one id, from the ids of all invocations *)
Lemma run_inv_of_all_inv id l : ~ In id (all_inv l) -> run_invocations id l = [].
Proof.
  induction l as [|o l IH]; intros H; [reflexivity|].
  rewrite all_inv_cons in H. rewrite run_inv_cons.
  rewrite IH by (intros X; apply H; apply in_or_app; right; exact X).
  rewrite app_nil_r. destruct o; try reflexivity.
  cbn. destruct (Nat.eqb id0 id) eqn:E; [|reflexivity].
  exfalso. apply H. apply in_or_app. left. cbn. left. lia.
Qed.

Lemma in_all_inv id d dl l : In (ORunInvoked id d dl) l -> In id (all_inv l).
Proof.
  induction l as [|o l IH]; intros H; [destruct H|].
  rewrite all_inv_cons. apply in_or_app. destruct H as [H|H].
  - subst o. left. cbn. left. reflexivity.
  - right. apply IH. exact H.
Qed.

(* ---------- quiet observations: nothing a call or a collector sees ---------- *)
Definition quiet (o : obs) : bool :=
  match o with OAsked _ _ | OTimer _ | OReading _ _ _ | OCircEv _ _ _ => true | _ => false end.
Definition Quiet (l : list obs) : Prop := Forall (fun o => quiet o = true) l.

Lemma Quiet_nil : Quiet [].
Proof. constructor. Qed.
Lemma Quiet_cons o l : quiet o = true -> Quiet l -> Quiet (o :: l).
Proof. intros; constructor; assumption. Qed.
Lemma Quiet_app a b : Quiet a -> Quiet b -> Quiet (a ++ b).
Proof. intros; apply Forall_app; split; assumption. Qed.
Lemma Quiet_map {A} (g : A -> obs) l : (forall x, quiet (g x) = true) -> Quiet (map g l).
Proof. intros H. induction l; constructor; auto. Qed.
Lemma Quiet_reading st s : Quiet [reading st s].
Proof. unfold reading. destruct (s_mode st); repeat constructor. Qed.

Ltac quiet_proj :=
  let l := fresh "l" in let H := fresh "H" in let o := fresh "o" in let IH := fresh "IH" in
  intros l H; induction H as [|o l Ho _ IH]; [reflexivity|];
  destruct o; try discriminate Ho; cbn [flat_map filter app]; exact IH.

Lemma quiet_run_evs w : forall l, Quiet l -> run_evs w l = [].
Proof. unfold run_evs. quiet_proj. Qed.
Lemma quiet_fb_evs i : forall l, Quiet l -> fb_evs i l = [].
Proof. unfold fb_evs. quiet_proj. Qed.
Lemma quiet_run_inv id : forall l, Quiet l -> run_invocations id l = [].
Proof. unfold run_invocations. quiet_proj. Qed.
Lemma quiet_fb_inv id : forall l, Quiet l -> fb_invocations id l = [].
Proof. unfold fb_invocations. quiet_proj. Qed.
Lemma quiet_returns id : forall l, Quiet l -> returns id l = [].
Proof. unfold returns. quiet_proj. Qed.
Lemma quiet_all_inv : forall l, Quiet l -> all_inv l = [].
Proof. unfold all_inv. quiet_proj. Qed.
Lemma quiet_any_run_ev : forall l, Quiet l -> any_run_ev l = [].
Proof. unfold any_run_ev. quiet_proj. Qed.
Lemma quiet_any_fb_ev : forall l, Quiet l -> any_fb_ev l = [].
Proof. unfold any_fb_ev. quiet_proj. Qed.

(* ---------- the run fan-out ---------- *)
Definition run_fan (st : static) (k : runkind) (t : Z) (d : option Z) : list obs :=
  map (fun w => ORunEv w k t d) (run_collectors st).

Lemma emit_run_snd st k t d s : snd (emit_run st k t d s) = run_fan st k t d.
Proof. reflexivity. Qed.

Lemma run_fan_run_evs st k t d w :
  In w (run_collectors st) -> run_evs w (run_fan st k t d) = [(k, t, d)].
Proof.
  unfold run_fan, run_collectors, run_evs, users. intros H.
  cbn [map flat_map]. rewrite map_map, fm_map.
  destruct H as [H|[H|H]]; try subst w.
  - cbn [who_eqb app]. rewrite fm_nil by reflexivity. reflexivity.
  - cbn [who_eqb app]. rewrite fm_nil by reflexivity. reflexivity.
  - apply in_map_iff in H. destruct H as (i & <- & Hi).
    cbn [who_eqb app]. rewrite (fm_seq_one (k, t, d) i), (in_seq0 _ _ Hi). reflexivity.
Qed.
Lemma run_fan_any_run_ev st k t d : any_run_ev (run_fan st k t d) = run_fan st k t d.
Proof.
  unfold run_fan, any_run_ev. induction (run_collectors st) as [|a l IH]; [reflexivity|].
  cbn [map filter]. rewrite IH. reflexivity.
Qed.
Lemma run_fan_length st k t d : length (run_fan st k t d) = length (run_collectors st).
Proof. apply map_length. Qed.
Lemma run_fan_fb_evs st k t d i : fb_evs i (run_fan st k t d) = [].
Proof. apply fm_map_nil; reflexivity. Qed.
Lemma run_fan_run_inv st k t d id : run_invocations id (run_fan st k t d) = [].
Proof. apply fm_map_nil; reflexivity. Qed.
Lemma run_fan_fb_inv st k t d id : fb_invocations id (run_fan st k t d) = [].
Proof. apply fm_map_nil; reflexivity. Qed.
Lemma run_fan_returns st k t d id : returns id (run_fan st k t d) = [].
Proof. apply fm_map_nil; reflexivity. Qed.
Lemma run_fan_all_inv st k t d : all_inv (run_fan st k t d) = [].
Proof. apply fm_map_nil; reflexivity. Qed.
Lemma run_fan_any_fb_ev st k t d : any_fb_ev (run_fan st k t d) = [].
Proof.
  unfold run_fan, any_fb_ev. induction (run_collectors st) as [|a l IH]; [reflexivity|exact IH].
Qed.

(* ---------- the fallback fan-out ---------- *)
Lemma emit_fb_fb_evs st k t d i :
  In i (fb_collectors st) -> fb_evs i (emit_fb st k t d) = [(k, t, d)].
Proof.
  unfold emit_fb, fb_collectors, fb_evs. intros H. rewrite fm_map.
  rewrite (fm_seq_one (k, t, d) i), (in_seq0 _ _ H). reflexivity.
Qed.
Lemma emit_fb_run_evs st k t d w : run_evs w (emit_fb st k t d) = [].
Proof. apply fm_map_nil; reflexivity. Qed.
Lemma emit_fb_run_inv st k t d id : run_invocations id (emit_fb st k t d) = [].
Proof. apply fm_map_nil; reflexivity. Qed.
Lemma emit_fb_fb_inv st k t d id : fb_invocations id (emit_fb st k t d) = [].
Proof. apply fm_map_nil; reflexivity. Qed.
Lemma emit_fb_returns st k t d id : returns id (emit_fb st k t d) = [].
Proof. apply fm_map_nil; reflexivity. Qed.
Lemma emit_fb_all_inv st k t d : all_inv (emit_fb st k t d) = [].
Proof. apply fm_map_nil; reflexivity. Qed.
Lemma emit_fb_any_run_ev st k t d : any_run_ev (emit_fb st k t d) = [].
Proof.
  unfold emit_fb, any_run_ev. induction (seq 0 (s_nfb st)) as [|a l IH]; [reflexivity|exact IH].
Qed.

(* normalise a projection of a concatenation of known pieces *)
Ltac proj_norm :=
  repeat (rewrite ?run_evs_app, ?fb_evs_app, ?run_inv_app, ?fb_inv_app, ?returns_app, ?all_inv_app,
                  ?any_run_ev_app, ?any_fb_ev_app);
  rewrite ?run_fan_fb_evs, ?run_fan_run_inv, ?run_fan_fb_inv, ?run_fan_returns, ?run_fan_all_inv,
          ?run_fan_any_run_ev, ?run_fan_any_fb_ev,
          ?emit_fb_run_evs, ?emit_fb_run_inv, ?emit_fb_fb_inv, ?emit_fb_returns, ?emit_fb_all_inv,
          ?emit_fb_any_run_ev;
  rewrite ?(quiet_run_evs _ _ (Quiet_reading _ _)), ?(quiet_fb_evs _ _ (Quiet_reading _ _)),
          ?(quiet_run_inv _ _ (Quiet_reading _ _)), ?(quiet_fb_inv _ _ (Quiet_reading _ _)),
          ?(quiet_returns _ _ (Quiet_reading _ _)), ?(quiet_all_inv _ (Quiet_reading _ _)),
          ?(quiet_any_run_ev _ (Quiet_reading _ _)), ?(quiet_any_fb_ev _ (Quiet_reading _ _)).
