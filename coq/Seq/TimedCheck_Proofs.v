(* Seq/TimedCheck_Proofs.v — the TimedCheck model against its trace-level
   specification: closed until the deadline of the latest re-arm, at most and
   exactly max(1,budget) successes per re-arm period, and only the callback of
   the latest re-arm clears the fast-fail flag. *)
From CV Require Import Base.Prelude Seq.TimedCheck.
From Coq Require Import ZifyBool.

Definition no_set_budget (h : list tcop) : Prop :=
  Forall (fun o => match o with TSetBudget _ => False | _ => True end) h.

(* ---------- snoc lemmas ---------- *)
Definition tc_after_from (c : tc) (h : list tcop) : tc :=
  fold_left (fun c o => fst (tc_step c o)) h c.

Lemma tc_trace_from_app c h1 h2 :
  tc_trace_from c (h1 ++ h2) = tc_trace_from c h1 ++ tc_trace_from (tc_after_from c h1) h2.
Proof.
  revert c; induction h1 as [|o h1 IH]; intros c; [reflexivity|].
  cbn [app tc_trace_from tc_after_from fold_left].
  destruct (tc_step c o) as [c1 x]. cbn [fst app]. f_equal. apply IH.
Qed.

Lemma tc_state_after_snoc s b h o :
  tc_state_after s b (h ++ [o]) = fst (tc_step (tc_state_after s b h) o).
Proof. unfold tc_state_after. rewrite fold_left_app. reflexivity. Qed.

Lemma tc_trace_snoc s b h o :
  tc_trace s b (h ++ [o]) = tc_trace s b h ++ [(o, snd (tc_step (tc_state_after s b h) o))].
Proof.
  unfold tc_trace. rewrite tc_trace_from_app. f_equal.
  change (tc_after_from (tc_init s b) h) with (tc_state_after s b h).
  cbn [tc_trace_from]. destruct (tc_step (tc_state_after s b h) o); reflexivity.
Qed.

Lemma last_deadline_snoc tr o x :
  last_deadline (tr ++ [(o, x)]) =
  match rearm_deadline o x with Some d => Some d | None => last_deadline tr end.
Proof. unfold last_deadline. rewrite fold_left_app. reflexivity. Qed.

Lemma successes_snoc tr o x :
  successes_since_rearm (tr ++ [(o, x)]) =
  match rearm_deadline o x with
  | Some _ => 0
  | None => if succeeded x then successes_since_rearm tr + 1 else successes_since_rearm tr
  end.
Proof. unfold successes_since_rearm. rewrite fold_left_app. reflexivity. Qed.

(* ---------- one step against the trace vocabulary ---------- *)
Lemma tc_step_spec c o :
  let c' := fst (tc_step c o) in
  let x := snd (tc_step c o) in
  match rearm_deadline o x with
  | Some D => tc_next c' = D /\ tc_count c' = 0
  | None => tc_next c' = tc_next c /\
            tc_count c' = (if succeeded x then tc_count c + 1 else tc_count c)
  end.
Proof.
  cbn zeta. destruct o as [now|now|k|d|b];
    unfold tc_step, tc_check, tc_sleep_start, tc_rearm, tc_fire, tc_set_sleep, tc_set_budget.
  - destruct (tc_fastfail c); [simpl; auto|].
    destruct (now <? tc_next c); [simpl; auto|].
    cbn [tc_budget tc_count]. destruct (tc_budget c <=? tc_count c + 1); simpl; auto.
  - simpl; auto.
  - destruct (nth_error (tc_timers c) k) as [v|]; [destruct (v =? tc_version c)|]; simpl; auto.
  - simpl; auto.
  - simpl; auto.
Qed.

Lemma tc_step_budget c o :
  match o with TSetBudget _ => False | _ => True end ->
  let c' := fst (tc_step c o) in
  tc_budget c' = tc_budget c /\
  (0 <= tc_count c < Z.max 1 (tc_budget c) -> 0 <= tc_count c' < Z.max 1 (tc_budget c)).
Proof.
  cbn zeta. destruct o as [now|now|k|d|b]; intros Ho; try contradiction;
    unfold tc_step, tc_check, tc_sleep_start, tc_rearm, tc_fire, tc_set_sleep.
  - destruct (tc_fastfail c); [simpl; auto|].
    destruct (now <? tc_next c); [simpl; auto|].
    cbn [tc_budget tc_count]. destruct (tc_budget c <=? tc_count c + 1) eqn:E; simpl; split; auto; lia.
  - simpl; split; auto; lia.
  - destruct (nth_error (tc_timers c) k) as [v|]; [destruct (v =? tc_version c)|]; simpl; auto.
  - simpl; auto.
Qed.

(* ---------- the invariant relating the state to the observable trace ---------- *)
Lemma tc_inv s b h :
  let c := tc_state_after s b h in
  let tr := tc_trace s b h in
  (forall D, last_deadline tr = Some D -> tc_next c = D) /\
  tc_count c = successes_since_rearm tr.
Proof.
  cbn zeta. induction h as [|o h [IHd IHc]] using rev_ind.
  - split; [discriminate | reflexivity].
  - rewrite tc_state_after_snoc, tc_trace_snoc.
    pose proof (tc_step_spec (tc_state_after s b h) o) as S. cbn zeta in S.
    split.
    + intros D. rewrite last_deadline_snoc.
      destruct (rearm_deadline o _) as [D'|].
      * intros [= <-]. apply S.
      * intros HD. destruct S as [-> _]. apply IHd, HD.
    + rewrite successes_snoc.
      destruct (rearm_deadline o _) as [D'|]; [apply S|].
      destruct S as [_ ->]. rewrite IHc. reflexivity.
Qed.

Lemma tc_inv_budget s b h :
  no_set_budget h ->
  let c := tc_state_after s b h in
  tc_budget c = b /\ 0 <= tc_count c < Z.max 1 b.
Proof.
  cbn zeta. induction h as [|o h IH] using rev_ind; intros Hn.
  - cbn. lia.
  - apply Forall_app in Hn. destruct Hn as [Hh Ho]. inversion_clear Ho as [|? ? Ho' _].
    destruct (IH Hh) as [IHb IHc].
    rewrite tc_state_after_snoc.
    destruct (tc_step_budget (tc_state_after s b h) o Ho') as [Eb Ec].
    rewrite IHb in *. split; [exact Eb | apply Ec, IHc].
Qed.

(* ---------- 1. closed until the deadline of the latest re-arm ---------- *)
Theorem tc_closed_until : forall sleep budget h D now,
  last_deadline (tc_trace sleep budget h) = Some D -> now < D ->
  snd (tc_step (tc_state_after sleep budget h) (TCheck now)) = TOBool false None.
Proof.
  intros s b h D now HD Hlt.
  destruct (tc_inv s b h) as [Hd _]. apply Hd in HD.
  unfold tc_step, tc_check. destruct (tc_fastfail _); [reflexivity|].
  destruct (now <? _) eqn:E; [reflexivity | lia].
Qed.

(* ---------- 2. at most max(1,budget) successes per re-arm period ---------- *)
Theorem tc_at_most_budget : forall sleep budget h,
  no_set_budget h ->
  0 <= successes_since_rearm (tc_trace sleep budget h) < Z.max 1 budget.
Proof.
  intros s b h Hn.
  destruct (tc_inv s b h) as [_ <-]. apply (tc_inv_budget s b h Hn).
Qed.

(* ---------- 3. exactly max(1,budget) successes once the flag is clear ---------- *)
Lemma tc_run_open nows : forall c,
  tc_fastfail c = false ->
  Forall (fun now => tc_next c <= now) nows ->
  0 <= tc_count c ->
  Z.of_nat (length nows) = Z.max 1 (tc_budget c) - tc_count c ->
  (1 <= length nows)%nat ->
  tc_run_from c (map TCheck nows) =
    repeat (TOBool true None) (length nows - 1) ++ [TOBool true (Some (tc_sleep c))].
Proof.
  induction nows as [|now nows IH]; intros c Hf Hall H0 Hlen H1; [simpl in H1; lia|].
  inversion_clear Hall as [|? ? Hnow Hrest].
  cbn [map tc_run_from tc_step]. unfold tc_check. rewrite Hf.
  destruct (now <? tc_next c) eqn:E; [lia|].
  cbn [tc_budget tc_count]. cbn [length] in Hlen |- *.
  destruct (tc_budget c <=? tc_count c + 1) eqn:Eb.
  - assert (nows = []) as -> by (destruct nows; [reflexivity | cbn [length] in Hlen; lia]).
    reflexivity.
  - set (c1 := {| tc_sleep := tc_sleep c; tc_budget := tc_budget c; tc_fastfail := false;
                  tc_version := tc_version c; tc_next := tc_next c; tc_count := tc_count c + 1;
                  tc_timers := tc_timers c |}).
    assert (1 <= length nows)%nat as Hl by lia.
    rewrite (IH c1); cbn [c1 tc_fastfail tc_next tc_count tc_budget tc_sleep]; auto; try lia.
    replace (S (length nows) - 1)%nat with (S (length nows - 1)) by lia. reflexivity.
Qed.

Theorem tc_exactly_budget : forall sleep budget h nows,
  no_set_budget h ->
  let c := tc_state_after sleep budget h in
  tc_fastfail c = false ->
  Forall (fun now => tc_next c <= now) nows ->
  Z.of_nat (length nows) = Z.max 1 budget - successes_since_rearm (tc_trace sleep budget h) ->
  tc_run_from c (map TCheck nows) =
    repeat (TOBool true None) (length nows - 1) ++ [TOBool true (Some (tc_sleep c))].
Proof.
  intros s b h nows Hn c Hf Hall Hlen.
  destruct (tc_inv s b h) as [_ Hc]. destruct (tc_inv_budget s b h Hn) as [Hb Hr].
  fold c in Hc, Hb, Hr. rewrite <- Hc in Hlen.
  apply tc_run_open; auto; lia.
Qed.

(* ---------- 4. only the callback of the latest re-arm clears the flag ---------- *)
Theorem tc_fire_current : forall c k v,
  nth_error (tc_timers c) k = Some v ->
  tc_fastfail (tc_fire k c) = (if v =? tc_version c then false else tc_fastfail c).
Proof.
  intros c k v H. unfold tc_fire. rewrite H. destruct (v =? tc_version c); reflexivity.
Qed.

Print Assumptions tc_closed_until.
Print Assumptions tc_at_most_budget.
Print Assumptions tc_exactly_budget.
Print Assumptions tc_fire_current.
