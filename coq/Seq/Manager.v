(* Seq/Manager.v — sequential model of circuit.Manager (manager.go) together with
   the part of config precedence that CreateCircuit decides, and of a
   rolling.StatFactory used as a configuration constructor (a constructor with a
   side effect: it registers fresh stats under the circuit's name).
   Circuits and stats objects are identity tokens.  No proofs here. *)
From CV Require Import Base.Prelude.

(* the settings whose layering the model tracks (numbers fill gaps, switches or) *)
Record mcfg := { mc_timeout : Z; mc_max : Z; mc_fbmax : Z; mc_force_open : bool; mc_forced_closed : bool; mc_disabled : bool }.
Definition mc_zero : mcfg := {| mc_timeout := 0; mc_max := 0; mc_fbmax := 0; mc_force_open := false; mc_forced_closed := false; mc_disabled := false |}.
Definition gap (a b : Z) : Z := if a =? 0 then b else a.
Definition mc_merge (c o : mcfg) : mcfg :=
  {| mc_timeout := gap (mc_timeout c) (mc_timeout o); mc_max := gap (mc_max c) (mc_max o); mc_fbmax := gap (mc_fbmax c) (mc_fbmax o);
     mc_force_open := mc_force_open c || mc_force_open o; mc_forced_closed := mc_forced_closed c || mc_forced_closed o;
     mc_disabled := mc_disabled c || mc_disabled o |}.
(* defaultCommandProperties *)
Definition mc_library : mcfg := {| mc_timeout := 1000000000; mc_max := 10; mc_fbmax := 10; mc_force_open := false; mc_forced_closed := false; mc_disabled := false |}.

(* a DefaultCircuitProperties constructor: a fixed configuration, or a StatFactory *)
Inductive ctor := CtorStatic (c : mcfg) | CtorStats.

Record mcircuit := { ci_id : nat; ci_name : nat; ci_cfg : mcfg; ci_stats : option nat }.
Record mstate := {
  m_circuits : list mcircuit;            (* circuitMap, in creation order *)
  m_registry : list (nat * nat);         (* StatFactory: name -> stats token (latest registration first) *)
  m_next : nat                           (* next fresh token *)
}.
Definition m_init : mstate := {| m_circuits := []; m_registry := []; m_next := 0 |}.

Definition find_circuit (name : nat) (s : mstate) : option mcircuit :=
  find (fun c => Nat.eqb (ci_name c) name) (m_circuits s).
Definition reg_lookup (name : nat) (r : list (nat * nat)) : option nat :=
  match find (fun p => Nat.eqb (fst p) name) r with Some p => Some (snd p) | None => None end.

(* run the constructors from last to first: each contributes a layer; a StatFactory also
   registers a fresh stats token under the name and hands it to the circuit as collector *)
Fixpoint run_ctors (name : nat) (cs : list ctor) (acc : mcfg) (reg : list (nat * nat)) (next : nat) (stats : option nat)
  : mcfg * list (nat * nat) * nat * option nat :=
  match cs with
  | [] => (acc, reg, next, stats)
  | CtorStatic c :: t => run_ctors name t (mc_merge acc c) reg next stats
  | CtorStats :: t =>
      (* Metrics.Run is appended in merge order: the first factory consulted provides the collector FindCommandMetrics finds *)
      run_ctors name t acc ((name, next) :: reg) (S next) (match stats with Some x => Some x | None => Some next end)
  end.

Inductive mop := MCreate (name : nat) (explicit : list mcfg) | MGet (name : nat) | MAll | MStats (name : nat).
Inductive mout :=
| MCreated (id : nat) (cfg : mcfg) (stats_live : option bool)   (* created; effective settings; are the factory's stats for the name this circuit's collector *)
| MExists                                                (* error: a circuit with that name already exists *)
| MFound (id : option nat)
| MList (ids : list nat)
| MStatsLive (b : option bool).                          (* None: the factory knows no stats for the name *)

Section Manager.
Variable defaults : list ctor.     (* Manager.DefaultCircuitProperties *)

Definition stats_live (name : nat) (s : mstate) : option bool :=
  match reg_lookup name (m_registry s) with
  | None => None
  | Some tok => Some (match find_circuit name s with
                      | Some c => match ci_stats c with Some x => Nat.eqb x tok | None => false end
                      | None => false end)
  end.

Definition m_step (s : mstate) (o : mop) : mstate * mout :=
  match o with
  | MCreate name explicit =>
      match find_circuit name s with
      | Some _ => (s, MExists)                      (* nothing else happens *)
      | None =>
          let base := fold_left mc_merge explicit mc_zero in
          let '(cfg1, reg, next, stats) := run_ctors name (rev defaults) base (m_registry s) (m_next s) None in
          let cfg := mc_merge cfg1 mc_library in    (* NewCircuitFromConfig merges the library defaults *)
          let id := length (m_circuits s) in
          let c := {| ci_id := id; ci_name := name; ci_cfg := cfg; ci_stats := stats |} in
          let s' := {| m_circuits := m_circuits s ++ [c]; m_registry := reg; m_next := next |} in
          (s', MCreated id cfg (stats_live name s'))
      end
  | MGet name => (s, MFound (match find_circuit name s with Some c => Some (ci_id c) | None => None end))
  | MAll => (s, MList (map ci_id (m_circuits s)))
  | MStats name => (s, MStatsLive (stats_live name s))
  end.

Definition m_state_after (h : list mop) : mstate := fold_left (fun s o => fst (m_step s o)) h m_init.
Fixpoint m_run_from (s : mstate) (h : list mop) : list mout :=
  match h with [] => [] | o :: t => let (s1, x) := m_step s o in x :: m_run_from s1 t end.
Definition m_run (h : list mop) : list mout := m_run_from m_init h.

(* ---------- specification vocabulary ---------- *)
(* the configuration layers of a create, in precedence order *)
Definition static_layers (cs : list ctor) : list mcfg :=
  flat_map (fun c => match c with CtorStatic x => [x] | CtorStats => [] end) cs.
Definition layers (explicit : list mcfg) : list mcfg := explicit ++ static_layers (rev defaults) ++ [mc_library].
(* the first set value of a numeric setting along the layers, 0 if none *)
Definition first_set (l : list Z) : Z := fold_right gap 0 l.
Definition created_names (s : mstate) : list nat := map ci_name (m_circuits s).
End Manager.
