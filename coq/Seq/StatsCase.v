(* Seq/StatsCase.v — evaluation side of the metric-consumer correspondence. *)
From Coq Require Import ZArith List.
From Flocq Require Import IEEE754.BinarySingleNaN.
From CV Require Import Base.Prelude Seq.RollingCounter Seq.RollingPercentile Seq.PercentileFloat Seq.Logic Seq.Circuit Seq.Stats Seq.CaseCheck.

Inductive qout :=
| QTotals (l : list Z) | QRollings (l : list Z) | QFbTotals (l : list Z) | QFbRollings (l : list Z)
| QErrPct (m e : Z)            (* ErrorPercentageAt as the float m * 2^e *)
| QSlo (pass fail : Z)
| QStream (s : stream).

Definition zl_eqb := list_eqb Z.eqb.
Definition stream_eqb (a b : stream) : bool :=
  (sm_request_count a =? sm_request_count b) && (sm_error_count a =? sm_error_count b) && (sm_error_pct a =? sm_error_pct b) &&
  zl_eqb (sm_rolling a) (sm_rolling b) && zl_eqb (sm_total a) (sm_total b) &&
  zl_eqb (sm_fb_rolling a) (sm_fb_rolling b) && zl_eqb (sm_fb_total a) (sm_fb_total b) && Bool.eqb (sm_open a) (sm_open b).

(* params: n, w, start, pn, pw, pcap, healthy *)
Definition sparams : Type := Z * Z * Z * Z * Z * Z * Z.

Definition q_ok (p : sparams) (evs : list sev) (now : Z) (open : bool) (q : qout) : bool :=
  let '(n, w, start, pn, pw, pcap, healthy) := p in
  let s := stats_after n w start pn pw pcap healthy evs in
  match q with
  | QTotals l => zl_eqb l (totals (st_run s))
  | QRollings l => zl_eqb l (rollings n w start now (st_run s))
  | QFbTotals l => zl_eqb l (totals (st_fb s))
  | QFbRollings l => zl_eqb l (rollings n w start now (st_fb s))
  | QErrPct m e => Beqb (error_percentage n w start now s) (f_of_me m e)
  | QSlo pa fa => (pa =? st_pass s) && (fa =? st_fail s)
  | QStream r => stream_eqb r (stream_record n w start now open s)
  end.

(* a query: number of events fed so far, the clock, whether the circuit was forced open, what was observed *)
Definition squery : Type := nat * Z * bool * list qout.
Definition stats_case : Type := nat * sparams * list sev * list squery.
Definition stats_mismatches (cs : list stats_case) : list (nat * nat) :=
  flat_map (fun c : stats_case =>
    let '(id, p, evs, qs) := c in
    flat_map (fun iq : nat * squery =>
      let '(i, (nev, now, open, outs)) := iq in
      if forallb (q_ok p (firstn nev evs) now open) outs then [] else [(id, i)]) (combine (seq 0 (length qs)) qs)) cs.
