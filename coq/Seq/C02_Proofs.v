(* Seq/C02_Proofs.v — proofs behind Properties/C02.v: the built-in openers trip
   exactly on their documented threshold; the circuit opens exactly when its
   opener says so and the opener is fed exactly what the observation log shows. *)
From Coq Require Import ZifyBool.
From CV Require Import Base.Prelude Seq.RollingCounter Seq.TimedCheck Seq.Logic Seq.Circuit Seq.CircuitSpec Seq.LogicSpec.
From CV Require Seq.RollingCounter_Proofs.

(* ====================================================================== *)
(* neutral kinds                                                           *)
(* ====================================================================== *)
Lemma neutral_kinds : forall k t o, legit k = false -> opener_run k t o = o.
Proof. intros k t o H. destruct o; destruct k; cbn in *; try reflexivity; discriminate. Qed.

(* ====================================================================== *)
(* generic helpers                                                         *)
(* ====================================================================== *)
Lemma let_pair {A B C} (r : A * B) (f : A -> B -> C) : (let (a, b) := r in f a b) = f (fst r) (snd r).
Proof. destruct r; reflexivity. Qed.

Lemma opener_view_app a b : opener_view (a ++ b) = opener_view a ++ opener_view b.
Proof. unfold opener_view. apply flat_map_app. Qed.
Lemma opener_after_app o a b : opener_after o (a ++ b) = opener_after (opener_after o a) b.
Proof. unfold opener_after. apply fold_left_app. Qed.

Lemma should_open_fst_ans t ans o : fst (opener_should_open t ans o) = fst (opener_should_open t false o).
Proof. destruct o; cbn; try reflexivity. Qed.

(* observation lists the opener's view ignores *)
Definition silent (o : list obs) : Prop := opener_view o = [].
Lemma silent_nil : silent []. Proof. reflexivity. Qed.
Lemma silent_app a b : silent a -> silent b -> silent (a ++ b).
Proof. unfold silent. intros A B. rewrite opener_view_app, A, B. reflexivity. Qed.
Lemma silent_cons x l : obs_lev x = [] -> silent l -> silent (x :: l).
Proof. unfold silent, opener_view. cbn [flat_map]. intros A B. rewrite A, B. reflexivity. Qed.
Lemma silent_timers l : silent (map OTimer l).
Proof. induction l as [|x l IH]; [apply silent_nil | apply silent_cons; [reflexivity | exact IH]]. Qed.
Lemma silent_fb st k t d : silent (emit_fb st k t d).
Proof. unfold emit_fb. induction (seq 0 (s_nfb st)) as [|x l IH]; [apply silent_nil | apply silent_cons; [reflexivity | exact IH]]. Qed.
Lemma silent_users_run k t d n : silent (map (fun w => ORunEv w k t d) (users n)).
Proof. unfold users. induction (seq 0 n) as [|x l IH]; [apply silent_nil | apply silent_cons; [reflexivity | exact IH]]. Qed.
Lemma silent_users_circ k t n : silent (map (fun w => OCircEv w k t) (users n)).
Proof. unfold users. induction (seq 0 n) as [|x l IH]; [apply silent_nil | apply silent_cons; [reflexivity | exact IH]]. Qed.
Lemma reading_silent st s : obs_lev (reading st s) = [].
Proof. unfold reading. destruct (s_mode st); reflexivity. Qed.

Ltac sil := repeat first [ assumption | apply silent_nil | apply silent_timers | apply silent_fb
                         | apply silent_users_run | apply silent_users_circ
                         | apply silent_cons; [reflexivity|] | apply silent_app ].

Lemma view_emit_run st k t d : opener_view (map (fun w => ORunEv w k t d) (run_collectors st)) = [LRun k t].
Proof.
  unfold run_collectors. cbn [map]. unfold opener_view. cbn [flat_map obs_lev app].
  f_equal. apply (silent_users_run k t d).
Qed.

(* ====================================================================== *)
(* the opener is fed exactly what the log shows                            *)
(* ====================================================================== *)
Definition lev_ok (t : Z) (l : list lev) : Prop := Forall (fun e => lev_time e = t) l.

(* r = the result of a piece of a segment run from s: the opener it leaves is the one of s fed
   with the view of what it logged; everything logged for the opener carries the clock of s;
   the clock is untouched *)
Definition Fed (s : state) (r : state * list obs) : Prop :=
  opn (fst r) = opener_after (opn s) (opener_view (snd r)) /\
  lev_ok (clock s) (opener_view (snd r)) /\
  clock (fst r) = clock s.

Lemma Fed_ret s s' o : opn s' = opn s -> clock s' = clock s -> silent o -> Fed s (s', o).
Proof.
  intros A B C. unfold Fed. cbn [fst snd]. rewrite C. cbn. repeat split; auto. constructor.
Qed.

Lemma Fed_seq s s1 o1 s2 o2 : Fed s (s1, o1) -> Fed s1 (s2, o2) -> Fed s (s2, o1 ++ o2).
Proof.
  unfold Fed. cbn [fst snd]. intros (A1 & B1 & C1) (A2 & B2 & C2).
  rewrite opener_view_app, opener_after_app. repeat split.
  - rewrite <- A1. exact A2.
  - apply Forall_app. split; [exact B1|]. rewrite <- C1. exact B2.
  - congruence.
Qed.

Lemma Fed_upd s s1 s2 o : Fed s (s1, o) -> opn s2 = opn s1 -> clock s2 = clock s1 -> Fed s (s2, o).
Proof. unfold Fed. cbn [fst snd]. intros (A & B & C) D E. repeat split; congruence. Qed.

Lemma Fed_app_l s s1 o o1 : silent o -> Fed s (s1, o1) -> Fed s (s1, o ++ o1).
Proof. intros A B. eapply Fed_seq; [apply (Fed_ret s s o); auto | exact B]. Qed.
Lemma Fed_app_r s s1 o o1 : silent o -> Fed s (s1, o1) -> Fed s (s1, o1 ++ o).
Proof. intros A B. eapply Fed_seq; [exact B | apply Fed_ret; auto]. Qed.
Lemma Fed_cons s s1 x o1 : obs_lev x = [] -> Fed s (s1, o1) -> Fed s (s1, x :: o1).
Proof. intros A B. apply (Fed_app_l s s1 [x] o1); [apply silent_cons; [exact A | apply silent_nil] | exact B]. Qed.
Lemma Fed_pair s r : Fed s (fst r, snd r) -> Fed s r.
Proof. destruct r; auto. Qed.

Lemma emit_run_fed st k t d s : t = clock s -> Fed s (emit_run st k t d s).
Proof.
  intros ->. unfold Fed, emit_run. cbn [fst snd]. rewrite view_emit_run.
  cbn. repeat split. constructor; [reflexivity | constructor].
Qed.

Lemma emit_circ_fed st k t s : t = clock s -> Fed s (emit_circ st k t s).
Proof.
  intros ->. unfold emit_circ. destruct (closer_circ (clock s) (cls s)) as [c1 timers].
  unfold Fed. cbn [fst snd].
  assert (V : opener_view (OCircEv WCloser k (clock s) :: map OTimer timers ++
                OCircEv WOpener k (clock s) :: map (fun w => OCircEv w k (clock s)) (users (s_ncirc st)))
              = [LCirc k (clock s)]).
  { change (opener_view (([OCircEv WCloser k (clock s)] ++ map OTimer timers) ++
            [OCircEv WOpener k (clock s)] ++ map (fun w => OCircEv w k (clock s)) (users (s_ncirc st))) = [LCirc k (clock s)]).
    rewrite !opener_view_app.
    assert (S1 : silent ([OCircEv WCloser k (clock s)] ++ map OTimer timers)) by sil.
    rewrite <- opener_view_app, S1. rewrite (silent_users_circ k (clock s) (s_ncirc st)). reflexivity. }
  rewrite V. cbn. repeat split. constructor; [reflexivity | constructor].
Qed.

Lemma open_circuit_fed st t s : t = clock s -> Fed s (open_circuit st t s).
Proof.
  intros Ht. unfold open_circuit.
  destruct (l_forced_closed (cfg s)); [apply Fed_ret; auto; sil|].
  destruct (is_open s); [apply Fed_ret; auto; sil|].
  rewrite let_pair. pose proof (emit_circ_fed st Opened t s Ht) as Q.
  destruct (emit_circ st Opened t s) as [s1 o]. cbn [fst snd].
  eapply Fed_upd; [exact Q | reflexivity | reflexivity].
Qed.

Lemma close_circuit_fed st t force ans s : t = clock s -> Fed s (close_circuit st t force ans s).
Proof.
  intros Ht. unfold close_circuit.
  destruct (negb (is_open s)); [apply Fed_ret; auto; sil|].
  destruct (l_force_open (cfg s)); [apply Fed_ret; auto; sil|].
  pose proof (emit_circ_fed st Closed t s Ht) as Q.
  destruct force.
  - rewrite let_pair. destruct (emit_circ st Closed t s) as [s1 o]. cbn [fst snd].
    eapply Fed_upd; [exact Q | reflexivity | reflexivity].
  - destruct (closer_should_close ans (cls s)); [|apply Fed_ret; auto; sil].
    rewrite let_pair. destruct (emit_circ st Closed t s) as [s1 o]. cbn [fst snd].
    apply Fed_cons; [reflexivity|].
    eapply Fed_upd; [exact Q | reflexivity | reflexivity].
Qed.

Lemma attempt_to_open_fed st t ans s : t = clock s -> Fed s (attempt_to_open st t ans s).
Proof.
  intros Ht. unfold attempt_to_open.
  destruct (l_forced_closed (cfg s)); [apply Fed_ret; auto; sil|].
  destruct (is_open s); [apply Fed_ret; auto; sil|].
  pose proof (should_open_fst_ans t ans (opn s)) as Hf.
  destruct (opener_should_open t ans (opn s)) as [o1 b]. cbn [fst] in Hf.
  assert (Q1 : Fed s (set_logic s o1 (cls s), [OAsked QShouldOpen t])).
  { unfold Fed. cbn [fst snd opn clock set_logic]. cbn. subst t. repeat split; auto.
    constructor; [reflexivity | constructor]. }
  destruct b; [|exact Q1].
  rewrite let_pair.
  pose proof (open_circuit_fed st t (set_logic s o1 (cls s)) Ht) as Q2.
  destruct (open_circuit st t (set_logic s o1 (cls s))) as [s2 o]. cbn [fst snd].
  exact (Fed_seq _ _ _ _ _ Q1 Q2).
Qed.

Lemma fallback_stage_fed st cs err ran derived s : Fed s (fallback_stage st cs err ran derived s).
Proof.
  unfold fallback_stage.
  destruct (negb (has_fb_eff (cs_call cs)) || l_fb_disabled (cfg s)); [apply Fed_ret; auto; sil|].
  destruct ((0 <=? l_fb_max (cfg s)) && (l_fb_max (cfg s) <? fbs s + 1)); apply Fed_ret; auto; sil.
Qed.

Lemma begin_call_fed st id c s : Fed s (begin_call st id c s).
Proof.
  unfold begin_call.
  destruct (s_mode st); try (apply Fed_ret; auto; sil; fail).
  destruct (l_disabled (cfg s)); [apply Fed_ret; auto; sil|].
  destruct (negb (c_has_run c)); [apply Fed_ret; auto; sil|].
  set (cs0 := {| cs_id := id; cs_call := c; cs_phase := PPass; cs_done := c_done c |}).
  match goal with |- Fed s (match ?A with _ => _ end) =>
    assert (Q1 : Fed s (fst (fst A), snd A) /\ silent (snd A));
      [ | revert Q1; generalize A; intros [[s1 admitted] o1] (Q1 & S1); cbn [fst snd] in Q1, S1 ]
  end.
  { destruct (negb (is_open s)); [split; [apply Fed_ret; auto|]; sil|].
    destruct (l_force_open (cfg s)); [split; [apply Fed_ret; auto|]; sil|].
    destruct (closer_allow (clock s) (c_allow c) (cls s)) as [[cl1 b] timers].
    cbn [fst snd]. split; [apply Fed_ret; auto|]; sil. }
  assert (C1 : clock s1 = clock s) by apply Q1.
  destruct (negb admitted).
  - rewrite !let_pair.
    pose proof (emit_run_fed st KShort (clock s) None s1 (eq_sym C1)) as Q2.
    destruct (emit_run st KShort (clock s) None s1) as [s2 o2]. cbn [fst snd].
    pose proof (fallback_stage_fed st cs0 VCircuitOpen false false s2) as Q3.
    destruct (fallback_stage st cs0 VCircuitOpen false false s2) as [s3 o3]. cbn [fst snd].
    exact (Fed_seq _ _ _ _ _ Q1 (Fed_seq _ _ _ _ _ Q2 Q3)).
  - destruct (opener_prevent (c_prevent c) (opn s1)).
    + rewrite !let_pair.
      pose proof (fallback_stage_fed st cs0 VCircuitOpen false false s1) as Q3.
      destruct (fallback_stage st cs0 VCircuitOpen false false s1) as [s3 o3]. cbn [fst snd].
      refine (Fed_seq _ _ _ _ _ Q1 _). apply Fed_cons; [reflexivity | exact Q3].
    + cbv zeta. destruct ((0 <=? l_max (cfg s1)) && (l_max (cfg s1) <? cmds s1 + 1)).
      * rewrite !let_pair.
        pose proof (emit_run_fed st KReject (clock s) None s1 (eq_sym C1)) as Q2.
        destruct (emit_run st KReject (clock s) None s1) as [s2 o2]. cbn [fst snd].
        pose proof (fallback_stage_fed st cs0 VThrottled false false s2) as Q3.
        destruct (fallback_stage st cs0 VThrottled false false s2) as [s3 o3]. cbn [fst snd].
        refine (Fed_seq _ _ _ _ _ Q1 _). apply Fed_cons; [reflexivity|].
        exact (Fed_seq _ _ _ _ _ Q2 Q3).
      * refine (Fed_seq _ _ _ _ _ Q1 _). apply Fed_ret; auto; sil.
Qed.

Lemma end_fb_fed st id f s : Fed s (end_fb st id f s).
Proof.
  unfold end_fb.
  destruct (find_call id s) as [cs|]; [|apply Fed_ret; auto; sil].
  destruct (cs_phase cs) as [start expected derived| |a b c]; [apply Fed_ret; auto; sil|apply Fed_ret; auto; sil|].
  destruct f; apply Fed_ret; auto; sil.
Qed.

(* the transition part of EndRun: the run event, then possibly attemptToOpen / close *)
Lemma run_then_open_fed st k t d ans s :
  t = clock s ->
  Fed s (let (sa, oa) := emit_run st k t d s in
         if negb (is_open sa) then let (sb, ob) := attempt_to_open st t ans sa in (sb, oa ++ ob) else (sa, oa)).
Proof.
  intros Ht. pose proof (emit_run_fed st k t d s Ht) as Q1.
  destruct (emit_run st k t d s) as [sa oa].
  destruct (negb (is_open sa)); [|exact Q1].
  assert (Ca : t = clock sa) by (destruct Q1 as (_ & _ & C); cbn [fst] in C; congruence).
  pose proof (attempt_to_open_fed st t ans sa Ca) as Q2.
  destruct (attempt_to_open st t ans sa) as [sb ob].
  exact (Fed_seq _ _ _ _ _ Q1 Q2).
Qed.

Lemma run_then_close_fed st k t d ans s :
  t = clock s ->
  Fed s (let (sa, oa) := emit_run st k t d s in
         if is_open sa then let (sb, ob) := close_circuit st t false ans sa in (sb, oa ++ ob) else (sa, oa)).
Proof.
  intros Ht. pose proof (emit_run_fed st k t d s Ht) as Q1.
  destruct (emit_run st k t d s) as [sa oa].
  destruct (is_open sa); [|exact Q1].
  assert (Ca : t = clock sa) by (destruct Q1 as (_ & _ & C); cbn [fst] in C; congruence).
  pose proof (close_circuit_fed st t false ans sa Ca) as Q2.
  destruct (close_circuit st t false ans sa) as [sb ob].
  exact (Fed_seq _ _ _ _ _ Q1 Q2).
Qed.

Lemma end_run_fed st id e s : Fed s (end_run st id e s).
Proof.
  unfold end_run.
  destruct (find_call id s) as [cs|]; [|apply Fed_ret; auto; sil].
  destruct (cs_phase cs) as [start expected derived| |a b c]; [|apply Fed_ret; auto; sil|apply Fed_ret; auto; sil].
  destruct (e_res e) as [|k|k|k|v]; [..|apply Fed_ret; auto; sil].
  all: cbn [res_is_bad res_is_nil negb andb].
  all: match goal with |- Fed ?s0 (match ?A with _ => _ end) =>
         assert (Q1 : Fed s0 A); [ | revert Q1; generalize A; intros [s1 o1] Q1 ]
       end.
  all: try (repeat match goal with |- Fed _ (if ?b then _ else _) => destruct b end;
            first [ apply emit_run_fed; reflexivity | apply run_then_open_fed; reflexivity
                  | apply run_then_close_fed; reflexivity ]; fail).
  all: cbv zeta.
  all: try (apply Fed_cons; [reflexivity|]; apply Fed_app_r; [sil|];
            eapply Fed_upd; [exact Q1 | reflexivity | reflexivity]; fail).
  all: rewrite let_pair;
       match goal with |- context [fallback_stage ?a ?b ?c ?d ?e ?f] =>
         pose proof (fallback_stage_fed a b c d e f) as Q3;
         destruct (fallback_stage a b c d e f) as [s3 o3] end;
       cbn [fst snd]; apply Fed_cons; [reflexivity|];
       refine (Fed_seq _ _ _ _ _ _ Q3);
       eapply Fed_upd; [exact Q1 | reflexivity | reflexivity].
Qed.

Lemma step_core_fed st s ev :
  opn (fst (step_core st s ev)) = opener_after (opn s) (opener_view (snd (step_core st s ev))) /\
  lev_ok (clock s) (opener_view (snd (step_core st s ev))) /\
  clock (fst (step_core st s ev)) = match ev with Tick d => clock s + d | _ => clock s end.
Proof.
  destruct ev as [id c|id e|id f|id| | |l|d|k]; cbn [step_core].
  - apply begin_call_fed.
  - apply end_run_fed.
  - apply end_fb_fed.
  - apply (Fed_ret s); [| |sil]; unfold cancel_call; destruct (find_call id s); reflexivity.
  - apply open_circuit_fed; reflexivity.
  - apply close_circuit_fed; reflexivity.
  - apply (Fed_ret s); auto; sil.
  - cbn. repeat split. constructor.
  - apply (Fed_ret s); auto; sil.
Qed.

Lemma step_fed st s ev :
  opn (fst (step st s ev)) = opener_after (opn s) (opener_view (snd (step st s ev))) /\
  lev_ok (clock s) (opener_view (snd (step st s ev))) /\
  clock (fst (step st s ev)) = match ev with Tick d => clock s + d | _ => clock s end.
Proof.
  pose proof (step_core_fed st s ev) as (A & B & C). unfold step.
  destruct (step_core st s ev) as [s1 o]. cbn [fst snd] in *.
  assert (V : opener_view (o ++ [reading st s1]) = opener_view o).
  { rewrite opener_view_app. unfold opener_view at 2. cbn [flat_map]. rewrite reading_silent. apply app_nil_r. }
  rewrite V. auto.
Qed.

Lemma state_after_cons st s ev h : state_after st s (ev :: h) = state_after st (fst (step st s ev)) h.
Proof. reflexivity. Qed.

Lemma all_obs_trace_cons st s ev h :
  all_obs (trace_from st s (ev :: h)) = snd (step st s ev) ++ all_obs (trace_from st (fst (step st s ev)) h).
Proof. cbn [trace_from]. destruct (step st s ev) as [s1 o]. reflexivity. Qed.

Lemma opener_fed_by_observations (st : static) : forall s h,
  opn (state_after st s h) = opener_after (opn s) (opener_view (all_obs (trace_from st s h))).
Proof.
  intros s h. revert s. induction h as [|ev h IH]; intros s; [reflexivity|].
  rewrite state_after_cons, all_obs_trace_cons, opener_view_app, opener_after_app, IH.
  destruct (step_fed st s ev) as (A & _ & _). rewrite A. reflexivity.
Qed.

(* ====================================================================== *)
(* single segments                                                         *)
(* ====================================================================== *)
Lemma step_fst st s ev : fst (step st s ev) = fst (step_core st s ev).
Proof. unfold step. destruct (step_core st s ev); reflexivity. Qed.
Lemma step_snd st s ev : snd (step st s ev) = snd (step_core st s ev) ++ [reading st (fst (step_core st s ev))].
Proof. unfold step. destruct (step_core st s ev); reflexivity. Qed.

Lemma fallback_keeps st cs err ran derived s :
  opn (fst (fallback_stage st cs err ran derived s)) = opn s /\
  flag (fst (fallback_stage st cs err ran derived s)) = flag s.
Proof.
  unfold fallback_stage.
  destruct (negb (has_fb_eff (cs_call cs)) || l_fb_disabled (cfg s)); [split; reflexivity|].
  destruct ((0 <=? l_fb_max (cfg s)) && (l_fb_max (cfg s) <? fbs s + 1)); split; reflexivity.
Qed.

Ltac fbk := match goal with |- context [fallback_stage ?a ?b ?c ?d ?e ?f] =>
   let FA := fresh "FA" in let FB := fresh "FB" in
   destruct (fallback_keeps a b c d e f) as [FA FB]; rewrite FA, FB; clear FA FB end.

Lemma rejections_do_not_move (st : static) : forall s id c,
  enabled st s -> c_has_run c = true -> gate s c <> GRun ->
  opn (fst (step st s (Begin id c))) = opn s /\ flag (fst (step st s (Begin id c))) = flag s.
Proof.
  intros s id c (Hm & Hd) Hr Hg.
  rewrite step_fst. cbn [step_core]. unfold begin_call. rewrite Hm, Hd, Hr. cbn [negb].
  unfold gate, shed_by_open, closer_admits, run_limit_hit in Hg.
  destruct (is_open s) eqn:Eo; cbn [negb andb] in *.
  - destruct (l_force_open (cfg s)) eqn:Ef; cbn [orb] in *.
    + cbn [negb]. rewrite !let_pair. cbn [fst]. fbk. unfold emit_run. cbn [fst opn flag set_logic].
      rewrite neutral_kinds by reflexivity. split; reflexivity.
    + destruct (closer_allow (clock s) (c_allow c) (cls s)) as [[cl1 b] timers]. cbn [fst snd] in Hg.
      destruct b; cbn [negb] in *.
      * cbn [opn set_logic cfg cmds].
        destruct (opener_prevent (c_prevent c) (opn s)).
        -- rewrite !let_pair. cbn [fst]. fbk. split; reflexivity.
        -- cbv zeta. cbn [opn set_logic cfg cmds].
           destruct ((0 <=? l_max (cfg s)) && (l_max (cfg s) <? cmds s + 1)); [|congruence].
           rewrite !let_pair. cbn [fst]. fbk. unfold emit_run. cbn [fst opn flag set_logic].
           rewrite neutral_kinds by reflexivity. split; reflexivity.
      * rewrite !let_pair. cbn [fst]. fbk. unfold emit_run. cbn [fst opn flag set_logic].
        rewrite neutral_kinds by reflexivity. split; reflexivity.
  - destruct (opener_prevent (c_prevent c) (opn s)).
    + rewrite !let_pair. cbn [fst]. fbk. split; reflexivity.
    + cbv zeta.
      destruct ((0 <=? l_max (cfg s)) && (l_max (cfg s) <? cmds s + 1)); [|congruence].
      rewrite !let_pair. cbn [fst]. fbk. unfold emit_run. cbn [fst opn flag set_logic].
      rewrite neutral_kinds by reflexivity. split; reflexivity.
Qed.

(* ---------- lists without circuit notifications ---------- *)
Definition NC (o : list obs) : Prop := any_circ_ev o = [].
Definition circ_free (o : obs) : bool := match o with OCircEv _ _ _ => false | _ => true end.
Lemma NC_nil : NC []. Proof. reflexivity. Qed.
Lemma NC_app a b : NC a -> NC b -> NC (a ++ b).
Proof. unfold NC, any_circ_ev. intros A B. rewrite filter_app, A, B. reflexivity. Qed.
Lemma NC_cons x l : circ_free x = true -> NC l -> NC (x :: l).
Proof. unfold NC. intros A B. destruct x; cbn in *; try exact B; discriminate. Qed.
Lemma NC_runmap k t d l : NC (map (fun w => ORunEv w k t d) l).
Proof. induction l as [|x l IH]; [apply NC_nil | apply NC_cons; [reflexivity | exact IH]]. Qed.
Lemma NC_fb st k t d : NC (emit_fb st k t d).
Proof. unfold emit_fb. induction (seq 0 (s_nfb st)) as [|x l IH]; [apply NC_nil | apply NC_cons; [reflexivity | exact IH]]. Qed.
Lemma NC_timers l : NC (map OTimer l).
Proof. induction l as [|x l IH]; [apply NC_nil | apply NC_cons; [reflexivity | exact IH]]. Qed.
Lemma reading_circ_free st s : circ_free (reading st s) = true.
Proof. unfold reading. destruct (s_mode st); reflexivity. Qed.
Ltac nc := repeat first [ assumption | apply NC_nil | apply NC_runmap | apply NC_fb | apply NC_timers
                        | apply NC_cons; [first [reflexivity | apply reading_circ_free]|] | apply NC_app ].

Lemma NC_fallback st cs err ran derived s : NC (snd (fallback_stage st cs err ran derived s)).
Proof.
  unfold fallback_stage.
  destruct (negb (has_fb_eff (cs_call cs)) || l_fb_disabled (cfg s)); [cbn [snd]; nc|].
  destruct ((0 <=? l_fb_max (cfg s)) && (l_fb_max (cfg s) <? fbs s + 1)); cbn [snd]; nc.
Qed.

Lemma circ_evs_app w a b : circ_evs w (a ++ b) = circ_evs w a ++ circ_evs w b.
Proof. unfold circ_evs. apply flat_map_app. Qed.
Lemma circ_evs_NC w o : NC o -> circ_evs w o = [].
Proof.
  unfold NC, any_circ_ev, circ_evs. induction o as [|x o IH]; [reflexivity|].
  cbn [filter flat_map]. destruct x; try exact IH. discriminate.
Qed.
Lemma circ_evs_cons_free w x o : circ_free x = true -> circ_evs w (x :: o) = circ_evs w o.
Proof. intros H. destruct x; try reflexivity. discriminate. Qed.

Lemma circ_evs_cons_circ w w' k t o :
  circ_evs w (OCircEv w' k t :: o) = (if who_eqb w w' then [(k, t)] else []) ++ circ_evs w o.
Proof. reflexivity. Qed.

Lemma circ_users i k t : forall n a,
  circ_evs (WUser i) (map (fun w => OCircEv w k t) (map WUser (seq a n)))
  = if ((a <=? i) && (i <? a + n))%nat then [(k, t)] else [].
Proof.
  induction n as [|n IH]; intros a.
  - cbn [seq map]. destruct ((a <=? i) && (i <? a + 0))%nat eqn:E; [lia | reflexivity].
  - cbn [seq map]. rewrite circ_evs_cons_circ. cbn [who_eqb].
    rewrite IH. destruct (Nat.eqb i a) eqn:E1.
    + replace ((S a <=? i) && (i <? S a + n))%nat with false by lia.
      replace ((a <=? i) && (i <? a + S n))%nat with true by lia. reflexivity.
    + cbn [app]. replace ((S a <=? i) && (i <? S a + n))%nat with ((a <=? i) && (i <? a + S n))%nat by lia.
      reflexivity.
Qed.

Lemma circ_users_other w k t n : (forall i, w <> WUser i) ->
  circ_evs w (map (fun w => OCircEv w k t) (users n)) = [].
Proof.
  intros Hw. unfold users. induction (seq 0 n) as [|x l IH]; [reflexivity|].
  cbn [map]. rewrite circ_evs_cons_circ. rewrite IH.
  destruct w; cbn [who_eqb]; try reflexivity. exfalso. exact (Hw i eq_refl).
Qed.

Lemma circ_evs_emit st w k t timers : In w (circ_collectors st) ->
  circ_evs w (OCircEv WCloser k t :: map OTimer timers ++
              OCircEv WOpener k t :: map (fun w => OCircEv w k t) (users (s_ncirc st))) = [(k, t)].
Proof.
  intros Hin.
  change (circ_evs w (([OCircEv WCloser k t] ++ map OTimer timers) ++
            [OCircEv WOpener k t] ++ map (fun w => OCircEv w k t) (users (s_ncirc st))) = [(k, t)]).
  rewrite !circ_evs_app. rewrite (circ_evs_NC w (map OTimer timers)) by nc.
  unfold circ_collectors in Hin. cbn [In] in Hin. destruct Hin as [<- | [<- | Hin]].
  - rewrite circ_users_other by discriminate. reflexivity.
  - rewrite circ_users_other by discriminate. reflexivity.
  - unfold users in Hin. apply in_map_iff in Hin. destruct Hin as (i & <- & Hi). apply in_seq in Hi.
    unfold users. rewrite circ_users. replace ((0 <=? i) && (i <? 0 + s_ncirc st))%nat with true by lia.
    reflexivity.
Qed.

Lemma is_open_set_logic s o c : is_open (set_logic s o c) = is_open s.
Proof. reflexivity. Qed.
Lemma is_open_closed s : l_force_open (cfg s) = false -> l_forced_closed (cfg s) = false -> flag s = false ->
  is_open s = false.
Proof. unfold is_open. intros -> -> ->. reflexivity. Qed.

(* the failure / timeout transition of a closed, not overridden circuit *)
Lemma run_then_open_says st k t d ans s :
  not_overridden s -> flag s = false ->
  let r := (let (sa, oa) := emit_run st k t d s in
            if negb (is_open sa) then let (sb, ob) := attempt_to_open st t ans sa in (sb, oa ++ ob) else (sa, oa)) in
  flag (fst r) = snd (opener_should_open t ans (opener_run k t (opn s))) /\
  cfg (fst r) = cfg s /\
  forall w, In w (circ_collectors st) -> circ_evs w (snd r) = if flag (fst r) then [(Opened, t)] else [].
Proof.
  intros (Hfo & Hfc) Hfl. pose proof (is_open_closed s Hfo Hfc Hfl) as Ho.
  unfold emit_run. cbv zeta.
  rewrite is_open_set_logic, Ho. cbn [negb].
  unfold attempt_to_open. cbn [cfg flag set_logic opn cls]. rewrite Hfc.
  rewrite is_open_set_logic, Ho.
  destruct (opener_should_open t ans (opener_run k t (opn s))) as [o1 b]. cbn [snd].
  destruct b.
  - unfold open_circuit. cbn [cfg flag set_logic opn cls]. rewrite Hfc.
    rewrite !is_open_set_logic, Ho.
    unfold emit_circ. cbn [cfg flag set_logic opn cls].
    destruct (closer_circ t (closer_run k (cls s))) as [c1 timers]. cbn [fst snd flag cfg set_flag set_logic].
    split; [reflexivity|]. split; [reflexivity|]. intros w Hw.
    rewrite circ_evs_app. rewrite (circ_evs_NC w (map _ (run_collectors st))) by nc.
    rewrite circ_evs_cons_free by reflexivity. cbn [app]. apply circ_evs_emit; exact Hw.
  - cbn [fst snd flag cfg set_logic]. split; [auto|]. split; [reflexivity|]. intros w Hw. rewrite Hfl.
    apply circ_evs_NC. nc.
Qed.

Lemma opens_iff_opener_says (st : static) : forall s id e cs start expected derived,
  find_call id s = Some cs -> cs_phase cs = PRun start expected derived -> res_panics (e_res e) = false ->
  not_overridden s -> flag s = false -> is_error (end_kind s cs e) = true ->
  let s' := fst (step st s (EndRun id e)) in
  let o := snd (step st s (EndRun id e)) in
  flag s' = snd (opener_should_open (clock s) (e_should_open e) (opener_run (end_kind s cs e) (clock s) (opn s))) /\
  forall w, In w (circ_collectors st) -> circ_evs w o = if flag s' then [(Opened, clock s)] else [].
Proof.
  intros s id e cs start expected derived Hf Hp Hnp Hno Hfl Herr. cbv zeta.
  rewrite step_fst, step_snd. cbn [step_core]. unfold end_run. rewrite Hf, Hp.
  unfold end_kind in *. rewrite Hp in *. unfold classify in *.
  assert (Fin : forall k (s1 : state) (o1 : list obs) (r : state * list obs) (x : obs),
    flag s1 = snd (opener_should_open (clock s) (e_should_open e) (opener_run k (clock s) (opn s))) /\
    cfg s1 = cfg s /\
    (forall w, In w (circ_collectors st) -> circ_evs w o1 = if flag s1 then [(Opened, clock s)] else []) ->
    flag (fst r) = flag s1 -> (exists o3, snd r = x :: o1 ++ o3 /\ NC o3) -> circ_free x = true ->
    flag (fst r) = snd (opener_should_open (clock s) (e_should_open e) (opener_run k (clock s) (opn s))) /\
    forall w, In w (circ_collectors st) ->
      circ_evs w (snd r ++ [reading st (fst r)]) = if flag (fst r) then [(Opened, clock s)] else []).
  { intros k0 s1 o1 r x (Qa & _ & Qw) Hfr (o3 & Ho & Hn) Hx. split; [congruence|].
    intros w Hw. rewrite Ho, Hfr, <- (Qw w Hw).
    rewrite circ_evs_app, circ_evs_cons_free by exact Hx. rewrite circ_evs_app.
    rewrite (circ_evs_NC w o3) by exact Hn. rewrite (circ_evs_NC w [_]) by nc. rewrite !app_nil_r. reflexivity. }
  destruct (e_res e) as [|k|k|k|v] eqn:Er; cbn [res_panics res_is_bad res_is_nil negb andb] in *; try discriminate.
  - destruct (match expected with Some x => x <? clock s | None => false end) eqn:Et; [|discriminate].
    pose proof (run_then_open_says st KTimeout (clock s) (Some (clock s - start)) (e_should_open e) s Hno Hfl) as Q.
    cbv zeta in Q.
    match type of Q with (flag (fst ?A) = _ /\ _) => revert Q; generalize A; intros [s1 o1] Q; cbn [fst snd] in Q end.
    eapply (Fin KTimeout s1 o1 _ _ Q);
      [reflexivity | cbn [snd]; eexists; split; [reflexivity | nc] | reflexivity].
  - destruct (match expected with Some x => x <? clock s | None => false end) eqn:Et.
    + pose proof (run_then_open_says st KTimeout (clock s) (Some (clock s - start)) (e_should_open e) s Hno Hfl) as Q.
      cbv zeta in Q.
      match type of Q with (flag (fst ?A) = _ /\ _) => revert Q; generalize A; intros [s1 o1] Q; cbn [fst snd] in Q end.
      cbv zeta. rewrite let_pair.
      eapply (Fin KTimeout s1 o1 _ _ Q);
        [ cbn [fst]; match goal with |- context [fallback_stage ?a ?b ?c ?d ?e ?f] =>
            destruct (fallback_keeps a b c d e f) as [_ FB]; rewrite FB end; reflexivity
        | cbn [snd]; eexists; split; [reflexivity | apply NC_fallback]
        | reflexivity ].
    + destruct (cs_done cs && negb (l_ignore_int (cfg s)) && ie_says (l_ie (cfg s))) eqn:Ei; [discriminate|].
      pose proof (run_then_open_says st KFailure (clock s) (Some (clock s - start)) (e_should_open e) s Hno Hfl) as Q.
      cbv zeta in Q.
      match type of Q with (flag (fst ?A) = _ /\ _) => revert Q; generalize A; intros [s1 o1] Q; cbn [fst snd] in Q end.
      cbv zeta. rewrite let_pair.
      eapply (Fin KFailure s1 o1 _ _ Q);
        [ cbn [fst]; match goal with |- context [fallback_stage ?a ?b ?c ?d ?e ?f] =>
            destruct (fallback_keeps a b c d e f) as [_ FB]; rewrite FB end; reflexivity
        | cbn [snd]; eexists; split; [reflexivity | apply NC_fallback]
        | reflexivity ].
Qed.

Lemma close_circuit_flag_false st t force ans s : flag s = false -> close_circuit st t force ans s = (s, []).
Proof.
  intros H. unfold close_circuit, is_open. rewrite H.
  destruct (l_force_open (cfg s)), (l_forced_closed (cfg s)); reflexivity.
Qed.

Lemma other_completions_do_not_open (st : static) : forall s id e cs start expected derived,
  find_call id s = Some cs -> cs_phase cs = PRun start expected derived ->
  flag s = false -> (res_panics (e_res e) = true \/ is_error (end_kind s cs e) = false) ->
  flag (fst (step st s (EndRun id e))) = false /\ any_circ_ev (snd (step st s (EndRun id e))) = [].
Proof.
  intros s id e cs start expected derived Hf Hp Hfl Hk.
  rewrite step_fst, step_snd. cbn [step_core]. unfold end_run. rewrite Hf, Hp.
  unfold end_kind in *. rewrite Hp in *. unfold classify in *.
  assert (Fin : forall (r : state * list obs),
    flag (fst r) = false -> NC (snd r) ->
    flag (fst r) = false /\ any_circ_ev (snd r ++ [reading st (fst r)]) = []).
  { intros r A B. split; [exact A|]. change (NC (snd r ++ [reading st (fst r)])). nc. }
  assert (Run : forall k t d, flag (fst (emit_run st k t d s)) = false /\ NC (snd (emit_run st k t d s))).
  { intros. unfold emit_run. cbn [fst snd flag set_logic]. split; [exact Hfl | nc]. }
  destruct (e_res e) as [|k|k|k|v] eqn:Er; cbn [res_panics res_is_bad res_is_nil negb andb] in *.
  - destruct Hk as [Hk|Hk]; [discriminate|].
    destruct (match expected with Some x => x <? clock s | None => false end) eqn:Et; [discriminate|].
    apply Fin.
    + destruct (Run KSuccess (clock s) (Some (clock s - start))) as [A B].
      destruct (emit_run st KSuccess (clock s) (Some (clock s - start)) s) as [sa oa]. cbn [fst snd] in A, B.
      rewrite close_circuit_flag_false by exact A. destruct (is_open sa); cbn [fst flag drop_call set_calls set_cmds]; exact A.
    + destruct (Run KSuccess (clock s) (Some (clock s - start))) as [A B].
      destruct (emit_run st KSuccess (clock s) (Some (clock s - start)) s) as [sa oa]. cbn [fst snd] in A, B.
      rewrite close_circuit_flag_false by exact A. destruct (is_open sa); cbn [snd]; nc.
  - destruct Hk as [Hk|Hk]; [discriminate|].
    destruct (match expected with Some x => x <? clock s | None => false end) eqn:Et; [discriminate|].
    destruct (cs_done cs && negb (l_ignore_int (cfg s)) && ie_says (l_ie (cfg s))) eqn:Ei; [|discriminate].
    destruct (Run KInterrupt (clock s) (Some (clock s - start))) as [A B].
    destruct (emit_run st KInterrupt (clock s) (Some (clock s - start)) s) as [sa oa]. cbn [fst snd] in A, B.
    cbv zeta. rewrite let_pair. apply Fin.
    + cbn [fst]. match goal with |- context [fallback_stage ?a ?b ?c ?d ?e ?f] =>
        destruct (fallback_keeps a b c d e f) as [_ FB]; rewrite FB end. exact A.
    + cbn [snd]. nc. apply NC_fallback.
  - destruct (Run KBadRequest (clock s) (Some (clock s - start))) as [A B].
    destruct (emit_run st KBadRequest (clock s) (Some (clock s - start)) s) as [sa oa]. cbn [fst snd] in A, B.
    apply Fin; [exact A | cbn [snd]; nc].
  - destruct (Run KBadRequest (clock s) (Some (clock s - start))) as [A B].
    destruct (emit_run st KBadRequest (clock s) (Some (clock s - start)) s) as [sa oa]. cbn [fst snd] in A, B.
    apply Fin; [exact A | cbn [snd]; nc].
  - apply Fin; [exact Hfl | cbn [snd]; nc].
Qed.

(* ====================================================================== *)
(* consecutive errors                                                      *)
(* ====================================================================== *)
Lemma since_transition_snoc evs e :
  since_transition (evs ++ [e]) =
  match e with LRun k t => since_transition evs ++ [(k, t)] | LCirc _ _ => [] | LAsk _ => since_transition evs end.
Proof. unfold since_transition. rewrite fold_left_app. reflexivity. Qed.

Lemma opener_after_snoc o evs e : opener_after o (evs ++ [e]) = opener_feed (opener_after o evs) e.
Proof. rewrite opener_after_app. reflexivity. Qed.

Definition te_step (c : Z) (k : runkind) : Z := if is_error k then c + 1 else 0.
Definition te (l : list runkind) : Z := fold_left te_step l 0.

Lemma te_snoc l k : te (l ++ [k]) = te_step (te l) k.
Proof. unfold te. rewrite fold_left_app. reflexivity. Qed.

Lemma te_nonneg l : 0 <= te l.
Proof.
  induction l as [|k l IH] using rev_ind; [unfold te; cbn; lia|].
  rewrite te_snoc. unfold te_step. destruct (is_error k); lia.
Qed.

Lemma ewe_nil thr : ends_with_errors thr [] <-> thr <= 0.
Proof.
  unfold ends_with_errors. split.
  - intros (pre & suf & E & L & _). symmetry in E. apply app_eq_nil in E. destruct E as [_ ->]. cbn in L. lia.
  - intros H. exists [], []. cbn. repeat split; auto.
Qed.

Lemma ewe_snoc thr l k :
  ends_with_errors thr (l ++ [k]) <-> thr <= 0 \/ (is_error k = true /\ ends_with_errors (thr - 1) l).
Proof.
  unfold ends_with_errors. split.
  - intros (pre & suf & E & L & F).
    destruct suf as [|x suf'] using rev_ind; [left; cbn in L; lia|]. clear IHsuf'.
    rewrite app_assoc in E. apply app_inj_tail in E. destruct E as [E1 E2]. subst x.
    rewrite forallb_app in F. apply andb_true_iff in F. destruct F as [F1 F2]. cbn in F2.
    rewrite app_length in L. cbn [length] in L.
    right. split; [destruct (is_error k); [reflexivity|discriminate]|].
    exists pre, suf'. repeat split; [exact E1 | lia | exact F1].
  - intros [H | (Hk & pre & suf & E & L & F)].
    + exists (l ++ [k]), []. rewrite app_nil_r. cbn. repeat split; auto.
    + exists pre, (suf ++ [k]). repeat split.
      * rewrite E, app_assoc. reflexivity.
      * rewrite app_length. cbn [length]. lia.
      * rewrite forallb_app, F. cbn. rewrite Hk. reflexivity.
Qed.

Lemma te_spec l : forall thr, thr <= te l <-> ends_with_errors thr l.
Proof.
  induction l as [|k l IH] using rev_ind; intros thr.
  - rewrite ewe_nil. unfold te. cbn. reflexivity.
  - rewrite te_snoc, ewe_snoc. unfold te_step. pose proof (te_nonneg l) as Hn.
    destruct (is_error k).
    + rewrite <- (IH (thr - 1)). split; [intros H; right; split; [reflexivity | lia] | intros [H | [_ H]]; lia].
    + split; [intros H; left; exact H | intros [H | [H _]]; [exact H | discriminate]].
Qed.

Lemma counting_kinds_snoc evs e :
  counting_kinds (evs ++ [e]) =
  match e with
  | LRun k _ => counting_kinds evs ++ (if legit k then [k] else [])
  | LCirc _ _ => []
  | LAsk _ => counting_kinds evs
  end.
Proof.
  unfold counting_kinds. rewrite since_transition_snoc. destruct e as [k t|k t|t]; try reflexivity.
  rewrite map_app, filter_app. cbn [map filter fst]. destruct (legit k); reflexivity.
Qed.

Lemma consec_state thr evs : opener_after (OpConsec 0 thr) evs = OpConsec (te (counting_kinds evs)) thr.
Proof.
  induction evs as [|e evs IH] using rev_ind; [reflexivity|].
  rewrite opener_after_snoc, IH, counting_kinds_snoc.
  destruct e as [k t|k t|t]; cbn [opener_feed opener_circ opener_should_open fst].
  - destruct k; cbn [opener_run legit]; rewrite ?app_nil_r, ?te_snoc; unfold te_step; cbn [is_error]; reflexivity.
  - reflexivity.
  - reflexivity.
Qed.

Lemma consecutive_iff : forall thr evs now ans,
  snd (opener_should_open now ans (opener_after (OpConsec 0 thr) evs)) = true
  <-> ends_with_errors thr (counting_kinds evs).
Proof.
  intros thr evs now ans. rewrite consec_state. cbn [opener_should_open snd].
  rewrite <- te_spec. lia.
Qed.

(* ====================================================================== *)
(* time flows forward                                                      *)
(* ====================================================================== *)
Lemma nd_cons_iff l : forall x, nondecreasing (x :: l) <-> Forall (fun y => x <= y) l /\ nondecreasing l.
Proof.
  induction l as [|y l IH]; intros x.
  - cbn. split; intros _; repeat split; constructor.
  - change (nondecreasing (x :: y :: l)) with (x <= y /\ nondecreasing (y :: l)).
    split.
    + intros (Hxy & Hnd). split; [|exact Hnd]. constructor; [exact Hxy|].
      apply IH in Hnd. destruct Hnd as [Hall _]. eapply Forall_impl; [|exact Hall]. cbn beta. intros; lia.
    + intros (Hall & Hnd). split; [|exact Hnd]. inversion Hall; assumption.
Qed.

Lemma nd_app_iff a : forall b,
  nondecreasing (a ++ b) <-> nondecreasing a /\ nondecreasing b /\ Forall (fun x => Forall (fun y => x <= y) b) a.
Proof.
  induction a as [|x a IH]; intros b.
  - cbn [app]. split; [intros H; repeat split; [exact H | constructor] | intros (_ & H & _); exact H].
  - change ((x :: a) ++ b) with (x :: (a ++ b)). rewrite !nd_cons_iff, IH, Forall_app. split.
    + intros ((H1 & H2) & H3 & H4 & H5). repeat split; auto.
    + intros ((H1 & H3) & H4 & H5). inversion H5; subst. repeat split; auto.
Qed.

Lemma forward_facts start evs now : forward start evs now ->
  (forall t, In t (map lev_time evs) -> start <= t <= now) /\ 0 <= now - start <= max_i64.
Proof.
  intros (Hnd & Hmax). apply nd_cons_iff in Hnd. destruct Hnd as (Hge & Hnd).
  apply nd_app_iff in Hnd. destruct Hnd as (_ & _ & Hle).
  apply Forall_app in Hge. destruct Hge as (Hge & Hnow).
  rewrite Forall_forall in Hge, Hle. split.
  - intros t Ht. split; [apply Hge; exact Ht|]. specialize (Hle t Ht). inversion Hle; assumption.
  - inversion Hnow; subst. lia.
Qed.

(* ====================================================================== *)
(* hystrix                                                                 *)
(* ====================================================================== *)
Lemma cntp_map {A B} (f : A -> B) (p : B -> bool) l : cntp p (map f l) = cntp (fun x => p (f x)) l.
Proof. induction l as [|x l IH]; [reflexivity|]. cbn [map]. rewrite !cntp_cons, IH. reflexivity. Qed.

Definition stamps (p : runkind -> bool) (evs : list lev) : list Z :=
  map snd (filter (fun kt => p (fst kt)) (since_transition evs)).

Lemma stamps_snoc p evs e :
  stamps p (evs ++ [e]) =
  match e with
  | LRun k t => stamps p evs ++ (if p k then [t] else [])
  | LCirc _ _ => []
  | LAsk _ => stamps p evs
  end.
Proof.
  unfold stamps. rewrite since_transition_snoc. destruct e as [k t|k t|t]; try reflexivity.
  rewrite filter_app, map_app. cbn [filter fst]. destruct (p k); reflexivity.
Qed.

Lemma since_transition_times evs : forall kt, In kt (since_transition evs) -> In (snd kt) (map lev_time evs).
Proof.
  induction evs as [|e evs IH] using rev_ind; intros kt Hin; [destruct Hin|].
  rewrite since_transition_snoc in Hin. rewrite map_app, in_app_iff.
  destruct e as [k t|k t|t].
  - apply in_app_iff in Hin. destruct Hin as [Hin | [<- | []]]; [left; apply IH; exact Hin | right; left; reflexivity].
  - destruct Hin.
  - left. apply IH; exact Hin.
Qed.

(* every timestamp in a counter history is a stamp of the opener's history *)
Definition times_in (evs : list lev) (h : list op) : Prop :=
  Forall (fun o => forall t, op_time o = Some t -> In t (map lev_time evs)) h.

Lemma times_in_snoc evs e h o :
  times_in evs h -> (forall t, op_time o = Some t -> t = lev_time e) -> times_in (evs ++ [e]) (h ++ [o]).
Proof.
  unfold times_in. intros H Ho. apply Forall_app. split.
  - eapply Forall_impl; [|exact H]. cbn beta. intros x Hx t Ht. rewrite map_app, in_app_iff. left. apply Hx; exact Ht.
  - constructor; [|constructor]. intros t Ht. rewrite map_app, in_app_iff. right. left. symmetry. apply Ho; exact Ht.
Qed.
Lemma times_in_weaken evs e h : times_in evs h -> times_in (evs ++ [e]) h.
Proof.
  unfold times_in. intros H. eapply Forall_impl; [|exact H]. cbn beta.
  intros x Hx t Ht. rewrite map_app, in_app_iff. left. apply Hx; exact Ht.
Qed.

Section Hystrix.
Variables (n w start pct vol : Z).
Hypothesis Hn : 0 < n.
Hypothesis Hw : 0 < w.

Definition mkh (e a : rc) : hopener :=
  {| ho_n := n; ho_w := w; ho_start := start; ho_pct := pct; ho_vol := vol; ho_err := e; ho_att := a |}.

Notation rc_after := (RollingCounter.state_after n w start).

Lemma rc_after_inc h t : rc_after (h ++ [Inc t]) = inc n w start t (rc_after h).
Proof. rewrite RollingCounter_Proofs.state_snoc. reflexivity. Qed.
Lemma rc_after_reset h t : rc_after (h ++ [Reset t]) = reset n w start t (rc_after h).
Proof. rewrite RollingCounter_Proofs.state_snoc. reflexivity. Qed.
Lemma rc_after_sum h t : rc_after (h ++ [SumAt t]) = fst (rolling_sum_at n w start t (rc_after h)).
Proof.
  rewrite RollingCounter_Proofs.state_snoc. cbn [RollingCounter.step].
  destruct (rolling_sum_at n w start t (rc_after h)); reflexivity.
Qed.

(* the opener's counters are rolling counters driven by histories that mirror the opener's *)
Definition HInv (evs : list lev) (ha he : list op) : Prop :=
  opener_after (OpHystrix (mkh (RollingCounter.init n) (RollingCounter.init n))) evs
    = OpHystrix (mkh (rc_after he) (rc_after ha)) /\
  incs_since_reset ha = stamps legit evs /\ incs_since_reset he = stamps is_error evs /\
  times_in evs ha /\ times_in evs he.

Lemma hinv_reachable evs : exists ha he, HInv evs ha he.
Proof.
  induction evs as [|e evs IH] using rev_ind.
  - exists [], []. repeat split; constructor.
  - destruct IH as (ha & he & Hst & Ia & Ie & Ta & Te).
    destruct e as [k t|k t|t].
    + (* a run event *)
      assert (Keep : legit k = false -> is_error k = false -> HInv (evs ++ [LRun k t]) ha he).
      { intros Hl He. unfold HInv. rewrite opener_after_snoc, Hst, !stamps_snoc, Hl, He, !app_nil_r.
        cbn [opener_feed]. rewrite neutral_kinds by exact Hl.
        repeat split; auto using times_in_weaken. }
      destruct k; try (exists ha, he; apply Keep; reflexivity).
      * exists (ha ++ [Inc t]), he. unfold HInv.
        rewrite opener_after_snoc, Hst, !stamps_snoc, RollingCounter_Proofs.incs_snoc, rc_after_inc. cbn [opener_feed opener_run legit is_error incs_step].
        rewrite app_nil_r, Ia. repeat split; auto using times_in_weaken.
        apply times_in_snoc; [exact Ta|]. cbn. intros t0 H; congruence.
      * exists (ha ++ [Inc t]), (he ++ [Inc t]). unfold HInv.
        rewrite opener_after_snoc, Hst, !stamps_snoc, !RollingCounter_Proofs.incs_snoc, !rc_after_inc. cbn [opener_feed opener_run legit is_error incs_step].
        rewrite Ia, Ie. repeat split; auto; (apply times_in_snoc; [assumption|]; cbn; intros t0 H; congruence).
      * exists (ha ++ [Inc t]), (he ++ [Inc t]). unfold HInv.
        rewrite opener_after_snoc, Hst, !stamps_snoc, !RollingCounter_Proofs.incs_snoc, !rc_after_inc. cbn [opener_feed opener_run legit is_error incs_step].
        rewrite Ia, Ie. repeat split; auto; (apply times_in_snoc; [assumption|]; cbn; intros t0 H; congruence).
    + (* a transition *)
      exists (ha ++ [Reset t]), (he ++ [Reset t]). unfold HInv.
      rewrite opener_after_snoc, Hst, !stamps_snoc, !RollingCounter_Proofs.incs_snoc, !rc_after_reset. cbn [opener_feed opener_circ incs_step].
      repeat split; auto; (apply times_in_snoc; [assumption|]; cbn; intros t0 H; congruence).
    + (* ShouldOpen was asked *)
      unfold HInv. rewrite opener_after_snoc, Hst, !stamps_snoc.
      cbn [opener_feed opener_should_open]. unfold ho_should_open. cbn [ho_n ho_w ho_start ho_att ho_err ho_vol ho_pct mkh].
      pose proof (rc_after_sum ha t) as Sa. pose proof (rc_after_sum he t) as Se.
      destruct (rolling_sum_at n w start t (rc_after ha)) as [att1 a]. cbn [fst] in Sa.
      destruct ((a =? 0) || (a <? vol)).
      * exists (ha ++ [SumAt t]), he. cbn [fst]. rewrite RollingCounter_Proofs.incs_snoc, Sa. cbn [incs_step].
        repeat split; auto using times_in_weaken.
        apply times_in_snoc; [assumption|]; cbn; intros t0 H; congruence.
      * destruct (rolling_sum_at n w start t (rc_after he)) as [err1 e]. cbn [fst] in Se.
        exists (ha ++ [SumAt t]), (he ++ [SumAt t]). cbn [fst]. rewrite !RollingCounter_Proofs.incs_snoc, Sa, Se. cbn [incs_step].
        repeat split; auto; (apply times_in_snoc; [assumption|]; cbn; intros t0 H; congruence).
Qed.
End Hystrix.

Section HystrixSum.
Variables (n w start : Z).
Hypothesis Hn : 0 < n.
Hypothesis Hw : 0 < w.

Lemma off_id now t : 0 <= now - start <= max_i64 -> start <= t <= now -> off start t = t - start.
Proof. intros H1 H2. unfold off. apply clamp64_id. unfold min_i64. lia. Qed.

Lemma idx_bucket now t : 0 <= now - start <= max_i64 -> start <= t <= now -> idx w start t = bucket w start t.
Proof. intros H1 H2. unfold idx, bucket. rewrite (off_id now t H1 H2). reflexivity. Qed.

Lemma valid_true now t : 0 <= now - start <= max_i64 -> start <= t <= now -> valid start t = true.
Proof. intros H1 H2. unfold valid. rewrite (off_id now t H1 H2). lia. Qed.

Lemma bucket_mono a b : a <= b -> bucket w start a <= bucket w start b.
Proof. intros H. unfold bucket. apply Z.div_le_mono; lia. Qed.

Lemma bucket_nonneg t : start <= t -> 0 <= bucket w start t.
Proof. intros H. unfold bucket. apply Z.div_pos; lia. Qed.

Lemma latest_le now hh : 0 <= now - start <= max_i64 ->
  Forall (fun o => forall t, op_time o = Some t -> start <= t <= now) hh ->
  0 <= latest w start hh <= bucket w start now.
Proof.
  intros Hspan. induction hh as [|o hh IH] using rev_ind; intros Hall.
  - unfold latest. cbn [fold_left]. pose proof (bucket_nonneg now ltac:(lia)). lia.
  - apply Forall_app in Hall. destruct Hall as (Hall & Ho). specialize (IH Hall).
    rewrite RollingCounter_Proofs.latest_snoc. unfold present.
    destruct (op_time o) as [t|] eqn:Et; [|exact IH].
    inversion Ho as [|? ? Ho1 _]; subst. specialize (Ho1 t Et).
    rewrite (valid_true now t Hspan Ho1), (idx_bucket now t Hspan Ho1).
    pose proof (bucket_mono t now ltac:(lia)). lia.
Qed.

(* the sum the counter reports at `now` counts exactly the stamps inside the window ending at `now` *)
Lemma sum_at_spec p evs now hh :
  forward start evs now -> incs_since_reset hh = stamps p evs -> times_in evs hh ->
  snd (rolling_sum_at n w start now (RollingCounter.state_after n w start hh))
  = cntp (fun kt => p (fst kt) && in_win n w start now (snd kt)) (since_transition evs).
Proof.
  intros Hf Hi Ht. destruct (forward_facts _ _ _ Hf) as (Hin & Hspan).
  pose proof (RollingCounter_Proofs.rolling_sum_spec n w start Hn Hw hh now) as S.
  cbn [RollingCounter.step] in S.
  destruct (rolling_sum_at n w start now (RollingCounter.state_after n w start hh)) as [s1 v].
  cbn [snd] in *. injection S as ->.
  rewrite RollingCounter_Proofs.live_length, RollingCounter_Proofs.incs_snoc, RollingCounter_Proofs.latest_snoc.
  cbn [incs_step]. unfold present. cbn [op_time].
  assert (Hnow : start <= now <= now) by lia.
  rewrite (valid_true now now Hspan Hnow), (idx_bucket now now Hspan Hnow).
  assert (Hall : Forall (fun o => forall t, op_time o = Some t -> start <= t <= now) hh).
  { eapply Forall_impl; [|exact Ht]. cbn beta. intros o Ho t Hot. apply Hin. apply Ho; exact Hot. }
  pose proof (latest_le now hh Hspan Hall) as Hl.
  replace (Z.max (latest w start hh) (bucket w start now)) with (bucket w start now) by lia.
  rewrite Hi. unfold stamps. rewrite cntp_map, cntp_filter. apply cntp_ext.
  intros kt Hkt. f_equal.
  pose proof (Hin _ (since_transition_times evs kt Hkt)) as Hb.
  unfold in_window, in_win. rewrite (valid_true now _ Hspan Hb), (idx_bucket now _ Hspan Hb). reflexivity.
Qed.
End HystrixSum.

Lemma hystrix_iff : forall n dur start pct vol evs now ans,
  0 < n -> 0 < godiv dur n -> forward start evs now ->
  snd (opener_should_open now ans (opener_after (OpHystrix (ho_init n dur start pct vol)) evs))
  = hystrix_rule vol pct (attempts n (godiv dur n) start evs now) (errors n (godiv dur n) start evs now).
Proof.
  intros n dur start pct vol evs now ans Hn Hw Hf. set (w := godiv dur n) in *.
  destruct (hinv_reachable n w start pct vol evs) as (ha & he & Hst & Ia & Ie & Ta & Te).
  change (ho_init n dur start pct vol) with (mkh n w start pct vol (RollingCounter.init n) (RollingCounter.init n)).
  rewrite Hst. cbn [opener_should_open]. unfold ho_should_open.
  cbn [ho_n ho_w ho_start ho_att ho_err ho_vol ho_pct mkh].
  pose proof (sum_at_spec n w start Hn Hw legit evs now ha Hf Ia Ta) as Sa.
  pose proof (sum_at_spec n w start Hn Hw is_error evs now he Hf Ie Te) as Se.
  fold (attempts n w start evs now) in Sa. fold (errors n w start evs now) in Se.
  destruct (rolling_sum_at n w start now (RollingCounter.state_after n w start ha)) as [att1 a].
  cbn [snd] in Sa. rewrite <- Sa.
  unfold hystrix_rule.
  destruct ((a =? 0) || (a <? vol)) eqn:E; [cbn [snd]; lia|].
  destruct (rolling_sum_at n w start now (RollingCounter.state_after n w start he)) as [err1 e].
  cbn [snd] in Se |- *. rewrite <- Se. lia.
Qed.

(* ====================================================================== *)
(* composition on the circuit                                              *)
(* ====================================================================== *)
Lemma nd_const c l : Forall (fun x => x = c) l -> nondecreasing (c :: l).
Proof.
  induction l as [|x l IH]; intros H; [cbn; auto|].
  inversion H; subst. apply nd_cons_iff. split.
  - constructor; [lia|]. eapply Forall_impl; [|eassumption]. cbn beta. intros; lia.
  - apply IH; assumption.
Qed.

(* what the opener is shown along a history with forward ticks carries non-decreasing stamps
   between the clock's first and last value *)
Lemma trace_times st : forall h s, ticks_forward h ->
  nondecreasing (clock s :: map lev_time (opener_view (all_obs (trace_from st s h))) ++ [clock (state_after st s h)]).
Proof.
  induction h as [|ev h IH]; intros s Ht.
  - cbn. repeat split; lia.
  - inversion Ht as [|? ? Hev Ht']; subst. specialize (IH (fst (step st s ev)) Ht').
    rewrite all_obs_trace_cons, opener_view_app, map_app, state_after_cons.
    destruct (step_fed st s ev) as (_ & Hok & Hc).
    set (s1 := fst (step st s ev)) in *.
    assert (Hle : clock s <= clock s1) by (rewrite Hc; destruct ev; lia).
    set (seg := map lev_time (opener_view (snd (step st s ev)))).
    assert (Hseg : Forall (fun x => x = clock s) seg).
    { unfold seg. apply Forall_forall. intros x Hx. apply in_map_iff in Hx. destruct Hx as (e & <- & He).
      unfold lev_ok in Hok. rewrite Forall_forall in Hok. apply Hok; exact He. }
    rewrite <- app_assoc.
    change (nondecreasing ((clock s :: seg) ++ (map lev_time (opener_view (all_obs (trace_from st s1 h))) ++ [clock (state_after st s1 h)]))).
    apply nd_cons_iff in IH. destruct IH as (Hall & Hnd).
    apply nd_app_iff. split; [apply nd_const; exact Hseg|]. split; [exact Hnd|].
    assert (Hall' : Forall (fun y => clock s <= y) (map lev_time (opener_view (all_obs (trace_from st s1 h))) ++ [clock (state_after st s1 h)])).
    { eapply Forall_impl; [|exact Hall]. cbn beta. intros; lia. }
    constructor; [exact Hall'|].
    eapply Forall_impl; [|exact Hseg]. cbn beta. intros x ->. exact Hall'.
Qed.

Lemma hystrix_circuit (st : static) : forall l n dur pct vol cl t0 h id e cs start expected derived,
  let s0 := init_state l (OpHystrix (ho_init n dur t0 pct vol)) cl t0 in
  let s := state_after st s0 h in
  0 < n -> 0 < godiv dur n -> ticks_forward h -> clock s - t0 <= max_i64 ->
  find_call id s = Some cs -> cs_phase cs = PRun start expected derived -> res_panics (e_res e) = false ->
  not_overridden s -> flag s = false -> is_error (end_kind s cs e) = true ->
  let evs := opener_view (all_obs (trace_from st s0 h)) ++ [LRun (end_kind s cs e) (clock s)] in
  flag (fst (step st s (EndRun id e)))
  = hystrix_rule vol pct (attempts n (godiv dur n) t0 evs (clock s)) (errors n (godiv dur n) t0 evs (clock s)).
Proof.
  intros l n dur pct vol cl t0 h id e cs start expected derived s0 s Hn Hw Ht Hspan Hf Hp Hnp Hno Hfl Herr evs.
  destruct (opens_iff_opener_says st s id e cs start expected derived Hf Hp Hnp Hno Hfl Herr) as (Hflag & _).
  rewrite Hflag.
  assert (Hopn : opener_run (end_kind s cs e) (clock s) (opn s)
                 = opener_after (OpHystrix (ho_init n dur t0 pct vol)) evs).
  { unfold evs. rewrite opener_after_snoc. cbn [opener_feed]. f_equal.
    unfold s. rewrite opener_fed_by_observations. reflexivity. }
  rewrite Hopn. apply hystrix_iff; [exact Hn | exact Hw |].
  split; [|exact Hspan].
  pose proof (trace_times st h s0 Ht) as Hnd. fold s in Hnd. change (clock s0) with t0 in Hnd.
  unfold evs. rewrite map_app. cbn [map lev_time].
  set (times := map lev_time (opener_view (all_obs (trace_from st s0 h)))) in *.
  change (nondecreasing (((t0 :: times) ++ [clock s]) ++ [clock s])).
  change (nondecreasing ((t0 :: times) ++ [clock s])) in Hnd.
  apply nd_app_iff. split; [exact Hnd|]. split; [cbn; auto|].
  apply nd_app_iff in Hnd. destruct Hnd as (_ & _ & Hall).
  apply Forall_app. split; [exact Hall|]. constructor; [|constructor]. constructor; [lia | constructor].
Qed.
