(* Seq/CaseCheck.v — evaluation side of the correspondence check: the harness
   writes the histories it ran on the implementation together with the observed
   outputs; these functions run the model on the same histories (vm_compute)
   and return the cases on which model and implementation differ, with the
   model's outputs. *)
From CV Require Import Base.Prelude Seq.RollingCounter Seq.TimedCheck Seq.RollingPercentile.

Fixpoint list_eqb {A} (eqb : A -> A -> bool) (a b : list A) : bool :=
  match a, b with
  | [], [] => true
  | x :: a', y :: b' => eqb x y && list_eqb eqb a' b'
  | _, _ => false
  end.

Definition out_eqb (a b : out) : bool :=
  match a, b with
  | ONone, ONone => true
  | OZ x, OZ y => x =? y
  | OList x, OList y => list_eqb Z.eqb x y
  | _, _ => false          (* OPanic never matches: the model has no panics *)
  end.

Definition rc_case : Type := nat * Z * Z * Z * list op * list out.
Definition rc_mismatches (cs : list rc_case) : list (nat * list out) :=
  flat_map (fun c : rc_case =>
    let '(id, n, w, start, ops, outs) := c in
    let m := run n w start ops in
    if list_eqb out_eqb m outs then [] else [(id, m)]) cs.

(* ---------- TimedCheck ---------- *)
Definition optz_eqb (a b : option Z) : bool :=
  match a, b with None, None => true | Some x, Some y => x =? y | _, _ => false end.
Definition tcout_eqb (a b : tcout) : bool :=
  match a, b with
  | TOBool x p, TOBool y q => Bool.eqb x y && optz_eqb p q
  | TOArmed x, TOArmed y => x =? y
  | TONone, TONone => true
  | _, _ => false
  end.
Definition tc_case : Type := nat * Z * Z * list tcop * list tcout.
Definition tc_mismatches (cs : list tc_case) : list (nat * list tcout) :=
  flat_map (fun c : tc_case =>
    let '(id, sleep, budget, ops, outs) := c in
    let m := tc_run sleep budget ops in
    if list_eqb tcout_eqb m outs then [] else [(id, m)]) cs.

(* ---------- RollingPercentile ---------- *)
Definition rpout_eqb (a b : rpout) : bool :=
  match a, b with
  | PNone, PNone => true
  | PList x, PList y => list_eqb Z.eqb x y
  | _, _ => false
  end.
Definition rp_case : Type := nat * Z * Z * Z * Z * list rpop * list rpout.
Definition rp_mismatches (cs : list rp_case) : list (nat * list rpout) :=
  flat_map (fun c : rp_case =>
    let '(id, n, w, start, cap, ops, outs) := c in
    let m := rp_run n w start cap ops in
    if list_eqb rpout_eqb m outs then [] else [(id, m)]) cs.
