(* Seq/C10_Proofs.v — proofs behind Properties/C10.v: panics pass through to the
   caller and leave the circuit usable (and the D11 counterexample). *)
From Coq Require Import ZifyBool.
From CV Require Import Base.Prelude Seq.RollingCounter Seq.TimedCheck Seq.Logic Seq.Circuit Seq.CircuitSpec.

(* same bodies as Properties/C10.panic_end / same_but_closer, so the statements are convertible *)
Definition panic_end_b (v : nat) : endinfo := {| e_res := RPanic v; e_should_open := false; e_should_close := false |}.
Definition same_but_closer_b (a b : state) : Prop :=
  cfg a = cfg b /\ flag a = flag b /\ cmds a = cmds b /\ fbs a = fbs b /\ opn a = opn b /\
  calls a = calls b /\ clock a = clock b.

(* ---------- the reading appended by `step` is invisible to every projection ---------- *)
Lemma returns_app id a b : returns id (a ++ b) = returns id a ++ returns id b.
Proof. apply flat_map_app. Qed.
Lemma returns_reading id st s : returns id [reading st s] = [].
Proof. unfold reading. destruct (s_mode st); reflexivity. Qed.
Lemma fb_invocations_reading id st s : fb_invocations id [reading st s] = [].
Proof. unfold reading. destruct (s_mode st); reflexivity. Qed.
Lemma any_run_ev_reading st s : any_run_ev [reading st s] = [].
Proof. unfold reading. destruct (s_mode st); reflexivity. Qed.
Lemma any_fb_ev_reading st s : any_fb_ev [reading st s] = [].
Proof. unfold reading. destruct (s_mode st); reflexivity. Qed.
Lemma any_circ_ev_reading st s : any_circ_ev [reading st s] = [].
Proof. unfold reading. destruct (s_mode st); reflexivity. Qed.

(* ---------- the call table ---------- *)
Lemma find_call_put_same id c s : cs_id c = id -> find_call id (put_call c s) = Some c.
Proof. intros E. unfold find_call, put_call. cbn. rewrite E, Nat.eqb_refl. reflexivity. Qed.

Lemma find_filter_same id (l : list callst) :
  find (fun c => Nat.eqb (cs_id c) id) (filter (fun c => negb (Nat.eqb (cs_id c) id)) l) = None.
Proof.
  induction l as [|x l IH]; [reflexivity|]. cbn.
  destruct (Nat.eqb (cs_id x) id) eqn:E; cbn; [exact IH|]. rewrite E. exact IH.
Qed.

Lemma find_call_drop_same id s : find_call id (drop_call id s) = None.
Proof. unfold find_call, drop_call. cbn. apply find_filter_same. Qed.

(* filtering out an id that is not there changes nothing *)
Lemma filter_absent id (l : list callst) :
  find (fun c => Nat.eqb (cs_id c) id) l = None ->
  filter (fun c => negb (Nat.eqb (cs_id c) id)) l = l.
Proof.
  induction l as [|x l IH]; [reflexivity|]. cbn.
  destruct (Nat.eqb (cs_id x) id) eqn:E; cbn; [discriminate|].
  intros H. rewrite (IH H). reflexivity.
Qed.

Lemma state_ext (a b : state) :
  cfg a = cfg b -> flag a = flag b -> cmds a = cmds b -> fbs a = fbs b -> opn a = opn b ->
  cls a = cls b -> calls a = calls b -> clock a = clock b -> a = b.
Proof. destruct a, b. cbn. intros; subst; reflexivity. Qed.

(* ---------- the panic value reaches the caller ---------- *)
Lemma value_run (st : static) : forall s id e cs v,
  find_call id s = Some cs -> (exists a b c, cs_phase cs = PRun a b c) \/ cs_phase cs = PPass ->
  e_res e = RPanic v ->
  exists a, returns id (snd (step st s (EndRun id e))) = [(VPanic v, a)].
Proof.
  intros s id e cs v Hf Hp He.
  unfold step. cbn [step_core]. unfold end_run. rewrite Hf.
  destruct Hp as [(a & b & c & Hp) | Hp]; rewrite Hp; [rewrite He|]; cbn [fst snd];
    rewrite returns_app, returns_reading, app_nil_r; cbn; rewrite Nat.eqb_refl; [|rewrite He];
    eexists; reflexivity.
Qed.

Lemma value_fallback (st : static) : forall s id cs v a b c,
  find_call id s = Some cs -> cs_phase cs = PFb a b c ->
  exists x, returns id (snd (step st s (EndFb id (FPanic v)))) = [(VPanic v, x)].
Proof.
  intros s id cs v a b c Hf Hp.
  unfold step. cbn [step_core]. unfold end_fb. rewrite Hf, Hp. cbn [fst snd].
  rewrite returns_app, returns_reading, app_nil_r. cbn. rewrite Nat.eqb_refl.
  eexists; reflexivity.
Qed.

(* ---------- what a panic does to the circuit ---------- *)
Lemma run_panic_effect (st : static) : forall s id e cs start expected derived v,
  find_call id s = Some cs -> cs_phase cs = PRun start expected derived -> e_res e = RPanic v ->
  let s' := fst (step st s (EndRun id e)) in
  let o := snd (step st s (EndRun id e)) in
  cmds s' = cmds s - 1 /\ fbs s' = fbs s /\ flag s' = flag s /\ cfg s' = cfg s /\
  opn s' = opn s /\ cls s' = cls s /\ clock s' = clock s /\
  any_run_ev o = [] /\ any_fb_ev o = [] /\ any_circ_ev o = [] /\ fb_invocations id o = [] /\
  find_call id s' = None.
Proof.
  intros s id e cs start expected derived v Hf Hp He.
  unfold step. cbn [step_core]. unfold end_run. rewrite Hf, Hp, He. cbn [fst snd].
  repeat (split; [reflexivity|]).
  split; [unfold any_run_ev; rewrite filter_app; apply any_run_ev_reading|].
  split; [unfold any_fb_ev; rewrite filter_app; apply any_fb_ev_reading|].
  split; [unfold any_circ_ev; rewrite filter_app; apply any_circ_ev_reading|].
  split; [unfold fb_invocations; rewrite flat_map_app; apply fb_invocations_reading|].
  apply find_call_drop_same.
Qed.

Lemma fallback_panic_effect (st : static) : forall s id cs a b c v,
  find_call id s = Some cs -> cs_phase cs = PFb a b c ->
  let s' := fst (step st s (EndFb id (FPanic v))) in
  let o := snd (step st s (EndFb id (FPanic v))) in
  fbs s' = fbs s - 1 /\ cmds s' = cmds s /\ flag s' = flag s /\ cfg s' = cfg s /\
  opn s' = opn s /\ cls s' = cls s /\ clock s' = clock s /\
  any_run_ev o = [] /\ any_fb_ev o = [] /\ any_circ_ev o = [] /\ find_call id s' = None.
Proof.
  intros s id cs a b c v Hf Hp.
  unfold step. cbn [step_core]. unfold end_fb. rewrite Hf, Hp. cbn [fst snd].
  repeat (split; [reflexivity|]).
  split; [unfold any_run_ev; rewrite filter_app; apply any_run_ev_reading|].
  split; [unfold any_fb_ev; rewrite filter_app; apply any_fb_ev_reading|].
  split; [unfold any_circ_ev; rewrite filter_app; apply any_circ_ev_reading|].
  apply find_call_drop_same.
Qed.

(* ---------- as if the panicking call had not happened ---------- *)
(* what Begin does to the state when the gate lets the call run *)
Lemma begin_admitted st s id c :
  enabled st s -> c_has_run c = true -> gate s c = GRun ->
  exists s1 o expected derived,
    begin_call st id c s =
      (put_call {| cs_id := id; cs_call := c; cs_phase := PRun (clock s) expected derived; cs_done := c_done c |}
                (set_cmds s1 (cmds s1 + 1)), o) /\
    cfg s1 = cfg s /\ flag s1 = flag s /\ cmds s1 = cmds s /\ fbs s1 = fbs s /\ opn s1 = opn s /\
    calls s1 = calls s /\ clock s1 = clock s /\
    cls s1 = fst (fst (if is_open s then closer_allow (clock s) (c_allow c) (cls s) else (cls s, true, []))).
Proof.
  intros [Hm Hd] Hr Hg. unfold begin_call. rewrite Hm, Hd, Hr. cbn [negb].
  unfold gate in Hg.
  destruct (shed_by_open s c) eqn:Eshed; [discriminate|].
  destruct (opener_prevent (c_prevent c) (opn s)) eqn:Ep; [discriminate|].
  destruct (run_limit_hit s) eqn:El; [discriminate|]. clear Hg.
  unfold run_limit_hit in El. unfold shed_by_open in Eshed.
  destruct (is_open s) eqn:Eo; cbn [negb andb] in *.
  - destruct (l_force_open (cfg s)) eqn:Ef; [discriminate|]. cbn [orb] in Eshed.
    unfold closer_admits in Eshed.
    destruct (closer_allow (clock s) (c_allow c) (cls s)) as [[cl1 b] timers].
    cbn [fst snd] in *. destruct b; [|discriminate]. cbn [negb].
    cbn [opn cfg cmds set_logic]. rewrite Ep, El.
    eexists (set_logic s (opn s) cl1), _, _, _. split; [reflexivity|].
    cbn. repeat split.
  - rewrite Ep, El.
    eexists s, _, _, _. split; [reflexivity|]. repeat split.
Qed.

Lemma as_if_absent_partial (st : static) : forall s id c v,
  enabled st s -> find_call id s = None -> c_has_run c = true -> gate s c = GRun ->
  let s1 := fst (step st s (Begin id c)) in
  let s2 := fst (step st s1 (EndRun id (panic_end_b v))) in
  same_but_closer_b s2 s /\
  cls s2 = fst (fst (if is_open s then closer_allow (clock s) (c_allow c) (cls s) else (cls s, true, []))) /\
  (is_open s = false -> s2 = s).
Proof.
  intros s id c v He Hf Hr Hg.
  destruct (begin_admitted st s id c He Hr Hg)
    as (s1' & o & expected & derived & E & Hcfg & Hflag & Hcmds & Hfbs & Hopn & Hcalls & Hclock & Hcls).
  intros s1 s2.
  set (cs1 := {| cs_id := id; cs_call := c; cs_phase := PRun (clock s) expected derived; cs_done := c_done c |}) in E.
  assert (E1 : s1 = put_call cs1 (set_cmds s1' (cmds s1' + 1))).
  { unfold s1, step. cbn [step_core]. rewrite E. reflexivity. }
  clearbody s1.
  assert (E2 : s2 = drop_call id (set_cmds s1 (cmds s1 - 1))).
  { unfold s2, step. cbn [step_core]. unfold end_run. rewrite E1.
    rewrite find_call_put_same by reflexivity. reflexivity. }
  clearbody s2.
  assert (Hc2 : calls s2 = calls s).
  { rewrite E2, E1. cbn. rewrite Nat.eqb_refl. cbn [negb]. rewrite Hcalls.
    unfold find_call in Hf. rewrite !(filter_absent id (calls s) Hf). reflexivity. }
  assert (Hm2 : cmds s2 = cmds s) by (rewrite E2, E1; cbn; lia).
  assert (Hl2 : cls s2 = cls s1') by (rewrite E2, E1; reflexivity).
  assert (Hr2 : cfg s2 = cfg s /\ flag s2 = flag s /\ fbs s2 = fbs s /\ opn s2 = opn s /\ clock s2 = clock s).
  { rewrite E2, E1. cbn. repeat split; assumption. }
  destruct Hr2 as (A1 & A2 & A3 & A4 & A5).
  split; [|split].
  - unfold same_but_closer_b. repeat split; assumption.
  - rewrite Hl2. exact Hcls.
  - intros Ho. rewrite Ho in Hcls. cbn [fst] in Hcls.
    apply state_ext; try assumption. rewrite Hl2. exact Hcls.
Qed.

(* ---------- D11: a panicking half-open probe spends the probe slot ---------- *)
Lemma as_if_absent_refuted :
  exists (st : static) (s : state) (id : nat) (c : call) (v : nat),
    enabled st s /\ find_call id s = None /\ c_has_run c = true /\
    let s2 := fst (step st (fst (step st s (Begin id c))) (EndRun id (panic_end_b v))) in
    gate s c = GRun /\ gate s2 c = GShed.
Proof.
  exists {| s_mode := MNormal; s_nrun := 0; s_nfb := 0; s_ncirc := 0 |}.
  exists {| cfg := {| l_disabled := false; l_force_open := false; l_forced_closed := false;
                      l_timeout := 0; l_max := -1; l_ignore_int := false; l_ie := IENil;
                      l_fb_disabled := false; l_fb_max := -1 |};
            flag := true; cmds := 0; fbs := 0; opn := OpNever;
            cls := ClHystrix {| tc_sleep := 10; tc_budget := 1; tc_fastfail := false; tc_version := 0;
                                tc_next := 0; tc_count := 0; tc_timers := [] |} 0 1;
            calls := []; clock := 100 |}.
  exists 0%nat.
  exists {| c_has_run := true; c_has_fb := false; c_entry := EExecute; c_deadline := None;
            c_done := false; c_allow := true; c_prevent := false |}.
  exists 0%nat.
  split; [split; reflexivity|]. split; [reflexivity|]. split; [reflexivity|].
  cbv zeta. split; vm_compute; reflexivity.
Qed.
