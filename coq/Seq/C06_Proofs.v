(* Seq/C06_Proofs.v — proofs for Properties/C06.v (return-value contract) and
   shared helper lemmas about the level-1 circuit model (also used by
   Seq/C07_Proofs.v). *)
From Coq Require Import ZifyBool.
From CV Require Import Base.Prelude Seq.RollingCounter Seq.TimedCheck Seq.Logic Seq.Circuit Seq.CircuitSpec.

(* ================================================================== *)
(* 1. observation lists                                                *)
(* ================================================================== *)

(* observations that belong to no call *)
Definition qo (x : obs) : Prop :=
  match x with
  | ORunInvoked _ _ _ | ORunEnd _ _ | OFbInvoked _ _ _ | OReturned _ _ _ => False
  | _ => True
  end.
Definition quiet (o : list obs) : Prop := Forall qo o.

(* call-related observations all belong to call id, fallbacks get the caller's context *)
Definition okobs (id : nat) (x : obs) : Prop :=
  match x with
  | ORunInvoked i _ _ | ORunEnd i _ | OReturned i _ _ => i = id
  | OFbInvoked i _ b => i = id /\ b = true
  | _ => True
  end.
Definition shaped (id : nat) (o : list obs) : Prop := Forall (okobs id) o.

Lemma quiet_nil : quiet []. Proof. constructor. Qed.
Lemma quiet_app a b : quiet a -> quiet b -> quiet (a ++ b).
Proof. intros; apply Forall_app; split; assumption. Qed.
Lemma quiet_cons x o : qo x -> quiet o -> quiet (x :: o).
Proof. intros; constructor; assumption. Qed.
Lemma quiet_map {A} (f : A -> obs) l : (forall x, qo (f x)) -> quiet (map f l).
Proof. intros H; apply Forall_map, Forall_forall; intros; apply H. Qed.
Lemma quiet_shaped id o : quiet o -> shaped id o.
Proof. apply Forall_impl; intros [] H; simpl in *; tauto. Qed.
Lemma shaped_app id a b : shaped id a -> shaped id b -> shaped id (a ++ b).
Proof. intros; apply Forall_app; split; assumption. Qed.
Lemma shaped_cons id x o : okobs id x -> shaped id o -> shaped id (x :: o).
Proof. intros; constructor; assumption. Qed.
Lemma shaped_nil id : shaped id []. Proof. constructor. Qed.

Lemma quiet_reading st s : quiet [reading st s].
Proof. unfold reading; destruct (s_mode st); repeat constructor. Qed.

Lemma ri_app id a b : run_invocations id (a ++ b) = run_invocations id a ++ run_invocations id b.
Proof. apply flat_map_app. Qed.
Lemma fbi_app id a b : fb_invocations id (a ++ b) = fb_invocations id a ++ fb_invocations id b.
Proof. apply flat_map_app. Qed.
Lemma ret_app id a b : returns id (a ++ b) = returns id a ++ returns id b.
Proof. apply flat_map_app. Qed.

Lemma flat_map_nil_all {A B} (f : A -> list B) l : (forall x, In x l -> f x = []) -> flat_map f l = [].
Proof.
  induction l as [|x l IH]; intros H; [reflexivity|]. simpl. rewrite (H x) by (left; reflexivity).
  apply IH. intros y Hy; apply H; right; exact Hy.
Qed.

Lemma quiet_ri id o : quiet o -> run_invocations id o = [].
Proof.
  intros H. apply flat_map_nil_all. intros x Hx.
  pose proof (proj1 (Forall_forall _ _) H x Hx) as Q. destruct x; simpl in Q; tauto.
Qed.
Lemma quiet_fbi id o : quiet o -> fb_invocations id o = [].
Proof.
  intros H. apply flat_map_nil_all. intros x Hx.
  pose proof (proj1 (Forall_forall _ _) H x Hx) as Q. destruct x; simpl in Q; tauto.
Qed.
Lemma quiet_ret id o : quiet o -> returns id o = [].
Proof.
  intros H. apply flat_map_nil_all. intros x Hx.
  pose proof (proj1 (Forall_forall _ _) H x Hx) as Q. destruct x; simpl in Q; tauto.
Qed.

Lemma shaped_other_ri i id o : shaped i o -> i <> id -> run_invocations id o = [].
Proof.
  intros H Hn. apply flat_map_nil_all. intros x Hx.
  pose proof (proj1 (Forall_forall _ _) H x Hx) as Q. destruct x; simpl in Q; try reflexivity.
  subst. destruct (Nat.eqb_spec i id); congruence.
Qed.
Lemma shaped_other_fbi i id o : shaped i o -> i <> id -> fb_invocations id o = [].
Proof.
  intros H Hn. apply flat_map_nil_all. intros x Hx.
  pose proof (proj1 (Forall_forall _ _) H x Hx) as Q. destruct x; simpl in Q; try reflexivity.
  destruct Q; subst. destruct (Nat.eqb_spec i id); congruence.
Qed.
Lemma shaped_other_ret i id o : shaped i o -> i <> id -> returns id o = [].
Proof.
  intros H Hn. apply flat_map_nil_all. intros x Hx.
  pose proof (proj1 (Forall_forall _ _) H x Hx) as Q. destruct x; simpl in Q; try reflexivity.
  subst. destruct (Nat.eqb_spec i id); congruence.
Qed.

Lemma quiet_no_runend o id b : quiet o -> ~ In (ORunEnd id b) o.
Proof. intros H Hin. exact (proj1 (Forall_forall _ _) H _ Hin). Qed.
Lemma shaped_fb_ctx i o id err b : shaped i o -> In (OFbInvoked id err b) o -> b = true.
Proof. intros H Hin. exact (proj2 (proj1 (Forall_forall _ _) H _ Hin)). Qed.

(* solve `quiet ...` goals made of appends, conses, maps and known-quiet pieces *)
Ltac quiet_tac :=
  repeat first
    [ assumption
    | apply quiet_nil
    | apply quiet_reading
    | apply quiet_app
    | apply quiet_map; intros; exact I
    | apply quiet_cons; [exact I|] ].

(* ================================================================== *)
(* 2. the call table                                                    *)
(* ================================================================== *)

Lemma find_filter_other {A} (p q : A -> bool) l :
  (forall x, p x = true -> q x = true) -> find p (filter q l) = find p l.
Proof.
  intros H. induction l as [|x l IH]; [reflexivity|]. simpl.
  destruct (q x) eqn:Q; simpl; destruct (p x) eqn:P; auto.
  rewrite (H x P) in Q; discriminate.
Qed.
Lemma find_filter_none {A} (p q : A -> bool) l :
  (forall x, p x = true -> q x = false) -> find p (filter q l) = None.
Proof.
  intros H. induction l as [|x l IH]; [reflexivity|]. simpl.
  destruct (q x) eqn:Q; simpl; auto. destruct (p x) eqn:P; auto.
  rewrite (H x P) in Q; discriminate.
Qed.

Lemma find_call_id id s cs : find_call id s = Some cs -> cs_id cs = id.
Proof. unfold find_call; intros H. apply find_some in H. destruct H as [_ H]. apply Nat.eqb_eq; exact H. Qed.

Lemma find_drop_same id s : find_call id (drop_call id s) = None.
Proof.
  unfold find_call, drop_call; cbn [calls set_calls]. apply find_filter_none.
  intros x H; rewrite H; reflexivity.
Qed.
Lemma find_drop_other i id s : i <> id -> find_call id (drop_call i s) = find_call id s.
Proof.
  intros Hn. unfold find_call, drop_call; cbn [calls set_calls]. apply find_filter_other.
  intros x H. apply Nat.eqb_eq in H. destruct (Nat.eqb_spec (cs_id x) i); [congruence | reflexivity].
Qed.
Lemma find_put_same c s : find_call (cs_id c) (put_call c s) = Some c.
Proof. unfold find_call, put_call; cbn [calls set_calls find]. rewrite Nat.eqb_refl; reflexivity. Qed.
Lemma find_put_other c id s : cs_id c <> id -> find_call id (put_call c s) = find_call id s.
Proof.
  intros Hn. unfold find_call, put_call; cbn [calls set_calls find].
  destruct (Nat.eqb_spec (cs_id c) id); [congruence|]. apply find_filter_other.
  intros x H. apply Nat.eqb_eq in H. destruct (Nat.eqb_spec (cs_id x) (cs_id c)); [congruence | reflexivity].
Qed.
Lemma find_call_calls id s s1 : calls s1 = calls s -> find_call id s1 = find_call id s.
Proof. unfold find_call; intros ->; reflexivity. Qed.

(* ================================================================== *)
(* 3. the notification fan-out touches only the open/close logic        *)
(* ================================================================== *)

(* p is the result of running a logic-only stage from s *)
Definition inert (s : state) (p : state * list obs) : Prop :=
  calls (fst p) = calls s /\ cfg (fst p) = cfg s /\ fbs (fst p) = fbs s /\ cmds (fst p) = cmds s /\
  clock (fst p) = clock s /\ quiet (snd p).

Lemma inert_refl s : inert s (s, []).
Proof. unfold inert; simpl; repeat split; constructor. Qed.

Lemma inert_trans s p (f : state -> state * list obs) :
  inert s p -> (forall s1, inert s1 (f s1)) ->
  inert s (let (s1, o1) := p in let (s2, o2) := f s1 in (s2, o1 ++ o2)).
Proof.
  intros H F. destruct p as [s1 o1]. specialize (F s1). destruct (f s1) as [s2 o2].
  unfold inert in *; simpl in *. intuition (try congruence). apply quiet_app; assumption.
Qed.

Lemma emit_run_inert st k t d s : inert s (emit_run st k t d s).
Proof. unfold inert, emit_run; simpl; repeat split. quiet_tac. Qed.

Lemma emit_circ_inert st k t s : inert s (emit_circ st k t s).
Proof.
  unfold inert, emit_circ. destruct (closer_circ t (cls s)) as [c1 timers]; simpl; repeat split.
  quiet_tac.
Qed.

Lemma inert_set_flag s s1 o b : inert s (s1, o) -> inert s (set_flag s1 b, o).
Proof. unfold inert; simpl; tauto. Qed.
Lemma inert_cons s s1 o x : qo x -> inert s (s1, o) -> inert s (s1, x :: o).
Proof. unfold inert; simpl; intros; intuition. apply quiet_cons; assumption. Qed.

Lemma open_circuit_inert st now s : inert s (open_circuit st now s).
Proof.
  unfold open_circuit. destruct (l_forced_closed (cfg s)); [apply inert_refl|].
  destruct (is_open s); [apply inert_refl|].
  pose proof (emit_circ_inert st Opened now s) as H. destruct (emit_circ st Opened now s) as [s1 o].
  apply inert_set_flag; exact H.
Qed.

Lemma close_circuit_inert st now force ans s : inert s (close_circuit st now force ans s).
Proof.
  unfold close_circuit. destruct (negb (is_open s)); [apply inert_refl|].
  destruct (l_force_open (cfg s)); [apply inert_refl|].
  pose proof (emit_circ_inert st Closed now s) as H. destruct (emit_circ st Closed now s) as [s1 o].
  destruct force; [apply inert_set_flag; exact H|].
  destruct (closer_should_close ans (cls s)).
  - apply inert_cons; [exact I|]. apply inert_set_flag; exact H.
  - apply inert_cons; [exact I|]. apply inert_refl.
Qed.

Lemma attempt_to_open_inert st now ans s : inert s (attempt_to_open st now ans s).
Proof.
  unfold attempt_to_open. destruct (l_forced_closed (cfg s)); [apply inert_refl|].
  destruct (is_open s); [apply inert_refl|].
  destruct (opener_should_open now ans (opn s)) as [o1 b].
  destruct b.
  - pose proof (open_circuit_inert st now (set_logic s o1 (cls s))) as H.
    destruct (open_circuit st now (set_logic s o1 (cls s))) as [s2 o].
    apply inert_cons; [exact I|]. exact H.
  - apply inert_cons; [exact I|]. unfold inert; simpl; repeat split; constructor.
Qed.

(* ================================================================== *)
(* 4. EndRun decomposed                                                 *)
(* ================================================================== *)

(* the classification / fan-out / transition part of end_run, verbatim *)
Definition run_fanout (st : static) (e : endinfo) (r : res) (now dur : Z) (timed_out interrupted : bool)
    (s : state) : state * list obs :=
  if res_is_bad r then emit_run st KBadRequest now (Some dur) s
  else if timed_out then
    let (sa, oa) := emit_run st KTimeout now (Some dur) s in
    if negb (is_open sa) then let (sb, ob) := attempt_to_open st now (e_should_open e) sa in (sb, oa ++ ob)
    else (sa, oa)
  else if interrupted then emit_run st KInterrupt now (Some dur) s
  else if negb (res_is_nil r) then
    let (sa, oa) := emit_run st KFailure now (Some dur) s in
    if negb (is_open sa) then let (sb, ob) := attempt_to_open st now (e_should_open e) sa in (sb, oa ++ ob)
    else (sa, oa)
  else
    let (sa, oa) := emit_run st KSuccess now (Some dur) s in
    if is_open sa then let (sb, ob) := close_circuit st now false (e_should_close e) sa in (sb, oa ++ ob)
    else (sa, oa).

Lemma inert_step s sa oa (p : state * list obs) :
  inert s (sa, oa) -> inert sa p -> inert s (let (sb, ob) := p in (sb, oa ++ ob)).
Proof.
  destruct p as [sb ob]. unfold inert; simpl. intuition (try congruence). apply quiet_app; assumption.
Qed.

Lemma run_fanout_inert st e r now dur to intr s : inert s (run_fanout st e r now dur to intr s).
Proof.
  unfold run_fanout.
  destruct (res_is_bad r); [apply emit_run_inert|].
  destruct to.
  { pose proof (emit_run_inert st KTimeout now (Some dur) s) as H.
    destruct (emit_run st KTimeout now (Some dur) s) as [sa oa].
    destruct (negb (is_open sa)); [|exact H]. apply (inert_step _ _ _ _ H), attempt_to_open_inert. }
  destruct intr; [apply emit_run_inert|].
  destruct (negb (res_is_nil r)).
  { pose proof (emit_run_inert st KFailure now (Some dur) s) as H.
    destruct (emit_run st KFailure now (Some dur) s) as [sa oa].
    destruct (negb (is_open sa)); [|exact H]. apply (inert_step _ _ _ _ H), attempt_to_open_inert. }
  pose proof (emit_run_inert st KSuccess now (Some dur) s) as H.
  destruct (emit_run st KSuccess now (Some dur) s) as [sa oa].
  destruct (is_open sa); [|exact H]. apply (inert_step _ _ _ _ H), close_circuit_inert.
Qed.

Definition run_after (cs : callst) (derived : bool) : bool := if derived then true else cs_done cs.

Lemma end_run_PRun st id e s cs start expected derived :
  find_call id s = Some cs -> cs_phase cs = PRun start expected derived ->
  res_panics (e_res e) = false ->
  end_run st id e s =
  let r := e_res e in
  let now := clock s in
  let timed_out := match expected with Some x => x <? now | None => false end in
  let interrupted := negb (res_is_nil r) && cs_done cs && negb (l_ignore_int (cfg s)) && ie_says (l_ie (cfg s)) in
  let (s1, o1) := run_fanout st e r now (now - start) timed_out interrupted s in
  let s2 := set_cmds s1 (cmds s1 - 1) in
  let seen := ORunEnd id (cs_done cs) in
  if res_is_nil r then (drop_call id s2, seen :: o1 ++ [OReturned id VNil (run_after cs derived)])
  else if res_is_bad r then (drop_call id s2, seen :: o1 ++ [OReturned id (res_val r) (run_after cs derived)])
  else let (s3, o3) := fallback_stage st cs (res_val r) true derived s2 in (s3, seen :: o1 ++ o3).
Proof.
  intros Hf Hp Hr. unfold end_run. rewrite Hf, Hp. unfold run_fanout, run_after.
  destruct (e_res e); try discriminate; reflexivity.
Qed.

Lemma end_run_panic st id e s cs start expected derived v :
  find_call id s = Some cs -> cs_phase cs = PRun start expected derived ->
  e_res e = RPanic v ->
  end_run st id e s =
  (drop_call id (set_cmds s (cmds s - 1)), [ORunEnd id (cs_done cs); OReturned id (VPanic v) (run_after cs derived)]).
Proof. intros Hf Hp Hr. unfold end_run. rewrite Hf, Hp, Hr. reflexivity. Qed.

(* ================================================================== *)
(* 5. the fallback stage                                                *)
(* ================================================================== *)

Definition fb_after (cs : callst) (ran derived : bool) : bool :=
  if ran then (if derived then true else cs_done cs) else false.

(* the three exits of the fallback stage, in the vocabulary of CircuitSpec *)
Lemma fallback_stage_cases st cs err ran derived s :
  let id := cs_id cs in
  let p := fallback_stage st cs err ran derived s in
  if fb_available s (cs_call cs) then
    if fb_limit_hit s then
      p = (drop_call id s, emit_fb st FKReject (clock s) None ++ [OReturned id VFbThrottled (fb_after cs ran derived)])
    else
      p = (put_call {| cs_id := id; cs_call := cs_call cs; cs_phase := PFb (clock s) ran derived; cs_done := cs_done cs |}
                    (set_fbs s (fbs s + 1)),
           [OFbInvoked id err true])
  else p = (drop_call id s, [OReturned id err (fb_after cs ran derived)]).
Proof.
  unfold fallback_stage, fb_available, fb_limit_hit, fb_after. cbv zeta.
  destruct (has_fb_eff (cs_call cs)); simpl; [|reflexivity].
  destruct (l_fb_disabled (cfg s)); simpl; [reflexivity|].
  destruct ((0 <=? l_fb_max (cfg s)) && (l_fb_max (cfg s) <? fbs s + 1)); reflexivity.
Qed.

Lemma quiet_emit_fb st k t d : quiet (emit_fb st k t d).
Proof. unfold emit_fb. quiet_tac. Qed.

Lemma fallback_stage_shaped st cs err ran derived s :
  shaped (cs_id cs) (snd (fallback_stage st cs err ran derived s)).
Proof.
  pose proof (fallback_stage_cases st cs err ran derived s) as H. cbv zeta in H.
  destruct (fb_available s (cs_call cs)); [destruct (fb_limit_hit s)|]; rewrite H; simpl.
  - apply shaped_app; [apply quiet_shaped, quiet_emit_fb|]. repeat constructor.
  - repeat constructor.
  - repeat constructor.
Qed.

Lemma fallback_stage_other st cs err ran derived s id :
  cs_id cs <> id -> find_call id (fst (fallback_stage st cs err ran derived s)) = find_call id s.
Proof.
  intros Hn. pose proof (fallback_stage_cases st cs err ran derived s) as H. cbv zeta in H.
  destruct (fb_available s (cs_call cs)); [destruct (fb_limit_hit s)|]; rewrite H; simpl.
  - apply find_drop_other; exact Hn.
  - rewrite find_put_other by exact Hn. reflexivity.
  - apply find_drop_other; exact Hn.
Qed.
