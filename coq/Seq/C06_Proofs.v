(* Seq/C06_Proofs.v — proofs for Properties/C06.v (return-value contract) and
   shared helper lemmas about the level-1 circuit model (also used by
   Seq/C07_Proofs.v). *)
From Coq Require Import ZifyBool.
From CV Require Import Base.Prelude Seq.RollingCounter Seq.TimedCheck Seq.Logic Seq.Circuit Seq.CircuitSpec.

(* ================================================================== *)
(* 1. observation lists                                                *)
(* ================================================================== *)

(* observations that belong to no call *)
Definition qo (x : obs) : Prop :=
  match x with
  | ORunInvoked _ _ _ | ORunEnd _ _ | OFbInvoked _ _ _ | OReturned _ _ _ => False
  | _ => True
  end.
Definition quiet (o : list obs) : Prop := Forall qo o.

(* call-related observations all belong to call id, fallbacks get the caller's context *)
Definition okobs (id : nat) (x : obs) : Prop :=
  match x with
  | ORunInvoked i _ _ | ORunEnd i _ | OReturned i _ _ => i = id
  | OFbInvoked i _ b => i = id /\ b = true
  | _ => True
  end.
Definition shaped (id : nat) (o : list obs) : Prop := Forall (okobs id) o.

Lemma quiet_nil : quiet []. Proof. constructor. Qed.
Lemma quiet_app a b : quiet a -> quiet b -> quiet (a ++ b).
Proof. intros; apply Forall_app; split; assumption. Qed.
Lemma quiet_cons x o : qo x -> quiet o -> quiet (x :: o).
Proof. intros; constructor; assumption. Qed.
Lemma quiet_map {A} (f : A -> obs) l : (forall x, qo (f x)) -> quiet (map f l).
Proof. intros H; apply Forall_map, Forall_forall; intros; apply H. Qed.
Lemma quiet_shaped id o : quiet o -> shaped id o.
Proof. apply Forall_impl; intros [] H; simpl in *; tauto. Qed.
Lemma shaped_app id a b : shaped id a -> shaped id b -> shaped id (a ++ b).
Proof. intros; apply Forall_app; split; assumption. Qed.
Lemma shaped_cons id x o : okobs id x -> shaped id o -> shaped id (x :: o).
Proof. intros; constructor; assumption. Qed.
Lemma shaped_nil id : shaped id []. Proof. constructor. Qed.

Lemma quiet_reading st s : quiet [reading st s].
Proof. unfold reading; destruct (s_mode st); repeat constructor. Qed.

Lemma ri_app id a b : run_invocations id (a ++ b) = run_invocations id a ++ run_invocations id b.
Proof. apply flat_map_app. Qed.
Lemma fbi_app id a b : fb_invocations id (a ++ b) = fb_invocations id a ++ fb_invocations id b.
Proof. apply flat_map_app. Qed.
Lemma ret_app id a b : returns id (a ++ b) = returns id a ++ returns id b.
Proof. apply flat_map_app. Qed.

Lemma flat_map_nil_all {A B} (f : A -> list B) l : (forall x, In x l -> f x = []) -> flat_map f l = [].
Proof.
  induction l as [|x l IH]; intros H; [reflexivity|]. simpl. rewrite (H x) by (left; reflexivity).
  apply IH. intros y Hy; apply H; right; exact Hy.
Qed.

Lemma quiet_ri id o : quiet o -> run_invocations id o = [].
Proof.
  intros H. apply flat_map_nil_all. intros x Hx.
  pose proof (proj1 (Forall_forall _ _) H x Hx) as Q. destruct x; simpl in Q; tauto.
Qed.
Lemma quiet_fbi id o : quiet o -> fb_invocations id o = [].
Proof.
  intros H. apply flat_map_nil_all. intros x Hx.
  pose proof (proj1 (Forall_forall _ _) H x Hx) as Q. destruct x; simpl in Q; tauto.
Qed.
Lemma quiet_ret id o : quiet o -> returns id o = [].
Proof.
  intros H. apply flat_map_nil_all. intros x Hx.
  pose proof (proj1 (Forall_forall _ _) H x Hx) as Q. destruct x; simpl in Q; tauto.
Qed.

Lemma shaped_other_ri i id o : shaped i o -> i <> id -> run_invocations id o = [].
Proof.
  intros H Hn. apply flat_map_nil_all. intros x Hx.
  pose proof (proj1 (Forall_forall _ _) H x Hx) as Q. destruct x; simpl in Q; try reflexivity.
  subst. destruct (Nat.eqb_spec i id); congruence.
Qed.
Lemma shaped_other_fbi i id o : shaped i o -> i <> id -> fb_invocations id o = [].
Proof.
  intros H Hn. apply flat_map_nil_all. intros x Hx.
  pose proof (proj1 (Forall_forall _ _) H x Hx) as Q. destruct x; simpl in Q; try reflexivity.
  destruct Q; subst. destruct (Nat.eqb_spec i id); congruence.
Qed.
Lemma shaped_other_ret i id o : shaped i o -> i <> id -> returns id o = [].
Proof.
  intros H Hn. apply flat_map_nil_all. intros x Hx.
  pose proof (proj1 (Forall_forall _ _) H x Hx) as Q. destruct x; simpl in Q; try reflexivity.
  subst. destruct (Nat.eqb_spec i id); congruence.
Qed.

Lemma quiet_no_runend o id b : quiet o -> ~ In (ORunEnd id b) o.
Proof. intros H Hin. exact (proj1 (Forall_forall _ _) H _ Hin). Qed.
Lemma shaped_fb_ctx i o id err b : shaped i o -> In (OFbInvoked id err b) o -> b = true.
Proof. intros H Hin. exact (proj2 (proj1 (Forall_forall _ _) H _ Hin)). Qed.

(* solve `quiet ...` goals made of appends, conses, maps and known-quiet pieces *)
Ltac quiet_tac :=
  repeat first
    [ assumption
    | apply quiet_nil
    | apply quiet_reading
    | apply quiet_app
    | apply quiet_map; intros; exact I
    | apply quiet_cons; [exact I|] ].

(* ================================================================== *)
(* 2. the call table                                                    *)
(* ================================================================== *)

Lemma find_filter_other {A} (p q : A -> bool) l :
  (forall x, p x = true -> q x = true) -> find p (filter q l) = find p l.
Proof.
  intros H. induction l as [|x l IH]; [reflexivity|]. simpl.
  destruct (q x) eqn:Q; simpl; destruct (p x) eqn:P; auto.
  rewrite (H x P) in Q; discriminate.
Qed.
Lemma find_filter_none {A} (p q : A -> bool) l :
  (forall x, p x = true -> q x = false) -> find p (filter q l) = None.
Proof.
  intros H. induction l as [|x l IH]; [reflexivity|]. simpl.
  destruct (q x) eqn:Q; simpl; auto. destruct (p x) eqn:P; auto.
  rewrite (H x P) in Q; discriminate.
Qed.

Lemma find_call_id id s cs : find_call id s = Some cs -> cs_id cs = id.
Proof. unfold find_call; intros H. apply find_some in H. destruct H as [_ H]. apply Nat.eqb_eq; exact H. Qed.

Lemma find_drop_same id s : find_call id (drop_call id s) = None.
Proof.
  unfold find_call, drop_call; cbn [calls set_calls]. apply find_filter_none.
  intros x H; rewrite H; reflexivity.
Qed.
Lemma find_drop_other i id s : i <> id -> find_call id (drop_call i s) = find_call id s.
Proof.
  intros Hn. unfold find_call, drop_call; cbn [calls set_calls]. apply find_filter_other.
  intros x H. apply Nat.eqb_eq in H. destruct (Nat.eqb_spec (cs_id x) i); [congruence | reflexivity].
Qed.
Lemma find_put_same c s : find_call (cs_id c) (put_call c s) = Some c.
Proof. unfold find_call, put_call; cbn [calls set_calls find]. rewrite Nat.eqb_refl; reflexivity. Qed.
Lemma find_put_other c id s : cs_id c <> id -> find_call id (put_call c s) = find_call id s.
Proof.
  intros Hn. unfold find_call, put_call; cbn [calls set_calls find].
  destruct (Nat.eqb_spec (cs_id c) id); [congruence|]. apply find_filter_other.
  intros x H. apply Nat.eqb_eq in H. destruct (Nat.eqb_spec (cs_id x) (cs_id c)); [congruence | reflexivity].
Qed.
Lemma find_call_calls id s s1 : calls s1 = calls s -> find_call id s1 = find_call id s.
Proof. unfold find_call; intros ->; reflexivity. Qed.

(* ================================================================== *)
(* 3. the notification fan-out touches only the open/close logic        *)
(* ================================================================== *)

(* p is the result of running a logic-only stage from s *)
Definition inert (s : state) (p : state * list obs) : Prop :=
  calls (fst p) = calls s /\ cfg (fst p) = cfg s /\ fbs (fst p) = fbs s /\ cmds (fst p) = cmds s /\
  clock (fst p) = clock s /\ quiet (snd p).

Lemma inert_refl s : inert s (s, []).
Proof. unfold inert; simpl; repeat split; constructor. Qed.

Lemma inert_trans s p (f : state -> state * list obs) :
  inert s p -> (forall s1, inert s1 (f s1)) ->
  inert s (let (s1, o1) := p in let (s2, o2) := f s1 in (s2, o1 ++ o2)).
Proof.
  intros H F. destruct p as [s1 o1]. specialize (F s1). destruct (f s1) as [s2 o2].
  unfold inert in *; simpl in *. intuition (try congruence). apply quiet_app; assumption.
Qed.

Lemma emit_run_inert st k t d s : inert s (emit_run st k t d s).
Proof. unfold inert, emit_run; simpl; repeat split. quiet_tac. Qed.

Lemma emit_circ_inert st k t s : inert s (emit_circ st k t s).
Proof.
  unfold inert, emit_circ. destruct (closer_circ t (cls s)) as [c1 timers]; simpl; repeat split.
  quiet_tac.
Qed.

Lemma inert_set_flag s s1 o b : inert s (s1, o) -> inert s (set_flag s1 b, o).
Proof. unfold inert; simpl; tauto. Qed.
Lemma inert_cons s s1 o x : qo x -> inert s (s1, o) -> inert s (s1, x :: o).
Proof. unfold inert; simpl; intros; intuition. apply quiet_cons; assumption. Qed.

Lemma open_circuit_inert st now s : inert s (open_circuit st now s).
Proof.
  unfold open_circuit. destruct (l_forced_closed (cfg s)); [apply inert_refl|].
  destruct (is_open s); [apply inert_refl|].
  pose proof (emit_circ_inert st Opened now s) as H. destruct (emit_circ st Opened now s) as [s1 o].
  apply inert_set_flag; exact H.
Qed.

Lemma close_circuit_inert st now force ans s : inert s (close_circuit st now force ans s).
Proof.
  unfold close_circuit. destruct (negb (is_open s)); [apply inert_refl|].
  destruct (l_force_open (cfg s)); [apply inert_refl|].
  pose proof (emit_circ_inert st Closed now s) as H. destruct (emit_circ st Closed now s) as [s1 o].
  destruct force; [apply inert_set_flag; exact H|].
  destruct (closer_should_close ans (cls s)).
  - apply inert_cons; [exact I|]. apply inert_set_flag; exact H.
  - apply inert_cons; [exact I|]. apply inert_refl.
Qed.

Lemma attempt_to_open_inert st now ans s : inert s (attempt_to_open st now ans s).
Proof.
  unfold attempt_to_open. destruct (l_forced_closed (cfg s)); [apply inert_refl|].
  destruct (is_open s); [apply inert_refl|].
  destruct (opener_should_open now ans (opn s)) as [o1 b].
  destruct b.
  - pose proof (open_circuit_inert st now (set_logic s o1 (cls s))) as H.
    destruct (open_circuit st now (set_logic s o1 (cls s))) as [s2 o].
    apply inert_cons; [exact I|]. exact H.
  - apply inert_cons; [exact I|]. unfold inert; simpl; repeat split; constructor.
Qed.

(* ================================================================== *)
(* 4. EndRun decomposed                                                 *)
(* ================================================================== *)

(* the classification / fan-out / transition part of end_run, verbatim *)
Definition run_fanout (st : static) (e : endinfo) (r : res) (now dur : Z) (timed_out interrupted : bool)
    (s : state) : state * list obs :=
  if res_is_bad r then emit_run st KBadRequest now (Some dur) s
  else if timed_out then
    let (sa, oa) := emit_run st KTimeout now (Some dur) s in
    if negb (is_open sa) then let (sb, ob) := attempt_to_open st now (e_should_open e) sa in (sb, oa ++ ob)
    else (sa, oa)
  else if interrupted then emit_run st KInterrupt now (Some dur) s
  else if negb (res_is_nil r) then
    let (sa, oa) := emit_run st KFailure now (Some dur) s in
    if negb (is_open sa) then let (sb, ob) := attempt_to_open st now (e_should_open e) sa in (sb, oa ++ ob)
    else (sa, oa)
  else
    let (sa, oa) := emit_run st KSuccess now (Some dur) s in
    if is_open sa then let (sb, ob) := close_circuit st now false (e_should_close e) sa in (sb, oa ++ ob)
    else (sa, oa).

Lemma inert_step s sa oa (p : state * list obs) :
  inert s (sa, oa) -> inert sa p -> inert s (let (sb, ob) := p in (sb, oa ++ ob)).
Proof.
  destruct p as [sb ob]. unfold inert; simpl. intuition (try congruence). apply quiet_app; assumption.
Qed.

Lemma run_fanout_inert st e r now dur to intr s : inert s (run_fanout st e r now dur to intr s).
Proof.
  unfold run_fanout.
  destruct (res_is_bad r); [apply emit_run_inert|].
  destruct to.
  { pose proof (emit_run_inert st KTimeout now (Some dur) s) as H.
    destruct (emit_run st KTimeout now (Some dur) s) as [sa oa].
    destruct (negb (is_open sa)); [|exact H]. apply (inert_step _ _ _ _ H), attempt_to_open_inert. }
  destruct intr; [apply emit_run_inert|].
  destruct (negb (res_is_nil r)).
  { pose proof (emit_run_inert st KFailure now (Some dur) s) as H.
    destruct (emit_run st KFailure now (Some dur) s) as [sa oa].
    destruct (negb (is_open sa)); [|exact H]. apply (inert_step _ _ _ _ H), attempt_to_open_inert. }
  pose proof (emit_run_inert st KSuccess now (Some dur) s) as H.
  destruct (emit_run st KSuccess now (Some dur) s) as [sa oa].
  destruct (is_open sa); [|exact H]. apply (inert_step _ _ _ _ H), close_circuit_inert.
Qed.

Definition run_after (cs : callst) (derived : bool) : bool := if derived then true else cs_done cs.

Lemma end_run_PRun st id e s cs start expected derived :
  find_call id s = Some cs -> cs_phase cs = PRun start expected derived ->
  res_panics (e_res e) = false ->
  end_run st id e s =
  let r := e_res e in
  let now := clock s in
  let timed_out := match expected with Some x => x <? now | None => false end in
  let interrupted := negb (res_is_nil r) && cs_done cs && negb (l_ignore_int (cfg s)) && ie_says (l_ie (cfg s)) in
  let (s1, o1) := run_fanout st e r now (now - start) timed_out interrupted s in
  let s2 := set_cmds s1 (cmds s1 - 1) in
  let seen := ORunEnd id (cs_done cs) in
  if res_is_nil r then (drop_call id s2, seen :: o1 ++ [OReturned id VNil (run_after cs derived)])
  else if res_is_bad r then (drop_call id s2, seen :: o1 ++ [OReturned id (res_val r) (run_after cs derived)])
  else let (s3, o3) := fallback_stage st cs (res_val r) true derived s2 in (s3, seen :: o1 ++ o3).
Proof.
  intros Hf Hp Hr. unfold end_run. rewrite Hf, Hp. unfold run_fanout, run_after.
  destruct (e_res e); try discriminate; reflexivity.
Qed.

Lemma end_run_panic st id e s cs start expected derived v :
  find_call id s = Some cs -> cs_phase cs = PRun start expected derived ->
  e_res e = RPanic v ->
  end_run st id e s =
  (drop_call id (set_cmds s (cmds s - 1)), [ORunEnd id (cs_done cs); OReturned id (VPanic v) (run_after cs derived)]).
Proof. intros Hf Hp Hr. unfold end_run. rewrite Hf, Hp, Hr. reflexivity. Qed.

(* ================================================================== *)
(* 5. the fallback stage                                                *)
(* ================================================================== *)

Definition fb_after (cs : callst) (ran derived : bool) : bool :=
  if ran then (if derived then true else cs_done cs) else false.

(* the three exits of the fallback stage, in the vocabulary of CircuitSpec *)
Lemma fallback_stage_cases st cs err ran derived s :
  let id := cs_id cs in
  let p := fallback_stage st cs err ran derived s in
  if fb_available s (cs_call cs) then
    if fb_limit_hit s then
      p = (drop_call id s, emit_fb st FKReject (clock s) None ++ [OReturned id VFbThrottled (fb_after cs ran derived)])
    else
      p = (put_call {| cs_id := id; cs_call := cs_call cs; cs_phase := PFb (clock s) ran derived; cs_done := cs_done cs |}
                    (set_fbs s (fbs s + 1)),
           [OFbInvoked id err true])
  else p = (drop_call id s, [OReturned id err (fb_after cs ran derived)]).
Proof.
  unfold fallback_stage, fb_available, fb_limit_hit, fb_after. cbv zeta.
  destruct (has_fb_eff (cs_call cs)); simpl; [|reflexivity].
  destruct (l_fb_disabled (cfg s)); simpl; [reflexivity|].
  destruct ((0 <=? l_fb_max (cfg s)) && (l_fb_max (cfg s) <? fbs s + 1)); reflexivity.
Qed.

Lemma quiet_emit_fb st k t d : quiet (emit_fb st k t d).
Proof. unfold emit_fb. quiet_tac. Qed.

Lemma fallback_stage_shaped st cs err ran derived s :
  shaped (cs_id cs) (snd (fallback_stage st cs err ran derived s)).
Proof.
  pose proof (fallback_stage_cases st cs err ran derived s) as H. cbv zeta in H.
  destruct (fb_available s (cs_call cs)); [destruct (fb_limit_hit s)|]; rewrite H; simpl.
  - apply shaped_app; [apply quiet_shaped, quiet_emit_fb|]. repeat constructor.
  - repeat constructor.
  - repeat constructor.
Qed.

Lemma fallback_stage_other st cs err ran derived s id :
  cs_id cs <> id -> find_call id (fst (fallback_stage st cs err ran derived s)) = find_call id s.
Proof.
  intros Hn. pose proof (fallback_stage_cases st cs err ran derived s) as H. cbv zeta in H.
  destruct (fb_available s (cs_call cs)); [destruct (fb_limit_hit s)|]; rewrite H; simpl.
  - apply find_drop_other; exact Hn.
  - rewrite find_put_other by exact Hn. reflexivity.
  - apply find_drop_other; exact Hn.
Qed.

(* ================================================================== *)
(* 6. single-segment theorems of C06                                    *)
(* ================================================================== *)

Lemma nil_run (st : static) : forall s id c,
  enabled st s -> c_has_run c = false ->
  step st s (Begin id c) = (s, [OReturned id VNil false; reading st s]).
Proof.
  intros s id c [Hm Hd] Hr. unfold step, step_core, begin_call. rewrite Hm, Hd, Hr. reflexivity.
Qed.

Lemma ret_one id v a : returns id [OReturned id v a] = [(v, a)].
Proof. simpl. rewrite Nat.eqb_refl. reflexivity. Qed.
Lemma fbi_one id v a : fb_invocations id [OFbInvoked id v a] = [(v, a)].
Proof. simpl. rewrite Nat.eqb_refl. reflexivity. Qed.
Lemma ri_one id v a : run_invocations id [ORunInvoked id v a] = [(v, a)].
Proof. simpl. rewrite Nat.eqb_refl. reflexivity. Qed.
Lemma ret_cons_q id x o : qo x -> returns id (x :: o) = returns id o.
Proof. destruct x; simpl; tauto. Qed.
Lemma ret_runend id i b o : returns id (ORunEnd i b :: o) = returns id o.
Proof. reflexivity. Qed.
Lemma fbi_runend id i b o : fb_invocations id (ORunEnd i b :: o) = fb_invocations id o.
Proof. reflexivity. Qed.
Lemma ri_runend id i b o : run_invocations id (ORunEnd i b :: o) = run_invocations id o.
Proof. reflexivity. Qed.

(* projections of the three exits of the fallback stage *)
Lemma fallback_stage_proj st cs err ran derived s :
  let id := cs_id cs in
  let o := snd (fallback_stage st cs err ran derived s) in
  run_invocations id o = [] /\
  if fb_available s (cs_call cs) then
    if fb_limit_hit s
    then returns id o = [(VFbThrottled, fb_after cs ran derived)] /\ fb_invocations id o = []
    else fb_invocations id o = [(err, true)] /\ returns id o = []
  else returns id o = [(err, fb_after cs ran derived)] /\ fb_invocations id o = [].
Proof.
  pose proof (fallback_stage_cases st cs err ran derived s) as H. cbv zeta in *.
  destruct (fb_available s (cs_call cs)); [destruct (fb_limit_hit s)|]; rewrite H; cbn [snd].
  - rewrite ri_app, ret_app, fbi_app, ret_one.
    rewrite (quiet_ri _ _ (quiet_emit_fb _ _ _ _)), (quiet_ret _ _ (quiet_emit_fb _ _ _ _)),
            (quiet_fbi _ _ (quiet_emit_fb _ _ _ _)). auto.
  - rewrite fbi_one. auto.
  - rewrite ret_one. auto.
Qed.

Lemma after_run (st : static) : forall s id e cs start expected derived,
  find_call id s = Some cs -> cs_phase cs = PRun start expected derived ->
  res_panics (e_res e) = false ->
  let o := snd (step st s (EndRun id e)) in
  let r := e_res e in
  if res_is_nil r then
    (exists a, returns id o = [(VNil, a)]) /\ fb_invocations id o = []
  else if res_is_bad r then
    (exists a, returns id o = [(res_val r, a)]) /\ fb_invocations id o = []
  else if fb_available s (cs_call cs) then
    if fb_limit_hit s
    then (exists a, returns id o = [(VFbThrottled, a)]) /\ fb_invocations id o = []
    else fb_invocations id o = [(res_val r, true)] /\ returns id o = []
  else (exists a, returns id o = [(res_val r, a)]) /\ fb_invocations id o = [].
Proof.
  intros s id e cs start expected derived Hf Hp Hr. cbv zeta.
  unfold step, step_core. rewrite (end_run_PRun st id e s cs start expected derived Hf Hp Hr). cbv zeta.
  match goal with |- context [run_fanout ?a ?b ?c ?d ?e ?f ?g ?h] =>
    pose proof (run_fanout_inert a b c d e f g h) as HI; destruct (run_fanout a b c d e f g h) as [s1 o1] end.
  destruct HI as (Hcalls & Hcfg & Hfbs & Hcmds & Hclock & Hq); simpl in Hcalls, Hcfg, Hfbs, Hcmds, Hclock, Hq.
  destruct (res_is_nil (e_res e)).
  { cbn [snd]. rewrite <- !app_comm_cons, ret_runend, fbi_runend, !ret_app, !fbi_app, ret_one.
    rewrite (quiet_ret _ _ Hq), (quiet_fbi _ _ Hq), (quiet_ret _ _ (quiet_reading _ _)), (quiet_fbi _ _ (quiet_reading _ _)).
    simpl. eauto. }
  destruct (res_is_bad (e_res e)).
  { cbn [snd]. rewrite <- !app_comm_cons, ret_runend, fbi_runend, !ret_app, !fbi_app, ret_one.
    rewrite (quiet_ret _ _ Hq), (quiet_fbi _ _ Hq), (quiet_ret _ _ (quiet_reading _ _)), (quiet_fbi _ _ (quiet_reading _ _)).
    simpl. eauto. }
  set (s2 := set_cmds s1 (cmds s1 - 1)).
  pose proof (fallback_stage_proj st cs (res_val (e_res e)) true derived s2) as HP. cbv zeta in HP.
  rewrite (find_call_id _ _ _ Hf) in HP.
  assert (Ea : fb_available s2 (cs_call cs) = fb_available s (cs_call cs)).
  { unfold fb_available, s2; cbn [cfg set_cmds]. rewrite Hcfg. reflexivity. }
  assert (El : fb_limit_hit s2 = fb_limit_hit s).
  { unfold fb_limit_hit, s2; cbn [cfg fbs set_cmds]. rewrite Hcfg, Hfbs. reflexivity. }
  rewrite Ea, El in HP.
  destruct (fallback_stage st cs (res_val (e_res e)) true derived s2) as [s3 o3]. cbn [snd] in *.
  rewrite <- !app_comm_cons, ret_runend, fbi_runend, !ret_app, !fbi_app.
  rewrite (quiet_ret _ _ Hq), (quiet_fbi _ _ Hq), (quiet_ret _ _ (quiet_reading _ _)), (quiet_fbi _ _ (quiet_reading _ _)).
  rewrite !app_nil_r. cbn [app].
  destruct HP as [_ HP].
  destruct (fb_available s (cs_call cs)); [destruct (fb_limit_hit s)|]; destruct HP as [H1 H2]; rewrite H1, H2; eauto.
Qed.

Lemma end_fb_PFb st id f s cs fbstart ran derived :
  find_call id s = Some cs -> cs_phase cs = PFb fbstart ran derived ->
  exists pre, quiet pre /\
  end_fb st id f s =
  (drop_call id (set_fbs s (fbs s - 1)),
   pre ++ [OReturned id (match f with FNil => VNil | FErr k => VFb k | FPanic v => VPanic v end) (fb_after cs ran derived)]).
Proof.
  intros Hf Hp. unfold end_fb. rewrite Hf, Hp. unfold fb_after. destruct f.
  - eexists; split; [|reflexivity]. apply quiet_emit_fb.
  - eexists; split; [|reflexivity]. apply quiet_emit_fb.
  - exists []; split; [constructor | reflexivity].
Qed.

Lemma after_fallback (st : static) : forall s id f cs fbstart ran derived,
  find_call id s = Some cs -> cs_phase cs = PFb fbstart ran derived ->
  exists a, returns id (snd (step st s (EndFb id f))) =
            [(match f with FNil => VNil | FErr k => VFb k | FPanic v => VPanic v end, a)].
Proof.
  intros s id f cs fbstart ran derived Hf Hp.
  destruct (end_fb_PFb st id f s cs fbstart ran derived Hf Hp) as (pre & Hq & E).
  unfold step, step_core. rewrite E. cbn [snd].
  rewrite !ret_app, ret_one, (quiet_ret _ _ Hq), (quiet_ret _ _ (quiet_reading _ _)). simpl. eauto.
Qed.

(* ================================================================== *)
(* 7. Begin decomposed along `gate`                                     *)
(* ================================================================== *)

Definition cs_pass (id : nat) (c : call) : callst :=
  {| cs_id := id; cs_call := c; cs_phase := PPass; cs_done := c_done c |}.

(* s1 is s after the Allow consultation: only the closer may differ *)
Definition allow_only (s s1 : state) : Prop :=
  cfg s1 = cfg s /\ flag s1 = flag s /\ cmds s1 = cmds s /\ fbs s1 = fbs s /\ opn s1 = opn s /\
  calls s1 = calls s /\ clock s1 = clock s.

Lemma begin_call_cases st id c s :
  enabled st s -> c_has_run c = true ->
  exists s1 o1, quiet o1 /\ allow_only s s1 /\
  begin_call st id c s =
  let now := clock s in
  match gate s c with
  | GShed =>
      let (s2, o2) := emit_run st KShort now None s1 in
      let (s3, o3) := fallback_stage st (cs_pass id c) VCircuitOpen false false s2 in
      (s3, o1 ++ o2 ++ o3)
  | GVeto =>
      let (s3, o3) := fallback_stage st (cs_pass id c) VCircuitOpen false false s1 in
      (s3, o1 ++ OAsked QPrevent now :: o3)
  | GReject =>
      let (s2, o2) := emit_run st KReject now None s1 in
      let (s3, o3) := fallback_stage st (cs_pass id c) VThrottled false false s2 in
      (s3, o1 ++ OAsked QPrevent now :: o2 ++ o3)
  | GRun =>
      let derived := 0 <? l_timeout (cfg s) in
      let expected := if derived then Some (now + l_timeout (cfg s)) else None in
      let dl := if derived then Some (min_deadline (c_deadline c) (now + l_timeout (cfg s))) else c_deadline c in
      (put_call {| cs_id := id; cs_call := c; cs_phase := PRun now expected derived; cs_done := c_done c |}
                (set_cmds s1 (cmds s + 1)),
       o1 ++ [OAsked QPrevent now; ORunInvoked id derived dl])
  end.
Proof.
  intros [Hm Hd] Hr.
  unfold begin_call, gate, shed_by_open, closer_admits, run_limit_hit. fold (cs_pass id c).
  rewrite Hm, Hd, Hr. cbn [negb].
  destruct (is_open s) eqn:Eo; cbn [negb andb].
  - destruct (l_force_open (cfg s)) eqn:Ef; cbn [orb].
    + exists s, []. split; [constructor|]. split; [unfold allow_only; tauto|]. reflexivity.
    + destruct (closer_allow (clock s) (c_allow c) (cls s)) as [[cl1 b] timers] eqn:Ea. cbn [fst snd].
      exists (set_logic s (opn s) cl1), (OAsked QAllow (clock s) :: map OTimer timers).
      split; [quiet_tac|]. split; [unfold allow_only; cbn; tauto|].
      destruct b; cbn [negb]; [|reflexivity].
      cbn [opn set_logic cfg cmds].
      destruct (opener_prevent (c_prevent c) (opn s)); [reflexivity|].
      destruct ((0 <=? l_max (cfg s)) && (l_max (cfg s) <? cmds s + 1)); reflexivity.
  - exists s, []. split; [constructor|]. split; [unfold allow_only; tauto|].
    destruct (opener_prevent (c_prevent c) (opn s)); [reflexivity|].
    destruct ((0 <=? l_max (cfg s)) && (l_max (cfg s) <? cmds s + 1)); reflexivity.
Qed.

Lemma begin_call_pass st id c s :
  passthrough st s -> begin_call st id c s = (put_call (cs_pass id c) s, [ORunInvoked id false (c_deadline c)]).
Proof.
  intros [Hm | Hd]; unfold begin_call; fold (cs_pass id c).
  - destruct (s_mode st); try reflexivity. congruence.
  - destruct (s_mode st); try reflexivity. rewrite Hd. reflexivity.
Qed.

Lemma mode_cases st s : passthrough st s \/ enabled st s.
Proof.
  unfold passthrough, enabled. destruct (s_mode st); try (left; left; discriminate).
  destruct (l_disabled (cfg s)); [left; right; reflexivity | right; split; reflexivity].
Qed.

Lemma fb_available_allow s s1 c : cfg s1 = cfg s -> fb_available s1 c = fb_available s c.
Proof. unfold fb_available; intros ->; reflexivity. Qed.
Lemma fb_limit_hit_allow s s1 : cfg s1 = cfg s -> fbs s1 = fbs s -> fb_limit_hit s1 = fb_limit_hit s.
Proof. unfold fb_limit_hit; intros -> ->; reflexivity. Qed.

Lemma throttled (st : static) : forall s id c,
  enabled st s -> c_has_run c = true -> gate s c = GReject ->
  let o := snd (step st s (Begin id c)) in
  run_invocations id o = [] /\ refusal_outcome s id c VThrottled o.
Proof.
  intros s id c He Hr Hg. cbv zeta.
  destruct (begin_call_cases st id c s He Hr) as (s1 & o1 & Hq & Ha & E).
  unfold step, step_core. rewrite E, Hg. cbv zeta.
  destruct Ha as (Hcfg & _ & _ & Hfbs & _ & _ & _).
  pose proof (emit_run_inert st KReject (clock s) None s1) as HI.
  destruct (emit_run st KReject (clock s) None s1) as [s2 o2].
  destruct HI as (_ & Hcfg2 & Hfbs2 & _ & _ & Hq2); cbn [fst snd] in *.
  pose proof (fallback_stage_proj st (cs_pass id c) VThrottled false false s2) as HP. cbv zeta in HP.
  cbn [cs_id cs_call cs_pass] in HP.
  rewrite (fb_available_allow s s2) in HP by congruence.
  rewrite (fb_limit_hit_allow s s2) in HP by congruence.
  destruct (fallback_stage st (cs_pass id c) VThrottled false false s2) as [s3 o3]. cbn [snd] in *.
  assert (Hq' : quiet (o1 ++ OAsked QPrevent (clock s) :: o2)) by quiet_tac.
  replace ((o1 ++ OAsked QPrevent (clock s) :: o2 ++ o3) ++ [reading st s3])
    with ((o1 ++ OAsked QPrevent (clock s) :: o2) ++ o3 ++ [reading st s3])
    by (repeat (rewrite <- app_assoc || rewrite <- app_comm_cons); reflexivity).
  destruct HP as [HR HP].
  set (pre := o1 ++ OAsked QPrevent (clock s) :: o2) in *. clearbody pre.
  unfold refusal_outcome.
  rewrite !ri_app, !ret_app, !fbi_app.
  rewrite (quiet_ri _ _ Hq'), (quiet_ret _ _ Hq'), (quiet_fbi _ _ Hq').
  rewrite (quiet_ri _ _ (quiet_reading _ _)), (quiet_ret _ _ (quiet_reading _ _)), (quiet_fbi _ _ (quiet_reading _ _)).
  rewrite !app_nil_r. cbn [app]. split; [exact HR|].
  destruct (fb_available s c); [destruct (fb_limit_hit s)|]; exact HP.
Qed.

(* ================================================================== *)
(* 8. every segment: whom it concerns, what it can emit                 *)
(* ================================================================== *)

(* 0: call id is not in flight; 1: in its fallback; 2: in its run function *)
Definition rank (id : nat) (s : state) : nat :=
  match find_call id s with
  | None => 0
  | Some cs => match cs_phase cs with PFb _ _ _ => 1 | _ => 2 end
  end.

Lemma rank_find id s s1 : find_call id s1 = find_call id s -> rank id s1 = rank id s.
Proof. unfold rank; intros ->; reflexivity. Qed.
Lemma rank_calls id s s1 : calls s1 = calls s -> rank id s1 = rank id s.
Proof. intros H; apply rank_find, find_call_calls, H. Qed.
Lemma rank_drop_same id s : rank id (drop_call id s) = 0%nat.
Proof. unfold rank; rewrite find_drop_same; reflexivity. Qed.
Lemma rank_put_same c s :
  rank (cs_id c) (put_call c s) = match cs_phase c with PFb _ _ _ => 1%nat | _ => 2%nat end.
Proof. unfold rank; rewrite find_put_same; reflexivity. Qed.
Lemma rank_le2 id s : (rank id s <= 2)%nat.
Proof. unfold rank. destruct (find_call id s) as [cs|]; [destruct (cs_phase cs)|]; lia. Qed.

(* what is still allowed for call id after this segment *)
Definition budget (id : nat) (o : list obs) (s' : state) : Prop :=
  (length (fb_invocations id o) + (rank id s' - 1) <= 1)%nat /\
  (length (returns id o) + Nat.min 1 (rank id s') <= 1)%nat.

Lemma budget_pre id pre o s' : quiet pre -> budget id o s' -> budget id (pre ++ o) s'.
Proof. unfold budget. intros Hq. rewrite fbi_app, ret_app, (quiet_fbi _ _ Hq), (quiet_ret _ _ Hq). simpl. tauto. Qed.

Lemma fallback_stage_summary st cs err ran derived s :
  let id := cs_id cs in
  let p := fallback_stage st cs err ran derived s in
  shaped id (snd p) /\ (forall j, j <> id -> find_call j (fst p) = find_call j s) /\
  run_invocations id (snd p) = [] /\ budget id (snd p) (fst p).
Proof.
  cbv zeta. split; [apply fallback_stage_shaped|].
  split; [intros j Hj; apply fallback_stage_other; congruence|].
  pose proof (fallback_stage_proj st cs err ran derived s) as HP. cbv zeta in HP.
  destruct HP as [HR HP]. split; [exact HR|].
  pose proof (fallback_stage_cases st cs err ran derived s) as HC. cbv zeta in HC.
  unfold budget.
  destruct (fb_available s (cs_call cs)); [destruct (fb_limit_hit s)|]; destruct HP as [H1 H2]; rewrite H1, H2, HC; cbn [fst].
  - rewrite rank_drop_same. simpl. lia.
  - match goal with |- context [put_call ?c ?s] => pose proof (rank_put_same c s) as Hr; cbn [cs_id cs_phase] in Hr; rewrite Hr end.
    simpl. lia.
  - rewrite rank_drop_same. simpl. lia.
Qed.

Lemma begin_call_nil st id c s :
  enabled st s -> c_has_run c = false -> begin_call st id c s = (s, [OReturned id VNil false]).
Proof. intros [Hm Hd] Hr. unfold begin_call. rewrite Hm, Hd, Hr. reflexivity. Qed.

Lemma begin_summary st id c s :
  let p := begin_call st id c s in
  shaped id (snd p) /\ (forall j, j <> id -> find_call j (fst p) = find_call j s) /\
  (find_call id s = None -> (length (run_invocations id (snd p)) <= 1)%nat /\ budget id (snd p) (fst p)).
Proof.
  cbv zeta. destruct (mode_cases st s) as [Hp | He].
  { rewrite (begin_call_pass st id c s Hp). cbn [fst snd]. split; [repeat constructor|].
    split; [intros j Hj; apply find_put_other; cbn; congruence|].
    intros _. unfold budget. pose proof (rank_put_same (cs_pass id c) s) as Hr. cbn in Hr. rewrite Hr.
    simpl. rewrite Nat.eqb_refl. simpl. lia. }
  destruct (c_has_run c) eqn:Hr.
  2:{ rewrite (begin_call_nil st id c s He Hr). cbn [fst snd]. split; [repeat constructor|].
      split; [reflexivity|]. intros Hn. unfold budget, rank. rewrite Hn. simpl. rewrite Nat.eqb_refl. simpl. lia. }
  destruct (begin_call_cases st id c s He Hr) as (s1 & o1 & Hq & Ha & E). rewrite E. cbv zeta.
  destruct Ha as (Hcfg & _ & _ & Hfbs & _ & Hcalls & _).
  assert (refused : forall s2 err pre, calls s2 = calls s -> quiet pre ->
    let p := (let (s3, o3) := fallback_stage st (cs_pass id c) err false false s2 in (s3, pre ++ o3)) in
    shaped id (snd p) /\ (forall j, j <> id -> find_call j (fst p) = find_call j s) /\
    (find_call id s = None -> (length (run_invocations id (snd p)) <= 1)%nat /\ budget id (snd p) (fst p))).
  { intros s2 err pre Hc2 Hqp. cbv zeta.
    pose proof (fallback_stage_summary st (cs_pass id c) err false false s2) as HS. cbv zeta in HS.
    cbn [cs_id cs_pass] in HS.
    destruct (fallback_stage st (cs_pass id c) err false false s2) as [s3 o3]. cbn [fst snd] in *.
    destruct HS as (Hs & Hf & Hri & Hb).
    split; [apply shaped_app; [apply quiet_shaped; exact Hqp | exact Hs]|].
    split; [intros j Hj; rewrite (Hf j Hj); apply find_call_calls; exact Hc2|].
    intros _. split; [rewrite ri_app, (quiet_ri _ _ Hqp), Hri; simpl; lia|].
    apply budget_pre; assumption. }
  destruct (gate s c).
  - pose proof (emit_run_inert st KShort (clock s) None s1) as HI.
    destruct (emit_run st KShort (clock s) None s1) as [s2 o2].
    destruct HI as (Hc2 & _ & _ & _ & _ & Hq2); cbn [fst snd] in *.
    specialize (refused s2 VCircuitOpen (o1 ++ o2)). cbv zeta in refused.
    destruct (fallback_stage st (cs_pass id c) VCircuitOpen false false s2) as [s3 o3].
    rewrite app_assoc. apply refused; [congruence | quiet_tac].
  - specialize (refused s1 VCircuitOpen (o1 ++ [OAsked QPrevent (clock s)])). cbv zeta in refused.
    destruct (fallback_stage st (cs_pass id c) VCircuitOpen false false s1) as [s3 o3].
    replace (o1 ++ OAsked QPrevent (clock s) :: o3) with ((o1 ++ [OAsked QPrevent (clock s)]) ++ o3)
      by (rewrite <- app_assoc; reflexivity).
    apply refused; [congruence | quiet_tac].
  - pose proof (emit_run_inert st KReject (clock s) None s1) as HI.
    destruct (emit_run st KReject (clock s) None s1) as [s2 o2].
    destruct HI as (Hc2 & _ & _ & _ & _ & Hq2); cbn [fst snd] in *.
    specialize (refused s2 VThrottled (o1 ++ OAsked QPrevent (clock s) :: o2)). cbv zeta in refused.
    destruct (fallback_stage st (cs_pass id c) VThrottled false false s2) as [s3 o3].
    replace (o1 ++ OAsked QPrevent (clock s) :: o2 ++ o3) with ((o1 ++ OAsked QPrevent (clock s) :: o2) ++ o3)
      by (rewrite <- app_assoc; reflexivity).
    apply refused; [congruence | quiet_tac].
  - cbn [fst snd]. split.
    { apply shaped_app; [apply quiet_shaped; exact Hq|]. repeat constructor. }
    split; [intros j Hj; rewrite find_put_other by (cbn; congruence); apply find_call_calls; exact Hcalls|].
    intros _. rewrite ri_app, (quiet_ri _ _ Hq). apply and_comm. split; [apply budget_pre; [exact Hq|]|].
    + unfold budget.
      match goal with |- context [put_call ?c ?s] => pose proof (rank_put_same c s) as Hrk; cbn [cs_id cs_phase] in Hrk; rewrite Hrk end.
      simpl. lia.
    + simpl. rewrite Nat.eqb_refl. simpl. lia.
Qed.

Lemma end_run_summary st id e s :
  let p := end_run st id e s in
  shaped id (snd p) /\ (forall j, j <> id -> find_call j (fst p) = find_call j s) /\
  run_invocations id (snd p) = [] /\
  (length (fb_invocations id (snd p)) + (rank id (fst p) - 1) <= rank id s - 1)%nat /\
  (length (returns id (snd p)) + Nat.min 1 (rank id (fst p)) <= Nat.min 1 (rank id s))%nat.
Proof.
  cbv zeta.
  assert (idle : shaped id (@nil obs) /\ (forall j, j <> id -> find_call j s = find_call j s) /\
    run_invocations id [] = [] /\
    (length (fb_invocations id []) + (rank id s - 1) <= rank id s - 1)%nat /\
    (length (returns id []) + Nat.min 1 (rank id s) <= Nat.min 1 (rank id s))%nat).
  { split; [constructor|]. split; [reflexivity|]. simpl. split; [reflexivity|]. lia. }
  destruct (find_call id s) as [cs|] eqn:Hf.
  2:{ unfold end_run; rewrite Hf. exact idle. }
  assert (Hrk : forall a b c, cs_phase cs = PRun a b c \/ cs_phase cs = PPass -> rank id s = 2%nat).
  { intros a b c H. unfold rank. rewrite Hf. destruct H as [H|H]; rewrite H; reflexivity. }
  destruct (cs_phase cs) as [start expected derived| |fbstart ran derived] eqn:Hp.
  3:{ unfold end_run; rewrite Hf, Hp. exact idle. }
  2:{ unfold end_run; rewrite Hf, Hp. cbn [fst snd]. rewrite (Hrk 0 None false) by auto.
      split; [repeat constructor|]. split; [intros j Hj; apply find_drop_other; congruence|].
      rewrite rank_drop_same. simpl. rewrite Nat.eqb_refl. simpl. split; [reflexivity|]. lia. }
  rewrite (Hrk start expected derived) by auto.
  destruct (res_panics (e_res e)) eqn:Hr.
  { destruct (e_res e) as [| | | |v] eqn:Er; try discriminate.
    rewrite (end_run_panic st id e s cs start expected derived v Hf Hp Er). cbn [fst snd].
    split; [repeat constructor|]. split; [intros j Hj; rewrite find_drop_other by congruence; reflexivity|].
    rewrite rank_drop_same. simpl. rewrite Nat.eqb_refl. simpl. split; [reflexivity|]. lia. }
  rewrite (end_run_PRun st id e s cs start expected derived Hf Hp Hr). cbv zeta.
  match goal with |- context [run_fanout ?a ?b ?c ?d ?e ?f ?g ?h] =>
    pose proof (run_fanout_inert a b c d e f g h) as HI; destruct (run_fanout a b c d e f g h) as [s1 o1] end.
  destruct HI as (Hcalls & _ & _ & _ & _ & Hq); cbn [fst snd] in Hcalls, Hq.
  assert (direct : forall v a,
    let p := (drop_call id (set_cmds s1 (cmds s1 - 1)), ORunEnd id (cs_done cs) :: o1 ++ [OReturned id v a]) in
    shaped id (snd p) /\ (forall j, j <> id -> find_call j (fst p) = find_call j s) /\
    run_invocations id (snd p) = [] /\
    (length (fb_invocations id (snd p)) + (rank id (fst p) - 1) <= 2 - 1)%nat /\
    (length (returns id (snd p)) + Nat.min 1 (rank id (fst p)) <= Nat.min 1 2)%nat).
  { intros v a. cbv zeta. cbn [fst snd].
    split; [apply shaped_cons; [reflexivity|]; apply shaped_app; [apply quiet_shaped; exact Hq | repeat constructor]|].
    split; [intros j Hj; rewrite find_drop_other by congruence; apply find_call_calls; exact Hcalls|].
    rewrite rank_drop_same, ri_runend, fbi_runend, ret_runend, ri_app, fbi_app, ret_app, ret_one.
    rewrite (quiet_ri _ _ Hq), (quiet_fbi _ _ Hq), (quiet_ret _ _ Hq). simpl. split; [reflexivity|]. lia. }
  destruct (res_is_nil (e_res e)); [apply direct|].
  destruct (res_is_bad (e_res e)); [apply direct|]. clear direct.
  set (s2 := set_cmds s1 (cmds s1 - 1)).
  pose proof (fallback_stage_summary st cs (res_val (e_res e)) true derived s2) as HS. cbv zeta in HS.
  rewrite (find_call_id _ _ _ Hf) in HS.
  destruct (fallback_stage st cs (res_val (e_res e)) true derived s2) as [s3 o3]. cbn [fst snd] in *.
  destruct HS as (Hs & Hfo & Hri & Hb1 & Hb2).
  split; [apply shaped_cons; [reflexivity|]; apply shaped_app; [apply quiet_shaped; exact Hq | exact Hs]|].
  split; [intros j Hj; rewrite (Hfo j Hj); apply find_call_calls; exact Hcalls|].
  rewrite ri_runend, fbi_runend, ret_runend, ri_app, fbi_app, ret_app.
  rewrite (quiet_ri _ _ Hq), (quiet_fbi _ _ Hq), (quiet_ret _ _ Hq). cbn [app].
  split; [exact Hri|]. lia.
Qed.

Lemma end_fb_summary st id f s :
  let p := end_fb st id f s in
  shaped id (snd p) /\ (forall j, j <> id -> find_call j (fst p) = find_call j s) /\
  run_invocations id (snd p) = [] /\
  (length (fb_invocations id (snd p)) + (rank id (fst p) - 1) <= rank id s - 1)%nat /\
  (length (returns id (snd p)) + Nat.min 1 (rank id (fst p)) <= Nat.min 1 (rank id s))%nat.
Proof.
  cbv zeta.
  assert (idle : shaped id (@nil obs) /\ (forall j, j <> id -> find_call j s = find_call j s) /\
    run_invocations id [] = [] /\
    (length (fb_invocations id []) + (rank id s - 1) <= rank id s - 1)%nat /\
    (length (returns id []) + Nat.min 1 (rank id s) <= Nat.min 1 (rank id s))%nat).
  { split; [constructor|]. split; [reflexivity|]. simpl. split; [reflexivity|]. lia. }
  destruct (find_call id s) as [cs|] eqn:Hf.
  2:{ unfold end_fb; rewrite Hf. exact idle. }
  destruct (cs_phase cs) as [start expected derived| |fbstart ran derived] eqn:Hp.
  1,2: unfold end_fb; rewrite Hf, Hp; exact idle.
  assert (Hrk : rank id s = 1%nat) by (unfold rank; rewrite Hf, Hp; reflexivity).
  destruct (end_fb_PFb st id f s cs fbstart ran derived Hf Hp) as (pre & Hq & E). rewrite E, Hrk. cbn [fst snd].
  split; [apply shaped_app; [apply quiet_shaped; exact Hq | repeat constructor]|].
  split; [intros j Hj; rewrite find_drop_other by congruence; reflexivity|].
  rewrite rank_drop_same, ri_app, fbi_app, ret_app, ret_one.
  rewrite (quiet_ri _ _ Hq), (quiet_fbi _ _ Hq), (quiet_ret _ _ Hq). simpl. split; [reflexivity|]. lia.
Qed.

Lemma rank_cancel i j s : rank j (cancel_call i s) = rank j s.
Proof.
  unfold cancel_call. destruct (find_call i s) as [cs|] eqn:Hf; [|reflexivity].
  destruct (Nat.eq_dec i j) as [->|Hn].
  - match goal with |- context [put_call ?c ?s] => pose proof (rank_put_same c s) as Hr; cbn [cs_id cs_phase] in Hr; rewrite Hr end.
    unfold rank. rewrite Hf. destruct (cs_phase cs); reflexivity.
  - apply rank_find, find_put_other. cbn. exact Hn.
Qed.

(* the shape of every segment *)
Lemma step_core_shape st s ev :
  let p := step_core st s ev in
  match event_id ev with
  | Some i => shaped i (snd p) /\ forall j, j <> i -> find_call j (fst p) = find_call j s
  | None => quiet (snd p) /\ forall j, rank j (fst p) = rank j s
  end.
Proof.
  cbv zeta. destruct ev as [id c|id e|id f|id| | |l|d|k]; cbn [event_id step_core].
  - pose proof (begin_summary st id c s) as H. cbv zeta in H. tauto.
  - pose proof (end_run_summary st id e s) as H. cbv zeta in H. tauto.
  - pose proof (end_fb_summary st id f s) as H. cbv zeta in H. tauto.
  - cbn [fst snd]. split; [constructor|]. intros j; apply rank_cancel.
  - pose proof (open_circuit_inert st (clock s) s) as (Hc & _ & _ & _ & _ & Hq).
    split; [exact Hq|]. intros j; apply rank_calls; exact Hc.
  - pose proof (close_circuit_inert st (clock s) true false s) as (Hc & _ & _ & _ & _ & Hq).
    split; [exact Hq|]. intros j; apply rank_calls; exact Hc.
  - cbn [fst snd]. split; [constructor|]. reflexivity.
  - cbn [fst snd]. split; [constructor|]. reflexivity.
  - cbn [fst snd]. split; [constructor|]. reflexivity.
Qed.

Lemma step_fst_snd st s ev :
  step st s ev = (fst (step_core st s ev), snd (step_core st s ev) ++ [reading st (fst (step_core st s ev))]).
Proof. unfold step. destruct (step_core st s ev); reflexivity. Qed.

(* one segment that is not the Begin of call id *)
Lemma step_rank st id s ev :
  is_begin id ev = false ->
  let p := step st s ev in
  run_invocations id (snd p) = [] /\
  (length (fb_invocations id (snd p)) + (rank id (fst p) - 1) <= rank id s - 1)%nat /\
  (length (returns id (snd p)) + Nat.min 1 (rank id (fst p)) <= Nat.min 1 (rank id s))%nat.
Proof.
  intros Hb. cbv zeta. rewrite step_fst_snd. cbn [fst snd].
  rewrite ri_app, fbi_app, ret_app.
  rewrite (quiet_ri _ _ (quiet_reading _ _)), (quiet_fbi _ _ (quiet_reading _ _)), (quiet_ret _ _ (quiet_reading _ _)).
  rewrite !app_nil_r.
  set (p := step_core st s ev).
  assert (other : forall i, i <> id -> shaped i (snd p) ->
            (forall j, j <> i -> find_call j (fst p) = find_call j s) ->
    run_invocations id (snd p) = [] /\
    (length (fb_invocations id (snd p)) + (rank id (fst p) - 1) <= rank id s - 1)%nat /\
    (length (returns id (snd p)) + Nat.min 1 (rank id (fst p)) <= Nat.min 1 (rank id s))%nat).
  { intros i Hn Hs Hf.
    rewrite (shaped_other_ri i id _ Hs Hn), (shaped_other_fbi i id _ Hs Hn), (shaped_other_ret i id _ Hs Hn).
    rewrite (rank_find id s _ (Hf id (not_eq_sym Hn))). cbn [length]. split; [reflexivity|]. lia. }
  assert (silent : quiet (snd p) -> (forall j, rank j (fst p) = rank j s) ->
    run_invocations id (snd p) = [] /\
    (length (fb_invocations id (snd p)) + (rank id (fst p) - 1) <= rank id s - 1)%nat /\
    (length (returns id (snd p)) + Nat.min 1 (rank id (fst p)) <= Nat.min 1 (rank id s))%nat).
  { intros Hq Hr. rewrite (quiet_ri _ _ Hq), (quiet_fbi _ _ Hq), (quiet_ret _ _ Hq), Hr. cbn [length].
    split; [reflexivity|]. lia. }
  pose proof (step_core_shape st s ev) as HS. cbv zeta in HS. fold p in HS.
  destruct ev as [i c|i e|i f|i| | |l|d|k]; cbn [event_id is_begin] in HS, Hb;
    try (destruct HS as [HS1 HS2]; apply silent; assumption).
  - destruct HS as [H1 H2]. apply (other i); auto. intros ->. rewrite Nat.eqb_refl in Hb. discriminate.
  - destruct (Nat.eq_dec i id) as [->|Hn]; [|destruct HS as [H1 H2]; apply (other i); auto].
    subst p. cbn [step_core]. pose proof (end_run_summary st id e s) as H. cbv zeta in H. tauto.
  - destruct (Nat.eq_dec i id) as [->|Hn]; [|destruct HS as [H1 H2]; apply (other i); auto].
    subst p. cbn [step_core]. pose proof (end_fb_summary st id f s) as H. cbv zeta in H. tauto.
Qed.

Lemma all_obs_cons st s ev h :
  all_obs (trace_from st s (ev :: h)) = snd (step st s ev) ++ all_obs (trace_from st (fst (step st s ev)) h).
Proof. cbn [trace_from]. destruct (step st s ev) as [s1 o]. reflexivity. Qed.

Lemma rest_bound st id : forall h s,
  ~ In id (begin_ids h) ->
  let o := all_obs (trace_from st s h) in
  run_invocations id o = [] /\
  (length (fb_invocations id o) <= rank id s - 1)%nat /\
  (length (returns id o) <= Nat.min 1 (rank id s))%nat.
Proof.
  induction h as [|ev h IH]; intros s Hn; cbv zeta.
  { simpl. split; [reflexivity|]. lia. }
  assert (Hb : is_begin id ev = false).
  { destruct ev; try reflexivity. cbn [is_begin]. destruct (Nat.eqb_spec id0 id); [|reflexivity].
    exfalso; apply Hn. subst. cbn. left; reflexivity. }
  assert (Hn' : ~ In id (begin_ids h)).
  { intros H; apply Hn. unfold begin_ids in *. cbn [flat_map]. apply in_or_app; right; exact H. }
  rewrite all_obs_cons, ri_app, fbi_app, ret_app, !app_length.
  pose proof (step_rank st id s ev Hb) as (H1 & H2 & H3).
  specialize (IH (fst (step st s ev)) Hn'). cbv zeta in IH. destruct IH as (I1 & I2 & I3).
  rewrite H1, I1. split; [reflexivity|]. lia.
Qed.

Lemma at_most_once (st : static) : forall s id c h2,
  find_call id s = None -> ~ In id (begin_ids h2) ->
  let o := all_obs (trace_from st s (Begin id c :: h2)) in
  (length (run_invocations id o) <= 1)%nat /\ (length (fb_invocations id o) <= 1)%nat /\
  (length (returns id o) <= 1)%nat.
Proof.
  intros s id c h2 Hf Hn. cbv zeta.
  rewrite all_obs_cons, ri_app, fbi_app, ret_app, !app_length.
  pose proof (rest_bound st id h2 (fst (step st s (Begin id c))) Hn) as (I1 & I2 & I3).
  rewrite I1. rewrite step_fst_snd in *. cbn [fst snd step_core] in *.
  pose proof (begin_summary st id c s) as (_ & _ & HB). specialize (HB Hf). destruct HB as (B1 & B2 & B3).
  rewrite ri_app, fbi_app, ret_app, !app_length.
  rewrite (quiet_ri _ _ (quiet_reading _ _)), (quiet_fbi _ _ (quiet_reading _ _)), (quiet_ret _ _ (quiet_reading _ _)).
  simpl. lia.
Qed.

(* ================================================================== *)
(* 9. Run(ctx, f) = Execute(ctx, f, nil)                                *)
(* ================================================================== *)

(* Forget how a call was entered, keeping only whether it has a usable fallback.
   The model commutes with this erasure and the observations are unchanged. *)
Definition erase_call (c : call) : call :=
  {| c_has_run := c_has_run c; c_has_fb := has_fb_eff c; c_entry := EExecute; c_deadline := c_deadline c;
     c_done := c_done c; c_allow := c_allow c; c_prevent := c_prevent c |}.
Definition erase_cs (cs : callst) : callst :=
  {| cs_id := cs_id cs; cs_call := erase_call (cs_call cs); cs_phase := cs_phase cs; cs_done := cs_done cs |}.
Definition erase_state (s : state) : state := set_calls s (map erase_cs (calls s)).
Definition erase_ev (ev : event) : event :=
  match ev with Begin id c => Begin id (erase_call c) | _ => ev end.

Lemma find_map {A B} (g : A -> B) (p : B -> bool) l : find p (map g l) = option_map g (find (fun x => p (g x)) l).
Proof. induction l as [|x l IH]; [reflexivity|]. simpl. destruct (p (g x)); [reflexivity | exact IH]. Qed.
Lemma filter_map_comm {A B} (g : A -> B) (p : B -> bool) l : filter p (map g l) = map g (filter (fun x => p (g x)) l).
Proof. induction l as [|x l IH]; [reflexivity|]. simpl. destruct (p (g x)); simpl; rewrite IH; reflexivity. Qed.

Lemma find_erase id s : find_call id (erase_state s) = option_map erase_cs (find_call id s).
Proof. unfold find_call, erase_state; cbn [calls set_calls]. apply find_map. Qed.
Lemma drop_erase id s : drop_call id (erase_state s) = erase_state (drop_call id s).
Proof.
  unfold drop_call, erase_state; cbn [calls set_calls cfg flag cmds fbs opn cls clock].
  rewrite filter_map_comm. reflexivity.
Qed.
Lemma put_erase c s : put_call (erase_cs c) (erase_state s) = erase_state (put_call c s).
Proof.
  unfold put_call, erase_state; cbn [calls set_calls cfg flag cmds fbs opn cls clock map].
  rewrite filter_map_comm. reflexivity.
Qed.

(* f commutes with the erasure *)
Definition commutes (f : state -> state * list obs) : Prop :=
  forall s, f (erase_state s) = (erase_state (fst (f s)), snd (f s)).

Lemma emit_run_comm st k t d : commutes (emit_run st k t d).
Proof. intros s. reflexivity. Qed.
Lemma emit_circ_comm st k t : commutes (emit_circ st k t).
Proof.
  intros s. unfold emit_circ. cbn [cls erase_state set_calls].
  destruct (closer_circ t (cls s)) as [c1 timers]. reflexivity.
Qed.
Lemma is_open_erase s : is_open (erase_state s) = is_open s.
Proof. reflexivity. Qed.

Lemma open_circuit_comm st now : commutes (open_circuit st now).
Proof.
  intros s. unfold open_circuit. rewrite is_open_erase. cbn [cfg erase_state set_calls].
  destruct (l_forced_closed (cfg s)); [reflexivity|]. destruct (is_open s); [reflexivity|].
  change (set_calls s (map erase_cs (calls s))) with (erase_state s). rewrite emit_circ_comm.
  destruct (emit_circ st Opened now s) as [s1 o]. reflexivity.
Qed.

Lemma close_circuit_comm st now force ans : commutes (close_circuit st now force ans).
Proof.
  intros s. unfold close_circuit. rewrite is_open_erase. cbn [cfg cls erase_state set_calls].
  destruct (negb (is_open s)); [reflexivity|]. destruct (l_force_open (cfg s)); [reflexivity|].
  change (set_calls s (map erase_cs (calls s))) with (erase_state s).
  destruct force; [rewrite emit_circ_comm; destruct (emit_circ st Closed now s) as [s1 o]; reflexivity|].
  destruct (closer_should_close ans (cls s)); [|reflexivity].
  rewrite emit_circ_comm; destruct (emit_circ st Closed now s) as [s1 o]; reflexivity.
Qed.

Lemma attempt_to_open_comm st now ans : commutes (attempt_to_open st now ans).
Proof.
  intros s. unfold attempt_to_open. rewrite is_open_erase. cbn [cfg cls opn erase_state set_calls].
  destruct (l_forced_closed (cfg s)); [reflexivity|]. destruct (is_open s); [reflexivity|].
  destruct (opener_should_open now ans (opn s)) as [o1 b].
  destruct b; [|reflexivity].
  change (set_logic (erase_state s) o1 (cls s)) with (erase_state (set_logic s o1 (cls s))).
  rewrite open_circuit_comm. destruct (open_circuit st now (set_logic s o1 (cls s))) as [s2 o]. reflexivity.
Qed.

Lemma run_fanout_comm st e r now dur to intr : commutes (run_fanout st e r now dur to intr).
Proof.
  intros s. unfold run_fanout.
  destruct (res_is_bad r); [apply emit_run_comm|].
  destruct to.
  { rewrite emit_run_comm. destruct (emit_run st KTimeout now (Some dur) s) as [sa oa]. cbn [fst snd].
    rewrite is_open_erase. destruct (negb (is_open sa)); [|reflexivity].
    rewrite attempt_to_open_comm. destruct (attempt_to_open st now (e_should_open e) sa); reflexivity. }
  destruct intr; [apply emit_run_comm|].
  destruct (negb (res_is_nil r)).
  { rewrite emit_run_comm. destruct (emit_run st KFailure now (Some dur) s) as [sa oa]. cbn [fst snd].
    rewrite is_open_erase. destruct (negb (is_open sa)); [|reflexivity].
    rewrite attempt_to_open_comm. destruct (attempt_to_open st now (e_should_open e) sa); reflexivity. }
  rewrite emit_run_comm. destruct (emit_run st KSuccess now (Some dur) s) as [sa oa]. cbn [fst snd].
  rewrite is_open_erase. destruct (is_open sa); [|reflexivity].
  rewrite close_circuit_comm. destruct (close_circuit st now false (e_should_close e) sa); reflexivity.
Qed.

Lemma has_fb_eff_erase c : has_fb_eff (erase_call c) = has_fb_eff c.
Proof. reflexivity. Qed.

Lemma fallback_stage_comm st cs err ran derived s :
  fallback_stage st (erase_cs cs) err ran derived (erase_state s) =
  (erase_state (fst (fallback_stage st cs err ran derived s)), snd (fallback_stage st cs err ran derived s)).
Proof.
  unfold fallback_stage. cbn [cs_id cs_call cs_done erase_cs]. rewrite has_fb_eff_erase.
  cbn [cfg fbs clock erase_state set_calls].
  change (set_calls s (map erase_cs (calls s))) with (erase_state s).
  destruct (negb (has_fb_eff (cs_call cs)) || l_fb_disabled (cfg s)).
  { cbn [fst snd]. rewrite drop_erase. reflexivity. }
  destruct ((0 <=? l_fb_max (cfg s)) && (l_fb_max (cfg s) <? fbs s + 1)).
  { cbn [fst snd]. rewrite drop_erase. reflexivity. }
  cbn [fst snd]. rewrite <- put_erase. reflexivity.
Qed.

(* Begin after the Allow consultation, verbatim *)
Definition begin_tail (st : static) (id : nat) (c : call) (now : Z) (p : state * bool * list obs) : state * list obs :=
  let cs0 := {| cs_id := id; cs_call := c; cs_phase := PPass; cs_done := c_done c |} in
  let '(s1, admitted, o1) := p in
  if negb admitted then
    let (s2, o2) := emit_run st KShort now None s1 in
    let (s3, o3) := fallback_stage st cs0 VCircuitOpen false false s2 in
    (s3, o1 ++ o2 ++ o3)
  else if opener_prevent (c_prevent c) (opn s1) then
    let (s3, o3) := fallback_stage st cs0 VCircuitOpen false false s1 in
    (s3, o1 ++ OAsked QPrevent now :: o3)
  else
    let n := cmds s1 + 1 in
    if (0 <=? l_max (cfg s1)) && (l_max (cfg s1) <? n) then
      let (s2, o2) := emit_run st KReject now None s1 in
      let (s3, o3) := fallback_stage st cs0 VThrottled false false s2 in
      (s3, o1 ++ OAsked QPrevent now :: o2 ++ o3)
    else
      let derived := 0 <? l_timeout (cfg s1) in
      let expected := if derived then Some (now + l_timeout (cfg s1)) else None in
      let dl := if derived then Some (min_deadline (c_deadline c) (now + l_timeout (cfg s1))) else c_deadline c in
      (put_call {| cs_id := id; cs_call := c; cs_phase := PRun now expected derived; cs_done := c_done c |}
                (set_cmds s1 n),
       o1 ++ [OAsked QPrevent now; ORunInvoked id derived dl]).

Lemma begin_call_tail st id c s :
  enabled st s -> c_has_run c = true ->
  begin_call st id c s =
  begin_tail st id c (clock s)
    (if negb (is_open s) then (s, true, [])
     else if l_force_open (cfg s) then (s, false, [])
     else let '(cl1, b, timers) := closer_allow (clock s) (c_allow c) (cls s) in
          (set_logic s (opn s) cl1, b, OAsked QAllow (clock s) :: map OTimer timers)).
Proof. intros [Hm Hd] Hr. unfold begin_call. rewrite Hm, Hd, Hr. reflexivity. Qed.

Lemma begin_tail_comm st id c now s1 adm o1 :
  begin_tail st id (erase_call c) now (erase_state s1, adm, o1) =
  (erase_state (fst (begin_tail st id c now (s1, adm, o1))), snd (begin_tail st id c now (s1, adm, o1))).
Proof.
  unfold begin_tail. cbv zeta. cbn [c_done c_prevent c_deadline erase_call].
  change {| cs_id := id; cs_call := erase_call c; cs_phase := PPass; cs_done := c_done c |}
    with (erase_cs (cs_pass id c)).
  change {| cs_id := id; cs_call := c; cs_phase := PPass; cs_done := c_done c |} with (cs_pass id c).
  destruct adm; cbn [negb].
  2:{ rewrite emit_run_comm. destruct (emit_run st KShort now None s1) as [s2 o2]. cbn [fst snd].
      rewrite fallback_stage_comm. destruct (fallback_stage st (cs_pass id c) VCircuitOpen false false s2); reflexivity. }
  cbn [opn cfg cmds erase_state set_calls]. change (set_calls s1 (map erase_cs (calls s1))) with (erase_state s1).
  destruct (opener_prevent (c_prevent c) (opn s1)).
  { rewrite fallback_stage_comm. destruct (fallback_stage st (cs_pass id c) VCircuitOpen false false s1); reflexivity. }
  destruct ((0 <=? l_max (cfg s1)) && (l_max (cfg s1) <? cmds s1 + 1)).
  { rewrite emit_run_comm. destruct (emit_run st KReject now None s1) as [s2 o2]. cbn [fst snd].
      rewrite fallback_stage_comm. destruct (fallback_stage st (cs_pass id c) VThrottled false false s2); reflexivity. }
  cbn [fst snd]. rewrite <- put_erase. reflexivity.
Qed.

Lemma begin_call_comm st id c s :
  begin_call st id (erase_call c) (erase_state s) =
  (erase_state (fst (begin_call st id c s)), snd (begin_call st id c s)).
Proof.
  destruct (mode_cases st s) as [Hp | He].
  { assert (Hp' : passthrough st (erase_state s)) by exact Hp.
    rewrite (begin_call_pass st id c s Hp), (begin_call_pass st id (erase_call c) (erase_state s) Hp').
    cbn [fst snd]. rewrite <- put_erase. reflexivity. }
  assert (He' : enabled st (erase_state s)) by exact He.
  destruct (c_has_run c) eqn:Hr.
  2:{ rewrite (begin_call_nil st id c s He Hr), (begin_call_nil st id (erase_call c) (erase_state s) He' Hr). reflexivity. }
  rewrite (begin_call_tail st id c s He Hr), (begin_call_tail st id (erase_call c) (erase_state s) He' Hr).
  rewrite is_open_erase. cbn [clock cfg cls opn c_allow erase_call erase_state set_calls].
  change (set_calls s (map erase_cs (calls s))) with (erase_state s).
  destruct (negb (is_open s)); [apply begin_tail_comm|].
  destruct (l_force_open (cfg s)); [apply begin_tail_comm|].
  destruct (closer_allow (clock s) (c_allow c) (cls s)) as [[cl1 b] timers].
  change (set_logic (erase_state s) (opn s) cl1) with (erase_state (set_logic s (opn s) cl1)).
  apply begin_tail_comm.
Qed.

Lemma end_run_comm st id e s :
  end_run st id e (erase_state s) = (erase_state (fst (end_run st id e s)), snd (end_run st id e s)).
Proof.
  destruct (find_call id s) as [cs|] eqn:Hf.
  2:{ unfold end_run. rewrite find_erase, Hf. reflexivity. }
  assert (Hf' : find_call id (erase_state s) = Some (erase_cs cs)) by (rewrite find_erase, Hf; reflexivity).
  destruct (cs_phase cs) as [start expected derived| |fbstart ran derived] eqn:Hp.
  3:{ unfold end_run. rewrite Hf', Hf. cbn [cs_phase erase_cs]. rewrite Hp. reflexivity. }
  2:{ unfold end_run. rewrite Hf', Hf. cbn [cs_phase cs_done erase_cs]. rewrite Hp. cbn [fst snd].
      rewrite drop_erase. reflexivity. }
  assert (Hp' : cs_phase (erase_cs cs) = PRun start expected derived) by exact Hp.
  destruct (res_panics (e_res e)) eqn:Hr.
  { destruct (e_res e) as [| | | |v] eqn:Er; try discriminate.
    rewrite (end_run_panic st id e s cs start expected derived v Hf Hp Er).
    rewrite (end_run_panic st id e (erase_state s) (erase_cs cs) start expected derived v Hf' Hp' Er).
    cbn [fst snd]. change (set_cmds (erase_state s) (cmds (erase_state s) - 1)) with (erase_state (set_cmds s (cmds s - 1))).
    rewrite drop_erase. reflexivity. }
  rewrite (end_run_PRun st id e s cs start expected derived Hf Hp Hr).
  rewrite (end_run_PRun st id e (erase_state s) (erase_cs cs) start expected derived Hf' Hp' Hr).
  cbv zeta. cbn [clock cfg cs_done erase_cs erase_state set_calls].
  change (set_calls s (map erase_cs (calls s))) with (erase_state s).
  rewrite run_fanout_comm.
  match goal with |- context [run_fanout ?a ?b ?c ?d ?e ?f ?g s] => destruct (run_fanout a b c d e f g s) as [s1 o1] end.
  cbn [fst snd].
  change (set_cmds (erase_state s1) (cmds (erase_state s1) - 1)) with (erase_state (set_cmds s1 (cmds s1 - 1))).
  unfold run_after. cbn [cs_done erase_cs].
  destruct (res_is_nil (e_res e)); [cbn [fst snd]; rewrite drop_erase; reflexivity|].
  destruct (res_is_bad (e_res e)); [cbn [fst snd]; rewrite drop_erase; reflexivity|].
  rewrite fallback_stage_comm.
  destruct (fallback_stage st cs (res_val (e_res e)) true derived (set_cmds s1 (cmds s1 - 1))); reflexivity.
Qed.

Lemma end_fb_comm st id f s :
  end_fb st id f (erase_state s) = (erase_state (fst (end_fb st id f s)), snd (end_fb st id f s)).
Proof.
  unfold end_fb. rewrite find_erase. destruct (find_call id s) as [cs|]; [|reflexivity].
  cbn [option_map cs_phase cs_done erase_cs]. destruct (cs_phase cs); try reflexivity.
  change (set_fbs (erase_state s) (fbs (erase_state s) - 1)) with (erase_state (set_fbs s (fbs s - 1))).
  rewrite drop_erase. cbn [clock erase_state set_calls]. destruct f; reflexivity.
Qed.

Lemma cancel_comm id s : cancel_call id (erase_state s) = erase_state (cancel_call id s).
Proof.
  unfold cancel_call. rewrite find_erase. destruct (find_call id s) as [cs|]; [|reflexivity].
  cbn [option_map]. rewrite <- put_erase. reflexivity.
Qed.

Lemma step_core_comm st s ev :
  step_core st (erase_state s) (erase_ev ev) = (erase_state (fst (step_core st s ev)), snd (step_core st s ev)).
Proof.
  destruct ev; cbn [step_core erase_ev fst snd].
  - apply begin_call_comm.
  - apply end_run_comm.
  - apply end_fb_comm.
  - rewrite cancel_comm. reflexivity.
  - apply open_circuit_comm.
  - apply close_circuit_comm.
  - reflexivity.
  - reflexivity.
  - reflexivity.
Qed.

Lemma step_comm st s ev :
  step st (erase_state s) (erase_ev ev) = (erase_state (fst (step st s ev)), snd (step st s ev)).
Proof.
  unfold step. rewrite step_core_comm. destruct (step_core st s ev) as [s1 o]. reflexivity.
Qed.

Lemma trace_erase st : forall h s,
  map snd (trace_from st (erase_state s) (map erase_ev h)) = map snd (trace_from st s h).
Proof.
  induction h as [|ev h IH]; intros s; [reflexivity|].
  cbn [map trace_from]. rewrite step_comm. destruct (step st s ev) as [s1 o]. cbn [fst snd map].
  rewrite IH. reflexivity.
Qed.

Definition as_exec_nil (c : call) : call :=
  {| c_has_run := c_has_run c; c_has_fb := false; c_entry := EExecute; c_deadline := c_deadline c;
     c_done := c_done c; c_allow := c_allow c; c_prevent := c_prevent c |}.

Lemma run_is_execute_nil (st : static) : forall s id c h2,
  c_entry c = ERun ->
  map snd (trace_from st s (Begin id c :: h2)) = map snd (trace_from st s (Begin id (as_exec_nil c) :: h2)).
Proof.
  intros s id c h2 He.
  rewrite <- (trace_erase st (Begin id c :: h2) s), <- (trace_erase st (Begin id (as_exec_nil c) :: h2) s).
  cbn [map erase_ev].
  replace (erase_call (as_exec_nil c)) with (erase_call c); [reflexivity|].
  unfold erase_call, as_exec_nil, has_fb_eff. cbn. rewrite He. reflexivity.
Qed.
