(* Seq/C15_Proofs.v — the representation invariant of the rolling percentile
   model (durationsBucket ring over RollingBuckets.Advance) and its
   consequences (property C15, ring/window part and Mean). *)
From Coq Require Import ZifyBool Sorting.Sorted Sorting.Permutation.
From CV Require Import Base.Prelude Seq.RollingCounter Seq.RollingPercentile Seq.RollingCounter_Proofs.

(* ---------- insertion sort ---------- *)
Lemma insert_sorted_perm x l : Permutation (insert_sorted x l) (x :: l).
Proof.
  induction l as [|y t IH]; cbn [insert_sorted]; [reflexivity|].
  destruct (x <=? y); [reflexivity|].
  rewrite IH. apply perm_swap.
Qed.

Lemma isort_perm l : Permutation (isort l) l.
Proof.
  induction l as [|x l IH]; cbn [isort fold_right]; [reflexivity|].
  fold (isort l). rewrite insert_sorted_perm. constructor. exact IH.
Qed.

Lemma insert_sorted_hdrel y x t : HdRel Z.le y t -> y <= x -> HdRel Z.le y (insert_sorted x t).
Proof.
  intros H Hyx. destruct t as [|z t]; cbn [insert_sorted]; [constructor; exact Hyx|].
  destruct (x <=? z); constructor; [exact Hyx|]. inversion H; assumption.
Qed.

Lemma insert_sorted_sorted x l : Sorted Z.le l -> Sorted Z.le (insert_sorted x l).
Proof.
  induction l as [|y t IH]; intros H; cbn [insert_sorted].
  - repeat constructor.
  - destruct (x <=? y) eqn:E.
    + constructor; [exact H|]. constructor. lia.
    + inversion H as [|? ? Hs Hh]; subst. constructor; [apply IH; exact Hs|].
      apply insert_sorted_hdrel; [exact Hh|lia].
Qed.

Lemma isort_sorted l : Sorted Z.le (isort l).
Proof.
  induction l as [|x l IH]; cbn [isort fold_right]; [constructor|].
  apply insert_sorted_sorted. exact IH.
Qed.

(* ---------- Mean between Min and Max ---------- *)
Lemma zsum_bounds a b l : Forall (fun x => a <= x <= b) l ->
  Z.of_nat (length l) * a <= zsum l <= Z.of_nat (length l) * b.
Proof.
  induction 1 as [|x l Hx _ IH]; [cbn; lia|].
  change (zsum (x :: l)) with (x + zsum l). cbn [length]. lia.
Qed.

Lemma sorted_last_bound l : StronglySorted Z.le l -> forall x, In x l -> x <= List.last l 0.
Proof.
  induction 1 as [|y l Hs IH Hf]; intros x Hx; [destruct Hx|].
  destruct l as [|z l'].
  - destruct Hx as [->|[]]. cbn. lia.
  - change (List.last (y :: z :: l') 0) with (List.last (z :: l') 0).
    destruct Hx as [->|Hx]; [|apply IH; exact Hx].
    rewrite Forall_forall in Hf. specialize (Hf z (or_introl eq_refl)).
    specialize (IH z (or_introl eq_refl)). lia.
Qed.

Lemma quot_between a b S k : 0 < k -> k * a <= S <= k * b -> a <= Z.quot S k <= b.
Proof.
  intros Hk H. pose proof (Z.quot_rem' S k) as E.
  pose proof (Z.rem_bound_abs S k ltac:(lia)) as B. nia.
Qed.

Lemma mean_between : forall s, Sorted Z.le s -> s <> [] -> sd_min s <= sd_mean s <= sd_max s.
Proof.
  intros s Hs Hne. destruct s as [|x s]; [congruence|].
  unfold sd_min, sd_max, sd_mean, godiv.
  apply Sorted_StronglySorted in Hs; [|intros ? ? ?; lia].
  apply quot_between; [cbn [length]; lia|].
  apply zsum_bounds. apply Forall_forall. intros y Hy. split.
  - inversion Hs as [|? ? _ Hf]; subst. destruct Hy as [->|Hy]; [lia|].
    rewrite Forall_forall in Hf. apply Hf; exact Hy.
  - apply sorted_last_bound; assumption.
Qed.

(* ---------- lists as maps over index ranges ---------- *)
Lemma firstn_map_nth {A} (d : A) (l : list A) : forall m, (m <= length l)%nat ->
  firstn m l = map (fun i => nth i l d) (seq 0 m).
Proof.
  induction l as [|x l IH]; intros [|m] H; cbn [length] in *; try reflexivity; try lia.
  cbn [firstn]. rewrite <- cons_seq, <- seq_shift, map_cons, map_map. cbn [nth].
  f_equal. apply IH. lia.
Qed.

Lemma skipn_map_nth {A} (d : A) (l : list A) : forall k,
  skipn k l = map (fun i => nth i l d) (seq k (length l - k)).
Proof.
  induction l as [|x l IH]; intros [|k]; cbn [length skipn]; try reflexivity.
  - change (S (length l) - 0)%nat with (S (length l)).
    rewrite <- cons_seq, <- seq_shift, map_cons, map_map. cbn [nth]. f_equal.
    specialize (IH 0%nat). cbn [skipn] in IH. rewrite Nat.sub_0_r in IH. exact IH.
  - change (S (length l) - S k)%nat with (length l - k)%nat.
    rewrite <- seq_shift, map_map. cbn [nth]. apply IH.
Qed.

Lemma flat_map_map {A B C} (f : B -> list C) (g : A -> B) l :
  flat_map f (map g l) = flat_map (fun x => f (g x)) l.
Proof. induction l as [|x l IH]; cbn [map flat_map]; [reflexivity|]. rewrite IH. reflexivity. Qed.

Lemma flat_map_perm_in {A B} (f g : A -> list B) l :
  (forall x, In x l -> Permutation (f x) (g x)) -> Permutation (flat_map f l) (flat_map g l).
Proof.
  induction l as [|x l IH]; intros H; cbn [flat_map]; [constructor|].
  apply Permutation_app; [apply H; left; reflexivity|]. apply IH. intros y Hy. apply H. right. exact Hy.
Qed.

Lemma NoDup_map_inj_in {A B} (f : A -> B) l :
  (forall x y, In x l -> In y l -> f x = f y -> x = y) -> NoDup l -> NoDup (map f l).
Proof.
  induction l as [|x l IH]; intros Hinj Hnd; cbn [map]; [constructor|].
  inversion Hnd as [|? ? Hx Hl]; subst. constructor.
  - intros Hin. apply in_map_iff in Hin. destruct Hin as (y & Hy & Hyl).
    assert (y = x) by (apply Hinj; [right; exact Hyl|left; reflexivity|exact Hy]). subst y. contradiction.
  - apply IH; [|exact Hl]. intros y z Hy Hz. apply Hinj; right; assumption.
Qed.

(* an injection of an index range of length m into [0, m) enumerates [0, m) *)
Lemma perm_seq_inj (f : nat -> nat) a m :
  (forall p, (a <= p < a + m)%nat -> (f p < m)%nat) ->
  (forall p q, (a <= p < a + m)%nat -> (a <= q < a + m)%nat -> f p = f q -> p = q) ->
  Permutation (map f (seq a m)) (seq 0 m).
Proof.
  intros Hr Hi. apply NoDup_Permutation_bis.
  - apply NoDup_map_inj_in; [|apply seq_NoDup].
    intros x y Hx Hy. apply in_seq in Hx, Hy. apply Hi; lia.
  - rewrite map_length, !seq_length. lia.
  - intros i Hin. apply in_map_iff in Hin. destruct Hin as (p & <- & Hp). apply in_seq in Hp.
    apply in_seq. specialize (Hr p ltac:(lia)). lia.
Qed.

(* ---------- one durationsBucket ---------- *)
Section Bucket.
Variable cap : Z.
Hypothesis Hcap : 0 <= cap.

(* b has capacity cap and has received ds (oldest first) since it was last cleared:
   the value with position p among them sits in cell p mod cap until it is overwritten *)
Definition BRep (ds : list Z) (b : dbucket) : Prop :=
  Z.of_nat (length (db_vals b)) = cap /\
  (cap = 0 \/ db_cur b = Z.of_nat (length ds)) /\
  forall p, 0 <= p < Z.of_nat (length ds) -> Z.of_nat (length ds) - cap <= p ->
    getz (db_vals b) (p mod cap) = getz ds p.

Lemma BRep_empty : BRep [] (db_empty cap).
Proof.
  unfold BRep, db_empty. cbn [db_vals db_cur length]. rewrite repeat_length.
  split; [lia|]. split; [right; reflexivity|]. intros p Hp. lia.
Qed.

Lemma BRep_clear ds b : BRep ds b -> BRep [] (db_clear b).
Proof.
  intros (Hl & _ & _). unfold BRep, db_clear. cbn [db_vals db_cur length].
  split; [exact Hl|]. split; [right; reflexivity|]. intros p Hp. lia.
Qed.

Lemma BRep_add ds b d : BRep ds b -> BRep (ds ++ [d]) (db_add d b).
Proof.
  intros (Hl & Hc & Hp). unfold db_add.
  destruct (Z.of_nat (length (db_vals b)) =? 0) eqn:E0.
  - assert (cap = 0) by lia. split; [exact Hl|]. split; [left; assumption|].
    intros p H1 H2. lia.
  - assert (Hpos : 0 < cap) by lia. destruct Hc as [Hc|Hc]; [lia|].
    unfold BRep. cbn [db_vals db_cur]. rewrite setz_length, app_length. cbn [length].
    split; [exact Hl|]. split; [right; lia|].
    rewrite Hl, Hc. rewrite gomod_nonneg by lia.
    set (len := Z.of_nat (length ds)) in *.
    intros p H1 H2. pose proof (mod_range cap len Hpos) as Hr.
    destruct (Z.eq_dec p len) as [->|Hne].
    + rewrite getz_setz_same by lia. unfold getz, len. rewrite Nat2Z.id.
      rewrite app_nth2 by lia. rewrite Nat.sub_diag. reflexivity.
    + pose proof (mod_range cap p Hpos) as Hr'.
      rewrite getz_setz_other; try lia.
      * rewrite Hp by lia. unfold getz. rewrite app_nth1 by lia. reflexivity.
      * intro Hm. apply Hne. symmetry. apply (mod_eq_close cap); [lia|exact Hm|lia].
Qed.

Lemma BRep_durations ds b : BRep ds b -> Permutation (db_durations b) (lastn (Z.to_nat cap) ds).
Proof.
  intros (Hl & Hc & Hp). unfold db_durations, lastn.
  destruct (Z.eq_dec cap 0) as [E0|E0].
  - rewrite E0. cbn [Z.to_nat]. rewrite Nat.sub_0_r, skipn_all.
    destruct (db_vals b); [|cbn [length] in Hl; lia]. rewrite firstn_nil. constructor.
  - destruct Hc as [Hc|Hc]; [contradiction|]. assert (Hpos : 0 < cap) by lia.
    set (len := length ds) in *. set (c := Z.to_nat cap).
    set (m := Nat.min len c).
    replace (Z.to_nat (Z.min (db_cur b) (Z.of_nat (length (db_vals b))))) with m by lia.
    rewrite (firstn_map_nth 0) by lia.
    rewrite (skipn_map_nth 0). fold len. replace (len - (len - c))%nat with m by lia.
    rewrite (map_ext_in (fun i => nth i ds 0)
              (fun i => nth (Z.to_nat (Z.of_nat i mod cap)) (db_vals b) 0)).
    2:{ intros p Hin. apply in_seq in Hin. specialize (Hp (Z.of_nat p) ltac:(lia) ltac:(lia)).
        unfold getz in Hp. rewrite Nat2Z.id in Hp. symmetry. exact Hp. }
    rewrite <- (map_map (fun i => Z.to_nat (Z.of_nat i mod cap)) (fun i => nth i (db_vals b) 0)).
    apply Permutation_map. symmetry. apply perm_seq_inj.
    + intros p H. pose proof (mod_range cap (Z.of_nat p) Hpos).
      destruct (Nat.le_gt_cases len c).
      * rewrite Z.mod_small by lia. lia.
      * lia.
    + intros p q H1 H2 He.
      pose proof (mod_range cap (Z.of_nat p) Hpos). pose proof (mod_range cap (Z.of_nat q) Hpos).
      assert (Z.of_nat p = Z.of_nat q); [|lia].
      apply (mod_eq_close cap); [lia|lia|lia].
Qed.
End Bucket.

Lemma filter_none {A} (p : A -> bool) l : (forall x, In x l -> p x = false) -> filter p l = [].
Proof.
  induction l as [|x l IH]; intros H; cbn [filter]; [reflexivity|].
  rewrite (H x (or_introl eq_refl)). apply IH. intros y Hy. apply H. right. exact Hy.
Qed.

Lemma list_map_nth {A} (d : A) (l : list A) : l = map (fun i => nth i l d) (seq 0 (length l)).
Proof. rewrite <- (firstn_map_nth d l (length l)) by lia. symmetry. apply firstn_all. Qed.

(* ---------- the ring of buckets ---------- *)
Section Ring.
Variables (n w start cap : Z).
Hypothesis Hn : 0 < n.
Hypothesis Hw : 0 < w.
Hypothesis Hcap : 0 <= cap.

Notation valid := (valid start).
Notation idx := (idx w start).
Notation in_window := (in_window n w start).
Notation present_t := (present_t w start).
Notation cleared := (cleared n).
Notation bucket_at := (bucket_at cap).
Notation BRep := (BRep cap).
Notation rp_step := (rp_step n w start cap).
Notation rp_state_after := (rp_state_after n w start cap).
Notation rp_latest := (rp_latest w start).
Notation rp_adds := (rp_adds n w start).

(* durations of the accepted adds that the window ending at L still holds in slot j *)
Definition slot_pred (L j : Z) (td : Z * Z) : bool :=
  in_window L (fst td) && (idx (fst td) mod n =? j).
Definition slot_ds (L : Z) (adds : list (Z * Z)) (j : Z) : list Z :=
  map snd (filter (slot_pred L j) adds).
Definition Seen (L : Z) (adds : list (Z * Z)) : Prop :=
  Forall (fun td => valid (fst td) = true /\ idx (fst td) <= L) adds.

Record RRep (L : Z) (adds : list (Z * Z)) (s : rp) : Prop := {
  rr_last : rp_last s = L;
  rr_L0 : 0 <= L;
  rr_len : Z.of_nat (length (rp_buckets s)) = n;
  rr_fault : rp_fault s = false;
  rr_slots : forall j, 0 <= j < n -> BRep (slot_ds L adds j) (bucket_at s j);
  rr_seen : Seen L adds
}.

Lemma rr_init : RRep 0 [] (rp_init n cap).
Proof.
  constructor; cbn [rp_init rp_last rp_buckets rp_fault]; try reflexivity; try lia.
  - rewrite repeat_length. lia.
  - intros j Hj. unfold RollingPercentile.bucket_at. cbn [rp_init rp_buckets].
    rewrite nth_repeat. apply BRep_empty. exact Hcap.
  - constructor.
Qed.

(* ---------- window arithmetic on one stamp, from the counter development ---------- *)
Lemma slot_pred_shift L a t j :
  0 <= j < n -> L < a -> (valid t = true -> idx t <= L) ->
  in_window a t && (idx t mod n =? j) =
  if cleared L (Z.to_nat (Z.min (a - L) n)) j then false else in_window L t && (idx t mod n =? j).
Proof.
  intros Hj Hla Hs.
  pose proof (window_shift n w start Hn L a [t] j Hj Hla (Forall_cons _ Hs (Forall_nil _))) as H.
  unfold slot_count in H. rewrite !cntp_cons, !cntp_nil in H.
  destruct (cleared L (Z.to_nat (Z.min (a - L) n)) j);
    destruct (in_window a t && (idx t mod n =? j)); destruct (in_window L t && (idx t mod n =? j));
    cbn [b2z] in H; try reflexivity; lia.
Qed.

Lemma slot_pred_exact L t i :
  0 <= i < n -> (valid t = true -> idx t <= L) ->
  in_window L t && (idx t mod n =? (L - i) mod n) = in_window L t && (idx t =? L - i).
Proof.
  intros Hi Hs.
  pose proof (slot_count_exact n w start Hn L [t] i Hi (Forall_cons _ Hs (Forall_nil _))) as H.
  unfold slot_count in H. rewrite !cntp_cons, !cntp_nil in H.
  destruct (in_window L t && (idx t mod n =? (L - i) mod n)); destruct (in_window L t && (idx t =? L - i));
    cbn [b2z] in H; try reflexivity; lia.
Qed.

Lemma ds_shift L a adds j :
  0 <= j < n -> L < a -> Seen L adds ->
  slot_ds a adds j = if cleared L (Z.to_nat (Z.min (a - L) n)) j then [] else slot_ds L adds j.
Proof.
  intros Hj Hla Hseen. unfold slot_ds. unfold Seen in Hseen. rewrite Forall_forall in Hseen.
  assert (H : forall td, In td adds -> slot_pred a j td =
             if cleared L (Z.to_nat (Z.min (a - L) n)) j then false else slot_pred L j td).
  { intros td Hin. unfold slot_pred. apply slot_pred_shift; [exact Hj|exact Hla|].
    intros _. apply (Hseen td Hin). }
  destruct (cleared L (Z.to_nat (Z.min (a - L) n)) j).
  - rewrite filter_none by exact H. reflexivity.
  - f_equal. apply filter_ext_in. exact H.
Qed.

Lemma Seen_mono L L' adds : L <= L' -> Seen L adds -> Seen L' adds.
Proof. intros HL H. eapply Forall_impl; [|exact H]. cbn beta. intros td (Hv & Hi). split; [exact Hv|lia]. Qed.

(* ---------- updating and clearing slots ---------- *)
Lemma upd_bucket_props s j f :
  rp_fault s = false -> 0 <= j < Z.of_nat (length (rp_buckets s)) ->
  let s' := upd_bucket cap s j f in
  rp_fault s' = false /\ length (rp_buckets s') = length (rp_buckets s) /\ rp_last s' = rp_last s /\
  bucket_at s' j = f (bucket_at s j) /\
  (forall j', 0 <= j' -> j' <> j -> bucket_at s' j' = bucket_at s j').
Proof.
  intros Hf Hj. cbn zeta. unfold upd_bucket, RollingPercentile.bucket_at, inrange.
  cbn [rp_fault rp_buckets rp_last]. rewrite Hf. repeat split.
  - lia.
  - apply setnth_length.
  - apply nth_setnth_same. lia.
  - intros j' H0 Hne. apply nth_setnth_other. lia.
Qed.

Lemma rp_clear_seq s L : forall k m,
  rp_fault s = false -> Z.of_nat (length (rp_buckets s)) = n ->
  let s' := fold_left (rp_clear1 cap) (map (fun i => (L + Z.of_nat i) mod n) (seq m k)) s in
  rp_fault s' = false /\ Z.of_nat (length (rp_buckets s')) = n /\ rp_last s' = rp_last s /\
  forall j, 0 <= j < n ->
    bucket_at s' j = if existsb (fun i => (L + Z.of_nat i) mod n =? j) (seq m k)
                     then db_clear (bucket_at s j) else bucket_at s j.
Proof.
  intros k. revert s. induction k as [|k IH]; intros s m Hf Hl; cbn zeta.
  - cbn [seq map fold_left existsb]. repeat split; auto.
  - cbn [seq map fold_left existsb].
    pose proof (mod_range n (L + Z.of_nat m) Hn) as Hr.
    destruct (upd_bucket_props s ((L + Z.of_nat m) mod n) db_clear Hf ltac:(lia)) as (Hf1 & Hl1 & Hla1 & Hz & Ho).
    fold (rp_clear1 cap s ((L + Z.of_nat m) mod n)) in *.
    specialize (IH (rp_clear1 cap s ((L + Z.of_nat m) mod n)) (S m) Hf1 ltac:(lia)).
    cbn zeta in IH. destruct IH as (Hf2 & Hl2 & Hla2 & Hg).
    repeat split; auto; try congruence.
    intros j Hj. rewrite (Hg j Hj).
    destruct ((L + Z.of_nat m) mod n =? j) eqn:E2.
    + apply Z.eqb_eq in E2. subst j. rewrite Hz. cbn [orb].
      destruct (existsb _ (seq (S m) k)); reflexivity.
    + apply Z.eqb_neq in E2. rewrite Ho by lia. cbn [orb]. reflexivity.
Qed.

(* ---------- Advance ---------- *)
Lemma rp_advance_rep L adds s t :
  RRep L adds s ->
  let '(s1, r) := rp_advance n w start cap t s in
  RRep (present_t L t) adds s1 /\
  r = if in_window (present_t L t) t then Some (idx t mod n) else None.
Proof.
  intros R. destruct R as [Hl HL Hlen Hf Hsl Hseen].
  unfold rp_advance, advance_plan, RollingCounter_Proofs.present_t, RollingCounter.in_window,
    RollingCounter.valid, RollingCounter.idx, off.
  replace (n =? 0) with false by lia.
  set (d := clamp64 (t - start)).
  destruct (d <? 0) eqn:Ed.
  - replace (0 <=? d) with false by lia. cbn [fold_left andb].
    split; [|reflexivity]. constructor; cbn [rp_last rp_buckets rp_fault]; auto.
  - replace (0 <=? d) with true by lia. cbn [andb].
    rewrite godiv_nonneg by lia. set (a := d / w).
    assert (Ha : 0 <= a) by (apply Z.div_pos; lia).
    rewrite gomod_nonneg by lia. rewrite Hl.
    destruct (a - L =? 0) eqn:E0.
    + cbn [fold_left]. replace (Z.max L a) with L by lia.
      replace (L - n <? a) with true by lia.
      split; [|reflexivity]. constructor; cbn [rp_last rp_buckets rp_fault]; auto.
    + destruct (a - L <? 0) eqn:E1.
      * replace (Z.max L a) with L by lia.
        destruct (n <=? - (a - L)) eqn:E2; cbn [fold_left].
        -- replace (L - n <? a) with false by lia.
           split; [|reflexivity]. constructor; cbn [rp_last rp_buckets rp_fault]; auto.
        -- replace (L - n <? a) with true by lia.
           split; [|reflexivity]. constructor; cbn [rp_last rp_buckets rp_fault]; auto.
      * replace (Z.max L a) with a by lia. replace (a - n <? a) with true by lia.
        split; [|reflexivity].
        assert (Hmap : map (fun i : nat => gomod (L + Z.of_nat i) n) (seq 1 (Z.to_nat (Z.min (a - L) n)))
                     = map (fun i : nat => (L + Z.of_nat i) mod n) (seq 1 (Z.to_nat (Z.min (a - L) n)))).
        { apply map_ext. intros i. apply gomod_nonneg; lia. }
        rewrite Hmap.
        pose proof (rp_clear_seq s L (Z.to_nat (Z.min (a - L) n)) 1%nat Hf Hlen) as Hc.
        cbn zeta in Hc. destruct Hc as (Hf1 & Hl1 & Hla1 & Hg).
        constructor; cbn [rp_last rp_buckets rp_fault]; auto; try lia.
        -- intros j Hj.
           change (RollingPercentile.bucket_at cap ?x j) with (nth (Z.to_nat j) (rp_buckets x) (db_empty cap)).
           cbn [rp_buckets].
           match goal with |- context [nth (Z.to_nat j) (rp_buckets ?x) _] =>
             change (nth (Z.to_nat j) (rp_buckets x) (db_empty cap)) with (bucket_at x j) end.
           rewrite (Hg j Hj). rewrite (ds_shift L a adds j Hj ltac:(lia) Hseen).
           unfold RollingCounter_Proofs.cleared. destruct (existsb _ _).
           ++ eapply BRep_clear. apply (Hsl j Hj).
           ++ apply (Hsl j Hj).
        -- apply (Seen_mono L a); [lia|exact Hseen].
Qed.

(* ---------- AddDuration ---------- *)
Lemma slot_ds_snoc L adds t d j :
  slot_ds L (adds ++ [(t, d)]) j =
  slot_ds L adds j ++ (if in_window L t && (idx t mod n =? j) then [d] else []).
Proof.
  unfold slot_ds. rewrite filter_app, map_app. cbn [filter]. unfold slot_pred at 2. cbn [fst].
  destruct (in_window L t && (idx t mod n =? j)); reflexivity.
Qed.

Lemma rp_add_rep L adds s d t :
  RRep L adds s ->
  RRep (present_t L t) (if in_window (present_t L t) t then adds ++ [(t, d)] else adds)
       (rp_add n w start cap d t s).
Proof.
  intros R. unfold rp_add.
  replace (Z.of_nat (length (rp_buckets s)) =? 0) with false by (destruct R; lia).
  pose proof (rp_advance_rep L adds s t R) as Ha.
  destruct (rp_advance n w start cap t s) as [s1 r]. destruct Ha as (R1 & Hr).
  set (L' := present_t L t) in *.
  destruct (in_window L' t) eqn:Ew; subst r; [|exact R1].
  destruct R1 as [Hl HL Hlen Hf Hsl Hseen].
  pose proof (mod_range n (idx t) Hn) as Hm.
  destruct (upd_bucket_props s1 (idx t mod n) (db_add d) Hf ltac:(lia)) as (Hf1 & Hl1 & Hla1 & Hz & Ho).
  constructor; auto; try lia; try congruence.
  - intros j Hj. rewrite slot_ds_snoc, Ew. cbn [andb].
    destruct (Z.eq_dec (idx t mod n) j) as [E|E].
    + subst j. rewrite Hz, Z.eqb_refl. apply (BRep_add cap Hcap). apply Hsl; lia.
    + rewrite Ho by lia. replace (idx t mod n =? j) with false by lia. rewrite app_nil_r. apply Hsl; lia.
  - apply Forall_app. split; [exact Hseen|]. constructor; [|constructor]. cbn [fst].
    apply in_window_seen in Ew. exact Ew.
Qed.

(* ---------- Reset ---------- *)
Lemma rp_reset_rep L adds s t :
  RRep L adds s -> RRep (present_t L t) [] (rp_reset n w start cap t s).
Proof.
  intros R. unfold rp_reset.
  pose proof (rp_advance_rep L adds s t R) as Ha.
  destruct (rp_advance n w start cap t s) as [s1 r]. destruct Ha as (R1 & _).
  destruct R1 as [Hl HL Hlen Hf Hsl Hseen].
  assert (Hmap : map Z.of_nat (seq 0 (Z.to_nat n)) = map (fun i => (0 + Z.of_nat i) mod n) (seq 0 (Z.to_nat n))).
  { apply map_ext_in. intros i Hi. apply in_seq in Hi. rewrite Z.mod_small; lia. }
  rewrite Hmap. pose proof (rp_clear_seq s1 0 (Z.to_nat n) 0%nat Hf Hlen) as Hc. cbn zeta in Hc.
  destruct Hc as (H1 & H2 & H3 & Hg).
  constructor; auto; try congruence; [|constructor].
  intros j Hj. rewrite (Hg j Hj). change (slot_ds (present_t L t) [] j) with (@nil Z).
  replace (existsb _ _) with true; [eapply BRep_clear; apply (Hsl j Hj)|].
  symmetry. apply existsb_exists.
  exists (Z.to_nat j). split; [apply in_seq; lia|]. apply Z.eqb_eq. rewrite Z.mod_small; lia.
Qed.

(* ---------- SortedDurations ---------- *)
Lemma bucket_exact L adds k :
  0 <= k < n -> Seen L adds ->
  map snd (filter (fun td => idx (fst td) =? L - k) adds) = slot_ds L adds ((L - k) mod n).
Proof.
  intros Hk Hseen. unfold slot_ds. f_equal. apply filter_ext_in. intros td Hin.
  unfold Seen in Hseen. rewrite Forall_forall in Hseen. destruct (Hseen td Hin) as (Hv & Hi).
  unfold slot_pred. rewrite slot_pred_exact by (auto; lia).
  destruct (idx (fst td) =? L - k) eqn:E; [|rewrite andb_false_r; reflexivity].
  unfold RollingCounter.in_window. rewrite Hv. lia.
Qed.

Lemma snapshot_perm L adds s :
  RRep L adds s ->
  Permutation (flat_map db_durations (rp_buckets s))
    (flat_map (fun k => lastn (Z.to_nat cap) (map snd (filter (fun td => idx (fst td) =? L - Z.of_nat k) adds)))
              (seq 0 (Z.to_nat n))).
Proof.
  intros [Hl HL Hlen Hf Hsl Hseen].
  set (G := fun j : nat => lastn (Z.to_nat cap) (slot_ds L adds (Z.of_nat j))).
  set (f := fun k : nat => Z.to_nat ((L - Z.of_nat k) mod n)).
  transitivity (flat_map G (seq 0 (Z.to_nat n))).
  - rewrite (list_map_nth (db_empty cap) (rp_buckets s)) at 1. rewrite flat_map_map.
    replace (length (rp_buckets s)) with (Z.to_nat n) by lia.
    apply flat_map_perm_in. intros j Hj. apply in_seq in Hj. unfold G.
    apply (BRep_durations cap Hcap).
    specialize (Hsl (Z.of_nat j) ltac:(lia)). unfold RollingPercentile.bucket_at in Hsl.
    rewrite Nat2Z.id in Hsl. exact Hsl.
  - transitivity (flat_map G (map f (seq 0 (Z.to_nat n)))).
    + apply Permutation_flat_map. symmetry. apply perm_seq_inj.
      * intros p Hp. unfold f. pose proof (mod_range n (L - Z.of_nat p) Hn). lia.
      * intros p q Hp Hq He. unfold f in He.
        pose proof (mod_range n (L - Z.of_nat p) Hn). pose proof (mod_range n (L - Z.of_nat q) Hn).
        assert (L - Z.of_nat p = L - Z.of_nat q); [|lia].
        apply (mod_eq_close n); [lia|lia|lia].
    + rewrite flat_map_map. apply flat_map_perm_in. intros k Hk. apply in_seq in Hk.
      unfold G, f. rewrite Z2Nat.id by (apply mod_range; exact Hn).
      rewrite (bucket_exact L adds (Z.of_nat k)) by (auto; lia). reflexivity.
Qed.

(* ---------- histories ---------- *)
Lemma rp_latest_snoc h o : rp_latest (h ++ [o]) = present_t (rp_latest h) (rp_op_time o).
Proof. unfold RollingPercentile.rp_latest. rewrite fold_left_app. reflexivity. Qed.

Lemma rp_adds_fst h : fst (fold_left (rp_adds_step n w start) h (0, [])) = rp_latest h.
Proof.
  induction h as [|o h IH] using rev_ind; [reflexivity|].
  rewrite rp_latest_snoc, fold_left_app. cbn [fold_left]. unfold rp_adds_step at 1.
  rewrite IH. destruct o; reflexivity.
Qed.

Lemma rp_adds_snoc h o :
  rp_adds (h ++ [o]) =
  match o with
  | PAdd d t => if in_window (present_t (rp_latest h) t) t then rp_adds h ++ [(t, d)] else rp_adds h
  | PSnap _ => rp_adds h
  | PReset _ => []
  end.
Proof.
  unfold RollingPercentile.rp_adds. rewrite fold_left_app. cbn [fold_left]. unfold rp_adds_step at 1.
  rewrite rp_adds_fst. destruct o; reflexivity.
Qed.

Lemma rp_state_snoc h o : rp_state_after (h ++ [o]) = fst (rp_step (rp_state_after h) o).
Proof. unfold RollingPercentile.rp_state_after. rewrite fold_left_app. reflexivity. Qed.

Theorem rp_inv h : RRep (rp_latest h) (rp_adds h) (rp_state_after h).
Proof.
  induction h as [|o h IH] using rev_ind; [apply rr_init|].
  rewrite rp_state_snoc, rp_latest_snoc, rp_adds_snoc.
  destruct o as [d t|t|t]; cbn [RollingPercentile.rp_step fst rp_op_time].
  - apply rp_add_rep. exact IH.
  - unfold rp_snapshot.
    replace (Z.of_nat (length (rp_buckets (rp_state_after h))) =? 0) with false by (destruct IH; lia).
    pose proof (rp_advance_rep _ _ _ t IH) as Ha.
    destruct (rp_advance n w start cap t (rp_state_after h)) as [s1 r]. cbn [fst]. apply Ha.
  - eapply rp_reset_rep. exact IH.
Qed.

Lemma snapshot_spec_sec h t l :
  snd (rp_step (rp_state_after h) (PSnap t)) = PList l ->
  Sorted Z.le l /\ Permutation l (window_sample n w start cap (h ++ [PSnap t])).
Proof.
  pose proof (rp_inv h) as R. cbn [RollingPercentile.rp_step]. unfold rp_snapshot.
  replace (Z.of_nat (length (rp_buckets (rp_state_after h))) =? 0) with false by (destruct R; lia).
  pose proof (rp_advance_rep _ _ _ t R) as Ha.
  destruct (rp_advance n w start cap t (rp_state_after h)) as [s1 r]. destruct Ha as (R1 & _).
  cbn [snd]. intros E. injection E as <-. split; [apply isort_sorted|].
  rewrite isort_perm. unfold window_sample, bucket_durations.
  rewrite rp_latest_snoc, rp_adds_snoc. cbn [rp_op_time].
  apply snapshot_perm. exact R1.
Qed.

Lemma stale_add_ignored_sec h d t :
  in_window (rp_latest h) t = false ->
  rp_buckets (rp_state_after (h ++ [PAdd d t])) = rp_buckets (rp_state_after h) /\
  rp_last (rp_state_after (h ++ [PAdd d t])) = rp_last (rp_state_after h).
Proof.
  intros Hst. rewrite rp_state_snoc. cbn [RollingPercentile.rp_step fst].
  pose proof (rp_inv h) as R. unfold rp_add.
  destruct (Z.of_nat (length (rp_buckets (rp_state_after h))) =? 0); [split; reflexivity|].
  unfold rp_advance, advance_plan. replace (n =? 0) with false by lia.
  unfold RollingCounter.in_window, RollingCounter.valid, RollingCounter.idx, off in Hst.
  destruct R as [Hla HL _ _ _ _]. rewrite Hla.
  set (dd := clamp64 (t - start)) in *.
  destruct (dd <? 0) eqn:Ed.
  - cbn [fold_left rp_buckets rp_last]. split; reflexivity.
  - replace (0 <=? dd) with true in Hst by lia. cbn [andb] in Hst.
    rewrite godiv_nonneg by lia.
    destruct (dd / w - rp_latest h =? 0) eqn:E0; [lia|].
    destruct (dd / w - rp_latest h <? 0) eqn:E1; [|lia].
    replace (n <=? - (dd / w - rp_latest h)) with true by lia.
    cbn [fold_left rp_buckets rp_last]. split; reflexivity.
Qed.

Lemma rp_no_fault_sec h : rp_fault (rp_state_after h) = false.
Proof. apply (rp_inv h). Qed.

End Ring.

(* ---------- the statements of C15 (ring/window part) ---------- *)
Theorem snapshot_spec n w start cap (Hn : 0 < n) (Hw : 0 < w) (Hcap : 0 <= cap) :
  forall h t l,
  snd (rp_step n w start cap (rp_state_after n w start cap h) (PSnap t)) = PList l ->
  Sorted Z.le l /\ Permutation l (window_sample n w start cap (h ++ [PSnap t])).
Proof. exact (snapshot_spec_sec n w start cap Hn Hw Hcap). Qed.

Theorem stale_add_ignored n w start cap (Hn : 0 < n) (Hw : 0 < w) (Hcap : 0 <= cap) :
  forall h d t,
  in_window n w start (rp_latest w start h) t = false ->
  rp_buckets (rp_state_after n w start cap (h ++ [PAdd d t])) = rp_buckets (rp_state_after n w start cap h) /\
  rp_last (rp_state_after n w start cap (h ++ [PAdd d t])) = rp_last (rp_state_after n w start cap h).
Proof. exact (stale_add_ignored_sec n w start cap Hn Hw Hcap). Qed.

Theorem rp_no_fault n w start cap (Hn : 0 < n) (Hw : 0 < w) (Hcap : 0 <= cap) :
  forall h, rp_fault (rp_state_after n w start cap h) = false.
Proof. exact (rp_no_fault_sec n w start cap Hn Hw Hcap). Qed.

Print Assumptions snapshot_spec.
Print Assumptions stale_add_ignored.
Print Assumptions rp_no_fault.
Print Assumptions mean_between.
