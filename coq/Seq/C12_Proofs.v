(* Seq/C12_Proofs.v — proofs behind Properties/C12.v: every timestamp and
   duration is a reading (or a difference of readings) of the one clock. *)
From Coq Require Import ZifyBool.
From CV Require Import Base.Prelude Seq.RollingCounter Seq.TimedCheck Seq.Logic Seq.Circuit Seq.CircuitSpec.

(* same body as Properties/C12.is_endfb, so the statements are convertible *)
Definition is_endfb_b (ev : event) : bool := match ev with EndFb _ _ => true | _ => false end.

(* ---------- all time arguments equal t / all durations equal d ---------- *)
Definition T (t : Z) (l : list obs) : Prop := Forall (fun x => x = t) (obs_times l).
Definition D (d : Z) (l : list obs) : Prop := Forall (fun x => x = d) (obs_durations l).

Lemma obs_times_app a b : obs_times (a ++ b) = obs_times a ++ obs_times b.
Proof. apply flat_map_app. Qed.
Lemma obs_durations_app a b : obs_durations (a ++ b) = obs_durations a ++ obs_durations b.
Proof. apply flat_map_app. Qed.

Lemma T_nil t : T t []. Proof. constructor. Qed.
Lemma T_app t a b : T t a -> T t b -> T t (a ++ b).
Proof. unfold T. rewrite obs_times_app. intros A B. apply Forall_app. split; assumption. Qed.
Lemma T_cons t x l : T t [x] -> T t l -> T t (x :: l).
Proof. exact (T_app t [x] l). Qed.
Lemma T_runmap t k d l : T t (map (fun w => ORunEv w k t d) l).
Proof. induction l as [|x l IH]; [apply T_nil|]. apply T_cons; [|exact IH]. unfold T; cbn; repeat constructor. Qed.
Lemma T_circmap t k l : T t (map (fun w => OCircEv w k t) l).
Proof. induction l as [|x l IH]; [apply T_nil|]. apply T_cons; [|exact IH]. unfold T; cbn; repeat constructor. Qed.
Lemma T_fb st k t d : T t (emit_fb st k t d).
Proof.
  unfold emit_fb. induction (seq 0 (s_nfb st)) as [|x l IH]; [apply T_nil|].
  apply T_cons; [|exact IH]. unfold T; cbn; repeat constructor.
Qed.
Lemma T_timers t l : T t (map OTimer l).
Proof. induction l as [|x l IH]; [apply T_nil|]. apply T_cons; [|exact IH]. unfold T; cbn; constructor. Qed.
Lemma T_reading t st s : T t [reading st s].
Proof. unfold reading. destruct (s_mode st); unfold T; cbn; constructor. Qed.

Lemma D_nil d : D d []. Proof. constructor. Qed.
Lemma D_app d a b : D d a -> D d b -> D d (a ++ b).
Proof. unfold D. rewrite obs_durations_app. intros A B. apply Forall_app. split; assumption. Qed.
Lemma D_cons d x l : D d [x] -> D d l -> D d (x :: l).
Proof. exact (D_app d [x] l). Qed.
Definition dur_ok (d : Z) (dd : option Z) : Prop := match dd with Some x => x = d | None => True end.
Lemma D_runmap d k t dd l : dur_ok d dd -> D d (map (fun w => ORunEv w k t dd) l).
Proof.
  intros H. induction l as [|x l IH]; [apply D_nil|]. apply D_cons; [|exact IH].
  destruct dd as [y|]; unfold D; cbn in *; repeat constructor. exact H.
Qed.
Lemma D_circmap d k t l : D d (map (fun w => OCircEv w k t) l).
Proof. induction l as [|x l IH]; [apply D_nil|]. apply D_cons; [|exact IH]. unfold D; cbn; constructor. Qed.
Lemma D_fb st k t dd d : dur_ok d dd -> D d (emit_fb st k t dd).
Proof.
  intros H. unfold emit_fb. induction (seq 0 (s_nfb st)) as [|x l IH]; [apply D_nil|].
  apply D_cons; [|exact IH]. destruct dd as [y|]; unfold D; cbn in *; repeat constructor. exact H.
Qed.
Lemma D_timers d l : D d (map OTimer l).
Proof. induction l as [|x l IH]; [apply D_nil|]. apply D_cons; [|exact IH]. unfold D; cbn; constructor. Qed.
Lemma D_reading d st s : D d [reading st s].
Proof. unfold reading. destruct (s_mode st); unfold D; cbn; constructor. Qed.

Ltac tt := repeat first [ assumption | apply T_nil | apply T_runmap | apply T_circmap | apply T_fb | apply T_timers
                        | apply T_reading | apply T_app
                        | apply T_cons; [solve [unfold T; cbn; repeat constructor] |] ].
Ltac dd := repeat first [ assumption | apply D_nil | apply D_runmap; solve [exact I | reflexivity | assumption]
                        | apply D_circmap | apply D_fb; solve [exact I | reflexivity | assumption]
                        | apply D_timers | apply D_reading | apply D_app
                        | apply D_cons; [solve [unfold D; cbn; repeat constructor] |] ].

(* ---------- the call table ---------- *)
Lemma find_filter_same id (l : list callst) :
  find (fun c => Nat.eqb (cs_id c) id) (filter (fun c => negb (Nat.eqb (cs_id c) id)) l) = None.
Proof.
  induction l as [|x l IH]; [reflexivity|]. cbn.
  destruct (Nat.eqb (cs_id x) id) eqn:E; cbn; [exact IH|]. rewrite E. exact IH.
Qed.
Lemma find_filter_other i j (l : list callst) : Nat.eqb j i = false ->
  find (fun c => Nat.eqb (cs_id c) i) (filter (fun c => negb (Nat.eqb (cs_id c) j)) l) =
  find (fun c => Nat.eqb (cs_id c) i) l.
Proof.
  intros Hji. induction l as [|x l IH]; [reflexivity|]. cbn.
  destruct (Nat.eqb (cs_id x) j) eqn:Ej; cbn.
  - apply Nat.eqb_eq in Ej. rewrite Ej, Hji. exact IH.
  - destruct (Nat.eqb (cs_id x) i); [reflexivity | exact IH].
Qed.
Lemma find_call_put i c s :
  find_call i (put_call c s) = if Nat.eqb (cs_id c) i then Some c else find_call i s.
Proof.
  unfold find_call, put_call. cbn.
  destruct (Nat.eqb (cs_id c) i) eqn:E; [reflexivity|]. apply find_filter_other. exact E.
Qed.
Lemma find_call_drop i j s :
  find_call i (drop_call j s) = if Nat.eqb j i then None else find_call i s.
Proof.
  unfold find_call, drop_call. cbn.
  destruct (Nat.eqb j i) eqn:E.
  - apply Nat.eqb_eq in E. subst j. apply find_filter_same.
  - apply find_filter_other. exact E.
Qed.
Lemma find_call_calls i s s' : calls s' = calls s -> find_call i s' = find_call i s.
Proof. unfold find_call. intros E. rewrite E. reflexivity. Qed.

(* ---------- whatever a segment stores for a call is that segment's reading ---------- *)
Definition fresh_ok (t : Z) (cs : callst) : Prop :=
  match cs_phase cs with
  | PRun start _ _ => start = t
  | PFb fbstart _ _ => fbstart = t
  | PPass => True
  end.
(* every entry of the call table afterwards is either freshly stamped with the clock
   or carries the phase (hence the stamp) it had before *)
Definition stored (s s' : state) : Prop :=
  forall i cs', find_call i s' = Some cs' ->
    fresh_ok (clock s) cs' \/ exists cs, find_call i s = Some cs /\ cs_phase cs' = cs_phase cs.

Lemma stored_same s s' : calls s' = calls s -> stored s s'.
Proof.
  intros E i cs' H. right. exists cs'. rewrite <- (find_call_calls i s s' E). split; [exact H | reflexivity].
Qed.
Lemma stored_frame s s1 s' : calls s1 = calls s -> clock s1 = clock s -> stored s1 s' -> stored s s'.
Proof.
  intros Ec Et H i cs' Hf. destruct (H i cs' Hf) as [L | (cs & A & B)].
  - left. rewrite <- Et. exact L.
  - right. exists cs. rewrite <- (find_call_calls i s s1 Ec). split; assumption.
Qed.
Lemma stored_put s c s1 : calls s1 = calls s -> fresh_ok (clock s) c -> stored s (put_call c s1).
Proof.
  intros Ec Hc i cs' Hf. rewrite find_call_put in Hf.
  destruct (Nat.eqb (cs_id c) i).
  - injection Hf as <-. left. exact Hc.
  - right. exists cs'. rewrite <- (find_call_calls i s s1 Ec). split; [exact Hf | reflexivity].
Qed.
Lemma stored_drop s j s1 : calls s1 = calls s -> stored s (drop_call j s1).
Proof.
  intros Ec i cs' Hf. rewrite find_call_drop in Hf.
  destruct (Nat.eqb j i); [discriminate|].
  right. exists cs'. rewrite <- (find_call_calls i s s1 Ec). split; [exact Hf | reflexivity].
Qed.
Lemma stored_cancel s id cs :
  find_call id s = Some cs ->
  stored s (put_call {| cs_id := id; cs_call := cs_call cs; cs_phase := cs_phase cs; cs_done := true |} s).
Proof.
  intros H i cs' Hf. rewrite find_call_put in Hf. cbn [cs_id] in Hf.
  destruct (Nat.eqb id i) eqn:E.
  - apply Nat.eqb_eq in E. subst i. injection Hf as <-. right. exists cs. split; [exact H | reflexivity].
  - right. exists cs'. split; [exact Hf | reflexivity].
Qed.

(* ---------- helpers that leave the call table alone ---------- *)
Definition okr (s : state) (t d : Z) (r : state * list obs) : Prop :=
  calls (fst r) = calls s /\ clock (fst r) = clock s /\ T t (snd r) /\ D d (snd r).
(* ---------- helpers that may touch the call table ---------- *)
Definition okc (s : state) (t d : Z) (r : state * list obs) : Prop :=
  clock (fst r) = clock s /\ T t (snd r) /\ D d (snd r) /\ stored s (fst r).

Lemma let_pair {A B C} (r : A * B) (f : A -> B -> C) : (let (a, b) := r in f a b) = f (fst r) (snd r).
Proof. destruct r; reflexivity. Qed.

Ltac okr_triv := unfold okr; cbn [fst snd]; split; [reflexivity | split; [reflexivity | split; [tt | dd]]].

Lemma okr_seq s t d r1 r2 :
  okr s t d r1 -> okr (fst r1) t d r2 -> okr s t d (fst r2, snd r1 ++ snd r2).
Proof.
  intros (A1 & A2 & A3 & A4) (B1 & B2 & B3 & B4). unfold okr. cbn [fst snd].
  split; [congruence|]. split; [congruence|]. split; [tt | dd].
Qed.

Lemma emit_run_ok st k t dd0 d s : dur_ok d dd0 -> okr s t d (emit_run st k t dd0 s).
Proof. intros H. unfold emit_run. okr_triv. Qed.

Lemma emit_circ_ok st k t d s : okr s t d (emit_circ st k t s).
Proof. unfold emit_circ. destruct (closer_circ t (cls s)) as [c1 timers]. okr_triv. Qed.

Lemma open_circuit_ok st now d s : okr s now d (open_circuit st now s).
Proof.
  unfold open_circuit.
  destruct (l_forced_closed (cfg s)); [okr_triv|].
  destruct (is_open s); [okr_triv|].
  destruct (emit_circ_ok st Opened now d s) as (A1 & A2 & A3 & A4).
  destruct (emit_circ st Opened now s) as [s1 o]. cbn [fst snd] in *.
  unfold okr. cbn [fst snd]. repeat split; assumption.
Qed.

Lemma close_circuit_ok st now force ans d s : okr s now d (close_circuit st now force ans s).
Proof.
  unfold close_circuit.
  destruct (negb (is_open s)); [okr_triv|].
  destruct (l_force_open (cfg s)); [okr_triv|].
  destruct (emit_circ_ok st Closed now d s) as (A1 & A2 & A3 & A4).
  destruct (emit_circ st Closed now s) as [s1 o]. cbn [fst snd] in *.
  destruct force; [unfold okr; cbn [fst snd]; repeat split; assumption|].
  destruct (closer_should_close ans (cls s)); [|okr_triv].
  unfold okr. cbn [fst snd]. split; [assumption|]. split; [assumption|]. split; [tt | dd].
Qed.

Lemma attempt_to_open_ok st now ans d s : okr s now d (attempt_to_open st now ans s).
Proof.
  unfold attempt_to_open.
  destruct (l_forced_closed (cfg s)); [okr_triv|].
  destruct (is_open s); [okr_triv|].
  destruct (opener_should_open now ans (opn s)) as [o1 b].
  destruct b; [|okr_triv].
  destruct (open_circuit_ok st now d (set_logic s o1 (cls s))) as (A1 & A2 & A3 & A4).
  destruct (open_circuit st now (set_logic s o1 (cls s))) as [s2 o]. cbn [fst snd] in *.
  unfold okr. cbn [fst snd]. split; [assumption|]. split; [assumption|]. split; [tt | dd].
Qed.

Lemma fallback_stage_ok st cs err ran derived d s :
  okc s (clock s) d (fallback_stage st cs err ran derived s).
Proof.
  unfold okc, fallback_stage.
  destruct (negb (has_fb_eff (cs_call cs)) || l_fb_disabled (cfg s)).
  { cbn [fst snd]. split; [reflexivity|]. split; [tt|]. split; [dd|]. apply stored_drop; reflexivity. }
  destruct ((0 <=? l_fb_max (cfg s)) && (l_fb_max (cfg s) <? fbs s + 1)); cbn [fst snd].
  - split; [reflexivity|]. split; [tt|]. split; [dd|]. apply stored_drop; reflexivity.
  - split; [reflexivity|]. split; [tt|]. split; [dd|]. apply stored_put; reflexivity.
Qed.

(* an okr segment followed by the fallback stage *)
Lemma okr_then_fallback s t d s1 o1 st cs err ran derived :
  t = clock s -> okr s t d (s1, o1) ->
  clock (fst (fallback_stage st cs err ran derived s1)) = clock s /\
  T t (snd (fallback_stage st cs err ran derived s1)) /\
  D d (snd (fallback_stage st cs err ran derived s1)) /\
  stored s (fst (fallback_stage st cs err ran derived s1)).
Proof.
  intros -> (A1 & A2 & A3 & A4). cbn [fst snd] in *.
  destruct (fallback_stage_ok st cs err ran derived d s1) as (B1 & B2 & B3 & B4).
  rewrite A2 in B2. split; [congruence|]. split; [exact B2|]. split; [exact B3|].
  apply (stored_frame s s1); assumption.
Qed.

Lemma begin_call_ok st id c d s : okc s (clock s) d (begin_call st id c s).
Proof.
  unfold begin_call.
  assert (HP : okc s (clock s) d
                 (put_call {| cs_id := id; cs_call := c; cs_phase := PPass; cs_done := c_done c |} s,
                  [ORunInvoked id false (c_deadline c)])).
  { unfold okc. cbn [fst snd]. split; [reflexivity|]. split; [tt|]. split; [dd|].
    apply stored_put; [reflexivity | exact I]. }
  destruct (s_mode st); [|exact HP|exact HP].
  destruct (l_disabled (cfg s)); [exact HP|]. clear HP.
  destruct (negb (c_has_run c)).
  { unfold okc. cbn [fst snd]. split; [reflexivity|]. split; [tt|]. split; [dd|]. apply stored_same; reflexivity. }
  set (cs0 := {| cs_id := id; cs_call := c; cs_phase := PPass; cs_done := c_done c |}).
  (* allowNewRun: abstract its three results, keeping what we need of them *)
  match goal with |- okc s _ _ (match ?A with _ => _ end) =>
    assert (Q1 : okr s (clock s) d (fst (fst A), snd A)); [ | revert Q1; generalize A; intros [[s1 admitted] o1] Q1 ]
  end.
  { destruct (negb (is_open s)); [okr_triv|].
    destruct (l_force_open (cfg s)); [okr_triv|].
    destruct (closer_allow (clock s) (c_allow c) (cls s)) as [[cl1 b] timers]. okr_triv. }
  cbn [fst snd] in Q1. pose proof Q1 as (C1 & K1 & T1 & D1). cbn [fst snd] in C1, K1, T1, D1.
  destruct (negb admitted).
  - rewrite !let_pair.
    pose proof (emit_run_ok st KShort (clock s) None d s1 I) as Q2.
    pose proof (okr_seq s (clock s) d (s1, o1) _ Q1 Q2) as Q3. cbn [fst snd] in Q3.
    destruct (okr_then_fallback s (clock s) d _ _ st cs0 VCircuitOpen false false eq_refl Q3) as (B1 & B2 & B3 & B4).
    destruct Q2 as (_ & _ & T2 & D2).
    unfold okc. cbn [fst snd]. split; [exact B1|]. split; [tt|]. split; [dd|]. exact B4.
  - destruct (opener_prevent (c_prevent c) (opn s1)).
    + rewrite !let_pair.
      destruct (okr_then_fallback s (clock s) d _ _ st cs0 VCircuitOpen false false eq_refl Q1) as (B1 & B2 & B3 & B4).
      unfold okc. cbn [fst snd]. split; [exact B1|]. split; [tt|]. split; [dd|]. exact B4.
    + cbv zeta. destruct ((0 <=? l_max (cfg s1)) && (l_max (cfg s1) <? cmds s1 + 1)).
      * rewrite !let_pair.
        pose proof (emit_run_ok st KReject (clock s) None d s1 I) as Q2.
        pose proof (okr_seq s (clock s) d (s1, o1) _ Q1 Q2) as Q3. cbn [fst snd] in Q3.
        destruct (okr_then_fallback s (clock s) d _ _ st cs0 VThrottled false false eq_refl Q3) as (B1 & B2 & B3 & B4).
        destruct Q2 as (_ & _ & T2 & D2).
        unfold okc. cbn [fst snd]. split; [exact B1|]. split; [tt|]. split; [dd|]. exact B4.
      * unfold okc. cbn [fst snd]. split; [exact K1|]. split; [tt|]. split; [dd|].
        apply stored_put; [exact C1 | reflexivity].
Qed.

(* the duration every run event of EndRun id must report *)
Definition run_dur (id : nat) (s : state) : Z :=
  match find_call id s with
  | Some cs => match cs_phase cs with PRun start _ _ => clock s - start | _ => 0 end
  | None => 0
  end.

Lemma end_run_ok st id e s : okc s (clock s) (run_dur id s) (end_run st id e s).
Proof.
  unfold end_run, run_dur.
  assert (HN : forall d, okc s (clock s) d (s, [])).
  { intros d. unfold okc. cbn [fst snd]. split; [reflexivity|]. split; [tt|]. split; [dd|]. apply stored_same; reflexivity. }
  destruct (find_call id s) as [cs|]; [|apply HN].
  destruct (cs_phase cs) as [start expected derived| |a b c]; [| |apply HN].
  2:{ unfold okc. cbn [fst snd]. split; [reflexivity|]. split; [tt|]. split; [dd|]. apply stored_drop; reflexivity. }
  clear HN.
  destruct (e_res e) as [|k|k|k|v].
  5:{ unfold okc. cbn [fst snd]. split; [reflexivity|]. split; [tt|]. split; [dd|]. apply stored_drop; reflexivity. }
  all: cbn [res_is_bad res_is_nil negb andb].
  all: match goal with |- okc ?s0 ?t0 ?d0 (match ?A with _ => _ end) =>
         assert (Q1 : okr s0 t0 d0 A);
           [ | revert Q1; generalize A; intros [s1 o1] Q1; pose proof Q1 as (C1 & K1 & T1 & D1);
               cbn [fst snd] in C1, K1, T1, D1 ]
       end.
  all: try (repeat match goal with |- okr _ _ _ (if ?b then _ else _) => destruct b end;
            first [ apply emit_run_ok; reflexivity
                  | rewrite let_pair; cbv beta;
                    match goal with |- okr _ _ _ (if ?b then _ else _) => destruct b end;
                    [ rewrite let_pair; cbv beta; apply okr_seq;
                      [ apply emit_run_ok; reflexivity
                      | first [apply attempt_to_open_ok | apply close_circuit_ok] ]
                    | rewrite <- surjective_pairing; apply emit_run_ok; reflexivity ]
                  | rewrite let_pair; cbv beta;
                    match goal with |- okr _ _ _ (if ?b then _ else _) => destruct b end;
                    [ rewrite <- surjective_pairing; apply emit_run_ok; reflexivity
                    | rewrite let_pair; cbv beta; apply okr_seq;
                      [ apply emit_run_ok; reflexivity
                      | first [apply attempt_to_open_ok | apply close_circuit_ok] ] ] ]; fail).
  all: cbv zeta.
  all: try (unfold okc; cbn [fst snd]; split; [exact K1|]; split; [tt|]; split; [dd|];
            apply stored_drop; exact C1).
  all: rewrite let_pair;
       assert (Q2 : okr s (clock s) (clock s - start) (set_cmds s1 (cmds s1 - 1), o1))
         by (unfold okr; cbn [fst snd calls clock set_cmds]; repeat split; assumption);
       match goal with |- context [fallback_stage ?a ?b ?c ?d ?e ?f] =>
         destruct (okr_then_fallback s (clock s) (clock s - start) _ _ a b c d e eq_refl Q2) as (B1 & B2 & B3 & B4)
       end;
       unfold okc; cbn [fst snd]; split; [exact B1|]; split; [tt|]; split; [dd|]; exact B4.
Qed.

Lemma end_fb_ok st id f s :
  clock (fst (end_fb st id f s)) = clock s /\ stored s (fst (end_fb st id f s)) /\
  forall cs fbstart ran derived, find_call id s = Some cs -> cs_phase cs = PFb fbstart ran derived ->
    T fbstart (snd (end_fb st id f s)) /\ D (clock s - fbstart) (snd (end_fb st id f s)).
Proof.
  unfold end_fb.
  destruct (find_call id s) as [cs|].
  2:{ cbn [fst snd]. split; [reflexivity|]. split; [apply stored_same; reflexivity|]. intros; discriminate. }
  destruct (cs_phase cs) as [start expected derived| |fbstart ran derived] eqn:Ep.
  1,2: cbn [fst snd]; (split; [reflexivity|]); (split; [apply stored_same; reflexivity|]);
       intros cs' fb' r' d' H1 H2; injection H1 as <-; rewrite Ep in H2; discriminate H2.
  assert (HS : stored s (drop_call id (set_fbs s (fbs s - 1)))) by (apply stored_drop; reflexivity).
  destruct f as [|k|v]; cbn [fst snd]; (split; [reflexivity|]); (split; [exact HS|]);
    intros cs' fb' r' d' H1 H2; injection H1 as <-; rewrite Ep in H2; injection H2 as <- <- <-; (split; [tt | dd]).
Qed.

Lemma fst_step st s ev : fst (step st s ev) = fst (step_core st s ev).
Proof. unfold step. destruct (step_core st s ev); reflexivity. Qed.
Lemma snd_step st s ev : snd (step st s ev) = snd (step_core st s ev) ++ [reading st (fst (step_core st s ev))].
Proof. unfold step. destruct (step_core st s ev); reflexivity. Qed.

(* ---------- the theorems ---------- *)
Lemma times_are_readings (st : static) : forall s ev,
  is_endfb_b ev = false ->
  Forall (fun t => t = clock s) (obs_times (snd (step st s ev))).
Proof.
  intros s ev Hev. change (T (clock s) (snd (step st s ev))). rewrite snd_step.
  apply T_app; [|apply T_reading].
  destruct ev as [id c|id e|id f|id| | |l|d|k]; cbn [step_core snd]; try apply T_nil.
  - apply (begin_call_ok st id c 0 s).
  - apply (end_run_ok st id e s).
  - discriminate Hev.
  - apply (open_circuit_ok st (clock s) 0 s).
  - apply (close_circuit_ok st (clock s) true false 0 s).
Qed.

Lemma fallback_times (st : static) : forall s id f cs fbstart ran derived,
  find_call id s = Some cs -> cs_phase cs = PFb fbstart ran derived ->
  Forall (fun t => t = fbstart) (obs_times (snd (step st s (EndFb id f)))) /\
  Forall (fun d => d = clock s - fbstart) (obs_durations (snd (step st s (EndFb id f)))).
Proof.
  intros s id f cs fbstart ran derived Hf Hp.
  destruct (end_fb_ok st id f s) as (_ & _ & H). destruct (H cs fbstart ran derived Hf Hp) as [HT HD].
  rewrite snd_step. cbn [step_core]. split.
  - apply (T_app fbstart); [exact HT | apply T_reading].
  - apply (D_app (clock s - fbstart)); [exact HD | apply D_reading].
Qed.

Lemma run_durations (st : static) : forall s id e cs start expected derived,
  find_call id s = Some cs -> cs_phase cs = PRun start expected derived ->
  Forall (fun d => d = clock s - start) (obs_durations (snd (step st s (EndRun id e)))).
Proof.
  intros s id e cs start expected derived Hf Hp.
  destruct (end_run_ok st id e s) as (_ & _ & HD & _).
  unfold run_dur in HD. rewrite Hf, Hp in HD.
  rewrite snd_step. cbn [step_core].
  apply (D_app (clock s - start)); [exact HD | apply D_reading].
Qed.

Lemma step_core_stored st s ev : stored s (fst (step_core st s ev)).
Proof.
  destruct ev as [id c|id e|id f|id| | |l|d|k]; cbn [step_core fst].
  - apply (begin_call_ok st id c 0 s).
  - apply (end_run_ok st id e s).
  - apply (end_fb_ok st id f s).
  - unfold cancel_call. destruct (find_call id s) as [cs|] eqn:Hf.
    + apply stored_cancel. exact Hf.
    + apply stored_same; reflexivity.
  - apply stored_same. apply (open_circuit_ok st (clock s) 0 s).
  - apply stored_same. apply (close_circuit_ok st (clock s) true false 0 s).
  - apply stored_same; reflexivity.
  - apply stored_same; reflexivity.
  - apply stored_same; reflexivity.
Qed.

Lemma stored_readings (st : static) : forall s ev id cs,
  find_call id s = None ->
  find_call id (fst (step st s ev)) = Some cs ->
  match cs_phase cs with
  | PRun start _ _ => start = clock s
  | PFb fbstart _ _ => fbstart = clock s
  | PPass => True
  end.
Proof.
  intros s ev id cs Hn Hf. rewrite fst_step in Hf.
  destruct (step_core_stored st s ev id cs Hf) as [L | (cs0 & A & _)].
  - exact L.
  - congruence.
Qed.

Lemma stored_fallback_reading (st : static) : forall s id e cs cs' start expected derived fbstart ran d,
  find_call id s = Some cs -> cs_phase cs = PRun start expected derived ->
  find_call id (fst (step st s (EndRun id e))) = Some cs' -> cs_phase cs' = PFb fbstart ran d ->
  fbstart = clock s.
Proof.
  intros s id e cs cs' start expected derived fbstart ran d Hf Hp Hf' Hp'. rewrite fst_step in Hf'.
  destruct (step_core_stored st s (EndRun id e) id cs' Hf') as [L | (cs0 & A & B)].
  - unfold fresh_ok in L. rewrite Hp' in L. exact L.
  - rewrite Hf in A. injection A as <-. congruence.
Qed.

Lemma clock_moves_only_by_tick (st : static) : forall s ev,
  clock (fst (step st s ev)) = match ev with Tick d => clock s + d | _ => clock s end.
Proof.
  intros s ev. rewrite fst_step.
  destruct ev as [id c|id e|id f|id| | |l|d|k]; cbn [step_core fst].
  - apply (begin_call_ok st id c 0 s).
  - apply (end_run_ok st id e s).
  - apply (end_fb_ok st id f s).
  - unfold cancel_call. destruct (find_call id s); reflexivity.
  - apply (open_circuit_ok st (clock s) 0 s).
  - apply (close_circuit_ok st (clock s) true false 0 s).
  - reflexivity.
  - reflexivity.
  - reflexivity.
Qed.
