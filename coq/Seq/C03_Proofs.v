(* Seq/C03_Proofs.v — proofs behind Properties/C03.v: recovery of the hystrix
   closer (sleep window, bounded half-open probes, close on successes). *)
From CV Require Import Base.Prelude Seq.RollingCounter Seq.TimedCheck Seq.Logic Seq.Circuit Seq.CircuitSpec Seq.LogicSpec.
From Coq Require Import ZifyBool.

(* ====================================================================== *)
(* generic list facts and projections                                      *)
(* ====================================================================== *)
Lemma filter_map_false {A B} (p : B -> bool) (f : A -> B) (l : list A) :
  (forall x, p (f x) = false) -> filter p (map f l) = [].
Proof.
  intros H. induction l as [|a l IH]; [reflexivity|].
  cbn [map filter]. rewrite H. exact IH.
Qed.

Lemma fm_map_nil {A B C} (f : B -> list C) (g : A -> B) (l : list A) :
  (forall x, f (g x) = []) -> flat_map f (map g l) = [].
Proof.
  intros H. induction l as [|a l IH]; [reflexivity|].
  cbn [map flat_map]. rewrite H, IH. reflexivity.
Qed.

Lemma existsb_map_false {A B} (p : B -> bool) (f : A -> B) (l : list A) :
  (forall x, p (f x) = false) -> existsb p (map f l) = false.
Proof.
  intros H. induction l as [|a l IH]; [reflexivity|].
  cbn [map existsb]. rewrite H, IH. reflexivity.
Qed.

Lemma any_circ_ev_app a b : any_circ_ev (a ++ b) = any_circ_ev a ++ any_circ_ev b.
Proof. apply filter_app. Qed.
Lemma circ_evs_app w a b : circ_evs w (a ++ b) = circ_evs w a ++ circ_evs w b.
Proof. apply flat_map_app. Qed.
Lemma circ_evs_cons w x l : circ_evs w (x :: l) = circ_evs w [x] ++ circ_evs w l.
Proof. apply (circ_evs_app w [x] l). Qed.

Lemma any_circ_ev_reading st s : any_circ_ev [reading st s] = [].
Proof. unfold reading. destruct (s_mode st); reflexivity. Qed.
Lemma circ_evs_reading w st s : circ_evs w [reading st s] = [].
Proof. unfold reading. destruct (s_mode st); reflexivity. Qed.

(* the closer's view of an observation list *)
Definition cview (o : list obs) : list cev := flat_map obs_cev o.
Lemma cview_app a b : cview (a ++ b) = cview a ++ cview b.
Proof. apply flat_map_app. Qed.
Lemma cview_cons x l : cview (x :: l) = obs_cev x ++ cview l.
Proof. reflexivity. Qed.
Lemma cview_reading st s : cview [reading st s] = [].
Proof. unfold reading. destruct (s_mode st); reflexivity. Qed.
Lemma cview_users (f : who -> obs) n :
  (forall i, obs_cev (f (WUser i)) = []) -> cview (map f (users n)) = [].
Proof.
  intros H. unfold users, cview. rewrite map_map. apply fm_map_nil. exact H.
Qed.

(* was the run function of call id entered in this observation list? *)
Definition hasinv (id : nat) (l : list obs) : bool :=
  existsb (fun o => match o with ORunInvoked i _ _ => Nat.eqb i id | _ => false end) l.
Lemma hasinv_app id a b : hasinv id (a ++ b) = hasinv id a || hasinv id b.
Proof. apply existsb_app. Qed.

(* ---------- fan-out to the user collectors ---------- *)
Lemma circ_evs_users_other w k t n :
  (forall i, w <> WUser i) -> circ_evs w (map (fun w' => OCircEv w' k t) (users n)) = [].
Proof.
  intros H. unfold users, circ_evs. rewrite map_map. apply fm_map_nil.
  intros i. destruct w as [| |j]; try reflexivity. exfalso. apply (H j). reflexivity.
Qed.

Lemma circ_evs_users_seq i k t : forall n a,
  circ_evs (WUser i) (map (fun w' => OCircEv w' k t) (map WUser (seq a n))) =
  if ((a <=? i) && (i <? a + n))%nat then [(k, t)] else [].
Proof.
  induction n as [|n IH]; intros a.
  - cbn [seq map circ_evs flat_map]. destruct ((a <=? i) && (i <? a + 0))%nat eqn:E; [lia|reflexivity].
  - cbn [seq map]. rewrite circ_evs_cons, IH. cbn [circ_evs flat_map who_eqb app].
    destruct (Nat.eqb i a) eqn:E1;
      destruct ((S a <=? i) && (i <? S a + n))%nat eqn:E2;
      destruct ((a <=? i) && (i <? a + S n))%nat eqn:E3; try lia; reflexivity.
Qed.

Lemma circ_evs_users_in i k t n :
  In (WUser i) (users n) -> circ_evs (WUser i) (map (fun w' => OCircEv w' k t) (users n)) = [(k, t)].
Proof.
  intros H. unfold users in *. rewrite circ_evs_users_seq.
  apply in_map_iff in H. destruct H as (j & E & Hj). injection E as ->.
  apply in_seq in Hj. destruct ((0 <=? i) && (i <? 0 + n))%nat eqn:E; [reflexivity|lia].
Qed.

(* ====================================================================== *)
(* the building blocks of a segment                                        *)
(* ====================================================================== *)
Lemma emit_circ_eq st k t s :
  emit_circ st k t s =
  (set_logic s (opener_circ k t (opn s)) (fst (closer_circ t (cls s))),
   OCircEv WCloser k t :: map OTimer (snd (closer_circ t (cls s))) ++
   OCircEv WOpener k t :: map (fun w => OCircEv w k t) (users (s_ncirc st))).
Proof. unfold emit_circ. destruct (closer_circ t (cls s)); reflexivity. Qed.

(* every circuit collector gets exactly one notification *)
Lemma emit_circ_evs st k t s w :
  In w (circ_collectors st) -> circ_evs w (snd (emit_circ st k t s)) = [(k, t)].
Proof.
  intros H. rewrite emit_circ_eq. cbn [snd].
  rewrite circ_evs_cons, circ_evs_app, (circ_evs_cons w (OCircEv WOpener k t)).
  assert (T : forall l, circ_evs w (map OTimer l) = []).
  { intros l. unfold circ_evs. apply fm_map_nil. reflexivity. }
  rewrite T. cbn [app].
  destruct H as [<-|[<-|H]].
  - rewrite circ_evs_users_other by discriminate. reflexivity.
  - rewrite circ_evs_users_other by discriminate. reflexivity.
  - unfold users in H. apply in_map_iff in H. destruct H as (j & <- & Hj).
    rewrite circ_evs_users_in; [reflexivity|].
    unfold users. apply in_map. exact Hj.
Qed.

Lemma emit_run_any_circ st k t d s : any_circ_ev (snd (emit_run st k t d s)) = [].
Proof. unfold emit_run. cbn [snd]. apply filter_map_false. reflexivity. Qed.
Lemma emit_run_circ_evs w st k t d s : circ_evs w (snd (emit_run st k t d s)) = [].
Proof. unfold emit_run. cbn [snd]. apply fm_map_nil. reflexivity. Qed.
Lemma emit_fb_any_circ st k t d : any_circ_ev (emit_fb st k t d) = [].
Proof. unfold emit_fb. apply filter_map_false. reflexivity. Qed.
Lemma emit_fb_circ_evs w st k t d : circ_evs w (emit_fb st k t d) = [].
Proof. unfold emit_fb. apply fm_map_nil. reflexivity. Qed.
Lemma emit_fb_cview st k t d : cview (emit_fb st k t d) = [].
Proof. unfold emit_fb. apply fm_map_nil. reflexivity. Qed.
Lemma emit_fb_hasinv id st k t d : hasinv id (emit_fb st k t d) = false.
Proof. unfold emit_fb. apply existsb_map_false. reflexivity. Qed.

Lemma emit_run_cview st k t d s : cview (snd (emit_run st k t d s)) = [CRun k].
Proof.
  unfold emit_run, run_collectors. cbn [snd map]. rewrite !cview_cons. cbn [obs_cev app].
  rewrite cview_users by reflexivity. reflexivity.
Qed.
Lemma emit_run_hasinv id st k t d s : hasinv id (snd (emit_run st k t d s)) = false.
Proof. unfold emit_run. cbn [snd]. apply existsb_map_false. reflexivity. Qed.

Lemma emit_circ_cview st k t s : cview (snd (emit_circ st k t s)) = [CCirc k t].
Proof.
  rewrite emit_circ_eq. cbn [snd]. rewrite cview_cons, cview_app, cview_cons.
  cbn [obs_cev app]. rewrite cview_users by reflexivity.
  replace (cview (map OTimer _)) with (@nil cev); [reflexivity|].
  symmetry. apply fm_map_nil. reflexivity.
Qed.

(* the fallback stage does not touch the circuit state or the closer *)
Lemma fallback_facts st cs err ran derived s :
  let r := fallback_stage st cs err ran derived s in
  cfg (fst r) = cfg s /\ flag (fst r) = flag s /\ cls (fst r) = cls s /\ clock (fst r) = clock s /\
  any_circ_ev (snd r) = [] /\ (forall w, circ_evs w (snd r) = []) /\ cview (snd r) = [] /\
  (forall id, hasinv id (snd r) = false).
Proof.
  cbn zeta. unfold fallback_stage.
  destruct (negb (has_fb_eff (cs_call cs)) || l_fb_disabled (cfg s)).
  { cbn. repeat split; reflexivity. }
  destruct ((0 <=? l_fb_max (cfg s)) && (l_fb_max (cfg s) <? fbs s + 1)).
  - cbn [fst snd drop_call set_calls cfg flag cls clock].
    rewrite any_circ_ev_app, emit_fb_any_circ, cview_app, emit_fb_cview.
    repeat split; try reflexivity.
    + intros w. rewrite circ_evs_app, emit_fb_circ_evs. reflexivity.
    + intros id. rewrite hasinv_app, emit_fb_hasinv. reflexivity.
  - cbn. repeat split; reflexivity.
Qed.

(* ====================================================================== *)
(* C03: a closed, not overridden circuit admits everything                 *)
(* ====================================================================== *)
Lemma then_admits_all : forall s c, flag s = false -> not_overridden s -> shed_by_open s c = false.
Proof.
  intros s c F [FO FC]. unfold shed_by_open, is_open. rewrite FO, FC, F. reflexivity.
Qed.

(* ====================================================================== *)
(* one step, the parts of a segment and what they leave alone              *)
(* ====================================================================== *)
Lemma step_eq st s ev :
  step st s ev = (fst (step_core st s ev),
                  snd (step_core st s ev) ++ [reading st (fst (step_core st s ev))]).
Proof. unfold step. destruct (step_core st s ev); reflexivity. Qed.

Lemma emit_run_facts st k t d s :
  let r := emit_run st k t d s in
  cfg (fst r) = cfg s /\ flag (fst r) = flag s /\ clock (fst r) = clock s /\
  cls (fst r) = closer_run k (cls s) /\ is_open (fst r) = is_open s.
Proof. cbn zeta. unfold emit_run. cbn. repeat split; reflexivity. Qed.

Lemma emit_circ_facts st k t s :
  let r := emit_circ st k t s in
  cfg (fst r) = cfg s /\ flag (fst r) = flag s /\ clock (fst r) = clock s /\
  cls (fst r) = fst (closer_circ t (cls s)).
Proof. cbn zeta. rewrite emit_circ_eq. cbn. repeat split; reflexivity. Qed.

Lemma attempt_to_open_flag st now ans s :
  flag s = true -> attempt_to_open st now ans s = (s, []).
Proof.
  intros F. unfold attempt_to_open, is_open.
  destruct (l_forced_closed (cfg s)); [reflexivity|].
  destruct (l_force_open (cfg s)); [reflexivity|]. rewrite F. reflexivity.
Qed.

(* ---------- the middle of EndRun: classification, fan-out, transition ---------- *)
Definition end_mid (st : static) (e : endinfo) (cs : callst) (expected : option Z) (dur : Z) (s : state)
  : state * list obs :=
  let now := clock s in
  let r := e_res e in
  let timed_out := match expected with Some x => x <? now | None => false end in
  let interrupted := negb (res_is_nil r) && cs_done cs && negb (l_ignore_int (cfg s)) && ie_says (l_ie (cfg s)) in
  if res_is_bad r then emit_run st KBadRequest now (Some dur) s
  else if timed_out then
    let (sa, oa) := emit_run st KTimeout now (Some dur) s in
    if negb (is_open sa) then let (sb, ob) := attempt_to_open st now (e_should_open e) sa in (sb, oa ++ ob)
    else (sa, oa)
  else if interrupted then emit_run st KInterrupt now (Some dur) s
  else if negb (res_is_nil r) then
    let (sa, oa) := emit_run st KFailure now (Some dur) s in
    if negb (is_open sa) then let (sb, ob) := attempt_to_open st now (e_should_open e) sa in (sb, oa ++ ob)
    else (sa, oa)
  else
    let (sa, oa) := emit_run st KSuccess now (Some dur) s in
    if is_open sa then let (sb, ob) := close_circuit st now false (e_should_close e) sa in (sb, oa ++ ob)
    else (sa, oa).

Lemma end_run_PRun st id e s cs start expected derived :
  find_call id s = Some cs -> cs_phase cs = PRun start expected derived -> res_panics (e_res e) = false ->
  end_run st id e s =
    let after := if derived then true else cs_done cs in
    let seen := ORunEnd id (cs_done cs) in
    let r := e_res e in
    let '(s1, o1) := end_mid st e cs expected (clock s - start) s in
    let s2 := set_cmds s1 (cmds s1 - 1) in
    if res_is_nil r then (drop_call id s2, seen :: o1 ++ [OReturned id VNil after])
    else if res_is_bad r then (drop_call id s2, seen :: o1 ++ [OReturned id (res_val r) after])
    else let (s3, o3) := fallback_stage st cs (res_val r) true derived s2 in (s3, seen :: o1 ++ o3).
Proof.
  intros F P R. unfold end_run. rewrite F, P. unfold end_mid.
  destruct (e_res e); try discriminate; reflexivity.
Qed.

Lemma end_run_PRun_facts st id e s cs start expected derived :
  find_call id s = Some cs -> cs_phase cs = PRun start expected derived -> res_panics (e_res e) = false ->
  let r := end_run st id e s in
  let m := end_mid st e cs expected (clock s - start) s in
  cfg (fst r) = cfg (fst m) /\ flag (fst r) = flag (fst m) /\ cls (fst r) = cls (fst m) /\
  clock (fst r) = clock (fst m) /\
  any_circ_ev (snd r) = any_circ_ev (snd m) /\ (forall w, circ_evs w (snd r) = circ_evs w (snd m)) /\
  cview (snd r) = cview (snd m).
Proof.
  intros F P R. cbn zeta. rewrite (end_run_PRun st id e s cs start expected derived F P R). cbn zeta.
  destruct (end_mid st e cs expected (clock s - start) s) as [s1 o1]. cbn [fst snd].
  destruct (res_is_nil (e_res e)); [|destruct (res_is_bad (e_res e))].
  - cbn [fst snd drop_call set_calls set_cmds cfg flag cls clock].
    repeat split; try reflexivity.
    + change (ORunEnd id (cs_done cs) :: o1 ++ [OReturned id VNil (if derived then true else cs_done cs)])
        with ([ORunEnd id (cs_done cs)] ++ o1 ++ [OReturned id VNil (if derived then true else cs_done cs)]).
      rewrite !any_circ_ev_app. cbn. apply app_nil_r.
    + intros w. rewrite circ_evs_cons, circ_evs_app. cbn. apply app_nil_r.
    + rewrite cview_cons, cview_app. cbn. apply app_nil_r.
  - cbn [fst snd drop_call set_calls set_cmds cfg flag cls clock].
    repeat split; try reflexivity.
    + change (ORunEnd id (cs_done cs) :: o1 ++ [OReturned id (res_val (e_res e)) (if derived then true else cs_done cs)])
        with ([ORunEnd id (cs_done cs)] ++ o1 ++ [OReturned id (res_val (e_res e)) (if derived then true else cs_done cs)]).
      rewrite !any_circ_ev_app. cbn. apply app_nil_r.
    + intros w. rewrite circ_evs_cons, circ_evs_app. cbn. apply app_nil_r.
    + rewrite cview_cons, cview_app. cbn. apply app_nil_r.
  - pose proof (fallback_facts st cs (res_val (e_res e)) true derived (set_cmds s1 (cmds s1 - 1))) as H.
    cbn zeta in H.
    destruct (fallback_stage st cs (res_val (e_res e)) true derived (set_cmds s1 (cmds s1 - 1))) as [s3 o3].
    cbn [fst snd] in *. destruct H as (H1 & H2 & H3 & H4 & H5 & H6 & H7 & _).
    repeat split; try assumption.
    + change (ORunEnd id (cs_done cs) :: o1 ++ o3) with ([ORunEnd id (cs_done cs)] ++ o1 ++ o3).
      rewrite !any_circ_ev_app, H5. cbn. apply app_nil_r.
    + intros w. rewrite circ_evs_cons, circ_evs_app, H6. cbn. apply app_nil_r.
    + rewrite cview_cons, cview_app, H7. cbn. apply app_nil_r.
Qed.

(* ====================================================================== *)
(* C03: forced open stays open                                             *)
(* ====================================================================== *)
Lemma end_mid_forced st e cs expected dur s :
  l_force_open (cfg s) = true ->
  let m := end_mid st e cs expected dur s in
  flag (fst m) = flag s /\ any_circ_ev (snd m) = [].
Proof.
  intros FO. cbn zeta. unfold end_mid.
  assert (O : forall k d, is_open (fst (emit_run st k (clock s) d s)) = true).
  { intros k d. unfold is_open. cbn. rewrite FO. reflexivity. }
  assert (Fl : forall k d, flag (fst (emit_run st k (clock s) d s)) = flag s) by reflexivity.
  assert (Cf : forall k d, cfg (fst (emit_run st k (clock s) d s)) = cfg s) by reflexivity.
  repeat match goal with
  | |- context [if ?b then _ else _] =>
      match b with
      | context [emit_run] => fail 1
      | _ => destruct b
      end
  end;
  try (split; [apply Fl | apply emit_run_any_circ]).
  - specialize (O KTimeout (Some dur)). specialize (Fl KTimeout (Some dur)).
    pose proof (emit_run_any_circ st KTimeout (clock s) (Some dur) s) as A.
    destruct (emit_run st KTimeout (clock s) (Some dur) s) as [sa oa]. cbn [fst snd] in *.
    rewrite O. cbn [negb fst snd]. split; assumption.
  - specialize (O KFailure (Some dur)). specialize (Fl KFailure (Some dur)).
    pose proof (emit_run_any_circ st KFailure (clock s) (Some dur) s) as A.
    destruct (emit_run st KFailure (clock s) (Some dur) s) as [sa oa]. cbn [fst snd] in *.
    rewrite O. cbn [negb fst snd]. split; assumption.
  - specialize (O KSuccess (Some dur)). specialize (Fl KSuccess (Some dur)).
    specialize (Cf KSuccess (Some dur)).
    pose proof (emit_run_any_circ st KSuccess (clock s) (Some dur) s) as A.
    destruct (emit_run st KSuccess (clock s) (Some dur) s) as [sa oa]. cbn [fst snd] in *.
    rewrite O. unfold close_circuit. rewrite O, Cf, FO. cbn [negb fst snd].
    rewrite app_nil_r. split; assumption.
Qed.

Lemma forced_open_stays (st : static) : forall s id e,
  l_force_open (cfg s) = true ->
  flag (fst (step st s (EndRun id e))) = flag s /\ any_circ_ev (snd (step st s (EndRun id e))) = [].
Proof.
  intros s id e FO. rewrite step_eq. cbn [step_core fst snd].
  rewrite any_circ_ev_app, any_circ_ev_reading, app_nil_r.
  destruct (find_call id s) as [cs|] eqn:F; [|unfold end_run; rewrite F; split; reflexivity].
  destruct (cs_phase cs) as [start expected derived| |a b c] eqn:P;
    [|unfold end_run; rewrite F, P; split; reflexivity ..].
  destruct (res_panics (e_res e)) eqn:R.
  - unfold end_run. rewrite F, P. destruct (e_res e); try discriminate. split; reflexivity.
  - destruct (end_run_PRun_facts st id e s cs start expected derived F P R) as (_ & H2 & _ & _ & H5 & _).
    destruct (end_mid_forced st e cs expected (clock s - start) s FO) as [M1 M2].
    rewrite H2, H5. split; assumption.
Qed.

(* ====================================================================== *)
(* C03: CloseCircuit closes                                                *)
(* ====================================================================== *)
Lemma close_circuit_closes (st : static) : forall s w,
  is_open s = true -> l_force_open (cfg s) = false -> In w (circ_collectors st) ->
  flag (fst (step st s CloseCircuit)) = false /\ circ_evs w (snd (step st s CloseCircuit)) = [(Closed, clock s)].
Proof.
  intros s w O FO W. rewrite step_eq. cbn [step_core fst snd].
  rewrite circ_evs_app, circ_evs_reading, app_nil_r.
  unfold close_circuit. rewrite O, FO. cbn [negb].
  pose proof (emit_circ_evs st Closed (clock s) s w W) as E.
  destruct (emit_circ st Closed (clock s) s) as [s1 o]. cbn [fst snd] in *.
  split; [reflexivity | exact E].
Qed.

(* ====================================================================== *)
(* C03: a failed probe keeps it open                                       *)
(* ====================================================================== *)
Lemma end_mid_error st e cs expected dur s :
  flag s = true ->
  is_error (classify (res_is_bad (e_res e))
                     (match expected with Some x => x <? clock s | None => false end)
                     (negb (res_is_nil (e_res e))) (cs_done cs) (l_ignore_int (cfg s)) (ie_says (l_ie (cfg s)))) = true ->
  let m := end_mid st e cs expected dur s in
  flag (fst m) = true /\ any_circ_ev (snd m) = [].
Proof.
  intros F C. cbn zeta. unfold end_mid. unfold classify in C.
  assert (X : forall k, let r := emit_run st k (clock s) (Some dur) s in
    (let (sa, oa) := r in
     if negb (is_open sa)
     then let (sb, ob) := attempt_to_open st (clock s) (e_should_open e) sa in (sb, oa ++ ob)
     else (sa, oa)) = r).
  { intros k. cbn zeta.
    pose proof (emit_run_facts st k (clock s) (Some dur) s) as H. cbn zeta in H.
    destruct (emit_run st k (clock s) (Some dur) s) as [sa oa]. cbn [fst snd] in H.
    destruct H as (_ & H2 & _).
    destruct (negb (is_open sa)); [|reflexivity].
    rewrite attempt_to_open_flag by congruence. rewrite app_nil_r. reflexivity. }
  destruct (res_is_bad (e_res e)); [discriminate|].
  destruct (match expected with Some x => x <? clock s | None => false end).
  { rewrite (X KTimeout). split; [exact F | apply emit_run_any_circ]. }
  destruct (negb (res_is_nil (e_res e)) && cs_done cs && negb (l_ignore_int (cfg s)) && ie_says (l_ie (cfg s)));
    [discriminate|].
  destruct (negb (res_is_nil (e_res e))); [|discriminate].
  rewrite (X KFailure). split; [exact F | apply emit_run_any_circ].
Qed.

Lemma failed_probe_keeps_open (st : static) : forall s id e cs start expected derived,
  find_call id s = Some cs -> cs_phase cs = PRun start expected derived -> res_panics (e_res e) = false ->
  flag s = true -> is_error (end_kind s cs e) = true ->
  flag (fst (step st s (EndRun id e))) = true /\ any_circ_ev (snd (step st s (EndRun id e))) = [].
Proof.
  intros s id e cs start expected derived F P R Fl K. rewrite step_eq. cbn [step_core fst snd].
  rewrite any_circ_ev_app, any_circ_ev_reading, app_nil_r.
  destruct (end_run_PRun_facts st id e s cs start expected derived F P R) as (_ & H2 & _ & _ & H5 & _).
  unfold end_kind in K. rewrite P in K.
  destruct (end_mid_error st e cs expected (clock s - start) s Fl K) as [M1 M2].
  rewrite H2, H5. split; assumption.
Qed.

(* ====================================================================== *)
(* C03: it closes exactly on the required number of consecutive successes  *)
(* ====================================================================== *)
Lemma end_mid_success st e cs expected dur s t succ need :
  flag s = true -> not_overridden s ->
  classify (res_is_bad (e_res e))
           (match expected with Some x => x <? clock s | None => false end)
           (negb (res_is_nil (e_res e))) (cs_done cs) (l_ignore_int (cfg s)) (ie_says (l_ie (cfg s))) = KSuccess ->
  cls s = ClHystrix t succ need -> 0 <= succ ->
  let m := end_mid st e cs expected dur s in
  flag (fst m) = negb (Z.max 1 need <=? succ + 1) /\
  forall w, In w (circ_collectors st) ->
    circ_evs w (snd m) = if flag (fst m) then [] else [(Closed, clock s)].
Proof.
  intros F [FO FC] C CL S0. cbn zeta. unfold end_mid. unfold classify in C.
  destruct (res_is_bad (e_res e)); [discriminate|].
  destruct (match expected with Some x => x <? clock s | None => false end); [discriminate|].
  destruct (negb (res_is_nil (e_res e)) && cs_done cs && negb (l_ignore_int (cfg s)) && ie_says (l_ie (cfg s)));
    [discriminate|].
  destruct (negb (res_is_nil (e_res e))); [discriminate|].
  pose proof (emit_run_facts st KSuccess (clock s) (Some dur) s) as H. cbn zeta in H.
  pose proof (fun w => emit_run_circ_evs w st KSuccess (clock s) (Some dur) s) as HE.
  destruct (emit_run st KSuccess (clock s) (Some dur) s) as [sa oa]. cbn [fst snd] in H, HE.
  destruct H as (H1 & H2 & H3 & H4 & H5).
  assert (O : is_open sa = true) by (rewrite H5; unfold is_open; rewrite FO, FC; exact F).
  rewrite O. unfold close_circuit. rewrite O, H1, FO. cbn [negb].
  rewrite H4, CL. cbn [closer_run closer_should_close].
  destruct (need <=? succ + 1) eqn:N.
  - pose proof (emit_circ_facts st Closed (clock s) sa) as G. cbn zeta in G.
    pose proof (fun w => emit_circ_evs st Closed (clock s) sa w) as GE.
    destruct (emit_circ st Closed (clock s) sa) as [s1 o]. cbn [fst snd] in *.
    cbn [flag set_flag]. split; [lia|]. intros w W.
    rewrite circ_evs_app, HE, circ_evs_cons, (GE w W). reflexivity.
  - cbn [fst snd]. rewrite H2, F. split; [lia|]. intros w W.
    rewrite circ_evs_app, HE. reflexivity.
Qed.

Lemma closes_iff (st : static) : forall s id e cs start expected derived t succ need,
  find_call id s = Some cs -> cs_phase cs = PRun start expected derived -> res_panics (e_res e) = false ->
  flag s = true -> not_overridden s -> end_kind s cs e = KSuccess ->
  cls s = ClHystrix t succ need -> 0 <= succ ->
  let s' := fst (step st s (EndRun id e)) in
  flag s' = negb (Z.max 1 need <=? succ + 1) /\
  forall w, In w (circ_collectors st) ->
    circ_evs w (snd (step st s (EndRun id e))) = if flag s' then [] else [(Closed, clock s)].
Proof.
  intros s id e cs start expected derived t succ need F P R Fl NO K CL S0. cbn zeta.
  rewrite step_eq. cbn [step_core fst snd].
  destruct (end_run_PRun_facts st id e s cs start expected derived F P R) as (_ & H2 & _ & _ & _ & H6 & _).
  unfold end_kind in K. rewrite P in K.
  destruct (end_mid_success st e cs expected (clock s - start) s t succ need Fl NO K CL S0) as [M1 M2].
  rewrite H2. split; [exact M1|]. intros w W.
  rewrite circ_evs_app, circ_evs_reading, app_nil_r, H6. apply M2, W.
Qed.

(* ====================================================================== *)
(* C03: what the closer counts                                             *)
(* ====================================================================== *)
Definition ts_step (acc : Z) (e : cev) : Z :=
  match e with
  | CRun KSuccess => acc + 1
  | CRun KFailure | CRun KTimeout => 0
  | CCirc _ _ => 0
  | _ => acc
  end.

Lemma closer_feed_hystrix t0 s0 n0 e :
  exists t1, closer_feed (ClHystrix t0 s0 n0) e = ClHystrix t1 (ts_step s0 e) n0.
Proof.
  destruct e as [k|k t|t|k]; cbn [closer_feed ts_step].
  - destruct k; cbn; eexists; reflexivity.
  - cbn. eexists; reflexivity.
  - cbn [closer_allow]. destruct (tc_check t t0) as [[t1 b] a]. cbn. eexists; reflexivity.
  - cbn. eexists; reflexivity.
Qed.

Lemma closer_counts_gen : forall evs t0 s0 n0 t succ need,
  0 <= s0 ->
  closer_after (ClHystrix t0 s0 n0) evs = ClHystrix t succ need ->
  need = n0 /\ succ = fold_left ts_step evs s0 /\ 0 <= succ.
Proof.
  induction evs as [|e evs IH]; intros t0 s0 n0 t succ need S0 H.
  - cbn in H. injection H as -> -> ->. cbn. auto.
  - unfold closer_after in H. cbn [fold_left] in H.
    destruct (closer_feed_hystrix t0 s0 n0 e) as [t1 E]. rewrite E in H.
    cbn [fold_left]. apply (IH t1 (ts_step s0 e) n0 t succ need); [|exact H].
    destruct e as [k|k t'|t'|k]; cbn [ts_step]; try lia. destruct k; lia.
Qed.

Lemma closer_counts : forall sleep half req evs t succ need,
  closer_after (closer_init_hystrix sleep half req) evs = ClHystrix t succ need ->
  need = req /\ succ = trailing_successes evs /\ 0 <= succ.
Proof.
  intros sleep half req evs t succ need H. unfold closer_init_hystrix in H.
  apply closer_counts_gen in H; [|lia]. exact H.
Qed.

(* ====================================================================== *)
(* the closer is fed exactly what the observations show                    *)
(* ====================================================================== *)
(* every time argument the closer is given is the clock of the segment *)
Definition cev_at (now : Z) (e : cev) : Prop :=
  match e with CCirc _ t | CAllow t => t = now | _ => True end.

(* r = (state, observations) is an outcome reachable from s in which the closer was fed
   what the observations show, stamped `now`, and the clock did not move *)
Definition good (now : Z) (s : state) (r : state * list obs) : Prop :=
  cls (fst r) = closer_after (cls s) (cview (snd r)) /\
  clock (fst r) = clock s /\
  Forall (cev_at now) (cview (snd r)).

Lemma good_same now s s' o :
  cls s' = cls s -> clock s' = clock s -> cview o = [] -> good now s (s', o).
Proof. intros A B C. unfold good. cbn [fst snd]. rewrite C. cbn. auto. Qed.

Lemma good_trans now s s1 o1 s2 o2 :
  good now s (s1, o1) -> good now s1 (s2, o2) -> good now s (s2, o1 ++ o2).
Proof.
  unfold good. cbn [fst snd]. intros (A1 & B1 & C1) (A2 & B2 & C2).
  rewrite cview_app. unfold closer_after in *. rewrite fold_left_app, <- A1.
  repeat split; [exact A2 | congruence | apply Forall_app; split; assumption].
Qed.

Lemma good_post now s s1 o s2 o' :
  good now s (s1, o) -> cls s2 = cls s1 -> clock s2 = clock s1 -> cview o' = cview o ->
  good now s (s2, o').
Proof.
  unfold good. cbn [fst snd]. intros (A & B & C) E1 E2 E3. rewrite E3.
  repeat split; [congruence | congruence | exact C].
Qed.

Lemma emit_run_good now st k t d s : good now s (emit_run st k t d s).
Proof.
  unfold good. rewrite emit_run_cview. unfold emit_run. cbn.
  repeat split. constructor; [exact I | constructor].
Qed.

Lemma emit_circ_good st k now s : good now s (emit_circ st k now s).
Proof.
  unfold good. rewrite emit_circ_cview.
  destruct (emit_circ_facts st k now s) as (_ & _ & H3 & H4). cbn zeta in *.
  rewrite H3, H4. cbn. repeat split. constructor; [reflexivity | constructor].
Qed.

Lemma open_circuit_good st now s : good now s (open_circuit st now s).
Proof.
  unfold open_circuit.
  destruct (l_forced_closed (cfg s)); [apply good_same; reflexivity|].
  destruct (is_open s); [apply good_same; reflexivity|].
  pose proof (emit_circ_good st Opened now s) as G.
  destruct (emit_circ st Opened now s) as [s1 o].
  apply (good_post now s s1 o); [exact G | reflexivity ..].
Qed.

Lemma close_circuit_good st now force ans s : good now s (close_circuit st now force ans s).
Proof.
  unfold close_circuit.
  destruct (negb (is_open s)); [apply good_same; reflexivity|].
  destruct (l_force_open (cfg s)); [apply good_same; reflexivity|].
  pose proof (emit_circ_good st Closed now s) as G.
  destruct force.
  - destruct (emit_circ st Closed now s) as [s1 o].
    apply (good_post now s s1 o); [exact G | reflexivity ..].
  - destruct (closer_should_close ans (cls s)).
    + destruct (emit_circ st Closed now s) as [s1 o].
      apply (good_post now s s1 o); [exact G | reflexivity ..].
    + apply good_same; reflexivity.
Qed.

Lemma attempt_to_open_good st now ans s : good now s (attempt_to_open st now ans s).
Proof.
  unfold attempt_to_open.
  destruct (l_forced_closed (cfg s)); [apply good_same; reflexivity|].
  destruct (is_open s); [apply good_same; reflexivity|].
  destruct (opener_should_open now ans (opn s)) as [o1 b].
  destruct b; [|apply good_same; reflexivity].
  pose proof (open_circuit_good st now (set_logic s o1 (cls s))) as G.
  destruct (open_circuit st now (set_logic s o1 (cls s))) as [s2 o].
  unfold good in *. cbn [fst snd] in *. exact G.
Qed.

Lemma fallback_good now s0 s o st cs err ran derived :
  good now s0 (s, o) ->
  good now s0 (fst (fallback_stage st cs err ran derived s), o ++ snd (fallback_stage st cs err ran derived s)).
Proof.
  intros G. destruct (fallback_facts st cs err ran derived s) as (_ & _ & H3 & H4 & _ & _ & H7 & _).
  cbn zeta in *. apply (good_post now s0 s o); [exact G | exact H3 | exact H4 |].
  rewrite cview_app, H7. apply app_nil_r.
Qed.

Lemma end_mid_good st e cs expected dur s : good (clock s) s (end_mid st e cs expected dur s).
Proof.
  unfold end_mid.
  assert (X : forall k, good (clock s) s
    (let (sa, oa) := emit_run st k (clock s) (Some dur) s in
     if negb (is_open sa)
     then let (sb, ob) := attempt_to_open st (clock s) (e_should_open e) sa in (sb, oa ++ ob)
     else (sa, oa))).
  { intros k. pose proof (emit_run_good (clock s) st k (clock s) (Some dur) s) as G.
    destruct (emit_run st k (clock s) (Some dur) s) as [sa oa].
    destruct (negb (is_open sa)); [|exact G].
    pose proof (attempt_to_open_good st (clock s) (e_should_open e) sa) as G2.
    destruct (attempt_to_open st (clock s) (e_should_open e) sa) as [sb ob].
    apply (good_trans _ _ _ _ _ _ G G2). }
  destruct (res_is_bad (e_res e)); [apply emit_run_good|].
  destruct (match expected with Some x => x <? clock s | None => false end); [apply X|].
  destruct (negb (res_is_nil (e_res e)) && cs_done cs && negb (l_ignore_int (cfg s)) && ie_says (l_ie (cfg s)));
    [apply emit_run_good|].
  destruct (negb (res_is_nil (e_res e))); [apply X|].
  pose proof (emit_run_good (clock s) st KSuccess (clock s) (Some dur) s) as G.
  destruct (emit_run st KSuccess (clock s) (Some dur) s) as [sa oa].
  destruct (is_open sa); [|exact G].
  pose proof (close_circuit_good st (clock s) false (e_should_close e) sa) as G2.
  destruct (close_circuit st (clock s) false (e_should_close e) sa) as [sb ob].
  apply (good_trans _ _ _ _ _ _ G G2).
Qed.

Lemma end_run_good st id e s : good (clock s) s (end_run st id e s).
Proof.
  destruct (find_call id s) as [cs|] eqn:F; [|unfold end_run; rewrite F; apply good_same; reflexivity].
  destruct (cs_phase cs) as [start expected derived| |a b c] eqn:P;
    [|unfold end_run; rewrite F, P; apply good_same; reflexivity ..].
  destruct (res_panics (e_res e)) eqn:R.
  - unfold end_run. rewrite F, P. destruct (e_res e); try discriminate. apply good_same; reflexivity.
  - destruct (end_run_PRun_facts st id e s cs start expected derived F P R) as (_ & _ & H3 & H4 & _ & _ & H7).
    pose proof (end_mid_good st e cs expected (clock s - start) s) as G.
    cbn zeta in *. unfold good in *. rewrite H3, H4, H7. exact G.
Qed.

Lemma end_fb_good st id f s : good (clock s) s (end_fb st id f s).
Proof.
  unfold end_fb.
  destruct (find_call id s) as [cs|]; [|apply good_same; reflexivity].
  destruct (cs_phase cs) as [start expected derived| |a b c]; try (apply good_same; reflexivity).
  destruct f; apply good_same; try reflexivity.
  - rewrite cview_app, emit_fb_cview. reflexivity.
  - rewrite cview_app, emit_fb_cview. reflexivity.
Qed.

Lemma closer_allow_ans t a c : fst (fst (closer_allow t a c)) = fst (fst (closer_allow t false c)).
Proof.
  destruct c as [|t0 s0 n0|]; cbn [closer_allow]; reflexivity.
Qed.

Lemma good_snoc_quiet now s s1 o q : good now s (s1, o) -> cview q = [] -> good now s (s1, o ++ q).
Proof.
  intros G Q. apply (good_post now s s1 o); [exact G | reflexivity | reflexivity |].
  rewrite cview_app, Q. apply app_nil_r.
Qed.

Lemma begin_good st id c s : good (clock s) s (begin_call st id c s).
Proof.
  unfold begin_call.
  destruct (s_mode st); try (apply good_same; reflexivity).
  destruct (l_disabled (cfg s)); [apply good_same; reflexivity|].
  destruct (negb (c_has_run c)); [apply good_same; reflexivity|].
  match goal with |- good _ _ (let (_, _) := ?g in _) =>
    assert (G : good (clock s) s (fst (fst g), snd g));
      [| destruct g as [[s1 admitted] o1]; cbn [fst snd] in G ] end.
  { destruct (negb (is_open s)); [apply good_same; reflexivity|].
    destruct (l_force_open (cfg s)); [apply good_same; reflexivity|].
    destruct (closer_allow (clock s) (c_allow c) (cls s)) as [[cl1 b] timers] eqn:EA.
    cbn [fst snd]. unfold good. cbn [fst snd cls clock set_logic].
    rewrite cview_cons. cbn [obs_cev app].
    replace (cview (map OTimer timers)) with (@nil cev) by (symmetry; apply fm_map_nil; reflexivity).
    cbn [closer_after fold_left closer_feed]. rewrite <- (closer_allow_ans _ (c_allow c)), EA.
    repeat split. constructor; [reflexivity | constructor]. }
  set (cs0 := {| cs_id := id; cs_call := c; cs_phase := PPass; cs_done := c_done c |}).
  destruct (negb admitted).
  { pose proof (emit_run_good (clock s) st KShort (clock s) None s1) as G2.
    destruct (emit_run st KShort (clock s) None s1) as [s2 o2].
    pose proof (fallback_good _ _ _ _ st cs0 VCircuitOpen false false (good_trans _ _ _ _ _ _ G G2)) as G3.
    destruct (fallback_stage st cs0 VCircuitOpen false false s2) as [s3 o3].
    cbn [fst snd] in G3. rewrite <- app_assoc in G3. exact G3. }
  assert (G' : good (clock s) s (s1, o1 ++ [OAsked QPrevent (clock s)]))
    by (apply good_snoc_quiet; [exact G | reflexivity]).
  destruct (opener_prevent (c_prevent c) (opn s1)).
  { pose proof (fallback_good _ _ _ _ st cs0 VCircuitOpen false false G') as G3.
    destruct (fallback_stage st cs0 VCircuitOpen false false s1) as [s3 o3].
    cbn [fst snd] in G3. rewrite <- app_assoc in G3. exact G3. }
  destruct ((0 <=? l_max (cfg s1)) && (l_max (cfg s1) <? cmds s1 + 1)).
  { pose proof (emit_run_good (clock s) st KReject (clock s) None s1) as G2.
    destruct (emit_run st KReject (clock s) None s1) as [s2 o2].
    pose proof (fallback_good _ _ _ _ st cs0 VThrottled false false (good_trans _ _ _ _ _ _ G' G2)) as G3.
    destruct (fallback_stage st cs0 VThrottled false false s2) as [s3 o3].
    cbn [fst snd] in G3. rewrite <- !app_assoc in G3. exact G3. }
  apply (good_post _ _ _ _ _ _ G); [reflexivity | reflexivity |].
  rewrite cview_app. cbn. apply app_nil_r.
Qed.

(* ---------- one step ---------- *)
Definition ev_view (ev : event) (o : list obs) : list cev :=
  match ev with TimerFire k => [CFire k] | _ => cview o end.

Lemma closer_view_cons ev o tr : closer_view ((ev, o) :: tr) = ev_view ev o ++ closer_view tr.
Proof. unfold closer_view. cbn [flat_map fst snd]. destruct ev; reflexivity. Qed.

Lemma step_good st s ev :
  let r := step st s ev in
  cls (fst r) = closer_after (cls s) (ev_view ev (snd r)) /\
  Forall (cev_at (clock s)) (ev_view ev (snd r)) /\
  clock (fst r) = match ev with Tick d => clock s + d | _ => clock s end.
Proof.
  cbn zeta. rewrite step_eq. cbn [fst snd].
  assert (X : forall r, good (clock s) s r ->
     cls (fst r) = closer_after (cls s) (cview (snd r ++ [reading st (fst r)])) /\
     Forall (cev_at (clock s)) (cview (snd r ++ [reading st (fst r)])) /\
     clock (fst r) = clock s).
  { intros r (A & B & C). rewrite cview_app, cview_reading, app_nil_r. auto. }
  destruct ev as [id c|id e|id f|id| | |l|d|k]; cbn [step_core ev_view].
  - apply X, begin_good.
  - apply X, end_run_good.
  - apply X, end_fb_good.
  - apply X. unfold cancel_call. destruct (find_call id s); apply good_same; reflexivity.
  - apply X, open_circuit_good.
  - apply X, close_circuit_good.
  - apply X, good_same; reflexivity.
  - cbn [fst snd app]. rewrite cview_reading. cbn. auto.
  - cbn [fst snd app]. cbn. repeat split. constructor; [exact I | constructor].
Qed.

Lemma closer_fed_by_observations (st : static) : forall s h,
  cls (state_after st s h) = closer_after (cls s) (closer_view (trace_from st s h)).
Proof.
  intros s h. revert s. induction h as [|ev h IH]; intros s; [reflexivity|].
  unfold state_after in *. cbn [fold_left trace_from].
  destruct (step_good st s ev) as (A & _ & _). cbn zeta in A.
  destruct (step st s ev) as [s1 o]. cbn [fst snd] in *.
  rewrite closer_view_cons. unfold closer_after in *. rewrite fold_left_app, <- A. apply IH.
Qed.

(* ====================================================================== *)
(* C03: nothing is admitted within SleepWindow of the opening              *)
(* ====================================================================== *)
Definition lo_step (acc : option Z) (o : obs) : option Z :=
  match o with OCircEv WCloser Opened t => Some t | _ => acc end.
Definition loc_step (acc : option Z) (e : cev) : option Z :=
  match e with CCirc Opened t => Some t | _ => acc end.

Lemma lo_cview o : forall acc, fold_left lo_step o acc = fold_left loc_step (cview o) acc.
Proof.
  induction o as [|x o IH]; intros acc; [reflexivity|].
  rewrite cview_cons, fold_left_app. cbn [fold_left]. rewrite IH. f_equal.
  destruct x; try reflexivity.
  - destruct w; reflexivity.
  - destruct w; try reflexivity.
  - destruct q; reflexivity.
Qed.

Lemma lo_ev_view st s ev acc :
  fold_left lo_step (snd (step st s ev)) acc = fold_left loc_step (ev_view ev (snd (step st s ev))) acc.
Proof.
  destruct ev; try apply lo_cview.
  rewrite step_eq. cbn [step_core fst snd app ev_view fold_left]. unfold reading.
  destruct (s_mode st); reflexivity.
Qed.

(* the closer is the hystrix closer with this sleep window, and its check stays shut until
   SleepWindow after the latest opening *)
Definition sw_inv (sleep clk : Z) (c : closer) (acc : option Z) : Prop :=
  exists t succ need, c = ClHystrix t succ need /\ tc_sleep t = sleep /\
    forall T, acc = Some T -> T + sleep <= tc_next t /\ T <= clk.

Lemma sw_feed sleep clk c acc e :
  cev_at clk e -> sw_inv sleep clk c acc -> sw_inv sleep clk (closer_feed c e) (loc_step acc e).
Proof.
  intros At (t & succ & need & -> & Sl & H).
  destruct e as [k|k t'|t'|k]; cbn [closer_feed loc_step cev_at] in *.
  - destruct k; cbn [closer_run]; eexists _, _, _; repeat split; try reflexivity; try exact Sl; apply H; assumption.
  - subst t'. cbn [closer_circ tc_sleep_start tc_rearm fst].
    eexists _, _, _. split; [reflexivity|]. cbn [tc_sleep tc_next]. split; [exact Sl|].
    intros T E. destruct k.
    + injection E as <-. lia.
    + specialize (H T E). lia.
  - subst t'. cbn [closer_allow]. unfold tc_check.
    destruct (tc_fastfail t); [cbn [fst]; eexists _, _, _; repeat split; try reflexivity; try exact Sl; apply H; assumption|].
    destruct (clk <? tc_next t); [cbn [fst]; eexists _, _, _; repeat split; try reflexivity; try exact Sl; apply H; assumption|].
    cbn [tc_budget tc_count].
    destruct (tc_budget t <=? tc_count t + 1).
    + cbn [tc_rearm fst tc_sleep tc_version tc_timers tc_budget].
      eexists _, _, _. split; [reflexivity|]. cbn [tc_sleep tc_next]. split; [exact Sl|].
      intros T E. specialize (H T E). lia.
    + cbn [fst]. eexists _, _, _. split; [reflexivity|]. cbn [tc_sleep tc_next]. split; [exact Sl|].
      exact H.
  - cbn [closer_fire]. unfold tc_fire.
    destruct (nth_error (tc_timers t) k) as [v|]; [destruct (v =? tc_version t)|];
      eexists _, _, _; (split; [reflexivity|]); cbn [tc_sleep tc_next]; (split; [exact Sl | exact H]).
Qed.

Lemma sw_feed_all sleep clk v : forall c acc,
  Forall (cev_at clk) v -> sw_inv sleep clk c acc ->
  sw_inv sleep clk (closer_after c v) (fold_left loc_step v acc).
Proof.
  induction v as [|e v IH]; intros c acc F I; [exact I|].
  inversion_clear F as [|? ? Fe Fv]. unfold closer_after in *. cbn [fold_left].
  apply IH; [exact Fv|]. apply sw_feed; assumption.
Qed.

Lemma sw_step st sleep s acc ev :
  match ev with Tick d => 0 <= d | _ => True end ->
  sw_inv sleep (clock s) (cls s) acc ->
  sw_inv sleep (clock (fst (step st s ev))) (cls (fst (step st s ev)))
         (fold_left lo_step (snd (step st s ev)) acc).
Proof.
  intros Tk I. rewrite lo_ev_view.
  destruct (step_good st s ev) as (A & B & C). cbn zeta in *. rewrite A.
  pose proof (sw_feed_all sleep (clock s) _ _ _ B I) as (t & succ & need & E1 & E2 & E3).
  exists t, succ, need. split; [exact E1|]. split; [exact E2|].
  intros T ET. specialize (E3 T ET). rewrite C. destruct ev; lia.
Qed.

Lemma sw_history st sleep : forall h s acc,
  ticks_forward h -> sw_inv sleep (clock s) (cls s) acc ->
  sw_inv sleep (clock (state_after st s h)) (cls (state_after st s h))
         (fold_left lo_step (all_obs (trace_from st s h)) acc).
Proof.
  induction h as [|ev h IH]; intros s acc TF I; [exact I|].
  inversion_clear TF as [|? ? Tev Th].
  unfold state_after in *. cbn [fold_left trace_from].
  pose proof (sw_step st sleep s acc ev Tev I) as I1.
  destruct (step st s ev) as [s1 o]. cbn [fst snd] in *.
  unfold all_obs. cbn [flat_map snd]. rewrite fold_left_app.
  apply IH; assumption.
Qed.

Lemma sleep_window (st : static) : forall l op sleep half req t0 h T c,
  let s0 := init_state l op (closer_init_hystrix sleep half req) t0 in
  let s := state_after st s0 h in
  ticks_forward h ->
  flag s = true -> last_opened (all_obs (trace_from st s0 h)) = Some T ->
  clock s < T + sleep -> is_open s = true ->
  shed_by_open s c = true.
Proof.
  intros l op sleep half req t0 h T c s0 s TF _ LO Lt O.
  assert (I0 : sw_inv sleep (clock s0) (cls s0) None).
  { exists (tc_init sleep half), 0, req. repeat split; try reflexivity; discriminate. }
  pose proof (sw_history st sleep h s0 None TF I0) as (t & succ & need & E1 & E2 & E3).
  fold s in E1, E3. change (fold_left lo_step ?x None) with (last_opened x) in E3.
  specialize (E3 T LO).
  unfold shed_by_open, closer_admits. rewrite O, E1. cbn [closer_allow]. unfold tc_check.
  destruct (tc_fastfail t); [cbn; apply orb_true_r|].
  destruct (clock s <? tc_next t) eqn:E; [cbn; apply orb_true_r | lia].
Qed.

(* ====================================================================== *)
(* C03: at most max(1, HalfOpenAttempts) admissions in any span < SleepWindow *)
(* ====================================================================== *)
Definition probe_of (id : nat) (o : list obs) : list Z :=
  match o with
  | OAsked QAllow t :: rest => if hasinv id rest then [t] else []
  | _ => []
  end.

Lemma hasinv_reading id st s : hasinv id [reading st s] = false.
Proof. unfold reading. destruct (s_mode st); reflexivity. Qed.
Lemma hasinv_cons id x l :
  hasinv id (x :: l) = (match x with ORunInvoked i _ _ => Nat.eqb i id | _ => false end) || hasinv id l.
Proof. reflexivity. Qed.
Lemma hasinv_timers id l : hasinv id (map OTimer l) = false.
Proof. apply existsb_map_false. reflexivity. Qed.

(* a Begin segment shows an admitted probe only when the closer's Allow said yes, and then
   the closer is left exactly as Allow left it *)
Lemma begin_probe st id c s :
  let r := step st s (Begin id c) in
  admitted_probe (Begin id c, snd r) = [] \/
  (admitted_probe (Begin id c, snd r) = [clock s] /\ closer_admits s c = true /\
   cls (fst r) = fst (fst (closer_allow (clock s) (c_allow c) (cls s)))).
Proof.
  cbn zeta. rewrite step_eq. cbn [step_core fst snd].
  change (admitted_probe (Begin id c, ?o)) with (probe_of id o).
  unfold begin_call.
  destruct (s_mode st); try (left; reflexivity).
  destruct (l_disabled (cfg s)); [left; reflexivity|].
  destruct (negb (c_has_run c)); [left; reflexivity|].
  set (cs0 := {| cs_id := id; cs_call := c; cs_phase := PPass; cs_done := c_done c |}).
  destruct (negb (is_open s)).
  { (* closed: Allow is not consulted *)
    left. cbn [negb app].
    destruct (opener_prevent (c_prevent c) (opn s)).
    { destruct (fallback_stage st cs0 VCircuitOpen false false s) as [s3 o3]. reflexivity. }
    destruct ((0 <=? l_max (cfg s)) && (l_max (cfg s) <? cmds s + 1)).
    { destruct (emit_run st KReject (clock s) None s) as [s2 o2].
      destruct (fallback_stage st cs0 VThrottled false false s2) as [s3 o3]. reflexivity. }
    reflexivity. }
  destruct (l_force_open (cfg s)).
  { left. cbn [negb app]. unfold emit_run, run_collectors. cbn [map].
    destruct (fallback_stage st cs0 VCircuitOpen false false _) as [s3 o3]. reflexivity. }
  unfold closer_admits.
  destruct (closer_allow (clock s) (c_allow c) (cls s)) as [[cl1 b] timers]. cbn [fst snd].
  destruct b; cbn [negb].
  2:{ left.
      pose proof (emit_run_hasinv id st KShort (clock s) None
                    (set_logic s (opn s) cl1)) as H2.
      destruct (emit_run st KShort (clock s) None (set_logic s (opn s) cl1)) as [s2 o2].
      destruct (fallback_facts st cs0 VCircuitOpen false false s2) as (_ & _ & _ & _ & _ & _ & _ & H3).
      cbn zeta in H3. specialize (H3 id).
      destruct (fallback_stage st cs0 VCircuitOpen false false s2) as [s3 o3].
      cbn [fst snd app probe_of] in *.
      rewrite !hasinv_app, hasinv_timers, H2, H3, hasinv_reading. reflexivity. }
  destruct (opener_prevent (c_prevent c) (opn (set_logic s (opn s) cl1))).
  { left.
    destruct (fallback_facts st cs0 VCircuitOpen false false (set_logic s (opn s) cl1))
      as (_ & _ & _ & _ & _ & _ & _ & H3).
    cbn zeta in H3. specialize (H3 id).
    destruct (fallback_stage st cs0 VCircuitOpen false false (set_logic s (opn s) cl1)) as [s3 o3].
    cbn [fst snd app probe_of] in *.
    rewrite !hasinv_app, hasinv_timers, hasinv_cons, H3, hasinv_reading. reflexivity. }
  destruct ((0 <=? l_max (cfg (set_logic s (opn s) cl1))) &&
            (l_max (cfg (set_logic s (opn s) cl1)) <? cmds (set_logic s (opn s) cl1) + 1)).
  { left.
    pose proof (emit_run_hasinv id st KReject (clock s) None (set_logic s (opn s) cl1)) as H2.
    destruct (emit_run st KReject (clock s) None (set_logic s (opn s) cl1)) as [s2 o2].
    destruct (fallback_facts st cs0 VThrottled false false s2) as (_ & _ & _ & _ & _ & _ & _ & H3).
    cbn zeta in H3. specialize (H3 id).
    destruct (fallback_stage st cs0 VThrottled false false s2) as [s3 o3].
    cbn [fst snd app probe_of] in *.
    rewrite !hasinv_app, hasinv_timers, hasinv_cons, hasinv_app, H2, H3, hasinv_reading. reflexivity. }
  right. cbn [fst snd app probe_of].
  rewrite !hasinv_app, hasinv_timers, !hasinv_cons, Nat.eqb_refl.
  cbn [orb]. repeat split; reflexivity.
Qed.

Definition spaced (K : nat) (sleep : Z) (A : list Z) : Prop :=
  forall i, (i + K < length A)%nat -> sleep <= nth (i + K) A 0 - nth i A 0.

(* A: the admitted probe stamps so far.  All but (at most) the last tc_count of them were
   admitted no later than the latest re-arm, so they lie a full sleep window before the
   instant the check opens again *)
Definition bp_inv (sleep half clk : Z) (c : closer) (A : list Z) : Prop :=
  exists t succ need, c = ClHystrix t succ need /\ tc_sleep t = sleep /\ tc_budget t = half /\
    0 <= tc_count t < Z.max 1 half /\
    Forall (fun a => a <= clk) A /\
    (forall j, Z.of_nat j + tc_count t < Z.of_nat (length A) -> nth j A 0 + sleep <= tc_next t) /\
    spaced (Z.to_nat (Z.max 1 half)) sleep A.

Lemma Forall_nth_le clk (A : list Z) j :
  Forall (fun a => a <= clk) A -> (j < length A)%nat -> nth j A 0 <= clk.
Proof.
  intros F L. rewrite Forall_forall in F. apply F. apply nth_In. exact L.
Qed.

Lemma bp_feed sleep half clk c A e :
  cev_at clk e -> bp_inv sleep half clk c A -> bp_inv sleep half clk (closer_feed c e) A.
Proof.
  intros At (t & succ & need & -> & Sl & Bu & Cn & Le & Nx & Sp).
  destruct e as [k|k t'|t'|k]; cbn [closer_feed cev_at] in *.
  - destruct k; cbn [closer_run]; exists t; eexists _, _; repeat split; try reflexivity; try assumption; lia.
  - subst t'. cbn [closer_circ tc_sleep_start tc_rearm fst].
    eexists _, _, _. split; [reflexivity|]. cbn [tc_sleep tc_next tc_budget tc_count].
    repeat split; try assumption; try lia.
    intros j Hj. pose proof (Forall_nth_le clk A j Le). lia.
  - subst t'. cbn [closer_allow]. unfold tc_check.
    destruct (tc_fastfail t);
      [cbn [fst]; exists t; eexists _, _; repeat split; try reflexivity; try assumption; lia|].
    destruct (clk <? tc_next t);
      [cbn [fst]; exists t; eexists _, _; repeat split; try reflexivity; try assumption; lia|].
    cbn [tc_budget tc_count].
    destruct (tc_budget t <=? tc_count t + 1) eqn:B.
    + cbn [tc_rearm fst tc_sleep tc_version tc_timers tc_budget].
      eexists _, _, _. split; [reflexivity|]. cbn [tc_sleep tc_next tc_budget tc_count].
      repeat split; try assumption; try lia.
      intros j Hj. pose proof (Forall_nth_le clk A j Le). lia.
    + cbn [fst]. eexists _, _, _. split; [reflexivity|]. cbn [tc_sleep tc_next tc_budget tc_count].
      repeat split; try assumption; try lia.
      intros j Hj. apply Nx. lia.
  - cbn [closer_fire]. unfold tc_fire.
    destruct (nth_error (tc_timers t) k) as [v|]; [destruct (v =? tc_version t)|];
      eexists _, _, _; (split; [reflexivity|]); cbn [tc_sleep tc_next tc_budget tc_count];
      repeat split; try assumption; lia.
Qed.

Lemma bp_feed_all sleep half clk A v : forall c,
  Forall (cev_at clk) v -> bp_inv sleep half clk c A -> bp_inv sleep half clk (closer_after c v) A.
Proof.
  induction v as [|e v IH]; intros c F I; [exact I|].
  inversion_clear F as [|? ? Fe Fv]. unfold closer_after in *. cbn [fold_left].
  apply IH; [exact Fv|]. apply bp_feed; assumption.
Qed.

Lemma spaced_snoc K sleep A t :
  (1 <= K)%nat -> spaced K sleep A ->
  (forall i, (i + K = length A)%nat -> nth i A 0 + sleep <= t) ->
  spaced K sleep (A ++ [t]).
Proof.
  intros HK Sp New i Hi. rewrite app_length in Hi. cbn [length] in Hi.
  destruct (Nat.eq_dec (i + K) (length A)) as [E|NE].
  - rewrite (@app_nth1 _ A [t] 0 i) by lia. rewrite app_nth2 by lia.
    replace (i + K - length A)%nat with 0%nat by lia. cbn [nth].
    specialize (New i E). lia.
  - rewrite !app_nth1 by lia. apply Sp. lia.
Qed.

Lemma bp_admit sleep half clk c A ans :
  bp_inv sleep half clk c A ->
  snd (fst (closer_allow clk ans c)) = true ->
  bp_inv sleep half clk (fst (fst (closer_allow clk ans c))) (A ++ [clk]).
Proof.
  intros (t & succ & need & -> & Sl & Bu & Cn & Le & Nx & Sp). cbn [closer_allow]. unfold tc_check.
  destruct (tc_fastfail t); [cbn; discriminate|].
  destruct (clk <? tc_next t) eqn:Lt; [cbn; discriminate|].
  intros _.
  assert (Le' : Forall (fun a => a <= clk) (A ++ [clk])).
  { apply Forall_app. split; [exact Le|]. constructor; [lia | constructor]. }
  assert (Sp' : spaced (Z.to_nat (Z.max 1 half)) sleep (A ++ [clk])).
  { apply spaced_snoc; [lia | exact Sp |]. intros i Hi.
    assert (nth i A 0 + sleep <= tc_next t) by (apply Nx; lia). lia. }
  cbn [tc_budget tc_count].
  destruct (tc_budget t <=? tc_count t + 1) eqn:B.
  - cbn [tc_rearm fst tc_sleep tc_version tc_timers tc_budget].
    eexists _, _, _. split; [reflexivity|]. cbn [tc_sleep tc_next tc_budget tc_count].
    repeat split; try assumption; try lia.
    intros j Hj. pose proof (Forall_nth_le clk (A ++ [clk]) j Le'). lia.
  - cbn [fst]. eexists _, _, _. split; [reflexivity|]. cbn [tc_sleep tc_next tc_budget tc_count].
    repeat split; try assumption; try lia.
    intros j Hj. rewrite app_length in Hj. cbn [length] in Hj.
    rewrite app_nth1 by lia. apply Nx. lia.
Qed.

Lemma bp_tick sleep half clk d c A :
  0 <= d -> bp_inv sleep half clk c A -> bp_inv sleep half (clk + d) c A.
Proof.
  intros Hd (t & succ & need & -> & Sl & Bu & Cn & Le & Nx & Sp).
  exists t, succ, need. repeat split; try assumption; try lia.
  eapply Forall_impl; [|exact Le]. cbn. intros; lia.
Qed.

Lemma bp_step st sleep half s A ev :
  match ev with Tick d => 0 <= d | _ => True end ->
  bp_inv sleep half (clock s) (cls s) A ->
  bp_inv sleep half (clock (fst (step st s ev))) (cls (fst (step st s ev)))
         (A ++ admitted_probe (ev, snd (step st s ev))).
Proof.
  intros Tk I.
  destruct (step_good st s ev) as (G1 & G2 & G3). cbn zeta in *.
  assert (Q : admitted_probe (ev, snd (step st s ev)) = [] ->
              bp_inv sleep half (clock (fst (step st s ev))) (cls (fst (step st s ev)))
                     (A ++ admitted_probe (ev, snd (step st s ev)))).
  { intros ->. rewrite app_nil_r, G1, G3.
    pose proof (bp_feed_all sleep half (clock s) A _ _ G2 I) as I1.
    destruct ev; try exact I1. apply bp_tick; assumption. }
  destruct ev as [id c|id e|id f|id| | |l|d|k]; try (apply Q; reflexivity).
  destruct (begin_probe st id c s) as [E|(E1 & E2 & E3)]; cbn zeta in *; [apply Q, E|].
  rewrite E1, E3, G3. apply bp_admit; [exact I | exact E2].
Qed.

Lemma bp_history st sleep half : forall h s A,
  ticks_forward h -> bp_inv sleep half (clock s) (cls s) A ->
  bp_inv sleep half (clock (state_after st s h)) (cls (state_after st s h))
         (A ++ probe_stamps (trace_from st s h)).
Proof.
  induction h as [|ev h IH]; intros s A TF I; [cbn; rewrite app_nil_r; exact I|].
  inversion_clear TF as [|? ? Tev Th].
  unfold state_after in *. cbn [fold_left trace_from].
  pose proof (bp_step st sleep half s A ev Tev I) as I1.
  destruct (step st s ev) as [s1 o]. cbn [fst snd] in *.
  unfold probe_stamps. cbn [flat_map]. rewrite app_assoc.
  apply IH; assumption.
Qed.

Lemma budget_per_span (st : static) : forall l op sleep half req t0 h i,
  let s0 := init_state l op (closer_init_hystrix sleep half req) t0 in
  let A := probe_stamps (trace_from st s0 h) in
  ticks_forward h ->
  (i + Z.to_nat (Z.max 1 half) < length A)%nat ->
  sleep <= nth (i + Z.to_nat (Z.max 1 half)) A 0 - nth i A 0.
Proof.
  intros l op sleep half req t0 h i s0 A TF Hi.
  assert (I0 : bp_inv sleep half (clock s0) (cls s0) []).
  { exists (tc_init sleep half), 0, req.
    unfold tc_init. cbn [tc_sleep tc_budget tc_count tc_next length].
    repeat split; try reflexivity; try lia.
    - constructor.
    - intros j Hj. cbn [length] in Hj. lia. }
  pose proof (bp_history st sleep half h s0 [] TF I0) as (t & succ & need & _ & _ & _ & _ & _ & _ & Sp).
  cbn [app] in Sp. apply Sp. exact Hi.
Qed.
