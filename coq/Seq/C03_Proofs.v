(* Seq/C03_Proofs.v — proofs behind Properties/C03.v: recovery of the hystrix
   closer (sleep window, bounded half-open probes, close on successes). *)
From CV Require Import Base.Prelude Seq.RollingCounter Seq.TimedCheck Seq.Logic Seq.Circuit Seq.CircuitSpec Seq.LogicSpec.
From Coq Require Import ZifyBool.

(* ====================================================================== *)
(* generic list facts and projections                                      *)
(* ====================================================================== *)
Lemma filter_map_false {A B} (p : B -> bool) (f : A -> B) (l : list A) :
  (forall x, p (f x) = false) -> filter p (map f l) = [].
Proof.
  intros H. induction l as [|a l IH]; [reflexivity|].
  cbn [map filter]. rewrite H. exact IH.
Qed.

Lemma fm_map_nil {A B C} (f : B -> list C) (g : A -> B) (l : list A) :
  (forall x, f (g x) = []) -> flat_map f (map g l) = [].
Proof.
  intros H. induction l as [|a l IH]; [reflexivity|].
  cbn [map flat_map]. rewrite H, IH. reflexivity.
Qed.

Lemma existsb_map_false {A B} (p : B -> bool) (f : A -> B) (l : list A) :
  (forall x, p (f x) = false) -> existsb p (map f l) = false.
Proof.
  intros H. induction l as [|a l IH]; [reflexivity|].
  cbn [map existsb]. rewrite H, IH. reflexivity.
Qed.

Lemma any_circ_ev_app a b : any_circ_ev (a ++ b) = any_circ_ev a ++ any_circ_ev b.
Proof. apply filter_app. Qed.
Lemma circ_evs_app w a b : circ_evs w (a ++ b) = circ_evs w a ++ circ_evs w b.
Proof. apply flat_map_app. Qed.
Lemma circ_evs_cons w x l : circ_evs w (x :: l) = circ_evs w [x] ++ circ_evs w l.
Proof. apply (circ_evs_app w [x] l). Qed.

Lemma any_circ_ev_reading st s : any_circ_ev [reading st s] = [].
Proof. unfold reading. destruct (s_mode st); reflexivity. Qed.
Lemma circ_evs_reading w st s : circ_evs w [reading st s] = [].
Proof. unfold reading. destruct (s_mode st); reflexivity. Qed.

(* the closer's view of an observation list *)
Definition cview (o : list obs) : list cev := flat_map obs_cev o.
Lemma cview_app a b : cview (a ++ b) = cview a ++ cview b.
Proof. apply flat_map_app. Qed.
Lemma cview_cons x l : cview (x :: l) = obs_cev x ++ cview l.
Proof. reflexivity. Qed.
Lemma cview_reading st s : cview [reading st s] = [].
Proof. unfold reading. destruct (s_mode st); reflexivity. Qed.
Lemma cview_users (f : who -> obs) n :
  (forall i, obs_cev (f (WUser i)) = []) -> cview (map f (users n)) = [].
Proof.
  intros H. unfold users, cview. rewrite map_map. apply fm_map_nil. exact H.
Qed.

(* was the run function of call id entered in this observation list? *)
Definition hasinv (id : nat) (l : list obs) : bool :=
  existsb (fun o => match o with ORunInvoked i _ _ => Nat.eqb i id | _ => false end) l.
Lemma hasinv_app id a b : hasinv id (a ++ b) = hasinv id a || hasinv id b.
Proof. apply existsb_app. Qed.

(* ---------- fan-out to the user collectors ---------- *)
Lemma circ_evs_users_other w k t n :
  (forall i, w <> WUser i) -> circ_evs w (map (fun w' => OCircEv w' k t) (users n)) = [].
Proof.
  intros H. unfold users, circ_evs. rewrite map_map. apply fm_map_nil.
  intros i. destruct w as [| |j]; try reflexivity. exfalso. apply (H j). reflexivity.
Qed.

Lemma circ_evs_users_seq i k t : forall n a,
  circ_evs (WUser i) (map (fun w' => OCircEv w' k t) (map WUser (seq a n))) =
  if ((a <=? i) && (i <? a + n))%nat then [(k, t)] else [].
Proof.
  induction n as [|n IH]; intros a.
  - cbn [seq map circ_evs flat_map]. destruct ((a <=? i) && (i <? a + 0))%nat eqn:E; [lia|reflexivity].
  - cbn [seq map]. rewrite circ_evs_cons, IH. cbn [circ_evs flat_map who_eqb app].
    destruct (Nat.eqb i a) eqn:E1;
      destruct ((S a <=? i) && (i <? S a + n))%nat eqn:E2;
      destruct ((a <=? i) && (i <? a + S n))%nat eqn:E3; try lia; reflexivity.
Qed.

Lemma circ_evs_users_in i k t n :
  In (WUser i) (users n) -> circ_evs (WUser i) (map (fun w' => OCircEv w' k t) (users n)) = [(k, t)].
Proof.
  intros H. unfold users in *. rewrite circ_evs_users_seq.
  apply in_map_iff in H. destruct H as (j & E & Hj). injection E as ->.
  apply in_seq in Hj. destruct ((0 <=? i) && (i <? 0 + n))%nat eqn:E; [reflexivity|lia].
Qed.

(* ====================================================================== *)
(* the building blocks of a segment                                        *)
(* ====================================================================== *)
Lemma emit_circ_eq st k t s :
  emit_circ st k t s =
  (set_logic s (opener_circ k t (opn s)) (fst (closer_circ t (cls s))),
   OCircEv WCloser k t :: map OTimer (snd (closer_circ t (cls s))) ++
   OCircEv WOpener k t :: map (fun w => OCircEv w k t) (users (s_ncirc st))).
Proof. unfold emit_circ. destruct (closer_circ t (cls s)); reflexivity. Qed.

(* every circuit collector gets exactly one notification *)
Lemma emit_circ_evs st k t s w :
  In w (circ_collectors st) -> circ_evs w (snd (emit_circ st k t s)) = [(k, t)].
Proof.
  intros H. rewrite emit_circ_eq. cbn [snd].
  rewrite circ_evs_cons, circ_evs_app, (circ_evs_cons w (OCircEv WOpener k t)).
  assert (T : forall l, circ_evs w (map OTimer l) = []).
  { intros l. unfold circ_evs. apply fm_map_nil. reflexivity. }
  rewrite T. cbn [app].
  destruct H as [<-|[<-|H]].
  - rewrite circ_evs_users_other by discriminate. reflexivity.
  - rewrite circ_evs_users_other by discriminate. reflexivity.
  - unfold users in H. apply in_map_iff in H. destruct H as (j & <- & Hj).
    rewrite circ_evs_users_in; [reflexivity|].
    unfold users. apply in_map. exact Hj.
Qed.

Lemma emit_run_any_circ st k t d s : any_circ_ev (snd (emit_run st k t d s)) = [].
Proof. unfold emit_run. cbn [snd]. apply filter_map_false. reflexivity. Qed.
Lemma emit_run_circ_evs w st k t d s : circ_evs w (snd (emit_run st k t d s)) = [].
Proof. unfold emit_run. cbn [snd]. apply fm_map_nil. reflexivity. Qed.
Lemma emit_fb_any_circ st k t d : any_circ_ev (emit_fb st k t d) = [].
Proof. unfold emit_fb. apply filter_map_false. reflexivity. Qed.
Lemma emit_fb_circ_evs w st k t d : circ_evs w (emit_fb st k t d) = [].
Proof. unfold emit_fb. apply fm_map_nil. reflexivity. Qed.
Lemma emit_fb_cview st k t d : cview (emit_fb st k t d) = [].
Proof. unfold emit_fb. apply fm_map_nil. reflexivity. Qed.
Lemma emit_fb_hasinv id st k t d : hasinv id (emit_fb st k t d) = false.
Proof. unfold emit_fb. apply existsb_map_false. reflexivity. Qed.

Lemma emit_run_cview st k t d s : cview (snd (emit_run st k t d s)) = [CRun k].
Proof.
  unfold emit_run, run_collectors. cbn [snd map]. rewrite !cview_cons. cbn [obs_cev app].
  rewrite cview_users by reflexivity. reflexivity.
Qed.
Lemma emit_run_hasinv id st k t d s : hasinv id (snd (emit_run st k t d s)) = false.
Proof. unfold emit_run. cbn [snd]. apply existsb_map_false. reflexivity. Qed.

Lemma emit_circ_cview st k t s : cview (snd (emit_circ st k t s)) = [CCirc k t].
Proof.
  rewrite emit_circ_eq. cbn [snd]. rewrite cview_cons, cview_app, cview_cons.
  cbn [obs_cev app]. rewrite cview_users by reflexivity.
  replace (cview (map OTimer _)) with (@nil cev); [reflexivity|].
  symmetry. apply fm_map_nil. reflexivity.
Qed.

(* the fallback stage does not touch the circuit state or the closer *)
Lemma fallback_facts st cs err ran derived s :
  let r := fallback_stage st cs err ran derived s in
  cfg (fst r) = cfg s /\ flag (fst r) = flag s /\ cls (fst r) = cls s /\ clock (fst r) = clock s /\
  any_circ_ev (snd r) = [] /\ (forall w, circ_evs w (snd r) = []) /\ cview (snd r) = [] /\
  (forall id, hasinv id (snd r) = false).
Proof.
  cbn zeta. unfold fallback_stage.
  destruct (negb (has_fb_eff (cs_call cs)) || l_fb_disabled (cfg s)).
  { cbn. repeat split; reflexivity. }
  destruct ((0 <=? l_fb_max (cfg s)) && (l_fb_max (cfg s) <? fbs s + 1)).
  - cbn [fst snd drop_call set_calls cfg flag cls clock].
    rewrite any_circ_ev_app, emit_fb_any_circ, cview_app, emit_fb_cview.
    repeat split; try reflexivity.
    + intros w. rewrite circ_evs_app, emit_fb_circ_evs. reflexivity.
    + intros id. rewrite hasinv_app, emit_fb_hasinv. reflexivity.
  - cbn. repeat split; reflexivity.
Qed.

(* ====================================================================== *)
(* C03: a closed, not overridden circuit admits everything                 *)
(* ====================================================================== *)
Lemma then_admits_all : forall s c, flag s = false -> not_overridden s -> shed_by_open s c = false.
Proof.
  intros s c F [FO FC]. unfold shed_by_open, is_open. rewrite FO, FC, F. reflexivity.
Qed.

(* ====================================================================== *)
(* one step, the parts of a segment and what they leave alone              *)
(* ====================================================================== *)
Lemma step_eq st s ev :
  step st s ev = (fst (step_core st s ev),
                  snd (step_core st s ev) ++ [reading st (fst (step_core st s ev))]).
Proof. unfold step. destruct (step_core st s ev); reflexivity. Qed.

Lemma emit_run_facts st k t d s :
  let r := emit_run st k t d s in
  cfg (fst r) = cfg s /\ flag (fst r) = flag s /\ clock (fst r) = clock s /\
  cls (fst r) = closer_run k (cls s) /\ is_open (fst r) = is_open s.
Proof. cbn zeta. unfold emit_run. cbn. repeat split; reflexivity. Qed.

Lemma emit_circ_facts st k t s :
  let r := emit_circ st k t s in
  cfg (fst r) = cfg s /\ flag (fst r) = flag s /\ clock (fst r) = clock s /\
  cls (fst r) = fst (closer_circ t (cls s)).
Proof. cbn zeta. rewrite emit_circ_eq. cbn. repeat split; reflexivity. Qed.

Lemma attempt_to_open_flag st now ans s :
  flag s = true -> attempt_to_open st now ans s = (s, []).
Proof.
  intros F. unfold attempt_to_open, is_open.
  destruct (l_forced_closed (cfg s)); [reflexivity|].
  destruct (l_force_open (cfg s)); [reflexivity|]. rewrite F. reflexivity.
Qed.

(* ---------- the middle of EndRun: classification, fan-out, transition ---------- *)
Definition end_mid (st : static) (e : endinfo) (cs : callst) (expected : option Z) (dur : Z) (s : state)
  : state * list obs :=
  let now := clock s in
  let r := e_res e in
  let timed_out := match expected with Some x => x <? now | None => false end in
  let interrupted := negb (res_is_nil r) && cs_done cs && negb (l_ignore_int (cfg s)) && ie_says (l_ie (cfg s)) in
  if res_is_bad r then emit_run st KBadRequest now (Some dur) s
  else if timed_out then
    let (sa, oa) := emit_run st KTimeout now (Some dur) s in
    if negb (is_open sa) then let (sb, ob) := attempt_to_open st now (e_should_open e) sa in (sb, oa ++ ob)
    else (sa, oa)
  else if interrupted then emit_run st KInterrupt now (Some dur) s
  else if negb (res_is_nil r) then
    let (sa, oa) := emit_run st KFailure now (Some dur) s in
    if negb (is_open sa) then let (sb, ob) := attempt_to_open st now (e_should_open e) sa in (sb, oa ++ ob)
    else (sa, oa)
  else
    let (sa, oa) := emit_run st KSuccess now (Some dur) s in
    if is_open sa then let (sb, ob) := close_circuit st now false (e_should_close e) sa in (sb, oa ++ ob)
    else (sa, oa).

Lemma end_run_PRun st id e s cs start expected derived :
  find_call id s = Some cs -> cs_phase cs = PRun start expected derived -> res_panics (e_res e) = false ->
  end_run st id e s =
    let after := if derived then true else cs_done cs in
    let seen := ORunEnd id (cs_done cs) in
    let r := e_res e in
    let '(s1, o1) := end_mid st e cs expected (clock s - start) s in
    let s2 := set_cmds s1 (cmds s1 - 1) in
    if res_is_nil r then (drop_call id s2, seen :: o1 ++ [OReturned id VNil after])
    else if res_is_bad r then (drop_call id s2, seen :: o1 ++ [OReturned id (res_val r) after])
    else let (s3, o3) := fallback_stage st cs (res_val r) true derived s2 in (s3, seen :: o1 ++ o3).
Proof.
  intros F P R. unfold end_run. rewrite F, P. unfold end_mid.
  destruct (e_res e); try discriminate; reflexivity.
Qed.

Lemma end_run_PRun_facts st id e s cs start expected derived :
  find_call id s = Some cs -> cs_phase cs = PRun start expected derived -> res_panics (e_res e) = false ->
  let r := end_run st id e s in
  let m := end_mid st e cs expected (clock s - start) s in
  cfg (fst r) = cfg (fst m) /\ flag (fst r) = flag (fst m) /\ cls (fst r) = cls (fst m) /\
  clock (fst r) = clock (fst m) /\
  any_circ_ev (snd r) = any_circ_ev (snd m) /\ (forall w, circ_evs w (snd r) = circ_evs w (snd m)) /\
  cview (snd r) = cview (snd m).
Proof.
  intros F P R. cbn zeta. rewrite (end_run_PRun st id e s cs start expected derived F P R). cbn zeta.
  destruct (end_mid st e cs expected (clock s - start) s) as [s1 o1]. cbn [fst snd].
  destruct (res_is_nil (e_res e)); [|destruct (res_is_bad (e_res e))].
  - cbn [fst snd drop_call set_calls set_cmds cfg flag cls clock].
    repeat split; try reflexivity.
    + change (ORunEnd id (cs_done cs) :: o1 ++ [OReturned id VNil (if derived then true else cs_done cs)])
        with ([ORunEnd id (cs_done cs)] ++ o1 ++ [OReturned id VNil (if derived then true else cs_done cs)]).
      rewrite !any_circ_ev_app. cbn. apply app_nil_r.
    + intros w. rewrite circ_evs_cons, circ_evs_app. cbn. apply app_nil_r.
    + rewrite cview_cons, cview_app. cbn. apply app_nil_r.
  - cbn [fst snd drop_call set_calls set_cmds cfg flag cls clock].
    repeat split; try reflexivity.
    + change (ORunEnd id (cs_done cs) :: o1 ++ [OReturned id (res_val (e_res e)) (if derived then true else cs_done cs)])
        with ([ORunEnd id (cs_done cs)] ++ o1 ++ [OReturned id (res_val (e_res e)) (if derived then true else cs_done cs)]).
      rewrite !any_circ_ev_app. cbn. apply app_nil_r.
    + intros w. rewrite circ_evs_cons, circ_evs_app. cbn. apply app_nil_r.
    + rewrite cview_cons, cview_app. cbn. apply app_nil_r.
  - pose proof (fallback_facts st cs (res_val (e_res e)) true derived (set_cmds s1 (cmds s1 - 1))) as H.
    cbn zeta in H.
    destruct (fallback_stage st cs (res_val (e_res e)) true derived (set_cmds s1 (cmds s1 - 1))) as [s3 o3].
    cbn [fst snd] in *. destruct H as (H1 & H2 & H3 & H4 & H5 & H6 & H7 & _).
    repeat split; try assumption.
    + change (ORunEnd id (cs_done cs) :: o1 ++ o3) with ([ORunEnd id (cs_done cs)] ++ o1 ++ o3).
      rewrite !any_circ_ev_app, H5. cbn. apply app_nil_r.
    + intros w. rewrite circ_evs_cons, circ_evs_app, H6. cbn. apply app_nil_r.
    + rewrite cview_cons, cview_app, H7. cbn. apply app_nil_r.
Qed.

(* ====================================================================== *)
(* C03: forced open stays open                                             *)
(* ====================================================================== *)
Lemma end_mid_forced st e cs expected dur s :
  l_force_open (cfg s) = true ->
  let m := end_mid st e cs expected dur s in
  flag (fst m) = flag s /\ any_circ_ev (snd m) = [].
Proof.
  intros FO. cbn zeta. unfold end_mid.
  assert (O : forall k d, is_open (fst (emit_run st k (clock s) d s)) = true).
  { intros k d. unfold is_open. cbn. rewrite FO. reflexivity. }
  assert (Fl : forall k d, flag (fst (emit_run st k (clock s) d s)) = flag s) by reflexivity.
  assert (Cf : forall k d, cfg (fst (emit_run st k (clock s) d s)) = cfg s) by reflexivity.
  repeat match goal with
  | |- context [if ?b then _ else _] =>
      match b with
      | context [emit_run] => fail 1
      | _ => destruct b
      end
  end;
  try (split; [apply Fl | apply emit_run_any_circ]).
  - specialize (O KTimeout (Some dur)). specialize (Fl KTimeout (Some dur)).
    pose proof (emit_run_any_circ st KTimeout (clock s) (Some dur) s) as A.
    destruct (emit_run st KTimeout (clock s) (Some dur) s) as [sa oa]. cbn [fst snd] in *.
    rewrite O. cbn [negb fst snd]. split; assumption.
  - specialize (O KFailure (Some dur)). specialize (Fl KFailure (Some dur)).
    pose proof (emit_run_any_circ st KFailure (clock s) (Some dur) s) as A.
    destruct (emit_run st KFailure (clock s) (Some dur) s) as [sa oa]. cbn [fst snd] in *.
    rewrite O. cbn [negb fst snd]. split; assumption.
  - specialize (O KSuccess (Some dur)). specialize (Fl KSuccess (Some dur)).
    specialize (Cf KSuccess (Some dur)).
    pose proof (emit_run_any_circ st KSuccess (clock s) (Some dur) s) as A.
    destruct (emit_run st KSuccess (clock s) (Some dur) s) as [sa oa]. cbn [fst snd] in *.
    rewrite O. unfold close_circuit. rewrite O, Cf, FO. cbn [negb fst snd].
    rewrite app_nil_r. split; assumption.
Qed.

Lemma forced_open_stays (st : static) : forall s id e,
  l_force_open (cfg s) = true ->
  flag (fst (step st s (EndRun id e))) = flag s /\ any_circ_ev (snd (step st s (EndRun id e))) = [].
Proof.
  intros s id e FO. rewrite step_eq. cbn [step_core fst snd].
  rewrite any_circ_ev_app, any_circ_ev_reading, app_nil_r.
  destruct (find_call id s) as [cs|] eqn:F; [|unfold end_run; rewrite F; split; reflexivity].
  destruct (cs_phase cs) as [start expected derived| |a b c] eqn:P;
    [|unfold end_run; rewrite F, P; split; reflexivity ..].
  destruct (res_panics (e_res e)) eqn:R.
  - unfold end_run. rewrite F, P. destruct (e_res e); try discriminate. split; reflexivity.
  - destruct (end_run_PRun_facts st id e s cs start expected derived F P R) as (_ & H2 & _ & _ & H5 & _).
    destruct (end_mid_forced st e cs expected (clock s - start) s FO) as [M1 M2].
    rewrite H2, H5. split; assumption.
Qed.

(* ====================================================================== *)
(* C03: CloseCircuit closes                                                *)
(* ====================================================================== *)
Lemma close_circuit_closes (st : static) : forall s w,
  is_open s = true -> l_force_open (cfg s) = false -> In w (circ_collectors st) ->
  flag (fst (step st s CloseCircuit)) = false /\ circ_evs w (snd (step st s CloseCircuit)) = [(Closed, clock s)].
Proof.
  intros s w O FO W. rewrite step_eq. cbn [step_core fst snd].
  rewrite circ_evs_app, circ_evs_reading, app_nil_r.
  unfold close_circuit. rewrite O, FO. cbn [negb].
  pose proof (emit_circ_evs st Closed (clock s) s w W) as E.
  destruct (emit_circ st Closed (clock s) s) as [s1 o]. cbn [fst snd] in *.
  split; [reflexivity | exact E].
Qed.

(* ====================================================================== *)
(* C03: a failed probe keeps it open                                       *)
(* ====================================================================== *)
Lemma end_mid_error st e cs expected dur s :
  flag s = true ->
  is_error (classify (res_is_bad (e_res e))
                     (match expected with Some x => x <? clock s | None => false end)
                     (negb (res_is_nil (e_res e))) (cs_done cs) (l_ignore_int (cfg s)) (ie_says (l_ie (cfg s)))) = true ->
  let m := end_mid st e cs expected dur s in
  flag (fst m) = true /\ any_circ_ev (snd m) = [].
Proof.
  intros F C. cbn zeta. unfold end_mid. unfold classify in C.
  assert (X : forall k, let r := emit_run st k (clock s) (Some dur) s in
    (let (sa, oa) := r in
     if negb (is_open sa)
     then let (sb, ob) := attempt_to_open st (clock s) (e_should_open e) sa in (sb, oa ++ ob)
     else (sa, oa)) = r).
  { intros k. cbn zeta.
    pose proof (emit_run_facts st k (clock s) (Some dur) s) as H. cbn zeta in H.
    destruct (emit_run st k (clock s) (Some dur) s) as [sa oa]. cbn [fst snd] in H.
    destruct H as (_ & H2 & _).
    destruct (negb (is_open sa)); [|reflexivity].
    rewrite attempt_to_open_flag by congruence. rewrite app_nil_r. reflexivity. }
  destruct (res_is_bad (e_res e)); [discriminate|].
  destruct (match expected with Some x => x <? clock s | None => false end).
  { rewrite (X KTimeout). split; [exact F | apply emit_run_any_circ]. }
  destruct (negb (res_is_nil (e_res e)) && cs_done cs && negb (l_ignore_int (cfg s)) && ie_says (l_ie (cfg s)));
    [discriminate|].
  destruct (negb (res_is_nil (e_res e))); [|discriminate].
  rewrite (X KFailure). split; [exact F | apply emit_run_any_circ].
Qed.

Lemma failed_probe_keeps_open (st : static) : forall s id e cs start expected derived,
  find_call id s = Some cs -> cs_phase cs = PRun start expected derived -> res_panics (e_res e) = false ->
  flag s = true -> is_error (end_kind s cs e) = true ->
  flag (fst (step st s (EndRun id e))) = true /\ any_circ_ev (snd (step st s (EndRun id e))) = [].
Proof.
  intros s id e cs start expected derived F P R Fl K. rewrite step_eq. cbn [step_core fst snd].
  rewrite any_circ_ev_app, any_circ_ev_reading, app_nil_r.
  destruct (end_run_PRun_facts st id e s cs start expected derived F P R) as (_ & H2 & _ & _ & H5 & _).
  unfold end_kind in K. rewrite P in K.
  destruct (end_mid_error st e cs expected (clock s - start) s Fl K) as [M1 M2].
  rewrite H2, H5. split; assumption.
Qed.

(* ====================================================================== *)
(* C03: it closes exactly on the required number of consecutive successes  *)
(* ====================================================================== *)
Lemma end_mid_success st e cs expected dur s t succ need :
  flag s = true -> not_overridden s ->
  classify (res_is_bad (e_res e))
           (match expected with Some x => x <? clock s | None => false end)
           (negb (res_is_nil (e_res e))) (cs_done cs) (l_ignore_int (cfg s)) (ie_says (l_ie (cfg s))) = KSuccess ->
  cls s = ClHystrix t succ need -> 0 <= succ ->
  let m := end_mid st e cs expected dur s in
  flag (fst m) = negb (Z.max 1 need <=? succ + 1) /\
  forall w, In w (circ_collectors st) ->
    circ_evs w (snd m) = if flag (fst m) then [] else [(Closed, clock s)].
Proof.
  intros F [FO FC] C CL S0. cbn zeta. unfold end_mid. unfold classify in C.
  destruct (res_is_bad (e_res e)); [discriminate|].
  destruct (match expected with Some x => x <? clock s | None => false end); [discriminate|].
  destruct (negb (res_is_nil (e_res e)) && cs_done cs && negb (l_ignore_int (cfg s)) && ie_says (l_ie (cfg s)));
    [discriminate|].
  destruct (negb (res_is_nil (e_res e))); [discriminate|].
  pose proof (emit_run_facts st KSuccess (clock s) (Some dur) s) as H. cbn zeta in H.
  pose proof (fun w => emit_run_circ_evs w st KSuccess (clock s) (Some dur) s) as HE.
  destruct (emit_run st KSuccess (clock s) (Some dur) s) as [sa oa]. cbn [fst snd] in H, HE.
  destruct H as (H1 & H2 & H3 & H4 & H5).
  assert (O : is_open sa = true) by (rewrite H5; unfold is_open; rewrite FO, FC; exact F).
  rewrite O. unfold close_circuit. rewrite O, H1, FO. cbn [negb].
  rewrite H4, CL. cbn [closer_run closer_should_close].
  destruct (need <=? succ + 1) eqn:N.
  - pose proof (emit_circ_facts st Closed (clock s) sa) as G. cbn zeta in G.
    pose proof (fun w => emit_circ_evs st Closed (clock s) sa w) as GE.
    destruct (emit_circ st Closed (clock s) sa) as [s1 o]. cbn [fst snd] in *.
    cbn [flag set_flag]. split; [lia|]. intros w W.
    rewrite circ_evs_app, HE, circ_evs_cons, (GE w W). reflexivity.
  - cbn [fst snd]. rewrite H2, F. split; [lia|]. intros w W.
    rewrite circ_evs_app, HE. reflexivity.
Qed.

Lemma closes_iff (st : static) : forall s id e cs start expected derived t succ need,
  find_call id s = Some cs -> cs_phase cs = PRun start expected derived -> res_panics (e_res e) = false ->
  flag s = true -> not_overridden s -> end_kind s cs e = KSuccess ->
  cls s = ClHystrix t succ need -> 0 <= succ ->
  let s' := fst (step st s (EndRun id e)) in
  flag s' = negb (Z.max 1 need <=? succ + 1) /\
  forall w, In w (circ_collectors st) ->
    circ_evs w (snd (step st s (EndRun id e))) = if flag s' then [] else [(Closed, clock s)].
Proof.
  intros s id e cs start expected derived t succ need F P R Fl NO K CL S0. cbn zeta.
  rewrite step_eq. cbn [step_core fst snd].
  destruct (end_run_PRun_facts st id e s cs start expected derived F P R) as (_ & H2 & _ & _ & _ & H6 & _).
  unfold end_kind in K. rewrite P in K.
  destruct (end_mid_success st e cs expected (clock s - start) s t succ need Fl NO K CL S0) as [M1 M2].
  rewrite H2. split; [exact M1|]. intros w W.
  rewrite circ_evs_app, circ_evs_reading, app_nil_r, H6. apply M2, W.
Qed.

(* ====================================================================== *)
(* C03: what the closer counts                                             *)
(* ====================================================================== *)
Definition ts_step (acc : Z) (e : cev) : Z :=
  match e with
  | CRun KSuccess => acc + 1
  | CRun KFailure | CRun KTimeout => 0
  | CCirc _ _ => 0
  | _ => acc
  end.

Lemma closer_feed_hystrix t0 s0 n0 e :
  exists t1, closer_feed (ClHystrix t0 s0 n0) e = ClHystrix t1 (ts_step s0 e) n0.
Proof.
  destruct e as [k|k t|t|k]; cbn [closer_feed ts_step].
  - destruct k; cbn; eexists; reflexivity.
  - cbn. eexists; reflexivity.
  - cbn [closer_allow]. destruct (tc_check t t0) as [[t1 b] a]. cbn. eexists; reflexivity.
  - cbn. eexists; reflexivity.
Qed.

Lemma closer_counts_gen : forall evs t0 s0 n0 t succ need,
  0 <= s0 ->
  closer_after (ClHystrix t0 s0 n0) evs = ClHystrix t succ need ->
  need = n0 /\ succ = fold_left ts_step evs s0 /\ 0 <= succ.
Proof.
  induction evs as [|e evs IH]; intros t0 s0 n0 t succ need S0 H.
  - cbn in H. injection H as -> -> ->. cbn. auto.
  - unfold closer_after in H. cbn [fold_left] in H.
    destruct (closer_feed_hystrix t0 s0 n0 e) as [t1 E]. rewrite E in H.
    cbn [fold_left]. apply (IH t1 (ts_step s0 e) n0 t succ need); [|exact H].
    destruct e as [k|k t'|t'|k]; cbn [ts_step]; try lia. destruct k; lia.
Qed.

Lemma closer_counts : forall sleep half req evs t succ need,
  closer_after (closer_init_hystrix sleep half req) evs = ClHystrix t succ need ->
  need = req /\ succ = trailing_successes evs /\ 0 <= succ.
Proof.
  intros sleep half req evs t succ need H. unfold closer_init_hystrix in H.
  apply closer_counts_gen in H; [|lia]. exact H.
Qed.

(* ====================================================================== *)
(* the closer is fed exactly what the observations show                    *)
(* ====================================================================== *)
(* every time argument the closer is given is the clock of the segment *)
Definition cev_at (now : Z) (e : cev) : Prop :=
  match e with CCirc _ t | CAllow t => t = now | _ => True end.

(* r = (state, observations) is an outcome reachable from s in which the closer was fed
   what the observations show, stamped `now`, and the clock did not move *)
Definition good (now : Z) (s : state) (r : state * list obs) : Prop :=
  cls (fst r) = closer_after (cls s) (cview (snd r)) /\
  clock (fst r) = clock s /\
  Forall (cev_at now) (cview (snd r)).

Lemma good_same now s s' o :
  cls s' = cls s -> clock s' = clock s -> cview o = [] -> good now s (s', o).
Proof. intros A B C. unfold good. cbn [fst snd]. rewrite C. cbn. auto. Qed.

Lemma good_trans now s s1 o1 s2 o2 :
  good now s (s1, o1) -> good now s1 (s2, o2) -> good now s (s2, o1 ++ o2).
Proof.
  unfold good. cbn [fst snd]. intros (A1 & B1 & C1) (A2 & B2 & C2).
  rewrite cview_app. unfold closer_after in *. rewrite fold_left_app, <- A1.
  repeat split; [exact A2 | congruence | apply Forall_app; split; assumption].
Qed.

Lemma good_post now s s1 o s2 o' :
  good now s (s1, o) -> cls s2 = cls s1 -> clock s2 = clock s1 -> cview o' = cview o ->
  good now s (s2, o').
Proof.
  unfold good. cbn [fst snd]. intros (A & B & C) E1 E2 E3. rewrite E3.
  repeat split; [congruence | congruence | exact C].
Qed.

Lemma emit_run_good now st k t d s : good now s (emit_run st k t d s).
Proof.
  unfold good. rewrite emit_run_cview. unfold emit_run. cbn.
  repeat split. constructor; [exact I | constructor].
Qed.

Lemma emit_circ_good st k now s : good now s (emit_circ st k now s).
Proof.
  unfold good. rewrite emit_circ_cview.
  destruct (emit_circ_facts st k now s) as (_ & _ & H3 & H4). cbn zeta in *.
  rewrite H3, H4. cbn. repeat split. constructor; [reflexivity | constructor].
Qed.

Lemma open_circuit_good st now s : good now s (open_circuit st now s).
Proof.
  unfold open_circuit.
  destruct (l_forced_closed (cfg s)); [apply good_same; reflexivity|].
  destruct (is_open s); [apply good_same; reflexivity|].
  pose proof (emit_circ_good st Opened now s) as G.
  destruct (emit_circ st Opened now s) as [s1 o].
  apply (good_post now s s1 o); [exact G | reflexivity ..].
Qed.

Lemma close_circuit_good st now force ans s : good now s (close_circuit st now force ans s).
Proof.
  unfold close_circuit.
  destruct (negb (is_open s)); [apply good_same; reflexivity|].
  destruct (l_force_open (cfg s)); [apply good_same; reflexivity|].
  pose proof (emit_circ_good st Closed now s) as G.
  destruct force.
  - destruct (emit_circ st Closed now s) as [s1 o].
    apply (good_post now s s1 o); [exact G | reflexivity ..].
  - destruct (closer_should_close ans (cls s)).
    + destruct (emit_circ st Closed now s) as [s1 o].
      apply (good_post now s s1 o); [exact G | reflexivity ..].
    + apply good_same; reflexivity.
Qed.

Lemma attempt_to_open_good st now ans s : good now s (attempt_to_open st now ans s).
Proof.
  unfold attempt_to_open.
  destruct (l_forced_closed (cfg s)); [apply good_same; reflexivity|].
  destruct (is_open s); [apply good_same; reflexivity|].
  destruct (opener_should_open now ans (opn s)) as [o1 b].
  destruct b; [|apply good_same; reflexivity].
  pose proof (open_circuit_good st now (set_logic s o1 (cls s))) as G.
  destruct (open_circuit st now (set_logic s o1 (cls s))) as [s2 o].
  unfold good in *. cbn [fst snd] in *. exact G.
Qed.

Lemma fallback_good now s0 s o st cs err ran derived :
  good now s0 (s, o) ->
  good now s0 (fst (fallback_stage st cs err ran derived s), o ++ snd (fallback_stage st cs err ran derived s)).
Proof.
  intros G. destruct (fallback_facts st cs err ran derived s) as (_ & _ & H3 & H4 & _ & _ & H7 & _).
  cbn zeta in *. apply (good_post now s0 s o); [exact G | exact H3 | exact H4 |].
  rewrite cview_app, H7. apply app_nil_r.
Qed.

Lemma end_mid_good st e cs expected dur s : good (clock s) s (end_mid st e cs expected dur s).
Proof.
  unfold end_mid.
  assert (X : forall k, good (clock s) s
    (let (sa, oa) := emit_run st k (clock s) (Some dur) s in
     if negb (is_open sa)
     then let (sb, ob) := attempt_to_open st (clock s) (e_should_open e) sa in (sb, oa ++ ob)
     else (sa, oa))).
  { intros k. pose proof (emit_run_good (clock s) st k (clock s) (Some dur) s) as G.
    destruct (emit_run st k (clock s) (Some dur) s) as [sa oa].
    destruct (negb (is_open sa)); [|exact G].
    pose proof (attempt_to_open_good st (clock s) (e_should_open e) sa) as G2.
    destruct (attempt_to_open st (clock s) (e_should_open e) sa) as [sb ob].
    apply (good_trans _ _ _ _ _ _ G G2). }
  destruct (res_is_bad (e_res e)); [apply emit_run_good|].
  destruct (match expected with Some x => x <? clock s | None => false end); [apply X|].
  destruct (negb (res_is_nil (e_res e)) && cs_done cs && negb (l_ignore_int (cfg s)) && ie_says (l_ie (cfg s)));
    [apply emit_run_good|].
  destruct (negb (res_is_nil (e_res e))); [apply X|].
  pose proof (emit_run_good (clock s) st KSuccess (clock s) (Some dur) s) as G.
  destruct (emit_run st KSuccess (clock s) (Some dur) s) as [sa oa].
  destruct (is_open sa); [|exact G].
  pose proof (close_circuit_good st (clock s) false (e_should_close e) sa) as G2.
  destruct (close_circuit st (clock s) false (e_should_close e) sa) as [sb ob].
  apply (good_trans _ _ _ _ _ _ G G2).
Qed.

Lemma end_run_good st id e s : good (clock s) s (end_run st id e s).
Proof.
  destruct (find_call id s) as [cs|] eqn:F; [|unfold end_run; rewrite F; apply good_same; reflexivity].
  destruct (cs_phase cs) as [start expected derived| |a b c] eqn:P;
    [|unfold end_run; rewrite F, P; apply good_same; reflexivity ..].
  destruct (res_panics (e_res e)) eqn:R.
  - unfold end_run. rewrite F, P. destruct (e_res e); try discriminate. apply good_same; reflexivity.
  - destruct (end_run_PRun_facts st id e s cs start expected derived F P R) as (_ & _ & H3 & H4 & _ & _ & H7).
    pose proof (end_mid_good st e cs expected (clock s - start) s) as G.
    cbn zeta in *. unfold good in *. rewrite H3, H4, H7. exact G.
Qed.

Lemma end_fb_good st id f s : good (clock s) s (end_fb st id f s).
Proof.
  unfold end_fb.
  destruct (find_call id s) as [cs|]; [|apply good_same; reflexivity].
  destruct (cs_phase cs) as [start expected derived| |a b c]; try (apply good_same; reflexivity).
  destruct f; apply good_same; try reflexivity.
  - rewrite cview_app, emit_fb_cview. reflexivity.
  - rewrite cview_app, emit_fb_cview. reflexivity.
Qed.

Lemma closer_allow_ans t a c : fst (fst (closer_allow t a c)) = fst (fst (closer_allow t false c)).
Proof.
  destruct c as [|t0 s0 n0|]; cbn [closer_allow]; try reflexivity.
  destruct (tc_check t t0) as [[t1 b] x]. reflexivity.
Qed.

Lemma good_snoc_quiet now s s1 o q : good now s (s1, o) -> cview q = [] -> good now s (s1, o ++ q).
Proof.
  intros G Q. apply (good_post now s s1 o); [exact G | reflexivity | reflexivity |].
  rewrite cview_app, Q. apply app_nil_r.
Qed.

Lemma begin_good st id c s : good (clock s) s (begin_call st id c s).
Proof.
  unfold begin_call.
  destruct (s_mode st); try (apply good_same; reflexivity).
  destruct (l_disabled (cfg s)); [apply good_same; reflexivity|].
  destruct (negb (c_has_run c)); [apply good_same; reflexivity|].
  match goal with |- good _ _ (let '(s1, admitted, o1) := ?g in _) =>
    assert (G : good (clock s) s (fst (fst g), snd g));
      [| destruct g as [[s1 admitted] o1]; cbn [fst snd] in G ] end.
  { destruct (negb (is_open s)); [apply good_same; reflexivity|].
    destruct (l_force_open (cfg s)); [apply good_same; reflexivity|].
    destruct (closer_allow (clock s) (c_allow c) (cls s)) as [[cl1 b] timers] eqn:EA.
    cbn [fst snd]. unfold good. cbn [fst snd cls clock set_logic].
    rewrite cview_cons. cbn [obs_cev app].
    replace (cview (map OTimer timers)) with (@nil cev) by (symmetry; apply fm_map_nil; reflexivity).
    cbn [closer_after fold_left closer_feed]. rewrite <- (closer_allow_ans _ (c_allow c)), EA.
    repeat split. constructor; [reflexivity | constructor]. }
  set (cs0 := {| cs_id := id; cs_call := c; cs_phase := PPass; cs_done := c_done c |}).
  destruct (negb admitted).
  { pose proof (emit_run_good (clock s) st KShort (clock s) None s1) as G2.
    destruct (emit_run st KShort (clock s) None s1) as [s2 o2].
    pose proof (fallback_good _ _ _ _ st cs0 VCircuitOpen false false (good_trans _ _ _ _ _ _ G G2)) as G3.
    destruct (fallback_stage st cs0 VCircuitOpen false false s2) as [s3 o3].
    cbn [fst snd] in G3. rewrite <- app_assoc in G3. exact G3. }
  assert (G' : good (clock s) s (s1, o1 ++ [OAsked QPrevent (clock s)]))
    by (apply good_snoc_quiet; [exact G | reflexivity]).
  destruct (opener_prevent (c_prevent c) (opn s1)).
  { pose proof (fallback_good _ _ _ _ st cs0 VCircuitOpen false false G') as G3.
    destruct (fallback_stage st cs0 VCircuitOpen false false s1) as [s3 o3].
    cbn [fst snd] in G3. rewrite <- app_assoc in G3. exact G3. }
  destruct ((0 <=? l_max (cfg s1)) && (l_max (cfg s1) <? cmds s1 + 1)).
  { pose proof (emit_run_good (clock s) st KReject (clock s) None s1) as G2.
    destruct (emit_run st KReject (clock s) None s1) as [s2 o2].
    pose proof (fallback_good _ _ _ _ st cs0 VThrottled false false (good_trans _ _ _ _ _ _ G' G2)) as G3.
    destruct (fallback_stage st cs0 VThrottled false false s2) as [s3 o3].
    cbn [fst snd] in G3. rewrite <- !app_assoc in G3. exact G3. }
  apply (good_post _ _ _ _ _ _ G); [reflexivity | reflexivity |].
  rewrite cview_app. cbn. apply app_nil_r.
Qed.
