(* Seq/TimedCheckLive.v — TimedCheck with REAL timer objects: a re-arm stops the timer of the
   previous re-arm (timedcheck.go: lastSetTimer.Stop()), a stopped timer never fires, and a
   timer fires at most once.  Theorem: that refinement is invisible — every history has exactly
   the observations of Seq/TimedCheck.v, where any registered callback may run at any time, any
   number of times.  (A stopped timer is always a stale one, and a callback that has already run
   has nothing left to do until the next re-arm makes it stale.)  This is what entitles the
   harness's substitute AfterFunc to hand out live timers and to honour Stop() while the
   model it is compared with stays the simple one; a library change that stops or loses the
   CURRENT timer breaks the correspondence. *)
From CV Require Import Base.Prelude Seq.TimedCheck.
From Coq Require Import ZifyBool.

(* liveness of each registered timer, parallel to tc_timers: true = neither stopped nor fired *)
Definition set_false (k : nat) (l : list bool) : list bool :=
  firstn k l ++ match skipn k l with [] => [] | _ :: t => false :: t end.

Definition stop_last (l : list bool) : list bool := set_false (length l - 1) l.

Definition lstate : Type := tc * list bool.

Definition lstep (s : lstate) (o : tcop) : lstate * tcout :=
  let (c, live) := s in
  match o with
  | TCheck now =>
      let '(c1, b, a) := tc_check now c in
      ((c1, match a with Some _ => stop_last live ++ [true] | None => live end), TOBool b a)
  | TSleepStart now =>
      let (c1, d) := tc_sleep_start now c in ((c1, stop_last live ++ [true]), TOArmed d)
  | TFire k =>
      if nth k live false then ((tc_fire k c, set_false k live), TONone) else ((c, live), TONone)
  | TSetSleep d => ((tc_set_sleep d c, live), TONone)
  | TSetBudget b => ((tc_set_budget b c, live), TONone)
  end.

Fixpoint lrun_from (s : lstate) (h : list tcop) : list tcout :=
  match h with [] => [] | o :: t => let (s1, x) := lstep s o in x :: lrun_from s1 t end.
Definition lrun (sleep budget : Z) (h : list tcop) : list tcout := lrun_from (tc_init sleep budget, []) h.

(* ---------- set_false ---------- *)
Lemma set_false_length k l : length (set_false k l) = length l.
Proof.
  unfold set_false. revert l. induction k as [|k IH]; intros l.
  - destruct l; reflexivity.
  - destruct l as [|x t]; [reflexivity|]. cbn [firstn skipn app length]. f_equal. apply IH.
Qed.

Lemma set_false_nth k l j :
  nth j (set_false k l) false = if Nat.eqb j k then false else nth j l false.
Proof.
  unfold set_false. revert l j. induction k as [|k IH]; intros l j.
  - cbn [firstn skipn app]. destruct l as [|x t].
    + destruct j; destruct (Nat.eqb _ 0); reflexivity.
    + destruct j; reflexivity.
  - destruct l as [|x t].
    + cbn [firstn skipn app]. destruct j; destruct (Nat.eqb _ (S k)); reflexivity.
    + cbn [firstn skipn app]. destruct j as [|j]; [reflexivity|]. cbn [nth Nat.eqb]. apply IH.
Qed.

(* ---------- the invariant ---------- *)
Definition LInv (s : lstate) : Prop :=
  let (c, live) := s in
  length live = length (tc_timers c) /\
  Forall (fun v => v <= tc_version c) (tc_timers c) /\
  forall k v, nth k live false = false -> nth_error (tc_timers c) k = Some v ->
              v <> tc_version c \/ tc_fastfail c = false.

Lemma LInv_init sleep budget : LInv (tc_init sleep budget, []).
Proof.
  cbn. split; [reflexivity|]. split; [constructor|].
  intros k v _ H. destruct k; discriminate.
Qed.

(* firing a timer that is stopped or has fired changes nothing *)
Lemma fire_dead_noop c live k :
  LInv (c, live) -> nth k live false = false -> tc_fire k c = c.
Proof.
  intros (_ & _ & I) D. unfold tc_fire.
  destruct (nth_error (tc_timers c) k) as [v|] eqn:N; [|reflexivity].
  destruct (v =? tc_version c) eqn:E; [|reflexivity].
  destruct (I k v D N) as [H|H]; [lia|].
  destruct c; cbn in *; subst; reflexivity.
Qed.

Lemma LInv_rearm now c live :
  LInv (c, live) -> LInv (fst (tc_rearm now c), stop_last live ++ [true]).
Proof.
  intros (L & F & I). unfold tc_rearm. cbn [fst LInv tc_timers tc_version tc_fastfail].
  split; [|split].
  - rewrite !app_length. unfold stop_last. rewrite set_false_length. cbn [length]. lia.
  - apply Forall_app. split.
    + eapply Forall_impl; [|exact F]. cbn. intros; lia.
    + constructor; [lia|constructor].
  - intros k v D N. left.
    destruct (Nat.lt_ge_cases k (length (tc_timers c))) as [Hk|Hk].
    + rewrite nth_error_app1 in N by exact Hk.
      rewrite Forall_forall in F. apply nth_error_In in N. specialize (F _ N). cbn in F. lia.
    + (* the new timer itself is live: its entry is [true] *)
      exfalso.
      assert (K : k = length (tc_timers c)).
      { assert (N' : nth_error (tc_timers c ++ [tc_version c + 1]) k <> None) by (rewrite N; discriminate).
        apply nth_error_Some in N'. rewrite app_length in N'. cbn [length] in N'. lia. }
      subst k. clear N.
      rewrite app_nth2 in D by (unfold stop_last; rewrite set_false_length; lia).
      unfold stop_last in D. rewrite set_false_length, L, Nat.sub_diag in D. cbn in D. discriminate.
Qed.

Lemma LInv_same_flags c c' live :
  LInv (c, live) ->
  tc_timers c' = tc_timers c -> tc_version c' = tc_version c -> tc_fastfail c' = tc_fastfail c ->
  LInv (c', live).
Proof. intros (L & F & I) Et Ev Ef. cbn [LInv]. rewrite Et, Ev, Ef. auto. Qed.

Lemma LInv_fire c live k :
  LInv (c, live) -> nth k live false = true -> LInv (tc_fire k c, set_false k live).
Proof.
  intros (L & F & I) Lk. unfold tc_fire.
  destruct (nth_error (tc_timers c) k) as [v|] eqn:N.
  2:{ cbn [LInv]. rewrite set_false_length. split; [exact L|]. split; [exact F|].
      intros j w D Nj. rewrite set_false_nth in D.
      destruct (Nat.eqb_spec j k) as [->|Hjk]; [congruence|]. eauto. }
  destruct (v =? tc_version c) eqn:E.
  - cbn [LInv tc_timers tc_version tc_fastfail]. rewrite set_false_length.
    split; [exact L|]. split; [exact F|]. intros; right; reflexivity.
  - cbn [LInv]. rewrite set_false_length. split; [exact L|]. split; [exact F|].
    intros j w D Nj. rewrite set_false_nth in D.
    destruct (Nat.eqb_spec j k) as [->|Hjk].
    + left. rewrite N in Nj. inversion Nj; subst. lia.
    + eauto.
Qed.

(* one step: same new TimedCheck state, same observation, invariant kept *)
Lemma lstep_refines c live o :
  LInv (c, live) ->
  fst (fst (lstep (c, live) o)) = fst (tc_step c o) /\
  snd (lstep (c, live) o) = snd (tc_step c o) /\
  LInv (fst (lstep (c, live) o)).
Proof.
  intros I. destruct o as [now|now|k|d|b]; cbn [lstep tc_step].
  - unfold tc_check.
    destruct (tc_fastfail c) eqn:Ff; [cbn; auto|].
    destruct (now <? tc_next c) eqn:En; [cbn; auto|].
    match goal with |- context [tc_rearm now ?cc] => set (c1 := cc) end.
    assert (I1 : LInv (c1, live)).
    { eapply LInv_same_flags; [exact I|reflexivity|reflexivity|cbn; congruence]. }
    destruct (tc_budget c <=? tc_count c1).
    + pose proof (LInv_rearm now c1 live I1) as I2.
      destruct (tc_rearm now c1) as [c2 d]. cbn [fst snd] in *. auto.
    + cbn [fst snd]. auto.
  - unfold tc_sleep_start. cbn [tc_rearm fst snd]. split; [reflexivity|]. split; [reflexivity|].
    change (LInv (fst (tc_rearm now c), stop_last live ++ [true])). apply LInv_rearm, I.
  - destruct (nth k live false) eqn:Lk; cbn [fst snd].
    + split; [reflexivity|]. split; [reflexivity|]. apply LInv_fire; assumption.
    + split; [symmetry; eapply fire_dead_noop; eassumption|]. split; [reflexivity|exact I].
  - cbn [fst snd]. split; [reflexivity|]. split; [reflexivity|].
    eapply LInv_same_flags; [exact I|reflexivity|reflexivity|reflexivity].
  - cbn [fst snd]. split; [reflexivity|]. split; [reflexivity|].
    eapply LInv_same_flags; [exact I|reflexivity|reflexivity|reflexivity].
Qed.

Theorem lrun_from_eq : forall h c live, LInv (c, live) -> lrun_from (c, live) h = tc_run_from c h.
Proof.
  induction h as [|o h IH]; intros c live I; [reflexivity|].
  cbn [lrun_from tc_run_from].
  destruct (lstep_refines c live o I) as (Es & Ex & I').
  destruct (lstep (c, live) o) as [[c1 live1] x] eqn:EL.
  destruct (tc_step c o) as [c2 y] eqn:ET.
  cbn [fst snd] in *. subst. f_equal. apply IH, I'.
Qed.

(* timers that can be stopped and fire at most once are indistinguishable from callbacks that
   may run whenever and as often as they like *)
Theorem live_timers_invisible : forall sleep budget h, lrun sleep budget h = tc_run sleep budget h.
Proof. intros. apply lrun_from_eq, LInv_init. Qed.

(* non-vacuity: timer 0 is stopped by the second re-arm and then "fired"; timer 1 fires twice *)
Example live_timers_example :
  lrun 10 1 [TSleepStart 0; TSleepStart 5; TFire 0; TCheck 20; TFire 1; TFire 1; TCheck 20; TCheck 21]
  = [TOArmed 10; TOArmed 10; TONone; TOBool false None; TONone; TONone; TOBool true (Some 10); TOBool false None].
Proof. vm_compute. reflexivity. Qed.
