(* Seq/TimedCheck.v — sequential model of faststats.TimedCheck (timedcheck.go).
   The timer is the harness's substitute TimeAfterFunc: every re-arm registers
   a callback (remembering the version it was created for); a `Fire k` event
   runs the k-th registered callback at an arbitrary later point — early, late,
   after newer re-arms, or never. *)
From CV Require Import Base.Prelude.

(* time.Time{} — the zero value of nextOpenTime — in Unix nanoseconds *)
Definition zero_time : Z := -62135596800000000000.

Record tc := {
  tc_sleep : Z;            (* sleepDuration (ns) *)
  tc_budget : Z;           (* eventCountToAllow *)
  tc_fastfail : bool;      (* isFastFail *)
  tc_version : Z;          (* isFailFastVersion *)
  tc_next : Z;             (* nextOpenTime *)
  tc_count : Z;            (* currentlyAllowedEventCount *)
  tc_timers : list Z       (* version captured by each registered callback, oldest first *)
}.

Definition tc_init (sleep budget : Z) : tc :=
  {| tc_sleep := sleep; tc_budget := budget; tc_fastfail := false; tc_version := 0;
     tc_next := zero_time; tc_count := 0; tc_timers := [] |}.

(* resetOpenTimeWithLock(now); returns the duration handed to TimeAfterFunc *)
Definition tc_rearm (now : Z) (c : tc) : tc * Z :=
  ({| tc_sleep := tc_sleep c; tc_budget := tc_budget c; tc_fastfail := true;
      tc_version := tc_version c + 1; tc_next := now + tc_sleep c; tc_count := 0;
      tc_timers := tc_timers c ++ [tc_version c + 1] |}, tc_sleep c).

(* Check(now): result, and the duration of the timer registered by a
   budget-exhausting check *)
Definition tc_check (now : Z) (c : tc) : tc * bool * option Z :=
  if tc_fastfail c then (c, false, None)
  else if now <? tc_next c then (c, false, None)          (* nextOpenTime.After(now), both tests *)
  else
    let c1 := {| tc_sleep := tc_sleep c; tc_budget := tc_budget c; tc_fastfail := tc_fastfail c;
                 tc_version := tc_version c; tc_next := tc_next c; tc_count := tc_count c + 1;
                 tc_timers := tc_timers c |} in
    if tc_budget c <=? tc_count c1 then
      let (c2, d) := tc_rearm now c1 in (c2, true, Some d)
    else (c1, true, None).

Definition tc_sleep_start (now : Z) (c : tc) : tc * Z := tc_rearm now c.

(* the k-th registered callback runs: if currentVersion == version then isFastFail = false *)
Definition tc_fire (k : nat) (c : tc) : tc :=
  match nth_error (tc_timers c) k with
  | Some v =>
      if v =? tc_version c then
        {| tc_sleep := tc_sleep c; tc_budget := tc_budget c; tc_fastfail := false;
           tc_version := tc_version c; tc_next := tc_next c; tc_count := tc_count c;
           tc_timers := tc_timers c |}
      else c
  | None => c
  end.

Definition tc_set_sleep (d : Z) (c : tc) : tc :=
  {| tc_sleep := d; tc_budget := tc_budget c; tc_fastfail := tc_fastfail c; tc_version := tc_version c;
     tc_next := tc_next c; tc_count := tc_count c; tc_timers := tc_timers c |}.
Definition tc_set_budget (b : Z) (c : tc) : tc :=
  {| tc_sleep := tc_sleep c; tc_budget := b; tc_fastfail := tc_fastfail c; tc_version := tc_version c;
     tc_next := tc_next c; tc_count := tc_count c; tc_timers := tc_timers c |}.

(* ---------- operations, observable trace ---------- *)
Inductive tcop := TCheck (now : Z) | TSleepStart (now : Z) | TFire (k : nat) | TSetSleep (d : Z) | TSetBudget (b : Z).
(* what a caller / the substitute timer can see: Check's answer and the
   duration of any timer registration the operation made *)
Inductive tcout := TOBool (b : bool) (armed : option Z) | TOArmed (d : Z) | TONone.

Definition tc_step (c : tc) (o : tcop) : tc * tcout :=
  match o with
  | TCheck now => let '(c1, b, a) := tc_check now c in (c1, TOBool b a)
  | TSleepStart now => let (c1, d) := tc_sleep_start now c in (c1, TOArmed d)
  | TFire k => (tc_fire k c, TONone)
  | TSetSleep d => (tc_set_sleep d c, TONone)
  | TSetBudget b => (tc_set_budget b c, TONone)
  end.

Fixpoint tc_run_from (c : tc) (h : list tcop) : list tcout :=
  match h with [] => [] | o :: t => let (c1, x) := tc_step c o in x :: tc_run_from c1 t end.
Definition tc_run (sleep budget : Z) (h : list tcop) : list tcout := tc_run_from (tc_init sleep budget) h.
Definition tc_state_after (sleep budget : Z) (h : list tcop) : tc :=
  fold_left (fun c o => fst (tc_step c o)) h (tc_init sleep budget).

(* ---------- specification vocabulary over the observable trace ---------- *)
(* did operation o, observed as x, re-arm the check, and with which deadline? *)
Definition rearm_deadline (o : tcop) (x : tcout) : option Z :=
  match o, x with
  | TSleepStart now, TOArmed d => Some (now + d)
  | TCheck now, TOBool true (Some d) => Some (now + d)
  | _, _ => None
  end.
Definition succeeded (x : tcout) : bool := match x with TOBool true _ => true | _ => false end.

(* deadline of the latest re-arm in a trace (None: never armed) *)
Definition last_deadline (tr : list (tcop * tcout)) : option Z :=
  fold_left (fun acc ox => match rearm_deadline (fst ox) (snd ox) with Some d => Some d | None => acc end) tr None.
(* number of successful checks since (and excluding) the latest re-arm *)
Definition successes_since_rearm (tr : list (tcop * tcout)) : Z :=
  fold_left (fun acc ox => match rearm_deadline (fst ox) (snd ox) with
                           | Some _ => 0
                           | None => if succeeded (snd ox) then acc + 1 else acc end) tr 0.

Fixpoint tc_trace_from (c : tc) (h : list tcop) : list (tcop * tcout) :=
  match h with [] => [] | o :: t => let (c1, x) := tc_step c o in (o, x) :: tc_trace_from c1 t end.
Definition tc_trace (sleep budget : Z) (h : list tcop) := tc_trace_from (tc_init sleep budget) h.
