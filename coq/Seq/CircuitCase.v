(* Seq/CircuitCase.v — evaluation side of the level-1 circuit correspondence. *)
From CV Require Import Base.Prelude Seq.RollingCounter Seq.TimedCheck Seq.Logic Seq.Circuit Seq.CaseCheck.

Definition obs_eq_dec : forall a b : obs, {a = b} + {a <> b}.
Proof. repeat decide equality. Defined.
Definition obs_eqb (a b : obs) : bool := if obs_eq_dec a b then true else false.

Inductive opener_spec := OSNever | OSHystrix (n dur pct vol : Z) | OSConsec (thr : Z) | OSCustom.
Inductive closer_spec := CSNever | CSHystrix (sleep half_open required : Z) | CSCustom.

Definition mk_opener (o : opener_spec) (t0 : Z) : opener :=
  match o with
  | OSNever => OpNever
  | OSHystrix n dur pct vol => OpHystrix (ho_init n dur t0 pct vol)
  | OSConsec thr => OpConsec 0 thr
  | OSCustom => OpCustom
  end.
Definition mk_closer (c : closer_spec) : closer :=
  match c with
  | CSNever => ClNever
  | CSHystrix s h r => closer_init_hystrix s h r
  | CSCustom => ClCustom
  end.

Definition circ_case : Type :=
  nat * static * live * opener_spec * closer_spec * Z * list event * list (list obs).

Definition circ_run (st : static) (l : live) (o : opener_spec) (c : closer_spec) (t0 : Z) (h : list event) : list (list obs) :=
  run_from st (init_state l (mk_opener o t0) (mk_closer c) t0) h.

(* first event index at which model and implementation differ, with the model's observations there *)
Fixpoint first_diff (i : nat) (m im : list (list obs)) : option (nat * list obs) :=
  match m, im with
  | [], [] => None
  | x :: m', y :: im' => if list_eqb obs_eqb x y then first_diff (S i) m' im' else Some (i, x)
  | x :: _, [] => Some (i, x)
  | [], _ :: _ => Some (i, [])
  end.

Definition circ_mismatches (cs : list circ_case) : list (nat * (nat * list obs)) :=
  flat_map (fun c : circ_case =>
    let '(id, st, l, o, cl, t0, h, outs) := c in
    match first_diff 0 (circ_run st l o cl t0 h) outs with
    | None => []
    | Some d => [(id, d)]
    end) cs.
