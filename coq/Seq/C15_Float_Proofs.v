(* Seq/C15_Float_Proofs.v — order theorems for SortedDurations.Percentile on
   binary64 (the Flocq model of Seq/PercentileFloat.v).

   Structure:
   1. each float operation used by [percentile] is, under a magnitude bound that
      excludes overflow, the correctly rounded real operation ([Bmult_ok],
      [Bdiv_ok], [Bminus_ok], [f_of_Z_correct], [f_floor_correct], ...);
   2. [pct_real s r] is the same computation written on reals with
      [rnd] = round-to-nearest-even to binary64; [pct_mid_real] shows that the
      interpolation branch of [percentile] equals [pct_real s (B2R p)] for every
      finite p with 0 <= p <= 100;
   3. bounds and monotonicity of [pct_real] from monotonicity of rounding
      ([pct_real_bounds], [pct_real_between], [pct_real_mono]);
   4. case analysis on p (p = f_of_me pm pe is never NaN): -inf / +inf decide
      the first two tests by computation, finite p through [Bleb_correct]. *)
From Coq Require Import ZArith List Reals Lia Lra Sorting.Sorted.
From Flocq Require Import Core.Core IEEE754.BinarySingleNaN.
From CV Require Import Base.Prelude Seq.RollingPercentile Seq.PercentileFloat.
Local Open Scope Z_scope.

Definition fexp64 : Z -> Z := SpecFloat.fexp 53 1024.
#[local] Instance fexp64_valid : Valid_exp fexp64 := fexp_correct 53 1024 prec53.
Definition rnd (x : R) : R := round radix2 fexp64 ZnearestE x.
Definition fmt (x : R) : Prop := generic_format radix2 fexp64 x.

Lemma rnd_le x y : (x <= y)%R -> (rnd x <= rnd y)%R.
Proof. apply round_le; auto with typeclass_instances. Qed.
Lemma rnd_fmt x : fmt x -> rnd x = x.
Proof. apply round_generic; auto with typeclass_instances. Qed.
Lemma rnd_0 : rnd 0 = 0%R.
Proof. apply round_0; auto with typeclass_instances. Qed.

Lemma fmt_bpow53 : fmt (bpow radix2 53).
Proof. apply generic_format_bpow. unfold fexp64, SpecFloat.fexp, SpecFloat.emin. lia. Qed.

Lemma bpow53_IZR : bpow radix2 53 = IZR (2 ^ 53).
Proof. change (2 ^ 53) with (Zpower radix2 53). rewrite IZR_Zpower by lia. reflexivity. Qed.

Lemma fmt_IZR z : Z.abs z <= 2 ^ 53 -> fmt (IZR z).
Proof.
  intros H.
  destruct (Z.eq_dec (Z.abs z) (2 ^ 53)) as [E|E].
  - destruct (Z.abs_eq_or_opp z) as [A|A]; rewrite A in E.
    + rewrite E, <- bpow53_IZR. apply fmt_bpow53.
    + replace z with (- 2 ^ 53) by lia. rewrite opp_IZR, <- bpow53_IZR.
      apply generic_format_opp, fmt_bpow53.
  - replace (IZR z) with (F2R (Float radix2 z 0)) by (unfold F2R; simpl; lra).
    apply generic_format_FLT.
    exists (Float radix2 z 0); simpl; [reflexivity | lia | unfold SpecFloat.emin; lia].
Qed.

Lemma rnd_IZR z : Z.abs z <= 2 ^ 53 -> rnd (IZR z) = IZR z.
Proof. intros; apply rnd_fmt, fmt_IZR; assumption. Qed.

Lemma bpow53_lt_1024 : (bpow radix2 53 < bpow radix2 1024)%R.
Proof. apply bpow_lt; lia. Qed.

Lemma rnd_no_overflow x : (Rabs x <= bpow radix2 53)%R ->
  Rlt_bool (Rabs (round radix2 (SpecFloat.fexp 53 1024) (round_mode mode_NE) x)) (bpow radix2 1024) = true.
Proof.
  intros H. apply Rlt_bool_true.
  apply Rle_lt_trans with (2 := bpow53_lt_1024).
  apply (abs_round_le_generic radix2 fexp64); auto with typeclass_instances.
  apply fmt_bpow53.
Qed.

Lemma f_of_Z_correct z : Z.abs z <= 2 ^ 53 ->
  B2R (f_of_Z z) = IZR z /\ is_finite (f_of_Z z) = true.
Proof.
  intros H. unfold f_of_Z.
  generalize (binary_normalize_correct 53 1024 prec53 emax1024 mode_NE z 0 false).
  simpl.
  assert (E : F2R (Float radix2 z 0) = IZR z) by (unfold F2R; simpl; lra).
  rewrite E.
  rewrite rnd_no_overflow.
  - intros (A & B & _). split; [|exact B]. rewrite A. apply (rnd_IZR z H).
  - rewrite <- abs_IZR, bpow53_IZR. apply IZR_le. exact H.
Qed.

Lemma Bmult_ok (x y : b64) : is_finite x = true -> is_finite y = true ->
  (Rabs (B2R x * B2R y) <= bpow radix2 53)%R ->
  B2R (Bmult mode_NE x y) = rnd (B2R x * B2R y) /\ is_finite (Bmult mode_NE x y) = true.
Proof.
  intros Fx Fy H.
  generalize (Bmult_correct 53 1024 prec53 emax1024 mode_NE x y).
  rewrite rnd_no_overflow by exact H.
  intros (A & B & _). split; [exact A|]. rewrite B, Fx, Fy. reflexivity.
Qed.

Lemma Bdiv_ok (x y : b64) : is_finite x = true -> B2R y <> 0%R ->
  (Rabs (B2R x / B2R y) <= bpow radix2 53)%R ->
  B2R (Bdiv mode_NE x y) = rnd (B2R x / B2R y) /\ is_finite (Bdiv mode_NE x y) = true.
Proof.
  intros Fx Hy H.
  generalize (Bdiv_correct 53 1024 prec53 emax1024 mode_NE x y Hy).
  rewrite rnd_no_overflow by exact H.
  intros (A & B & _). split; [exact A|]. rewrite B, Fx. reflexivity.
Qed.

Lemma Bminus_ok (x y : b64) : is_finite x = true -> is_finite y = true ->
  (Rabs (B2R x - B2R y) <= bpow radix2 53)%R ->
  B2R (Bminus mode_NE x y) = rnd (B2R x - B2R y) /\ is_finite (Bminus mode_NE x y) = true.
Proof.
  intros Fx Fy H.
  generalize (Bminus_correct 53 1024 prec53 emax1024 mode_NE x y Fx Fy).
  rewrite rnd_no_overflow by exact H.
  intros (A & B & _). split; [exact A|exact B].
Qed.

Lemma round_FIX0 (f : R -> Z) x : round radix2 (FIX_exp 0) f x = IZR (f x).
Proof.
  unfold round, F2R, scaled_mantissa, cexp, FIX_exp. simpl.
  rewrite !Rmult_1_r. reflexivity.
Qed.

Lemma f_floor_correct (x : b64) :
  B2R (f_floor x) = IZR (Zfloor (B2R x)) /\ is_finite (f_floor x) = is_finite x.
Proof.
  unfold f_floor.
  destruct (Bnearbyint_correct 53 1024 emax1024 mode_DN x) as (A & B & _).
  rewrite A, round_FIX0. split; [reflexivity | exact B].
Qed.

Lemma f_ceil_correct (x : b64) :
  B2R (f_ceil x) = IZR (Zceil (B2R x)) /\ is_finite (f_ceil x) = is_finite x.
Proof.
  unfold f_ceil.
  destruct (Bnearbyint_correct 53 1024 emax1024 mode_UP x) as (A & B & _).
  rewrite A, round_FIX0. split; [reflexivity | exact B].
Qed.

Lemma f_to_Z_correct (x : b64) : f_to_Z x = Ztrunc (B2R x).
Proof.
  unfold f_to_Z. apply eq_IZR.
  rewrite (Btrunc_correct 53 1024 emax1024 x), round_FIX0. reflexivity.
Qed.

(* ---------- lists ---------- *)

Lemma last_nth_len (s : list Z) : s <> [] -> last s 0 = nth (length s - 1) s 0.
Proof.
  induction s as [|a [|b t] IH]; intros H; [congruence | reflexivity |].
  change (last (a :: b :: t) 0) with (last (b :: t) 0).
  rewrite IH by congruence. simpl. rewrite Nat.sub_0_r. reflexivity.
Qed.

Lemma sd_min_nth s : s <> [] -> sd_min s = nth 0 s 0.
Proof. destruct s; [congruence | reflexivity]. Qed.
Lemma sd_max_nth s : s <> [] -> sd_max s = nth (length s - 1) s 0.
Proof. intros H. destruct s as [|a t]; [congruence|]. unfold sd_max. apply last_nth_len; congruence. Qed.

Lemma Sorted_nth_le (s : list Z) : Sorted Z.le s ->
  forall i j, (i <= j < length s)%nat -> nth i s 0 <= nth j s 0.
Proof.
  intros H. apply Sorted_StronglySorted in H; [|intros a b c; apply Z.le_trans].
  induction H as [|a t Ht IH Ha]; intros i j Hij; simpl in Hij; [lia|].
  destruct i as [|i], j as [|j]; simpl; try lia.
  - rewrite Forall_forall in Ha. apply Ha, nth_In. lia.
  - apply IH. lia.
Qed.

Lemma Forall_nth_range (s : list Z) (P : Z -> Prop) i : Forall P s -> (i < length s)%nat -> P (nth i s 0).
Proof. intros H Hi. rewrite Forall_forall in H. apply H, nth_In, Hi. Qed.

(* ---------- the computation on reals ---------- *)

Definition X (r : R) (n : Z) : R := rnd (rnd (r / 100) * IZR n).

Definition pct_real (s : list Z) (r : R) : Z :=
  let x := X r (Z.of_nat (length s) - 1) in
  let first := nth (Z.to_nat (Zfloor x)) s 0 in
  let second := nth (Z.to_nat (Zceil x)) s 0 in
  first + Ztrunc (rnd (IZR (second - first) * rnd (x - IZR (Zfloor x)))).

Lemma rnd_1 : rnd 1 = 1%R.
Proof. apply (rnd_IZR 1). simpl. lia. Qed.

Lemma q_bounds r : (0 <= r <= 100)%R -> (0 <= rnd (r / 100) <= 1)%R.
Proof.
  intros H. split.
  - rewrite <- rnd_0. apply rnd_le. lra.
  - rewrite <- rnd_1. apply rnd_le. lra.
Qed.

Lemma X_bounds r n : (0 <= r <= 100)%R -> 0 <= n <= 2 ^ 53 -> (0 <= X r n <= IZR n)%R.
Proof.
  intros Hr Hn. unfold X. pose proof (q_bounds r Hr) as Hq.
  assert (0 <= IZR n)%R by (apply IZR_le; lia).
  split.
  - rewrite <- rnd_0. apply rnd_le. apply Rmult_le_pos; lra.
  - rewrite <- (rnd_IZR n) at 2 by lia. apply rnd_le. nra.
Qed.

Lemma X_mono r1 r2 n : 0 <= n -> (r1 <= r2)%R -> (X r1 n <= X r2 n)%R.
Proof.
  intros Hn H. unfold X. apply rnd_le.
  assert (0 <= IZR n)%R by (apply IZR_le; lia).
  apply Rmult_le_compat_r; [assumption|]. apply rnd_le. lra.
Qed.

Lemma floor_ceil x : Zfloor x <= Zceil x <= Zfloor x + 1.
Proof.
  destruct (Req_dec (IZR (Zfloor x)) x) as [E|E].
  - rewrite <- E at 2 3. rewrite Zceil_IZR. lia.
  - rewrite (Zceil_floor_neq x E). lia.
Qed.

Lemma ceil_eq_floor x : Zceil x = Zfloor x -> x = IZR (Zfloor x).
Proof.
  intros H. destruct (Req_dec (IZR (Zfloor x)) x) as [E|E]; [congruence|].
  rewrite (Zceil_floor_neq x E) in H. lia.
Qed.

Lemma frac_bounds x : (0 <= x - IZR (Zfloor x) < 1)%R.
Proof. pose proof (Zfloor_lb x). pose proof (Zfloor_ub x). lra. Qed.

Lemma w_bounds x : (0 <= rnd (x - IZR (Zfloor x)) <= 1)%R.
Proof.
  pose proof (frac_bounds x). split.
  - rewrite <- rnd_0. apply rnd_le. lra.
  - rewrite <- rnd_1. apply rnd_le. lra.
Qed.

Lemma t_bounds d w : 0 <= d <= 2 ^ 53 -> (0 <= w <= 1)%R ->
  0 <= Ztrunc (rnd (IZR d * w)) <= d.
Proof.
  intros Hd Hw. assert (0 <= IZR d)%R by (apply IZR_le; lia).
  split.
  - rewrite <- (Ztrunc_IZR 0). apply Ztrunc_le. rewrite <- rnd_0. apply rnd_le. nra.
  - rewrite <- (Ztrunc_IZR d) at 2. apply Ztrunc_le.
    rewrite <- (rnd_IZR d) at 2 by lia. apply rnd_le. nra.
Qed.

Lemma t_mono d w1 w2 : 0 <= d -> (w1 <= w2)%R ->
  Ztrunc (rnd (IZR d * w1)) <= Ztrunc (rnd (IZR d * w2)).
Proof.
  intros Hd Hw. assert (0 <= IZR d)%R by (apply IZR_le; lia).
  apply Ztrunc_le, rnd_le. nra.
Qed.

Definition pct_guard (s : list Z) : Prop :=
  Sorted Z.le s /\ s <> [] /\ Forall (fun x => 0 <= x <= 2 ^ 53) s /\ Z.of_nat (length s) <= 2 ^ 53.

(* indices *)
Lemma idx_bounds (s : list Z) r : s <> [] -> Z.of_nat (length s) <= 2 ^ 53 -> (0 <= r <= 100)%R ->
  let x := X r (Z.of_nat (length s) - 1) in
  0 <= Zfloor x /\ Zfloor x <= Zceil x /\ Zceil x <= Z.of_nat (length s) - 1.
Proof.
  intros Hs Hl Hr x.
  assert (Hlen : 1 <= Z.of_nat (length s)) by (destruct s; [congruence | simpl; lia]).
  destruct (X_bounds r (Z.of_nat (length s) - 1) Hr) as [A B]; [lia|].
  fold x in A, B.
  split; [|split].
  - rewrite <- (Zfloor_IZR 0). apply Zfloor_le. exact A.
  - apply floor_ceil.
  - rewrite <- (Zceil_IZR (Z.of_nat (length s) - 1)). apply Zceil_le. exact B.
Qed.

Lemma pct_real_bounds (s : list Z) r : pct_guard s -> (0 <= r <= 100)%R ->
  let x := X r (Z.of_nat (length s) - 1) in
  nth (Z.to_nat (Zfloor x)) s 0 <= pct_real s r <= nth (Z.to_nat (Zceil x)) s 0.
Proof.
  intros (Hsort & Hne & Hall & Hlen) Hr x.
  destruct (idx_bounds s r Hne Hlen Hr) as (I1 & I2 & I3). fold x in I1, I2, I3.
  unfold pct_real. fold x.
  set (first := nth (Z.to_nat (Zfloor x)) s 0).
  set (second := nth (Z.to_nat (Zceil x)) s 0).
  assert (Hfs : first <= second) by (apply Sorted_nth_le; [assumption | lia]).
  assert (Hsec : 0 <= second <= 2 ^ 53) by (apply (Forall_nth_range s _ _ Hall); lia).
  assert (Hfir : 0 <= first <= 2 ^ 53) by (apply (Forall_nth_range s _ _ Hall); lia).
  pose proof (t_bounds (second - first) (rnd (x - IZR (Zfloor x))) ltac:(lia) (w_bounds x)).
  lia.
Qed.

Lemma pct_real_between s r : pct_guard s -> (0 <= r <= 100)%R ->
  sd_min s <= pct_real s r <= sd_max s.
Proof.
  intros G Hr. pose proof (pct_real_bounds s r G Hr) as H. simpl in H.
  destruct G as (Hsort & Hne & Hall & Hlen).
  destruct (idx_bounds s r Hne Hlen Hr) as (I1 & I2 & I3). simpl in I1, I2, I3.
  rewrite sd_min_nth, sd_max_nth by assumption.
  set (x := X r (Z.of_nat (length s) - 1)) in *.
  assert (nth 0 s 0 <= nth (Z.to_nat (Zfloor x)) s 0) by (apply Sorted_nth_le; [assumption | lia]).
  assert (nth (Z.to_nat (Zceil x)) s 0 <= nth (length s - 1) s 0) by (apply Sorted_nth_le; [assumption | lia]).
  lia.
Qed.

Lemma pct_real_mono s r1 r2 : pct_guard s -> (0 <= r1 <= 100)%R -> (0 <= r2 <= 100)%R -> (r1 <= r2)%R ->
  pct_real s r1 <= pct_real s r2.
Proof.
  intros G H1 H2 H12.
  pose proof (pct_real_bounds s r1 G H1) as B1. pose proof (pct_real_bounds s r2 G H2) as B2.
  simpl in B1, B2.
  destruct G as (Hsort & Hne & Hall & Hlen).
  destruct (idx_bounds s r1 Hne Hlen H1) as (I1 & I2 & I3).
  destruct (idx_bounds s r2 Hne Hlen H2) as (J1 & J2 & J3). simpl in I1, I2, I3, J1, J2, J3.
  assert (Hlen1 : 1 <= Z.of_nat (length s)) by (destruct s; [congruence | simpl; lia]).
  pose proof (X_mono r1 r2 (Z.of_nat (length s) - 1) ltac:(lia) H12) as HX.
  unfold pct_real in *.
  set (x1 := X r1 (Z.of_nat (length s) - 1)) in *.
  set (x2 := X r2 (Z.of_nat (length s) - 1)) in *.
  pose proof (Zfloor_le x1 x2 HX) as Hfl. pose proof (Zceil_le x1 x2 HX) as Hce.
  destruct (Z.eq_dec (Zfloor x1) (Zfloor x2)) as [Ef|Ef].
  - destruct (Z.eq_dec (Zceil x1) (Zceil x2)) as [Ec|Ec].
    + rewrite <- Ef, <- Ec. apply Zplus_le_compat_l.
      set (first := nth (Z.to_nat (Zfloor x1)) s 0).
      set (second := nth (Z.to_nat (Zceil x1)) s 0).
      assert (Hfs : first <= second) by (apply Sorted_nth_le; [assumption | lia]).
      apply t_mono; [lia|]. apply rnd_le. lra.
    + pose proof (floor_ceil x1). pose proof (floor_ceil x2).
      assert (Ec1 : Zceil x1 = Zfloor x1) by lia.
      pose proof (ceil_eq_floor x1 Ec1) as Ex.
      replace (x1 - IZR (Zfloor x1))%R with 0%R by lra.
      rewrite rnd_0, Rmult_0_r, rnd_0, (Ztrunc_IZR 0), Z.add_0_r, Ef.
      lia.
  - pose proof (floor_ceil x1).
    assert (nth (Z.to_nat (Zceil x1)) s 0 <= nth (Z.to_nat (Zfloor x2)) s 0)
      by (apply Sorted_nth_le; [assumption | lia]).
    lia.
Qed.

(* ---------- the float computation is the real computation ---------- *)

Definition pct_mid (s : list Z) (p : b64) : Z :=
  let m := Z.of_nat (length s) in
  let ai := Bmult mode_NE (Bdiv mode_NE p (f_of_Z 100)) (f_of_Z (m - 1)) in
  let lo := f_floor ai in
  let first := nth (Z.to_nat (f_to_Z lo)) s 0 in
  let second := nth (Z.to_nat (f_to_Z (f_ceil ai))) s 0 in
  let weight := Bminus mode_NE ai lo in
  first + f_to_Z (Bmult mode_NE (f_of_Z (second - first)) weight).

Lemma percentile_unfold x y t pm pe :
  percentile (x :: y :: t) pm pe =
  if Bleb (f_of_me pm pe) (f_of_Z 0) then x
  else if Bleb (f_of_Z 100) (f_of_me pm pe) then last (x :: y :: t) 0
  else pct_mid (x :: y :: t) (f_of_me pm pe).
Proof. reflexivity. Qed.

Lemma Rabs_le_53 a n : 0 <= n <= 2 ^ 53 -> (0 <= a <= IZR n)%R -> (Rabs a <= bpow radix2 53)%R.
Proof.
  intros Hn Ha. rewrite Rabs_pos_eq by lra. rewrite bpow53_IZR.
  apply Rle_trans with (IZR n); [lra | apply IZR_le; lia].
Qed.

Lemma pct_mid_real (s : list Z) (p : b64) :
  s <> [] -> Forall (fun x => 0 <= x <= 2 ^ 53) s -> Z.of_nat (length s) <= 2 ^ 53 ->
  is_finite p = true -> (0 <= B2R p <= 100)%R ->
  pct_mid s p = pct_real s (B2R p).
Proof.
  intros Hne Hall Hlen Fp Hr.
  assert (Hlen1 : 1 <= Z.of_nat (length s)) by (destruct s; [congruence | simpl; lia]).
  unfold pct_mid, pct_real.
  set (m := Z.of_nat (length s)) in *.
  destruct (f_of_Z_correct 100 ltac:(simpl; lia)) as [R100 F100].
  destruct (f_of_Z_correct (m - 1) ltac:(lia)) as [Rm Fm].
  pose proof (q_bounds (B2R p) Hr) as Hq.
  destruct (Bdiv_ok p (f_of_Z 100) Fp) as [Rq Fq].
  { rewrite R100. lra. }
  { rewrite R100. apply (Rabs_le_53 _ 1); [lia|]. lra. }
  rewrite R100 in Rq.
  set (q := Bdiv mode_NE p (f_of_Z 100)) in *.
  pose proof (X_bounds (B2R p) (m - 1) Hr ltac:(lia)) as HX.
  assert (0 <= IZR (m - 1))%R by (apply IZR_le; lia).
  destruct (Bmult_ok q (f_of_Z (m - 1)) Fq Fm) as [Rai Fai].
  { rewrite Rq, Rm. apply (Rabs_le_53 _ (m - 1)); [lia|]. nra. }
  rewrite Rq, Rm in Rai. fold (X (B2R p) (m - 1)) in Rai.
  set (ai := Bmult mode_NE q (f_of_Z (m - 1))) in *.
  set (x := X (B2R p) (m - 1)) in *.
  destruct (f_floor_correct ai) as [Rlo Flo]. rewrite Rai in Rlo. rewrite Fai in Flo.
  destruct (f_ceil_correct ai) as [Rhi _]. rewrite Rai in Rhi.
  rewrite (f_to_Z_correct (f_floor ai)), Rlo, Ztrunc_IZR.
  rewrite (f_to_Z_correct (f_ceil ai)), Rhi, Ztrunc_IZR.
  destruct (idx_bounds s (B2R p) Hne Hlen Hr) as (I1 & I2 & I3). fold m in I1, I2, I3. fold x in I1, I2, I3.
  set (first := nth (Z.to_nat (Zfloor x)) s 0).
  set (second := nth (Z.to_nat (Zceil x)) s 0).
  assert (Hsec : 0 <= second <= 2 ^ 53) by (apply (Forall_nth_range s _ _ Hall); lia).
  assert (Hfir : 0 <= first <= 2 ^ 53) by (apply (Forall_nth_range s _ _ Hall); lia).
  pose proof (frac_bounds x) as Hfr. pose proof (w_bounds x) as Hw.
  destruct (Bminus_ok ai (f_floor ai) Fai Flo) as [Rw Fw].
  { rewrite Rai, Rlo. apply (Rabs_le_53 _ 1); [lia|]. lra. }
  rewrite Rai, Rlo in Rw.
  set (weight := Bminus mode_NE ai (f_floor ai)) in *.
  destruct (f_of_Z_correct (second - first) ltac:(lia)) as [Rd Fd].
  destruct (Bmult_ok (f_of_Z (second - first)) weight Fd Fw) as [Rpr _].
  { rewrite Rd, Rw. rewrite Rabs_mult, bpow53_IZR.
    assert (Rabs (IZR (second - first)) <= IZR (2 ^ 53))%R
      by (rewrite <- abs_IZR; apply IZR_le; lia).
    rewrite (Rabs_pos_eq (rnd _)) by lra.
    pose proof (Rabs_pos (IZR (second - first))). nra. }
  rewrite f_to_Z_correct, Rpr, Rd, Rw. reflexivity.
Qed.

(* ---------- case analysis on p ---------- *)

Lemma p_cases pm pe :
  f_of_me pm pe = B754_infinity true \/ f_of_me pm pe = B754_infinity false \/ is_finite (f_of_me pm pe) = true.
Proof.
  pose proof (is_nan_binary_normalize 53 1024 prec53 emax1024 mode_NE pm pe false) as H.
  fold (f_of_me pm pe) in H.
  destruct (f_of_me pm pe) as [s|[|]| |s m e B]; simpl in *; auto; discriminate.
Qed.

Lemma Bleb_0 (p : b64) : is_finite p = true -> Bleb p (f_of_Z 0) = Rle_bool (B2R p) 0.
Proof.
  intros Fp. destruct (f_of_Z_correct 0 ltac:(simpl; lia)) as [R0 F0].
  rewrite (Bleb_correct 53 1024 p (f_of_Z 0) Fp F0), R0. reflexivity.
Qed.
Lemma Bleb_100 (p : b64) : is_finite p = true -> Bleb (f_of_Z 100) p = Rle_bool 100 (B2R p).
Proof.
  intros Fp. destruct (f_of_Z_correct 100 ltac:(simpl; lia)) as [R0 F0].
  rewrite (Bleb_correct 53 1024 (f_of_Z 100) p F0 Fp), R0. reflexivity.
Qed.

Lemma Bleb_ninf_0 : Bleb (B754_infinity true : b64) (f_of_Z 0) = true.
Proof. reflexivity. Qed.
Lemma Bleb_pinf_0 : Bleb (B754_infinity false : b64) (f_of_Z 0) = false.
Proof. reflexivity. Qed.
Lemma Bleb_100_pinf : Bleb (f_of_Z 100) (B754_infinity false : b64) = true.
Proof. vm_compute. reflexivity. Qed.

(* ---------- Percentile as a function of the float p ---------- *)

Definition pct_f (s : list Z) (p : b64) : Z :=
  match s with
  | [] => -1
  | [x] => x
  | x0 :: _ =>
      if Bleb p (f_of_Z 0) then x0
      else if Bleb (f_of_Z 100) p then last s 0
      else pct_mid s p
  end.

Lemma percentile_pct_f s pm pe : percentile s pm pe = pct_f s (f_of_me pm pe).
Proof. destruct s as [|x [|y t]]; reflexivity. Qed.

Lemma pct_f_low (s : list Z) (p : b64) : s <> [] -> Bleb p (f_of_Z 0) = true -> pct_f s p = sd_min s.
Proof.
  intros Hs H. destruct s as [|x [|y t]]; [congruence | reflexivity |].
  unfold pct_f. rewrite H. reflexivity.
Qed.

Lemma pct_f_high (s : list Z) (p : b64) : s <> [] -> Bleb p (f_of_Z 0) = false -> Bleb (f_of_Z 100) p = true ->
  pct_f s p = sd_max s.
Proof.
  intros Hs H0 H. destruct s as [|x [|y t]]; [congruence | reflexivity |].
  unfold pct_f. rewrite H0, H. reflexivity.
Qed.

Theorem p0_min : forall s pm pe,
  s <> [] -> Bleb (f_of_me pm pe) (f_of_Z 0) = true -> percentile s pm pe = sd_min s.
Proof. intros s pm pe Hs H. rewrite percentile_pct_f. apply pct_f_low; assumption. Qed.

Theorem p100_max : forall s pm pe,
  s <> [] -> Bleb (f_of_me pm pe) (f_of_Z 0) = false -> Bleb (f_of_Z 100) (f_of_me pm pe) = true ->
  percentile s pm pe = sd_max s.
Proof. intros s pm pe Hs H0 H. rewrite percentile_pct_f. apply pct_f_high; assumption. Qed.

(* Percentile on a finite p, as a function of the real value of p *)
Definition pct_ext (s : list Z) (r : R) : Z :=
  if Rle_bool r 0 then sd_min s else if Rle_bool 100 r then sd_max s else pct_real s r.

Lemma sd_min_le_max s : Sorted Z.le s -> s <> [] -> sd_min s <= sd_max s.
Proof.
  intros Hsort Hne. rewrite sd_min_nth, sd_max_nth by assumption.
  apply Sorted_nth_le; [assumption|]. destruct s; [congruence | simpl; lia].
Qed.

Lemma sd_min_max_single (x : Z) : sd_min [x] = x /\ sd_max [x] = x.
Proof. split; reflexivity. Qed.

Lemma pct_f_finite (s : list Z) (p : b64) : pct_guard s -> is_finite p = true -> pct_f s p = pct_ext s (B2R p).
Proof.
  intros G Fp. unfold pct_ext.
  destruct G as (Hsort & Hne & Hall & Hlen).
  pose proof (Bleb_0 p Fp) as E0. pose proof (Bleb_100 p Fp) as E1.
  destruct (Rle_bool_spec (B2R p) 0) as [L0|L0]; [apply pct_f_low; assumption|].
  destruct (Rle_bool_spec 100 (B2R p)) as [L1|L1]; [apply pct_f_high; assumption|].
  destruct s as [|x [|y t]]; [congruence | |].
  - (* one element: every index is 0 *)
    unfold pct_f, pct_real, X. change (Z.of_nat (length [x]) - 1) with 0.
    rewrite Rmult_0_r, rnd_0, (Zfloor_IZR 0), (Zceil_IZR 0).
    change (Z.to_nat 0) with 0%nat. cbn [nth].
    rewrite Z.sub_diag, Rmult_0_l, rnd_0, (Ztrunc_IZR 0). lia.
  - unfold pct_f. rewrite E0, E1.
    apply pct_mid_real; try assumption. lra.
Qed.

Lemma pct_ext_between s r : pct_guard s -> sd_min s <= pct_ext s r <= sd_max s.
Proof.
  intros G. unfold pct_ext.
  assert (sd_min s <= sd_max s) by (apply sd_min_le_max; apply G).
  destruct (Rle_bool_spec r 0); [lia|].
  destruct (Rle_bool_spec 100 r); [lia|].
  apply pct_real_between; [assumption | lra].
Qed.

Lemma pct_ext_mono s r1 r2 : pct_guard s -> (r1 <= r2)%R -> pct_ext s r1 <= pct_ext s r2.
Proof.
  intros G H. pose proof (pct_ext_between s r2 G) as B2. pose proof (pct_ext_between s r1 G) as B1.
  unfold pct_ext in *.
  destruct (Rle_bool_spec r1 0); [lia|].
  destruct (Rle_bool_spec r2 0); [lra|].
  destruct (Rle_bool_spec 100 r2); [lia|].
  destruct (Rle_bool_spec 100 r1); [lra|].
  apply pct_real_mono; [assumption | lra | lra | assumption].
Qed.

Lemma pct_f_between (s : list Z) (p : b64) : pct_guard s -> is_nan p = false -> sd_min s <= pct_f s p <= sd_max s.
Proof.
  intros G Hn.
  assert (Hmm : sd_min s <= sd_max s) by (apply sd_min_le_max; apply G).
  assert (Hne : s <> []) by apply G.
  destruct p as [sg|[|]| |sg m e B] eqn:Ep; try discriminate.
  - rewrite <- Ep. rewrite pct_f_finite by (subst; auto). apply pct_ext_between; assumption.
  - rewrite pct_f_low; [lia | assumption | reflexivity].
  - rewrite pct_f_high; [lia | assumption | reflexivity | apply Bleb_100_pinf].
  - rewrite <- Ep. rewrite pct_f_finite by (subst; auto). apply pct_ext_between; assumption.
Qed.

Theorem percentile_between : forall s pm pe,
  pct_guard s -> sd_min s <= percentile s pm pe <= sd_max s.
Proof.
  intros s pm pe G. rewrite percentile_pct_f. apply pct_f_between; [assumption|].
  apply (is_nan_binary_normalize 53 1024 prec53 emax1024 mode_NE pm pe false).
Qed.

Lemma pct_f_monotone (s : list Z) (p1 p2 : b64) : pct_guard s -> is_nan p1 = false -> is_nan p2 = false ->
  Bleb p1 p2 = true -> pct_f s p1 <= pct_f s p2.
Proof.
  intros G N1 N2 H.
  pose proof (pct_f_between s p1 G N1) as B1. pose proof (pct_f_between s p2 G N2) as B2.
  assert (Hne : s <> []) by apply G.
  assert (Hfin : is_finite p1 = true -> is_finite p2 = true -> pct_f s p1 <= pct_f s p2).
  { intros F1 F2. rewrite !pct_f_finite by assumption. apply pct_ext_mono; [assumption|].
    rewrite (Bleb_correct 53 1024 p1 p2 F1 F2) in H.
    revert H. case Rle_bool_spec; [auto | intros; discriminate]. }
  assert (Hlow : pct_f s (B754_infinity true) = sd_min s) by (apply pct_f_low; [assumption | reflexivity]).
  assert (Hhigh : pct_f s (B754_infinity false) = sd_max s)
    by (apply pct_f_high; [assumption | reflexivity | apply Bleb_100_pinf]).
  destruct p1 as [s1|[|]| |s1 m1 e1 Bd1]; try discriminate;
  destruct p2 as [s2|[|]| |s2 m2 e2 Bd2]; try discriminate;
  try (apply Hfin; reflexivity);
  try (rewrite Hlow in *; lia); try (rewrite Hhigh in *; lia);
  try (exfalso; clear -H; destruct s1; discriminate H).
Qed.

Theorem percentile_monotone : forall s pm1 pe1 pm2 pe2,
  pct_guard s -> Bleb (f_of_me pm1 pe1) (f_of_me pm2 pe2) = true ->
  percentile s pm1 pe1 <= percentile s pm2 pe2.
Proof.
  intros s pm1 pe1 pm2 pe2 G H. rewrite !percentile_pct_f.
  apply pct_f_monotone; try assumption;
  apply (is_nan_binary_normalize 53 1024 prec53 emax1024 mode_NE _ _ false).
Qed.

Print Assumptions p0_min.
Print Assumptions p100_max.
Print Assumptions percentile_between.
Print Assumptions percentile_monotone.
