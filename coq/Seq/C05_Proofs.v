(* Seq/C05_Proofs.v — proofs behind Properties/C05.v: every attempt is reported
   exactly once, as the right kind, identically to all collectors. *)
From CV Require Import Base.Prelude Seq.RollingCounter Seq.TimedCheck Seq.Logic Seq.Circuit Seq.CircuitSpec Seq.C01_Proofs.
From Coq Require Import ZifyBool.

(* ====================================================================== *)
(* single steps                                                            *)
(* ====================================================================== *)
Lemma begin_events st : forall s id c w,
  enabled st s -> c_has_run c = true -> In w (run_collectors st) ->
  run_evs w (snd (step st s (Begin id c))) =
  match gate s c with
  | GShed => [(KShort, clock s, None)]
  | GReject => [(KReject, clock s, None)]
  | GVeto | GRun => []
  end.
Proof.
  intros s id c w He Hr Hw. rewrite step_begin. cbn [snd].
  destruct (begin_call_char st id c s He Hr) as (cl1 & o1 & Q & E). cbv zeta in E. rewrite E. clear E.
  destruct (gate s c); cbn [fst snd]; proj_norm; rewrite (quiet_run_evs _ _ Q).
  - rewrite fallback_stage_run_evs, (run_fan_run_evs _ _ _ _ _ Hw). reflexivity.
  - rewrite run_evs_cons, fallback_stage_run_evs. reflexivity.
  - rewrite run_evs_cons. proj_norm. rewrite fallback_stage_run_evs, (run_fan_run_evs _ _ _ _ _ Hw). reflexivity.
  - reflexivity.
Qed.

Lemma end_events st : forall s id e cs start expected derived w,
  find_call id s = Some cs -> cs_phase cs = PRun start expected derived ->
  res_panics (e_res e) = false -> In w (run_collectors st) ->
  run_evs w (snd (step st s (EndRun id e))) =
  [(classify (res_is_bad (e_res e))
             (match expected with Some x => x <? clock s | None => false end)
             (negb (res_is_nil (e_res e))) (cs_done cs) (l_ignore_int (cfg s)) (ie_says (l_ie (cfg s))),
    clock s, Some (clock s - start))].
Proof.
  intros s id e cs start expected derived w Hf Hp Hn Hw. rewrite step_snd. unfold step_core.
  destruct (end_run_PRun_obs st id e s cs start expected derived Hf Hp Hn) as (oq & tail & E & Q & T).
  rewrite E. proj_norm. rewrite run_evs_cons. proj_norm.
  rewrite (quiet_run_evs _ _ Q), (run_fan_run_evs _ _ _ _ _ Hw).
  destruct T as [(v & a & ->)|(err & s2 & ->)]; [reflexivity|].
  rewrite fallback_stage_run_evs. reflexivity.
Qed.

Lemma begin_expected st : forall s id c,
  enabled st s -> c_has_run c = true -> gate s c = GRun ->
  exists cs, find_call id (fst (step st s (Begin id c))) = Some cs /\
    cs_phase cs = PRun (clock s) (if 0 <? l_timeout (cfg s) then Some (clock s + l_timeout (cfg s)) else None)
                       (0 <? l_timeout (cfg s)) /\
    cs_done cs = c_done c.
Proof.
  intros s id c He Hr Hg. rewrite step_begin. cbn [fst].
  destruct (begin_call_char st id c s He Hr) as (cl1 & o1 & Q & E). cbv zeta in E. rewrite E, Hg. clear E.
  cbn [fst]. rewrite find_call_put. cbn [cs_id]. rewrite Nat.eqb_refl.
  eexists. split; [reflexivity|]. split; reflexivity.
Qed.

Lemma fallback_reject st : forall s cs err ran derived i,
  fb_available s (cs_call cs) = true -> fb_limit_hit s = true -> In i (fb_collectors st) ->
  fb_evs i (snd (fallback_stage st cs err ran derived s)) = [(FKReject, clock s, None)].
Proof.
  intros s cs err ran derived i Ha Hl Hi. rewrite fallback_stage_char, Ha, Hl. cbn [snd].
  proj_norm. rewrite (emit_fb_fb_evs _ _ _ _ _ Hi). reflexivity.
Qed.

Lemma fallback_end st : forall s id f cs fbstart ran derived i,
  find_call id s = Some cs -> cs_phase cs = PFb fbstart ran derived -> In i (fb_collectors st) ->
  fb_evs i (snd (step st s (EndFb id f))) =
  match f with
  | FNil => [(FKSuccess, fbstart, Some (clock s - fbstart))]
  | FErr _ => [(FKFailure, fbstart, Some (clock s - fbstart))]
  | FPanic _ => []
  end.
Proof.
  intros s id f cs fbstart ran derived i Hf Hp Hi. rewrite step_snd. unfold step_core.
  rewrite (end_fb_PFb st id f s cs fbstart ran derived Hf Hp). cbn [snd]. proj_norm.
  destruct f; rewrite ?(emit_fb_fb_evs _ _ _ _ _ Hi); reflexivity.
Qed.

(* ====================================================================== *)
(* identical delivery                                                      *)
(* ====================================================================== *)
(* all collectors of a category read the same log off this list *)
Definition Uni (st : static) (l : list obs) : Prop :=
  (forall w1 w2, In w1 (run_collectors st) -> In w2 (run_collectors st) -> run_evs w1 l = run_evs w2 l) /\
  (forall i j, In i (fb_collectors st) -> In j (fb_collectors st) -> fb_evs i l = fb_evs j l).

Lemma Uni_nil st : Uni st [].
Proof. split; reflexivity. Qed.
Lemma Uni_app st a b : Uni st a -> Uni st b -> Uni st (a ++ b).
Proof.
  intros [A1 A2] [B1 B2]. split.
  - intros w1 w2 H1 H2. rewrite !run_evs_app, (A1 w1 w2 H1 H2), (B1 w1 w2 H1 H2). reflexivity.
  - intros i j H1 H2. rewrite !fb_evs_app, (A2 i j H1 H2), (B2 i j H1 H2). reflexivity.
Qed.
Lemma Uni_cons st o l : Uni st [o] -> Uni st l -> Uni st (o :: l).
Proof. intros A B. apply (Uni_app st [o] l A B). Qed.
Lemma Uni_quiet st l : Quiet l -> Uni st l.
Proof.
  intros Q. split.
  - intros w1 w2 _ _. rewrite !(quiet_run_evs _ _ Q). reflexivity.
  - intros i j _ _. rewrite !(quiet_fb_evs _ _ Q). reflexivity.
Qed.
Lemma Uni_run_fan st k t d : Uni st (run_fan st k t d).
Proof.
  split.
  - intros w1 w2 H1 H2. rewrite !run_fan_run_evs by assumption. reflexivity.
  - intros i j _ _. rewrite !run_fan_fb_evs. reflexivity.
Qed.
Lemma Uni_emit_fb st k t d : Uni st (emit_fb st k t d).
Proof.
  split.
  - intros w1 w2 _ _. rewrite !emit_fb_run_evs. reflexivity.
  - intros i j H1 H2. rewrite !emit_fb_fb_evs by assumption. reflexivity.
Qed.
Lemma Uni_other st o :
  match o with ORunEv _ _ _ _ | OFbEv _ _ _ _ => False | _ => True end -> Uni st [o].
Proof. destruct o; intros H; try destruct H; split; reflexivity. Qed.

Ltac uni :=
  repeat match goal with
  | |- Uni _ [] => apply Uni_nil
  | |- Uni _ (run_fan _ _ _ _) => apply Uni_run_fan
  | |- Uni _ (emit_fb _ _ _ _) => apply Uni_emit_fb
  | |- Uni _ (_ ++ _) => apply Uni_app
  | |- Uni _ [reading _ _] => apply Uni_quiet; apply Quiet_reading
  | |- Uni _ [_] => apply Uni_other; exact I
  | |- Uni _ (_ :: ?l) => lazymatch l with [] => fail | _ => apply Uni_cons end
  | Q : Quiet ?l |- Uni _ ?l => apply Uni_quiet; exact Q
  end.

Lemma Uni_fallback_stage st cs err ran derived s : Uni st (snd (fallback_stage st cs err ran derived s)).
Proof.
  rewrite fallback_stage_char.
  destruct (fb_available s (cs_call cs)); [destruct (fb_limit_hit s)|]; cbn [snd]; uni.
Qed.

Lemma Uni_begin_call st id c s : Uni st (snd (begin_call st id c s)).
Proof.
  destruct (s_mode st) eqn:Hm; [|unfold begin_call; rewrite Hm; cbn [snd]; uni..].
  destruct (l_disabled (cfg s)) eqn:Hd; [unfold begin_call; rewrite Hm, Hd; cbn [snd]; uni|].
  destruct (c_has_run c) eqn:Hr; [|unfold begin_call; rewrite Hm, Hd, Hr; cbn [negb snd]; uni].
  destruct (begin_call_char st id c s (conj Hm Hd) Hr) as (cl1 & o1 & Q & E). cbv zeta in E. rewrite E. clear E.
  destruct (gate s c); cbn [fst snd]; uni; apply Uni_fallback_stage.
Qed.

Lemma Uni_end_run st id e s : Uni st (snd (end_run st id e s)).
Proof.
  destruct (find_call id s) as [cs|] eqn:Hf.
  - destruct (cs_phase cs) as [start expected derived| |t r d] eqn:Hp.
    + destruct (res_panics (e_res e)) eqn:Hn.
      * rewrite (end_run_PRun st id e s cs start expected derived Hf Hp). cbv zeta.
        destruct (e_res e); try discriminate Hn. cbn [snd]. uni.
      * destruct (end_run_PRun_obs st id e s cs start expected derived Hf Hp Hn) as (oq & tail & E & Q & T).
        rewrite E. destruct T as [(v & a & ->)|(err & s2 & ->)]; uni. apply Uni_fallback_stage.
    + unfold end_run. rewrite Hf, Hp. cbn [snd]. uni.
    + unfold end_run. rewrite Hf, Hp. cbn [snd]. uni.
  - unfold end_run. rewrite Hf. cbn [snd]. uni.
Qed.

Lemma Uni_end_fb st id f s : Uni st (snd (end_fb st id f s)).
Proof.
  destruct (find_call id s) as [cs|] eqn:Hf.
  - destruct (cs_phase cs) as [start expected derived| |t r d] eqn:Hp.
    + unfold end_fb. rewrite Hf, Hp. cbn [snd]. uni.
    + unfold end_fb. rewrite Hf, Hp. cbn [snd]. uni.
    + rewrite (end_fb_PFb st id f s cs t r d Hf Hp). cbn [snd]. destruct f; uni.
  - unfold end_fb. rewrite Hf. cbn [snd]. uni.
Qed.

Lemma Uni_step st s ev : Uni st (snd (step st s ev)).
Proof.
  rewrite step_snd. apply Uni_app; [|uni].
  destruct ev as [id c|id e|id f|id| | |l|d|k]; unfold step_core; cbn [snd]; try apply Uni_nil.
  - apply Uni_begin_call.
  - apply Uni_end_run.
  - apply Uni_end_fb.
  - apply Uni_quiet. apply open_circuit_spec.
  - apply Uni_quiet. apply close_circuit_spec.
Qed.

Lemma Uni_history st : forall h s, Uni st (all_obs (trace_from st s h)).
Proof.
  induction h as [|ev h IH]; intros s; [apply Uni_nil|].
  rewrite all_obs_cons. apply Uni_app; [apply Uni_step|apply IH].
Qed.

Lemma identical_run st : forall s h w1 w2,
  In w1 (run_collectors st) -> In w2 (run_collectors st) ->
  run_evs w1 (all_obs (trace_from st s h)) = run_evs w2 (all_obs (trace_from st s h)).
Proof. intros s h w1 w2. apply (Uni_history st h s). Qed.

Lemma identical_fb st : forall s h i j,
  In i (fb_collectors st) -> In j (fb_collectors st) ->
  fb_evs i (all_obs (trace_from st s h)) = fb_evs j (all_obs (trace_from st s h)).
Proof. intros s h i j. apply (Uni_history st h s). Qed.

(* ====================================================================== *)
(* exactly once over a history                                             *)
(* ====================================================================== *)
Lemma first_end_cons id ev h :
  first_end id (ev :: h) =
  match ev with
  | EndRun i e => if Nat.eqb i id then Some e else first_end id h
  | _ => first_end id h
  end.
Proof.
  unfold first_end. cbn [find]. destruct ev as [i c|i e|i f|i| | |l|d|k]; try reflexivity.
  destruct (Nat.eqb i id); reflexivity.
Qed.

Lemma ph_PRun_find id s start expected derived :
  ph id s = Some (PRun start expected derived) ->
  exists cs, find_call id s = Some cs /\ cs_phase cs = PRun start expected derived.
Proof.
  unfold ph. destruct (find_call id s) as [cs|]; cbn; [|discriminate].
  intros H. exists cs. split; [reflexivity|congruence].
Qed.

(* while the run function of call id runs: nothing until its first EndRun, then one event unless it panicked *)
Lemma running_rest st id w : In w (run_collectors st) -> forall h s start expected derived,
  ph id s = Some (PRun start expected derived) -> ~ In id (begin_ids h) ->
  length (run_evs w (call_obs id (trace_from st s h))) =
  match first_end id h with
  | Some e => if res_panics (e_res e) then 0%nat else 1%nat
  | None => 0%nat
  end.
Proof.
  intros Hw. induction h as [|ev h IH]; intros s start expected derived Hp Hn; [reflexivity|].
  apply not_in_begin_ids_cons in Hn. destruct Hn as [Hev Hn].
  rewrite call_obs_cons, run_evs_app, app_length, first_end_cons.
  destruct (concerns id ev) eqn:Hc.
  2:{ rewrite <- (step_ph_other st s ev id Hc) in Hp. rewrite (IH _ _ _ _ Hp Hn).
      destruct ev as [i c|i e|i f|i| | |l|d|k]; try reflexivity.
      unfold concerns, event_id in Hc. rewrite Hc. reflexivity. }
  destruct ev as [i c|i e|i f|i| | |l|d|k]; unfold concerns, event_id in Hc; try discriminate Hc;
    assert (i = id) by lia; subst i.
  - exfalso. exact (Hev c eq_refl).
  - rewrite Nat.eqb_refl.
    destruct (ph_PRun_find id s start expected derived Hp) as (cs & Hf & Hcp).
    assert (Hs : settled id (fst (step st s (EndRun id e)))).
    { rewrite step_fst. unfold step_core. apply (end_run_PRun_state st id e s cs start expected derived Hf Hcp). }
    rewrite (settled_rest st id w h _ Hs Hn). cbn [length]. rewrite Nat.add_0_r.
    destruct (res_panics (e_res e)) eqn:Hpan.
    + rewrite step_snd. unfold step_core.
      rewrite (end_run_PRun st id e s cs start expected derived Hf Hcp). cbv zeta.
      destruct (e_res e); try discriminate Hpan. cbn [fst snd]. proj_norm. reflexivity.
    + rewrite (end_events st s id e cs start expected derived w Hf Hcp Hpan Hw). reflexivity.
  - assert (E : end_fb st id f s = (s, [])) by (apply end_fb_not_fb; rewrite Hp; discriminate).
    rewrite step_snd, step_fst. unfold step_core. rewrite E. cbn [fst snd app].
    rewrite (IH _ _ _ _ Hp Hn). proj_norm. reflexivity.
Qed.

Lemma exactly_one st : forall s id c h2 w,
  enabled st s -> find_call id s = None -> c_has_run c = true ->
  ~ In id (begin_ids h2) -> In w (run_collectors st) ->
  length (run_evs w (call_obs id (trace_from st s (Begin id c :: h2)))) =
  match gate s c with
  | GVeto => 0%nat
  | GShed | GReject => 1%nat
  | GRun => match first_end id h2 with
            | Some e => if res_panics (e_res e) then 0%nat else 1%nat
            | None => 0%nat
            end
  end.
Proof.
  intros s id c h2 w He _ Hr Hn Hw.
  rewrite call_obs_cons. unfold concerns, event_id. rewrite Nat.eqb_refl, run_evs_app, app_length.
  rewrite (begin_events st s id c w He Hr Hw).
  destruct (gate s c) eqn:Hg.
  1-3: rewrite (settled_rest st id w h2 (fst (step st s (Begin id c))));
       [reflexivity | apply (begin_refused_settled st id c s He Hr); rewrite Hg; discriminate | exact Hn].
  destruct (begin_expected st s id c He Hr Hg) as (cs & Hf & Hp & _).
  cbn [length Nat.add]. eapply (running_rest st id w Hw h2); [|exact Hn].
  unfold ph. rewrite Hf. cbn [option_map]. rewrite Hp. reflexivity.
Qed.
