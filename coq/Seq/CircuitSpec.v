(* Seq/CircuitSpec.v — vocabulary in which the level-1 property theorems are
   stated: traces, attribution of observations to calls, projections of the
   observation log.  Definitions only. *)
From CV Require Import Base.Prelude Seq.RollingCounter Seq.TimedCheck Seq.Logic Seq.Circuit.

(* a history paired with what each event made observable *)
Fixpoint trace_from (st : static) (s : state) (h : list event) : list (event * list obs) :=
  match h with
  | [] => []
  | ev :: t => let (s1, o) := step st s ev in (ev, o) :: trace_from st s1 t
  end.
Definition all_obs (tr : list (event * list obs)) : list obs := flat_map snd tr.

(* the call an event belongs to *)
Definition event_id (ev : event) : option nat :=
  match ev with Begin i _ | EndRun i _ | EndFb i _ => Some i | _ => None end.
Definition concerns (id : nat) (ev : event) : bool :=
  match event_id ev with Some i => Nat.eqb i id | None => false end.
Definition is_begin (id : nat) (ev : event) : bool :=
  match ev with Begin i _ => Nat.eqb i id | _ => false end.
(* everything observed during the segments of call id *)
Definition call_obs (id : nat) (tr : list (event * list obs)) : list obs :=
  flat_map (fun p => if concerns id (fst p) then snd p else []) tr.
(* call ids are used once: no second Begin for an id *)
Definition begin_ids (h : list event) : list nat :=
  flat_map (fun ev => match ev with Begin i _ => [i] | _ => [] end) h.
Definition ids_unique (h : list event) : Prop := NoDup (begin_ids h).
Definition fresh_for (s : state) (h : list event) : Prop :=
  forall i, In i (begin_ids h) -> find_call i s = None.

(* projections of an observation list *)
Definition who_eqb (a b : who) : bool :=
  match a, b with
  | WCloser, WCloser | WOpener, WOpener => true
  | WUser i, WUser j => Nat.eqb i j
  | _, _ => false
  end.
Definition run_evs (w : who) (l : list obs) : list (runkind * Z * option Z) :=
  flat_map (fun o => match o with ORunEv w' k t d => if who_eqb w w' then [(k, t, d)] else [] | _ => [] end) l.
Definition fb_evs (i : nat) (l : list obs) : list (fbkind * Z * option Z) :=
  flat_map (fun o => match o with OFbEv j k t d => if Nat.eqb i j then [(k, t, d)] else [] | _ => [] end) l.
Definition circ_evs (w : who) (l : list obs) : list (ckind * Z) :=
  flat_map (fun o => match o with OCircEv w' k t => if who_eqb w w' then [(k, t)] else [] | _ => [] end) l.
Definition run_invocations (id : nat) (l : list obs) : list (bool * option Z) :=
  flat_map (fun o => match o with ORunInvoked i d dl => if Nat.eqb i id then [(d, dl)] else [] | _ => [] end) l.
Definition fb_invocations (id : nat) (l : list obs) : list (retval * bool) :=
  flat_map (fun o => match o with OFbInvoked i e c => if Nat.eqb i id then [(e, c)] else [] | _ => [] end) l.
Definition returns (id : nat) (l : list obs) : list (retval * bool) :=
  flat_map (fun o => match o with OReturned i v a => if Nat.eqb i id then [(v, a)] else [] | _ => [] end) l.
Definition any_run_ev (l : list obs) : list obs :=
  filter (fun o => match o with ORunEv _ _ _ _ => true | _ => false end) l.
Definition any_fb_ev (l : list obs) : list obs :=
  filter (fun o => match o with OFbEv _ _ _ _ => true | _ => false end) l.
Definition any_circ_ev (l : list obs) : list obs :=
  filter (fun o => match o with OCircEv _ _ _ => true | _ => false end) l.
(* every time argument that appears in an observation list *)
Definition obs_times (l : list obs) : list Z :=
  flat_map (fun o => match o with
                     | ORunEv _ _ t _ | OFbEv _ _ t _ | OCircEv _ _ t | OAsked _ t => [t]
                     | _ => [] end) l.
Definition obs_durations (l : list obs) : list Z :=
  flat_map (fun o => match o with
                     | ORunEv _ _ _ (Some d) | OFbEv _ _ _ (Some d) => [d]
                     | _ => [] end) l.

Definition fb_collectors (st : static) : list nat := seq 0 (s_nfb st).

(* the gate of Begin, as the property texts phrase it *)
Definition closer_admits (s : state) (c : call) : bool :=
  snd (fst (closer_allow (clock s) (c_allow c) (cls s))).
(* "the circuit is open and its close logic does not admit the call" *)
Definition shed_by_open (s : state) (c : call) : bool :=
  is_open s && (l_force_open (cfg s) || negb (closer_admits s c)).
(* the state in which Prevent is consulted: after Allow may have updated the closer *)
Definition vetoed (s : state) (c : call) : bool :=
  negb (shed_by_open s c) && opener_prevent (c_prevent c) (opn s).
(* would the run limit refuse one more call *)
Definition run_limit_hit (s : state) : bool := (0 <=? l_max (cfg s)) && (l_max (cfg s) <? cmds s + 1).
Definition fb_limit_hit (s : state) : bool := (0 <=? l_fb_max (cfg s)) && (l_fb_max (cfg s) <? fbs s + 1).
Definition fb_available (s : state) (c : call) : bool := has_fb_eff c && negb (l_fb_disabled (cfg s)).

(* an enabled, constructed circuit *)
Definition enabled (st : static) (s : state) : Prop := s_mode st = MNormal /\ l_disabled (cfg s) = false.
Definition passthrough (st : static) (s : state) : Prop := s_mode st <> MNormal \/ l_disabled (cfg s) = true.

(* the gate of a call, in the property's precedence order *)
Inductive gate_outcome := GShed | GVeto | GReject | GRun.
Definition gate (s : state) (c : call) : gate_outcome :=
  if shed_by_open s c then GShed
  else if opener_prevent (c_prevent c) (opn s) then GVeto
  else if run_limit_hit s then GReject else GRun.

(* the kind of an executed call as ONE match on the inputs the property names:
   bad request, timeout (ran longer than Timeout, whatever it returned), caller
   interrupt, failure, success *)
Definition classify (bad timed_out nonnil caller_done ignore_int ie_yes : bool) : runkind :=
  if bad then KBadRequest
  else if timed_out then KTimeout
  else if nonnil && caller_done && negb ignore_int && ie_yes then KInterrupt
  else if nonnil then KFailure
  else KSuccess.

Definition res_panics (r : res) : bool := match r with RPanic _ => true | _ => false end.
(* how call id's run function ends in the rest of the history: the first EndRun for id *)
Definition first_end (id : nat) (h : list event) : option endinfo :=
  match find (fun ev => match ev with EndRun i _ => Nat.eqb i id | _ => false end) h with
  | Some (EndRun _ e) => Some e
  | _ => None
  end.


(* what the caller gets when the call is refused with error `err` before running *)
Definition refusal_outcome (s : state) (id : nat) (c : call) (err : retval) (o : list obs) : Prop :=
  if fb_available s c
  then if fb_limit_hit s
       then returns id o = [(VFbThrottled, false)] /\ fb_invocations id o = []     (* see C06 *)
       else fb_invocations id o = [(err, true)] /\ returns id o = []                (* fallback gets that error and the caller's context *)
  else returns id o = [(err, false)] /\ fb_invocations id o = [].

