(* Seq/RollingCounter_Proofs.v — the representation invariant of the rolling
   counter model and its consequences (property C13). *)
From CV Require Import Base.Prelude Seq.RollingCounter.
From Coq Require Import ZifyBool.
Ltac Zify.zify_post_hook ::= Z.div_mod_to_equations.

(* ---------- arithmetic ---------- *)
Lemma mod_eq_close n a b : 0 < n -> a mod n = b mod n -> - n < a - b < n -> a = b.
Proof.
  intros Hn He Hr.
  pose proof (Z.div_mod a n ltac:(lia)). pose proof (Z.div_mod b n ltac:(lia)).
  assert (a - b = n * (a / n - b / n)) by lia.
  assert (a / n - b / n = 0) by nia. lia.
Qed.

Lemma mod_range n a : 0 < n -> 0 <= a mod n < n.
Proof. intros; apply Z.mod_pos_bound; lia. Qed.

Lemma mod_add_n n a : 0 < n -> (a + n) mod n = a mod n.
Proof. intros. replace (a + n) with (a + 1 * n) by lia. apply Z.mod_add. lia. Qed.

Section Proofs.
Variables (n w start : Z).
Hypothesis Hn : 0 < n.
Hypothesis Hw : 0 < w.

Notation valid := (valid start).
Notation idx := (idx w start).
Notation in_window := (in_window n w start).
Notation step := (step n w start).
Notation state_after := (state_after n w start).
Notation latest := (latest w start).
Notation live := (live n w start).

Lemma idx_nonneg t : valid t = true -> 0 <= idx t.
Proof. unfold RollingCounter.valid, RollingCounter.idx. intros H. apply Z.div_pos; lia. Qed.

(* ---------- the representation invariant ---------- *)
(* L: newest presented index; cand: stamps of the Inc calls since the last
   Reset; tot: number of Inc calls *)
Definition slot_count (L : Z) (cand : list Z) (j : Z) : Z :=
  cntp (fun t => in_window L t && (idx t mod n =? j)) cand.

Record Rep (L : Z) (cand : list Z) (tot : Z) (s : rc) : Prop := {
  rep_last : last s = L;
  rep_L0 : 0 <= L;
  rep_len : Z.of_nat (length (slots s)) = n;
  rep_fault : fault s = false;
  rep_tot : tsum s = tot;
  rep_sum : rsum s = zsum (slots s);
  rep_slots : forall j, 0 <= j < n -> getz (slots s) j = slot_count L cand j;
  rep_seen : Forall (fun t => valid t = true -> idx t <= L) cand
}.

Lemma rep_init : Rep 0 [] 0 (init n).
Proof.
  constructor; cbn [init last slots rsum tsum fault]; try reflexivity; try lia.
  - rewrite repeat_length. lia.
  - rewrite zsum_repeat0. reflexivity.
  - intros j Hj. unfold slot_count. rewrite cntp_nil. unfold getz.
    apply nth_repeat.
  - constructor.
Qed.

(* ---------- clearing ---------- *)
Definition cleared (L : Z) (k : nat) (j : Z) : bool :=
  existsb (fun i => (L + Z.of_nat i) mod n =? j) (seq 1 k).

Lemma clear1_props s j :
  fault s = false -> 0 <= j < Z.of_nat (length (slots s)) -> rsum s = zsum (slots s) ->
  let s' := clear1 s j in
  fault s' = false /\ length (slots s') = length (slots s) /\ rsum s' = zsum (slots s') /\
  last s' = last s /\ tsum s' = tsum s /\
  getz (slots s') j = 0 /\ (forall j', 0 <= j' -> j' <> j -> getz (slots s') j' = getz (slots s) j').
Proof.
  intros Hf Hj Hs. cbn zeta. unfold clear1, chk, inrange. cbn [fault slots rsum last tsum].
  rewrite Hf. repeat split.
  - lia.
  - apply setz_length.
  - rewrite zsum_setz by lia. lia.
  - apply getz_setz_same; lia.
  - intros j' H0 Hne. apply getz_setz_other; lia.
Qed.

Lemma clear_seq s L : forall k m,
  fault s = false -> Z.of_nat (length (slots s)) = n -> rsum s = zsum (slots s) ->
  let s' := fold_left clear1 (map (fun i => (L + Z.of_nat i) mod n) (seq m k)) s in
  fault s' = false /\ Z.of_nat (length (slots s')) = n /\ rsum s' = zsum (slots s') /\
  last s' = last s /\ tsum s' = tsum s /\
  forall j, 0 <= j < n ->
    getz (slots s') j = if existsb (fun i => (L + Z.of_nat i) mod n =? j) (seq m k) then 0 else getz (slots s) j.
Proof.
  intros k. revert s. induction k as [|k IH]; intros s m Hf Hl Hs; cbn zeta.
  - cbn [seq map fold_left existsb]. repeat split; auto.
  - cbn [seq map fold_left existsb].
    pose proof (mod_range n (L + Z.of_nat m) Hn) as Hr.
    destruct (clear1_props s ((L + Z.of_nat m) mod n) Hf ltac:(lia) Hs) as (Hf1 & Hl1 & Hs1 & Hla1 & Ht1 & Hz & Ho).
    specialize (IH (clear1 s ((L + Z.of_nat m) mod n)) (S m) Hf1 ltac:(lia) Hs1).
    cbn zeta in IH. destruct IH as (Hf2 & Hl2 & Hs2 & Hla2 & Ht2 & Hg).
    repeat split; auto; try congruence.
    intros j Hj. rewrite (Hg j Hj).
    destruct (existsb _ (seq (S m) k)) eqn:E.
    + rewrite orb_true_r. reflexivity.
    + rewrite orb_false_r. destruct ((L + Z.of_nat m) mod n =? j) eqn:E2.
      * apply Z.eqb_eq in E2. subst j. exact Hz.
      * apply Z.eqb_neq in E2. apply Ho; lia.
Qed.

Lemma cleared_spec L k j : cleared L k j = true <-> exists i, 1 <= i <= Z.of_nat k /\ (L + i) mod n = j.
Proof.
  unfold cleared. rewrite existsb_exists. split.
  - intros (i & Hi & He). apply in_seq in Hi. apply Z.eqb_eq in He. exists (Z.of_nat i). split; [lia|exact He].
  - intros (i & Hi & He). exists (Z.to_nat i). split.
    + apply in_seq. lia.
    + apply Z.eqb_eq. rewrite Z2Nat.id by lia. exact He.
Qed.

(* the window arithmetic: moving the newest index from L to a > L and clearing
   the min(a-L, n) slots after L leaves exactly the counts of the new window *)
Lemma window_shift L a cand j :
  0 <= j < n -> L < a ->
  Forall (fun t => valid t = true -> idx t <= L) cand ->
  slot_count a cand j =
  if cleared L (Z.to_nat (Z.min (a - L) n)) j then 0 else slot_count L cand j.
Proof.
  intros Hj Hla Hseen. unfold slot_count.
  destruct (cleared L (Z.to_nat (Z.min (a - L) n)) j) eqn:Ec.
  - apply cntp_zero. intros t Ht.
    rewrite Forall_forall in Hseen. specialize (Hseen t Ht).
    apply cleared_spec in Ec. destruct Ec as (i & Hi & He).
    unfold RollingCounter.in_window.
    destruct (valid t) eqn:Ev; [|reflexivity]. specialize (Hseen eq_refl). cbn [andb].
    destruct (a - n <? idx t) eqn:E1; [|reflexivity]. cbn [andb].
    apply Z.eqb_neq. intro Hm. apply Z.ltb_lt in E1.
    assert (idx t = L + i); [|lia].
    apply (mod_eq_close n); [lia| congruence |lia].
  - apply cntp_ext. intros t Ht.
    rewrite Forall_forall in Hseen. specialize (Hseen t Ht).
    unfold RollingCounter.in_window.
    destruct (valid t) eqn:Ev; [|reflexivity]. specialize (Hseen eq_refl). cbn [andb].
    destruct (idx t mod n =? j) eqn:Em; [|rewrite !andb_false_r; reflexivity].
    rewrite !andb_true_r. apply Z.eqb_eq in Em.
    destruct (a - n <? idx t) eqn:E1, (L - n <? idx t) eqn:E2; try reflexivity; try lia.
    exfalso. apply Z.ltb_ge in E1. apply Z.ltb_lt in E2.
    assert (cleared L (Z.to_nat (Z.min (a - L) n)) j = true); [|congruence].
    apply cleared_spec. exists (idx t - L + n). split; [lia|].
    replace (L + (idx t - L + n)) with (idx t + n) by lia.
    rewrite mod_add_n by lia. exact Em.
Qed.

(* ---------- Advance ---------- *)
Definition present_t (L t : Z) : Z := if valid t then Z.max L (idx t) else L.

Lemma advance_rep L cand tot s t :
  Rep L cand tot s ->
  let '(s1, r) := advance n w start t s in
  Rep (present_t L t) cand tot s1 /\
  r = if in_window (present_t L t) t then Some (idx t mod n) else None.
Proof.
  intros R. destruct R as [Hl HL Hlen Hf Ht Hs Hsl Hseen].
  unfold advance, advance_plan, present_t, RollingCounter.in_window, RollingCounter.valid,
    RollingCounter.idx, off.
  replace (n =? 0) with false by lia.
  set (d := clamp64 (t - start)).
  destruct (d <? 0) eqn:Ed.
  - replace (0 <=? d) with false by lia. cbn [fold_left andb].
    split; [|reflexivity]. constructor; cbn [last slots rsum tsum fault]; auto.
  - replace (0 <=? d) with true by lia. cbn [andb].
    rewrite godiv_nonneg by lia. set (a := d / w).
    assert (Ha : 0 <= a) by (apply Z.div_pos; lia).
    rewrite gomod_nonneg by lia. rewrite Hl.
    destruct (a - L =? 0) eqn:E0.
    + cbn [fold_left]. replace (Z.max L a) with L by lia.
      replace (L - n <? a) with true by lia.
      split; [|reflexivity]. constructor; cbn [last slots rsum tsum fault]; auto.
    + destruct (a - L <? 0) eqn:E1.
      * replace (Z.max L a) with L by lia.
        destruct (n <=? - (a - L)) eqn:E2; cbn [fold_left].
        -- replace (L - n <? a) with false by lia.
           split; [|reflexivity]. constructor; cbn [last slots rsum tsum fault]; auto.
        -- replace (L - n <? a) with true by lia.
           split; [|reflexivity]. constructor; cbn [last slots rsum tsum fault]; auto.
      * replace (Z.max L a) with a by lia. replace (a - n <? a) with true by lia.
        split; [|reflexivity].
        assert (Hmap : map (fun i : nat => gomod (L + Z.of_nat i) n) (seq 1 (Z.to_nat (Z.min (a - L) n)))
                     = map (fun i : nat => (L + Z.of_nat i) mod n) (seq 1 (Z.to_nat (Z.min (a - L) n)))).
        { apply map_ext. intros i. apply gomod_nonneg; lia. }
        rewrite Hmap.
        pose proof (clear_seq s L (Z.to_nat (Z.min (a - L) n)) 1%nat Hf Hlen Hs) as Hc.
        cbn zeta in Hc. destruct Hc as (Hf1 & Hl1 & Hs1 & Hla1 & Ht1 & Hg).
        constructor; cbn [last slots rsum tsum fault]; auto; try lia; try congruence.
        -- intros j Hj. rewrite (Hg j Hj). rewrite (window_shift L a cand j Hj ltac:(lia) Hseen).
           unfold cleared. destruct (existsb _ _); [reflexivity|]. apply Hsl; exact Hj.
        -- eapply Forall_impl; [|exact Hseen]. cbn beta. intros x Hx Hv. specialize (Hx Hv). lia.
Qed.

Lemma present_t_ge L t : L <= present_t L t.
Proof. unfold present_t. destruct (valid t); lia. Qed.

Lemma in_window_seen L t : in_window (present_t L t) t = true -> valid t = true /\ idx t <= present_t L t.
Proof.
  unfold RollingCounter.in_window, present_t. destruct (valid t) eqn:E; cbn [andb]; [|discriminate].
  intros _. split; [reflexivity|lia].
Qed.

(* ---------- Inc ---------- *)
Lemma inc_rep L cand tot s t :
  Rep L cand tot s ->
  Rep (present_t L t) (if in_window (present_t L t) t then cand ++ [t] else cand) (tot + 1) (inc n w start t s).
Proof.
  intros R. unfold inc.
  replace (Z.of_nat (length (slots s)) =? 0) with false by (destruct R; lia).
  set (s0 := {| last := last s; slots := slots s; rsum := rsum s; tsum := tsum s + 1; fault := fault s |}).
  assert (R0 : Rep L cand (tot + 1) s0).
  { destruct R; constructor; cbn [s0 last slots rsum tsum fault]; auto. lia. }
  pose proof (advance_rep L cand (tot + 1) s0 t R0) as Ha.
  destruct (advance n w start t s0) as [s1 r]. destruct Ha as (R1 & Hr).
  set (L' := present_t L t) in *.
  destruct (in_window L' t) eqn:Ew; subst r; [|exact R1].
  destruct R1 as [Hl HL Hlen Hf Ht Hs Hsl Hseen].
  pose proof (mod_range n (idx t) Hn) as Hm.
  constructor; cbn [last slots rsum tsum fault]; auto.
  - rewrite setz_length; exact Hlen.
  - unfold chk, inrange. rewrite Hf. lia.
  - rewrite zsum_setz by lia. lia.
  - intros j Hj. unfold slot_count. rewrite cntp_app, cntp_cons, cntp_nil. fold (slot_count L' cand j).
    rewrite Ew. cbn [andb].
    destruct (Z.eq_dec (idx t mod n) j) as [E|E].
    + subst j. rewrite getz_setz_same by lia. rewrite Hsl by lia. rewrite Z.eqb_refl. cbn [b2z]. lia.
    + rewrite getz_setz_other by lia. rewrite Hsl by lia. replace (idx t mod n =? j) with false by lia. cbn [b2z]. lia.
  - apply Forall_app. split; [exact Hseen|]. constructor; [|constructor].
    intros _. apply in_window_seen in Ew. tauto.
Qed.

(* ---------- Reset ---------- *)
Lemma clear_all s :
  fault s = false -> Z.of_nat (length (slots s)) = n -> rsum s = zsum (slots s) ->
  let s' := fold_left clear1 (map Z.of_nat (seq 0 (Z.to_nat n))) s in
  fault s' = false /\ Z.of_nat (length (slots s')) = n /\ rsum s' = zsum (slots s') /\
  last s' = last s /\ tsum s' = tsum s /\ forall j, 0 <= j < n -> getz (slots s') j = 0.
Proof.
  intros Hf Hl Hs.
  assert (Hmap : map Z.of_nat (seq 0 (Z.to_nat n)) = map (fun i => (0 + Z.of_nat i) mod n) (seq 0 (Z.to_nat n))).
  { apply map_ext_in. intros i Hi. apply in_seq in Hi. rewrite Z.mod_small; lia. }
  rewrite Hmap. pose proof (clear_seq s 0 (Z.to_nat n) 0%nat Hf Hl Hs) as Hc. cbn zeta in Hc.
  destruct Hc as (H1 & H2 & H3 & H4 & H5 & Hg). repeat split; auto.
  intros j Hj. rewrite (Hg j Hj).
  replace (existsb _ _) with true; [reflexivity|]. symmetry. apply existsb_exists.
  exists (Z.to_nat j). split; [apply in_seq; lia|]. apply Z.eqb_eq. rewrite Z.mod_small; lia.
Qed.

Lemma reset_rep L cand tot s t :
  Rep L cand tot s -> Rep (present_t L t) [] tot (reset n w start t s).
Proof.
  intros R. unfold reset.
  pose proof (advance_rep L cand tot s t R) as Ha.
  destruct (advance n w start t s) as [s1 r]. destruct Ha as (R1 & _).
  destruct R1 as [Hl HL Hlen Hf Ht Hs Hsl Hseen].
  pose proof (clear_all s1 Hf Hlen Hs) as Hc. cbn zeta in Hc.
  destruct Hc as (H1 & H2 & H3 & H4 & H5 & Hg).
  constructor; auto; try congruence.
Qed.

(* ---------- sums over the window ---------- *)
Lemma zsum_map_add (F G : nat -> Z) l :
  zsum (map (fun i => F i + G i) l) = zsum (map F l) + zsum (map G l).
Proof. induction l as [|x l IH]; cbn [map zsum fold_right] in *; [reflexivity|]. unfold zsum in *. lia. Qed.

Lemma zsum_indicator k j : 0 <= j < Z.of_nat k ->
  zsum (map (fun i => b2z (j =? Z.of_nat i)) (seq 0 k)) = 1.
Proof.
  revert j. induction k as [|k IH]; intros j Hj; [lia|].
  rewrite seq_S, map_app, zsum_app. cbn [map zsum fold_right Nat.add].
  destruct (Z.eq_dec j (Z.of_nat k)) as [E|E].
  - subst j. rewrite Z.eqb_refl. cbn [b2z].
    assert (H0 : zsum (map (fun i => b2z (Z.of_nat k =? Z.of_nat i)) (seq 0 k)) = 0).
    { clear. assert (forall m, (m <= k)%nat -> zsum (map (fun i => b2z (Z.of_nat k =? Z.of_nat i)) (seq 0 m)) = 0).
      { induction m as [|m IHm]; intros Hm; [reflexivity|].
        rewrite seq_S, map_app, zsum_app, IHm by lia. cbn [map zsum fold_right Nat.add].
        replace (Z.of_nat k =? Z.of_nat m) with false by lia. reflexivity. }
      apply H; lia. }
    rewrite H0. lia.
  - rewrite IH by lia. replace (j =? Z.of_nat k) with false by lia. cbn [b2z]. lia.
Qed.

Lemma zsum_slot_counts (p : Z -> bool) (f : Z -> Z) cand k :
  (forall t, In t cand -> p t = true -> 0 <= f t < Z.of_nat k) ->
  zsum (map (fun j => cntp (fun t => p t && (f t =? Z.of_nat j)) cand) (seq 0 k)) = cntp p cand.
Proof.
  induction cand as [|t cand IH]; intros H.
  - replace (map _ (seq 0 k)) with (map (fun _ : nat => 0) (seq 0 k)) by (apply map_ext; intros; rewrite cntp_nil; reflexivity).
    rewrite cntp_nil. clear. induction (seq 0 k); cbn; auto.
  - rewrite cntp_cons.
    rewrite (map_ext _ (fun j => b2z (p t && (f t =? Z.of_nat j)) + cntp (fun t0 => p t0 && (f t0 =? Z.of_nat j)) cand))
      by (intros; rewrite cntp_cons; reflexivity).
    rewrite (zsum_map_add (fun j => b2z (p t && (f t =? Z.of_nat j))) (fun j => cntp (fun t0 => p t0 && (f t0 =? Z.of_nat j)) cand)).
    rewrite IH by (intros; apply H; [right|]; assumption).
    f_equal. destruct (p t) eqn:Ep; cbn [andb].
    + apply zsum_indicator. apply H; [left; reflexivity|exact Ep].
    + cbn [b2z]. clear. induction (seq 0 k); cbn; auto.
Qed.

Lemma zsum_getz_all (l : list Z) : zsum (map (fun j => getz l (Z.of_nat j)) (seq 0 (length l))) = zsum l.
Proof.
  induction l as [|x l IH]; [reflexivity|].
  change (length (x :: l)) with (S (length l)). rewrite <- cons_seq, <- seq_shift, map_cons, map_map.
  change (zsum (x :: l)) with (x + zsum l). rewrite <- IH.
  change (zsum (?a :: ?b)) with (a + zsum b). f_equal.
  f_equal. apply map_ext. intros i. unfold getz. rewrite !Nat2Z.id. reflexivity.
Qed.

Lemma rep_rsum L cand tot s : Rep L cand tot s -> rsum s = cntp (in_window L) cand.
Proof.
  intros [Hl HL Hlen Hf Ht Hs Hsl Hseen]. rewrite Hs, <- zsum_getz_all.
  replace (length (slots s)) with (Z.to_nat n) by lia.
  rewrite <- (zsum_slot_counts (in_window L) (fun t => idx t mod n) cand (Z.to_nat n)).
  - f_equal. apply map_ext_in. intros j Hj. apply in_seq in Hj. apply Hsl. lia.
  - intros t _ _. rewrite Z2Nat.id by lia. apply mod_range; exact Hn.
Qed.

(* ---------- GetBuckets ---------- *)
Lemma bucket_slot_mod L i : 0 <= L -> 0 <= i < n -> bucket_slot n L i = (L - i) mod n.
Proof.
  intros HL Hi. unfold bucket_slot.
  rewrite gomod_nonneg by lia. pose proof (mod_range n L Hn). pose proof (Z.div_mod L n ltac:(lia)).
  destruct (L mod n - i <? 0) eqn:E.
  - apply Z.mod_unique with (q := L / n - 1); [left; lia|lia].
  - apply Z.mod_unique with (q := L / n); [left; lia|lia].
Qed.

Lemma slot_count_exact L cand i :
  0 <= i < n -> Forall (fun t => valid t = true -> idx t <= L) cand ->
  slot_count L cand ((L - i) mod n) = cntp (fun t => in_window L t && (idx t =? L - i)) cand.
Proof.
  intros Hi Hseen. unfold slot_count. apply cntp_ext. intros t Ht.
  rewrite Forall_forall in Hseen. specialize (Hseen t Ht).
  unfold RollingCounter.in_window. destruct (valid t) eqn:Ev; [|reflexivity]. specialize (Hseen eq_refl).
  cbn [andb]. destruct (L - n <? idx t) eqn:E; [|reflexivity]. cbn [andb].
  destruct (idx t =? L - i) eqn:E2.
  - apply Z.eqb_eq in E2. rewrite E2. apply Z.eqb_refl.
  - apply Z.eqb_neq. intro Hm. apply Z.eqb_neq in E2. apply E2.
    apply (mod_eq_close n); [lia|exact Hm|lia].
Qed.

Lemma get_buckets_rep L cand tot s t :
  Rep L cand tot s ->
  let '(s1, l) := get_buckets n w start t s in
  let L' := present_t L t in
  Rep L' cand tot s1 /\
  l = map (fun i => cntp (fun x => in_window L' x && (idx x =? L' - Z.of_nat i)) cand) (seq 0 (Z.to_nat n)).
Proof.
  intros R. unfold get_buckets.
  pose proof (advance_rep L cand tot s t R) as Ha.
  destruct (advance n w start t s) as [s1 r]. destruct Ha as (R1 & _). cbn zeta.
  set (L' := present_t L t) in *.
  destruct R1 as [Hl HL Hlen Hf Ht Hs Hsl Hseen].
  assert (Hidx : forall i, In i (seq 0 (Z.to_nat n)) -> bucket_slot n (last s1) (Z.of_nat i) = (L' - Z.of_nat i) mod n).
  { intros i Hi. apply in_seq in Hi. rewrite Hl. apply bucket_slot_mod; lia. }
  split.
  - constructor; cbn [last slots rsum tsum fault]; auto.
    rewrite Hf. cbn [orb]. apply not_true_is_false. intro Hex. apply existsb_exists in Hex.
    destruct Hex as (j & Hj & Hb). apply in_map_iff in Hj. destruct Hj as (i & Hi & Hin).
    rewrite Hidx in Hi by exact Hin. subst j. pose proof (mod_range n (L' - Z.of_nat i) Hn).
    unfold inrange in Hb. lia.
  - rewrite map_map. apply map_ext_in. intros i Hi. rewrite Hidx by exact Hi.
    apply in_seq in Hi. rewrite Hsl by (apply mod_range; exact Hn).
    apply slot_count_exact; [lia|exact Hseen].
Qed.

(* ---------- histories ---------- *)
Notation present := (present w start).
Notation incs_since_reset := (incs_since_reset).

Lemma present_present_t L o t : op_time o = Some t -> present L o = present_t L t.
Proof. intros H. unfold RollingCounter.present, present_t. rewrite H. reflexivity. Qed.

Lemma latest_snoc h o : latest (h ++ [o]) = present (latest h) o.
Proof. unfold RollingCounter.latest. rewrite fold_left_app. reflexivity. Qed.
Lemma incs_snoc h o : incs_since_reset (h ++ [o]) = incs_step (incs_since_reset h) o.
Proof. unfold RollingCounter.incs_since_reset. rewrite fold_left_app. reflexivity. Qed.
Lemma state_snoc h o : state_after (h ++ [o]) = fst (step (state_after h) o).
Proof. unfold RollingCounter.state_after. rewrite fold_left_app. reflexivity. Qed.
Lemma count_incs_snoc h o : count_incs (h ++ [o]) = count_incs h + match o with Inc _ => 1 | _ => 0 end.
Proof. unfold count_incs. rewrite cntp_app, cntp_cons, cntp_nil. destruct o; cbn [b2z]; lia. Qed.

(* stamps that were older than the window when they were added stay out of it:
   filtering by the final window subsumes the acceptance test made at Inc time *)
Definition accepted_filter (h : list op) : list Z := filter (in_window (latest h)) (incs_since_reset h).

(* Inv h s: the state after h represents the history-level specification.
   The candidate list kept by Rep drops a stamp as soon as it is outside the
   window; the specification filters the full list by the final window. Both
   give the same counts because the newest index only grows. *)
Definition count_eq (L : Z) (c1 c2 : list Z) : Prop :=
  forall (q : Z -> bool), cntp (fun t => in_window L t && q t) c1 = cntp (fun t => in_window L t && q t) c2.

Lemma in_window_mono L L' t : L <= L' -> in_window L' t = true -> in_window L t = true.
Proof. unfold RollingCounter.in_window. intros HL. destruct (valid t); cbn [andb]; [|discriminate]. lia. Qed.

Lemma count_eq_mono L L' c1 c2 : L <= L' -> count_eq L c1 c2 -> count_eq L' c1 c2.
Proof.
  intros HL H q. specialize (H (fun t => in_window L' t && q t)).
  rewrite (cntp_ext (fun t => in_window L' t && q t) (fun t => in_window L t && (in_window L' t && q t)) c1).
  2:{ intros t _. destruct (in_window L' t) eqn:E; cbn [andb]; [|rewrite andb_false_r; reflexivity].
      rewrite (in_window_mono L L' t HL E). reflexivity. }
  rewrite (cntp_ext (fun t => in_window L' t && q t) (fun t => in_window L t && (in_window L' t && q t)) c2).
  2:{ intros t _. destruct (in_window L' t) eqn:E; cbn [andb]; [|rewrite andb_false_r; reflexivity].
      rewrite (in_window_mono L L' t HL E). reflexivity. }
  exact H.
Qed.

Definition Inv (h : list op) (s : rc) : Prop :=
  exists cand, Rep (latest h) cand (count_incs h) s /\ count_eq (latest h) cand (incs_since_reset h).

Lemma latest_mono h o : latest h <= latest (h ++ [o]).
Proof.
  rewrite latest_snoc. unfold RollingCounter.present. destruct (op_time o); [|lia].
  destruct (valid z); lia.
Qed.

Theorem inv_reachable h : Inv h (state_after h).
Proof.
  induction h as [|o h IH] using rev_ind.
  - exists []. split; [apply rep_init|]. intros q. reflexivity.
  - destruct IH as (cand & R & Hc). rewrite state_snoc.
    pose proof (latest_mono h o) as Hmono. unfold Inv.
    destruct o as [t|t|t|t| |]; cbn [step fst].
    + (* Inc *)
      pose proof (inc_rep _ _ _ _ t R) as R'.
      rewrite latest_snoc, (present_present_t _ (Inc t) t eq_refl), count_incs_snoc, incs_snoc. cbn [incs_step].
      eexists. split; [exact R'|].
      rewrite latest_snoc, (present_present_t _ (Inc t) t eq_refl) in Hmono.
      pose proof (count_eq_mono _ _ _ _ Hmono Hc) as Hc'.
      intros q. destruct (in_window (present_t (latest h) t) t) eqn:Ew.
      * rewrite !cntp_app. rewrite (Hc' q). reflexivity.
      * rewrite cntp_app, cntp_cons, cntp_nil, Ew. cbn [andb b2z]. rewrite (Hc' q). lia.
    + (* SumAt *)
      pose proof (advance_rep _ _ _ _ t R) as Ha. unfold rolling_sum_at.
      destruct (advance n w start t (state_after h)) as [s1 r]. destruct Ha as (R1 & _). cbn [fst].
      rewrite latest_snoc, (present_present_t _ (SumAt t) t eq_refl), count_incs_snoc, incs_snoc, Z.add_0_r. cbn [incs_step].
      exists cand. split; [exact R1|].
      rewrite latest_snoc, (present_present_t _ (SumAt t) t eq_refl) in Hmono.
      exact (count_eq_mono _ _ _ _ Hmono Hc).
    + (* Buckets *)
      pose proof (get_buckets_rep _ _ _ _ t R) as Ha.
      destruct (get_buckets n w start t (state_after h)) as [s1 l]. cbn zeta in Ha. destruct Ha as (R1 & _). cbn [fst].
      rewrite latest_snoc, (present_present_t _ (Buckets t) t eq_refl), count_incs_snoc, incs_snoc, Z.add_0_r. cbn [incs_step].
      exists cand. split; [exact R1|].
      rewrite latest_snoc, (present_present_t _ (Buckets t) t eq_refl) in Hmono.
      exact (count_eq_mono _ _ _ _ Hmono Hc).
    + (* Reset *)
      pose proof (reset_rep _ _ _ _ t R) as R'.
      rewrite latest_snoc, (present_present_t _ (Reset t) t eq_refl), count_incs_snoc, incs_snoc, Z.add_0_r. cbn [incs_step].
      exists []. split; [exact R'|]. intros q. reflexivity.
    + (* Total *)
      rewrite latest_snoc, count_incs_snoc, incs_snoc, Z.add_0_r. cbn [RollingCounter.present op_time incs_step].
      exists cand. split; assumption.
    + (* Json *)
      rewrite latest_snoc, count_incs_snoc, incs_snoc, Z.add_0_r. cbn [RollingCounter.present op_time incs_step].
      exists cand. split; assumption.
Qed.

(* ---------- the statements of C13 ---------- *)
Lemma cntp_andb_true {A} (p : A -> bool) l : cntp (fun t => p t && true) l = cntp p l.
Proof. apply cntp_ext. intros; apply andb_true_r. Qed.

Lemma live_length h : Z.of_nat (length (live h)) = cntp (in_window (latest h)) (incs_since_reset h).
Proof. reflexivity. Qed.

Theorem rolling_sum_spec h t :
  snd (step (state_after h) (SumAt t)) = OZ (Z.of_nat (length (live (h ++ [SumAt t])))).
Proof.
  pose proof (inv_reachable (h ++ [SumAt t])) as (cand & R & Hc).
  rewrite state_snoc in R. cbn [step] in *. unfold rolling_sum_at in *.
  destruct (advance n w start t (state_after h)) as [s1 r]. cbn [fst snd] in *.
  f_equal. rewrite (rep_rsum _ _ _ _ R), live_length.
  rewrite <- (cntp_andb_true (in_window _) cand), <- (cntp_andb_true (in_window _) (incs_since_reset _)).
  apply (Hc (fun _ => true)).
Qed.

Theorem buckets_spec h t :
  snd (step (state_after h) (Buckets t)) =
  OList (map (fun i => count_in_bucket n w start (h ++ [Buckets t]) (latest (h ++ [Buckets t]) - Z.of_nat i))
             (seq 0 (Z.to_nat n))).
Proof.
  destruct (inv_reachable h) as (cand & R & Hc).
  pose proof (get_buckets_rep _ _ _ _ t R) as Ha. cbn [step].
  destruct (get_buckets n w start t (state_after h)) as [s1 l]. cbn zeta in Ha. destruct Ha as (_ & Hl).
  cbn [snd]. f_equal. subst l. apply map_ext. intros i.
  unfold count_in_bucket, RollingCounter.live. rewrite cntp_filter.
  rewrite latest_snoc, (present_present_t _ (Buckets t) t eq_refl), incs_snoc. cbn [incs_step].
  assert (Hm : latest h <= present_t (latest h) t) by apply present_t_ge.
  apply (count_eq_mono _ _ _ _ Hm Hc (fun x => idx x =? present_t (latest h) t - Z.of_nat i)).
Qed.

Theorem total_spec h : snd (step (state_after h) Total) = OZ (count_incs h).
Proof. destruct (inv_reachable h) as (cand & R & _). cbn [step snd]. f_equal. apply R. Qed.

Theorem no_fault h : fault (state_after h) = false.
Proof. destruct (inv_reachable h) as (cand & R & _). apply R. Qed.

Theorem last_is_latest h : last (state_after h) = latest h.
Proof. destruct (inv_reachable h) as (cand & R & _). apply R. Qed.

Theorem never_back h o : last (state_after h) <= last (state_after (h ++ [o])).
Proof. rewrite !last_is_latest. apply latest_mono. Qed.

(* a stale Inc (before the start, or older than the window) moves TotalSum only *)
Theorem stale_inc_ignored h t :
  in_window (latest h) t = false ->
  let s := state_after h in let s' := state_after (h ++ [Inc t]) in
  slots s' = slots s /\ rsum s' = rsum s /\ last s' = last s /\ tsum s' = tsum s + 1 /\
  live (h ++ [Inc t]) = live h.
Proof.
  intros Hst. cbn zeta. rewrite state_snoc. cbn [step fst].
  destruct (inv_reachable h) as (cand & R & _).
  assert (Hl : present_t (latest h) t = latest h).
  { unfold present_t. unfold RollingCounter.in_window in Hst. destruct (valid t); [|reflexivity]. cbn [andb] in Hst. lia. }
  unfold inc. replace (Z.of_nat (length (slots (state_after h))) =? 0) with false by (destruct R; lia).
  unfold advance, advance_plan. replace (n =? 0) with false by lia.
  unfold RollingCounter.in_window, RollingCounter.valid, RollingCounter.idx, off in Hst. cbn [last].
  destruct R as [Hla HL _ _ _ _ _ _]. rewrite Hla.
  set (d := clamp64 (t - start)) in *.
  assert (Hlive : live (h ++ [Inc t]) = live h).
  { unfold RollingCounter.live. rewrite latest_snoc, (present_present_t _ (Inc t) t eq_refl), Hl, incs_snoc. cbn [incs_step].
    rewrite filter_app. cbn [filter]. unfold RollingCounter.in_window at 2, RollingCounter.valid, RollingCounter.idx, off.
    fold d. rewrite Hst. apply app_nil_r. }
  destruct (d <? 0) eqn:Ed.
  - cbn [fold_left last slots rsum tsum]. repeat split; auto.
  - replace (0 <=? d) with true in Hst by lia. cbn [andb] in Hst.
    rewrite godiv_nonneg by lia.
    destruct (d / w - latest h =? 0) eqn:E0; [lia|].
    destruct (d / w - latest h <? 0) eqn:E1.
    + replace (n <=? - (d / w - latest h)) with true by lia. cbn [fold_left last slots rsum tsum]. repeat split; auto.
    + lia.
Qed.

Theorem reset_empties h t :
  live (h ++ [Reset t]) = [] /\ tsum (state_after (h ++ [Reset t])) = tsum (state_after h).
Proof.
  split.
  - unfold RollingCounter.live. rewrite incs_snoc. reflexivity.
  - destruct (inv_reachable h) as (c1 & R1 & _). destruct (inv_reachable (h ++ [Reset t])) as (c2 & R2 & _).
    destruct R1, R2. rewrite count_incs_snoc in *. lia.
Qed.

End Proofs.
