(* Seq/RollingCounter.v — sequential model of faststats.RollingBuckets.Advance
   and faststats.RollingCounter (rolling_bucket.go, rolling_counter.go), and the
   history-level specification the C13 theorems are stated against.
   No proofs here: a broken proof never stops this model from running in the
   correspondence check. *)
From CV Require Import Base.Prelude.

(* ---------- RollingBuckets.Advance, sequential ---------- *)
(* The result of Advance on (NumBuckets n, BucketWidth w, StartTime start,
   LastAbsIndex last) for timestamp now:  the new LastAbsIndex, the slots
   passed to clearBucket in call order, and the returned index (None = -1). *)
Definition advance_plan (n w start last now : Z) : Z * list Z * option Z :=
  if n =? 0 then (last, [], None) else
  let diff := clamp64 (now - start) in                    (* now.Sub(r.StartTime) *)
  if diff <? 0 then (last, [], None) else
  let a := godiv diff w in                                 (* absIndex *)
  let df := a - last in                                    (* indexDiff *)
  if df =? 0 then (last, [], Some (gomod a n))
  else if df <? 0 then
    (if n <=? - df then (last, [], None)                   (* older than the window *)
     else (last, [], Some (gomod a n)))
  else
    (* loop: for i := 0; i < n && lastAbsVal < absIndex; i++ { CAS; lastAbsVal++; clear(lastAbsVal % n) }
       then CAS(lastAbsVal, absIndex) and the recursive call returns absIndex % n *)
    (a, map (fun i => gomod (last + Z.of_nat i) n) (seq 1 (Z.to_nat (Z.min df n))), Some (gomod a n)).

(* ---------- RollingCounter ---------- *)
Record rc := { last : Z; slots : list Z; rsum : Z; tsum : Z; fault : bool }.

Section Counter.
Variables (n w start : Z).   (* NumBuckets, BucketWidth (ns), StartTime (ns) *)

Definition init : rc :=
  {| last := 0; slots := repeat 0 (Z.to_nat n); rsum := 0; tsum := 0; fault := false |}.

(* every slot access is range-checked; an out-of-range index (a Go panic) sets
   the fault flag instead of silently reading a default *)
Definition chk (s : rc) (j : Z) : bool := fault s || negb (inrange (slots s) j).

(* clearBucket(idx): toDec := buckets[idx].Swap(0); rollingSum.Add(-toDec) *)
Definition clear1 (s : rc) (j : Z) : rc :=
  {| last := last s; slots := setz (slots s) j 0; rsum := rsum s - getz (slots s) j;
     tsum := tsum s; fault := chk s j |}.

Definition advance (now : Z) (s : rc) : rc * option Z :=
  let '(l', cl, r) := advance_plan n w start (last s) now in
  let s1 := fold_left clear1 cl s in
  ({| last := l'; slots := slots s1; rsum := rsum s1; tsum := tsum s1; fault := fault s1 |}, r).

Definition inc (now : Z) (s : rc) : rc :=
  let s0 := {| last := last s; slots := slots s; rsum := rsum s; tsum := tsum s + 1; fault := fault s |} in
  if Z.of_nat (length (slots s)) =? 0 then s0 else
  match advance now s0 with
  | (s1, None) => s1
  | (s1, Some j) =>
      {| last := last s1; slots := setz (slots s1) j (getz (slots s1) j + 1);
         rsum := rsum s1 + 1; tsum := tsum s1; fault := chk s1 j |}
  end.

Definition rolling_sum_at (now : Z) (s : rc) : rc * Z :=
  let (s1, _) := advance now s in (s1, rsum s1).

(* GetBuckets: startIdx := LastAbsIndex % NumBuckets; ret[i] = buckets[startIdx-i (+n if <0)] *)
Definition bucket_slot (l i : Z) : Z :=
  let idx := gomod l n - i in if idx <? 0 then idx + n else idx.
Definition get_buckets (now : Z) (s : rc) : rc * list Z :=
  let (s1, _) := advance now s in
  let idxs := map (fun i => bucket_slot (last s1) (Z.of_nat i)) (seq 0 (Z.to_nat n)) in
  ({| last := last s1; slots := slots s1; rsum := rsum s1; tsum := tsum s1;
      fault := fault s1 || existsb (fun j => negb (inrange (slots s1) j)) idxs |},
   map (getz (slots s1)) idxs).

Definition reset (now : Z) (s : rc) : rc :=
  let (s1, _) := advance now s in
  fold_left clear1 (map Z.of_nat (seq 0 (Z.to_nat n))) s1.

(* ---------- operations and histories ---------- *)
Inductive op := Inc (t : Z) | SumAt (t : Z) | Buckets (t : Z) | Reset (t : Z) | Total | Json.
Inductive out := ONone | OZ (v : Z) | OList (l : list Z) | OPanic.

Definition step (s : rc) (o : op) : rc * out :=
  match o with
  | Inc t => (inc t s, ONone)
  | SumAt t => let (s1, v) := rolling_sum_at t s in (s1, OZ v)
  | Buckets t => let (s1, l) := get_buckets t s in (s1, OList l)
  | Reset t => (reset t s, ONone)
  | Total => (s, OZ (tsum s))
  | Json => (s, ONone)      (* marshal then unmarshal into a fresh counter: identity on the state *)
  end.

Definition state_after (h : list op) : rc := fold_left (fun s o => fst (step s o)) h init.

Fixpoint run_from (s : rc) (h : list op) : list out :=
  match h with [] => [] | o :: t => let (s1, x) := step s o in x :: run_from s1 t end.
Definition run (h : list op) : list out := run_from init h.

(* ---------- specification over the operation history ---------- *)
Definition off (t : Z) : Z := clamp64 (t - start).
Definition valid (t : Z) : bool := 0 <=? off t.
Definition idx (t : Z) : Z := off t / w.

Definition op_time (o : op) : option Z :=
  match o with Inc t | SumAt t | Buckets t | Reset t => Some t | Total | Json => None end.

(* the largest bucket index ever presented (0 before anything is presented) *)
Definition present (acc : Z) (o : op) : Z :=
  match op_time o with
  | Some t => if valid t then Z.max acc (idx t) else acc
  | None => acc
  end.
Definition latest (h : list op) : Z := fold_left present h 0.

(* stamps of the Inc calls since the last Reset, oldest first *)
Definition incs_step (acc : list Z) (o : op) : list Z :=
  match o with Inc t => acc ++ [t] | Reset _ => [] | _ => acc end.
Definition incs_since_reset (h : list op) : list Z := fold_left incs_step h [].

Definition in_window (l t : Z) : bool := valid t && (l - n <? idx t).
(* the Inc calls the counter must still be counting after history h *)
Definition live (h : list op) : list Z := filter (in_window (latest h)) (incs_since_reset h).

Definition count_incs (h : list op) : Z :=
  cntp (fun o => match o with Inc _ => true | _ => false end) h.
Definition count_in_bucket (h : list op) (i : Z) : Z := cntp (fun t => idx t =? i) (live h).

End Counter.
