(* Seq/PercentileFloat.v — SortedDurations.Percentile on IEEE-754 binary64
   (Flocq's binary_float 53 1024, computed on Z: no primitive floats), so that
   the model agrees with Go's float64 arithmetic bit for bit. *)
From Coq Require Import ZArith List.
From Flocq Require Import Core.Zaux Core.Defs IEEE754.BinarySingleNaN.
From CV Require Import Base.Prelude Seq.RollingPercentile.

Definition b64 := binary_float 53 1024.
#[global] Instance prec53 : FLX.Prec_gt_0 53 := eq_refl.
#[global] Instance emax1024 : Prec_lt_emax 53 1024 := eq_refl.

(* float64(z) for an integer, and the float m * 2^e (exact when representable) *)
Definition f_of_Z (z : Z) : b64 := binary_normalize 53 1024 _ _ mode_NE z 0 false.
Definition f_of_me (m e : Z) : b64 := binary_normalize 53 1024 _ _ mode_NE m e false.

Definition f_floor (x : b64) : b64 := Bnearbyint mode_DN x.
Definition f_ceil (x : b64) : b64 := Bnearbyint mode_UP x.
Definition f_to_Z (x : b64) : Z := Btrunc x.             (* int64(x) / int(x): truncation *)

(* Percentile(p) with p = pm * 2^pe *)
Definition percentile (s : list Z) (pm pe : Z) : Z :=
  let p := f_of_me pm pe in
  match s with
  | [] => -1
  | [x] => x
  | x0 :: _ =>
      if Bleb p (f_of_Z 0) then x0
      else if Bleb (f_of_Z 100) p then List.last s 0
      else
        let m := Z.of_nat (length s) in
        let ai := Bmult mode_NE (Bdiv mode_NE p (f_of_Z 100)) (f_of_Z (m - 1)) in   (* p / 100 * float64(len(s)-1) *)
        let lo := f_floor ai in
        let first := nth (Z.to_nat (f_to_Z lo)) s 0 in
        let second := nth (Z.to_nat (f_to_Z (f_ceil ai))) s 0 in
        let weight := Bminus mode_NE ai lo in
        first + f_to_Z (Bmult mode_NE (f_of_Z (second - first)) weight)
  end.

(* the expvar summary: label -> value *)
Definition var_summary (s : list Z) : list (nat * Z) :=
  [ (0%nat, sd_min s); (25%nat, percentile s 25 0); (50%nat, percentile s 50 0); (90%nat, percentile s 90 0);
    (99%nat, percentile s 99 0); (100%nat, sd_max s); (1000%nat, sd_mean s) ].

(* correspondence *)
Definition pct_case : Type := nat * list Z * list (Z * Z * Z).     (* id, sorted sample, (pm, pe, observed) *)
Definition pct_mismatches (cs : list pct_case) : list (nat * list Z) :=
  flat_map (fun c : pct_case =>
    let '(id, s, qs) := c in
    let m := map (fun q : Z * Z * Z => let '(pm, pe, _) := q in percentile s pm pe) qs in
    if forallb (fun x => x) (map (fun pq : Z * (Z * Z * Z) => fst pq =? snd (snd pq)) (combine m qs)) then [] else [(id, m)]) cs.
Definition var_case : Type := nat * list Z * list (nat * Z).
Definition var_mismatches (cs : list var_case) : list (nat * list (nat * Z)) :=
  flat_map (fun c : var_case =>
    let '(id, s, obs) := c in
    let m := var_summary s in
    if forallb (fun x => x) (map (fun ab : (nat * Z) * (nat * Z) => Nat.eqb (fst (fst ab)) (fst (snd ab)) && (snd (fst ab) =? snd (snd ab))) (combine m obs))
       && Nat.eqb (length m) (length obs)
    then [] else [(id, m)]) cs.
