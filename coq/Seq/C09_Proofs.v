(* Seq/C09_Proofs.v — proofs for Properties/C09.v: Opened/Closed notifications
   mirror the real transitions of the underlying flag one-to-one. *)
From Coq Require Import ZifyBool.
From CV Require Import Base.Prelude Seq.RollingCounter Seq.TimedCheck Seq.Logic Seq.Circuit Seq.CircuitSpec Seq.LogicSpec.

(* ---------- the projection circ_evs ---------- *)
Definition cev1 (w : who) (o : obs) : list (ckind * Z) :=
  match o with OCircEv w' k t => if who_eqb w w' then [(k, t)] else [] | _ => [] end.

Lemma circ_evs_cons w o l : circ_evs w (o :: l) = cev1 w o ++ circ_evs w l.
Proof. reflexivity. Qed.

Lemma circ_evs_app w a b : circ_evs w (a ++ b) = circ_evs w a ++ circ_evs w b.
Proof.
  induction a as [|x a IH]; [reflexivity|].
  cbn [app]. rewrite !circ_evs_cons, IH, app_assoc. reflexivity.
Qed.

Lemma circ_evs_map_none {A : Type} w (f : A -> obs) (l : list A) :
  (forall a, cev1 w (f a) = []) -> circ_evs w (map f l) = [].
Proof.
  intros Hf. induction l as [|a l IH]; [reflexivity|].
  cbn [map]. rewrite circ_evs_cons, Hf, IH. reflexivity.
Qed.

Lemma circ_evs_users w k t n :
  circ_evs w (map (fun w' => OCircEv w' k t) (users n)) =
  match w with WUser i => if (i <? n)%nat then [(k, t)] else [] | _ => [] end.
Proof.
  unfold users. induction n as [|n IH].
  - destruct w; reflexivity.
  - rewrite seq_S, !map_app, circ_evs_app, IH. cbn [plus map]. rewrite circ_evs_cons.
    cbn [cev1 circ_evs flat_map]. rewrite app_nil_r.
    destruct w as [| |i]; cbn [who_eqb]; [reflexivity|reflexivity|].
    destruct (i <? n)%nat eqn:E1, (i =? n)%nat eqn:E2, (i <? S n)%nat eqn:E3;
      try reflexivity; exfalso; lia.
Qed.

Lemma in_circ_collectors st w :
  In w (circ_collectors st) ->
  w = WCloser \/ w = WOpener \/ exists i, w = WUser i /\ (i <? s_ncirc st)%nat = true.
Proof.
  unfold circ_collectors, users. intros [H|[H|H]]; [auto|auto|].
  right; right. apply in_map_iff in H. destruct H as [i [Hi Hin]].
  apply in_seq in Hin. exists i. split; [auto|]. apply Nat.ltb_lt. lia.
Qed.

(* ---------- emit_circ ---------- *)
Lemma emit_circ_evs st k t s w :
  In w (circ_collectors st) -> circ_evs w (snd (emit_circ st k t s)) = [(k, t)].
Proof.
  intros Hin. unfold emit_circ. destruct (closer_circ t (cls s)) as [c1 timers]. cbn [snd].
  rewrite circ_evs_cons, circ_evs_app, circ_evs_cons, circ_evs_users.
  rewrite (circ_evs_map_none w OTimer timers) by reflexivity.
  apply in_circ_collectors in Hin. destruct Hin as [->|[->|[i [-> Hi]]]]; cbn [cev1 who_eqb app].
  - reflexivity.
  - reflexivity.
  - rewrite Hi. reflexivity.
Qed.

Lemma emit_circ_flag st k t s : flag (fst (emit_circ st k t s)) = flag s.
Proof. unfold emit_circ. destruct (closer_circ t (cls s)). reflexivity. Qed.

(* ---------- the shape of one segment ---------- *)
Definition shape (w : who) (t : Z) (s s' : state) (o : list obs) : Prop :=
  (circ_evs w o = [] /\ flag s' = flag s) \/
  (circ_evs w o = [(Opened, t)] /\ flag s = false /\ flag s' = true) \/
  (circ_evs w o = [(Closed, t)] /\ flag s = true /\ flag s' = false).

Lemma shape_quiet w t s s' o : flag s' = flag s -> circ_evs w o = [] -> shape w t s s' o.
Proof. unfold shape; intros; left; split; assumption. Qed.

Lemma shape_pre w t s s1 s' o0 o :
  flag s1 = flag s -> circ_evs w o0 = [] -> shape w t s1 s' o -> shape w t s s' (o0 ++ o).
Proof.
  unfold shape. intros Hf Ho H. rewrite circ_evs_app, Ho. cbn [app]. rewrite <- Hf. exact H.
Qed.

Lemma shape_post w t s s1 s' o o1 :
  shape w t s s1 o -> flag s' = flag s1 -> circ_evs w o1 = [] -> shape w t s s' (o ++ o1).
Proof.
  unfold shape. intros H Hf Ho. rewrite circ_evs_app, Ho, app_nil_r, Hf. exact H.
Qed.

Lemma shape_pre1 w t s s1 s' x o :
  flag s1 = flag s -> cev1 w x = [] -> shape w t s1 s' o -> shape w t s s' (x :: o).
Proof.
  intros Hf Hx H. change (x :: o) with ([x] ++ o). apply (shape_pre w t s s1); [assumption| |assumption].
  rewrite circ_evs_cons, Hx. reflexivity.
Qed.

Lemma open_circuit_shape st now s w :
  In w (circ_collectors st) ->
  shape w now s (fst (open_circuit st now s)) (snd (open_circuit st now s)).
Proof.
  intros Hin. unfold open_circuit.
  destruct (l_forced_closed (cfg s)) eqn:Efc; [apply shape_quiet; reflexivity|].
  destruct (is_open s) eqn:Eo; [apply shape_quiet; reflexivity|].
  pose proof (emit_circ_evs st Opened now s w Hin) as He.
  pose proof (emit_circ_flag st Opened now s) as Hf.
  destruct (emit_circ st Opened now s) as [s1 o]. cbn [fst snd] in *.
  right; left. split; [exact He|]. split; [|reflexivity].
  unfold is_open in Eo. rewrite Efc in Eo. destruct (l_force_open (cfg s)); [discriminate|exact Eo].
Qed.

Lemma close_circuit_shape st now force ans s w :
  In w (circ_collectors st) ->
  shape w now s (fst (close_circuit st now force ans s)) (snd (close_circuit st now force ans s)).
Proof.
  intros Hin. unfold close_circuit.
  destruct (is_open s) eqn:Eo; cbn [negb]; [|apply shape_quiet; reflexivity].
  destruct (l_force_open (cfg s)) eqn:Efo; [apply shape_quiet; reflexivity|].
  assert (Hfl : flag s = true).
  { unfold is_open in Eo. rewrite Efo in Eo. destruct (l_forced_closed (cfg s)); [discriminate|exact Eo]. }
  pose proof (emit_circ_evs st Closed now s w Hin) as He.
  pose proof (emit_circ_flag st Closed now s) as Hf.
  destruct force.
  - destruct (emit_circ st Closed now s) as [s1 o]. cbn [fst snd] in *.
    right; right. split; [exact He|]. split; [exact Hfl|reflexivity].
  - destruct (closer_should_close ans (cls s)).
    + destruct (emit_circ st Closed now s) as [s1 o]. cbn [fst snd] in *.
      right; right. rewrite circ_evs_cons. cbn [cev1 app].
      split; [exact He|]. split; [exact Hfl|reflexivity].
    + apply shape_quiet; reflexivity.
Qed.

Lemma attempt_to_open_shape st now ans s w :
  In w (circ_collectors st) ->
  shape w now s (fst (attempt_to_open st now ans s)) (snd (attempt_to_open st now ans s)).
Proof.
  intros Hin. unfold attempt_to_open.
  destruct (l_forced_closed (cfg s)) eqn:Efc; [apply shape_quiet; reflexivity|].
  destruct (is_open s) eqn:Eo; [apply shape_quiet; reflexivity|].
  destruct (opener_should_open now ans (opn s)) as [o1 b].
  destruct b; [|apply shape_quiet; reflexivity].
  pose proof (open_circuit_shape st now (set_logic s o1 (cls s)) w Hin) as H.
  destruct (open_circuit st now (set_logic s o1 (cls s))) as [s2 o]. cbn [fst snd] in *.
  apply (shape_pre1 w now s (set_logic s o1 (cls s))); [reflexivity|reflexivity|exact H].
Qed.

(* ---------- the parts that never notify ---------- *)
Lemma emit_run_evs st k t d s w : circ_evs w (snd (emit_run st k t d s)) = [].
Proof. unfold emit_run. cbn [snd]. apply circ_evs_map_none. reflexivity. Qed.

Lemma emit_fb_evs st k t d w : circ_evs w (emit_fb st k t d) = [].
Proof. unfold emit_fb. apply circ_evs_map_none. reflexivity. Qed.

Lemma fallback_quiet st cs err ran derived s w :
  circ_evs w (snd (fallback_stage st cs err ran derived s)) = [] /\
  flag (fst (fallback_stage st cs err ran derived s)) = flag s.
Proof.
  unfold fallback_stage.
  destruct (negb (has_fb_eff (cs_call cs)) || l_fb_disabled (cfg s)); [split; reflexivity|].
  destruct ((0 <=? l_fb_max (cfg s)) && (l_fb_max (cfg s) <? fbs s + 1)); cbn [fst snd].
  - split; [|reflexivity]. rewrite circ_evs_app, emit_fb_evs. reflexivity.
  - split; reflexivity.
Qed.

Lemma begin_quiet st id c s w :
  circ_evs w (snd (begin_call st id c s)) = [] /\ flag (fst (begin_call st id c s)) = flag s.
Proof.
  unfold begin_call.
  destruct (s_mode st); [|split; reflexivity|split; reflexivity].
  destruct (l_disabled (cfg s)); [split; reflexivity|].
  destruct (negb (c_has_run c)); [split; reflexivity|].
  set (B := if negb (is_open s) then _ else _).
  assert (HB : flag (fst (fst B)) = flag s /\ circ_evs w (snd B) = []).
  { subst B. destruct (negb (is_open s)); [split; reflexivity|].
    destruct (l_force_open (cfg s)); [split; reflexivity|].
    destruct (closer_allow (clock s) (c_allow c) (cls s)) as [[cl1 b] timers]. cbn [fst snd].
    split; [reflexivity|]. rewrite circ_evs_cons. cbn [cev1 app].
    apply circ_evs_map_none. reflexivity. }
  clearbody B. destruct B as [[s1 admitted] o1]. cbn [fst snd] in HB. destruct HB as [Hf Ho].
  destruct (negb admitted).
  { unfold emit_run.
    match goal with |- context [fallback_stage ?a ?b ?c ?d ?e ?f] =>
      pose proof (fallback_quiet a b c d e f w) as [H1 H2];
      destruct (fallback_stage a b c d e f) as [s3 o3] end.
    cbn [fst snd] in *. split; [|rewrite H2; exact Hf].
    rewrite !circ_evs_app, Ho, H1. rewrite circ_evs_map_none by reflexivity. reflexivity. }
  destruct (opener_prevent (c_prevent c) (opn s1)).
  { match goal with |- context [fallback_stage ?a ?b ?c ?d ?e ?f] =>
      pose proof (fallback_quiet a b c d e f w) as [H1 H2];
      destruct (fallback_stage a b c d e f) as [s3 o3] end.
    cbn [fst snd] in *. split; [|rewrite H2; exact Hf].
    rewrite circ_evs_app, circ_evs_cons, Ho, H1. reflexivity. }
  destruct ((0 <=? l_max (cfg s1)) && (l_max (cfg s1) <? cmds s1 + 1)).
  { unfold emit_run.
    match goal with |- context [fallback_stage ?a ?b ?c ?d ?e ?f] =>
      pose proof (fallback_quiet a b c d e f w) as [H1 H2];
      destruct (fallback_stage a b c d e f) as [s3 o3] end.
    cbn [fst snd] in *. split; [|rewrite H2; exact Hf].
    rewrite circ_evs_app, circ_evs_cons, circ_evs_app, Ho, H1.
    rewrite circ_evs_map_none by reflexivity. reflexivity. }
  cbn [fst snd]. split; [|exact Hf].
  rewrite circ_evs_app, Ho. reflexivity.
Qed.

(* ---------- EndRun ---------- *)
Definition end_block (st : static) (now dur : Z) (timed_out interrupted : bool) (r : res) (e : endinfo) (s : state)
  : state * list obs :=
  if res_is_bad r then emit_run st KBadRequest now (Some dur) s
  else if timed_out then
    let (sa, oa) := emit_run st KTimeout now (Some dur) s in
    if negb (is_open sa) then let (sb, ob) := attempt_to_open st now (e_should_open e) sa in (sb, oa ++ ob)
    else (sa, oa)
  else if interrupted then emit_run st KInterrupt now (Some dur) s
  else if negb (res_is_nil r) then
    let (sa, oa) := emit_run st KFailure now (Some dur) s in
    if negb (is_open sa) then let (sb, ob) := attempt_to_open st now (e_should_open e) sa in (sb, oa ++ ob)
    else (sa, oa)
  else
    let (sa, oa) := emit_run st KSuccess now (Some dur) s in
    if is_open sa then let (sb, ob) := close_circuit st now false (e_should_close e) sa in (sb, oa ++ ob)
    else (sa, oa).

Definition end_tail (st : static) (id : nat) (cs : callst) (derived : bool) (seen : obs) (after : bool) (r : res)
  (p : state * list obs) : state * list obs :=
  let '(s1, o1) := p in
  let s2 := set_cmds s1 (cmds s1 - 1) in
  if res_is_nil r then (drop_call id s2, seen :: o1 ++ [OReturned id VNil after])
  else if res_is_bad r then (drop_call id s2, seen :: o1 ++ [OReturned id (res_val r) after])
  else let (s3, o3) := fallback_stage st cs (res_val r) true derived s2 in (s3, seen :: o1 ++ o3).

Lemma end_run_eq st id e s :
  end_run st id e s =
  match find_call id s with
  | Some cs =>
    match cs_phase cs with
    | PPass => (drop_call id s, [ORunEnd id (cs_done cs); OReturned id (res_val (e_res e)) (cs_done cs)])
    | PRun start expected derived =>
        let now := clock s in
        let dur := now - start in
        let after := if derived then true else cs_done cs in
        let seen := ORunEnd id (cs_done cs) in
        match e_res e with
        | RPanic v => (drop_call id (set_cmds s (cmds s - 1)), [seen; OReturned id (VPanic v) after])
        | r =>
            let timed_out := match expected with Some x => x <? now | None => false end in
            let interrupted := negb (res_is_nil r) && cs_done cs && negb (l_ignore_int (cfg s)) && ie_says (l_ie (cfg s)) in
            end_tail st id cs derived seen after r (end_block st now dur timed_out interrupted r e s)
        end
    | PFb _ _ _ => (s, [])
    end
  | None => (s, [])
  end.
Proof. reflexivity. Qed.

Lemma end_block_shape st now dur to intr r e s w :
  In w (circ_collectors st) ->
  shape w now s (fst (end_block st now dur to intr r e s)) (snd (end_block st now dur to intr r e s)).
Proof.
  intros Hin. unfold end_block.
  assert (Hq : forall k, shape w now s (fst (emit_run st k now (Some dur) s)) (snd (emit_run st k now (Some dur) s))).
  { intros k. apply shape_quiet; [reflexivity|apply emit_run_evs]. }
  assert (Ha : forall k,
    shape w now s
      (fst (let (sa, oa) := emit_run st k now (Some dur) s in
            if negb (is_open sa) then let (sb, ob) := attempt_to_open st now (e_should_open e) sa in (sb, oa ++ ob)
            else (sa, oa)))
      (snd (let (sa, oa) := emit_run st k now (Some dur) s in
            if negb (is_open sa) then let (sb, ob) := attempt_to_open st now (e_should_open e) sa in (sb, oa ++ ob)
            else (sa, oa)))).
  { intros k. pose proof (emit_run_evs st k now (Some dur) s w) as He.
    unfold emit_run in *. cbn [snd] in He.
    set (sa := set_logic s (opener_run k now (opn s)) (closer_run k (cls s))).
    destruct (negb (is_open sa)).
    - pose proof (attempt_to_open_shape st now (e_should_open e) sa w Hin) as H.
      destruct (attempt_to_open st now (e_should_open e) sa) as [sb ob]. cbn [fst snd] in *.
      apply (shape_pre w now s sa); [reflexivity|exact He|exact H].
    - cbn [fst snd]. apply shape_quiet; [reflexivity|exact He]. }
  destruct (res_is_bad r); [apply Hq|].
  destruct to; [apply Ha|].
  destruct intr; [apply Hq|].
  destruct (negb (res_is_nil r)); [apply Ha|].
  pose proof (emit_run_evs st KSuccess now (Some dur) s w) as He.
  unfold emit_run in *. cbn [snd] in He.
  set (sa := set_logic s (opener_run KSuccess now (opn s)) (closer_run KSuccess (cls s))).
  destruct (is_open sa).
  - pose proof (close_circuit_shape st now false (e_should_close e) sa w Hin) as H.
    destruct (close_circuit st now false (e_should_close e) sa) as [sb ob]. cbn [fst snd] in *.
    apply (shape_pre w now s sa); [reflexivity|exact He|exact H].
  - cbn [fst snd]. apply shape_quiet; [reflexivity|exact He].
Qed.

Lemma end_tail_shape st id cs derived seen after r p w t s :
  cev1 w seen = [] ->
  shape w t s (fst p) (snd p) ->
  shape w t s (fst (end_tail st id cs derived seen after r p)) (snd (end_tail st id cs derived seen after r p)).
Proof.
  intros Hseen H. unfold end_tail. destruct p as [s1 o1]. cbn [fst snd] in H. cbv zeta.
  destruct (res_is_nil r).
  { cbn [fst snd]. apply (shape_pre1 w t s s); [reflexivity|exact Hseen|].
    apply (shape_post w t s s1); [exact H|reflexivity|reflexivity]. }
  destruct (res_is_bad r).
  { cbn [fst snd]. apply (shape_pre1 w t s s); [reflexivity|exact Hseen|].
    apply (shape_post w t s s1); [exact H|reflexivity|reflexivity]. }
  pose proof (fallback_quiet st cs (res_val r) true derived (set_cmds s1 (cmds s1 - 1)) w) as [H1 H2].
  destruct (fallback_stage st cs (res_val r) true derived (set_cmds s1 (cmds s1 - 1))) as [s3 o3].
  cbn [fst snd] in *. apply (shape_pre1 w t s s); [reflexivity|exact Hseen|].
  apply (shape_post w t s s1); [exact H|exact H2|exact H1].
Qed.

Lemma end_run_shape st id e s w :
  In w (circ_collectors st) ->
  shape w (clock s) s (fst (end_run st id e s)) (snd (end_run st id e s)).
Proof.
  intros Hin. rewrite end_run_eq.
  destruct (find_call id s) as [cs|]; [|apply shape_quiet; reflexivity].
  destruct (cs_phase cs) as [start expected derived| |]; [|apply shape_quiet; reflexivity|apply shape_quiet; reflexivity].
  cbv zeta.
  destruct (e_res e); try (apply shape_quiet; reflexivity);
    (apply end_tail_shape; [reflexivity|apply end_block_shape; exact Hin]).
Qed.

Lemma end_fb_quiet st id f s w :
  circ_evs w (snd (end_fb st id f s)) = [] /\ flag (fst (end_fb st id f s)) = flag s.
Proof.
  unfold end_fb.
  destruct (find_call id s) as [cs|]; [|split; reflexivity].
  destruct (cs_phase cs); [split; reflexivity|split; reflexivity|].
  destruct f; cbn [fst snd]; (split; [|reflexivity]).
  - rewrite circ_evs_app, emit_fb_evs. reflexivity.
  - rewrite circ_evs_app, emit_fb_evs. reflexivity.
  - reflexivity.
Qed.

Lemma cancel_flag id s : flag (cancel_call id s) = flag s.
Proof. unfold cancel_call. destruct (find_call id s); reflexivity. Qed.

Lemma step_core_shape st s ev w :
  In w (circ_collectors st) ->
  shape w (clock s) s (fst (step_core st s ev)) (snd (step_core st s ev)).
Proof.
  intros Hin. destruct ev; cbn [step_core].
  - destruct (begin_quiet st id c s w) as [H1 H2]. apply shape_quiet; assumption.
  - apply end_run_shape; exact Hin.
  - destruct (end_fb_quiet st id f s w) as [H1 H2]. apply shape_quiet; assumption.
  - apply shape_quiet; [apply cancel_flag|reflexivity].
  - apply open_circuit_shape; exact Hin.
  - apply close_circuit_shape; exact Hin.
  - apply shape_quiet; reflexivity.
  - apply shape_quiet; reflexivity.
  - apply shape_quiet; reflexivity.
Qed.

Lemma step_shape' st s ev w :
  In w (circ_collectors st) ->
  shape w (clock s) s (fst (step st s ev)) (snd (step st s ev)).
Proof.
  intros Hin. pose proof (step_core_shape st s ev w Hin) as H.
  unfold step. destruct (step_core st s ev) as [s1 o]. cbn [fst snd] in *.
  apply (shape_post w (clock s) s s1); [exact H|reflexivity|].
  unfold reading. destruct (s_mode st); reflexivity.
Qed.

Lemma step_shape (st : static) : forall s ev w,
  In w (circ_collectors st) ->
  let s' := fst (step st s ev) in let o := snd (step st s ev) in
  (circ_evs w o = [] /\ flag s' = flag s) \/
  (circ_evs w o = [(Opened, clock s)] /\ flag s = false /\ flag s' = true) \/
  (circ_evs w o = [(Closed, clock s)] /\ flag s = true /\ flag s' = false).
Proof. intros s ev w Hin. exact (step_shape' st s ev w Hin). Qed.

(* ---------- histories ---------- *)
Lemma last_kind_cons k l :
  last_kind (k :: l) = match last_kind l with Some x => Some x | None => Some k end.
Proof.
  unfold last_kind. revert k. induction l as [|k' l IH]; intros k; [reflexivity|].
  change (List.last (map Some (k :: k' :: l)) None) with (List.last (map Some (k' :: l)) None).
  rewrite (IH k'). destruct (List.last (map Some l) None); reflexivity.
Qed.

Definition next_of (b : bool) : ckind := if b then Closed else Opened.

Lemma alternate_gen (st : static) : forall h s0 w,
  In w (circ_collectors st) ->
  let l := map fst (circ_evs w (all_obs (trace_from st s0 h))) in
  alternates (next_of (flag s0)) l /\
  flag (state_after st s0 h) =
    match last_kind l with Some Opened => true | Some Closed => false | None => flag s0 end.
Proof.
  induction h as [|ev h IH]; intros s0 w Hin; [split; reflexivity|].
  cbn [trace_from state_after fold_left].
  pose proof (step_shape' st s0 ev w Hin) as H.
  destruct (step st s0 ev) as [s1 o] eqn:Es. cbn [fst snd] in H.
  specialize (IH s1 w Hin). cbv zeta in IH. destruct IH as [IH1 IH2].
  unfold state_after in IH2. cbv zeta.
  unfold all_obs in *. cbn [flat_map snd]. rewrite circ_evs_app, map_app.
  set (l := map fst (circ_evs w (flat_map snd (trace_from st s1 h)))) in *.
  destruct H as [[Ho Hf]|[[Ho [Hf Hf']]|[Ho [Hf Hf']]]]; rewrite Ho; cbn [map app fst].
  - rewrite <- Hf. split; [exact IH1|exact IH2].
  - rewrite Hf. rewrite Hf' in IH1, IH2. cbn [next_of alternates] in *.
    split; [split; [reflexivity|exact IH1]|].
    rewrite last_kind_cons, IH2. destruct (last_kind l) as [[|]|]; reflexivity.
  - rewrite Hf. rewrite Hf' in IH1, IH2. cbn [next_of alternates] in *.
    split; [split; [reflexivity|exact IH1]|].
    rewrite last_kind_cons, IH2. destruct (last_kind l) as [[|]|]; reflexivity.
Qed.

Lemma alternate (st : static) : forall s0 h w,
  flag s0 = false -> In w (circ_collectors st) ->
  let l := map fst (circ_evs w (all_obs (trace_from st s0 h))) in
  alternates Opened l /\
  flag (state_after st s0 h) = match last_kind l with Some Opened => true | _ => false end.
Proof.
  intros s0 h w Hf Hin. cbv zeta.
  destruct (alternate_gen st h s0 w Hin) as [H1 H2]. cbv zeta in H1, H2.
  rewrite Hf in H1, H2. cbn [next_of] in H1. split; [exact H1|].
  rewrite H2. destruct (last_kind _) as [[|]|]; reflexivity.
Qed.

Lemma quiescent : forall s, not_overridden s -> is_open s = flag s.
Proof. intros s [H1 H2]. unfold is_open. rewrite H1, H2. reflexivity. Qed.

Lemma identical_circ (st : static) : forall s h w1 w2,
  In w1 (circ_collectors st) -> In w2 (circ_collectors st) ->
  circ_evs w1 (all_obs (trace_from st s h)) = circ_evs w2 (all_obs (trace_from st s h)).
Proof.
  intros s h w1 w2 H1 H2. revert s. induction h as [|ev h IH]; intros s; [reflexivity|].
  cbn [trace_from].
  pose proof (step_shape' st s ev w1 H1) as Ha.
  pose proof (step_shape' st s ev w2 H2) as Hb.
  destruct (step st s ev) as [s1 o]. cbn [fst snd] in Ha, Hb.
  unfold all_obs in *. cbn [flat_map snd]. rewrite !circ_evs_app, (IH s1). f_equal.
  unfold shape in Ha, Hb.
  destruct Ha as [[Ea Fa]|[[Ea [Fa Fa']]|[Ea [Fa Fa']]]];
  destruct Hb as [[Eb Fb]|[[Eb [Fb Fb']]|[Eb [Fb Fb']]]];
    try congruence.
Qed.

Lemma open_noop (st : static) : forall s,
  (is_open s = true \/ l_forced_closed (cfg s) = true) ->
  step st s OpenCircuit = (s, [reading st s]).
Proof.
  intros s H. unfold step. cbn [step_core]. unfold open_circuit.
  destruct (l_forced_closed (cfg s)) eqn:Efc; [reflexivity|].
  destruct (is_open s) eqn:Eo; [reflexivity|].
  destruct H; discriminate.
Qed.

Lemma close_noop (st : static) : forall s,
  (is_open s = false \/ l_force_open (cfg s) = true) ->
  step st s CloseCircuit = (s, [reading st s]).
Proof.
  intros s H. unfold step. cbn [step_core]. unfold close_circuit.
  destruct (is_open s) eqn:Eo; cbn [negb]; [|reflexivity].
  destruct (l_force_open (cfg s)) eqn:Efo; [reflexivity|].
  destruct H; discriminate.
Qed.
