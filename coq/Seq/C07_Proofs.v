(* Seq/C07_Proofs.v — proofs for Properties/C07.v (deadline and context
   propagation into the protected function). *)
From Coq Require Import ZifyBool.
From CV Require Import Base.Prelude Seq.RollingCounter Seq.TimedCheck Seq.Logic Seq.Circuit Seq.CircuitSpec
  Seq.C06_Proofs.

Lemma run_context (st : static) : forall s id c,
  enabled st s -> c_has_run c = true -> gate s c = GRun ->
  run_invocations id (snd (step st s (Begin id c))) =
  [ if 0 <? l_timeout (cfg s)
    then (true, Some (match c_deadline c with
                      | Some d => Z.min d (clock s + l_timeout (cfg s))
                      | None => clock s + l_timeout (cfg s) end))
    else (false, c_deadline c) ].
Proof.
  intros s id c He Hr Hg.
  destruct (begin_call_cases st id c s He Hr) as (s1 & o1 & Hq & _ & E).
  unfold step, step_core. rewrite E, Hg. cbv zeta. cbn [snd].
  rewrite !ri_app, (quiet_ri _ _ Hq), (quiet_ri _ _ (quiet_reading _ _)).
  cbn [app run_invocations flat_map]. rewrite Nat.eqb_refl. cbn [app].
  unfold min_deadline. destruct (0 <? l_timeout (cfg s)); reflexivity.
Qed.

Lemma passthrough_context (st : static) : forall s id c,
  passthrough st s -> c_has_run c = true ->
  run_invocations id (snd (step st s (Begin id c))) = [(false, c_deadline c)].
Proof.
  intros s id c Hp _. unfold step, step_core. rewrite (begin_call_pass st id c s Hp). cbn [snd].
  rewrite ri_app, ri_one, (quiet_ri _ _ (quiet_reading _ _)). reflexivity.
Qed.

(* the fallback stage never reports the end of a run function *)
Lemma fallback_stage_no_runend st cs err ran derived s id b :
  ~ In (ORunEnd id b) (snd (fallback_stage st cs err ran derived s)).
Proof.
  pose proof (fallback_stage_cases st cs err ran derived s) as H. cbv zeta in H.
  destruct (fb_available s (cs_call cs)); [destruct (fb_limit_hit s)|]; rewrite H; cbn [snd]; intros Hin.
  - apply in_app_or in Hin. destruct Hin as [Hin|Hin].
    + exact (quiet_no_runend _ _ _ (quiet_emit_fb _ _ _ _) Hin).
    + destruct Hin as [Hin|[]]; discriminate.
  - destruct Hin as [Hin|[]]; discriminate.
  - destruct Hin as [Hin|[]]; discriminate.
Qed.

Lemma cancelled_with_caller (st : static) : forall s id e cs b,
  find_call id s = Some cs ->
  In (ORunEnd id b) (snd (step st s (EndRun id e))) -> b = cs_done cs.
Proof.
  intros s id e cs b Hf. rewrite step_fst_snd. cbn [snd step_core]. intros Hin.
  apply in_app_or in Hin. destruct Hin as [Hin|Hin].
  2:{ exfalso. exact (quiet_no_runend _ _ _ (quiet_reading _ _) Hin). }
  destruct (cs_phase cs) as [start expected derived| |fbstart ran derived] eqn:Hp.
  3:{ unfold end_run in Hin. rewrite Hf, Hp in Hin. destruct Hin. }
  2:{ unfold end_run in Hin. rewrite Hf, Hp in Hin. cbn [snd] in Hin.
      destruct Hin as [Hin|[Hin|[]]]; [congruence | discriminate]. }
  destruct (res_panics (e_res e)) eqn:Hr.
  { destruct (e_res e) as [| | | |v] eqn:Er; try discriminate.
    rewrite (end_run_panic st id e s cs start expected derived v Hf Hp Er) in Hin. cbn [snd] in Hin.
    destruct Hin as [Hin|[Hin|[]]]; [congruence | discriminate]. }
  rewrite (end_run_PRun st id e s cs start expected derived Hf Hp Hr) in Hin. cbv zeta in Hin.
  match type of Hin with context [run_fanout ?a ?b ?c ?d ?e ?f ?g ?h] =>
    pose proof (run_fanout_inert a b c d e f g h) as HI; destruct (run_fanout a b c d e f g h) as [s1 o1] end.
  destruct HI as (_ & _ & _ & _ & _ & Hq); cbn [snd] in Hq.
  assert (direct : forall v a, In (ORunEnd id b) (ORunEnd id (cs_done cs) :: o1 ++ [OReturned id v a]) -> b = cs_done cs).
  { intros v a [H|H]; [congruence|]. exfalso. apply in_app_or in H. destruct H as [H|[H|[]]].
    - exact (quiet_no_runend _ _ _ Hq H).
    - discriminate. }
  destruct (res_is_nil (e_res e)); [exact (direct _ _ Hin)|].
  destruct (res_is_bad (e_res e)); [exact (direct _ _ Hin)|].
  pose proof (fallback_stage_no_runend st cs (res_val (e_res e)) true derived (set_cmds s1 (cmds s1 - 1)) id b) as HN.
  destruct (fallback_stage st cs (res_val (e_res e)) true derived (set_cmds s1 (cmds s1 - 1))) as [s3 o3].
  cbn [snd] in *. destruct Hin as [H|H]; [congruence|]. exfalso. apply in_app_or in H. destruct H as [H|H].
  - exact (quiet_no_runend _ _ _ Hq H).
  - exact (HN H).
Qed.

Lemma released (st : static) : forall s id e cs start expected,
  find_call id s = Some cs -> cs_phase cs = PRun start expected true ->
  let s' := fst (step st s (EndRun id e)) in
  let o := snd (step st s (EndRun id e)) in
  (exists v, returns id o = [(v, true)]) \/
  (returns id o = [] /\ exists cs' t, find_call id s' = Some cs' /\ cs_phase cs' = PFb t true true).
Proof.
  intros s id e cs start expected Hf Hp. cbv zeta. rewrite step_fst_snd. cbn [fst snd step_core].
  rewrite ret_app, (quiet_ret _ _ (quiet_reading _ _)), app_nil_r.
  destruct (res_panics (e_res e)) eqn:Hr.
  { destruct (e_res e) as [| | | |v] eqn:Er; try discriminate.
    rewrite (end_run_panic st id e s cs start expected true v Hf Hp Er). cbn [fst snd].
    left. exists (VPanic v). rewrite ret_runend, ret_one. reflexivity. }
  rewrite (end_run_PRun st id e s cs start expected true Hf Hp Hr). cbv zeta.
  match goal with |- context [run_fanout ?a ?b ?c ?d ?e ?f ?g ?h] =>
    pose proof (run_fanout_inert a b c d e f g h) as HI; destruct (run_fanout a b c d e f g h) as [s1 o1] end.
  destruct HI as (_ & _ & _ & _ & _ & Hq); cbn [snd] in Hq.
  destruct (res_is_nil (e_res e)).
  { left. cbn [snd]. rewrite ret_runend, ret_app, ret_one, (quiet_ret _ _ Hq). eexists; reflexivity. }
  destruct (res_is_bad (e_res e)).
  { left. cbn [snd]. rewrite ret_runend, ret_app, ret_one, (quiet_ret _ _ Hq). eexists; reflexivity. }
  set (s2 := set_cmds s1 (cmds s1 - 1)).
  pose proof (fallback_stage_proj st cs (res_val (e_res e)) true true s2) as HP.
  pose proof (fallback_stage_cases st cs (res_val (e_res e)) true true s2) as HC. cbv zeta in HP, HC.
  rewrite (find_call_id _ _ _ Hf) in HP, HC.
  destruct (fallback_stage st cs (res_val (e_res e)) true true s2) as [s3 o3]. cbn [fst snd] in *.
  rewrite ret_runend, ret_app, (quiet_ret _ _ Hq). cbn [app].
  destruct HP as [_ HP].
  destruct (fb_available s2 (cs_call cs)); [destruct (fb_limit_hit s2)|]; destruct HP as [H1 H2].
  - left. rewrite H1. eexists; reflexivity.
  - right. split; [exact H2|]. injection HC as Hs3 Ho3. rewrite Hs3.
    match goal with |- context [put_call ?c ?s] =>
      exists c, (clock s2); split; [exact (find_put_same c s) | reflexivity] end.
  - left. rewrite H1. eexists; reflexivity.
Qed.

Lemma released_after_fallback (st : static) : forall s id f cs t,
  find_call id s = Some cs -> cs_phase cs = PFb t true true ->
  exists v, returns id (snd (step st s (EndFb id f))) = [(v, true)].
Proof.
  intros s id f cs t Hf Hp.
  destruct (end_fb_PFb st id f s cs t true true Hf Hp) as (pre & Hq & E).
  unfold step, step_core. rewrite E. cbn [snd].
  rewrite !ret_app, ret_one, (quiet_ret _ _ Hq), (quiet_ret _ _ (quiet_reading _ _)). cbn [app fb_after].
  eexists; reflexivity.
Qed.

Lemma fallback_context (st : static) : forall s ev id err b,
  In (OFbInvoked id err b) (snd (step st s ev)) -> b = true.
Proof.
  intros s ev id err b. rewrite step_fst_snd. cbn [snd]. intros Hin.
  apply in_app_or in Hin. destruct Hin as [Hin|Hin].
  2:{ exact (shaped_fb_ctx 0%nat _ _ _ _ (quiet_shaped _ _ (quiet_reading _ _)) Hin). }
  pose proof (step_core_shape st s ev) as HS. cbv zeta in HS.
  destruct (event_id ev) as [i|].
  - destruct HS as [HS _]. exact (shaped_fb_ctx i _ _ _ _ HS Hin).
  - destruct HS as [HS _]. exact (shaped_fb_ctx 0%nat _ _ _ _ (quiet_shaped _ _ HS) Hin).
Qed.
