(* Seq/Logic.v — models of the built-in open/close logic:
   closers/hystrix/opener.go, closers/hystrix/closer.go,
   closers/simplelogic/closers.go, closers.go (neverOpens / neverCloses),
   and "custom" logic whose answers are carried by the events, so that a theorem
   quantified over all events is quantified over every possible custom logic. *)
From CV Require Import Base.Prelude Seq.RollingCounter Seq.TimedCheck.

Inductive runkind := KSuccess | KFailure | KTimeout | KBadRequest | KInterrupt | KReject | KShort.
Inductive ckind := Opened | Closed.

(* ---------- hystrix.Opener ---------- *)
Record hopener := {
  ho_n : Z; ho_w : Z; ho_start : Z;         (* NumBuckets, bucket width, counters' StartTime *)
  ho_pct : Z; ho_vol : Z;                   (* errorPercentage, requestVolumeThreshold *)
  ho_err : rc; ho_att : rc                  (* errorsCount, legitimateAttemptsCount *)
}.

Definition ho_init (n dur start pct vol : Z) : hopener :=
  let w := godiv dur n in                   (* RollingDuration.Nanoseconds() / int64(NumBuckets) *)
  {| ho_n := n; ho_w := w; ho_start := start; ho_pct := pct; ho_vol := vol;
     ho_err := RollingCounter.init n; ho_att := RollingCounter.init n |}.

Definition ho_with (h : hopener) (e a : rc) : hopener :=
  {| ho_n := ho_n h; ho_w := ho_w h; ho_start := ho_start h; ho_pct := ho_pct h; ho_vol := ho_vol h;
     ho_err := e; ho_att := a |}.

Definition ho_inc_att (now : Z) (h : hopener) : hopener :=
  ho_with h (ho_err h) (inc (ho_n h) (ho_w h) (ho_start h) now (ho_att h)).
Definition ho_inc_both (now : Z) (h : hopener) : hopener :=
  (* ErrFailure / ErrTimeout: legitimateAttemptsCount.Inc(now); errorsCount.Inc(now) *)
  ho_with h (inc (ho_n h) (ho_w h) (ho_start h) now (ho_err h)) (inc (ho_n h) (ho_w h) (ho_start h) now (ho_att h)).
Definition ho_reset (now : Z) (h : hopener) : hopener :=
  ho_with h (reset (ho_n h) (ho_w h) (ho_start h) now (ho_err h)) (reset (ho_n h) (ho_w h) (ho_start h) now (ho_att h)).

(* ShouldOpen(now): attempts != 0, attempts >= volume, 100*errors >= pct*attempts *)
Definition ho_should_open (now : Z) (h : hopener) : hopener * bool :=
  let (att1, a) := rolling_sum_at (ho_n h) (ho_w h) (ho_start h) now (ho_att h) in
  if (a =? 0) || (a <? ho_vol h) then (ho_with h (ho_err h) att1, false)
  else
    let (err1, e) := rolling_sum_at (ho_n h) (ho_w h) (ho_start h) now (ho_err h) in
    (ho_with h err1 att1, ho_pct h * a <=? 100 * e).

(* ---------- openers ---------- *)
Inductive opener :=
| OpNever
| OpHystrix (h : hopener)
| OpConsec (count thr : Z)       (* consecutiveCount, closeThreshold *)
| OpCustom.

Definition opener_run (k : runkind) (now : Z) (o : opener) : opener :=
  match o with
  | OpHystrix h =>
      match k with
      | KSuccess => OpHystrix (ho_inc_att now h)
      | KFailure | KTimeout => OpHystrix (ho_inc_both now h)
      | _ => o
      end
  | OpConsec c t =>
      match k with
      | KSuccess => OpConsec 0 t
      | KFailure | KTimeout => OpConsec (c + 1) t
      | _ => o
      end
  | _ => o
  end.

Definition opener_circ (k : ckind) (now : Z) (o : opener) : opener :=
  match o with
  | OpHystrix h => OpHystrix (ho_reset now h)
  | OpConsec _ t => OpConsec 0 t
  | _ => o
  end.

(* ShouldOpen(now); `ans` is the scripted answer of custom logic *)
Definition opener_should_open (now : Z) (ans : bool) (o : opener) : opener * bool :=
  match o with
  | OpNever => (o, false)
  | OpHystrix h => let (h1, b) := ho_should_open now h in (OpHystrix h1, b)
  | OpConsec c t => (o, t <=? c)
  | OpCustom => (o, ans)
  end.

Definition opener_prevent (ans : bool) (o : opener) : bool :=
  match o with OpCustom => ans | _ => false end.

(* ---------- closers ---------- *)
Inductive closer :=
| ClNever
| ClHystrix (t : tc) (succ need : Z)   (* reopenCircuitCheck, concurrentSuccessfulAttempts, closeOnCurrentCount *)
| ClCustom.

Definition closer_init_hystrix (sleep half_open required : Z) : closer :=
  ClHystrix (tc_init sleep half_open) 0 required.

Definition closer_run (k : runkind) (c : closer) : closer :=
  match c with
  | ClHystrix t s n =>
      match k with
      | KSuccess => ClHystrix t (s + 1) n
      | KFailure | KTimeout => ClHystrix t 0 n
      | _ => c
      end
  | _ => c
  end.

(* Opened / Closed: concurrentSuccessfulAttempts.Set(0); reopenCircuitCheck.SleepStart(now).
   Returns the timer durations registered. *)
Definition closer_circ (now : Z) (c : closer) : closer * list Z :=
  match c with
  | ClHystrix t _ n => let (t1, d) := tc_sleep_start now t in (ClHystrix t1 0 n, [d])
  | _ => (c, [])
  end.

(* Allow(now) *)
Definition closer_allow (now : Z) (ans : bool) (c : closer) : closer * bool * list Z :=
  match c with
  | ClNever => (c, false, [])
  | ClHystrix t s n =>
      let '(t1, b, a) := tc_check now t in
      (ClHystrix t1 s n, b, match a with Some d => [d] | None => [] end)
  | ClCustom => (c, ans, [])
  end.

Definition closer_should_close (ans : bool) (c : closer) : bool :=
  match c with
  | ClNever => false
  | ClHystrix _ s n => n <=? s
  | ClCustom => ans
  end.

Definition closer_fire (k : nat) (c : closer) : closer :=
  match c with
  | ClHystrix t s n => ClHystrix (tc_fire k t) s n
  | _ => c
  end.
