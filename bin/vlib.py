"""Shared machinery of bin/check: building, running ties, reporting.

A check of one property does, in order:
  1. source scan (no Admitted/Axiom/... anywhere in coq/)
  2. proof obligations: `make` of the property's theorem file and everything it
     depends on (full .vo build), then an unconditional re-compile of
     Properties/<id>.v capturing `Print Assumptions`
  3. ties to /repo's working tree (regeneration by the translator and/or
     differential correspondence through the Go harness and vm_compute)
  4. property monitors on what the implementation did (the search for a
     concrete failing input)
and reports per DESIGN.md section 5.
"""
import fcntl
import json
import glob, os
import re
import shutil
import subprocess
import sys
import time
from concurrent.futures import ThreadPoolExecutor

VERIF = os.path.dirname(os.path.dirname(os.path.abspath(__file__)))
COQ = os.path.join(VERIF, "coq")
HARNESS = os.path.join(VERIF, "harness")
REPO = os.environ.get("VERIF_REPO", "/repo")     # mutation drills only: a scratch worktree instead of /repo
TAG = os.environ.get("VERIF_TAG", "")            # mutation drills only: suffix that keeps concurrent drills apart
OUT = os.environ.get("VERIF_OUT", VERIF)         # mutation drills only: where evidence/ and replays/ go


def modfile_args(bdir):
    """[] for /repo (harness/go.mod replaces the module onto /repo); for a drill on another tree, a
    generated go.mod next to the build that replaces the module onto that tree instead."""
    if REPO == "/repo":
        return []
    mod = open(os.path.join(HARNESS, "go.mod")).read().replace("=> /repo", "=> " + REPO)
    open(os.path.join(bdir, "go.mod"), "w").write(mod)
    shutil.copy(os.path.join(REPO, "go.sum"), os.path.join(bdir, "go.sum"))
    return ["-modfile=" + os.path.join(bdir, "go.mod")]

GOENV = dict(os.environ, GOFLAGS="-mod=mod", GOPROXY="off", GOSUMDB="off", GOTOOLCHAIN="local",
             CGO_ENABLED=os.environ.get("CGO_ENABLED", "0"))

# axioms a theorem may depend on (all declared by Coq's standard library; see DESIGN.md section 6)
AXIOM_ALLOW = {
    "ClassicalDedekindReals.sig_forall_dec",
    "ClassicalDedekindReals.sig_not_dec",
    "FunctionalExtensionality.functional_extensionality_dep",
    "Classical_Prop.classic",
}

FORBIDDEN = re.compile(
    r"\b(Admitted|admit|Axiom|Axioms|Parameter|Parameters|Conjecture|Conjectures|Admit Obligations|"
    r"Unset Guard Checking|Unset Positivity Checking|Unset Universe Checking|bypass_check|"
    r"type-in-type|impredicative-set|native_compute)\b")
TOPLEVEL_VAR = re.compile(r"^\s*(Variable|Variables|Hypothesis|Hypotheses)\b")


class Report:
    def __init__(self, pid, tier, seed):
        self.pid, self.tier, self.seed = pid, tier, seed
        self.t0 = time.time()
        self.cov = {"obligations": 0, "discharged": 0, "checker_cmd": "", "trusted_base": [],
                    "evaluations": 0, "distinct_nontrivial": 0, "traces_validated_against_impl": 0,
                    "samples": [], "rule": "", "distribution": {}, "axioms": [], "theorems": [], "ties": []}
        self.assumptions = []
        self.violations = []   # dicts: kind, clause, detail, replay(dict)
        self.known = []        # strings
        self.broken = []       # (what, detail): proof / correspondence / translation breaks
        self.log = []

    def say(self, *a):
        msg = " ".join(str(x) for x in a)
        self.log.append(msg)
        print(msg, flush=True)


def run(cmd, cwd=None, env=None, timeout=1800, stdin=None):
    p = subprocess.run(cmd, cwd=cwd, env=env, stdout=subprocess.PIPE, stderr=subprocess.STDOUT,
                       timeout=timeout, text=True, input=stdin)
    return p.returncode, p.stdout


class Lock:
    def __init__(self, path):
        self.path = path

    def __enter__(self):
        self.f = open(self.path, "w")
        fcntl.flock(self.f, fcntl.LOCK_EX)
        return self

    def __exit__(self, *a):
        fcntl.flock(self.f, fcntl.LOCK_UN)
        self.f.close()


# ---------------------------------------------------------------- step 1
def strip_comments(src):
    out, depth, i = [], 0, 0
    while i < len(src):
        if src.startswith("(*", i):
            depth += 1
            i += 2
        elif src.startswith("*)", i) and depth > 0:
            depth -= 1
            i += 2
        else:
            if depth == 0:
                out.append(src[i])
            elif src[i] == "\n":
                out.append("\n")
            i += 1
    return "".join(out)


def source_scan(rep):
    bad = []
    # every file of the development: the static build, the regenerated files and the theorem files compiled by the checks
    listed = [f for f in open(os.path.join(COQ, "_CoqProject")).read().split() if f.endswith(".v")]
    listed += ["Properties/" + f for f in os.listdir(os.path.join(COQ, "Properties")) if f.endswith(".v")]
    if os.path.isdir(os.path.join(COQ, "Gen")):
        listed += ["Gen/" + f for f in os.listdir(os.path.join(COQ, "Gen")) if f.endswith(".v") and "cases" not in f]
    for rel in sorted(set(listed)):
        if True:
            path = os.path.join(COQ, rel)
            if not os.path.exists(path):
                continue
            src = strip_comments(open(path).read())
            depth = 0
            for ln, line in enumerate(src.split("\n"), 1):
                if FORBIDDEN.search(line):
                    bad.append("%s:%d: %s" % (os.path.relpath(path, VERIF), ln, line.strip()[:100]))
                if re.match(r"^\s*(Section)\b", line):
                    depth += 1
                if re.match(r"^\s*End\b", line) and depth > 0:
                    depth -= 1
                if depth == 0 and TOPLEVEL_VAR.match(line):
                    bad.append("%s:%d: top-level %s" % (os.path.relpath(path, VERIF), ln, line.strip()[:80]))
    proj = open(os.path.join(COQ, "_CoqProject")).read()
    if re.search(r"type-in-type|impredicative-set|-vos|-vok|bypass", proj):
        bad.append("_CoqProject: forbidden flag")
    if bad:
        rep.broken.append(("source-scan", "\n".join(bad)))
        rep.say("source scan: FORBIDDEN constructs:\n  " + "\n  ".join(bad))
    return not bad


# ---------------------------------------------------------------- step 2
def coq_make(targets, rep, timeout=2400):
    """Full .vo build of the targets (and their dependencies) under the shared lock."""
    with Lock(os.path.join(COQ, ".lock")):
        if not os.path.exists(os.path.join(COQ, "Makefile")) or \
                os.path.getmtime(os.path.join(COQ, "Makefile")) < os.path.getmtime(os.path.join(COQ, "_CoqProject")):
            rc, out = run(["coq_makefile", "-f", "_CoqProject", "-o", "Makefile"], cwd=COQ)
            if rc != 0:
                return False, out
        rc, out = run(["make", "-j16"] + targets, cwd=COQ, timeout=timeout)
        return rc == 0, out


def theorem_names(path):
    src = strip_comments(open(path).read())
    return re.findall(r"^\s*(?:Theorem|Lemma|Corollary|Example)\s+([A-Za-z0-9_']+)", src, re.M)


def property_files(pid):
    """Properties/<pid>.v and Properties/<pid>_*.v that are part of the static build."""
    proj = open(os.path.join(COQ, "_CoqProject")).read().split()
    return [f for f in proj if re.match(r"Properties/%s(_\w+)?\.v$" % pid, f)]


def parse_axioms(out):
    axioms = set()
    in_block = False
    for line in out.split("\n"):
        if line.strip() == "Axioms:":
            in_block = True
            continue
        if line.startswith("Closed under") or not line.strip():
            in_block = False if line.startswith("Closed under") else in_block
            continue
        if in_block and not line[0].isspace():
            m = re.match(r"^([A-Za-z_][A-Za-z0-9_.']*)\s*(:.*)?$", line)
            if m:
                axioms.add(m.group(1))
            else:
                in_block = False
    return axioms


def check_obligations(rep, pid, extra_targets=()):
    """Build and re-check the property's theorem files; fill obligations/discharged/axioms."""
    files = property_files(pid)
    if not files:
        rep.broken.append(("proof", "no theorem file Properties/%s*.v in the build" % pid))
        return False
    names = []
    for f in files:
        names += theorem_names(os.path.join(COQ, f))
    rep.cov["obligations"] = len(names)
    rep.cov["theorems"] = names
    rep.cov["checker_cmd"] = "make -C coq -j16 %s && coqc -Q coq CV %s  (Coq 8.16.1, full .vo build)" % (
        " ".join(f + "o" for f in files), " ".join("coq/" + f for f in files))
    ok, out = coq_make([f + "o" for f in files] + list(extra_targets), rep)
    if not ok:
        m = re.search(r'File "\./([^"]+)", line (\d+)', out)
        where = "%s:%s" % (m.group(1), m.group(2)) if m else "?"
        rep.broken.append(("proof", "build of %s failed at %s\n%s" % (" ".join(files), where, out[-3000:])))
        rep.say("proof obligations: BUILD FAILED at", where)
        rep.cov["discharged"] = 0
        return False
    axioms = set()
    blocks = 0
    for f in files:
        with Lock(os.path.join(COQ, ".lock")):
            rc, out = run(["coqc", "-Q", ".", "CV", "-w", "-notation-overridden", f], cwd=COQ, timeout=1200)
        if rc != 0:
            rep.broken.append(("proof", "re-check of %s failed\n%s" % (f, out[-3000:])))
            rep.cov["discharged"] = 0
            return False
        blocks += out.count("Closed under the global context") + out.count("Axioms:")
        axioms |= parse_axioms(out)
    rep.cov["axioms"] = sorted(axioms)
    rep.cov["print_assumptions_blocks"] = blocks
    unknown = [a for a in axioms if a not in AXIOM_ALLOW]
    if unknown:
        rep.broken.append(("proof", "axioms outside the allow-list: %s" % unknown))
        rep.cov["discharged"] = 0
        return False
    if blocks < len(names):
        rep.broken.append(("proof", "%s: %d theorems but only %d Print Assumptions blocks" % (files, len(names), blocks)))
    rep.cov["discharged"] = len(names)
    rep.say("proof obligations: %d theorems in %s re-checked; axioms: %s" % (len(names), " ".join(files), sorted(axioms) or "none"))
    return True


# ---------------------------------------------------------------- step 3
def build_harness(rep, pid, tier, cmds=("seqdiff",)):
    bdir = os.path.join(HARNESS, ".build", "%s-%s%s" % (pid, tier, TAG))
    shutil.rmtree(bdir, ignore_errors=True)
    os.makedirs(bdir)
    with Lock(os.path.join(HARNESS, ".lock")):
        if REPO == "/repo":
            shutil.copy(os.path.join(REPO, "go.sum"), os.path.join(HARNESS, "go.sum"))
        mf = modfile_args(bdir)
        for c in cmds:
            rc, out = run(["go", "build"] + mf + ["-o", os.path.join(bdir, c), "./cmd/" + c], cwd=HARNESS, env=GOENV, timeout=900)
            if rc != 0:
                rep.broken.append(("correspondence", "harness does not build against /repo's working tree:\n" + out[-3000:]))
                rep.say("harness build FAILED:\n" + out[-1500:])
                return None
    return bdir


LIB_DIRS = [".", "faststats", "closers/hystrix", "closers/simplelogic", "metrics/rolling", "metrics/responsetimeslo"]


def make_overlay(bdir):
    """Generate, from /repo's CURRENT sources, the overlay that maps the library's sync/atomic and
    sync imports to the instrumented drop-ins and adds the virtual package /repo/verifsched."""
    ov = os.path.join(bdir, "ov")
    os.makedirs(ov, exist_ok=True)
    repl = {}
    for d in LIB_DIRS:
        full = os.path.join(REPO, d)
        for fn in sorted(os.listdir(full)):
            if not fn.endswith(".go") or fn.endswith("_test.go"):
                continue
            src = open(os.path.join(full, fn)).read()
            new = re.sub(r'(?m)^(\s*)"sync/atomic"\s*$', r'\1atomic "github.com/cep21/circuit/v4/verifsched"', src)
            new = re.sub(r'(?m)^(\s*)"sync"\s*$', r'\1sync "github.com/cep21/circuit/v4/verifsched"', new)
            if new != src:
                dst = os.path.join(ov, ("root" if d == "." else d.replace("/", "_")) + "__" + fn)
                open(dst, "w").write(new)
                repl[os.path.normpath(os.path.join(full, fn))] = dst
    for fn in os.listdir(os.path.join(HARNESS, "overlay", "verifsched")):
        repl[os.path.join(REPO, "verifsched", fn)] = os.path.join(HARNESS, "overlay", "verifsched", fn)
    path = os.path.join(bdir, "overlay.json")
    json.dump({"Replace": repl}, open(path, "w"), indent=1)
    return path, sorted(os.path.relpath(k, REPO) for k in repl)


def build_schedrun(rep, pid, tier):
    bdir = os.path.join(HARNESS, ".build", "%s-%s%s-l2" % (pid, tier, TAG))
    shutil.rmtree(bdir, ignore_errors=True)
    os.makedirs(bdir)
    ovpath, files = make_overlay(bdir)
    with Lock(os.path.join(HARNESS, ".lock")):
        if REPO == "/repo":
            shutil.copy(os.path.join(REPO, "go.sum"), os.path.join(HARNESS, "go.sum"))
        rc, out = run(["go", "build"] + modfile_args(bdir) + ["-overlay", ovpath, "-o", os.path.join(bdir, "schedrun"), "./cmd/schedrun"], cwd=HARNESS, env=GOENV, timeout=900)
    if rc != 0:
        rep.broken.append(("correspondence", "level-2 harness does not build against /repo's working tree (overlay):\n" + out[-3000:]))
        rep.say("schedrun build FAILED:\n" + out[-1500:])
        return None
    return bdir


def schedrun_tie(rep, bdir, gdir, scenario, n, shards, clause_prefixes=None):
    """Run scheduled executions of the real code, replay every trace on the level-2 model."""
    exe = os.path.join(bdir, "schedrun")

    def one(sh):
        js = os.path.join(gdir, "l2_%s_%d.json" % (scenario, sh))
        vf = os.path.join(gdir, "l2_%s_%d.v" % (scenario, sh))
        exh = ["-maxexh", "450", "-exh", "2"] if rep.tier == "quick" else ["-maxexh", "3000", "-exh", "3"]
        rc, out = run([exe, scenario, "gen", "-seed", str(rep.seed), "-tier", rep.tier, "-n", str(n), "-shard", str(sh), "-out", js] + exh, timeout=1800)
        if rc != 0:
            return (js, None, "schedrun gen failed: " + out[-2000:])
        ok, ids, text = emit_and_eval(exe, scenario, js)
        if not ok:
            return (js, None, "emit / coqc failed on generated traces: " + str(text)[-2000:])
        return (js, ids, text)

    with ThreadPoolExecutor(max_workers=min(shards, 8)) as ex:
        results = list(ex.map(one, range(shards)))
    seen = set()
    for js, ids, text in results:
        if ids is None:
            rep.broken.append(("correspondence", "L2 %s: %s" % (scenario, text)))
            rep.say("L2 tie %s: BROKEN: %s" % (scenario, text[-800:]))
            continue
        f = json.load(open(js))
        for k, v in f.get("distribution", {}).items():
            key = "L2:%s/%s" % (scenario, k)
            rep.cov["distribution"][key] = rep.cov["distribution"].get(key, 0) + v
        for k, v in (f.get("exhaustive_spaces") or {}).items():
            rep.cov.setdefault("exhaustive_instances", {})["%s/%s" % (scenario, k)] = v
        byid = {c["id"]: c for c in f["cases"]}
        rep.cov["evaluations"] += len(f["cases"])
        rep.cov["traces_validated_against_impl"] += len(f["cases"]) - len(ids)
        rep.cov["transitions"] = rep.cov.get("transitions", 0) + sum(len(c.get("trace") or []) for c in f["cases"])
        for c in f["cases"]:
            if len(c.get("trace") or []) > 1:
                seen.add(json.dumps([c["params"], c["trace"]], sort_keys=True))
            for v in c.get("violations") or []:
                mm = re.match(r"(C\d\d):", v["clause"])
                if mm and mm.group(1) != rep.pid:
                    continue
                rep.violations.append({"kind": "monitor", "family": "L2:" + scenario, "clause": v["clause"], "detail": v["detail"],
                                       "case": {k: c[k] for k in ("params", "schedule", "policy", "trace")}, "seed": f["seed"]})
        for i in ids:
            rep.broken.append(("correspondence", "L2 %s case %d: model trace and implementation trace differ" % (scenario, i)))
            rep.mismatch_cases = getattr(rep, "mismatch_cases", []) + [{"family": "L2:" + scenario, "case": byid.get(i), "model": text[:3000]}]
        if f["cases"] and len(rep.cov["samples"]) < 4:
            c = f["cases"][min(len(f["cases"]) - 1, 5)]
            rep.cov["samples"].append({"L2_scenario": scenario, "params": c["params"], "policy": c["policy"], "trace": c["trace"][:14]})
    rep.cov["distinct_nontrivial"] += len(seen)
    rep.cov["ties"].append("L2:" + scenario)


def gen_dir(pid, tier):
    d = os.path.join(COQ, "gen", "%s-%s%s" % (pid, tier, TAG))
    shutil.rmtree(d, ignore_errors=True)
    os.makedirs(d)
    return d


CHUNK = 600    # cases per generated .v file (evaluated in parallel); evaluation time per case also grows with the size of the list literal


def emit_and_eval(exe, name, js):
    """Emit the cases of a harness file as Coq (in chunks of CHUNK cases) and evaluate every chunk.
    Returns (ok, mismatching ids, text) like coq_eval_cases."""
    f = json.load(open(js))
    cases = f["cases"]
    if len(cases) <= CHUNK:
        vf = js[:-5] + ".v"
        rc, out = run([exe, name, "emit", "-in", js, "-out", vf], timeout=600)
        if rc != 0:
            return False, None, "harness emit failed: " + out[-2000:]
        return coq_eval_cases(vf)
    parts = []
    for k in range(0, len(cases), CHUNK):
        pj = "%s.part%d.json" % (js[:-5], k // CHUNK)
        g = dict(f)
        g["cases"] = cases[k:k + CHUNK]
        json.dump(g, open(pj, "w"))
        parts.append(pj)

    def one(pj):
        vf = pj[:-5].replace(".", "_") + ".v"
        rc, out = run([exe, name, "emit", "-in", pj, "-out", vf], timeout=600)
        if rc != 0:
            return False, None, "harness emit failed: " + out[-2000:]
        return coq_eval_cases(vf)
    with ThreadPoolExecutor(max_workers=(6 if len(cases) < 8000 else 4)) as ex:   # thorough shards run 8 of these side by side
        res = list(ex.map(one, parts))
    ids, texts = [], []
    for ok, i, t in res:
        if not ok:
            return False, None, t
        ids += i
        if i:
            texts.append(t)
    return True, ids, "\n".join(texts) if texts else (res[0][2] if res else "")


def coq_eval_cases(vfile, timeout=3000):
    """Compile a generated cases file; return (ok, mismatching ids, raw text)."""
    rc, out = run(["coqc", "-noglob", "-Q", ".", "CV", "-w", "-notation-overridden,-abstract-large-number", os.path.relpath(vfile, COQ)], cwd=COQ, timeout=timeout)
    if rc != 0:
        return False, None, out
    m = re.search(r"result\s*=\s*(.*?)\n\s*:\s", out, re.S)
    if not m:
        return False, None, out
    body = m.group(1).strip()
    if "".join(body.split()) in ("[]", "([],[])"):
        return True, [], out
    ids = [int(x) for x in re.findall(r"\((\d+)%nat,", body)]
    return True, ids, body


def seqdiff_tie(rep, bdir, gdir, family, n, shards, label=None, extra_args=()):
    """Generate+execute histories on the implementation, evaluate the model in Coq.
    Returns list of (casefile_json_path, mismatch_ids, model_text)."""
    label = label or family
    exe = os.path.join(bdir, "seqdiff")
    results = []

    def one(sh):
        js = os.path.join(gdir, "%s_%d.json" % (label, sh))
        vf = os.path.join(gdir, "%s_%d.v" % (label, sh))
        rc, out = run([exe, family, "gen", "-seed", str(rep.seed), "-tier", rep.tier, "-n", str(n), "-shard", str(sh), "-out", js] + list(extra_args), timeout=1800)
        if rc != 0:
            return (js, None, "harness gen failed: " + out[-2000:])
        ok, ids, text = emit_and_eval(exe, family, js)
        if not ok:
            return (js, None, "emit / coqc failed on generated cases: " + str(text)[-2000:])
        return (js, ids, text)

    with ThreadPoolExecutor(max_workers=min(shards, 8)) as ex:
        results = list(ex.map(one, range(shards)))
    return results


def absorb_cases(rep, results, family, known_matcher=None, nontrivial_tags=None):
    """Fold the harness's case files into the report: counts, distribution,
    monitor violations, mismatches."""
    seen = set()
    for js, ids, text in results:
        if ids is None:
            rep.broken.append(("correspondence", "%s: %s" % (family, text)))
            rep.say("tie %s: BROKEN: %s" % (family, text[-800:]))
            continue
        f = json.load(open(js))
        for k, v in f.get("distribution", {}).items():
            rep.cov["distribution"]["%s/%s" % (family, k)] = rep.cov["distribution"].get("%s/%s" % (family, k), 0) + v
        byid = {c["id"]: c for c in f["cases"]}
        rep.cov["evaluations"] += len(f["cases"])
        rep.cov["traces_validated_against_impl"] += len(f["cases"]) - len(ids)
        for c in f["cases"]:
            h = json.dumps([c["params"], c["ops"], c.get("outs")], sort_keys=True)
            tags = c.get("tags") or []
            nontriv = True if nontrivial_tags is None else any(t in nontrivial_tags or t.split(":")[0] in nontrivial_tags for t in tags)
            if h not in seen and nontriv:
                seen.add(h)
            for v in c.get("violations") or []:
                mm = re.match(r"(C\d\d):", v["clause"])
                if mm and mm.group(1) != rep.pid:
                    continue      # another property's clause: that property's own check reports it
                kf = known_matcher(c, v) if known_matcher else None
                if kf:
                    if kf not in rep.known:
                        rep.known.append(kf)
                else:
                    rep.violations.append({"kind": "monitor", "family": family, "clause": v["clause"], "detail": v["detail"],
                                           "at_op": v.get("at_op"), "case": c, "seed": f["seed"]})
        for i in ids:
            rep.broken.append(("correspondence", "%s case %d: model and implementation differ" % (family, i)))
            rep.mismatch_cases = getattr(rep, "mismatch_cases", []) + [{"family": family, "case": byid.get(i), "model": text[:4000]}]
        if len(rep.cov["samples"]) < 3 and f["cases"]:
            c = f["cases"][min(len(f["cases"]) - 1, 7)]
            rep.cov["samples"].append({"family": family, "params": c["params"], "ops": c["ops"][:12], "observed": (c.get("outs") or [])[:12]})
    rep.cov["distinct_nontrivial"] += len(seen)
    rep.cov["ties"].append(family)


# ---------------------------------------------------------------- known findings
def load_known():
    p = os.path.join(VERIF, "KNOWN_FINDINGS.json")
    if not os.path.exists(p):
        return {"known": [], "fixed": []}
    return json.load(open(p))


# ---------------------------------------------------------------- reporting
def finish(rep, level="proof", level_assumptions=()):
    os.makedirs(os.path.join(OUT, "evidence"), exist_ok=True)
    os.makedirs(os.path.join(OUT, "replays"), exist_ok=True)
    exit_code = 0
    for k in rep.known:
        print("KNOWN-FINDING: property=%s %s" % (rep.pid, k))
    replay_path = None
    if rep.violations:
        v = rep.violations[0]
        replay_path = os.path.join(OUT, "replays", "%s-%s-%d.json" % (rep.pid, rep.tier, rep.seed))
        json.dump({"property": rep.pid, "kind": "monitor", "seed": rep.seed, "tier": rep.tier,
                   "family": v.get("family"), "clause": v["clause"], "detail": v["detail"], "at_op": v.get("at_op"),
                   "case": v.get("case"), "all_violations": [{k: x[k] for k in ("clause", "detail")} for x in rep.violations[:20]],
                   "broken": [b[0] + ": " + b[1][:500] for b in rep.broken[:5]]}, open(replay_path, "w"), indent=1)
        print("violated clause: %s (%s)" % (v["clause"], v["detail"]))
        print("VIOLATION property=%s replay=%s" % (rep.pid, replay_path))
        exit_code = 1
    elif rep.broken:
        replay_path = os.path.join(OUT, "replays", "%s-%s-%d.json" % (rep.pid, rep.tier, rep.seed))
        kind = rep.broken[0][0]
        json.dump({"property": rep.pid, "kind": kind, "seed": rep.seed, "tier": rep.tier,
                   "no_longer_checks": [{"what": b[0], "detail": b[1][:4000]} for b in rep.broken[:10]],
                   "mismatch_cases": getattr(rep, "mismatch_cases", [])[:3],
                   "note": "a proof obligation, the translation or the correspondence no longer checks and the monitors found no concrete failing input"},
                  open(replay_path, "w"), indent=1)
        for b in rep.broken[:5]:
            print("no longer checks [%s]: %s" % (b[0], b[1][:300].replace("\n", " | ")))
        print("VIOLATION property=%s replay=%s no-failing-input-found" % (rep.pid, replay_path))
        exit_code = 1
    cov = rep.cov
    if rep.broken and cov["discharged"] == cov["obligations"] and any(b[0] == "proof" for b in rep.broken):
        cov["discharged"] = 0
    cov["trusted_base"] = [
        "Coq 8.16.1 kernel incl. vm_compute (no native_compute)",
        "axioms: " + (", ".join(cov["axioms"]) if cov["axioms"] else "none (Closed under the global context)"),
        "Go harness (generators, monitors, canonicalisation) and the hand-written model's faithfulness, checked by the correspondence on this run's cases only",
    ] + list(cov.get("trusted_extra", []))
    ev = {"property_id": rep.pid, "tier": rep.tier, "seed": rep.seed, "level": level, "coverage": cov,
          "assumptions": list(level_assumptions) + rep.assumptions, "wall_s": round(time.time() - rep.t0, 2),
          "violations": len(rep.violations) + (1 if (rep.broken and not rep.violations) else 0),
          "known_findings": rep.known}
    if not cov["samples"]:
        cov["samples"] = [{"theorems": cov["theorems"][:10]}]
    if cov["evaluations"] == 0:
        cov.pop("evaluations")
        cov.pop("distinct_nontrivial")
    json.dump(ev, open(os.path.join(OUT, "evidence", "%s.json" % rep.pid), "w"), indent=1)
    print("%s %s: %s in %.1fs (obligations %d/%d, cases %s, distinct non-trivial %s)" % (
        rep.pid, rep.tier, "OK" if exit_code == 0 else "FAILED", time.time() - rep.t0, cov["discharged"], cov["obligations"],
        cov.get("evaluations", 0), cov.get("distinct_nontrivial", 0)))
    if exit_code == 0:
        # scratch of a clean run is not needed again (the thorough tier leaves about 1 GB per property);
        # after a violation it stays, next to the replay file, until the next run of the same check
        for d in glob.glob(os.path.join(COQ, "gen", "%s-%s%s*" % (rep.pid, rep.tier, TAG))):
            if TAG or not os.path.basename(d)[len("%s-%s" % (rep.pid, rep.tier)):].startswith("-seeded"):
                shutil.rmtree(d, ignore_errors=True)
    return exit_code
