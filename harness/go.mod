module verifharness

go 1.21

require github.com/cep21/circuit/v4 v4.0.0

replace github.com/cep21/circuit/v4 => /repo
