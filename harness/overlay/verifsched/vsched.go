// Package verifsched is mapped by `go build -overlay` into the library's module
// (github.com/cep21/circuit/v4/verifsched): drop-in replacements for
// sync/atomic.Int64/Bool and sync.Mutex/RWMutex that perform the real operation
// but, for goroutines registered with a cooperative scheduler, first park at
// operations on NAMED locations so that exactly one registered thread runs at a
// time and the interleaving of those operations is chosen by a schedule.
// It exists only in the overlay generated at check time; nothing of it is in /repo.
package verifsched

import (
	"bytes"
	"runtime"
	"strconv"
	gosync "sync"
	goatomic "sync/atomic"
	"unsafe"
)

// Op is one visible step of a thread.
type Op struct {
	Tid  int
	Kind string // load store add swap cas lock unlock rlock runlock mark
	Loc  string
	Arg  int64
	Arg2 int64
	Res  int64
}

type thread struct {
	id      int
	resume  chan struct{}
	done    bool
	parked  bool
	next    Op
	waitMu  unsafe.Pointer // mutex this thread is blocked on (nil: none)
	waitR   bool           // blocked wanting a read lock
	visible bool
}

type mstate struct {
	writer  int // tid+1 of the holder, 0 = none; -1 = held by an unregistered goroutine
	readers int
}

// Sched is one scheduled execution.
type Sched struct {
	mu      gosync.Mutex
	byGid   map[int64]*thread
	threads []*thread
	events  chan *thread
	names   map[unsafe.Pointer]string
	mutexes map[unsafe.Pointer]*mstate
	Trace   []Op
	Choices []int // tid chosen at every decision
	Dead    bool  // live threads remained but none was enabled
}

var active goatomic.Pointer[Sched]

func gid() int64 {
	var buf [64]byte
	n := runtime.Stack(buf[:], false)
	b := buf[len("goroutine "):n]
	i := bytes.IndexByte(b, ' ')
	id, _ := strconv.ParseInt(string(b[:i]), 10, 64)
	return id
}

func current() (*Sched, *thread) {
	s := active.Load()
	if s == nil {
		return nil, nil
	}
	s.mu.Lock()
	t := s.byGid[gid()]
	s.mu.Unlock()
	if t == nil {
		return nil, nil
	}
	return s, t
}

// New creates a scheduler; Name registers the visible locations before Run.
func New() *Sched {
	return &Sched{byGid: map[int64]*thread{}, names: map[unsafe.Pointer]string{}, mutexes: map[unsafe.Pointer]*mstate{}}
}

// Name makes the location at p visible under the given name.
func (s *Sched) Name(p unsafe.Pointer, name string) { s.names[p] = name }

// yield parks the calling registered thread before a visible operation.
func (s *Sched) yield(t *thread, op Op) {
	t.next = op
	t.parked = true
	t.visible = true
	s.events <- t
	<-t.resume
}

func (s *Sched) record(t *thread, res int64) {
	op := t.next
	op.Res = res
	s.Trace = append(s.Trace, op)
}

// Mark is a harness-level visible step (entering/leaving a user callback, a notification...).
func Mark(name string, arg int64) {
	if s, t := current(); s != nil {
		s.yield(t, Op{Tid: t.id, Kind: "mark", Loc: name, Arg: arg})
		s.record(t, 0)
	}
}

// Pause is a scheduling point that leaves no trace: the thread parks and the schedule decides who moves
// next, but nothing is recorded (the model has no step for it).  Harness callbacks use it to open the
// window between two of the library's own steps to other threads.
func Pause() {
	if s, t := current(); s != nil {
		s.yield(t, Op{Tid: t.id, Kind: "pause"})
	}
}

// Run executes the bodies as registered threads; pick chooses among the enabled thread ids.
func (s *Sched) Run(bodies []func(), pick func(enabled []int, step int) int) {
	s.events = make(chan *thread, len(bodies)+1)
	active.Store(s)
	defer active.Store(nil)
	for i, body := range bodies {
		t := &thread{id: i, resume: make(chan struct{})}
		s.threads = append(s.threads, t)
		body := body
		started := make(chan struct{})
		go func() {
			s.mu.Lock()
			s.byGid[gid()] = t
			s.mu.Unlock()
			close(started)
			// park before doing anything
			t.next = Op{Tid: t.id, Kind: "start"}
			t.parked = true
			s.events <- t
			<-t.resume
			func() {
				defer func() { _ = recover() }() // a thread body that panics just ends
				body()
			}()
			t.done = true
			t.parked = false
			s.events <- t
		}()
		<-started
		<-s.events
	}
	for step := 0; ; step++ {
		var enabled []int
		live := 0
		for _, t := range s.threads {
			if t.done {
				continue
			}
			live++
			if t.parked && s.canRun(t) {
				enabled = append(enabled, t.id)
			}
		}
		if len(enabled) == 0 {
			s.Dead = live > 0
			return
		}
		c := pick(enabled, step)
		s.Choices = append(s.Choices, c)
		t := s.threads[c]
		t.parked = false
		t.resume <- struct{}{}
		<-s.events
	}
}

func (s *Sched) canRun(t *thread) bool {
	if t.waitMu == nil {
		return true
	}
	m := s.mutexes[t.waitMu]
	if m == nil {
		return true
	}
	if t.waitR {
		return m.writer == 0
	}
	return m.writer == 0 && m.readers == 0
}

func (s *Sched) mu_(p unsafe.Pointer) *mstate {
	m := s.mutexes[p]
	if m == nil {
		m = &mstate{}
		s.mutexes[p] = m
	}
	return m
}

// acquire implements Lock/RLock for a registered thread: a visible mutex yields first;
// any mutex held by another registered thread blocks the caller until it is free.
func (s *Sched) acquire(t *thread, p unsafe.Pointer, read bool) {
	name, vis := s.names[p]
	kind := "lock"
	if read {
		kind = "rlock"
	}
	m := s.mu_(p)
	free := func() bool {
		if read {
			return m.writer == 0
		}
		return m.writer == 0 && m.readers == 0
	}
	if vis || !free() {
		t.waitMu, t.waitR = p, read
		op := Op{Tid: t.id, Kind: kind, Loc: name}
		t.next = op
		t.parked = true
		t.visible = vis
		s.events <- t
		<-t.resume
		t.waitMu = nil
	}
	if read {
		m.readers++
	} else {
		m.writer = t.id + 1
	}
	if vis {
		s.record(t, 0)
	}
}

func (s *Sched) release(t *thread, p unsafe.Pointer, read bool) {
	name, vis := s.names[p]
	kind := "unlock"
	if read {
		kind = "runlock"
	}
	if vis {
		s.yield(t, Op{Tid: t.id, Kind: kind, Loc: name})
	}
	m := s.mu_(p)
	if read {
		m.readers--
	} else {
		m.writer = 0
	}
	if vis {
		s.record(t, 0)
	}
}

// ---------------------------------------------------------------- atomics
type Int64 struct{ v goatomic.Int64 }

func (a *Int64) vis(kind string, arg, arg2 int64) (*Sched, *thread) {
	s, t := current()
	if s == nil {
		return nil, nil
	}
	name, ok := s.names[unsafe.Pointer(a)]
	if !ok {
		return nil, nil
	}
	s.yield(t, Op{Tid: t.id, Kind: kind, Loc: name, Arg: arg, Arg2: arg2})
	return s, t
}

func (a *Int64) Load() int64 {
	s, t := a.vis("load", 0, 0)
	r := a.v.Load()
	if s != nil {
		s.record(t, r)
	}
	return r
}
func (a *Int64) Store(x int64) {
	s, t := a.vis("store", x, 0)
	a.v.Store(x)
	if s != nil {
		s.record(t, 0)
	}
}
func (a *Int64) Add(d int64) int64 {
	s, t := a.vis("add", d, 0)
	r := a.v.Add(d)
	if s != nil {
		s.record(t, r)
	}
	return r
}
func (a *Int64) Swap(x int64) int64 {
	s, t := a.vis("swap", x, 0)
	r := a.v.Swap(x)
	if s != nil {
		s.record(t, r)
	}
	return r
}
func (a *Int64) CompareAndSwap(o, n int64) bool {
	s, t := a.vis("cas", o, n)
	r := a.v.CompareAndSwap(o, n)
	if s != nil {
		if r {
			s.record(t, 1)
		} else {
			s.record(t, 0)
		}
	}
	return r
}

type Bool struct{ v goatomic.Bool }

func b2i(b bool) int64 {
	if b {
		return 1
	}
	return 0
}

func (a *Bool) vis(kind string, arg int64) (*Sched, *thread) {
	s, t := current()
	if s == nil {
		return nil, nil
	}
	name, ok := s.names[unsafe.Pointer(a)]
	if !ok {
		return nil, nil
	}
	s.yield(t, Op{Tid: t.id, Kind: kind, Loc: name, Arg: arg})
	return s, t
}
// Peek reads the value without a scheduling point and without a trace entry (harness monitors only).
func (a *Bool) Peek() bool { return a.v.Load() }

func (a *Bool) Load() bool {
	s, t := a.vis("load", 0)
	r := a.v.Load()
	if s != nil {
		s.record(t, b2i(r))
	}
	return r
}
func (a *Bool) Store(x bool) {
	s, t := a.vis("store", b2i(x))
	a.v.Store(x)
	if s != nil {
		s.record(t, 0)
	}
}
func (a *Bool) Swap(x bool) bool           { return a.v.Swap(x) }
func (a *Bool) CompareAndSwap(o, n bool) bool { return a.v.CompareAndSwap(o, n) }

// ---------------------------------------------------------------- mutexes
type Mutex struct{ m gosync.Mutex }

func (m *Mutex) Lock() {
	if s, t := current(); s != nil {
		s.acquire(t, unsafe.Pointer(m), false)
	}
	m.m.Lock()
}
func (m *Mutex) Unlock() {
	m.m.Unlock()
	if s, t := current(); s != nil {
		s.release(t, unsafe.Pointer(m), false)
	}
}
func (m *Mutex) TryLock() bool { return m.m.TryLock() }

type RWMutex struct{ m gosync.RWMutex }

func (m *RWMutex) Lock() {
	if s, t := current(); s != nil {
		s.acquire(t, unsafe.Pointer(m), false)
	}
	m.m.Lock()
}
func (m *RWMutex) Unlock() {
	m.m.Unlock()
	if s, t := current(); s != nil {
		s.release(t, unsafe.Pointer(m), false)
	}
}
func (m *RWMutex) RLock() {
	if s, t := current(); s != nil {
		s.acquire(t, unsafe.Pointer(m), true)
	}
	m.m.RLock()
}
func (m *RWMutex) RUnlock() {
	m.m.RUnlock()
	if s, t := current(); s != nil {
		s.release(t, unsafe.Pointer(m), true)
	}
}

// the rest of package sync that the library's files mention
type Once = gosync.Once
type WaitGroup = gosync.WaitGroup
type Locker = gosync.Locker
