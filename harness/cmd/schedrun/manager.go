package main

// Scenario "manager": concurrent CreateCircuit / GetCircuit / AllCircuits on one
// circuit.Manager at the granularity of its RWMutex operations (property C17,
// the `schedules` quantifier).

import (
	"encoding/json"
	"expvar"
	"fmt"
	"math/rand"
	"reflect"
	"strings"
	"unsafe"

	"github.com/cep21/circuit/v4"
	"github.com/cep21/circuit/v4/verifsched"
)

type mThread struct {
	Op   string `json:"op"` // create get all
	Name int    `json:"name"`
}

type managerParams struct {
	Threads []mThread `json:"threads"`
}

type managerInst struct {
	p       managerParams
	m       *circuit.Manager
	created int
	results []int64
}

type managerScenario struct{}

func init() {
	scenarios["manager"] = managerScenario{}
	paramLoaders["manager"] = func(b []byte) Instance {
		var p managerParams
		must(json.Unmarshal(b, &p))
		return &managerInst{p: p}
	}
}

func (g *managerInst) Params() interface{} { return g.p }

func (g *managerInst) Build(s *verifsched.Sched) []func() {
	g.created = 0
	g.m = &circuit.Manager{}
	// the only constructor stamps the creation order into the circuit's configuration; it runs inside the
	// critical section of a create (and, on a correct tree, only of a successful one)
	g.m.DefaultCircuitProperties = []circuit.CommandPropertiesConstructor{func(string) circuit.Config {
		var cfg circuit.Config
		cfg.Execution.MaxConcurrentRequests = int64(1000 + g.created)
		g.created++
		return cfg
	}}
	v := reflect.ValueOf(g.m).Elem()
	s.Name(unsafe.Pointer(fieldAddr(v, "mu")), "Mmu")
	g.results = make([]int64, len(g.p.Threads))
	idOf := func(c *circuit.Circuit) int64 {
		if c == nil {
			return 0
		}
		return c.Config().Execution.MaxConcurrentRequests - 1000 + 1
	}
	var bodies []func()
	for i, t := range g.p.Threads {
		i, t := i, t
		bodies = append(bodies, func() {
			r := int64(0)
			switch t.Op {
			case "create":
				c, err := g.m.CreateCircuit(fmt.Sprint(t.Name))
				if err == nil {
					r = idOf(c)
				}
			case "get":
				r = idOf(g.m.GetCircuit(fmt.Sprint(t.Name)))
			case "all":
				r = int64(len(g.m.AllCircuits()))
			case "var":
				// the expvar view: evaluated under the manager's read lock; one entry per circuit
				if mm, ok := g.m.Var().(expvar.Func).Value().(map[string]interface{}); ok {
					r = int64(len(mm))
				}
			}
			g.results[i] = r
			verifsched.Mark("Mdone", r)
		})
	}
	return bodies
}

func (g *managerInst) Init() (string, string) {
	var ops []string
	for _, t := range g.p.Threads {
		switch t.Op {
		case "create":
			ops = append(ops, fmt.Sprintf("MCreate %d%%nat []", t.Name))
		case "get":
			ops = append(ops, fmt.Sprintf("MGet %d%%nat", t.Name))
		case "all", "var":
			ops = append(ops, "MAll") // Var is, like AllCircuits, one read-locked pass over the map
		}
	}
	// the default constructor only stamps the creation order: irrelevant to the modelled settings
	return "[CtorStatic mc_zero]", "[" + strings.Join(ops, "; ") + "]"
}

func (g *managerInst) Lab(op verifsched.Op) string { return atomicLab(op.Loc, op) }

func (g *managerInst) Check(s *verifsched.Sched, c *Case) {
	if s.Dead {
		return
	}
	okByName := map[int]int{}
	creates := map[int]int{}
	for i, t := range g.p.Threads {
		if t.Op == "create" {
			creates[t.Name]++
			if g.results[i] > 0 {
				okByName[t.Name]++
			}
		}
	}
	for name, n := range creates {
		if okByName[name] != 1 {
			c.Viol = append(c.Viol, Violation{"C17: for concurrent CreateCircuit calls with one name exactly one succeeds", fmt.Sprintf("name %d: %d of %d succeeded", name, okByName[name], n)})
		}
		if n > 1 {
			c.Tags = append(c.Tags, "racing_creates")
		}
	}
	if got := len(g.m.AllCircuits()); got != len(creates) {
		c.Viol = append(c.Viol, Violation{"C17: AllCircuits holds exactly the successfully created circuits", fmt.Sprintf("%d circuits for %d names", got, len(creates))})
	}
	c.Tags = append(c.Tags, fmt.Sprintf("threads:%d", len(g.p.Threads)))
}

func (managerScenario) Corpus() []Instance {
	return []Instance{
		&managerInst{p: managerParams{Threads: []mThread{{"create", 1}, {"create", 1}}}},
		&managerInst{p: managerParams{Threads: []mThread{{"create", 1}, {"get", 1}, {"create", 1}, {"all", 0}}}},
		&managerInst{p: managerParams{Threads: []mThread{{"create", 1}, {"var", 0}, {"create", 2}}}},
	}
}

func (managerScenario) Draw(r *rand.Rand, i int, tier string) Instance {
	var p managerParams
	n := 2 + r.Intn(3)
	for k := 0; k < n; k++ {
		op := []string{"create", "create", "create", "get", "all", "var"}[r.Intn(6)]
		p.Threads = append(p.Threads, mThread{op, r.Intn(2)})
	}
	return &managerInst{p: p}
}

func (managerScenario) CoqImports() string {
	return "From CV Require Import Base.Prelude Conc.Sched Conc.Serial Seq.Manager Conc.ManagerConc."
}
func (managerScenario) CoqCaseType() string { return "mgrc_case" }
func (managerScenario) CoqCheck() string    { return "mgrc_mismatches" }
func (managerScenario) Exhaustive(inst Instance) bool {
	g := inst.(*managerInst)
	return len(g.p.Threads) <= 3
}
