package main

// Scenario "counter": concurrent Inc / RollingSumAt / GetBuckets / Reset on one
// faststats.RollingCounter at the granularity of its individual atomic
// operations (property C14).

import (
	"encoding/json"
	"fmt"
	"math/rand"
	"reflect"
	"strings"
	"time"

	"github.com/cep21/circuit/v4/faststats"
	"github.com/cep21/circuit/v4/verifsched"
)

type cThread struct {
	Op  string `json:"op"`  // inc sum buckets reset
	Off int64  `json:"off"` // stamp, ns after the counter's start (negative: before the start)
}

type counterParams struct {
	N       int       `json:"n"`
	W       int64     `json:"w"`
	Pre     []int64   `json:"pre"` // stamps of Incs made before the threads start
	Threads []cThread `json:"threads"`
}

type counterInst struct {
	p       counterParams
	ctr     *faststats.RollingCounter
	start   time.Time
	init    jsonCounter
	results []int64
}

type jsonCounter struct {
	Buckets       []int64
	RollingSum    int64
	TotalSum      int64
	RollingBucket struct{ LastAbsIndex int64 }
}

type counterScenario struct{}

func init() {
	scenarios["counter"] = counterScenario{}
	paramLoaders["counter"] = func(b []byte) Instance {
		var p counterParams
		must(json.Unmarshal(b, &p))
		return &counterInst{p: p}
	}
}

func (g *counterInst) Params() interface{} { return g.p }

func snapshotCounter(c *faststats.RollingCounter) jsonCounter {
	b, err := json.Marshal(c)
	must(err)
	var j jsonCounter
	must(json.Unmarshal(b, &j))
	return j
}

func (g *counterInst) Build(s *verifsched.Sched) []func() {
	g.start = time.Date(2200, 1, 1, 0, 0, 0, 0, time.UTC)
	ctr := faststats.NewRollingCounter(time.Duration(g.p.W), g.p.N, g.start)
	g.ctr = &ctr
	for _, off := range g.p.Pre {
		g.ctr.Inc(g.start.Add(time.Duration(off)))
	}
	g.init = snapshotCounter(g.ctr)
	v := reflect.ValueOf(g.ctr).Elem()
	s.Name(fieldAddr(v, "rollingSum"), "Lrsum")
	s.Name(fieldAddr(v, "totalSum"), "Ltsum")
	s.Name(fieldAddr(v, "rollingBucket", "LastAbsIndex"), "Llast")
	bk := v.FieldByName("buckets")
	for j := 0; j < bk.Len(); j++ {
		s.Name(fieldAddr(bk.Index(j)), fmt.Sprintf("(Lslot %d)", j))
	}
	g.results = make([]int64, len(g.p.Threads))
	var bodies []func()
	for i, t := range g.p.Threads {
		i, t := i, t
		at := g.start.Add(time.Duration(t.Off))
		bodies = append(bodies, func() {
			r := int64(0)
			switch t.Op {
			case "inc":
				g.ctr.Inc(at)
			case "sum":
				r = g.ctr.RollingSumAt(at)
			case "buckets":
				_ = g.ctr.GetBuckets(at)
			case "reset":
				g.ctr.Reset(at)
			}
			g.results[i] = r
			verifsched.Mark("Mdone", r)
		})
	}
	return bodies
}

func (g *counterInst) absOf(off int64) (int64, bool) {
	if off < 0 {
		return 0, false
	}
	return off / g.p.W, true
}

func (g *counterInst) Init() (string, string) {
	var sl []string
	for _, b := range g.init.Buckets {
		sl = append(sl, zc(b))
	}
	sh := fmt.Sprintf("(%d, cinit %s [%s] %s %s)", g.p.N, zc(g.init.RollingBucket.LastAbsIndex), strings.Join(sl, "; "), zc(g.init.RollingSum), zc(g.init.TotalSum))
	var pool []string
	for _, t := range g.p.Threads {
		op := map[string]string{"inc": "CInc", "sum": "CSum", "buckets": "CBuckets", "reset": "CReset"}[t.Op]
		a := "None"
		if x, ok := g.absOf(t.Off); ok {
			a = fmt.Sprintf("(Some %d)", x)
		}
		pool = append(pool, fmt.Sprintf("thread0 %s %s", op, a))
	}
	return sh, "[" + strings.Join(pool, "; ") + "]"
}

func (g *counterInst) Lab(op verifsched.Op) string { return atomicLab(op.Loc, op) }

func (g *counterInst) Check(s *verifsched.Sched, c *Case) {
	if s.Dead {
		return
	}
	fin := snapshotCounter(g.ctr)
	incs, resets := int64(0), 0
	maxReq := g.init.RollingBucket.LastAbsIndex
	rolls := false
	inWindow := int64(0)
	for _, t := range g.p.Threads {
		a, ok := g.absOf(t.Off)
		if ok && a > maxReq {
			maxReq = a
		}
		if ok && a > g.init.RollingBucket.LastAbsIndex {
			rolls = true
		}
		switch t.Op {
		case "inc":
			incs++
			if ok && g.init.RollingBucket.LastAbsIndex-a < int64(g.p.N) {
				inWindow++
			}
		case "reset":
			resets++
		}
	}
	if fin.TotalSum != g.init.TotalSum+incs {
		c.Viol = append(c.Viol, Violation{"C14: once all operations have returned TotalSum equals the number of Inc calls", fmt.Sprintf("TotalSum %d, want %d", fin.TotalSum, g.init.TotalSum+incs)})
	}
	sum := int64(0)
	for _, b := range fin.Buckets {
		sum += b
		if b < 0 {
			c.Viol = append(c.Viol, Violation{"C14: the rolling sum lies between 0 and the number of Inc calls", fmt.Sprintf("negative bucket %d", b)})
		}
	}
	if fin.RollingSum != sum {
		c.Viol = append(c.Viol, Violation{"C14: once all operations have returned the rolling sum equals the sum of the buckets", fmt.Sprintf("rollingSum %d, buckets sum %d", fin.RollingSum, sum)})
	}
	if fin.RollingSum < 0 || fin.RollingSum > fin.TotalSum {
		c.Viol = append(c.Viol, Violation{"C14: the rolling sum lies between 0 and the number of Inc calls", fmt.Sprintf("rollingSum %d of %d", fin.RollingSum, fin.TotalSum)})
	}
	if fin.RollingBucket.LastAbsIndex != maxReq {
		c.Viol = append(c.Viol, Violation{"C14: a RollingBuckets ring's newest index equals the largest index requested", fmt.Sprintf("LastAbsIndex %d, largest requested %d", fin.RollingBucket.LastAbsIndex, maxReq)})
	}
	if !rolls && resets == 0 {
		c.Tags = append(c.Tags, "static_window")
		if fin.RollingSum != g.init.RollingSum+inWindow {
			c.Viol = append(c.Viol, Violation{"C14: when no operation has to roll the window the rolling sum equals the number of in-window Inc calls exactly", fmt.Sprintf("rollingSum %d, want %d", fin.RollingSum, g.init.RollingSum+inWindow)})
		}
	} else if rolls {
		c.Tags = append(c.Tags, "rolls")
	}
	casFail := false
	for _, op := range s.Trace {
		if op.Kind == "cas" && op.Res == 0 {
			casFail = true
		}
	}
	if casFail {
		c.Tags = append(c.Tags, "cas_failed")
	}
	c.Tags = append(c.Tags, fmt.Sprintf("threads:%d", len(g.p.Threads)))
}

func (counterScenario) Corpus() []Instance {
	s := int64(time.Second)
	return []Instance{
		// two Incs in the same bucket
		&counterInst{p: counterParams{N: 3, W: s, Threads: []cThread{{"inc", 0}, {"inc", 1}}}},
		// adjacent buckets: racing roll-over
		&counterInst{p: counterParams{N: 3, W: s, Pre: []int64{0, 0}, Threads: []cThread{{"inc", s}, {"inc", s + 1}}}},
		// a whole window apart, with a reader
		&counterInst{p: counterParams{N: 2, W: s, Pre: []int64{0, s}, Threads: []cThread{{"inc", 5 * s}, {"sum", s}, {"inc", 4 * s}}}},
		// reset racing an inc and a stale / pre-start stamp
		&counterInst{p: counterParams{N: 2, W: s, Pre: []int64{0}, Threads: []cThread{{"reset", s}, {"inc", 0}, {"inc", -5}}}},
		// an Inc between its two adds while its slot is emptied (Reset) and the sum, negative for that moment, is read
		&counterInst{p: counterParams{N: 2, W: s, Threads: []cThread{{"inc", 0}, {"reset", 0}, {"sum", 0}}}},
		// the same with the slot emptied by a roll-over (a reader one whole window ahead) and a second reader
		&counterInst{p: counterParams{N: 1, W: s, Threads: []cThread{{"inc", 0}, {"sum", 2 * s}, {"buckets", 2 * s}}}},
	}
}

func (counterScenario) Draw(r *rand.Rand, i int, tier string) Instance {
	s := int64(time.Second)
	p := counterParams{N: []int{1, 2, 3, 4}[r.Intn(4)], W: s}
	for k := r.Intn(4); k > 0; k-- {
		p.Pre = append(p.Pre, int64(r.Intn(3))*s)
	}
	nt := 2 + r.Intn(3)
	base := int64(r.Intn(3))
	for k := 0; k < nt; k++ {
		op := []string{"inc", "inc", "inc", "sum", "buckets", "reset"}[r.Intn(6)]
		var off int64
		switch r.Intn(6) {
		case 0, 1:
			off = base * s // same bucket
		case 2:
			off = (base + 1) * s // adjacent
		case 3:
			off = (base + int64(p.N) + int64(r.Intn(2))) * s // a window apart
		case 4:
			off = (base - int64(r.Intn(p.N+1))) * s // older
		default:
			off = -1
		}
		p.Threads = append(p.Threads, cThread{op, off})
	}
	return &counterInst{p: p}
}

func (counterScenario) CoqImports() string  { return "From CV Require Import Conc.Sched Conc.CounterConc." }
func (counterScenario) CoqCaseType() string { return "counter_case" }
func (counterScenario) CoqCheck() string    { return "counter_mismatches" }
func (counterScenario) Exhaustive(inst Instance) bool {
	g := inst.(*counterInst)
	return len(g.p.Threads) == 2 && g.p.N <= 3
}
