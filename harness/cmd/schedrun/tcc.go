package main

// Scenario "tcc": concurrent Check / SleepStart / timer callbacks on one
// faststats.TimedCheck at the granularity of its atomic and mutex operations
// (property C16, level 2; also the first two sentences of C03).

import (
	"encoding/json"
	"fmt"
	"math/rand"
	"reflect"
	"strings"
	"time"
	"unsafe"

	"github.com/cep21/circuit/v4/faststats"
	"github.com/cep21/circuit/v4/verifsched"
)

type kThread struct {
	Kind string `json:"kind"` // check sleepstart callback
	Now  int64  `json:"now,omitempty"`
	K    int    `json:"k,omitempty"` // callback: index of the pre-registered timer
}

type tccParams struct {
	Sleep   int64     `json:"sleep"`
	Budget  int64     `json:"budget"`
	Pre     []kThread `json:"pre"` // sequential prelude: sleepstart / check / callback
	Threads []kThread `json:"threads"`
}

type tccInst struct {
	p       tccParams
	tc      *faststats.TimedCheck
	regs    []func()
	preRegs int
	init    struct {
		ff          bool
		ver         int64
		next, count int64
	}
	results []int64
}

type tccScenario struct{}

func init() {
	scenarios["tcc"] = tccScenario{}
	paramLoaders["tcc"] = func(b []byte) Instance {
		var p tccParams
		must(json.Unmarshal(b, &p))
		return &tccInst{p: p}
	}
}

var tccT0 = time.Date(2200, 1, 1, 0, 0, 0, 0, time.UTC)

func (g *tccInst) Params() interface{} { return g.p }

func (g *tccInst) Build(s *verifsched.Sched) []func() {
	g.tc = &faststats.TimedCheck{}
	g.regs = nil
	g.tc.TimeAfterFunc = func(d time.Duration, f func()) *time.Timer {
		g.regs = append(g.regs, f)
		verifsched.Mark("Mreg", int64(d))
		return nil
	}
	g.tc.SetSleepDuration(time.Duration(g.p.Sleep))
	g.tc.SetEventCountToAllow(g.p.Budget)
	for _, o := range g.p.Pre {
		switch o.Kind {
		case "sleepstart":
			g.tc.SleepStart(tccT0.Add(time.Duration(o.Now)))
		case "check":
			g.tc.Check(tccT0.Add(time.Duration(o.Now)))
		case "callback":
			if o.K < len(g.regs) {
				g.regs[o.K]()
			}
		}
	}
	g.preRegs = len(g.regs)
	v := reflect.ValueOf(g.tc).Elem()
	ffp := fieldAddr(v, "isFastFail")
	verp := fieldAddr(v, "isFailFastVersion")
	g.init.ff = (*faststats.AtomicBoolean)(ffp).Get()
	g.init.ver = (*faststats.AtomicInt64)(verp).Get()
	g.init.next = int64((*(*time.Time)(fieldAddr(v, "nextOpenTime"))).Sub(tccT0))
	g.init.count = *(*int64)(fieldAddr(v, "currentlyAllowedEventCount"))
	s.Name(ffp, "Lff")
	s.Name(verp, "Lver")
	s.Name(fieldAddr(v, "sleepDuration"), "Lsleep")
	s.Name(fieldAddr(v, "eventCountToAllow"), "Lbudget")
	s.Name(unsafe.Pointer(fieldAddr(v, "mu")), "Mmu")
	g.results = make([]int64, len(g.p.Threads))
	var bodies []func()
	for i, t := range g.p.Threads {
		i, t := i, t
		bodies = append(bodies, func() {
			r := int64(0)
			switch t.Kind {
			case "check":
				if g.tc.Check(tccT0.Add(time.Duration(t.Now))) {
					r = 1
				}
			case "sleepstart":
				g.tc.SleepStart(tccT0.Add(time.Duration(t.Now)))
			case "callback":
				if t.K < g.preRegs {
					g.regs[t.K]()
				}
			}
			g.results[i] = r
			verifsched.Mark("Mdone", r)
		})
	}
	return bodies
}

func (g *tccInst) Init() (string, string) {
	sh := fmt.Sprintf("kinit %v %s %s %s %s %s", g.init.ff, zc(g.init.ver), zc(g.p.Sleep), zc(g.p.Budget), zc(g.init.next), zc(g.init.count))
	var pool []string
	for _, t := range g.p.Threads {
		switch t.Kind {
		case "check":
			pool = append(pool, fmt.Sprintf("kthread0 (KCheck %s)", zc(t.Now)))
		case "sleepstart":
			pool = append(pool, fmt.Sprintf("kthread0 (KSleepStart %s)", zc(t.Now)))
		case "callback":
			// the k-th registration of the prelude captured version k+1
			pool = append(pool, fmt.Sprintf("kthread0 (KCallback %d)", t.K+1))
		}
	}
	return sh, "[" + strings.Join(pool, "; ") + "]"
}

func (g *tccInst) Lab(op verifsched.Op) string { return atomicLab(op.Loc, op) }

func (g *tccInst) Check(s *verifsched.Sched, c *Case) {
	deadline := g.init.next
	succ := g.init.count
	maxb := g.p.Budget
	if maxb < 1 {
		maxb = 1
	}
	for _, op := range s.Trace {
		t := g.p.Threads[op.Tid]
		switch {
		case op.Kind == "load" && op.Loc == "Lbudget":
			// this Check passed its write-locked test
			if t.Now < deadline {
				c.Viol = append(c.Viol, Violation{"C16: Check(now) is false for every now earlier than t plus the sleep duration, whenever the timer callback happens to fire", fmt.Sprintf("Check(%d) admitted, deadline %d", t.Now, deadline)})
			}
			succ++
			if succ > maxb {
				c.Viol = append(c.Viol, Violation{"C16: between two re-armings at most max(1, EventCountToAllow) checks succeed", fmt.Sprintf("%d successes, budget %d", succ, g.p.Budget)})
			}
			c.Tags = append(c.Tags, "admitted")
		case op.Kind == "load" && op.Loc == "Lsleep":
			deadline = t.Now + op.Res
			succ = 0
			c.Tags = append(c.Tags, "rearm")
		case op.Kind == "store" && op.Loc == "Lff" && op.Arg == 0:
			if t.Kind == "callback" && int64(t.K+1) != g.init.ver {
				c.Tags = append(c.Tags, "stale_callback_stored")
			}
		}
	}
	for i, t := range g.p.Threads {
		if t.Kind == "check" && g.results[i] == 1 {
			c.Tags = append(c.Tags, "check:true")
		}
	}
	c.Tags = append(c.Tags, fmt.Sprintf("threads:%d", len(g.p.Threads)))
}

func (tccScenario) Corpus() []Instance {
	return []Instance{
		// two checks racing for a budget of one after the callback fired
		&tccInst{p: tccParams{Sleep: 10, Budget: 1, Pre: []kThread{{Kind: "sleepstart", Now: 0}, {Kind: "callback", K: 0}}, Threads: []kThread{{Kind: "check", Now: 10}, {Kind: "check", Now: 11}}}},
		// a stale callback racing a newer re-arm and a check inside the new sleep
		&tccInst{p: tccParams{Sleep: 10, Budget: 1, Pre: []kThread{{Kind: "sleepstart", Now: 0}}, Threads: []kThread{{Kind: "callback", K: 0}, {Kind: "sleepstart", Now: 5}, {Kind: "check", Now: 12}}}},
		// budget two, out-of-order stamps (the shape of D3)
		&tccInst{p: tccParams{Sleep: 10, Budget: 2, Pre: []kThread{{Kind: "sleepstart", Now: 90}, {Kind: "callback", K: 0}}, Threads: []kThread{{Kind: "check", Now: 109}, {Kind: "check", Now: 100}, {Kind: "check", Now: 109}}}},
	}
}

func (tccScenario) Draw(r *rand.Rand, i int, tier string) Instance {
	p := tccParams{Sleep: []int64{0, 5, 10, 10, 100}[r.Intn(5)], Budget: []int64{-1, 0, 1, 1, 2, 3}[r.Intn(6)]}
	p.Pre = []kThread{{Kind: "sleepstart", Now: 0}}
	if r.Intn(3) != 0 {
		p.Pre = append(p.Pre, kThread{Kind: "callback", K: 0})
	}
	if r.Intn(4) == 0 {
		p.Pre = append(p.Pre, kThread{Kind: "sleepstart", Now: 3})
	}
	n := 2 + r.Intn(3)
	for k := 0; k < n; k++ {
		switch x := r.Intn(10); {
		case x < 6:
			p.Threads = append(p.Threads, kThread{Kind: "check", Now: []int64{p.Sleep - 1, p.Sleep, p.Sleep + 1, p.Sleep + 3, 2*p.Sleep + 3}[r.Intn(5)]})
		case x < 8:
			nreg := 0
			for _, o := range p.Pre {
				if o.Kind == "sleepstart" {
					nreg++
				}
			}
			p.Threads = append(p.Threads, kThread{Kind: "callback", K: r.Intn(nreg)})
		default:
			p.Threads = append(p.Threads, kThread{Kind: "sleepstart", Now: int64(r.Intn(8))})
		}
	}
	return &tccInst{p: p}
}

func (tccScenario) CoqImports() string  { return "From CV Require Import Conc.Sched Conc.TimedCheckConc." }
func (tccScenario) CoqCaseType() string { return "tcc_case" }
func (tccScenario) CoqCheck() string    { return "tcc_mismatches" }
func (tccScenario) Exhaustive(inst Instance) bool {
	g := inst.(*tccInst)
	return len(g.p.Threads) == 2
}
