package main

// Scenario "gauge": callers, a reconfiguration and a gauge reader racing on one
// circuit's concurrentCommands / concurrentFallbacks and their limits
// (properties C04, C10's gauge clause, C11's old-or-new clause).

import (
	"context"
	"encoding/json"
	"errors"
	"fmt"
	"math/rand"
	"reflect"
	"time"
	"unsafe"

	"github.com/cep21/circuit/v4"
	"github.com/cep21/circuit/v4/faststats"
	"github.com/cep21/circuit/v4/verifsched"
)

type gThread struct {
	Kind  string `json:"kind"` // caller setter reader
	Run   string `json:"run,omitempty"`
	Fb    string `json:"fb,omitempty"`
	Max   int64  `json:"max,omitempty"`
	FbMax int64  `json:"fbmax,omitempty"`
	FbDis bool   `json:"fbdis,omitempty"`
	Tmo   int64  `json:"tmo,omitempty"`
}

type gaugeParams struct {
	Tmo     int64     `json:"tmo"`
	Max     int64     `json:"max"`
	FbMax   int64     `json:"fbmax"`
	FbDis   bool      `json:"fbdis"`
	Threads []gThread `json:"threads"`
}

type gaugeInst struct {
	p        gaugeParams
	c        *circuit.Circuit
	inRun    int
	inFb     int
	maxRun   int
	maxFb    int
	results  []int64
	invoked  []bool
	forwarded *circuit.Config
}

type gaugeScenario struct{}

func init() {
	scenarios["gauge"] = gaugeScenario{}
	paramLoaders["gauge"] = func(b []byte) Instance {
		var p gaugeParams
		must(json.Unmarshal(b, &p))
		return &gaugeInst{p: p}
	}
}

func fieldAddr(v reflect.Value, path ...string) unsafe.Pointer {
	for _, f := range path {
		v = v.FieldByName(f)
	}
	return unsafe.Pointer(v.UnsafeAddr())
}

var errRun = errors.New("run failed")
var errFb = errors.New("fallback failed")

func (g *gaugeInst) cfg(tmo, max, fbmax int64, fbdis bool) circuit.Config {
	var cfg circuit.Config
	cfg.Execution.Timeout = time.Duration(tmo)
	cfg.Execution.MaxConcurrentRequests = max
	cfg.Fallback.MaxConcurrentRequests = fbmax
	cfg.Fallback.Disabled = fbdis
	return cfg
}

// the scenario's close logic never closes anything but is Configurable: SetConfigThreadSafe forwards the new
// configuration to it, which the model has as a step of the reconfiguration (still under the mutex)
type fwdCloser struct {
	circuit.OpenToClosed
	g *gaugeInst
}

func (f fwdCloser) SetConfigThreadSafe(c circuit.Config) {
	verifsched.Mark("Mforward", 0)
	f.g.forwarded = &c
}
func (f fwdCloser) SetConfigNotThreadSafe(circuit.Config) {}

func (g *gaugeInst) Params() interface{} { return g.p }

func (g *gaugeInst) Build(s *verifsched.Sched) []func() {
	c0 := g.cfg(g.p.Tmo, g.p.Max, g.p.FbMax, g.p.FbDis)
	never := circuit.NewCircuitFromConfig("never", circuit.Config{}).OpenToClose
	c0.General.OpenToClosedFactory = func() circuit.OpenToClosed { return fwdCloser{never, g} }
	c := circuit.NewCircuitFromConfig("g", c0)
	// NewCircuitFromConfig merges defaults into zero values; set the raw values
	c.SetConfigThreadSafe(g.cfg(g.p.Tmo, g.p.Max, g.p.FbMax, g.p.FbDis))
	g.c = c
	g.inRun, g.inFb, g.maxRun, g.maxFb = 0, 0, 0, 0
	g.results = make([]int64, len(g.p.Threads))
	g.invoked = make([]bool, len(g.p.Threads))
	v := reflect.ValueOf(c).Elem()
	s.Name(fieldAddr(v, "concurrentCommands"), "Lcmds")
	s.Name(fieldAddr(v, "concurrentFallbacks"), "Lfbs")
	s.Name(fieldAddr(v, "threadSafeConfig", "Execution", "MaxConcurrentRequests"), "Lmax")
	s.Name(fieldAddr(v, "threadSafeConfig", "Fallback", "MaxConcurrentRequests"), "Lfbmax")
	s.Name(fieldAddr(v, "threadSafeConfig", "Fallback", "Disabled"), "Lfbdis")
	s.Name(fieldAddr(v, "threadSafeConfig", "Execution", "ExecutionTimeout"), "Ltimeout")
	s.Name(fieldAddr(v, "notThreadSafeConfigMu"), "Mcfg")
	g.forwarded = nil
	var bodies []func()
	for i, t := range g.p.Threads {
		i, t := i, t
		switch t.Kind {
		case "caller":
			bodies = append(bodies, func() {
				code := int64(-1)
				func() {
					defer func() {
						if r := recover(); r != nil {
							code = 5
						}
					}()
					var fb func(context.Context, error) error
					if t.Fb != "none" {
						fb = func(_ context.Context, _ error) error {
							verifsched.Mark("Mfenter", 0)
							g.inFb++
							if g.inFb > g.maxFb {
								g.maxFb = g.inFb
							}
							rc := map[string]int64{"ok": 0, "err": 1, "panic": 2}[t.Fb]
							verifsched.Mark("Mfexit", rc)
							g.inFb--
							switch t.Fb {
							case "err":
								return errFb
							case "panic":
								panic("fb")
							}
							return nil
						}
					}
					err := c.Execute(context.Background(), func(context.Context) error {
						g.invoked[i] = true
						verifsched.Mark("Menter", 0)
						g.inRun++
						if g.inRun > g.maxRun {
							g.maxRun = g.inRun
						}
						rc := map[string]int64{"ok": 0, "err": 1, "panic": 2}[t.Run]
						verifsched.Mark("Mexit", rc)
						g.inRun--
						switch t.Run {
						case "err":
							return errRun
						case "panic":
							panic("run")
						}
						return nil
					}, fb)
					var ce circuit.Error
					switch {
					case err == nil:
						code = 0
					case err == errRun:
						code = 1
					case err == errFb:
						code = 3
					case errors.As(err, &ce) && ce.ConcurrencyLimitReached():
						code = 2
						if len(err.Error()) > 0 && containsFallback(err.Error()) {
							code = 4
						}
					default:
						code = 9
					}
				}()
				g.results[i] = code
				verifsched.Mark("Mdone", code)
			})
		case "setter":
			bodies = append(bodies, func() { c.SetConfigThreadSafe(g.cfg(t.Tmo, t.Max, t.FbMax, t.FbDis)) })
		case "reader":
			bodies = append(bodies, func() { _ = c.ConcurrentCommands(); _ = c.ConcurrentFallbacks() })
		}
	}
	return bodies
}

func containsFallback(s string) bool {
	for i := 0; i+8 <= len(s); i++ {
		if s[i:i+8] == "fallback" {
			return true
		}
	}
	return false
}

func zc(v int64) string {
	if v < 0 {
		return fmt.Sprintf("(%d)", v)
	}
	return fmt.Sprint(v)
}

func (g *gaugeInst) Init() (string, string) {
	sh := fmt.Sprintf("ginit %s %s %s %v", zc(g.p.Tmo), zc(g.p.Max), zc(g.p.FbMax), g.p.FbDis)
	var pool []string
	for _, t := range g.p.Threads {
		switch t.Kind {
		case "caller":
			run := map[string]string{"ok": "RunOk", "err": "RunErr", "panic": "RunPanic"}[t.Run]
			fb := map[string]string{"none": "FbNone", "ok": "FbOk", "err": "FbErr", "panic": "FbPanic"}[t.Fb]
			pool = append(pool, fmt.Sprintf("Caller %s %s GStart", run, fb))
		case "setter":
			pool = append(pool, fmt.Sprintf("Setter %s %s %s %v 0%%nat", zc(t.Tmo), zc(t.Max), zc(t.FbMax), t.FbDis))
		case "reader":
			pool = append(pool, "Reader 0%nat")
		}
	}
	s := "["
	for i, p := range pool {
		if i > 0 {
			s += "; "
		}
		s += p
	}
	return sh, s + "]"
}

func (g *gaugeInst) Lab(op verifsched.Op) string { return atomicLab(op.Loc, op) }

func (g *gaugeInst) Check(s *verifsched.Sched, c *Case) {
	hasSetter := false
	for _, t := range g.p.Threads {
		if t.Kind == "setter" {
			hasSetter = true
		}
	}
	if !hasSetter {
		if g.p.Max >= 0 && int64(g.maxRun) > g.p.Max {
			c.Viol = append(c.Viol, Violation{"C04: at no instant are more than Execution.MaxConcurrentRequests run functions in flight", fmt.Sprintf("%d in flight, limit %d", g.maxRun, g.p.Max)})
		}
		if g.p.FbMax >= 0 && int64(g.maxFb) > g.p.FbMax {
			c.Viol = append(c.Viol, Violation{"C04: at no instant are more than Fallback.MaxConcurrentRequests fallbacks in flight", fmt.Sprintf("%d in flight, limit %d", g.maxFb, g.p.FbMax)})
		}
		for i, t := range g.p.Threads {
			if t.Kind == "caller" && g.p.Max < 0 && !g.invoked[i] {
				c.Viol = append(c.Viol, Violation{"C04: a negative limit means unlimited", fmt.Sprintf("caller %d was refused", i)})
			}
		}
	} else {
		// C11: each call observes either the old or the new value of every setting: a caller refused by the
		// run limit must have been over one of the limits that were ever in force
		for i, t := range g.p.Threads {
			if t.Kind == "caller" && g.results[i] == 2 && t.Fb == "none" {
				allUnlimitedOrRoomy := true
				limits := []int64{g.p.Max}
				for _, u := range g.p.Threads {
					if u.Kind == "setter" {
						limits = append(limits, u.Max)
					}
				}
				ncallers := int64(0)
				for _, u := range g.p.Threads {
					if u.Kind == "caller" {
						ncallers++
					}
				}
				for _, l := range limits {
					if l >= 0 && l < ncallers {
						allUnlimitedOrRoomy = false
					}
				}
				if allUnlimitedOrRoomy {
					c.Viol = append(c.Viol, Violation{"C11: each call observes, for every setting, either the old or the new value", fmt.Sprintf("caller %d was refused though every limit ever configured admits all %d callers", i, ncallers)})
				}
			}
		}
	}
	if !s.Dead && hasSetter {
		// C11: a reconfiguration is one step for the settings as a whole: at rest the reported configuration, the
		// live values the calls use and what the Configurable logic was handed all belong to ONE reconfiguration
		rep := g.c.Config()
		v := reflect.ValueOf(g.c).Elem()
		live := func(path ...string) int64 { return (*faststats.AtomicInt64)(fieldAddr(v, path...)).Get() }
		lt, lm, lf := live("threadSafeConfig", "Execution", "ExecutionTimeout"), live("threadSafeConfig", "Execution", "MaxConcurrentRequests"), live("threadSafeConfig", "Fallback", "MaxConcurrentRequests")
		if int64(rep.Execution.Timeout) != lt || rep.Execution.MaxConcurrentRequests != lm || rep.Fallback.MaxConcurrentRequests != lf {
			c.Viol = append(c.Viol, Violation{"C11: each call observes, for every setting, either the old or the new value (reported and effective configuration agree at rest)", fmt.Sprintf("Config() reports timeout %d / limits %d, %d but calls use %d / %d, %d", int64(rep.Execution.Timeout), rep.Execution.MaxConcurrentRequests, rep.Fallback.MaxConcurrentRequests, lt, lm, lf)})
			c.Viol = append(c.Viol, Violation{"C07: with Execution.Timeout > 0 the run function receives a context whose deadline is call start plus Timeout (the Timeout the circuit reports)", fmt.Sprintf("Config() reports timeout %d but calls use %d", int64(rep.Execution.Timeout), lt)})
		}
		if g.forwarded != nil && (g.forwarded.Execution.Timeout != rep.Execution.Timeout || g.forwarded.Execution.MaxConcurrentRequests != rep.Execution.MaxConcurrentRequests) {
			c.Viol = append(c.Viol, Violation{"C11: each call observes, for every setting, either the old or the new value (the Configurable open/close logic holds the configuration the circuit reports)", fmt.Sprintf("circuit reports timeout %d / limit %d, its close logic was last handed %d / %d", int64(rep.Execution.Timeout), rep.Execution.MaxConcurrentRequests, int64(g.forwarded.Execution.Timeout), g.forwarded.Execution.MaxConcurrentRequests)})
		}
	}
	if !s.Dead && (g.c.ConcurrentCommands() != 0 || g.c.ConcurrentFallbacks() != 0) {
		c.Viol = append(c.Viol, Violation{"C04: once all calls have returned, by normal return or by panic, ConcurrentCommands and ConcurrentFallbacks read zero", fmt.Sprintf("gauges %d/%d", g.c.ConcurrentCommands(), g.c.ConcurrentFallbacks())})
	}
	for i, t := range g.p.Threads {
		if t.Kind == "caller" {
			if g.results[i] == 2 || g.results[i] == 4 {
				c.Tags = append(c.Tags, "rejected")
			}
			if g.results[i] == 5 {
				c.Tags = append(c.Tags, "panic")
			}
			if g.results[i] == 2 && g.invoked[i] {
				c.Viol = append(c.Viol, Violation{"C04: a call refused for this reason does not invoke the function", fmt.Sprintf("caller %d", i)})
			}
		}
	}
	if g.maxRun > 1 {
		c.Tags = append(c.Tags, "overlap")
	}
	c.Tags = append(c.Tags, fmt.Sprintf("threads:%d", len(g.p.Threads)))
}

func (gaugeScenario) Corpus() []Instance {
	return []Instance{
		// two callers racing for one slot
		&gaugeInst{p: gaugeParams{Tmo: -1, Max: 1, FbMax: 1, Threads: []gThread{{Kind: "caller", Run: "ok", Fb: "none"}, {Kind: "caller", Run: "ok", Fb: "none"}}}},
		// D9b: limit 5 -> -1 while a caller is between its two (formerly) loads
		&gaugeInst{p: gaugeParams{Tmo: int64(time.Hour), Max: 5, FbMax: 5, Threads: []gThread{{Kind: "caller", Run: "ok", Fb: "none"}, {Kind: "setter", Tmo: 0, Max: -1, FbMax: -1}}}},
		// two reconfigurations racing each other and a caller: at rest the settings are those of ONE of them
		&gaugeInst{p: gaugeParams{Tmo: -1, Max: 5, FbMax: 5, Threads: []gThread{{Kind: "setter", Tmo: int64(time.Hour), Max: 1, FbMax: 1}, {Kind: "setter", Tmo: 0, Max: 2, FbMax: -1, FbDis: true}, {Kind: "caller", Run: "err", Fb: "ok"}}}},
		// panics release the gauges; fallback limit 0 rejects
		&gaugeInst{p: gaugeParams{Tmo: -1, Max: 2, FbMax: 0, Threads: []gThread{{Kind: "caller", Run: "panic", Fb: "ok"}, {Kind: "caller", Run: "err", Fb: "ok"}, {Kind: "reader"}}}},
		&gaugeInst{p: gaugeParams{Tmo: 0, Max: 0, FbMax: 1, Threads: []gThread{{Kind: "caller", Run: "ok", Fb: "panic"}, {Kind: "caller", Run: "ok", Fb: "err"}}}},
	}
}

func (gaugeScenario) Draw(r *rand.Rand, i int, tier string) Instance {
	tmos := []int64{-1, 0, int64(time.Hour), 2 * int64(time.Hour)}
	p := gaugeParams{Tmo: tmos[r.Intn(4)], Max: []int64{-1, 0, 1, 1, 2}[r.Intn(5)], FbMax: []int64{-1, 0, 1, 2}[r.Intn(4)], FbDis: r.Intn(8) == 0}
	n := 2 + r.Intn(3)
	for k := 0; k < n; k++ {
		switch x := r.Intn(10); {
		case x < 7 || k < 2:
			p.Threads = append(p.Threads, gThread{Kind: "caller", Run: []string{"ok", "ok", "err", "err", "panic"}[r.Intn(5)], Fb: []string{"none", "none", "ok", "err", "panic"}[r.Intn(5)]})
		case x < 9:
			p.Threads = append(p.Threads, gThread{Kind: "setter", Tmo: tmos[r.Intn(4)], Max: []int64{-1, 0, 1, 5}[r.Intn(4)], FbMax: []int64{-1, 0, 1}[r.Intn(3)], FbDis: r.Intn(3) == 0})
		default:
			p.Threads = append(p.Threads, gThread{Kind: "reader"})
		}
	}
	return &gaugeInst{p: p}
}

func (gaugeScenario) CoqImports() string  { return "From CV Require Import Conc.Sched Conc.Gauge." }
func (gaugeScenario) CoqCaseType() string { return "gauge_case" }
func (gaugeScenario) CoqCheck() string    { return "gauge_mismatches" }
func (gaugeScenario) Exhaustive(inst Instance) bool {
	g := inst.(*gaugeInst)
	return len(g.p.Threads) == 2
}
