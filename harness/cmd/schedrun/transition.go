package main

// Scenario "transition": OpenCircuit / CloseCircuit / failing calls / succeeding
// probes / override changes / IsOpen readers racing on one circuit's open state
// (properties C09, and the level-2 clauses of C01 and C08).

import (
	"context"
	"encoding/json"
	"errors"
	"fmt"
	"math/rand"
	"reflect"
	"strings"
	"time"

	"github.com/cep21/circuit/v4"
	"github.com/cep21/circuit/v4/verifsched"
)

type tThread struct {
	Kind string `json:"kind"` // gate open close set fail succeed
	Fc   bool   `json:"fc,omitempty"`
	Fo   bool   `json:"fo,omitempty"`
}

type transParams struct {
	Fo      bool      `json:"fo"`
	Fc      bool      `json:"fc"`
	Threads []tThread `json:"threads"`
}

type transInst struct {
	p       transParams
	c       *circuit.Circuit
	log     []string
	results []int64
	closerOpened int
	unarmedAllow bool
	rawOpen      *verifsched.Bool
}

type scriptedOpener struct{}

func (scriptedOpener) Success(context.Context, time.Time, time.Duration)       {}
func (scriptedOpener) ErrFailure(context.Context, time.Time, time.Duration)    {}
func (scriptedOpener) ErrTimeout(context.Context, time.Time, time.Duration)    {}
func (scriptedOpener) ErrBadRequest(context.Context, time.Time, time.Duration) {}
func (scriptedOpener) ErrInterrupt(context.Context, time.Time, time.Duration)  {}
func (scriptedOpener) ErrConcurrencyLimitReject(context.Context, time.Time)    {}
func (scriptedOpener) ErrShortCircuit(context.Context, time.Time)              {}
func (scriptedOpener) Opened(context.Context, time.Time)                       {}
func (scriptedOpener) Closed(context.Context, time.Time)                       {}
func (scriptedOpener) ShouldOpen(context.Context, time.Time) bool              { return true }
func (scriptedOpener) Prevent(context.Context, time.Time) bool                 { return false }

// the scripted closer admits every probe (the model's gate says so) but remembers whether it was ever asked to
// admit a call on an open circuit BEFORE it had been told of any opening: the real hystrix closer arms its
// sleep window in Opened, so a closer asked that early would be an un-armed gate that lets the call through
type scriptedCloser struct {
	scriptedOpener
	g *transInst
}

func (c scriptedCloser) Opened(context.Context, time.Time) {
	verifsched.Pause() // the closer has been called but has not armed itself yet
	c.g.closerOpened++
}
func (scriptedCloser) ShouldClose(context.Context, time.Time) bool   { return true }
func (c scriptedCloser) Allow(context.Context, time.Time) bool {
	// asked while the circuit's own open flag is set although no opening has been announced to this closer yet.
	// (A caller that saw a ForceOpen override which was cleared a moment later also ends up here, with the flag
	// clear: the circuit is closed, admitting the call is right, and that is no finding.)
	if c.g.closerOpened == 0 && c.g.rawOpen != nil && c.g.rawOpen.Peek() {
		c.g.unarmedAllow = true
	}
	return true
}

type noteCollector struct{ g *transInst }

func (n noteCollector) Opened(context.Context, time.Time) {
	verifsched.Mark("Mopened", 0)
	n.g.log = append(n.g.log, "Opened")
}
func (n noteCollector) Closed(context.Context, time.Time) {
	verifsched.Mark("Mclosed", 0)
	n.g.log = append(n.g.log, "Closed")
}

type transScenario struct{}

func init() {
	scenarios["transition"] = transScenario{}
	paramLoaders["transition"] = func(b []byte) Instance {
		var p transParams
		must(json.Unmarshal(b, &p))
		return &transInst{p: p}
	}
}

func (g *transInst) Params() interface{} { return g.p }

func (g *transInst) cfg(fo, fc bool) circuit.Config {
	var cfg circuit.Config
	cfg.General.ForceOpen, cfg.General.ForcedClosed = fo, fc
	cfg.Execution.Timeout = -1
	cfg.Execution.MaxConcurrentRequests = -1
	cfg.Fallback.MaxConcurrentRequests = -1
	return cfg
}

func (g *transInst) Build(s *verifsched.Sched) []func() {
	cfg := g.cfg(g.p.Fo, g.p.Fc)
	cfg.General.ClosedToOpenFactory = func() circuit.ClosedToOpen { return scriptedOpener{} }
	cfg.General.OpenToClosedFactory = func() circuit.OpenToClosed { return scriptedCloser{g: g} }
	cfg.Metrics.Circuit = []circuit.Metrics{noteCollector{g}}
	c := circuit.NewCircuitFromConfig("t", cfg)
	g.c, g.log = c, nil
	g.closerOpened, g.unarmedAllow = 0, false
	v := reflect.ValueOf(c).Elem()
	s.Name(fieldAddr(v, "threadSafeConfig", "CircuitBreaker", "ForceOpen"), "Lfo")
	s.Name(fieldAddr(v, "threadSafeConfig", "CircuitBreaker", "ForcedClosed"), "Lfc")
	s.Name(fieldAddr(v, "isOpen"), "Lopen")
	g.rawOpen = (*verifsched.Bool)(fieldAddr(v, "isOpen"))
	s.Name(fieldAddr(v, "transitionMu"), "Mtm")
	g.results = make([]int64, len(g.p.Threads))
	errFail := errors.New("fail")
	var bodies []func()
	for i, t := range g.p.Threads {
		i, t := i, t
		bodies = append(bodies, func() {
			r := int64(0)
			switch t.Kind {
			case "gate":
				if c.IsOpen() {
					r = 1
				}
			case "open":
				c.OpenCircuit(context.Background())
			case "close":
				c.CloseCircuit(context.Background())
			case "set":
				c.SetConfigThreadSafe(g.cfg(t.Fo, t.Fc))
			case "fail", "succeed":
				err := c.Run(context.Background(), func(context.Context) error {
					if t.Kind == "fail" {
						return errFail
					}
					return nil
				})
				var ce circuit.Error
				switch {
				case err == nil:
					r = 0
				case err == errFail:
					r = 1
				case errors.As(err, &ce) && ce.CircuitOpen():
					r = 2
				default:
					r = 9
				}
			}
			g.results[i] = r
			verifsched.Mark("Mdone", r)
		})
	}
	return bodies
}

func (g *transInst) Init() (string, string) {
	var pool []string
	for _, t := range g.p.Threads {
		k := map[string]string{"gate": "KGate", "open": "KOpen", "close": "KClose", "fail": "KFail", "succeed": "KSucceed"}[t.Kind]
		if t.Kind == "set" {
			k = fmt.Sprintf("(KSet %v %v)", t.Fc, t.Fo)
		}
		pool = append(pool, "tthread0 "+k)
	}
	return fmt.Sprintf("tinit %v %v", g.p.Fo, g.p.Fc), "[" + strings.Join(pool, "; ") + "]"
}

func (g *transInst) Lab(op verifsched.Op) string { return atomicLab(op.Loc, op) }

func (g *transInst) Check(s *verifsched.Sched, c *Case) {
	for i, k := range g.log {
		want := "Opened"
		if i%2 == 1 {
			want = "Closed"
		}
		if k != want {
			c.Viol = append(c.Viol, Violation{"C09: the notifications strictly alternate starting with Opened", fmt.Sprintf("log %v", g.log)})
			break
		}
	}
	if g.unarmedAllow {
		c.Viol = append(c.Viol, Violation{"C01: while a circuit is open the close logic decides admission only after it was told of the opening (a closer asked earlier is an un-armed gate that admits the call)", "Allow was consulted for an open circuit before any Opened notification reached the closer"})
		c.Viol = append(c.Viol, Violation{"C03: no call that starts after the opening and within SleepWindow of it runs the protected function", "Allow was consulted for an open circuit before any Opened notification reached the closer: its sleep window is not armed yet"})
	}
	if s.Dead {
		return
	}
	// quiescent: read the final overrides and the state
	fo, fc := g.p.Fo, g.p.Fc
	lastSet := -1
	for _, op := range s.Trace {
		if op.Kind == "store" && op.Loc == "Lfo" {
			fo = op.Arg == 1
			lastSet = op.Tid
		}
		if op.Kind == "store" && op.Loc == "Lfc" {
			fc = op.Arg == 1
		}
	}
	_ = lastSet
	if !fo && !fc {
		last := ""
		if len(g.log) > 0 {
			last = g.log[len(g.log)-1]
		}
		if g.c.IsOpen() != (last == "Opened") {
			c.Viol = append(c.Viol, Violation{"C09: whenever the circuit is quiescent and not overridden, IsOpen is true exactly when the last notification was Opened", fmt.Sprintf("IsOpen %v, log %v", g.c.IsOpen(), g.log)})
		}
	}
	if fo && !g.c.IsOpen() {
		c.Viol = append(c.Viol, Violation{"C08: ForceOpen makes IsOpen true", "IsOpen false at rest"})
	}
	if len(g.log) > 0 {
		c.Tags = append(c.Tags, fmt.Sprintf("transitions:%d", len(g.log)))
	}
	blockedOnce := false
	for _, ch := range s.Choices {
		_ = ch
	}
	_ = blockedOnce
	c.Tags = append(c.Tags, fmt.Sprintf("threads:%d", len(g.p.Threads)))
}

func (transScenario) Corpus() []Instance {
	return []Instance{
		// a caller racing the opening transition: the flag must not be visible before the closer was told
		&transInst{p: transParams{Threads: []tThread{{Kind: "open"}, {Kind: "succeed"}}}},
		// D10: concurrent OpenCircuit must notify once
		&transInst{p: transParams{Threads: []tThread{{Kind: "open"}, {Kind: "open"}}}},
		// D10: open / open / close: isOpen must agree with the last notification
		&transInst{p: transParams{Threads: []tThread{{Kind: "open"}, {Kind: "open"}, {Kind: "close"}}}},
		// failing call racing OpenCircuit and a closing probe
		&transInst{p: transParams{Threads: []tThread{{Kind: "fail"}, {Kind: "open"}, {Kind: "succeed"}}}},
		// override changes racing the gate and a manual open
		&transInst{p: transParams{Threads: []tThread{{Kind: "set", Fo: true}, {Kind: "gate"}, {Kind: "open"}, {Kind: "set", Fc: true}}}},
	}
}

func (transScenario) Draw(r *rand.Rand, i int, tier string) Instance {
	p := transParams{Fo: r.Intn(10) == 0, Fc: r.Intn(10) == 0}
	n := 2 + r.Intn(3)
	for k := 0; k < n; k++ {
		switch x := r.Intn(12); {
		case x < 3:
			p.Threads = append(p.Threads, tThread{Kind: "open"})
		case x < 5:
			p.Threads = append(p.Threads, tThread{Kind: "close"})
		case x < 7:
			p.Threads = append(p.Threads, tThread{Kind: "fail"})
		case x < 9:
			p.Threads = append(p.Threads, tThread{Kind: "succeed"})
		case x < 10:
			p.Threads = append(p.Threads, tThread{Kind: "gate"})
		default:
			p.Threads = append(p.Threads, tThread{Kind: "set", Fc: r.Intn(3) == 0, Fo: r.Intn(3) == 0})
		}
	}
	return &transInst{p: p}
}

func (transScenario) CoqImports() string  { return "From CV Require Import Conc.Sched Conc.Transition." }
func (transScenario) CoqCaseType() string { return "trans_case" }
func (transScenario) CoqCheck() string    { return "trans_mismatches" }
func (transScenario) Exhaustive(inst Instance) bool {
	g := inst.(*transInst)
	return len(g.p.Threads) == 2
}
