// schedrun: level-2 trace correspondence driver (DESIGN.md 2.3b).  Built with
// `go build -overlay` so that the library's atomics and mutexes are the
// instrumented drop-ins of package verifsched.  For a scenario it creates the
// real objects, names the locations of the scenario's projection, runs a few
// real operations as scheduled threads under explicit / seeded-random / exhaustive
// schedules, and writes each execution's visible trace together with the initial
// model state as a Coq case that the level-2 model replays step by step.
package main

import (
	"encoding/json"
	"flag"
	"fmt"
	"math/rand"
	"os"
	"strings"

	"github.com/cep21/circuit/v4/verifsched"
)

type Violation struct {
	Clause string `json:"clause"`
	Detail string `json:"detail"`
}

type Case struct {
	ID       int         `json:"id"`
	Scenario string      `json:"scenario"`
	Params   interface{} `json:"params"`
	Policy   string      `json:"policy"`
	Schedule []int       `json:"schedule"` // scheduler choices (replayable)
	Init     string      `json:"init"`     // Coq: shared state and pool
	Trace    []string    `json:"trace"`    // Coq: (tid, lab) per visible step
	Viol     []Violation `json:"violations,omitempty"`
	Tags     []string    `json:"tags,omitempty"`
	Dead     bool        `json:"deadlock,omitempty"`
}

type File struct {
	Scenario string         `json:"scenario"`
	Seed     int64          `json:"seed"`
	Tier     string         `json:"tier"`
	Cases    []*Case        `json:"cases"`
	Dist     map[string]int `json:"distribution"`
	Exhaust  map[string]int `json:"exhaustive_spaces,omitempty"`
}

// Instance is one concrete scenario instance: fresh real objects each time Build is called.
type Instance interface {
	// Build creates the real objects, names visible locations on s, and returns the thread bodies.
	Build(s *verifsched.Sched) []func()
	// Init is the Coq term "(shared, pool)" pieces: shared state and pool list.
	Init() (shared string, pool string)
	// Lab renders one visible step as a Coq `lab`.
	Lab(op verifsched.Op) string
	// Check evaluates the property's own clauses on the finished execution.
	Check(s *verifsched.Sched, c *Case)
	Params() interface{}
}

type Scenario interface {
	Draw(r *rand.Rand, i int, tier string) Instance
	Corpus() []Instance
	CoqImports() string
	CoqCaseType() string
	CoqCheck() string
	Exhaustive(inst Instance) bool // small enough to enumerate all interleavings
}

var scenarios = map[string]Scenario{}

func atomicLab(loc string, op verifsched.Op) string {
	z := func(v int64) string {
		if v < 0 {
			return fmt.Sprintf("(%d)", v)
		}
		return fmt.Sprint(v)
	}
	switch op.Kind {
	case "load":
		return fmt.Sprintf("LAtomic %s OpLoad 0 %s", loc, z(op.Res))
	case "store":
		return fmt.Sprintf("LAtomic %s OpStore %s 0", loc, z(op.Arg))
	case "add":
		return fmt.Sprintf("LAtomic %s OpAdd %s %s", loc, z(op.Arg), z(op.Res))
	case "swap":
		return fmt.Sprintf("LAtomic %s OpSwap %s %s", loc, z(op.Arg), z(op.Res))
	case "cas":
		return fmt.Sprintf("LCas %s %s %s %v", loc, z(op.Arg), z(op.Arg2), op.Res == 1)
	case "lock":
		return "LLock " + loc
	case "unlock":
		return "LUnlock " + loc
	case "rlock":
		return "LRLock " + loc
	case "runlock":
		return "LRUnlock " + loc
	case "mark":
		return fmt.Sprintf("LMark %s %s", loc, z(op.Arg))
	}
	return "LMark 999%nat 0"
}

// runOnce executes inst under the pick function and records the case.
func runOnce(inst Instance, pick func(enabled []int, step int) int, policy string) (*Case, *verifsched.Sched) {
	s := verifsched.New()
	bodies := inst.Build(s)
	s.Run(bodies, pick)
	c := &Case{Params: inst.Params(), Policy: policy, Schedule: append([]int{}, s.Choices...), Dead: s.Dead}
	sh, pool := inst.Init()
	c.Init = sh + ", " + pool
	for _, op := range s.Trace {
		c.Trace = append(c.Trace, fmt.Sprintf("(%d%%nat, %s)", op.Tid, inst.Lab(op)))
	}
	if s.Dead {
		c.Viol = append(c.Viol, Violation{"C11: control-plane and diagnostic operations may run concurrently with traffic without deadlock", "live threads remain but none is enabled"})
	}
	inst.Check(s, c)
	return c, s
}

func main() {
	if len(os.Args) < 3 {
		fmt.Fprintln(os.Stderr, "usage: schedrun <scenario> gen|emit|replay [flags]")
		os.Exit(2)
	}
	sc, ok := scenarios[os.Args[1]]
	if !ok {
		fmt.Fprintln(os.Stderr, "unknown scenario", os.Args[1])
		os.Exit(2)
	}
	fs := flag.NewFlagSet(os.Args[2], flag.ExitOnError)
	seed := fs.Int64("seed", 1, "VERIF_SEED")
	tier := fs.String("tier", "quick", "quick|thorough")
	n := fs.Int("n", 200, "number of random-schedule executions")
	shard := fs.Int("shard", 0, "shard")
	in := fs.String("in", "", "input")
	out := fs.String("out", "", "output")
	maxExh := fs.Int("maxexh", 1200, "cap on schedules per exhaustively explored instance")
	nExh := fs.Int("exh", 1, "number of instances to explore exhaustively")
	_ = fs.Parse(os.Args[3:])
	switch os.Args[2] {
	case "gen":
		f := &File{Scenario: os.Args[1], Seed: *seed, Tier: *tier, Dist: map[string]int{}, Exhaust: map[string]int{}}
		r := rand.New(rand.NewSource(*seed*7919 + int64(*shard)*104729 + 17))
		add := func(c *Case) {
			c.ID = len(f.Cases)
			c.Scenario = os.Args[1]
			f.Cases = append(f.Cases, c)
			for _, t := range c.Tags {
				f.Dist[t]++
			}
			f.Dist["policy:"+strings.SplitN(c.Policy, ":", 2)[0]]++
		}
		var insts []Instance
		if *shard == 0 {
			insts = append(insts, sc.Corpus()...)
		}
		for i := 0; len(insts) < *n/4+1; i++ {
			insts = append(insts, sc.Draw(r, i, *tier))
		}
		budget := *n
		exhDone := 0
		for ii, inst := range insts {
			// the canonical sequential orders
			nthreads := 0
			{
				c, s := runOnce(inst, func(en []int, _ int) int { return en[0] }, "sequential:forward")
				nthreads = len(s.Choices)
				_ = nthreads
				add(c)
			}
			add(first(runOnce(inst, func(en []int, _ int) int { return en[len(en)-1] }, "sequential:backward")))
			// every schedule with ONE switch: thread a runs k steps, then thread b runs as far as it can, then the rest
			// (systematic, for the corpus and the first 4 drawn instances; the first 24 in the thorough tier)
			if ii < len(sc.Corpus())+4 || (*tier == "thorough" && ii < len(sc.Corpus())+24) {
				_, s0 := runOnce(inst, func(en []int, _ int) int { return en[0] }, "probe")
				steps := map[int]int{}
				for _, ch := range s0.Choices {
					steps[ch]++
				}
				for a := range steps {
					for b := range steps {
						if a == b {
							continue
						}
						for k := 1; k < steps[a]; k++ {
							a, b, k := a, b, k
							done, stage := 0, 0
							pick := func(en []int, _ int) int {
								has := func(x int) bool {
									for _, e := range en {
										if e == x {
											return true
										}
									}
									return false
								}
								if stage == 0 {
									if has(a) && done < k {
										done++
										return a
									}
									stage = 1
								}
								if stage == 1 {
									if has(b) {
										return b
									}
									stage = 2
								}
								if has(a) {
									return a
								}
								return en[0]
							}
							add(first(runOnce(inst, pick, "one-switch")))
						}
					}
				}
				// ... and with TWO visitors: thread a runs k steps and is parked, b runs as far as it can, then c, then
				// a goes on (what a third party sees and does while a sits between two of its steps and b has been by)
				for a := range steps {
					if !(ii < len(sc.Corpus())+2 || (*tier == "thorough" && ii < len(sc.Corpus())+12)) {
						break // two visitors: the corpus and the first 2 drawn instances (12 in the thorough tier)
					}
					for b := range steps {
						for c := range steps {
							if a == b || a == c || b == c {
								continue
							}
							for k := 1; k < steps[a]; k++ {
								a, b, c, k := a, b, c, k
								done, stage := 0, 0
								pick := func(en []int, _ int) int {
									has := func(x int) bool {
										for _, e := range en {
											if e == x {
												return true
											}
										}
										return false
									}
									if stage == 0 {
										if has(a) && done < k {
											done++
											return a
										}
										stage = 1
									}
									if stage == 1 {
										if has(b) {
											return b
										}
										stage = 2
									}
									if stage == 2 {
										if has(c) {
											return c
										}
										stage = 3
									}
									if has(a) {
										return a
									}
									return en[0]
								}
								add(first(runOnce(inst, pick, "two-visitors")))
							}
						}
					}
				}
			}
			// exhaustive enumeration by DFS over choice prefixes, when small
			if sc.Exhaustive(inst) && exhDone < *nExh {
				exhDone++
				count := exhaust(inst, *maxExh, add)
				f.Exhaust[fmt.Sprintf("instance_%d", ii)] = count
				continue
			}
			// seeded random schedules with a bounded number of preemptions
			per := budget/len(insts) + 1
			for k := 0; k < per; k++ {
				maxPre := 1 + r.Intn(3)
				if *tier == "thorough" {
					maxPre = 1 + r.Intn(6)
				}
				pre := 0
				cur := -1
				rr := rand.New(rand.NewSource(r.Int63()))
				pick := func(en []int, _ int) int {
					has := false
					for _, e := range en {
						if e == cur {
							has = true
						}
					}
					if has && (pre >= maxPre || rr.Intn(4) != 0) {
						return cur
					}
					if has {
						pre++
					}
					cur = en[rr.Intn(len(en))]
					return cur
				}
				add(first(runOnce(inst, pick, fmt.Sprintf("random:preempt<=%d", maxPre))))
			}
		}
		must(save(f, *out))
	case "replay":
		// re-execute stored cases under their recorded choices
		f, err := load(*in)
		must(err)
		g := &File{Scenario: f.Scenario, Seed: f.Seed, Tier: f.Tier, Dist: map[string]int{}}
		for _, old := range f.Cases {
			b, _ := json.Marshal(old.Params)
			inst := fromParams(os.Args[1], b)
			sched := old.Schedule
			c, _ := runOnce(inst, func(en []int, step int) int {
				if step < len(sched) {
					for _, e := range en {
						if e == sched[step] {
							return e
						}
					}
				}
				return en[0]
			}, "replay")
			c.ID = old.ID
			g.Cases = append(g.Cases, c)
		}
		must(save(g, *out))
	case "emit":
		f, err := load(*in)
		must(err)
		w, err := os.Create(*out)
		must(err)
		fmt.Fprintln(w, sc.CoqImports())
		fmt.Fprintf(w, "Definition cases : list %s := [\n", sc.CoqCaseType())
		for i, c := range f.Cases {
			sep := ";"
			if i == len(f.Cases)-1 {
				sep = ""
			}
			fmt.Fprintf(w, " (%d%%nat, %s,\n   [%s])%s\n", c.ID, c.Init, strings.Join(c.Trace, "; "), sep)
		}
		fmt.Fprintln(w, "].")
		fmt.Fprintf(w, "Definition result := Eval vm_compute in %s cases.\nPrint result.\n", sc.CoqCheck())
		must(w.Close())
	}
}

func first(c *Case, _ *verifsched.Sched) *Case { return c }

// exhaust enumerates every interleaving of the instance's visible steps (DFS over choice prefixes).
func exhaust(inst Instance, limit int, add func(*Case)) int {
	prefixes := [][]int{nil}
	count := 0
	for len(prefixes) > 0 && count < limit {
		pre := prefixes[len(prefixes)-1]
		prefixes = prefixes[:len(prefixes)-1]
		var taken []int
		var branch [][]int
		c, _ := runOnce(inst, func(en []int, step int) int {
			var ch int
			if step < len(pre) {
				ch = pre[step]
			} else {
				ch = en[0]
				for _, alt := range en[1:] {
					branch = append(branch, append(append([]int{}, taken...), alt))
				}
			}
			taken = append(taken, ch)
			return ch
		}, "exhaustive")
		prefixes = append(prefixes, branch...)
		add(c)
		count++
	}
	if len(prefixes) == 0 {
		return count
	}
	return -count // truncated
}

func save(f *File, path string) error {
	b, err := json.MarshalIndent(f, "", " ")
	if err != nil {
		return err
	}
	return os.WriteFile(path, b, 0o644)
}

func load(path string) (*File, error) {
	b, err := os.ReadFile(path)
	if err != nil {
		return nil, err
	}
	var f File
	return &f, json.Unmarshal(b, &f)
}

func must(err error) {
	if err != nil {
		fmt.Fprintln(os.Stderr, "schedrun:", err)
		os.Exit(3)
	}
}

var paramLoaders = map[string]func([]byte) Instance{}

func fromParams(sc string, b []byte) Instance { return paramLoaders[sc](b) }
